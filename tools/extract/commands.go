package main

// commands.go (fact family G3): the command table — every `Commands[k] = &ircCommand{Func, MinParams}`
// (and aliases `Commands[a] = Commands[b]`, shared *ircCommand variables) in package ircserver.

import (
	"go/ast"
	"go/token"
	"sort"
	"strconv"
	"strings"
)

func init() { extraGenerators = append(extraGenerators, (*extractor).genCommands) }

type cmdFact struct {
	Name      string
	Func      string
	MinParams int
	EnvGuard  bool
}

func (x *extractor) genCommands() {
	p := x.pkg("internal/ircserver")
	var facts []cmdFact
	if p != nil {
		for _, f := range p.Syntax {
			if strings.HasSuffix(p.Fset.Position(f.Pos()).Filename, "_test.go") {
				continue
			}
			for _, d := range f.Decls {
				fd, ok := d.(*ast.FuncDecl)
				if !ok || fd.Name.Name != "init" || fd.Body == nil {
					continue
				}
				vars := map[string]cmdFact{} // local variables holding an *ircCommand
				lit := func(e ast.Expr) (cmdFact, bool) {
					if u, ok := e.(*ast.UnaryExpr); ok && u.Op == token.AND {
						e = u.X
					}
					cl, ok := e.(*ast.CompositeLit)
					if !ok {
						return cmdFact{}, false
					}
					var cf cmdFact
					for _, el := range cl.Elts {
						kv, ok := el.(*ast.KeyValueExpr)
						if !ok {
							continue
						}
						k, _ := kv.Key.(*ast.Ident)
						if k == nil {
							continue
						}
						switch k.Name {
						case "Func":
							cf.Func = funcRef(kv.Value)
						case "MinParams":
							if bl, ok := kv.Value.(*ast.BasicLit); ok {
								cf.MinParams, _ = strconv.Atoi(bl.Value)
							}
						}
					}
					return cf, true
				}
				var walk func(stmts []ast.Stmt, guarded bool)
				walk = func(stmts []ast.Stmt, guarded bool) {
					for _, st := range stmts {
						switch s := st.(type) {
						case *ast.IfStmt:
							walk(s.Body.List, true)
						case *ast.AssignStmt:
							if len(s.Lhs) != 1 || len(s.Rhs) != 1 {
								continue
							}
							if id, ok := s.Lhs[0].(*ast.Ident); ok {
								if cf, ok := lit(s.Rhs[0]); ok {
									vars[id.Name] = cf
								}
								continue
							}
							ix, ok := s.Lhs[0].(*ast.IndexExpr)
							if !ok {
								continue
							}
							if id, ok := ix.X.(*ast.Ident); !ok || id.Name != "Commands" {
								continue
							}
							key, ok := ix.Index.(*ast.BasicLit)
							if !ok {
								continue
							}
							name, _ := strconv.Unquote(key.Value)
							if cf, ok := lit(s.Rhs[0]); ok {
								cf.Name, cf.EnvGuard = name, guarded
								facts = append(facts, cf)
							} else if id, ok := s.Rhs[0].(*ast.Ident); ok {
								if cf, ok := vars[id.Name]; ok {
									cf.Name, cf.EnvGuard = name, guarded
									facts = append(facts, cf)
								}
							} else if ix2, ok := s.Rhs[0].(*ast.IndexExpr); ok {
								// Commands["server_PING"] = Commands["PING"]
								if k2, ok := ix2.Index.(*ast.BasicLit); ok {
									n2, _ := strconv.Unquote(k2.Value)
									facts = append(facts, cmdFact{Name: name, Func: "=" + n2, EnvGuard: guarded})
								}
							}
						}
					}
				}
				walk(fd.Body.List, false)
			}
		}
	}
	// resolve aliases
	byName := map[string]cmdFact{}
	for _, f := range facts {
		byName[f.Name] = f
	}
	for i, f := range facts {
		if strings.HasPrefix(f.Func, "=") {
			if t, ok := byName[f.Func[1:]]; ok {
				facts[i].Func, facts[i].MinParams = t.Func, t.MinParams
			}
		}
	}
	sort.Slice(facts, func(i, j int) bool { return facts[i].Name < facts[j].Name })
	var b strings.Builder
	b.WriteString(genHeader)
	b.WriteString("namespace Robust.Gen.Commands\n\n")
	b.WriteString("/-- (command key, handler function, MinParams, registered only under an environment guard) -/\n")
	b.WriteString("def commands : List (String × String × Nat × Bool) := [\n")
	for i, f := range facts {
		b.WriteString("  (" + leanStr(f.Name) + ", " + leanStr(f.Func) + ", " + strconv.Itoa(f.MinParams) + ", " + strconv.FormatBool(f.EnvGuard) + ")")
		if i+1 < len(facts) {
			b.WriteString(",")
		}
		b.WriteString("\n")
	}
	b.WriteString("]\n\nend Robust.Gen.Commands\n")
	x.files["Commands.lean"] = b.String()
	x.facts["commands"] = facts
}

func funcRef(e ast.Expr) string {
	switch v := e.(type) {
	case *ast.SelectorExpr:
		return v.Sel.Name
	case *ast.FuncLit:
		return "<funclit>"
	case *ast.Ident:
		return v.Name
	}
	return "?"
}
