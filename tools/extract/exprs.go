package main

// exprs.go (fact family G7): small expression facts about decision logic in the API handlers,
// the session lookup and the expiry sweep — conditions, message-literal fields and call order.

import (
	"fmt"
	"go/ast"
	"go/token"
	"sort"
	"strings"

	"golang.org/x/tools/go/packages"
)

func init() { extraGenerators = append(extraGenerators, (*extractor).genExprs) }

// ifConds returns the printed conditions of all if statements in fd, in source order.
func ifConds(p *packages.Package, fd *ast.FuncDecl) []string {
	var out []string
	ast.Inspect(fd.Body, func(n ast.Node) bool {
		if is, ok := n.(*ast.IfStmt); ok {
			out = append(out, exprString(p.Fset, is.Cond))
		}
		return true
	})
	return out
}

func findIf(p *packages.Package, fd *ast.FuncDecl, sub string) *ast.IfStmt {
	var res *ast.IfStmt
	ast.Inspect(fd.Body, func(n ast.Node) bool {
		if is, ok := n.(*ast.IfStmt); ok && res == nil && strings.Contains(exprString(p.Fset, is.Cond), sub) {
			res = is
		}
		return true
	})
	return res
}

// localDefs maps identifiers defined with `x := e` / `x = e` (single assignment in the function) to e.
func localDefs(p *packages.Package, fd *ast.FuncDecl) map[string]string {
	defs := map[string]string{}
	count := map[string]int{}
	ast.Inspect(fd.Body, func(n ast.Node) bool {
		as, ok := n.(*ast.AssignStmt)
		if !ok {
			return true
		}
		if len(as.Lhs) == len(as.Rhs) {
			for i, l := range as.Lhs {
				if id, ok := l.(*ast.Ident); ok {
					defs[id.Name] = exprString(p.Fset, as.Rhs[i])
					count[id.Name]++
				}
			}
		}
		return true
	})
	for k, c := range count {
		if c != 1 {
			delete(defs, k)
		}
	}
	return defs
}

// literalFields returns field -> printed value of the first composite literal of the named type.
func literalFields(p *packages.Package, fd *ast.FuncDecl, typeSuffix string) map[string]string {
	res := map[string]string{}
	defs := localDefs(p, fd)
	done := false
	ast.Inspect(fd.Body, func(n ast.Node) bool {
		cl, ok := n.(*ast.CompositeLit)
		if !ok || done || cl.Type == nil || !strings.HasSuffix(exprString(p.Fset, cl.Type), typeSuffix) {
			return true
		}
		done = true
		for _, el := range cl.Elts {
			if kv, ok := el.(*ast.KeyValueExpr); ok {
				v := exprString(p.Fset, kv.Value)
				if id, ok := kv.Value.(*ast.Ident); ok {
					if d, ok := defs[id.Name]; ok {
						v = d
					}
				}
				res[exprString(p.Fset, kv.Key)] = v
			}
		}
		return false
	})
	return res
}

// firstPos returns the position of the first call whose printed function contains sub (or NoPos).
func firstCallPos(p *packages.Package, fd *ast.FuncDecl, sub string) token.Pos {
	pos := token.NoPos
	ast.Inspect(fd.Body, func(n ast.Node) bool {
		if c, ok := n.(*ast.CallExpr); ok && pos == token.NoPos && strings.Contains(exprString(p.Fset, c.Fun), sub) {
			pos = c.Pos()
		}
		return true
	})
	return pos
}

func bodyString(p *packages.Package, is *ast.IfStmt) string {
	var parts []string
	for _, s := range is.Body.List {
		parts = append(parts, stmtString(p.Fset, s))
	}
	return strings.Join(parts, "; ")
}

func (x *extractor) genExprs() {
	facts := map[string]string{}
	api := x.pkg("internal/api")
	irc := x.pkg("internal/ircserver")
	put := func(k, v string) { facts[k] = v }
	if fd := findFunc(api, "HTTP", "handlePostMessage"); fd != nil {
		if is := findIf(api, fd, "LastPostMessage"); is != nil {
			put("post.dedupe.cond", exprString(api.Fset, is.Cond))
			put("post.dedupe.body", bodyString(api, is))
			before := "true"
			for _, c := range []string{"applyMessageWait", "maybeProxyToLeader", "raftNode.State"} {
				if pos := firstCallPos(api, fd, c); pos != token.NoPos && pos < is.Pos() {
					before = "false"
				}
			}
			put("post.dedupe.first", before)
		}
		for k, v := range literalFields(api, fd, "robust.Message") {
			put("post.msg."+k, v)
		}
	}
	if fd := findFunc(api, "HTTP", "handleDeleteSession"); fd != nil {
		for k, v := range literalFields(api, fd, "robust.Message") {
			put("delete.msg."+k, v)
		}
	}
	if fd := findFunc(api, "HTTP", "applyConfig"); fd != nil {
		conds := ifConds(api, fd)
		if len(conds) > 0 {
			put("config.revtest", conds[0])
		}
		if is := findIf(api, fd, "!="); is != nil && is.Init != nil {
			put("config.revtest.init", stmtString(api.Fset, is.Init))
		}
		for k, v := range literalFields(api, fd, "robust.Message") {
			put("config.msg."+k, v)
		}
	}
	if fd := findFunc(api, "HTTP", "applyMessageWait"); fd != nil {
		put("apply.conds", strings.Join(ifConds(api, fd), " ;; "))
		idPos, errPos := token.NoPos, firstCallPos(api, fd, "f.Error")
		ast.Inspect(fd.Body, func(n ast.Node) bool {
			if as, ok := n.(*ast.AssignStmt); ok && len(as.Lhs) == 1 && exprString(api.Fset, as.Lhs[0]) == "msg.Id.Id" {
				idPos = as.Pos()
			}
			return true
		})
		if idPos != token.NoPos && errPos != token.NoPos && errPos < idPos {
			put("apply.idAfterErrorCheck", "true")
		} else {
			put("apply.idAfterErrorCheck", "false")
		}
		// the handler must wait for the commit itself: no goroutine, select or timer that could make it
		// return while the entry is still in flight (a client that is told "failed" retries)
		async := 0
		var waits []string
		ast.Inspect(fd.Body, func(n ast.Node) bool {
			switch v := n.(type) {
			case *ast.GoStmt, *ast.SelectStmt:
				async++
			case *ast.IfStmt:
				if v.Init != nil && strings.Contains(stmtString(api.Fset, v.Init), "f.Error()") {
					waits = append(waits, stmtString(api.Fset, v.Init)+" ; "+exprString(api.Fset, v.Cond)+" ; "+strings.Join(strings.Fields(stmtString(api.Fset, v.Body)), " "))
				}
			case *ast.CallExpr:
				if strings.HasPrefix(exprString(api.Fset, v.Fun), "time.After") {
					async++
				}
			}
			return true
		})
		put("apply.async", fmt.Sprint(async))
		put("apply.wait", strings.Join(waits, " || "))
	}
	if fd := findFunc(api, "HTTP", "handleGetMessages"); fd != nil {
		if is := findIf(api, fd, "InterestingFor"); is != nil {
			put("getmessages.filter", exprString(api.Fset, is.Cond))
			put("getmessages.filter.body", bodyString(api, is))
		}
	}
	if fd := findFunc(irc, "IRCServer", "getSessionLocked"); fd != nil {
		put("getsession.conds", strings.Join(ifConds(irc, fd), " ;; "))
	}
	if fd := findFunc(irc, "IRCServer", "ExpireSessions"); fd != nil {
		put("expire.conds", strings.Join(ifConds(irc, fd), " ;; "))
		for k, v := range literalFields(irc, fd, "robust.Message") {
			put("expire.msg."+k, v)
		}
		for k, v := range localDefs(irc, fd) {
			if k == "timeout" {
				put("expire.timeout", v)
			}
		}
	}
	// the helper through which ExpireSessions reads the configured expiration (so that ConfigMu is released
	// before sessionsMu is taken)
	if fd := findFunc(irc, "IRCServer", "sessionExpiration"); fd != nil {
		ast.Inspect(fd.Body, func(n ast.Node) bool {
			if r, ok := n.(*ast.ReturnStmt); ok && len(r.Results) == 1 {
				put("expire.timeout.helper", exprString(irc.Fset, r.Results[0]))
			}
			return true
		})
	}
	// message-of-death handling in FSM.applyProto (package main)
	if mainp := x.pkg(""); mainp != nil {
		if fd := findFunc(mainp, "FSM", "applyProto"); fd != nil {
			var assign, store, fatal token.Pos
			ast.Inspect(fd.Body, func(n ast.Node) bool {
				switch v := n.(type) {
				case *ast.AssignStmt:
					if len(v.Lhs) == 1 && exprString(mainp.Fset, v.Lhs[0]) == "msg.Type" && assign == token.NoPos {
						assign = v.Pos()
						put("death.assign", stmtString(mainp.Fset, v))
					}
					if len(v.Lhs) == 1 && exprString(mainp.Fset, v.Lhs[0]) == "l.Data" {
						put("death.rewrite", stmtString(mainp.Fset, v))
					}
				case *ast.CallExpr:
					f := exprString(mainp.Fset, v.Fun)
					if strings.HasSuffix(f, "StoreLogProto") && store == token.NoPos {
						store = v.Pos()
						put("death.store", exprString(mainp.Fset, v))
					}
					if f == "glog.Fatalf" && len(v.Args) == 2 && exprString(mainp.Fset, v.Args[1]) == "r" {
						fatal = v.Pos()
					}
				}
				return true
			})
			order := "false"
			if assign != token.NoPos && store != token.NoPos && fatal != token.NoPos && assign < store && store < fatal {
				order = "true"
			}
			put("death.order.mark-store-exit", order)
			if is := findIf(mainp, fd, "MessageOfDeath"); is != nil {
				put("death.skipguard", exprString(mainp.Fset, is.Cond)+" => "+bodyString(mainp, is))
			}
		}
		if fd := findFunc(mainp, "FSM", "applyRobustMessage"); fd != nil {
			// first statement of the MessageOfDeath case
			ast.Inspect(fd.Body, func(n ast.Node) bool {
				cc, ok := n.(*ast.CaseClause)
				if !ok || len(cc.List) != 1 {
					return true
				}
				switch exprString(mainp.Fset, cc.List[0]) {
				case "robust.MessageOfDeath":
					if len(cc.Body) > 0 {
						put("death.case.first", stmtString(mainp.Fset, cc.Body[0]))
					}
				case "robust.IRCFromClient":
					if len(cc.Body) > 0 {
						put("client.case.first", stmtString(mainp.Fset, cc.Body[0])[:80])
					}
				}
				return true
			})
		}
	}
	var keys []string
	for k := range facts {
		keys = append(keys, k)
	}
	sort.Strings(keys)
	var b strings.Builder
	b.WriteString(genHeader)
	b.WriteString("namespace Robust.Gen.Exprs\n\n/-- (fact name, source text) -/\ndef facts : List (String × String) := [\n")
	for i, k := range keys {
		b.WriteString("  (" + leanStr(k) + ", " + leanStr(facts[k]) + ")")
		if i+1 < len(keys) {
			b.WriteString(",")
		}
		b.WriteString("\n")
	}
	b.WriteString("]\n\ndef fact (k : String) : String := match facts.find? (fun e => e.1 == k) with | some e => e.2 | none => \"<missing>\"\n\nend Robust.Gen.Exprs\n")
	x.files["Exprs.lean"] = b.String()
	x.facts["exprs"] = facts
}
