package main

// exprs.go (fact family G7): small expression facts about decision logic in the API handlers,
// the session lookup and the expiry sweep — conditions, message-literal fields and call order.

import (
	"fmt"
	"go/ast"
	"go/token"
	"sort"
	"strings"

	"golang.org/x/tools/go/packages"
)

func init() { extraGenerators = append(extraGenerators, (*extractor).genExprs) }

// ifConds returns the printed conditions of all if statements in fd, in source order.
func ifConds(p *packages.Package, fd *ast.FuncDecl) []string {
	var out []string
	ast.Inspect(fd.Body, func(n ast.Node) bool {
		if is, ok := n.(*ast.IfStmt); ok {
			out = append(out, exprString(p.Fset, is.Cond))
		}
		return true
	})
	return out
}

func findIf(p *packages.Package, fd *ast.FuncDecl, sub string) *ast.IfStmt {
	var res *ast.IfStmt
	ast.Inspect(fd.Body, func(n ast.Node) bool {
		if is, ok := n.(*ast.IfStmt); ok && res == nil && strings.Contains(exprString(p.Fset, is.Cond), sub) {
			res = is
		}
		return true
	})
	return res
}

// localDefs maps identifiers defined with `x := e` / `x = e` (single assignment in the function) to e.
func localDefs(p *packages.Package, fd *ast.FuncDecl) map[string]string {
	defs := map[string]string{}
	count := map[string]int{}
	ast.Inspect(fd.Body, func(n ast.Node) bool {
		as, ok := n.(*ast.AssignStmt)
		if !ok {
			return true
		}
		if len(as.Lhs) == len(as.Rhs) {
			for i, l := range as.Lhs {
				if id, ok := l.(*ast.Ident); ok {
					defs[id.Name] = exprString(p.Fset, as.Rhs[i])
					count[id.Name]++
				}
			}
		}
		return true
	})
	for k, c := range count {
		if c != 1 {
			delete(defs, k)
		}
	}
	return defs
}

// literalFields returns field -> printed value of the first composite literal of the named type.
func literalFields(p *packages.Package, fd *ast.FuncDecl, typeSuffix string) map[string]string {
	res := map[string]string{}
	defs := localDefs(p, fd)
	done := false
	ast.Inspect(fd.Body, func(n ast.Node) bool {
		cl, ok := n.(*ast.CompositeLit)
		if !ok || done || cl.Type == nil || !strings.HasSuffix(exprString(p.Fset, cl.Type), typeSuffix) {
			return true
		}
		done = true
		for _, el := range cl.Elts {
			if kv, ok := el.(*ast.KeyValueExpr); ok {
				v := exprString(p.Fset, kv.Value)
				if id, ok := kv.Value.(*ast.Ident); ok {
					if d, ok := defs[id.Name]; ok {
						v = d
					}
				}
				res[exprString(p.Fset, kv.Key)] = v
			}
		}
		return false
	})
	return res
}

// firstPos returns the position of the first call whose printed function contains sub (or NoPos).
func firstCallPos(p *packages.Package, fd *ast.FuncDecl, sub string) token.Pos {
	pos := token.NoPos
	ast.Inspect(fd.Body, func(n ast.Node) bool {
		if c, ok := n.(*ast.CallExpr); ok && pos == token.NoPos && strings.Contains(exprString(p.Fset, c.Fun), sub) {
			pos = c.Pos()
		}
		return true
	})
	return pos
}

func bodyString(p *packages.Package, is *ast.IfStmt) string {
	var parts []string
	for _, s := range is.Body.List {
		parts = append(parts, stmtString(p.Fset, s))
	}
	return strings.Join(parts, "; ")
}

// elideArgs replaces the argument list of every call that starts with prefix (which ends in "(") by "_"
func elideArgs(text, prefix string) string {
	var b strings.Builder
	for {
		i := strings.Index(text, prefix)
		if i < 0 {
			b.WriteString(text)
			return b.String()
		}
		b.WriteString(text[:i+len(prefix)])
		rest := text[i+len(prefix):]
		depth, j := 1, 0
		for j < len(rest) && depth > 0 {
			switch rest[j] {
			case '(':
				depth++
			case ')':
				depth--
			}
			j++
		}
		b.WriteString("_)")
		text = rest[j:]
	}
}

func (x *extractor) genExprs() {
	facts := map[string]string{}
	api := x.pkg("internal/api")
	irc := x.pkg("internal/ircserver")
	put := func(k, v string) { facts[k] = v }
	condsOf := func(evs []event) string {
		var cs []string
		for _, ev := range evs {
			if ev.Kind == "if" {
				cs = append(cs, ev.Text)
			}
		}
		return strings.Join(cs, " ;; ")
	}
	if fd := findFunc(api, "HTTP", "handlePostMessage"); fd != nil {
		env := newEnv(api, fd)
		evs := env.flatten(fd.Body.List, nil, 0)
		if i, ev := firstEvent(evs, "if", "LastPostMessage"); ev != nil {
			put("post.dedupe.cond", ev.Text)
			put("post.dedupe.body", bodyText(*ev))
			before := "true"
			for _, c := range []string{"applyMessageWait", "maybeProxyToLeader", "raftNode.State", "raftNode.Apply"} {
				if j, _ := firstEvent(evs, "call", c); j >= 0 && j < i {
					before = "false"
				}
			}
			put("post.dedupe.first", before)
		}
		for k, v := range litFields(newEnv(api, fd).flatten(fd.Body.List, unexportedHelper, 0), "robust.Message") {
			put("post.msg."+k, v)
		}
	}
	if fd := findFunc(api, "HTTP", "handleDeleteSession"); fd != nil {
		for k, v := range litFields(newEnv(api, fd).flatten(fd.Body.List, unexportedHelper, 0), "robust.Message") {
			put("delete.msg."+k, v)
		}
	}
	if fd := findFunc(api, "HTTP", "applyConfig"); fd != nil {
		evs := newEnv(api, fd).flatten(fd.Body.List, nil, 0)
		if _, ev := firstEvent(evs, "if", ""); ev != nil {
			put("config.revtest", ev.Text)
		}
		for k, v := range litFields(newEnv(api, fd).flatten(fd.Body.List, unexportedHelper, 0), "robust.Message") {
			put("config.msg."+k, v)
		}
	}
	if fd := findFunc(api, "HTTP", "applyMessageWait"); fd != nil {
		evs := newEnv(api, fd).flatten(fd.Body.List, unexportedHelper, 0)
		// the handler must wait for the commit itself: no goroutine, select or timer that could make it
		// return while the entry is still in flight (a client that is told "failed" retries)
		async := 0
		for _, ev := range evs {
			if ev.Kind == "go" || ev.Kind == "select" || ev.Kind == "send" || (ev.Kind == "call" && strings.HasPrefix(ev.Text, "time.After")) {
				async++
			}
		}
		put("apply.async", fmt.Sprint(async))
		wi, wev := firstEvent(evs, "if", "nil != recv.raftNode.Apply(")
		if wev != nil {
			// what is proposed does not matter for the order of waiting and answering: the arguments are elided
			put("apply.wait", elideArgs(wev.Text+" => "+bodyText(*wev), "recv.raftNode.Apply("))
		} else {
			put("apply.wait", "")
		}
		ii, _ := firstEvent(evs, "assign", "param1.Id.Id = ")
		if wev != nil && ii > wi {
			put("apply.idAfterErrorCheck", "true")
		} else {
			put("apply.idAfterErrorCheck", "false")
		}
	}
	if fd := findFunc(api, "HTTP", "handleGetMessages"); fd != nil {
		evs := newEnv(api, fd).flatten(fd.Body.List, nil, 0)
		if _, ev := firstEvent(evs, "if", "InterestingFor"); ev != nil {
			put("getmessages.filter", ev.Text)
			put("getmessages.filter.body", bodyText(*ev))
		}
	}
	if fd := findFunc(irc, "IRCServer", "getSessionLocked"); fd != nil {
		put("getsession.conds", condsOf(newEnv(irc, fd).flatten(fd.Body.List, nil, 0)))
	}
	if fd := findFunc(irc, "IRCServer", "ExpireSessions"); fd != nil {
		put("expire.conds", condsOf(newEnv(irc, fd).flatten(fd.Body.List, nil, 0)))
		for k, v := range litFields(newEnv(irc, fd).flatten(fd.Body.List, unexportedHelper, 0), "robust.Message") {
			put("expire.msg."+k, v)
		}
	}
	// the helper through which ExpireSessions reads the configured expiration (so that ConfigMu is released
	// before sessionsMu is taken)
	if fd := findFunc(irc, "IRCServer", "sessionExpiration"); fd != nil {
		evs := newEnv(irc, fd).flatten(fd.Body.List, nil, 0)
		if _, ev := firstEvent(evs, "return", ""); ev != nil {
			put("expire.timeout.helper", ev.Text)
		}
	}
	// message-of-death handling in FSM.applyProto (package main)
	if mainp := x.pkg(""); mainp != nil {
		if fd := findFunc(mainp, "FSM", "applyProto"); fd != nil {
			evs := newEnv(mainp, fd).flatten(fd.Body.List, unexportedHelper, 0)
			ai, aev := firstEvent(evs, "assign", ".Type = robust.MessageOfDeath")
			if aev != nil {
				put("death.assign", aev.Text)
			}
			for _, ev := range evs {
				if ev.Kind == "assign" && strings.HasPrefix(ev.Text, "param1.Data = ") {
					put("death.rewrite", ev.Text)
					break
				}
			}
			si, sev := firstEvent(evs, "call", "StoreLogProto(")
			if sev != nil {
				put("death.store", sev.Text)
			}
			fi := -1
			for i, ev := range evs {
				if ev.Kind == "call" && strings.HasPrefix(ev.Text, "glog.Fatalf(") && strings.Contains(ev.Text, "recover()") {
					fi = i
				}
			}
			order := "false"
			if ai >= 0 && si >= 0 && fi >= 0 && ai < si && si < fi {
				order = "true"
			}
			put("death.order.mark-store-exit", order)
			if _, ev := firstEvent(evs, "if", "MessageOfDeath"); ev != nil {
				put("death.skipguard", ev.Text+" => "+bodyText(*ev))
			}
		}
		if fd := findFunc(mainp, "FSM", "applyRobustMessage"); fd != nil {
			// first statement of the MessageOfDeath case
			ast.Inspect(fd.Body, func(n ast.Node) bool {
				cc, ok := n.(*ast.CaseClause)
				if !ok || len(cc.List) != 1 || len(cc.Body) == 0 {
					return true
				}
				first := ""
				if evs := newEnv(mainp, fd).flatten(cc.Body[:1], nil, 0); len(evs) > 0 {
					first = evs[0].Text
				}
				switch exprString(mainp.Fset, cc.List[0]) {
				case "robust.MessageOfDeath":
					put("death.case.first", first)
				case "robust.IRCFromClient":
					put("client.case.first", first)
				}
				return true
			})
		}
	}
	var keys []string
	for k := range facts {
		keys = append(keys, k)
	}
	sort.Strings(keys)
	var b strings.Builder
	b.WriteString(genHeader)
	b.WriteString("namespace Robust.Gen.Exprs\n\n/-- (fact name, source text) -/\ndef facts : List (String × String) := [\n")
	for i, k := range keys {
		b.WriteString("  (" + leanStr(k) + ", " + leanStr(facts[k]) + ")")
		if i+1 < len(keys) {
			b.WriteString(",")
		}
		b.WriteString("\n")
	}
	b.WriteString("]\n\ndef fact (k : String) : String := match facts.find? (fun e => e.1 == k) with | some e => e.2 | none => \"<missing>\"\n\nend Robust.Gen.Exprs\n")
	x.files["Exprs.lean"] = b.String()
	x.facts["exprs"] = facts
}
