package main

// served.go (fact family G6, continued): which handlers the listening http.Server of the robustirc
// binary can reach. If the http.Server literal of package main has no Handler, the server serves
// http.DefaultServeMux, and then every package in the import closure of main that registers a
// handler there (net/http/pprof, expvar, ...) adds a route next to the two dispatchers.

import (
	"go/ast"
	"go/token"
	"go/types"
	"sort"
	"strings"

	"golang.org/x/tools/go/packages"
)

type servedRoute struct{ Pattern, Handler, Pkg string }

// patternOf renders the pattern argument of Handle/HandleFunc: the concatenation of its string
// literals (net/http/pprof writes prefix+"/debug/pprof/")
func patternOf(e ast.Expr) string {
	var parts []string
	ast.Inspect(e, func(n ast.Node) bool {
		if bl, ok := n.(*ast.BasicLit); ok && bl.Kind == token.STRING {
			parts = append(parts, strings.Trim(bl.Value, "\"`"))
		}
		return true
	})
	return strings.Join(parts, "")
}

// defaultMuxRegistrations: calls of net/http.Handle / net/http.HandleFunc, and of the methods on
// http.DefaultServeMux, in p
func defaultMuxRegistrations(p *packages.Package) []servedRoute {
	var out []servedRoute
	if p.TypesInfo == nil {
		return out
	}
	for _, f := range p.Syntax {
		if strings.HasSuffix(p.Fset.Position(f.Pos()).Filename, "_test.go") {
			continue
		}
		for _, d := range f.Decls {
			fd, isFunc := d.(*ast.FuncDecl)
			// outside the module only package initialisation registers anything by being imported
			if !strings.HasPrefix(p.PkgPath, modPath) && !(isFunc && fd.Name.Name == "init" && fd.Recv == nil) {
				continue
			}
			ast.Inspect(d, func(n ast.Node) bool {
				c, ok := n.(*ast.CallExpr)
				if !ok || len(c.Args) != 2 {
					return true
				}
				se, ok := c.Fun.(*ast.SelectorExpr)
				if !ok || (se.Sel.Name != "Handle" && se.Sel.Name != "HandleFunc") {
					return true
				}
				fn, ok := p.TypesInfo.Uses[se.Sel].(*types.Func)
				if !ok || fn.Pkg() == nil || fn.Pkg().Path() != "net/http" {
					return true
				}
				sig := fn.Type().(*types.Signature)
				if sig.Recv() != nil {
					// a method of *ServeMux: only when the receiver is http.DefaultServeMux
					if !strings.HasSuffix(exprString(p.Fset, se.X), "DefaultServeMux") {
						return true
					}
				}
				out = append(out, servedRoute{patternOf(c.Args[0]), exprString(p.Fset, c.Args[1]), p.PkgPath})
				return true
			})
		}
	}
	return out
}

func (x *extractor) genServed() (serverHandler string, served, defaultMux []servedRoute) {
	mainPkg := x.pkg("")
	if mainPkg == nil {
		return "?", nil, nil
	}
	// import closure of package main
	closure := map[string]*packages.Package{}
	var visit func(p *packages.Package)
	visit = func(p *packages.Package) {
		if _, ok := closure[p.PkgPath]; ok {
			return
		}
		closure[p.PkgPath] = p
		for _, q := range p.Imports {
			visit(q)
		}
	}
	visit(mainPkg)
	for _, p := range closure {
		defaultMux = append(defaultMux, defaultMuxRegistrations(p)...)
	}
	// the http.Server literal(s) of package main
	serverHandler = "<no http.Server literal>"
	var handlerExpr ast.Expr
	found := false
	for _, f := range mainPkg.Syntax {
		if strings.HasSuffix(mainPkg.Fset.Position(f.Pos()).Filename, "_test.go") {
			continue
		}
		ast.Inspect(f, func(n ast.Node) bool {
			cl, ok := n.(*ast.CompositeLit)
			if !ok {
				return true
			}
			tv, ok := mainPkg.TypesInfo.Types[cl]
			if !ok || tv.Type.String() != "net/http.Server" {
				return true
			}
			found = true
			serverHandler = ""
			for _, el := range cl.Elts {
				if kv, ok := el.(*ast.KeyValueExpr); ok && exprString(mainPkg.Fset, kv.Key) == "Handler" {
					handlerExpr = kv.Value
					serverHandler = exprString(mainPkg.Fset, kv.Value)
				}
			}
			return true
		})
	}
	switch {
	case !found:
	case handlerExpr == nil:
		served = append(served, defaultMux...) // DefaultServeMux
	default:
		id, ok := handlerExpr.(*ast.Ident)
		isMux := false
		if ok {
			if obj := mainPkg.TypesInfo.Uses[id]; obj != nil && obj.Type().String() == "*net/http.ServeMux" {
				isMux = true
				for _, f := range mainPkg.Syntax {
					ast.Inspect(f, func(n ast.Node) bool {
						c, ok := n.(*ast.CallExpr)
						if !ok || len(c.Args) != 2 {
							return true
						}
						se, ok := c.Fun.(*ast.SelectorExpr)
						if !ok || (se.Sel.Name != "Handle" && se.Sel.Name != "HandleFunc") {
							return true
						}
						if rid, ok := se.X.(*ast.Ident); ok && mainPkg.TypesInfo.Uses[rid] == obj {
							served = append(served, servedRoute{patternOf(c.Args[0]), exprString(mainPkg.Fset, c.Args[1]), mainPkg.PkgPath})
						}
						return true
					})
				}
			}
		}
		if !isMux {
			served = append(served, servedRoute{"<all>", serverHandler, mainPkg.PkgPath})
		}
	}
	less := func(l []servedRoute) func(i, j int) bool {
		return func(i, j int) bool {
			if l[i].Pattern != l[j].Pattern {
				return l[i].Pattern < l[j].Pattern
			}
			return l[i].Pkg+l[i].Handler < l[j].Pkg+l[j].Handler
		}
	}
	sort.Slice(served, less(served))
	sort.Slice(defaultMux, less(defaultMux))
	return
}

func leanRoutes(name, doc string, l []servedRoute) string {
	var b strings.Builder
	b.WriteString("/-- " + doc + " -/\ndef " + name + " : List (String × String × String) := [\n")
	for i, r := range l {
		b.WriteString("  (" + leanStr(r.Pattern) + ", " + leanStr(r.Handler) + ", " + leanStr(r.Pkg) + ")")
		if i+1 < len(l) {
			b.WriteString(",")
		}
		b.WriteString("\n")
	}
	b.WriteString("]\n\n")
	return b.String()
}
