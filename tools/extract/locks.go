package main

// locks.go (fact family G5, C20): a static lockset table.  For every access to a field of the
// shared structs (IRCServer, Session, channel, OutputStream, LevelDBStore, HTTP, FSM) it records the
// function, whether the access writes, and the set of mutexes held at that point: the locks taken
// earlier in the function (Lock/RLock ... defer Unlock, or explicit Unlock in the same block) plus
// the locks every caller holds (a fixpoint over the static call graph; the command handlers are
// reached through the `cmd.Func(...)` call in ProcessMessage).
//
// This is a pattern extractor, not a sound may-alias analysis: accesses through copied pointers in
// other packages are listed under the package that performs them.

import (
	"fmt"
	"go/ast"
	"go/token"
	"go/types"
	"sort"
	"strings"

	"golang.org/x/tools/go/packages"
)

func init() { extraGenerators = append(extraGenerators, (*extractor).genLocks) }

type lockSet map[string]bool // "IRCServer.sessionsMu:W" / ":R"

func (l lockSet) clone() lockSet {
	c := lockSet{}
	for k := range l {
		c[k] = true
	}
	return c
}

func (l lockSet) list() []string {
	var s []string
	for k := range l {
		s = append(s, k)
	}
	sort.Strings(s)
	return s
}

func meet(a, b lockSet) lockSet {
	// intersection; W on one side and R on the other gives R
	c := lockSet{}
	for k := range a {
		name := k[:len(k)-2]
		if b[k] {
			c[k] = true
		} else if b[name+":W"] || b[name+":R"] {
			c[name+":R"] = true
		}
	}
	return c
}

type lockAccess struct {
	fn, field string
	write     bool
	held      lockSet
	pos       string
}

type lockCall struct {
	caller, callee string
	held           lockSet
}

type lockAnalysis struct {
	x        *extractor
	tracked  map[string]bool // named struct types whose fields are tracked
	accesses []lockAccess
	calls    []lockCall
	dynHeld  []lockSet           // held sets at `cmd.Func(...)`
	dynFuncs map[string]bool     // functions stored in the command table
	seq      map[string][]string // function -> lock operations in source order
	acq      []lockCall          // (function, lock acquired, locks held at that point)
	exported map[string]bool
	decls    map[string]bool
}

func namedOf(t types.Type) *types.Named {
	for {
		switch u := t.(type) {
		case *types.Pointer:
			t = u.Elem()
		case *types.Named:
			return u
		default:
			return nil
		}
	}
}

func typeShort(n *types.Named) string {
	return n.Obj().Name()
}

func isMutex(t types.Type) bool {
	n := namedOf(t)
	return n != nil && n.Obj().Pkg() != nil && n.Obj().Pkg().Path() == "sync" && (n.Obj().Name() == "Mutex" || n.Obj().Name() == "RWMutex")
}

func funcKeyOf(f *types.Func) string {
	sig := f.Type().(*types.Signature)
	pk := ""
	if f.Pkg() != nil {
		pk = strings.TrimPrefix(strings.TrimPrefix(f.Pkg().Path(), modPath), "/")
	}
	if pk == "" {
		pk = "main"
	}
	if sig.Recv() != nil {
		if n := namedOf(sig.Recv().Type()); n != nil {
			return pk + ":" + typeShort(n) + "." + f.Name()
		}
	}
	return pk + ":" + f.Name()
}

// lockName renders the mutex expression of `X.Lock()`
func (a *lockAnalysis) lockName(p *packages.Package, e ast.Expr) string {
	switch v := e.(type) {
	case *ast.SelectorExpr:
		if sel := p.TypesInfo.Selections[v]; sel != nil {
			if n := namedOf(sel.Recv()); n != nil {
				return typeShort(n) + "." + v.Sel.Name
			}
		}
		return exprString(p.Fset, e)
	case *ast.Ident:
		return v.Name
	}
	return exprString(p.Fset, e)
}

func (a *lockAnalysis) lockOp(p *packages.Package, call *ast.CallExpr) (name, op string) {
	sel, ok := call.Fun.(*ast.SelectorExpr)
	if !ok {
		return "", ""
	}
	switch sel.Sel.Name {
	case "Lock", "RLock", "Unlock", "RUnlock":
	default:
		return "", ""
	}
	tv, ok := p.TypesInfo.Types[sel.X]
	if !ok || !isMutex(tv.Type) {
		return "", ""
	}
	return a.lockName(p, sel.X), sel.Sel.Name
}

// writeTargets marks the selector expressions that are assigned to (directly or through an index)
func writeTargets(body ast.Node) map[*ast.SelectorExpr]bool {
	w := map[*ast.SelectorExpr]bool{}
	mark := func(e ast.Expr) {
		for {
			switch v := e.(type) {
			case *ast.IndexExpr:
				e = v.X
			case *ast.ParenExpr:
				e = v.X
			case *ast.StarExpr:
				e = v.X
			case *ast.SliceExpr:
				e = v.X
			case *ast.SelectorExpr:
				w[v] = true
				return
			default:
				return
			}
		}
	}
	ast.Inspect(body, func(n ast.Node) bool {
		switch v := n.(type) {
		case *ast.AssignStmt:
			for _, l := range v.Lhs {
				mark(l)
			}
		case *ast.IncDecStmt:
			mark(v.X)
		case *ast.CallExpr:
			if id, ok := v.Fun.(*ast.Ident); ok && id.Name == "delete" && len(v.Args) > 0 {
				mark(v.Args[0])
			}
		case *ast.RangeStmt:
			if v.Tok == token.ASSIGN {
				if v.Key != nil {
					mark(v.Key)
				}
				if v.Value != nil {
					mark(v.Value)
				}
			}
		}
		return true
	})
	return w
}

func (a *lockAnalysis) scanExpr(p *packages.Package, fn string, n ast.Node, held lockSet, writes map[*ast.SelectorExpr]bool) {
	if n == nil {
		return
	}
	ast.Inspect(n, func(m ast.Node) bool {
		switch v := m.(type) {
		case *ast.FuncLit:
			// a closure defined here: analysed as part of the function, with the locks held at its definition
			a.walkBlock(p, fn, v.Body.List, held.clone(), writes)
			return false
		case *ast.SelectorExpr:
			if sel := p.TypesInfo.Selections[v]; sel != nil && sel.Kind() == types.FieldVal {
				if n := namedOf(sel.Recv()); n != nil && a.tracked[n.Obj().Pkg().Path()+"."+n.Obj().Name()] {
					if !isMutex(sel.Obj().Type()) {
						a.accesses = append(a.accesses, lockAccess{fn: fn, field: typeShort(n) + "." + v.Sel.Name, write: writes[v], held: held.clone(),
							pos: fmt.Sprintf("%s:%d", relFile(p, v), p.Fset.Position(v.Pos()).Line)})
					}
				}
			}
		case *ast.CallExpr:
			if name, _ := a.lockOp(p, v); name != "" {
				return true
			}
			var obj types.Object
			switch f := v.Fun.(type) {
			case *ast.Ident:
				obj = p.TypesInfo.Uses[f]
			case *ast.SelectorExpr:
				obj = p.TypesInfo.Uses[f.Sel]
				if f.Sel.Name == "Func" {
					if tv, ok := p.TypesInfo.Types[f]; ok {
						if _, isSig := tv.Type.Underlying().(*types.Signature); isSig {
							a.dynHeld = append(a.dynHeld, held.clone())
						}
					}
				}
			}
			if f, ok := obj.(*types.Func); ok && f.Pkg() != nil && strings.HasPrefix(f.Pkg().Path(), modPath) {
				a.calls = append(a.calls, lockCall{caller: fn, callee: funcKeyOf(f), held: held.clone()})
			}
		case *ast.KeyValueExpr:
			if id, ok := v.Key.(*ast.Ident); ok && id.Name == "Func" {
				var obj types.Object
				switch f := v.Value.(type) {
				case *ast.SelectorExpr:
					obj = p.TypesInfo.Uses[f.Sel]
				case *ast.Ident:
					obj = p.TypesInfo.Uses[f]
				}
				if f, ok := obj.(*types.Func); ok {
					a.dynFuncs[funcKeyOf(f)] = true
				}
			}
		}
		return true
	})
}

// walkBlock processes statements in order; lock operations change `held` for the statements that
// follow in the same block; nested blocks start from a copy
func (a *lockAnalysis) walkBlock(p *packages.Package, fn string, stmts []ast.Stmt, held lockSet, writes map[*ast.SelectorExpr]bool) {
	for _, s := range stmts {
		switch v := s.(type) {
		case *ast.ExprStmt:
			if call, ok := v.X.(*ast.CallExpr); ok {
				if name, op := a.lockOp(p, call); name != "" {
					a.seq[fn] = append(a.seq[fn], name+"."+op)
					if op == "Lock" || op == "RLock" {
						a.acq = append(a.acq, lockCall{caller: fn, callee: name, held: held.clone()})
					}
					switch op {
					case "Lock":
						held[name+":W"] = true
					case "RLock":
						held[name+":R"] = true
					case "Unlock":
						delete(held, name+":W")
					case "RUnlock":
						delete(held, name+":R")
					}
					continue
				}
			}
			a.scanExpr(p, fn, v, held, writes)
		case *ast.DeferStmt:
			if name, op := a.lockOp(p, v.Call); name != "" {
				a.seq[fn] = append(a.seq[fn], "defer "+name+"."+op)
				continue // released at function exit
			}
			a.scanExpr(p, fn, v.Call, held, writes)
		case *ast.GoStmt:
			// a new goroutine holds nothing
			if fl, ok := v.Call.Fun.(*ast.FuncLit); ok {
				a.walkBlock(p, fn+"$go", fl.Body.List, lockSet{}, writes)
				for _, arg := range v.Call.Args {
					a.scanExpr(p, fn, arg, held, writes)
				}
			} else {
				var obj types.Object
				switch f := v.Call.Fun.(type) {
				case *ast.Ident:
					obj = p.TypesInfo.Uses[f]
				case *ast.SelectorExpr:
					obj = p.TypesInfo.Uses[f.Sel]
				}
				if f, ok := obj.(*types.Func); ok && f.Pkg() != nil && strings.HasPrefix(f.Pkg().Path(), modPath) {
					a.calls = append(a.calls, lockCall{caller: fn + "$go", callee: funcKeyOf(f), held: lockSet{}})
				}
				for _, arg := range v.Call.Args {
					a.scanExpr(p, fn, arg, held, writes)
				}
			}
		case *ast.BlockStmt:
			a.walkBlock(p, fn, v.List, held.clone(), writes)
		case *ast.IfStmt:
			if v.Init != nil {
				a.walkBlock(p, fn, []ast.Stmt{v.Init}, held, writes)
			}
			a.scanExpr(p, fn, v.Cond, held, writes)
			a.walkBlock(p, fn, v.Body.List, held.clone(), writes)
			if v.Else != nil {
				a.walkBlock(p, fn, []ast.Stmt{v.Else}, held.clone(), writes)
			}
		case *ast.ForStmt:
			if v.Init != nil {
				a.walkBlock(p, fn, []ast.Stmt{v.Init}, held, writes)
			}
			a.scanExpr(p, fn, v.Cond, held, writes)
			if v.Post != nil {
				a.walkBlock(p, fn, []ast.Stmt{v.Post}, held.clone(), writes)
			}
			a.walkBlock(p, fn, v.Body.List, held.clone(), writes)
		case *ast.RangeStmt:
			a.scanExpr(p, fn, v.X, held, writes)
			a.scanExpr(p, fn, v.Key, held, writes)
			a.scanExpr(p, fn, v.Value, held, writes)
			a.walkBlock(p, fn, v.Body.List, held.clone(), writes)
		case *ast.SwitchStmt:
			if v.Init != nil {
				a.walkBlock(p, fn, []ast.Stmt{v.Init}, held, writes)
			}
			a.scanExpr(p, fn, v.Tag, held, writes)
			for _, c := range v.Body.List {
				cc := c.(*ast.CaseClause)
				for _, e := range cc.List {
					a.scanExpr(p, fn, e, held, writes)
				}
				a.walkBlock(p, fn, cc.Body, held.clone(), writes)
			}
		case *ast.TypeSwitchStmt:
			if v.Init != nil {
				a.walkBlock(p, fn, []ast.Stmt{v.Init}, held, writes)
			}
			a.scanExpr(p, fn, v.Assign, held, writes)
			for _, c := range v.Body.List {
				a.walkBlock(p, fn, c.(*ast.CaseClause).Body, held.clone(), writes)
			}
		case *ast.SelectStmt:
			for _, c := range v.Body.List {
				cc := c.(*ast.CommClause)
				if cc.Comm != nil {
					a.walkBlock(p, fn, []ast.Stmt{cc.Comm}, held.clone(), writes)
				}
				a.walkBlock(p, fn, cc.Body, held.clone(), writes)
			}
		case *ast.LabeledStmt:
			a.walkBlock(p, fn, []ast.Stmt{v.Stmt}, held, writes)
		default:
			a.scanExpr(p, fn, s, held, writes)
		}
	}
}

func (x *extractor) genLocks() {
	a := &lockAnalysis{x: x, tracked: map[string]bool{}, dynFuncs: map[string]bool{}, exported: map[string]bool{}, decls: map[string]bool{}, seq: map[string][]string{}}
	for _, t := range []string{"internal/ircserver.IRCServer", "internal/ircserver.Session", "internal/ircserver.channel", "internal/outputstream.OutputStream",
		"internal/raftstore.LevelDBStore", "internal/api.HTTP", ".FSM"} {
		i := strings.LastIndex(t, ".")
		pk := modPath
		if t[:i] != "" {
			pk += "/" + t[:i]
		}
		a.tracked[pk+"."+t[i+1:]] = true
	}
	scope := []string{"internal/ircserver", "internal/outputstream", "internal/raftstore", "internal/api", ""}
	type fnBody struct {
		p    *packages.Package
		key  string
		body *ast.BlockStmt
	}
	var bodies []fnBody
	structFields := map[string][]string{}
	for _, rel := range scope {
		p := x.pkg(rel)
		if p == nil {
			continue
		}
		for _, f := range p.Syntax {
			if strings.HasSuffix(p.Fset.Position(f.Pos()).Filename, "_test.go") {
				continue
			}
			for _, d := range f.Decls {
				switch v := d.(type) {
				case *ast.FuncDecl:
					if v.Body == nil {
						continue
					}
					obj, _ := p.TypesInfo.Defs[v.Name].(*types.Func)
					if obj == nil {
						continue
					}
					key := funcKeyOf(obj)
					a.decls[key] = true
					if v.Name.IsExported() || v.Name.Name == "main" || v.Name.Name == "init" {
						a.exported[key] = true
					}
					bodies = append(bodies, fnBody{p, key, v.Body})
				case *ast.GenDecl:
					// package-level initialisers (command tables register handler functions there)
					for _, sp := range v.Specs {
						if vs, ok := sp.(*ast.ValueSpec); ok {
							for _, val := range vs.Values {
								a.scanExpr(p, "pkginit", val, lockSet{}, map[*ast.SelectorExpr]bool{})
							}
						}
					}
				}
			}
		}
		for name := range a.tracked {
			i := strings.LastIndex(name, ".")
			if name[:i] != p.PkgPath {
				continue
			}
			if obj := p.Types.Scope().Lookup(name[i+1:]); obj != nil {
				if st, ok := obj.Type().Underlying().(*types.Struct); ok {
					var fs []string
					for k := 0; k < st.NumFields(); k++ {
						fs = append(fs, st.Field(k).Name())
					}
					sort.Strings(fs)
					structFields[name[i+1:]] = fs
				}
			}
		}
	}
	// pkginit accesses are not interesting (single-threaded start-up)
	a.accesses = nil
	a.calls = nil
	a.seq = map[string][]string{}
	a.acq = nil
	for _, b := range bodies {
		a.walkBlock(b.p, b.key, b.body.List, lockSet{}, writeTargets(b.body))
	}
	// entry lock sets: fixpoint over the call graph
	top := lockSet{"⊤": true}
	entry := map[string]lockSet{}
	sites := map[string][]lockCall{}
	for _, c := range a.calls {
		sites[c.callee] = append(sites[c.callee], c)
	}
	for k := range a.dynFuncs {
		for _, h := range a.dynHeld {
			sites[k] = append(sites[k], lockCall{caller: "internal/ircserver:IRCServer.ProcessMessage", callee: k, held: h})
		}
	}
	for k := range a.decls {
		if a.exported[k] || len(sites[k]) == 0 {
			entry[k] = lockSet{}
		} else {
			entry[k] = top
		}
	}
	base := func(fn string) string { return strings.TrimSuffix(fn, "$go") }
	for iter := 0; iter < 50; iter++ {
		changed := false
		for k := range a.decls {
			if a.exported[k] || len(sites[k]) == 0 {
				continue
			}
			var acc lockSet
			for _, c := range sites[k] {
				h := c.held.clone()
				if !strings.HasSuffix(c.caller, "$go") {
					ce := entry[base(c.caller)]
					if ce != nil && !ce["⊤"] {
						for l := range ce {
							h[l] = true
						}
					} else if ce != nil && ce["⊤"] {
						continue // caller not resolved yet
					}
				}
				if acc == nil {
					acc = h
				} else {
					acc = meet(acc, h)
				}
			}
			if acc == nil {
				continue
			}
			if old := entry[k]; old["⊤"] || strings.Join(old.list(), ",") != strings.Join(acc.list(), ",") {
				entry[k] = acc
				changed = true
			}
		}
		if !changed {
			break
		}
	}
	for k, e := range entry {
		if e["⊤"] {
			entry[k] = lockSet{} // only reachable from unresolved recursion: assume nothing
		}
	}
	// fold entry locks into the accesses; aggregate per (function, field, write)
	type row struct {
		fn, field string
		write     bool
	}
	agg := map[row]lockSet{}
	for _, ac := range a.accesses {
		h := ac.held.clone()
		if !strings.HasSuffix(ac.fn, "$go") {
			for l := range entry[ac.fn] {
				h[l] = true
			}
		}
		r := row{ac.fn, ac.field, ac.write}
		if old, ok := agg[r]; ok {
			agg[r] = meet(old, h)
		} else {
			agg[r] = h
		}
	}
	var rows []row
	for r := range agg {
		rows = append(rows, r)
	}
	sort.Slice(rows, func(i, j int) bool {
		if rows[i].field != rows[j].field {
			return rows[i].field < rows[j].field
		}
		if rows[i].fn != rows[j].fn {
			return rows[i].fn < rows[j].fn
		}
		return !rows[i].write && rows[j].write
	})
	var b strings.Builder
	b.WriteString(genHeader)
	b.WriteString("namespace Robust.Gen.Locks\n\n")
	b.WriteString("/-- (function, struct, field, writes, locks held at every such access in that function: \"Type.mutex:W\" / \":R\") -/\n")
	// chunk the table to keep elaboration cheap
	const chunk = 40
	nchunks := (len(rows) + chunk - 1) / chunk
	for c := 0; c < nchunks; c++ {
		fmt.Fprintf(&b, "def accesses%d : List (String × String × String × Bool × List String) := [\n", c)
		end := (c + 1) * chunk
		if end > len(rows) {
			end = len(rows)
		}
		for i := c * chunk; i < end; i++ {
			r := rows[i]
			dot := strings.Index(r.field, ".")
			fmt.Fprintf(&b, "  (%s, %s, %s, %v, [%s])", leanStr(r.fn), leanStr(r.field[:dot]), leanStr(r.field[dot+1:]), r.write, strings.Join(mapStr(agg[r].list(), leanStr), ", "))
			if i+1 < end {
				b.WriteString(",")
			}
			b.WriteString("\n")
		}
		b.WriteString("]\n")
	}
	b.WriteString("def accesses : List (String × String × String × Bool × List String) := ")
	if nchunks == 0 {
		b.WriteString("[]\n")
	} else {
		var parts []string
		for c := 0; c < nchunks; c++ {
			parts = append(parts, fmt.Sprintf("accesses%d", c))
		}
		b.WriteString(strings.Join(parts, " ++ ") + "\n")
	}
	b.WriteString("\n/-- fields of the shared structs -/\ndef structFields : List (String × List String) := [\n")
	var sn []string
	for k := range structFields {
		sn = append(sn, k)
	}
	sort.Strings(sn)
	for i, k := range sn {
		fmt.Fprintf(&b, "  (%s, [%s])", leanStr(k), strings.Join(mapStr(structFields[k], leanStr), ", "))
		if i+1 < len(sn) {
			b.WriteString(",")
		}
		b.WriteString("\n")
	}
	b.WriteString("]\n\n/-- locks every caller of a function holds on entry (functions not listed: none) -/\ndef entryLocks : List (String × List String) := [\n")
	var en []string
	for k, e := range entry {
		if len(e) > 0 {
			en = append(en, k)
		}
	}
	sort.Strings(en)
	for i, k := range en {
		fmt.Fprintf(&b, "  (%s, [%s])", leanStr(k), strings.Join(mapStr(entry[k].list(), leanStr), ", "))
		if i+1 < len(en) {
			b.WriteString(",")
		}
		b.WriteString("\n")
	}
	b.WriteString("]\n\n/-- lock order: (held, acquired) for every acquisition made while another mutex is held (locks of the callers included) -/\ndef lockOrder : List (String × String × String) := [\n")
	// for the lock ORDER every lock that MAY be held on entry counts (union over the call sites, exported
	// functions included: api handlers call IRCServer methods while holding locks)
	may := map[string]lockSet{}
	for k := range a.decls {
		may[k] = lockSet{}
	}
	for iter := 0; iter < 50; iter++ {
		changed := false
		for callee, cs := range sites {
			if may[callee] == nil {
				continue
			}
			for _, c := range cs {
				add := c.held.clone()
				if !strings.HasSuffix(c.caller, "$go") {
					for l := range may[base(c.caller)] {
						add[l] = true
					}
				}
				for l := range add {
					if !may[callee][l] {
						may[callee][l] = true
						changed = true
					}
				}
			}
		}
		if !changed {
			break
		}
	}
	type op3 struct{ held, acq, fn string }
	seen3 := map[op3]bool{}
	var ord []op3
	for _, q := range a.acq {
		h := q.held.clone()
		if !strings.HasSuffix(q.caller, "$go") {
			for l := range may[q.caller] {
				h[l] = true
			}
		}
		for l := range h {
			name := l[:len(l)-2]
			if name == q.callee {
				continue
			}
			o := op3{name, q.callee, q.caller}
			if !seen3[o] {
				seen3[o] = true
				ord = append(ord, o)
			}
		}
	}
	sort.Slice(ord, func(i, j int) bool {
		if ord[i].held != ord[j].held {
			return ord[i].held < ord[j].held
		}
		if ord[i].acq != ord[j].acq {
			return ord[i].acq < ord[j].acq
		}
		return ord[i].fn < ord[j].fn
	})
	for i, o := range ord {
		fmt.Fprintf(&b, "  (%s, %s, %s)", leanStr(o.held), leanStr(o.acq), leanStr(o.fn))
		if i+1 < len(ord) {
			b.WriteString(",")
		}
		b.WriteString("\n")
	}
	b.WriteString("]\n\n/-- operations on messagesMu of every function of internal/outputstream, in source order: its regions are the atomic steps of the C08 model (cacheMu is only ever taken inside them and guards the cache map against concurrent readers, which is C20's matter) -/\ndef streamRegions : List (String × List String) := [\n")
	var sk []string
	for k := range a.seq {
		if strings.HasPrefix(k, "internal/outputstream:") {
			sk = append(sk, k)
		}
	}
	sort.Strings(sk)
	var regionLines []string
	for _, k := range sk {
		var ops []string
		for _, op := range a.seq[k] {
			if strings.Contains(op, "messagesMu") {
				ops = append(ops, op)
			}
		}
		if len(ops) > 0 {
			regionLines = append(regionLines, fmt.Sprintf("  (%s, [%s])", leanStr(k), strings.Join(mapStr(ops, leanStr), ", ")))
		}
	}
	b.WriteString(strings.Join(regionLines, ",\n"))
	if len(regionLines) > 0 {
		b.WriteString("\n")
	}
	b.WriteString("]\n\nend Robust.Gen.Locks\n")
	x.files["Locks.lean"] = b.String()
	x.facts["lockAccessRows"] = len(rows)
}
