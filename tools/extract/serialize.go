package main

// serialize.go (fact family G4, C03): which fields Marshal writes and Unmarshal restores.

import (
	"go/ast"
	"go/types"
	"sort"
	"strings"
)

func init() { extraGenerators = append(extraGenerators, (*extractor).genSerialize) }

func (x *extractor) genSerialize() {
	p := x.pkg("internal/ircserver")
	lits := map[string][]string{} // "Marshal:pb.Snapshot_Session" -> keys
	structs := map[string][]string{}
	if p != nil {
		for _, fn := range []string{"Marshal", "Unmarshal"} {
			fd := findFunc(p, "IRCServer", fn)
			if fd == nil {
				continue
			}
			ast.Inspect(fd.Body, func(n ast.Node) bool {
				cl, ok := n.(*ast.CompositeLit)
				if !ok || cl.Type == nil {
					return true
				}
				tn := exprString(p.Fset, cl.Type)
				var keys []string
				for _, el := range cl.Elts {
					if kv, ok := el.(*ast.KeyValueExpr); ok {
						keys = append(keys, exprString(p.Fset, kv.Key))
					}
				}
				if len(keys) == 0 {
					return true
				}
				sort.Strings(keys)
				k := fn + ":" + tn
				if old, ok := lits[k]; !ok || len(keys) > len(old) {
					lits[k] = keys
				}
				return true
			})
		}
		for _, tn := range []string{"Session", "channel", "svshold", "banPattern"} {
			if obj := p.Types.Scope().Lookup(tn); obj != nil {
				if st, ok := obj.Type().Underlying().(*types.Struct); ok {
					var fs []string
					for i := 0; i < st.NumFields(); i++ {
						fs = append(fs, st.Field(i).Name())
					}
					sort.Strings(fs)
					structs[tn] = fs
				}
			}
		}
	}
	if cp := x.pkg("internal/config"); cp != nil {
		if obj := cp.Types.Scope().Lookup("Network"); obj != nil {
			if st, ok := obj.Type().Underlying().(*types.Struct); ok {
				var fs []string
				for i := 0; i < st.NumFields(); i++ {
					fs = append(fs, st.Field(i).Name())
				}
				sort.Strings(fs)
				structs["config.Network"] = fs
			}
		}
	}
	var b strings.Builder
	b.WriteString(genHeader)
	b.WriteString("namespace Robust.Gen.Serialize\n\n")
	emit := func(name string, m map[string][]string) {
		var ks []string
		for k := range m {
			ks = append(ks, k)
		}
		sort.Strings(ks)
		b.WriteString("def " + name + " : List (String × List String) := [\n")
		for i, k := range ks {
			b.WriteString("  (" + leanStr(k) + ", [" + strings.Join(mapStr(m[k], leanStr), ", ") + "])")
			if i+1 < len(ks) {
				b.WriteString(",")
			}
			b.WriteString("\n")
		}
		b.WriteString("]\n\n")
	}
	emit("literals", lits)
	emit("structFields", structs)
	b.WriteString("def lookup (l : List (String × List String)) (k : String) : List String := match l.find? (fun e => e.1 == k) with | some e => e.2 | none => []\n")
	b.WriteString("\nend Robust.Gen.Serialize\n")
	x.files["Serialize.lean"] = b.String()
}
