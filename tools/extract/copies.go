package main

// copies.go (fact family G4): field-copy tables.  For every function of the repository,
// the set of "dst.path = wrap(src.path)" copies between the record types that make up the
// on-disk / on-wire formats (raft.Log <-> pb.RaftLog, robust.Message <-> pb.RobustMessage),
// whether written as assignments or as composite-literal fields.

import (
	"bytes"
	"fmt"
	"go/ast"
	"go/printer"
	"go/token"
	"go/types"
	"sort"
	"strings"

	"golang.org/x/tools/go/packages"
)

type copyFact struct {
	DstT, Dst, SrcT, Src, Wrap string
}

var trackedTypes = map[string]string{
	"github.com/hashicorp/raft.Log":                                  "raft.Log",
	"github.com/robustirc/robustirc/internal/proto.RaftLog":          "pb.RaftLog",
	"github.com/robustirc/robustirc/internal/robust.Message":         "robust.Message",
	"github.com/robustirc/robustirc/internal/proto.RobustMessage":    "pb.RobustMessage",
	"github.com/robustirc/robustirc/internal/outputstream.Message":   "outputstream.Message",
	"github.com/robustirc/robustirc/internal/proto.Snapshot_Session": "pb.Session",
}

func trackedName(t types.Type) string {
	if t == nil {
		return ""
	}
	if p, ok := t.(*types.Pointer); ok {
		t = p.Elem()
	}
	n, ok := t.(*types.Named)
	if !ok || n.Obj().Pkg() == nil {
		return ""
	}
	return trackedTypes[n.Obj().Pkg().Path()+"."+n.Obj().Name()]
}

// selectorPath returns (root type name, dotted path) for x.a.b where x is an identifier
// (or a dereference/address of one) of a tracked type.
func selectorPath(info *types.Info, e ast.Expr) (string, string, bool) {
	var parts []string
	for {
		switch v := e.(type) {
		case *ast.ParenExpr:
			e = v.X
			continue
		case *ast.StarExpr:
			e = v.X
			continue
		case *ast.SelectorExpr:
			parts = append([]string{v.Sel.Name}, parts...)
			e = v.X
			continue
		case *ast.Ident:
			tn := trackedName(info.TypeOf(v))
			if tn == "" || len(parts) == 0 {
				return "", "", false
			}
			return tn, strings.Join(parts, "."), true
		}
		return "", "", false
	}
}

func unwrap(info *types.Info, e ast.Expr) (ast.Expr, string) {
	wrap := ""
	for {
		switch v := e.(type) {
		case *ast.ParenExpr:
			e = v.X
			continue
		case *ast.CallExpr:
			if tv, ok := info.Types[v.Fun]; ok && tv.IsType() && len(v.Args) == 1 {
				wrap += "conv "
				e = v.Args[0]
				continue
			}
			if sel, ok := v.Fun.(*ast.SelectorExpr); ok {
				if id, ok := sel.X.(*ast.Ident); ok && id.Name == "timestamppb" && sel.Sel.Name == "New" && len(v.Args) == 1 {
					wrap += "tsNew "
					e = v.Args[0]
					continue
				}
				if sel.Sel.Name == "AsTime" && len(v.Args) == 0 {
					wrap += "asTime "
					e = sel.X
					continue
				}
			}
		}
		return e, strings.TrimSpace(wrap)
	}
}

// copyPkg is the package whose functions are being scanned (set by genCopies): a field value that is a call of a
// same-package helper consisting of `return &T{...}` is read as that literal, with the helper's parameters standing
// for the arguments (`Id: idToProto(m.Id)` copies Id.Id and Id.Reply like the literal it replaced)
var copyPkg *packages.Package

type srcRef struct{ T, Path string }

func selectorPathEnv(info *types.Info, e ast.Expr, env map[types.Object]srcRef) (string, string, bool) {
	if len(env) > 0 {
		var parts []string
		x := e
		for {
			switch v := x.(type) {
			case *ast.ParenExpr:
				x = v.X
				continue
			case *ast.StarExpr:
				x = v.X
				continue
			case *ast.SelectorExpr:
				parts = append([]string{v.Sel.Name}, parts...)
				x = v.X
				continue
			case *ast.Ident:
				if r, ok := env[info.ObjectOf(v)]; ok {
					return r.T, strings.Join(append([]string{r.Path}, parts...), "."), true
				}
			}
			break
		}
	}
	return selectorPath(info, e)
}

func collectCopies(info *types.Info, body ast.Node) []copyFact {
	seen := map[copyFact]bool{}
	var out []copyFact
	add := func(c copyFact) {
		if !seen[c] {
			seen[c] = true
			out = append(out, c)
		}
	}
	var lit func(rootT, prefix string, cl *ast.CompositeLit, env map[types.Object]srcRef)
	lit = func(rootT, prefix string, cl *ast.CompositeLit, env map[types.Object]srcRef) {
		for _, el := range cl.Elts {
			kv, ok := el.(*ast.KeyValueExpr)
			if !ok {
				continue
			}
			k, ok := kv.Key.(*ast.Ident)
			if !ok {
				continue
			}
			path := k.Name
			if prefix != "" {
				path = prefix + "." + k.Name
			}
			val := kv.Value
			if u, ok := val.(*ast.UnaryExpr); ok && u.Op == token.AND {
				val = u.X
			}
			if inner, ok := val.(*ast.CompositeLit); ok {
				lit(rootT, path, inner, env)
				continue
			}
			if call, ok := val.(*ast.CallExpr); ok && copyPkg != nil {
				if cal := sameModuleCallee(copyPkg, call); cal != nil && cal.Body != nil && len(cal.Body.List) == 1 && cal.Recv == nil {
					if ret, ok := cal.Body.List[0].(*ast.ReturnStmt); ok && len(ret.Results) == 1 {
						rv := ret.Results[0]
						if u, ok := rv.(*ast.UnaryExpr); ok && u.Op == token.AND {
							rv = u.X
						}
						if inner, ok := rv.(*ast.CompositeLit); ok {
							ne := map[types.Object]srcRef{}
							k := 0
							for _, f := range cal.Type.Params.List {
								for _, n := range f.Names {
									if k < len(call.Args) {
										if st, sp, ok := selectorPathEnv(info, call.Args[k], env); ok {
											ne[info.ObjectOf(n)] = srcRef{st, sp}
										}
									}
									k++
								}
							}
							lit(rootT, path, inner, ne)
							continue
						}
					}
				}
			}
			src, wrap := unwrap(info, kv.Value)
			if st, sp, ok := selectorPathEnv(info, src, env); ok {
				add(copyFact{rootT, path, st, sp, wrap})
			}
		}
	}
	ast.Inspect(body, func(n ast.Node) bool {
		switch v := n.(type) {
		case *ast.AssignStmt:
			if len(v.Lhs) == 1 && len(v.Rhs) == 1 && (v.Tok == token.ASSIGN || v.Tok == token.DEFINE) {
				if dt, dp, ok := selectorPath(info, v.Lhs[0]); ok {
					src, wrap := unwrap(info, v.Rhs[0])
					if st, sp, ok := selectorPath(info, src); ok {
						add(copyFact{dt, dp, st, sp, wrap})
					}
				}
			}
		case *ast.CompositeLit:
			if tn := trackedName(info.TypeOf(v)); tn != "" {
				lit(tn, "", v, nil)
				return false
			}
		}
		return true
	})
	return out
}

func funcID(p *packages.Package, fd *ast.FuncDecl) string {
	name := fd.Name.Name
	if fd.Recv != nil && len(fd.Recv.List) == 1 {
		t := fd.Recv.List[0].Type
		if st, ok := t.(*ast.StarExpr); ok {
			t = st.X
		}
		if id, ok := t.(*ast.Ident); ok {
			name = id.Name + "." + name
		}
	}
	pp := strings.TrimPrefix(p.PkgPath, modPath)
	pp = strings.TrimPrefix(pp, "/")
	if pp == "" {
		pp = "main"
	}
	return pp + ":" + name
}

func init() { extraGenerators = append(extraGenerators, (*extractor).genCopies) }

func (x *extractor) genCopies() {
	type entry struct {
		Fn    string
		Facts []copyFact
	}
	groups := map[string][]entry{} // "dstT<-srcT" -> entries
	var paths []string
	for pth := range x.pkgs {
		paths = append(paths, pth)
	}
	sort.Strings(paths)
	for _, pth := range paths {
		p := x.pkgs[pth]
		if !strings.HasPrefix(pth, modPath) {
			continue
		}
		for _, f := range p.Syntax {
			if strings.HasSuffix(p.Fset.Position(f.Pos()).Filename, "_test.go") {
				continue
			}
			for _, d := range f.Decls {
				fd, ok := d.(*ast.FuncDecl)
				if !ok || fd.Body == nil {
					continue
				}
				copyPkg = p
				facts := collectCopies(p.TypesInfo, fd.Body)
				by := map[string][]copyFact{}
				for _, c := range facts {
					k := c.DstT + "<-" + c.SrcT
					by[k] = append(by[k], c)
				}
				// a function that leaves the copying to a helper of its package copies what the helper copies
				ast.Inspect(fd.Body, func(n ast.Node) bool {
					call, ok := n.(*ast.CallExpr)
					if !ok {
						return true
					}
					cal := sameModuleCallee(p, call)
					if cal == nil || cal == fd || cal.Body == nil || ast.IsExported(cal.Name.Name) {
						return true
					}
					hb := map[string][]copyFact{}
					for _, c := range collectCopies(p.TypesInfo, cal.Body) {
						k := c.DstT + "<-" + c.SrcT
						hb[k] = append(hb[k], c)
					}
					for k, fs := range hb {
						if _, own := by[k]; !own {
							by[k] = fs
						}
					}
					return true
				})
				for k, fs := range by {
					sort.Slice(fs, func(i, j int) bool {
						return fmt.Sprint(fs[i]) < fmt.Sprint(fs[j])
					})
					groups[k] = append(groups[k], entry{funcID(p, fd), fs})
				}
			}
		}
	}
	var b strings.Builder
	b.WriteString(genHeader)
	b.WriteString("import Robust.Base.Facts\nnamespace Robust.Gen.Copies\nopen Robust.Facts\n\n")
	var keys []string
	for k := range groups {
		keys = append(keys, k)
	}
	sort.Strings(keys)
	jsonGroups := map[string]interface{}{}
	for _, k := range keys {
		es := groups[k]
		sort.Slice(es, func(i, j int) bool { return es[i].Fn < es[j].Fn })
		name := strings.NewReplacer(".", "_", "<-", "_from_").Replace(k)
		b.WriteString("/-- functions copying fields " + k + " -/\n")
		b.WriteString("def " + name + " : List (String × List CopyFact) := [\n")
		for i, e := range es {
			b.WriteString("  (" + leanStr(e.Fn) + ", [\n")
			for j, c := range e.Facts {
				b.WriteString("    ⟨" + leanStr(c.Dst) + ", " + leanStr(c.Src) + ", " + leanStr(c.Wrap) + "⟩")
				if j+1 < len(e.Facts) {
					b.WriteString(",")
				}
				b.WriteString("\n")
			}
			b.WriteString("  ])")
			if i+1 < len(es) {
				b.WriteString(",")
			}
			b.WriteString("\n")
		}
		b.WriteString("]\n\n")
		jsonGroups[k] = es
	}
	// make sure the names the expectations refer to exist even when a group vanished
	for _, want := range []string{"raft_Log_from_pb_RaftLog", "pb_RaftLog_from_raft_Log", "robust_Message_from_pb_RobustMessage", "pb_RobustMessage_from_robust_Message"} {
		found := false
		for _, k := range keys {
			if strings.NewReplacer(".", "_", "<-", "_from_").Replace(k) == want {
				found = true
			}
		}
		if !found {
			b.WriteString("def " + want + " : List (String × List CopyFact) := []\n")
		}
	}
	// every store into an InterestingFor map: (function, stored expression)
	b.WriteString("/-- every assignment `….InterestingFor[k] = e` in non-test code: (function, e) -/\n")
	b.WriteString("def interestingForStores : List (String × String) := [\n")
	var stores [][2]string
	for _, pth := range paths {
		p := x.pkgs[pth]
		if !strings.HasPrefix(pth, modPath) {
			continue
		}
		for _, f := range p.Syntax {
			if strings.HasSuffix(p.Fset.Position(f.Pos()).Filename, "_test.go") {
				continue
			}
			for _, d := range f.Decls {
				fd, ok := d.(*ast.FuncDecl)
				if !ok || fd.Body == nil {
					continue
				}
				ast.Inspect(fd.Body, func(n ast.Node) bool {
					as, ok := n.(*ast.AssignStmt)
					if !ok || len(as.Lhs) != 1 || len(as.Rhs) != 1 {
						return true
					}
					ix, ok := as.Lhs[0].(*ast.IndexExpr)
					if !ok {
						return true
					}
					sel, ok := ix.X.(*ast.SelectorExpr)
					if !ok || sel.Sel.Name != "InterestingFor" {
						return true
					}
					stores = append(stores, [2]string{funcID(p, fd), exprString(p.Fset, as.Rhs[0])})
					return true
				})
			}
		}
	}
	sort.Slice(stores, func(i, j int) bool { return stores[i][0]+stores[i][1] < stores[j][0]+stores[j][1] })
	for i, st := range stores {
		b.WriteString("  (" + leanStr(st[0]) + ", " + leanStr(st[1]) + ")")
		if i+1 < len(stores) {
			b.WriteString(",")
		}
		b.WriteString("\n")
	}
	b.WriteString("]\n\n")
	x.facts["interestingForStores"] = stores
	// id defaulting in NewMessageFromBytes: the trailing `if cond { assignment }`
	idCond, idBody := "", ""
	if fd := findFunc(x.pkg("internal/robust"), "", "NewMessageFromBytes"); fd != nil {
		p := x.pkg("internal/robust")
		for _, st := range fd.Body.List {
			if ifs, ok := st.(*ast.IfStmt); ok && ifs.Else == nil && len(ifs.Body.List) == 1 {
				if _, isAssign := ifs.Body.List[0].(*ast.AssignStmt); isAssign {
					idCond = exprString(p.Fset, ifs.Cond)
					idBody = stmtString(p.Fset, ifs.Body.List[0])
				}
			}
		}
	}
	b.WriteString("def idDefaultCond : String := " + leanStr(idCond) + "\n")
	b.WriteString("def idDefaultBody : String := " + leanStr(idBody) + "\n\n")
	// flattened exported field lists of the record types
	fieldLists := map[string][]string{}
	for full, short := range trackedTypes {
		idx := strings.LastIndex(full, ".")
		pkgPath, tname := full[:idx], full[idx+1:]
		p := x.pkgs[pkgPath]
		var fields []string
		if p == nil {
			// dependency package (hashicorp/raft): find through imports
			for _, q := range x.pkgs {
				if imp, ok := q.Imports[pkgPath]; ok {
					p = imp
					break
				}
			}
		}
		if p != nil && p.Types != nil {
			if obj := p.Types.Scope().Lookup(tname); obj != nil {
				fields = flattenFields(obj.Type(), "", 0)
			}
		}
		sort.Strings(fields)
		fieldLists[short] = fields
	}
	var shorts []string
	for s := range fieldLists {
		shorts = append(shorts, s)
	}
	sort.Strings(shorts)
	for _, s := range shorts {
		b.WriteString("def fields_" + strings.ReplaceAll(s, ".", "_") + " : List String := [")
		for i, f := range fieldLists[s] {
			if i > 0 {
				b.WriteString(", ")
			}
			b.WriteString(leanStr(f))
		}
		b.WriteString("]\n")
	}
	x.facts["fieldLists"] = fieldLists
	b.WriteString("end Robust.Gen.Copies\n")
	x.files["Copies.lean"] = b.String()
	x.facts["copies"] = jsonGroups
}

// flattenFields lists exported fields; nested id structs (robust.Id, *pb.RobustId) are expanded.
func flattenFields(t types.Type, prefix string, depth int) []string {
	if p, ok := t.(*types.Pointer); ok {
		t = p.Elem()
	}
	st, ok := t.Underlying().(*types.Struct)
	if !ok {
		return nil
	}
	var out []string
	for i := 0; i < st.NumFields(); i++ {
		f := st.Field(i)
		if !f.Exported() {
			continue
		}
		name := f.Name()
		if prefix != "" {
			name = prefix + "." + name
		}
		ft := f.Type()
		if p, ok := ft.(*types.Pointer); ok {
			ft = p.Elem()
		}
		if n, ok := ft.(*types.Named); ok && depth == 0 && (n.Obj().Name() == "Id" || n.Obj().Name() == "RobustId") {
			out = append(out, flattenFields(n, name, depth+1)...)
			continue
		}
		out = append(out, name)
	}
	return out
}

func exprString(fset *token.FileSet, e ast.Expr) string {
	var buf bytes.Buffer
	printer.Fprint(&buf, fset, e)
	return buf.String()
}

func stmtString(fset *token.FileSet, s ast.Stmt) string {
	var buf bytes.Buffer
	printer.Fprint(&buf, fset, s)
	return strings.Join(strings.Fields(buf.String()), " ")
}
