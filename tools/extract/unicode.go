package main

// unicode.go: case-mapping tables of the Go toolchain that builds /repo
// (strings.ToLower / strings.ToUpper are unicode.ToLower / unicode.ToUpper per rune).

import (
	"fmt"
	"strings"
	"unicode"
)

func init() { extraGenerators = append(extraGenerators, (*extractor).genUnicode) }

func (x *extractor) genUnicode() {
	var b strings.Builder
	b.WriteString(genHeader)
	b.WriteString("namespace Robust.Gen.Unicode\n\n")
	emit := func(name string, f func(rune) rune) {
		var pairs []string
		for r := rune(128); r <= unicode.MaxRune; r++ {
			if r >= 0xD800 && r <= 0xDFFF {
				continue
			}
			if t := f(r); t != r {
				pairs = append(pairs, fmt.Sprintf("(%d,%d)", r, t))
			}
		}
		var chunks []string
		for i := 0; i < len(pairs); i += 48 {
			j := i + 48
			if j > len(pairs) {
				j = len(pairs)
			}
			cn := fmt.Sprintf("%sChunk%d", name, i/48)
			b.WriteString("def " + cn + " : List (Nat × Nat) := [" + strings.Join(pairs[i:j], ",") + "]\n")
			chunks = append(chunks, cn)
		}
		b.WriteString("/-- code points (> 127) on which Go's unicode." + name + " is not the identity: (from, to) sorted by from -/\n")
		b.WriteString("def " + name + "Table : Array (Nat × Nat) := ([" + strings.Join(chunks, ", ") + "] : List (List (Nat × Nat))).flatten.toArray\n\n")
	}
	emit("toLower", unicode.ToLower)
	emit("toUpper", unicode.ToUpper)
	// unicode.IsSpace beyond ASCII
	b.WriteString("def spaceTable : List Nat := [")
	first := true
	for r := rune(0); r <= unicode.MaxRune; r++ {
		if unicode.IsSpace(r) {
			if !first {
				b.WriteString(", ")
			}
			fmt.Fprintf(&b, "%d", r)
			first = false
		}
	}
	b.WriteString("]\n\nend Robust.Gen.Unicode\n")
	x.files["Unicode.lean"] = b.String()
}
