package main

// ranges.go (fact families G1, G2): every `range` over a map-typed expression in the packages on
// the replicated path, with a shape fingerprint of its body; and every call to a source of
// non-determinism (clock, randomness, environment, goroutines, channels) with its enclosing function.

import (
	"go/ast"
	"go/token"
	"go/types"
	"sort"
	"strings"

	"golang.org/x/tools/go/packages"
)

func init() { extraGenerators = append(extraGenerators, (*extractor).genRanges) }

type rangeSite struct {
	Fn, Ranged, Shape string
}

func calleeName(p *packages.Package, c *ast.CallExpr) string {
	return exprString(p.Fset, c.Fun)
}

// classify the body of a map range
func classifyRange(p *packages.Package, fd *ast.FuncDecl, rs *ast.RangeStmt) string {
	emits, exits, appends, mapWrites, deletes, calls := false, false, []string{}, false, false, []string{}
	appendObjs := map[types.Object]bool{}
	var carries []string
	// a variable that lives across iterations and is written in the body (other than `x = append(x, ...)`)
	// makes the result depend on the iteration order
	outer := func(e ast.Expr) (string, bool) {
		id, ok := e.(*ast.Ident)
		if !ok || id.Name == "_" || p.TypesInfo == nil {
			return "", false
		}
		obj := p.TypesInfo.ObjectOf(id)
		if obj == nil || (obj.Pos() >= rs.Pos() && obj.Pos() <= rs.End()) {
			return "", false
		}
		return id.Name, true
	}
	ast.Inspect(rs.Body, func(n ast.Node) bool {
		switch v := n.(type) {
		case *ast.FuncLit:
			return false
		case *ast.ReturnStmt:
			exits = true
		case *ast.BranchStmt:
			if v.Tok == token.BREAK {
				exits = true
			}
		case *ast.IncDecStmt:
			if n, ok := outer(v.X); ok {
				carries = append(carries, n)
			}
		case *ast.AssignStmt:
			for i, l := range v.Lhs {
				if _, ok := l.(*ast.IndexExpr); ok {
					mapWrites = true
				}
				isAppend := false
				if i < len(v.Rhs) && len(v.Lhs) == len(v.Rhs) {
					if c, ok := v.Rhs[i].(*ast.CallExpr); ok && calleeName(p, c) == "append" {
						if id, ok := l.(*ast.Ident); ok {
							appends = append(appends, id.Name)
							if p.TypesInfo != nil {
								appendObjs[p.TypesInfo.ObjectOf(id)] = true
							}
							// x = append(x, ...): the collected slice itself
							if len(c.Args) > 0 && exprString(p.Fset, c.Args[0]) == id.Name && v.Tok == token.ASSIGN {
								isAppend = true
							}
						}
					}
				}
				if !isAppend && v.Tok != token.DEFINE {
					if n, ok := outer(l); ok {
						carries = append(carries, n)
					}
				}
			}
		case *ast.CallExpr:
			name := calleeName(p, v)
			switch {
			case name == "delete":
				deletes = true
			case name == "append" || name == "len" || name == "string" || strings.HasPrefix(name, "strings.") || strings.HasPrefix(name, "log.") || strings.HasPrefix(name, "fmt.") || name == "NickToLower" || name == "ChanToLower" || name == "lcChan" || name == "lcNick":
			case strings.Contains(name, ".send") || strings.HasPrefix(name, "i.cmd") || strings.Contains(name, "Sprintf"):
				emits = emits || strings.Contains(name, ".send") || strings.HasPrefix(name, "i.cmd")
			default:
				calls = append(calls, name)
			}
		}
		return true
	})
	sorted := false
	if len(appends) > 0 && fd != nil {
		ast.Inspect(fd.Body, func(n ast.Node) bool {
			if c, ok := n.(*ast.CallExpr); ok && c.Pos() > rs.End() {
				name := calleeName(p, c)
				if (name == "sort.Strings" || name == "sort.Slice" || name == "sort.Sort") && len(c.Args) > 0 {
					if id, ok := c.Args[0].(*ast.Ident); ok {
						// the very variable the loop appended to (not a shadowing one)
						if p.TypesInfo != nil && appendObjs[p.TypesInfo.ObjectOf(id)] {
							sorted = true
						}
					}
				}
			}
			return true
		})
	}
	sort.Strings(calls)
	var parts []string
	if emits {
		parts = append(parts, "emit")
	}
	if exits {
		parts = append(parts, "exit")
	}
	if len(appends) > 0 {
		if sorted {
			parts = append(parts, "collect+sort")
		} else {
			parts = append(parts, "collect")
		}
	}
	if mapWrites {
		parts = append(parts, "mapwrite")
	}
	if len(carries) > 0 {
		sort.Strings(carries)
		parts = append(parts, "carry("+strings.Join(dedupStrings(carries), ",")+")")
	}
	if deletes {
		parts = append(parts, "delete")
	}
	if len(calls) > 0 {
		parts = append(parts, "calls("+strings.Join(dedupStrings(calls), ",")+")")
	}
	if len(parts) == 0 {
		parts = append(parts, "pure")
	}
	return strings.Join(parts, "+")
}

func dedupStrings(l []string) []string {
	var out []string
	for i, s := range l {
		if i == 0 || s != l[i-1] {
			out = append(out, s)
		}
	}
	return out
}

var impureFuncs = map[string]bool{"time.Now": true, "time.Since": true, "time.After": true, "time.Sleep": true, "time.Tick": true, "time.NewTimer": true, "time.NewTicker": true,
	"os.Getenv": true, "os.Hostname": true, "os.Getpid": true}

func (x *extractor) genRanges() {
	var sites []rangeSite
	type impure struct{ Fn, Call string }
	var impures []impure
	pkgs := []string{"internal/ircserver", "internal/robust", "internal/outputstream", "internal/config", ""}
	for _, rel := range pkgs {
		p := x.pkg(rel)
		if p == nil {
			continue
		}
		for _, f := range p.Syntax {
			fname := p.Fset.Position(f.Pos()).Filename
			if strings.HasSuffix(fname, "_test.go") {
				continue
			}
			if rel == "" && !strings.HasSuffix(fname, "statemachine.go") && !strings.HasSuffix(fname, "compaction.go") {
				continue
			}
			for _, d := range f.Decls {
				fd, ok := d.(*ast.FuncDecl)
				if !ok || fd.Body == nil {
					continue
				}
				ast.Inspect(fd.Body, func(n ast.Node) bool {
					switch v := n.(type) {
					case *ast.RangeStmt:
						t := p.TypesInfo.TypeOf(v.X)
						if t != nil {
							if _, isMap := t.Underlying().(*types.Map); isMap {
								sites = append(sites, rangeSite{funcID(p, fd), exprString(p.Fset, v.X), classifyRange(p, fd, v)})
							}
						}
					case *ast.CallExpr:
						name := calleeName(p, v)
						if impureFuncs[name] || strings.HasPrefix(name, "rand.") {
							impures = append(impures, impure{funcID(p, fd), name})
						}
					case *ast.GoStmt:
						impures = append(impures, impure{funcID(p, fd), "go"})
					case *ast.SelectStmt:
						impures = append(impures, impure{funcID(p, fd), "select"})
					}
					return true
				})
			}
		}
	}
	sort.Slice(sites, func(i, j int) bool {
		return sites[i].Fn+"|"+sites[i].Ranged+"|"+sites[i].Shape < sites[j].Fn+"|"+sites[j].Ranged+"|"+sites[j].Shape
	})
	sort.Slice(impures, func(i, j int) bool { return impures[i].Fn+impures[i].Call < impures[j].Fn+impures[j].Call })
	var b strings.Builder
	b.WriteString(genHeader)
	b.WriteString("namespace Robust.Gen.Ranges\n\n/-- every `range` over a map on the replicated path: (function, ranged expression, body shape) -/\ndef mapRanges : List (String × String × String) := [\n")
	for i, s := range sites {
		b.WriteString("  (" + leanStr(s.Fn) + ", " + leanStr(s.Ranged) + ", " + leanStr(s.Shape) + ")")
		if i+1 < len(sites) {
			b.WriteString(",")
		}
		b.WriteString("\n")
	}
	b.WriteString("]\n\n/-- every use of the clock, the environment, randomness, goroutines or select: (function, what) -/\ndef impureCalls : List (String × String) := [\n")
	seen := map[impure]bool{}
	first := true
	for _, im := range impures {
		if seen[im] {
			continue
		}
		seen[im] = true
		if !first {
			b.WriteString(",\n")
		}
		first = false
		b.WriteString("  (" + leanStr(im.Fn) + ", " + leanStr(im.Call) + ")")
	}
	b.WriteString("\n]\n\nend Robust.Gen.Ranges\n")
	x.files["Ranges.lean"] = b.String()
	x.facts["mapRanges"] = sites
}
