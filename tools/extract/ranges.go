package main

// ranges.go (fact families G1, G2): every `range` over a map-typed expression in the packages on
// the replicated path, with a shape fingerprint of its body; and every call to a source of
// non-determinism (clock, randomness, environment, goroutines, channels) with its enclosing function.

import (
	"go/ast"
	"go/token"
	"go/types"
	"sort"
	"strings"

	"golang.org/x/tools/go/packages"
)

func init() { extraGenerators = append(extraGenerators, (*extractor).genRanges) }

type rangeSite struct {
	Fn, Ranged, Shape string
}

func calleeName(p *packages.Package, c *ast.CallExpr) string {
	return exprString(p.Fset, c.Fun)
}

// effectful: functions of package p that (transitively through calls within the package) write to
// something that outlives them — receiver, parameters, package variables, objects reached through pointers or
// maps that were not freshly made in the function — or send output. Callees that only compute are not part of a
// range body's shape.
var effectCache = map[*packages.Package]map[*types.Func]bool{}

func freshExpr(e ast.Expr) bool {
	switch v := e.(type) {
	case *ast.CompositeLit:
		return true
	case *ast.UnaryExpr:
		_, ok := v.X.(*ast.CompositeLit)
		return ok && v.Op == token.AND
	case *ast.CallExpr:
		if id, ok := v.Fun.(*ast.Ident); ok && (id.Name == "make" || id.Name == "new") {
			return true
		}
	}
	return false
}

func rootIdent(e ast.Expr) *ast.Ident {
	for {
		switch v := e.(type) {
		case *ast.Ident:
			return v
		case *ast.SelectorExpr:
			e = v.X
		case *ast.IndexExpr:
			e = v.X
		case *ast.StarExpr:
			e = v.X
		case *ast.ParenExpr:
			e = v.X
		default:
			return nil
		}
	}
}

func directEffects(p *packages.Package, fd *ast.FuncDecl) (direct bool, callees []*types.Func) {
	defs := singleDefs(p, fd.Body)
	outlives := func(lhs ast.Expr) bool {
		if _, plain := lhs.(*ast.Ident); plain {
			obj := p.TypesInfo.ObjectOf(lhs.(*ast.Ident))
			// a plain local (or result) variable; package variables outlive the call
			return obj != nil && obj.Parent() != nil && obj.Pkg() != nil && obj.Parent() == obj.Pkg().Scope()
		}
		id := rootIdent(lhs)
		if id == nil {
			return true
		}
		obj := p.TypesInfo.ObjectOf(id)
		if obj == nil {
			return true
		}
		if obj.Pos() < fd.Body.Pos() || obj.Pos() > fd.Body.End() {
			return true // receiver, parameter, package variable
		}
		if d, ok := defs[obj]; ok && freshExpr(d) {
			return false
		}
		switch obj.Type().Underlying().(type) {
		case *types.Pointer, *types.Map, *types.Slice, *types.Interface:
			return true
		}
		return false
	}
	ast.Inspect(fd.Body, func(n ast.Node) bool {
		switch v := n.(type) {
		case *ast.AssignStmt:
			for _, l := range v.Lhs {
				if outlives(l) {
					direct = true
				}
			}
		case *ast.IncDecStmt:
			if outlives(v.X) {
				direct = true
			}
		case *ast.GoStmt, *ast.SendStmt:
			direct = true
		case *ast.CallExpr:
			name := calleeName(p, v)
			if name == "delete" && len(v.Args) > 0 && outlives(&ast.IndexExpr{X: v.Args[0]}) {
				direct = true
			}
			var id *ast.Ident
			switch f := v.Fun.(type) {
			case *ast.Ident:
				id = f
			case *ast.SelectorExpr:
				id = f.Sel
			}
			if id != nil {
				if fn, ok := p.TypesInfo.Uses[id].(*types.Func); ok && fn.Pkg() != nil && fn.Pkg().Path() == p.PkgPath {
					callees = append(callees, fn)
				}
				if strings.HasPrefix(strings.ToLower(id.Name), "send") {
					direct = true
				}
			}
		}
		return true
	})
	return
}

func effectful(p *packages.Package) map[*types.Func]bool {
	if m, ok := effectCache[p]; ok {
		return m
	}
	eff := map[*types.Func]bool{}
	calls := map[*types.Func][]*types.Func{}
	for _, f := range p.Syntax {
		for _, d := range f.Decls {
			fd, ok := d.(*ast.FuncDecl)
			if !ok || fd.Body == nil {
				continue
			}
			fn, _ := p.TypesInfo.Defs[fd.Name].(*types.Func)
			if fn == nil {
				continue
			}
			d, cs := directEffects(p, fd)
			eff[fn] = d
			calls[fn] = cs
		}
	}
	for changed := true; changed; {
		changed = false
		for fn, cs := range calls {
			if eff[fn] {
				continue
			}
			for _, c := range cs {
				if eff[c] {
					eff[fn] = true
					changed = true
					break
				}
			}
		}
	}
	effectCache[p] = eff
	return eff
}

// classify the body of a map range
func classifyRange(p *packages.Package, fd *ast.FuncDecl, rs *ast.RangeStmt) string {
	emits, exits, appends, mapWrites, deletes, calls := false, false, []string{}, false, false, []string{}
	appendObjs := map[types.Object]bool{}
	var carries []string
	// a variable that lives across iterations and is written in the body (other than `x = append(x, ...)`)
	// makes the result depend on the iteration order
	outer := func(e ast.Expr) (string, bool) {
		id, ok := e.(*ast.Ident)
		if !ok || id.Name == "_" || p.TypesInfo == nil {
			return "", false
		}
		obj := p.TypesInfo.ObjectOf(id)
		if obj == nil || (obj.Pos() >= rs.Pos() && obj.Pos() <= rs.End()) {
			return "", false
		}
		// by type, not by name: renaming the variable does not change the shape
		return shortType(obj.Type()), true
	}
	ast.Inspect(rs.Body, func(n ast.Node) bool {
		switch v := n.(type) {
		case *ast.FuncLit:
			return false
		case *ast.ReturnStmt:
			exits = true
		case *ast.BranchStmt:
			if v.Tok == token.BREAK {
				exits = true
			}
		case *ast.IncDecStmt:
			if n, ok := outer(v.X); ok {
				carries = append(carries, n)
			}
		case *ast.AssignStmt:
			for i, l := range v.Lhs {
				if _, ok := l.(*ast.IndexExpr); ok {
					mapWrites = true
				}
				isAppend := false
				if i < len(v.Rhs) && len(v.Lhs) == len(v.Rhs) {
					if c, ok := v.Rhs[i].(*ast.CallExpr); ok && calleeName(p, c) == "append" {
						if id, ok := l.(*ast.Ident); ok {
							appends = append(appends, id.Name)
							if p.TypesInfo != nil {
								appendObjs[p.TypesInfo.ObjectOf(id)] = true
							}
							// x = append(x, ...): the collected slice itself
							if len(c.Args) > 0 && exprString(p.Fset, c.Args[0]) == id.Name && v.Tok == token.ASSIGN {
								isAppend = true
							}
						}
					}
				}
				if !isAppend && v.Tok != token.DEFINE {
					if n, ok := outer(l); ok {
						carries = append(carries, n)
					}
				}
			}
		case *ast.CallExpr:
			name := calleeName(p, v)
			switch {
			case name == "delete":
				deletes = true
			case name == "append" || name == "len" || name == "string" || strings.HasPrefix(name, "strings.") || strings.HasPrefix(name, "log.") || strings.HasPrefix(name, "fmt.") || name == "NickToLower" || name == "ChanToLower" || name == "lcChan" || name == "lcNick":
			case strings.Contains(name, ".send") || strings.HasPrefix(name, "i.cmd") || strings.Contains(name, "Sprintf"):
				emits = emits || strings.Contains(name, ".send") || strings.HasPrefix(name, "i.cmd")
			default:
				// only callees of this package that have effects of their own belong to the shape
				var id *ast.Ident
				switch f := v.Fun.(type) {
				case *ast.Ident:
					id = f
				case *ast.SelectorExpr:
					id = f.Sel
				}
				if id != nil {
					if fn, ok := p.TypesInfo.Uses[id].(*types.Func); ok && fn.Pkg() != nil && fn.Pkg().Path() == p.PkgPath && effectful(p)[fn] {
						calls = append(calls, fn.Name())
					}
				}
			}
		}
		return true
	})
	sorted := false
	if len(appends) > 0 && fd != nil {
		ast.Inspect(fd.Body, func(n ast.Node) bool {
			if c, ok := n.(*ast.CallExpr); ok && c.Pos() > rs.End() {
				name := calleeName(p, c)
				if (name == "sort.Strings" || name == "sort.Slice" || name == "sort.Sort") && len(c.Args) > 0 {
					if id, ok := c.Args[0].(*ast.Ident); ok {
						// the very variable the loop appended to (not a shadowing one)
						if p.TypesInfo != nil && appendObjs[p.TypesInfo.ObjectOf(id)] {
							sorted = true
						}
					}
				}
			}
			return true
		})
	}
	sort.Strings(calls)
	var parts []string
	if emits {
		parts = append(parts, "emit")
	}
	if exits {
		parts = append(parts, "exit")
	}
	if len(appends) > 0 {
		if sorted {
			parts = append(parts, "collect+sort")
		} else {
			parts = append(parts, "collect")
		}
	}
	if mapWrites {
		parts = append(parts, "mapwrite")
	}
	if len(carries) > 0 {
		sort.Strings(carries)
		parts = append(parts, "carry("+strings.Join(dedupStrings(carries), ",")+")")
	}
	if deletes {
		parts = append(parts, "delete")
	}
	if len(calls) > 0 {
		parts = append(parts, "calls("+strings.Join(dedupStrings(calls), ",")+")")
	}
	if len(parts) == 0 {
		parts = append(parts, "pure")
	}
	return strings.Join(parts, "+")
}

func dedupStrings(l []string) []string {
	var out []string
	for i, s := range l {
		if i == 0 || s != l[i-1] {
			out = append(out, s)
		}
	}
	return out
}

var impureFuncs = map[string]bool{"time.Now": true, "time.Since": true, "time.After": true, "time.Sleep": true, "time.Tick": true, "time.NewTimer": true, "time.NewTicker": true,
	"os.Getenv": true, "os.Hostname": true, "os.Getpid": true}

func (x *extractor) genRanges() {
	var sites []rangeSite
	type impure struct{ Fn, Call string }
	var impures []impure
	pkgs := []string{"internal/ircserver", "internal/robust", "internal/outputstream", "internal/config", ""}
	for _, rel := range pkgs {
		p := x.pkg(rel)
		if p == nil {
			continue
		}
		for _, f := range p.Syntax {
			fname := p.Fset.Position(f.Pos()).Filename
			if strings.HasSuffix(fname, "_test.go") {
				continue
			}
			if rel == "" && !strings.HasSuffix(fname, "statemachine.go") && !strings.HasSuffix(fname, "compaction.go") {
				continue
			}
			for _, d := range f.Decls {
				fd, ok := d.(*ast.FuncDecl)
				if !ok || fd.Body == nil {
					continue
				}
				ast.Inspect(fd.Body, func(n ast.Node) bool {
					switch v := n.(type) {
					case *ast.RangeStmt:
						t := p.TypesInfo.TypeOf(v.X)
						if t != nil {
							if _, isMap := t.Underlying().(*types.Map); isMap {
								// what is ranged over, independent of names and of the function it sits in: the field of a
								// type, else the normal form of the expression
								ranged := newEnv(p, fd).expr(v.X)
								if se, ok := v.X.(*ast.SelectorExpr); ok {
									if xt := p.TypesInfo.TypeOf(se.X); xt != nil {
										ranged = strings.TrimPrefix(shortType(xt), "*") + "." + se.Sel.Name
									}
								} else if len(ranged) > 80 {
									ranged = "local:" + shortType(t)
								}
								sites = append(sites, rangeSite{funcID(p, fd), ranged, classifyRange(p, fd, v)})
							}
						}
					case *ast.CallExpr:
						name := calleeName(p, v)
						if impureFuncs[name] || strings.HasPrefix(name, "rand.") {
							impures = append(impures, impure{funcID(p, fd), name})
						}
					case *ast.GoStmt:
						impures = append(impures, impure{funcID(p, fd), "go"})
					case *ast.SelectStmt:
						impures = append(impures, impure{funcID(p, fd), "select"})
					}
					return true
				})
			}
		}
	}
	sort.Slice(sites, func(i, j int) bool {
		return sites[i].Ranged+"|"+sites[i].Shape+"|"+sites[i].Fn < sites[j].Ranged+"|"+sites[j].Shape+"|"+sites[j].Fn
	})
	sort.Slice(impures, func(i, j int) bool { return impures[i].Fn+impures[i].Call < impures[j].Fn+impures[j].Call })
	var b strings.Builder
	b.WriteString(genHeader)
	b.WriteString("namespace Robust.Gen.Ranges\n\n/-- every `range` over a map on the replicated path: (function, ranged expression, body shape) -/\ndef mapRanges : List (String × String × String) := [\n")
	for i, s := range sites {
		b.WriteString("  (" + leanStr(s.Fn) + ", " + leanStr(s.Ranged) + ", " + leanStr(s.Shape) + ")")
		if i+1 < len(sites) {
			b.WriteString(",")
		}
		b.WriteString("\n")
	}
	b.WriteString("]\n\n/-- every use of the clock, the environment, randomness, goroutines or select: (function, what) -/\ndef impureCalls : List (String × String) := [\n")
	seen := map[impure]bool{}
	first := true
	for _, im := range impures {
		if seen[im] {
			continue
		}
		seen[im] = true
		if !first {
			b.WriteString(",\n")
		}
		first = false
		b.WriteString("  (" + leanStr(im.Fn) + ", " + leanStr(im.Call) + ")")
	}
	b.WriteString("\n]\n\nend Robust.Gen.Ranges\n")
	x.files["Ranges.lean"] = b.String()
	x.facts["mapRanges"] = sites
}
