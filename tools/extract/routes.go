package main

// routes.go (fact family G6): HTTP dispatch — for every handler call in DispatchPublic which
// guard dominates it, the basic-auth test of DispatchPrivate, and who calls the unauthenticated
// private dispatcher.

import (
	"go/ast"
	"sort"
	"strings"
)

func init() { extraGenerators = append(extraGenerators, (*extractor).genRoutes) }

func (x *extractor) genRoutes() {
	api := x.pkg("internal/api")
	type route struct{ Handler, Guard, Method string }
	var routes []route
	var privCond, privBody string
	var privRoutes []string
	var withoutAuthCallers []string
	firstStmtGuard := map[string]string{}
	if api != nil {
		// which handlers start by calling api.session themselves
		for _, f := range api.Syntax {
			for _, d := range f.Decls {
				fd, ok := d.(*ast.FuncDecl)
				if !ok || fd.Body == nil || !strings.HasPrefix(fd.Name.Name, "handle") || len(fd.Body.List) == 0 {
					continue
				}
				// the first statement that is not a comment
				first := stmtString(api.Fset, fd.Body.List[0])
				if strings.Contains(first, "api.session(") {
					firstStmtGuard[fd.Name.Name] = "session(first statement)"
				}
			}
		}
		if fd := findFunc(api, "HTTP", "DispatchPublic"); fd != nil {
			var walk func(n ast.Node, guard, method string)
			walk = func(n ast.Node, guard, method string) {
				switch v := n.(type) {
				case *ast.CaseClause:
					m := method
					if len(v.List) == 1 {
						m = exprString(api.Fset, v.List[0])
					}
					for _, s := range v.Body {
						walk(s, guard, m)
					}
					return
				case *ast.IfStmt:
					g := guard
					if v.Init != nil {
						is := stmtString(api.Fset, v.Init)
						if strings.Contains(is, "api.sessionOrProxy(") && strings.Contains(exprString(api.Fset, v.Cond), "err == nil") {
							g = "sessionOrProxy"
						} else if strings.Contains(is, "api.session(") && strings.Contains(exprString(api.Fset, v.Cond), "err == nil") {
							g = "session"
						}
					}
					walk(v.Body, g, method)
					if v.Else != nil {
						walk(v.Else, guard, method)
					}
					return
				case *ast.CallExpr:
					f := exprString(api.Fset, v.Fun)
					if strings.HasPrefix(f, "api.handle") {
						h := strings.TrimPrefix(f, "api.")
						g := guard
						if g == "" {
							g = firstStmtGuard[h]
						}
						if g == "" {
							g = "none"
						}
						routes = append(routes, route{h, g, method})
					}
				}
				// generic descent
				ast.Inspect(n, func(c ast.Node) bool {
					if c == n || c == nil {
						return true
					}
					switch c.(type) {
					case *ast.CaseClause, *ast.IfStmt, *ast.CallExpr:
						walk(c, guard, method)
						return false
					}
					return true
				})
			}
			walk(fd.Body, "", "")
		}
		if fd := findFunc(api, "HTTP", "DispatchPrivate"); fd != nil {
			if is := findIf(api, fd, "networkPassword"); is != nil {
				privCond = newEnv(api, fd).expr(is.Cond)
				if n := len(is.Body.List); n > 0 {
					privBody = stmtString(api.Fset, is.Body.List[n-1])
				}
				// the unauthenticated dispatcher is called after (outside) that if
				ast.Inspect(fd.Body, func(n ast.Node) bool {
					if c, ok := n.(*ast.CallExpr); ok && strings.Contains(exprString(api.Fset, c.Fun), "DispatchPrivateWithoutAuth") {
						if c.Pos() > is.End() {
							privRoutes = append(privRoutes, "after-auth")
						} else {
							privRoutes = append(privRoutes, "before-auth")
						}
					}
					return true
				})
			}
		}
	}
	// callers of DispatchPrivateWithoutAuth anywhere in the module (non-test)
	for pth, p := range x.pkgs {
		if !strings.HasPrefix(pth, modPath) {
			continue
		}
		for _, f := range p.Syntax {
			if strings.HasSuffix(p.Fset.Position(f.Pos()).Filename, "_test.go") {
				continue
			}
			for _, d := range f.Decls {
				fd, ok := d.(*ast.FuncDecl)
				if !ok || fd.Body == nil {
					continue
				}
				ast.Inspect(fd.Body, func(n ast.Node) bool {
					if se, ok := n.(*ast.SelectorExpr); ok && se.Sel.Name == "DispatchPrivateWithoutAuth" {
						withoutAuthCallers = append(withoutAuthCallers, funcID(p, fd))
					}
					return true
				})
			}
		}
	}
	sort.Strings(withoutAuthCallers)
	sort.Slice(routes, func(i, j int) bool { return routes[i].Handler+routes[i].Method < routes[j].Handler+routes[j].Method })
	var b strings.Builder
	b.WriteString(genHeader)
	b.WriteString("namespace Robust.Gen.Routes\n\n/-- public dispatcher: (handler, guard that dominates the call, HTTP method) -/\ndef publicRoutes : List (String × String × String) := [\n")
	for i, r := range routes {
		b.WriteString("  (" + leanStr(r.Handler) + ", " + leanStr(r.Guard) + ", " + leanStr(r.Method) + ")")
		if i+1 < len(routes) {
			b.WriteString(",")
		}
		b.WriteString("\n")
	}
	b.WriteString("]\n\n")
	b.WriteString("def privateAuthCond : String := " + leanStr(privCond) + "\n")
	b.WriteString("def privateAuthRefusal : String := " + leanStr(privBody) + "\n")
	b.WriteString("def privateDispatchPlacement : List String := [" + strings.Join(mapStr(privRoutes, leanStr), ", ") + "]\n")
	b.WriteString("def withoutAuthCallers : List String := [" + strings.Join(mapStr(withoutAuthCallers, leanStr), ", ") + "]\n")
	serverHandler, served, defaultMux := x.genServed()
	b.WriteString("\n/-- the Handler field of the http.Server literal of package main (\"\" = none, i.e. http.DefaultServeMux) -/\ndef serverHandler : String := " + leanStr(serverHandler) + "\n\n")
	b.WriteString(leanRoutes("servedRoutes", "(pattern, handler, registering package) of every route the listening server can reach", served))
	b.WriteString(leanRoutes("defaultMuxRoutes", "registrations on http.DefaultServeMux anywhere in the import closure of package main", defaultMux))
	b.WriteString("end Robust.Gen.Routes\n")
	x.files["Routes.lean"] = b.String()
	x.facts["routes"] = map[string]interface{}{"public": routes, "privateCond": privCond, "withoutAuthCallers": withoutAuthCallers,
		"serverHandler": serverHandler, "served": served, "defaultMux": defaultMux}
}

func mapStr(l []string, f func(string) string) []string {
	out := make([]string, len(l))
	for i, s := range l {
		out[i] = f(s)
	}
	return out
}
