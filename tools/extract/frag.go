package main

// frag.go: translator for a tiny fragment of Go -- straight-line integer code
// (assignments, `if` with a single assignment or a return, `+=`, comparisons,
// early-return `range` loops over a slice) -- into Lean 4 definitions over the
// fixed-width operations of Robust.Base.I64.  It is deliberately small: anything
// outside the fragment makes the generated file fail to compile, which the check
// reports as a broken tie (never as a pass).

import (
	"fmt"
	"go/ast"
	"go/constant"
	"go/token"
	"go/types"
	"strings"

	"golang.org/x/tools/go/packages"
)

type fragTranslator struct {
	info *types.Info
	// methods of local named types that are translated too: name -> lean name
	funcs map[string]string
	err   error
	// pkg: the package being translated (to look through calls of its own small helpers)
	pkg *packages.Package
	// subst: parameters of a helper that is being looked through -> translated argument
	subst map[types.Object]string
	depth int
}

// inlineCall: a call of a function or method of the same package whose body is a single `return e` is translated
// as e with the parameters (and the receiver) replaced by the arguments — extracting such a helper does not change
// the generated definitions
func (ft *fragTranslator) inlineCall(e *ast.CallExpr, asProp bool) (string, bool) {
	if ft.pkg == nil || ft.depth > 4 {
		return "", false
	}
	cal := sameModuleCallee(ft.pkg, e)
	if cal == nil || cal.Body == nil || len(cal.Body.List) != 1 {
		return "", false
	}
	ret, ok := cal.Body.List[0].(*ast.ReturnStmt)
	if !ok || len(ret.Results) != 1 {
		return "", false
	}
	old := ft.subst
	ns := map[types.Object]string{}
	for k, v := range old {
		ns[k] = v
	}
	if cal.Recv != nil {
		sel, ok := e.Fun.(*ast.SelectorExpr)
		if !ok {
			return "", false
		}
		for _, f := range cal.Recv.List {
			for _, n := range f.Names {
				ns[ft.info.ObjectOf(n)] = ft.expr(sel.X)
			}
		}
	}
	k := 0
	for _, f := range cal.Type.Params.List {
		for _, n := range f.Names {
			if k < len(e.Args) {
				ns[ft.info.ObjectOf(n)] = ft.expr(e.Args[k])
			}
			k++
		}
	}
	ft.subst = ns
	ft.depth++
	var out string
	if rt := ft.info.TypeOf(ret.Results[0]); rt != nil && isBool(rt) && asProp {
		out = ft.prop(ret.Results[0])
	} else if rt != nil && isBool(rt) {
		out = ft.boolExpr(ret.Results[0])
	} else {
		out = ft.expr(ret.Results[0])
	}
	ft.depth--
	ft.subst = old
	return out, true
}

func (ft *fragTranslator) fail(format string, args ...interface{}) string {
	if ft.err == nil {
		ft.err = fmt.Errorf(format, args...)
	}
	return "sorry_untranslatable"
}

var leanKeywords = map[string]bool{"end": true, "start": false, "from": true, "at": true, "fun": true, "let": true, "if": true, "then": true, "else": true, "do": true, "in": true, "have": true, "show": true, "open": true, "local": true, "instance": true}

func leanIdent(s string) string {
	if s == "" {
		return s
	}
	r := strings.ToLower(s[:1]) + s[1:]
	if leanKeywords[r] {
		return r + "_"
	}
	return r
}

func isTimeTime(t types.Type) bool {
	n, ok := t.(*types.Named)
	return ok && n.Obj().Pkg() != nil && n.Obj().Pkg().Path() == "time" && n.Obj().Name() == "Time"
}

func isBool(t types.Type) bool {
	b, ok := t.Underlying().(*types.Basic)
	return ok && b.Info()&types.IsBoolean != 0
}

// expr translates an integer- or struct-valued expression.
func (ft *fragTranslator) expr(e ast.Expr) string {
	if tv, ok := ft.info.Types[e]; ok && tv.Value != nil {
		switch tv.Value.Kind() {
		case constant.Int:
			s := tv.Value.ExactString()
			if strings.HasPrefix(s, "-") {
				return "(" + s + ")"
			}
			return s
		case constant.Bool:
			return tv.Value.String()
		}
	}
	switch e := e.(type) {
	case *ast.ParenExpr:
		return ft.expr(e.X)
	case *ast.Ident:
		if v, ok := ft.subst[ft.info.ObjectOf(e)]; ok {
			return v
		}
		return leanIdent(e.Name)
	case *ast.SelectorExpr:
		return "(" + ft.expr(e.X) + ")." + leanIdent(e.Sel.Name)
	case *ast.UnaryExpr:
		switch e.Op {
		case token.SUB:
			return "(neg " + ft.expr(e.X) + ")"
		case token.NOT:
			return "(!" + ft.boolExpr(e.X) + ")"
		}
	case *ast.BinaryExpr:
		switch e.Op {
		case token.ADD:
			return "(add " + ft.expr(e.X) + " " + ft.expr(e.Y) + ")"
		case token.SUB:
			return "(sub " + ft.expr(e.X) + " " + ft.expr(e.Y) + ")"
		case token.LSS, token.LEQ, token.GTR, token.GEQ, token.EQL, token.NEQ, token.LOR, token.LAND:
			return ft.boolExpr(e)
		}
	case *ast.CallExpr:
		if sel, ok := e.Fun.(*ast.SelectorExpr); ok {
			recvT := ft.info.TypeOf(sel.X)
			if recvT != nil && isTimeTime(recvT) && sel.Sel.Name == "Sub" && len(e.Args) == 1 {
				return "(tsub " + ft.expr(sel.X) + " " + ft.expr(e.Args[0]) + ")"
			}
			if recvT != nil && isTimeTime(recvT) && sel.Sel.Name == "IsZero" && len(e.Args) == 0 {
				return "(decide (" + ft.expr(sel.X) + " = zeroTime))"
			}
			if ln, ok := ft.funcs[sel.Sel.Name]; ok && len(e.Args) == 0 {
				return "(" + ln + " " + ft.expr(sel.X) + ")"
			}
		}
		if id, ok := e.Fun.(*ast.Ident); ok {
			if ln, ok := ft.funcs[id.Name]; ok {
				args := []string{ln}
				for _, a := range e.Args {
					args = append(args, ft.expr(a))
				}
				return "(" + strings.Join(args, " ") + ")"
			}
		}
		if s, ok := ft.inlineCall(e, false); ok {
			return s
		}
		// conversion T(x) between integer types of the same width
		if tv, ok := ft.info.Types[e.Fun]; ok && tv.IsType() && len(e.Args) == 1 {
			if b, ok := tv.Type.Underlying().(*types.Basic); ok && b.Kind() == types.Int64 {
				return ft.expr(e.Args[0])
			}
		}
	}
	return ft.fail("unsupported expression %T", e)
}

// prop translates a condition into a Lean Prop (decidable).
func (ft *fragTranslator) prop(e ast.Expr) string {
	switch e := e.(type) {
	case *ast.ParenExpr:
		return ft.prop(e.X)
	case *ast.UnaryExpr:
		if e.Op == token.NOT {
			return "(¬ " + ft.prop(e.X) + ")"
		}
	case *ast.BinaryExpr:
		op := ""
		switch e.Op {
		case token.LSS:
			op = "<"
		case token.LEQ:
			op = "≤"
		case token.GTR:
			op = ">"
		case token.GEQ:
			op = "≥"
		case token.EQL:
			op = "="
		case token.NEQ:
			op = "≠"
		case token.LOR:
			return "(" + ft.prop(e.X) + " ∨ " + ft.prop(e.Y) + ")"
		case token.LAND:
			return "(" + ft.prop(e.X) + " ∧ " + ft.prop(e.Y) + ")"
		}
		if op != "" {
			return "(" + ft.expr(e.X) + " " + op + " " + ft.expr(e.Y) + ")"
		}
	}
	if c, ok := e.(*ast.CallExpr); ok {
		if s, ok := ft.inlineCall(c, true); ok {
			return s
		}
	}
	// a bool-valued expression (call, identifier)
	return "(" + ft.expr(e) + " = true)"
}

func (ft *fragTranslator) boolExpr(e ast.Expr) string {
	if tv, ok := ft.info.Types[e]; ok && tv.Value != nil && tv.Value.Kind() == constant.Bool {
		return tv.Value.String()
	}
	switch e.(type) {
	case *ast.BinaryExpr, *ast.UnaryExpr, *ast.ParenExpr:
		return "(decide " + ft.prop(e) + ")"
	}
	return ft.expr(e)
}

func isLogCall(s ast.Stmt) bool {
	es, ok := s.(*ast.ExprStmt)
	if !ok {
		return false
	}
	call, ok := es.X.(*ast.CallExpr)
	if !ok {
		return false
	}
	sel, ok := call.Fun.(*ast.SelectorExpr)
	if !ok {
		return false
	}
	id, ok := sel.X.(*ast.Ident)
	return ok && (id.Name == "log" || id.Name == "glog")
}

// block translates stmts[i:] as an expression of the function's result type.
func (ft *fragTranslator) block(stmts []ast.Stmt, retBool bool, indent string) string {
	if len(stmts) == 0 {
		return ft.fail("control reaches end of block without return")
	}
	s := stmts[0]
	rest := stmts[1:]
	ret := func(e ast.Expr) string {
		if retBool {
			return ft.boolExpr(e)
		}
		return ft.expr(e)
	}
	switch s := s.(type) {
	case *ast.ReturnStmt:
		if len(s.Results) != 1 {
			return ft.fail("return with %d results", len(s.Results))
		}
		return indent + ret(s.Results[0])
	case *ast.AssignStmt:
		if len(s.Lhs) != 1 || len(s.Rhs) != 1 {
			return ft.fail("multi-assignment")
		}
		id, ok := s.Lhs[0].(*ast.Ident)
		if !ok {
			return ft.fail("assignment to non-identifier")
		}
		x := leanIdent(id.Name)
		var rhs string
		switch s.Tok {
		case token.DEFINE, token.ASSIGN:
			rhs = ft.expr(s.Rhs[0])
		case token.ADD_ASSIGN:
			rhs = "(add " + x + " " + ft.expr(s.Rhs[0]) + ")"
		case token.SUB_ASSIGN:
			rhs = "(sub " + x + " " + ft.expr(s.Rhs[0]) + ")"
		default:
			return ft.fail("assignment operator %v", s.Tok)
		}
		return indent + "let " + x + " := " + rhs + "\n" + ft.block(rest, retBool, indent)
	case *ast.IfStmt:
		if s.Init != nil {
			return ft.fail("if with init")
		}
		c := ft.prop(s.Cond)
		body := s.Body.List
		if s.Else == nil && len(body) > 0 {
			if _, isRet := body[len(body)-1].(*ast.ReturnStmt); isRet {
				return indent + "if " + c + " then\n" + ft.block(body, retBool, indent+"  ") + "\n" + indent + "else\n" + ft.block(rest, retBool, indent+"  ")
			}
		}
		if s.Else == nil && len(body) == 1 {
			if as, ok := body[0].(*ast.AssignStmt); ok && len(as.Lhs) == 1 && as.Tok == token.ASSIGN {
				if id, ok := as.Lhs[0].(*ast.Ident); ok {
					x := leanIdent(id.Name)
					return indent + "let " + x + " := if " + c + " then " + ft.expr(as.Rhs[0]) + " else " + x + "\n" + ft.block(rest, retBool, indent)
				}
			}
		}
		return ft.fail("unsupported if shape")
	case *ast.RangeStmt:
		// for _, v := range xs { if c { return L1 } } ; return L2   with L1 = !L2
		v, ok := s.Value.(*ast.Ident)
		if !ok || len(s.Body.List) != 1 || len(rest) != 1 {
			return ft.fail("unsupported range shape")
		}
		ifs, ok := s.Body.List[0].(*ast.IfStmt)
		if !ok || ifs.Else != nil || ifs.Init != nil || len(ifs.Body.List) != 1 {
			return ft.fail("unsupported range body")
		}
		r1, ok1 := ifs.Body.List[0].(*ast.ReturnStmt)
		r2, ok2 := rest[0].(*ast.ReturnStmt)
		if !ok1 || !ok2 || len(r1.Results) != 1 || len(r2.Results) != 1 {
			return ft.fail("unsupported range returns")
		}
		l1 := ft.boolExpr(r1.Results[0])
		l2 := ft.boolExpr(r2.Results[0])
		xs := ft.expr(s.X)
		c := ft.prop(ifs.Cond)
		if l1 == "false" && l2 == "true" {
			return indent + xs + ".all (fun " + leanIdent(v.Name) + " => !(decide " + c + "))"
		}
		if l1 == "true" && l2 == "false" {
			return indent + xs + ".any (fun " + leanIdent(v.Name) + " => (decide " + c + "))"
		}
		return ft.fail("range loop returns are not complementary literals")
	case *ast.ExprStmt:
		if isLogCall(s) {
			return ft.block(rest, retBool, indent)
		}
	}
	return ft.fail("unsupported statement %T", s)
}

func (ft *fragTranslator) leanType(t types.Type) string {
	if isTimeTime(t) {
		return "Int"
	}
	switch u := t.(type) {
	case *types.Named:
		if b, ok := u.Underlying().(*types.Basic); ok {
			return ft.leanType(b)
		}
		if _, ok := u.Underlying().(*types.Struct); ok {
			n := u.Obj().Name()
			return strings.ToUpper(n[:1]) + n[1:]
		}
	case *types.Basic:
		if u.Info()&types.IsInteger != 0 {
			return "Int"
		}
		if u.Info()&types.IsBoolean != 0 {
			return "Bool"
		}
	case *types.Slice:
		return "List " + ft.leanType(u.Elem())
	}
	ft.fail("unsupported type %v", t)
	return "Unit"
}

// translateFunc renders a Lean `def` for fd (a function, or a method whose
// receiver becomes the first parameter).
func (ft *fragTranslator) translateFunc(fd *ast.FuncDecl, leanName string) string {
	var params []string
	add := func(fl *ast.FieldList) {
		if fl == nil {
			return
		}
		for _, f := range fl.List {
			t := ft.leanType(ft.info.TypeOf(f.Type))
			for _, n := range f.Names {
				params = append(params, "("+leanIdent(n.Name)+" : "+t+")")
			}
		}
	}
	add(fd.Recv)
	add(fd.Type.Params)
	if fd.Type.Results == nil || len(fd.Type.Results.List) != 1 {
		ft.fail("function %s: exactly one result expected", fd.Name.Name)
		return ""
	}
	rt := ft.info.TypeOf(fd.Type.Results.List[0].Type)
	body := ft.block(fd.Body.List, isBool(rt), "  ")
	return "def " + leanName + " " + strings.Join(params, " ") + " : " + ft.leanType(rt) + " :=\n" + body + "\n"
}

func (ft *fragTranslator) translateStruct(name string, st *types.Struct) string {
	var b strings.Builder
	ln := strings.ToUpper(name[:1]) + name[1:]
	b.WriteString("structure " + ln + " where\n")
	for i := 0; i < st.NumFields(); i++ {
		f := st.Field(i)
		b.WriteString("  " + leanIdent(f.Name()) + " : " + ft.leanType(f.Type()) + "\n")
	}
	b.WriteString("  deriving Repr, DecidableEq\n")
	return b.String()
}
