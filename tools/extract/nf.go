package main

// nf.go: a normal form for the expression facts (family G7), so that they state what the code
// computes rather than how it is spelled:
//   * receiver, parameters and range variables are rendered by role (recv, param1, rangekey,
//     rangeval), other locals that are assigned exactly once by the expression that defines them
//     (x := e is replaced by e, also through several steps), remaining locals by their type;
//   * !(a > b) is a <= b, a > b is b < a, a >= b is b <= a, parentheses are dropped;
//   * a call of a function of the same package is looked through (flatten): the statements of its
//     body take the place of the call, with its parameters bound to the arguments.
// Renaming a variable, naming an intermediate value, flipping a comparison or extracting a helper
// leave the facts unchanged; changing what is compared, assigned, sent or the order of effects does not.

import (
	"fmt"
	"go/ast"
	"go/token"
	"go/types"
	"strings"

	"golang.org/x/tools/go/packages"
)

type nfEnv struct {
	p     *packages.Package
	fd    *ast.FuncDecl             // function whose roles (recv, params) are in force
	bind  map[types.Object]string   // parameters of looked-through callees -> normal form of the argument
	defs  map[types.Object]ast.Expr // single-assignment locals -> defining expression
	depth int
}

// singleDefs: locals of fn that are written exactly once, by `x := e`, `var x = e` or a parallel
// `a, b := e1, e2`, and whose address is never taken
func singleDefs(p *packages.Package, body ast.Node) map[types.Object]ast.Expr {
	defs := map[types.Object]ast.Expr{}
	writes := map[types.Object]int{}
	note := func(id *ast.Ident, e ast.Expr) {
		obj := p.TypesInfo.ObjectOf(id)
		if obj == nil {
			return
		}
		writes[obj]++
		if e != nil {
			defs[obj] = e
		} else {
			writes[obj] += 10 // written in a way we cannot follow
		}
	}
	ast.Inspect(body, func(n ast.Node) bool {
		switch v := n.(type) {
		case *ast.AssignStmt:
			for i, l := range v.Lhs {
				id, ok := l.(*ast.Ident)
				if !ok {
					continue
				}
				if len(v.Lhs) == len(v.Rhs) && (v.Tok == token.DEFINE || v.Tok == token.ASSIGN) {
					note(id, v.Rhs[i])
				} else if len(v.Rhs) == 1 && v.Tok == token.DEFINE {
					// x, y := f(): the i-th result of that call (rendered f()[i])
					note(id, &ast.IndexExpr{X: v.Rhs[0], Index: &ast.BasicLit{Kind: token.INT, Value: fmt.Sprint(i)}})
				} else {
					note(id, nil)
				}
			}
		case *ast.ValueSpec:
			for i, id := range v.Names {
				if len(v.Values) == len(v.Names) {
					note(id, v.Values[i])
				} else {
					note(id, nil)
				}
			}
		case *ast.IncDecStmt:
			if id, ok := v.X.(*ast.Ident); ok {
				note(id, nil)
			}
		case *ast.RangeStmt:
			for _, e := range []ast.Expr{v.Key, v.Value} {
				if id, ok := e.(*ast.Ident); ok {
					note(id, nil)
				}
			}
		case *ast.UnaryExpr:
			if v.Op == token.AND {
				if id, ok := v.X.(*ast.Ident); ok {
					note(id, nil)
				}
			}
		}
		return true
	})
	for o, c := range writes {
		if c != 1 {
			delete(defs, o)
		}
	}
	return defs
}

func newEnv(p *packages.Package, fd *ast.FuncDecl) *nfEnv {
	return &nfEnv{p: p, fd: fd, bind: map[types.Object]string{}, defs: singleDefs(p, fd.Body)}
}

func shortType(t types.Type) string {
	s := types.TypeString(t, func(p *types.Package) string { return p.Name() })
	return s
}

func (e *nfEnv) role(obj types.Object) (string, bool) {
	if e.fd == nil {
		return "", false
	}
	if e.fd.Recv != nil {
		for _, f := range e.fd.Recv.List {
			for _, n := range f.Names {
				if e.p.TypesInfo.ObjectOf(n) == obj {
					return "recv", true
				}
			}
		}
	}
	k := 0
	for _, f := range e.fd.Type.Params.List {
		for _, n := range f.Names {
			k++
			if e.p.TypesInfo.ObjectOf(n) == obj {
				return fmt.Sprintf("param%d", k), true
			}
		}
		if len(f.Names) == 0 {
			k++
		}
	}
	return "", false
}

var cmpNeg = map[token.Token]token.Token{token.LSS: token.GEQ, token.GEQ: token.LSS, token.GTR: token.LEQ, token.LEQ: token.GTR, token.EQL: token.NEQ, token.NEQ: token.EQL}

func (e *nfEnv) expr(x ast.Expr) string {
	switch v := x.(type) {
	case nil:
		return ""
	case *ast.ParenExpr:
		return e.expr(v.X)
	case *ast.Ident:
		obj := e.p.TypesInfo.ObjectOf(v)
		vr, isVar := obj.(*types.Var)
		if obj == nil || !isVar || vr.IsField() || (obj.Parent() != nil && obj.Parent() == obj.Pkg().Scope()) {
			return v.Name
		}
		if s, ok := e.bind[obj]; ok {
			return s
		}
		if r, ok := e.role(obj); ok {
			return r
		}
		if d, ok := e.defs[obj]; ok && e.depth < 8 {
			e.depth++
			s := e.expr(d)
			e.depth--
			return s
		}
		return "local:" + shortType(obj.Type())
	case *ast.BasicLit:
		return v.Value
	case *ast.SelectorExpr:
		return e.expr(v.X) + "." + v.Sel.Name
	case *ast.StarExpr:
		return "*" + e.expr(v.X)
	case *ast.IndexExpr:
		return e.expr(v.X) + "[" + e.expr(v.Index) + "]"
	case *ast.SliceExpr:
		return e.expr(v.X) + "[" + e.expr(v.Low) + ":" + e.expr(v.High) + "]"
	case *ast.TypeAssertExpr:
		return e.expr(v.X) + ".(" + exprString(e.p.Fset, v.Type) + ")"
	case *ast.CallExpr:
		var args []string
		for _, a := range v.Args {
			args = append(args, e.expr(a))
		}
		return e.expr(v.Fun) + "(" + strings.Join(args, ", ") + ")"
	case *ast.UnaryExpr:
		if v.Op == token.NOT {
			inner := v.X
			for {
				if pe, ok := inner.(*ast.ParenExpr); ok {
					inner = pe.X
				} else {
					break
				}
			}
			if be, ok := inner.(*ast.BinaryExpr); ok {
				if neg, ok := cmpNeg[be.Op]; ok {
					return e.expr(&ast.BinaryExpr{X: be.X, Op: neg, Y: be.Y})
				}
			}
			if ue, ok := inner.(*ast.UnaryExpr); ok && ue.Op == token.NOT {
				return e.expr(ue.X)
			}
			// a negated single-assignment boolean local: look through it first
			if id, ok := inner.(*ast.Ident); ok {
				if d, ok := e.defs[e.p.TypesInfo.ObjectOf(id)]; ok && e.depth < 8 {
					e.depth++
					s := e.expr(&ast.UnaryExpr{Op: token.NOT, X: d})
					e.depth--
					return s
				}
			}
			return "!" + e.expr(inner)
		}
		return v.Op.String() + e.expr(v.X)
	case *ast.BinaryExpr:
		switch v.Op {
		case token.GTR:
			return e.expr(v.Y) + " < " + e.expr(v.X)
		case token.GEQ:
			return e.expr(v.Y) + " <= " + e.expr(v.X)
		case token.EQL, token.NEQ:
			// symmetric: order the operands
			a, b := e.expr(v.X), e.expr(v.Y)
			if b < a {
				a, b = b, a
			}
			return a + " " + v.Op.String() + " " + b
		}
		return e.expr(v.X) + " " + v.Op.String() + " " + e.expr(v.Y)
	case *ast.CompositeLit:
		var parts []string
		for _, el := range v.Elts {
			if kv, ok := el.(*ast.KeyValueExpr); ok {
				parts = append(parts, exprString(e.p.Fset, kv.Key)+": "+e.expr(kv.Value))
			} else {
				parts = append(parts, e.expr(el))
			}
		}
		t := ""
		if v.Type != nil {
			t = exprString(e.p.Fset, v.Type)
		}
		return t + "{" + strings.Join(parts, ", ") + "}"
	case *ast.KeyValueExpr:
		return exprString(e.p.Fset, v.Key) + ": " + e.expr(v.Value)
	}
	return exprString(e.p.Fset, x)
}

// event: one step of the flattened function body
type event struct {
	Kind string // if, assign, call, return, go, select, lit
	Text string
	Node ast.Node
	Env  *nfEnv
	Body []event // for `if`: the flattened then-branch
}

// sameModuleCallee returns the declaration of the called function when it belongs to package p
func sameModuleCallee(p *packages.Package, c *ast.CallExpr) *ast.FuncDecl {
	var id *ast.Ident
	switch f := c.Fun.(type) {
	case *ast.Ident:
		id = f
	case *ast.SelectorExpr:
		id = f.Sel
	}
	if id == nil {
		return nil
	}
	fn, ok := p.TypesInfo.Uses[id].(*types.Func)
	if !ok || fn.Pkg() == nil || fn.Pkg().Path() != p.PkgPath {
		return nil
	}
	for _, f := range p.Syntax {
		for _, d := range f.Decls {
			if fd, ok := d.(*ast.FuncDecl); ok && p.TypesInfo.Defs[fd.Name] == fn && fd.Body != nil {
				return fd
			}
		}
	}
	return nil
}

// flatten walks stmts in order; calls of same-package functions named in `through` (or, when through is nil,
// of unexported same-package functions) are replaced by the callee's flattened body
func (e *nfEnv) flatten(stmts []ast.Stmt, through func(*ast.FuncDecl) bool, level int) []event {
	var out []event
	var walkExprCalls func(x ast.Node)
	walkExprCalls = func(x ast.Node) {
		if x == nil {
			return
		}
		ast.Inspect(x, func(n ast.Node) bool {
			switch v := n.(type) {
			case *ast.FuncLit:
				out = append(out, e.flatten(v.Body.List, through, level)...)
				return false
			case *ast.CompositeLit:
				if v.Type != nil {
					out = append(out, event{Kind: "lit", Text: exprString(e.p.Fset, v.Type), Node: v, Env: e})
				}
			case *ast.CallExpr:
				for _, a := range v.Args {
					walkExprCalls(a)
				}
				if cal := sameModuleCallee(e.p, v); cal != nil && level < 3 && through != nil && through(cal) {
					ce := &nfEnv{p: e.p, fd: cal, bind: map[types.Object]string{}, defs: singleDefs(e.p, cal.Body)}
					k := 0
					if cal.Recv != nil {
						if se, ok := v.Fun.(*ast.SelectorExpr); ok {
							for _, f := range cal.Recv.List {
								for _, n := range f.Names {
									ce.bind[e.p.TypesInfo.ObjectOf(n)] = e.expr(se.X)
								}
							}
						}
					}
					for _, f := range cal.Type.Params.List {
						for _, n := range f.Names {
							if k < len(v.Args) {
								ce.bind[e.p.TypesInfo.ObjectOf(n)] = e.expr(v.Args[k])
							}
							k++
						}
					}
					out = append(out, ce.flatten(cal.Body.List, through, level+1)...)
				} else if fl, ok := v.Fun.(*ast.FuncLit); ok {
					out = append(out, e.flatten(fl.Body.List, through, level)...)
				} else {
					walkExprCalls(v.Fun)
					out = append(out, event{Kind: "call", Text: e.expr(v), Node: v, Env: e})
				}
				return false
			}
			return true
		})
	}
	for _, s := range stmts {
		switch v := s.(type) {
		case *ast.IfStmt:
			if v.Init != nil {
				out = append(out, e.flatten([]ast.Stmt{v.Init}, through, level)...)
			}
			walkExprCalls(v.Cond)
			body := e.flatten(v.Body.List, through, level)
			out = append(out, event{Kind: "if", Text: e.expr(v.Cond), Node: v, Env: e, Body: body})
			out = append(out, body...)
			if v.Else != nil {
				out = append(out, e.flatten([]ast.Stmt{v.Else}, through, level)...)
			}
		case *ast.BlockStmt:
			out = append(out, e.flatten(v.List, through, level)...)
		case *ast.AssignStmt:
			for _, r := range v.Rhs {
				walkExprCalls(r)
			}
			var l, r []string
			for _, x := range v.Lhs {
				// the left side is a place: do not look through definitions
				if id, ok := x.(*ast.Ident); ok {
					obj := e.p.TypesInfo.ObjectOf(id)
					if _, single := e.defs[obj]; single {
						continue // pure naming of a value: it is looked through at its uses
					}
				}
				l = append(l, e.expr(x))
			}
			for _, x := range v.Rhs {
				r = append(r, e.expr(x))
			}
			if len(l) > 0 {
				out = append(out, event{Kind: "assign", Text: strings.Join(l, ", ") + " = " + strings.Join(r, ", "), Node: v, Env: e})
			}
		case *ast.ExprStmt:
			walkExprCalls(v.X)
		case *ast.ReturnStmt:
			for _, r := range v.Results {
				walkExprCalls(r)
			}
			var r []string
			for _, x := range v.Results {
				r = append(r, e.expr(x))
			}
			out = append(out, event{Kind: "return", Text: strings.TrimSpace("return " + strings.Join(r, ", ")), Node: v, Env: e})
		case *ast.GoStmt:
			out = append(out, event{Kind: "go", Text: e.expr(v.Call), Node: v, Env: e})
		case *ast.SelectStmt:
			out = append(out, event{Kind: "select", Text: "select", Node: v, Env: e})
			out = append(out, e.flatten(v.Body.List, through, level)...)
		case *ast.DeferStmt:
			walkExprCalls(v.Call)
		case *ast.ForStmt:
			if v.Init != nil {
				out = append(out, e.flatten([]ast.Stmt{v.Init}, through, level)...)
			}
			walkExprCalls(v.Cond)
			out = append(out, e.flatten(v.Body.List, through, level)...)
		case *ast.RangeStmt:
			walkExprCalls(v.X)
			for i, kx := range []ast.Expr{v.Key, v.Value} {
				if id, ok := kx.(*ast.Ident); ok && id.Name != "_" {
					e.bind[e.p.TypesInfo.ObjectOf(id)] = []string{"rangekey", "rangeval"}[i]
				}
			}
			out = append(out, e.flatten(v.Body.List, through, level)...)
		case *ast.SwitchStmt:
			if v.Init != nil {
				out = append(out, e.flatten([]ast.Stmt{v.Init}, through, level)...)
			}
			walkExprCalls(v.Tag)
			out = append(out, e.flatten(v.Body.List, through, level)...)
		case *ast.TypeSwitchStmt:
			out = append(out, e.flatten(v.Body.List, through, level)...)
		case *ast.CaseClause:
			for _, x := range v.List {
				walkExprCalls(x)
			}
			out = append(out, e.flatten(v.Body, through, level)...)
		case *ast.CommClause:
			out = append(out, e.flatten(v.Body, through, level)...)
		case *ast.DeclStmt:
			if gd, ok := v.Decl.(*ast.GenDecl); ok {
				for _, sp := range gd.Specs {
					if vs, ok := sp.(*ast.ValueSpec); ok {
						for _, x := range vs.Values {
							walkExprCalls(x)
						}
					}
				}
			}
		case *ast.IncDecStmt:
			out = append(out, event{Kind: "assign", Text: e.expr(v.X) + v.Tok.String(), Node: v, Env: e})
		case *ast.SendStmt:
			out = append(out, event{Kind: "send", Text: e.expr(v.Chan) + " <- " + e.expr(v.Value), Node: v, Env: e})
		case *ast.BranchStmt:
			out = append(out, event{Kind: "branch", Text: v.Tok.String(), Node: v, Env: e})
		case *ast.LabeledStmt:
			out = append(out, e.flatten([]ast.Stmt{v.Stmt}, through, level)...)
		}
	}
	return out
}

func unexportedHelper(fd *ast.FuncDecl) bool { return !ast.IsExported(fd.Name.Name) }

// bodyText: the then-branch of an `if` event as "stmt; stmt"
func bodyText(ev event) string {
	var parts []string
	for _, b := range ev.Body {
		if b.Kind == "lit" {
			continue
		}
		parts = append(parts, b.Text)
	}
	return strings.Join(parts, "; ")
}

func firstEvent(evs []event, kind, sub string) (int, *event) {
	for i := range evs {
		if (kind == "" || evs[i].Kind == kind) && strings.Contains(evs[i].Text, sub) {
			return i, &evs[i]
		}
	}
	return -1, nil
}

// litFields: field -> normal form of the first composite literal whose type ends in typeSuffix
func litFields(evs []event, typeSuffix string) map[string]string {
	res := map[string]string{}
	for _, ev := range evs {
		if ev.Kind != "lit" || !strings.HasSuffix(ev.Text, typeSuffix) {
			continue
		}
		cl := ev.Node.(*ast.CompositeLit)
		for _, el := range cl.Elts {
			if kv, ok := el.(*ast.KeyValueExpr); ok {
				res[exprString(ev.Env.p.Fset, kv.Key)] = ev.Env.expr(kv.Value)
			}
		}
		return res
	}
	return res
}
