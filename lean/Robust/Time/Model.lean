import Robust.Gen.Time
/-!
Hand-written model of `timesafeguard.synchronizedWithNetwork` on top of the *generated*
definitions `Gen.Time.worstCaseDrift` / `Gen.Time.timeInSync`.
Times are nanoseconds relative to the Unix epoch (unbounded `Int`); a peer that did not
answer leaves `Result` at `time.Time{}` = `zeroTime`.
-/
namespace Robust.Time
open Robust.Gen.Time

inductive Verdict where
  | ok
  | refuse (offenders : List TimeResult)
  deriving Repr, DecidableEq

def answered (r : TimeResult) : Bool := !(decide (r.result = zeroTime))

def offending (r : TimeResult) : Bool := decide (worstCaseDrift r ≥ electionTimeout)

/-- `synchronizedWithNetwork` with the flag `-disable_timesafeguard` as a parameter. -/
def synchronized (disabled : Bool) (results : List TimeResult) : Verdict :=
  let nonZero := results.filter answered
  if timeInSync nonZero then .ok
  else
    let errDetails := nonZero.filter offending
    if disabled then .ok else .refuse errDetails

end Robust.Time
