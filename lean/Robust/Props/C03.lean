import Robust.Irc.Snapshot
import Robust.Gen.Serialize
/-!
# C03 — state serialization is complete: save + load is invisible
-/
namespace Robust.Props.C03
open Robust Robust.Irc Robust.Gen.Serialize

theorem C03_fresh : saveLoad ({} : St) = ({} : St) := by decide

/-- regenerated from serialize.go and the struct declarations: Unmarshal restores every field of
`Session` (except the transient `deleted` mark), `channel`, `banPattern`, `svshold` and
`config.Network`; a field added to one of these structs without serialization breaks this. -/
theorem C03_fields :
    (lookup structFields "Session").filter (· != "deleted") = lookup literals "Unmarshal:Session" ∧
    lookup structFields "channel" = lookup literals "Unmarshal:channel" ∧
    lookup structFields "banPattern" = lookup literals "Unmarshal:banPattern" ∧
    lookup structFields "svshold" = lookup literals "Unmarshal:svshold" ∧
    lookup structFields "config.Network" = lookup literals "Unmarshal:config.Network" := by decide

/-- regenerated: what Marshal writes -/
theorem C03_marshal_fields :
    lookup literals "Marshal:pb.Snapshot" = ["Channels", "Config", "LastIncludedIndex", "LastProcessed", "Sessions", "Svsholds"] ∧
    (lookup literals "Marshal:pb.Snapshot_Session").length = 22 ∧
    (lookup literals "Marshal:pb.Snapshot_Channel").length = 8 ∧
    (lookup literals "Marshal:pb.Snapshot_Config").length = 12 ∧
    (lookup literals "Marshal:pb.Snapshot_SVSHold").length = 3 := by decide

end Robust.Props.C03
