import Robust.Irc.Proofs.SnapshotLemmas
import Robust.Gen.Serialize
/-!
C03 — state serialization is complete: `IRCServer.Marshal` followed by `IRCServer.Unmarshal`
into a fresh instance (`saveLoad`) is invisible at the level of the restored state.

`Canon` (defined next to its lemmas in `Robust.Irc.Proofs.SnapshotLemmas`, as the Boolean
`canonB`) is the well-formedness beyond `Inv` that the round trip needs:

* for every stored session: the invitations are lower-cased channel names; the channel list of a
  *nickless* session is lower-cased (for a session with a nickname `Inv` already forces it);
  `created > 0` or `created = id.id` (the value `Unmarshal` falls back to); `lastNonPing` is
  not the zero time or `lastActivity` is the zero time too (the fallback value);
* the nick index has no entry under `""` (`Inv` tolerates a nickless session indexed under `""`;
  `Unmarshal` only indexes sessions with a nickname);
* the keys of `svsholds` are duplicate-free and fixed by `nickToLower`.

`serverSessions` is unconstrained: it is rebuilt from the sessions.
-/
namespace Robust.Props.C03
open Robust Robust.Irc

theorem C03_fresh : saveLoad ({} : St) = ({} : St) := by decide

/-- the serialized part of a channel besides the member map -/
def chanCore (c : Channel) : String × String × String × Int × List Char × String × List Ban :=
  (c.name, c.topic, c.topicNick, c.topicTime, c.modes, c.key, c.bans)

/-- the strong form: the session, channel and hold *lists* are restored verbatim (same order);
the nick index and `serverSessions` are rebuilt from the sessions (same content, own order) -/
theorem C03_state_strong (st : St) (hI : Inv st) (hC : Canon st) :
    saveLoad st = { st with nicks := rebuiltNicks st.sessions, serverSessions := rebuiltServers st.sessions } ∧
    (AMap.keys (rebuiltNicks st.sessions)).Nodup ∧
    (∀ lc, AMap.get (rebuiltNicks st.sessions) lc = AMap.get st.nicks lc) ∧
    (∀ n, n ∈ rebuiltServers st.sessions ↔
      ∃ id s, AMap.get st.sessions id = some s ∧ s.server = true ∧ id.id = n) :=
  ⟨saveLoad_eq hI hC, nodup_rebuiltNicks _, get_rebuiltNicks hI hC, mem_rebuiltServers hI⟩

/-- the restored state is pointwise the same state -/
theorem C03_state (st : St) (hI : Inv st) (hC : Canon st) :
    (∀ id, AMap.get (saveLoad st).sessions id = AMap.get st.sessions id) ∧
    (∀ lc, AMap.get (saveLoad st).nicks lc = AMap.get st.nicks lc) ∧
    (∀ lc, Option.map chanCore (AMap.get (saveLoad st).channels lc) =
           Option.map chanCore (AMap.get st.channels lc)) ∧
    (∀ lc c c', AMap.get (saveLoad st).channels lc = some c' → AMap.get st.channels lc = some c →
       ∀ n, AMap.get c'.nicks n = AMap.get c.nicks n) ∧
    (∀ lc, AMap.get (saveLoad st).svsholds lc = AMap.get st.svsholds lc) ∧
    (saveLoad st).lastProcessed = st.lastProcessed ∧
    (saveLoad st).config = st.config ∧
    (saveLoad st).serverName = st.serverName ∧
    (∀ n, n ∈ (saveLoad st).serverSessions ↔
       ∃ id s, AMap.get st.sessions id = some s ∧ s.server = true ∧ id.id = n) := by
  refine ⟨?_, ?_, ?_, ?_, ?_, rfl, rfl, rfl, ?_⟩
  · intro id; rw [saveLoad_sessions hI hC]
  · intro lc; rw [saveLoad_nicks]; exact get_rebuiltNicks hI hC lc
  · intro lc; rw [saveLoad_channels hI]
  · intro lc c c' h' h n
    rw [saveLoad_channels hI, h] at h'
    cases h'; rfl
  · intro lc; rw [saveLoad_svsholds hC]
  · intro n; rw [saveLoad_serverSessions]; exact mem_rebuiltServers hI n

/-- the restored state satisfies the invariants again -/
theorem C03_inv (st : St) (hI : Inv st) (hC : Canon st) : Inv (saveLoad st) ∧ Canon (saveLoad st) := by
  constructor
  · exact hI.of_get_nicks_eq (saveLoad_sessions hI hC) (saveLoad_channels hI)
      (fun lc => by rw [saveLoad_nicks]; exact get_rebuiltNicks hI hC lc)
      (by rw [saveLoad_nicks]; exact nodup_rebuiltNicks _)
  · rw [canon_iff, saveLoad_sessions hI hC, saveLoad_svsholds hC, saveLoad_nicks, get_rebuiltNicks hI hC]
    exact (canon_iff st).1 hC

/-- a second round trip changes nothing at all (not even the order of any list) -/
theorem C03_idempotent (st : St) (hI : Inv st) (hC : Canon st) : saveLoad (saveLoad st) = saveLoad st := by
  obtain ⟨hI', hC'⟩ := C03_inv st hI hC
  have h := saveLoad_eq hI' hC'
  have h2 := congrArg (fun ss => ({ saveLoad st with nicks := rebuiltNicks ss, serverSessions := rebuiltServers ss } : St))
    (saveLoad_sessions hI hC)
  exact h.trans h2

/-! ### every field is written and restored (generated from the Go source on each run) -/

open Robust.Gen.Serialize in
/-- `Unmarshal` restores every field of the Go structs (`Session` except `deleted`, which
`Marshal` filters on) -/
theorem C03_fields :
    (lookup structFields "Session").filter (· ≠ "deleted") = lookup literals "Unmarshal:Session" ∧
    lookup structFields "channel" = lookup literals "Unmarshal:channel" ∧
    lookup structFields "svshold" = lookup literals "Unmarshal:svshold" ∧
    lookup structFields "banPattern" = lookup literals "Unmarshal:banPattern" ∧
    lookup structFields "config.Network" = lookup literals "Unmarshal:config.Network" := by decide

open Robust.Gen.Serialize in
/-- the fields `Marshal` sets in the protobuf literals -/
theorem C03_fields_marshal :
    lookup literals "Marshal:pb.Snapshot_Session" =
      ["Auth", "AwayMsg", "Channels", "Created", "Id", "InvitedTo", "IrcPrefix", "LastActivity",
       "LastClientMessageId", "LastNonPing", "LastSolvedCaptcha", "LoggedIn", "Modes", "Nick", "Operator",
       "Pass", "Realname", "RemoteAddr", "Server", "Svid", "ThrottlingExponent", "Username"] ∧
    lookup literals "Marshal:pb.Snapshot_Channel" =
      ["Bans", "Key", "Modes", "Name", "Nicks", "Topic", "TopicNick", "TopicTime"] ∧
    lookup literals "Marshal:pb.Snapshot_Config" =
      ["Banned", "CaptchaHmacSecret", "CaptchaRequiredForLogin", "CaptchaUrl", "Irc", "MaxChannels",
       "MaxSessions", "PostMessageCooloff", "Revision", "SessionExpiration", "TrustedBridges",
       "WhitelistedOrigins"] ∧
    lookup literals "Marshal:pb.Snapshot" =
      ["Channels", "Config", "LastIncludedIndex", "LastProcessed", "Sessions", "Svsholds"] ∧
    lookup literals "Marshal:pb.Snapshot_SVSHold" = ["Added", "Duration", "Reason"] ∧
    lookup literals "Marshal:pb.Snapshot_Channel_BanPattern" = ["Pattern", "Regexp"] := by decide

open Robust.Gen.Serialize in
/-- the sizes of the `Marshal` literals -/
theorem C03_fields_count :
    (lookup literals "Marshal:pb.Snapshot_Session").length = 22 ∧
    (lookup literals "Marshal:pb.Snapshot_Channel").length = 8 ∧
    (lookup literals "Marshal:pb.Snapshot_Config").length = 12 ∧
    (lookup literals "Marshal:pb.Snapshot").length = 6 := by decide

/-- every name of `fs` occurs (case-insensitively: `CaptchaURL`/`CaptchaUrl`, `auth`/`Auth`) in `ws` -/
def allWritten (fs ws : List String) : Bool := fs.all fun f => (ws.map toLower).contains (toLower f)

open Robust.Gen.Serialize in
/-- `Marshal` writes every field of the Go structs (`Session` except `deleted`; the ban
pattern's `re` is written as `Regexp`) -/
theorem C03_fields_written :
    allWritten ((lookup structFields "Session").filter (· ≠ "deleted")) (lookup literals "Marshal:pb.Snapshot_Session") = true ∧
    allWritten (lookup structFields "channel") (lookup literals "Marshal:pb.Snapshot_Channel") = true ∧
    allWritten (lookup structFields "svshold") (lookup literals "Marshal:pb.Snapshot_SVSHold") = true ∧
    allWritten (lookup structFields "config.Network") (lookup literals "Marshal:pb.Snapshot_Config") = true ∧
    (lookup structFields "banPattern").length = (lookup literals "Marshal:pb.Snapshot_Channel_BanPattern").length := by
  decide +kernel

/-! ### non-vacuity: a concrete state satisfying `Inv` and `Canon` -/

/-- a nickless session, "Alice" (chanop on `#C`, invited to `#d`), a server session, a hold -/
def exSt : St :=
  { sessions := [
      (⟨1, 0⟩, { id := ⟨1, 0⟩, created := 1, lastActivity := 5, lastNonPing := 5 }),
      (⟨2, 0⟩, { id := ⟨2, 0⟩, nick := "Alice", username := "a", channels := ["#c"], invitedTo := ["#d"],
                 created := 2, lastActivity := 9, lastNonPing := 7, loggedIn := true,
                 ircPrefix := ⟨"Alice", "a", "robust/0x2"⟩ }),
      (⟨3, 0⟩, { id := ⟨3, 0⟩, nick := "Services[x]", server := true, created := 3, lastActivity := 4, lastNonPing := 4 })],
    nicks := [("services{x}", ⟨3, 0⟩), ("alice", ⟨2, 0⟩)],
    channels := [("#c", { name := "#C", topic := "t", topicNick := "Alice", topicTime := 8,
                          nicks := [("alice", { chanop := true })], modes := ['n', 't'],
                          bans := [⟨"*!*@evil", "^.*!.*@evil$"⟩] })],
    svsholds := [("bob", ⟨10, 20, "reserved"⟩)],
    serverSessions := [3],
    lastProcessed := ⟨7, 1⟩ }

theorem exSt_inv : Inv exSt := inv_of_invSuffB (by decide)
theorem exSt_canon : Canon exSt := by decide

/-- the theorems apply to it -/
example : saveLoad (saveLoad exSt) = saveLoad exSt := C03_idempotent exSt exSt_inv exSt_canon
example : Inv (saveLoad exSt) ∧ Canon (saveLoad exSt) := C03_inv exSt exSt_inv exSt_canon

/-- the model's executable invariant (C14) holds too -/
example : invB exSt = true := by decide

/-- on this state only the order of the nick index changes -/
example : saveLoad exSt = { exSt with nicks := [("alice", ⟨2, 0⟩), ("services{x}", ⟨3, 0⟩)] } := by decide
example : saveLoad exSt ≠ exSt := by decide
example : ∀ lc ∈ ["alice", "services{x}", "Alice", "", "bob"],
    AMap.get (saveLoad exSt).nicks lc = AMap.get exSt.nicks lc := by decide
example : AMap.get (saveLoad exSt).nicks "alice" = some ⟨2, 0⟩ ∧
    AMap.get (saveLoad exSt).nicks "services{x}" = some ⟨3, 0⟩ ∧
    (saveLoad exSt).serverSessions = [3] ∧
    (saveLoad exSt).sessions = exSt.sessions ∧ (saveLoad exSt).channels = exSt.channels ∧
    (saveLoad exSt).svsholds = exSt.svsholds := by decide

/-- the extra conditions of `Canon` are needed: `Inv` tolerates a nickless session indexed under
`""`, and the round trip drops that index entry -/
def exEmptyNick : St :=
  { sessions := [(⟨1, 0⟩, { id := ⟨1, 0⟩, created := 1, lastActivity := 5, lastNonPing := 5 })],
    nicks := [("", ⟨1, 0⟩)] }

theorem exEmptyNick_inv : Inv exEmptyNick := inv_of_invSuffB (by decide)
example : canonB exEmptyNick = false := by decide
example : AMap.get exEmptyNick.nicks "" = some ⟨1, 0⟩ ∧ AMap.get (saveLoad exEmptyNick).nicks "" = none := by decide

/-- … and a nickless session may list a channel that is not lower-cased (or `created = 0`,
`lastNonPing` zero, an invitation that is not lower-cased, a hold under a key that is not
lower-cased): the restored session differs -/
def exNotCanon : St :=
  { sessions := [(⟨1, 0⟩, { id := ⟨1, 0⟩, channels := ["#X"], lastActivity := 5 })] }

theorem exNotCanon_inv : Inv exNotCanon := inv_of_invSuffB (by decide)
example : canonB exNotCanon = false := by decide
example : AMap.get (saveLoad exNotCanon).sessions ⟨1, 0⟩ =
    some { id := ⟨1, 0⟩, channels := ["#x"], lastActivity := 5, lastNonPing := 5, created := 1 } := by decide

end Robust.Props.C03
