import Robust.Irc.Apply
import Robust.Gen.Ranges
/-!
# C01 — replica determinism: same committed log, byte-identical output everywhere

The model's `applyEntry` is a function of the state and the entry (no clock, no randomness, ids
are `entry.id` and a reply counter), so two nodes can only differ through Go's unspecified map
iteration order.  The theorems below (a) pin, by facts regenerated from the source on every run,
every `range` over a map on the replicated path to a body shape, (b) prove for each shape the
general reason why it is insensitive to iteration order, and (c) pin every use of the clock /
environment / goroutines to functions outside the apply path.  The per-handler permutation
congruence of the model itself is exercised by running the model with all maps reordered after
every entry (driver `ircperm`), and the real code twice, on the same histories.
-/
namespace Robust.Props.C01
open Robust Robust.Irc

/-- expected classification of every map `range` (derived by reading the code once; a new site, a
changed ranged expression or a changed body shape makes `C01_sites` fail; `carry(x)` = the body writes\nthe variable `x` that lives across iterations, other than by `x = append(x, …)`; `collect+sort` = the very slice\nthe body appended to is sorted after the loop) -/
def expectedSites : List (String × String × String) := [
  ("internal/ircserver:IRCServer.ExpireSessions", "i.sessions", "collect+calls(time.Since)"),       -- not on the apply path: proposal order only
  ("internal/ircserver:IRCServer.GetSessions", "i.sessions", "mapwrite+calls(make)"),                 -- status page copy (not on the apply path)
  ("internal/ircserver:IRCServer.GetSessions", "session.Channels", "mapwrite"),                       -- copies into a fresh map
  ("internal/ircserver:IRCServer.GetSessions", "session.invitedTo", "mapwrite"),
  ("internal/ircserver:IRCServer.Marshal", "channel.nicks", "collect+mapwrite+calls(rune)"),         -- written into a proto map
  ("internal/ircserver:IRCServer.Marshal", "i.channels", "collect+mapwrite+calls(b.re.String,make,rune,timeToTimestamp)"),
  ("internal/ircserver:IRCServer.Marshal", "i.sessions", "collect+calls(int64,make,timeToTimestamp)"),  -- repeated field; Unmarshal inserts into maps with distinct keys
  ("internal/ircserver:IRCServer.Marshal", "i.svsholds", "mapwrite+calls(svshold.duration.String,timeToTimestamp)"),
  ("internal/ircserver:IRCServer.Marshal", "session.Channels", "collect"),
  ("internal/ircserver:IRCServer.Marshal", "session.invitedTo", "collect"),
  ("internal/ircserver:IRCServer.MaybeDeleteSession", "i.sessions", "delete"),                        -- each: independent per element
  ("internal/ircserver:IRCServer.Unmarshal", "c.Nicks", "mapwrite"),
  ("internal/ircserver:IRCServer.Unmarshal", "snapshot.Svsholds", "exit+mapwrite+calls(time.ParseDuration,timestampToTime)"),  -- exit only on a corrupt snapshot
  ("internal/ircserver:IRCServer.cmdList", "i.channels", "collect+sort"),
  ("internal/ircserver:IRCServer.cmdMode", "seen", "collect+sort"),
  ("internal/ircserver:IRCServer.cmdNames", "c.nicks", "collect+sort"),
  ("internal/ircserver:IRCServer.cmdNick", "i.channels", "mapwrite+delete"),                          -- each: re-key one member per channel
  ("internal/ircserver:IRCServer.cmdPrivmsg", "session.Channels", "exit+carry(common)"),              -- any: existence test (the flag is only ever set to true)
  ("internal/ircserver:IRCServer.cmdServerKill", "i.sessions", "exit+carry(killPrefix)"),             -- uniq: at most one pseudo-client owns the nick
  ("internal/ircserver:IRCServer.cmdServerQuit", "i.sessions", "collect+sort"),
  ("internal/ircserver:IRCServer.cmdServerQuit", "i.sessions", "emit+exit+calls(i.deleteSessionLocked,msg.Trailing)"),  -- uniq: at most one owner of the prefix nick
  ("internal/ircserver:IRCServer.cmdServerSvsnick", "i.channels", "mapwrite+delete"),
  ("internal/ircserver:IRCServer.cmdServer", "i.nicks", "collect+sort"),
  ("internal/ircserver:IRCServer.cmdServer", "session.Channels", "collect+sort"),
  ("internal/ircserver:IRCServer.cmdServiceAlias", "aliases", "emit+exit+calls(irc.ParseMessage)"),  -- uniq: distinct literal keys
  ("internal/ircserver:IRCServer.cmdWhois", "session.Channels", "collect+sort"),
  ("internal/ircserver:IRCServer.cmdWho", "c.nicks", "collect+sort"),
  ("internal/ircserver:IRCServer.deleteSessionLocked", "i.channels", "delete+calls(i.maybeDeleteChannelLocked)"),
  ("internal/ircserver:IRCServer.maybeDeleteChannelLocked", "i.sessions", "delete"),
  ("internal/ircserver:IRCServer.sendAllUsers", "i.nicks", "mapwrite"),                                -- set: recipients
  ("internal/ircserver:IRCServer.sendChannelButOne", "c.nicks", "mapwrite"),
  ("internal/ircserver:IRCServer.sendChannel", "c.nicks", "mapwrite"),
  ("internal/ircserver:IRCServer.sendCommonChannels", "c.nicks", "mapwrite"),
  ("internal/ircserver:IRCServer.sendCommonChannels", "user.Channels", "mapwrite"),
  ("internal/outputstream:OutputStream.getUnlocked", "os.messagesCache", "exit+delete"),             -- cache eviction: node-local
  ("internal/outputstream:messageBatch.marshal", "msg.InterestingFor", "carry(n)+calls(binary.LittleEndian.PutUint64,uint64)"),  -- byte order of a set (C18); `n` is the write offset
  ("main:FSM.Snapshot", "fsm.lastSnapshotState", "carry(ok,stateIndex)"),                            -- maximum of the keys below the horizon
  ("main:FSM.Snapshot", "fsm.lastSnapshotState", "delete")
]

/-- regenerated: the map `range` sites of the source are exactly the classified ones -/
theorem C01_sites : Gen.Ranges.mapRanges = expectedSites := by decide

/-- no site on the apply path emits output inside a map iteration, except the two early-exit
lookups whose match is unique -/
theorem C01_no_emit_in_range :
    (Gen.Ranges.mapRanges.filter (fun s => hasPrefix s.2.2 "emit")).map (·.1) =
      ["internal/ircserver:IRCServer.cmdServerQuit", "internal/ircserver:IRCServer.cmdServiceAlias"] := by decide

/-- regenerated: the clock, the environment, goroutines and `select` are used only outside the
apply path: the expiry sweep and throttling (API side), the PANIC test switch at start-up, the
blocking reader of the output stream, and snapshot/restore timing (compaction time, metrics, and
the server-creation time — the tolerated `003`) -/
theorem C01_impure : Gen.Ranges.impureCalls = [
    ("internal/ircserver:IRCServer.ExpireSessions", "time.Since"),
    ("internal/ircserver:IRCServer.ThrottleUntil", "time.Since"),
    ("internal/ircserver:init", "os.Getenv"),
    ("internal/outputstream:OutputStream.GetNext", "select"),
    ("main:FSM.Restore", "time.Now"),
    ("main:FSM.Snapshot", "time.Now"),
    ("main:FSM.decodeJson", "time.Now"), ("main:FSM.decodeJson", "time.Since"),
    ("main:FSM.decodeProtobuf", "time.Now"), ("main:FSM.decodeProtobuf", "time.Since"),
    ("main:robustSnapshot.Persist", "time.Now"), ("main:robustSnapshot.Persist", "time.Since"),
    ("main:robustSnapshot.persistJSON", "time.Now"), ("main:robustSnapshot.persistJSON", "time.Since")] := by decide

/-! ## why each shape is insensitive to the iteration order -/

/-- collect + sort: sorting two permutations of the same strings gives the same list -/
theorem C01_sort_perm (l₁ l₂ : List String) (h : l₁.Perm l₂) :
    l₁.mergeSort (fun a b => a ≤ b) = l₂.mergeSort (fun a b => a ≤ b) := by
  apply List.Perm.eq_of_pairwise (le := fun a b => decide (a ≤ b) = true)
  · intro a b _ _ hab hba
    simp only [decide_eq_true_eq] at hab hba
    exact String.le_antisymm hab hba
  · exact List.pairwise_mergeSort (fun a b c h1 h2 => by simp only [decide_eq_true_eq] at *; exact String.le_trans h1 h2)
      (fun a b => by simp only [Bool.or_eq_true, decide_eq_true_eq]; exact String.le_total a b) l₁
  · exact List.pairwise_mergeSort (fun a b c h1 h2 => by simp only [decide_eq_true_eq] at *; exact String.le_trans h1 h2)
      (fun a b => by simp only [Bool.or_eq_true, decide_eq_true_eq]; exact String.le_total a b) l₂
  · exact ((List.mergeSort_perm l₁ _).trans h).trans (List.mergeSort_perm l₂ _).symm

/-- set (recipient maps): the set of recipients does not depend on the order of insertion -/
theorem C01_set_perm (l₁ l₂ : List Nat) (h : l₁.Perm l₂) (x : Nat) : x ∈ l₁ ↔ x ∈ l₂ := h.mem_iff

/-- any / uniq: an early-exit search gives the same answer on every permutation when at most
one element matches -/
theorem C01_find_unique {α : Type} (p : α → Bool) (l₁ l₂ : List α) (h : l₁.Perm l₂)
    (huniq : ∀ a ∈ l₁, ∀ b ∈ l₁, p a = true → p b = true → a = b) : l₁.find? p = l₂.find? p := by
  cases h1 : l₁.find? p with
  | none =>
    rw [List.find?_eq_none] at h1
    symm
    rw [List.find?_eq_none]
    intro x hx
    exact h1 x (h.mem_iff.2 hx)
  | some a =>
    have ha := List.find?_some h1
    have ham := List.mem_of_find?_eq_some h1
    cases h2 : l₂.find? p with
    | none =>
      rw [List.find?_eq_none] at h2
      exact absurd ha (by simpa using h2 a (h.mem_iff.1 ham))
    | some b =>
      have hb := List.find?_some h2
      have hbm := h.mem_iff.2 (List.mem_of_find?_eq_some h2)
      rw [huniq a ham b hbm ha hb]

/-- existence tests do not depend on the order -/
theorem C01_any_perm {α : Type} (p : α → Bool) (l₁ l₂ : List α) (h : l₁.Perm l₂) : l₁.any p = l₂.any p := by
  rw [Bool.eq_iff_iff]
  simp only [List.any_eq_true]
  constructor
  · rintro ⟨x, hx, hp⟩; exact ⟨x, h.mem_iff.1 hx, hp⟩
  · rintro ⟨x, hx, hp⟩; exact ⟨x, h.mem_iff.2 hx, hp⟩

/-- each: a per-element update or deletion applied to all elements commutes with permutation -/
theorem C01_filter_perm {α : Type} (p : α → Bool) (l₁ l₂ : List α) (h : l₁.Perm l₂) : (l₁.filter p).Perm (l₂.filter p) :=
  h.filter p

theorem C01_map_perm {α β : Type} (f : α → β) (l₁ l₂ : List α) (h : l₁.Perm l₂) : (l₁.map f).Perm (l₂.map f) :=
  h.map f

/-- the model has no hidden input: applying an entry is a function of state and entry (ids come
from the entry, replies are numbered 1, 2, … by a counter) -/
theorem C01_reply_ids (c : Ctx) (m : IrcMsg) (rc : List Nat) :
    (emit c m rc).out = c.out ++ [⟨c.msgid, c.replyid + 1, m.render, rc⟩] ∧ (emit c m rc).replyid = c.replyid + 1 := ⟨rfl, rfl⟩

end Robust.Props.C01
