import Robust.Irc.Apply
import Robust.Gen.Ranges
/-!
# C01 — replica determinism: same committed log, byte-identical output everywhere

The model's `applyEntry` is a function of the state and the entry (no clock, no randomness, ids
are `entry.id` and a reply counter), so two nodes can only differ through Go's unspecified map
iteration order.  The theorems below (a) pin, by facts regenerated from the source on every run,
every `range` over a map on the replicated path to a body shape, (b) prove for each shape the
general reason why it is insensitive to iteration order, and (c) pin every use of the clock /
environment / goroutines to functions outside the apply path.  The per-handler permutation
congruence of the model itself is exercised by running the model with all maps reordered after
every entry (driver `ircperm`), and the real code twice, on the same histories.
-/
namespace Robust.Props.C01
open Robust Robust.Irc

/-- expected classification of every map `range`: (what is ranged over, body shape), derived by reading the
code once.  What is ranged over is named by the field and its type (independent of variable names and of the
function the loop sits in, so that renaming or moving a loop into a helper changes nothing); a new site, a
different ranged map or a changed body shape makes `C01_sites` fail.  Shapes: `collect+sort` = the very slice
the body appended to is sorted after the loop; `carry(T)` = the body writes a variable of type `T` that lives
across iterations, other than by `x = append(x, …)`; `mapwrite` = writes under the loop's own keys; `emit` =
sends output; `exit` = leaves the loop early; `calls(f)` = calls a function of the package that itself has
effects (callees that only compute are not listed). -/
def expectedSites : List (String × String) := [
  ("ircserver.IRCServer.channels", "collect+mapwrite"),                  -- Marshal: written into a proto map
  ("ircserver.IRCServer.channels", "collect+sort"),                      -- LIST
  ("ircserver.IRCServer.channels", "delete+calls(maybeDeleteChannelLocked)"),  -- deleteSessionLocked: each, independent per channel
  ("ircserver.IRCServer.channels", "mapwrite+delete"),                   -- NICK: re-key one member per channel
  ("ircserver.IRCServer.channels", "mapwrite+delete"),                   -- SVSNICK: the same
  ("ircserver.IRCServer.nicks", "collect+sort"),                         -- netburst
  ("ircserver.IRCServer.nicks", "mapwrite"),                             -- set: recipients (sendAllUsers)
  ("ircserver.IRCServer.sessions", "collect+sort"),                      -- server QUIT
  ("ircserver.IRCServer.sessions", "collect"),                           -- ExpireSessions: not on the apply path, proposal order only
  ("ircserver.IRCServer.sessions", "collect"),                           -- Marshal: repeated field; Unmarshal inserts under distinct keys
  ("ircserver.IRCServer.sessions", "delete"),                            -- MaybeDeleteSession: each
  ("ircserver.IRCServer.sessions", "delete"),                            -- maybeDeleteChannelLocked: each
  ("ircserver.IRCServer.sessions", "emit+exit+calls(deleteSessionLocked)"),  -- server QUIT, uniq: at most one owner of the prefix nick
  ("ircserver.IRCServer.sessions", "exit+carry(*irc.Prefix)"),           -- server KILL, uniq: at most one pseudo-client owns the nick
  ("ircserver.IRCServer.sessions", "mapwrite"),                          -- GetSessions: status page copy (not on the apply path)
  ("ircserver.IRCServer.svsholds", "mapwrite"),                          -- Marshal
  ("ircserver.Session.Channels", "collect+sort"),                        -- netburst
  ("ircserver.Session.Channels", "collect+sort"),                        -- WHOIS
  ("ircserver.Session.Channels", "collect"),                             -- Marshal
  ("ircserver.Session.Channels", "exit+carry(bool)"),                    -- PRIVMSG, any: existence test (the flag is only ever set to true)
  ("ircserver.Session.Channels", "mapwrite"),                            -- GetSessions: copies into a fresh map
  ("ircserver.Session.Channels", "mapwrite"),                            -- set: recipients (sendCommonChannels)
  ("ircserver.Session.invitedTo", "collect"),                            -- Marshal
  ("ircserver.Session.invitedTo", "mapwrite"),                           -- GetSessions
  ("ircserver.channel.nicks", "collect+mapwrite"),                       -- Marshal
  ("ircserver.channel.nicks", "collect+sort"),                           -- NAMES
  ("ircserver.channel.nicks", "collect+sort"),                           -- WHO
  ("ircserver.channel.nicks", "mapwrite"),                               -- set: recipients (sendChannel)
  ("ircserver.channel.nicks", "mapwrite"),                               -- set: recipients (sendChannelButOne)
  ("ircserver.channel.nicks", "mapwrite"),                               -- set: recipients (sendCommonChannels)
  ("local:map[string]string", "emit+exit"),                              -- service aliases, uniq: distinct literal keys
  ("main.FSM.lastSnapshotState", "carry(bool,uint64)"),                  -- maximum of the keys below the horizon
  ("main.FSM.lastSnapshotState", "delete"),
  ("make(map[string]bool)", "collect+sort"),                             -- MODE: mode letters seen
  ("outputstream.Message.InterestingFor", "carry(int)"),                 -- byte order of a set (C18); the int is the write offset
  ("outputstream.OutputStream.messagesCache", "exit+delete"),            -- cache eviction: node-local
  ("proto.Snapshot.Svsholds", "exit+mapwrite"),                          -- Unmarshal; exit only on a corrupt snapshot
  ("proto.Snapshot_Channel.Nicks", "mapwrite")                           -- Unmarshal
]

/-- regenerated: the map `range` sites of the source are exactly the classified ones -/
theorem C01_sites : Gen.Ranges.mapRanges.map (fun s => (s.2.1, s.2.2)) = expectedSites := by decide

/-- no site on the apply path emits output inside a map iteration, except the two early-exit
lookups whose match is unique -/
theorem C01_no_emit_in_range :
    (Gen.Ranges.mapRanges.filter (fun s => hasPrefix s.2.2 "emit")).map (·.2.1) =
      ["ircserver.IRCServer.sessions", "local:map[string]string"] := by decide

/-- regenerated: the clock, the environment, goroutines and `select` are used only outside the
apply path: the expiry sweep and throttling (API side), the PANIC test switch at start-up, the
blocking reader of the output stream, and snapshot/restore timing (compaction time, metrics, and
the server-creation time — the tolerated `003`) -/
theorem C01_impure : Gen.Ranges.impureCalls = [
    ("internal/ircserver:IRCServer.ExpireSessions", "time.Since"),
    ("internal/ircserver:IRCServer.ThrottleUntil", "time.Since"),
    ("internal/ircserver:init", "os.Getenv"),
    ("internal/outputstream:OutputStream.GetNext", "select"),
    ("main:FSM.Restore", "time.Now"),
    ("main:FSM.Snapshot", "time.Now"),
    ("main:FSM.decodeJson", "time.Now"), ("main:FSM.decodeJson", "time.Since"),
    ("main:FSM.decodeProtobuf", "time.Now"), ("main:FSM.decodeProtobuf", "time.Since"),
    ("main:robustSnapshot.Persist", "time.Now"), ("main:robustSnapshot.Persist", "time.Since"),
    ("main:robustSnapshot.persistJSON", "time.Now"), ("main:robustSnapshot.persistJSON", "time.Since")] := by decide

/-! ## why each shape is insensitive to the iteration order -/

/-- collect + sort: sorting two permutations of the same strings gives the same list -/
theorem C01_sort_perm (l₁ l₂ : List String) (h : l₁.Perm l₂) :
    l₁.mergeSort (fun a b => a ≤ b) = l₂.mergeSort (fun a b => a ≤ b) := by
  apply List.Perm.eq_of_pairwise (le := fun a b => decide (a ≤ b) = true)
  · intro a b _ _ hab hba
    simp only [decide_eq_true_eq] at hab hba
    exact String.le_antisymm hab hba
  · exact List.pairwise_mergeSort (fun a b c h1 h2 => by simp only [decide_eq_true_eq] at *; exact String.le_trans h1 h2)
      (fun a b => by simp only [Bool.or_eq_true, decide_eq_true_eq]; exact String.le_total a b) l₁
  · exact List.pairwise_mergeSort (fun a b c h1 h2 => by simp only [decide_eq_true_eq] at *; exact String.le_trans h1 h2)
      (fun a b => by simp only [Bool.or_eq_true, decide_eq_true_eq]; exact String.le_total a b) l₂
  · exact ((List.mergeSort_perm l₁ _).trans h).trans (List.mergeSort_perm l₂ _).symm

/-- set (recipient maps): the set of recipients does not depend on the order of insertion -/
theorem C01_set_perm (l₁ l₂ : List Nat) (h : l₁.Perm l₂) (x : Nat) : x ∈ l₁ ↔ x ∈ l₂ := h.mem_iff

/-- any / uniq: an early-exit search gives the same answer on every permutation when at most
one element matches -/
theorem C01_find_unique {α : Type} (p : α → Bool) (l₁ l₂ : List α) (h : l₁.Perm l₂)
    (huniq : ∀ a ∈ l₁, ∀ b ∈ l₁, p a = true → p b = true → a = b) : l₁.find? p = l₂.find? p := by
  cases h1 : l₁.find? p with
  | none =>
    rw [List.find?_eq_none] at h1
    symm
    rw [List.find?_eq_none]
    intro x hx
    exact h1 x (h.mem_iff.2 hx)
  | some a =>
    have ha := List.find?_some h1
    have ham := List.mem_of_find?_eq_some h1
    cases h2 : l₂.find? p with
    | none =>
      rw [List.find?_eq_none] at h2
      exact absurd ha (by simpa using h2 a (h.mem_iff.1 ham))
    | some b =>
      have hb := List.find?_some h2
      have hbm := h.mem_iff.2 (List.mem_of_find?_eq_some h2)
      rw [huniq a ham b hbm ha hb]

/-- existence tests do not depend on the order -/
theorem C01_any_perm {α : Type} (p : α → Bool) (l₁ l₂ : List α) (h : l₁.Perm l₂) : l₁.any p = l₂.any p := by
  rw [Bool.eq_iff_iff]
  simp only [List.any_eq_true]
  constructor
  · rintro ⟨x, hx, hp⟩; exact ⟨x, h.mem_iff.1 hx, hp⟩
  · rintro ⟨x, hx, hp⟩; exact ⟨x, h.mem_iff.2 hx, hp⟩

/-- each: a per-element update or deletion applied to all elements commutes with permutation -/
theorem C01_filter_perm {α : Type} (p : α → Bool) (l₁ l₂ : List α) (h : l₁.Perm l₂) : (l₁.filter p).Perm (l₂.filter p) :=
  h.filter p

theorem C01_map_perm {α β : Type} (f : α → β) (l₁ l₂ : List α) (h : l₁.Perm l₂) : (l₁.map f).Perm (l₂.map f) :=
  h.map f

/-- the model has no hidden input: applying an entry is a function of state and entry (ids come
from the entry, replies are numbered 1, 2, … by a counter) -/
theorem C01_reply_ids (c : Ctx) (m : IrcMsg) (rc : List Nat) :
    (emit c m rc).out = c.out ++ [⟨c.msgid, c.replyid + 1, m.render, rc⟩] ∧ (emit c m rc).replyid = c.replyid + 1 := ⟨rfl, rfl⟩

/-! ## non-vacuity

Every theorem above that has hypotheses, instantiated on concrete data on which all hypotheses hold together
(two different iteration orders of the same map contents). -/
namespace Ex
/-- the channel keys of a map in two iteration orders -/
def l₁ : List String := ["#b", "#a", "#c", "#a0"]
def l₂ : List String := ["#c", "#a0", "#b", "#a"]
theorem perm12 : l₁.Perm l₂ := by decide
theorem sorted1 : l₁.mergeSort (fun a b => a ≤ b) = ["#a", "#a0", "#b", "#c"] := by
  simp [l₁, List.mergeSort, List.MergeSort.Internal.splitInTwo, List.splitAt, List.splitAt.go]
/-- (session id, lower-cased nick) of three sessions; the nicks are distinct -/
def sess : List (Nat × String) := [(1, "alice"), (9, "chanserv"), (5, "bob")]
/-- another iteration order of the same sessions -/
def sess' : List (Nat × String) := [(5, "bob"), (1, "alice"), (9, "chanserv")]
theorem permS : sess.Perm sess' := by decide
/-- an (inconsistent) pair of sessions that share a nick: what `huniq` of `C01_find_unique` excludes -/
def dup : List (Nat × String) := [(1, "bob"), (5, "bob")]
end Ex

/-- `C01_sort_perm`: the two orders are different lists, permutations of each other, and sort to the same list -/
example : Ex.l₁ ≠ Ex.l₂ ∧ Ex.l₂.mergeSort (fun a b => a ≤ b) = ["#a", "#a0", "#b", "#c"] :=
  ⟨by decide, (C01_sort_perm Ex.l₁ Ex.l₂ Ex.perm12).symm.trans Ex.sorted1⟩

/-- `C01_set_perm`: a recipient that is in the set and one that is not -/
example : (7 ∈ [3, 7, 9] ↔ 7 ∈ [9, 3, 7]) ∧ (4 ∈ [3, 7, 9] ↔ 4 ∈ [9, 3, 7]) :=
  ⟨C01_set_perm [3, 7, 9] [9, 3, 7] (by decide) 7, C01_set_perm [3, 7, 9] [9, 3, 7] (by decide) 4⟩

/-- `C01_find_unique`: exactly one session carries the nick `chanserv` (so `huniq` holds, by evaluation, and not
because nothing matches); the early-exit search finds it in both orders -/
example : Ex.sess.find? (fun e => e.2 == "chanserv") = Ex.sess'.find? (fun e => e.2 == "chanserv") :=
  C01_find_unique _ Ex.sess Ex.sess' Ex.permS (by decide)
example : Ex.sess'.find? (fun e => e.2 == "chanserv") = some (9, "chanserv") := by decide
/-- … and `huniq` is needed: with two matching elements it fails and the two orders give different answers -/
example : ¬ (∀ a ∈ Ex.dup, ∀ b ∈ Ex.dup, (fun e : Nat × String => e.2 == "bob") a = true →
    (fun e : Nat × String => e.2 == "bob") b = true → a = b) := by decide
example : Ex.dup.find? (fun e => e.2 == "bob") ≠ Ex.dup.reverse.find? (fun e => e.2 == "bob") := by decide

/-- `C01_any_perm`: an existence test that succeeds and one that fails -/
example : (Ex.sess.any (fun e => e.2 == "bob") = Ex.sess'.any (fun e => e.2 == "bob")) ∧
    (Ex.sess.any (fun e => e.2 == "carol") = Ex.sess'.any (fun e => e.2 == "carol")) :=
  ⟨C01_any_perm _ Ex.sess Ex.sess' Ex.permS, C01_any_perm _ Ex.sess Ex.sess' Ex.permS⟩
example : Ex.sess'.any (fun e => e.2 == "bob") = true ∧ Ex.sess'.any (fun e => e.2 == "carol") = false := by decide

/-- `C01_filter_perm` (deleting the sessions of link 9) and `C01_map_perm` (re-keying every element) -/
example : (Ex.sess.filter (fun e => e.1 != 9)).Perm (Ex.sess'.filter (fun e => e.1 != 9)) :=
  C01_filter_perm _ Ex.sess Ex.sess' Ex.permS
example : Ex.sess.filter (fun e => e.1 != 9) = [(1, "alice"), (5, "bob")] ∧
    Ex.sess'.filter (fun e => e.1 != 9) = [(5, "bob"), (1, "alice")] := by decide
example : (Ex.sess.map (fun e => (e.1 + 100, e.2))).Perm (Ex.sess'.map (fun e => (e.1 + 100, e.2))) :=
  C01_map_perm _ Ex.sess Ex.sess' Ex.permS

end Robust.Props.C01
