import Robust.Irc.Inv
namespace Robust.Props.C12
open Robust Robust.Irc
theorem C12_placeholder_init : invB ({} : St) = true := by decide
end Robust.Props.C12
