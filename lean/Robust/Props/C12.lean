import Robust.Irc.Proofs.RcptApply
import Robust.Irc.Proofs.RcptCheck
import Robust.Irc.Proofs.RcptSrv
import Robust.Irc.Proofs.RcptSvcAll
/-!
# C12 — messages reach exactly the entitled sessions under the sender's real identity

An output line is an `Out`: `data` (the rendered IRC line) and `rcpt : List Nat` (Go's
`InterestingFor`: the numeric ids of the sessions whose message stream contains the line; a services
pseudo-client `⟨link, k⟩` is reached through its link `link`).

Vocabulary (`Robust/Irc/Proofs/Rcpt*.lean`):

* `Lists st lc id`   – the session stored under `id` lists channel `lc` — the membership relation; between
                       entries this is the same as "is indexed and on the channel" (`OnChan`);
* `RcptIs o S svc`   – the recipients of `o` are **exactly** the sessions in the set `S` plus the services
                       links `svc` (an `iff`, so: everybody in `S` gets the line, and nobody else does);
* `ToOnly sid o`     – `o.rcpt = [sid.id]`;
* `NewOut P c c'`    – every line appended between the contexts `c` and `c'` satisfies `P`;
* `XLine st sid s m o` – per handler: the kinds of lines the handler can produce, each with its exact
                       recipient set (relative to the state `st` in which the handler starts) and, for relayed
                       lines, the rendered prefix `s.ircPrefix`;
* `GPInv st`         – the full state invariant (`GInv` of C14) plus the identity invariant `PInv`: every
                       stored client session has `ircPrefix = ⟨nick, username, "robust/0x" ++ hex id⟩`.

Sections: 1 the six send helpers; 2 PRIVMSG/NOTICE; 3 JOIN/PART/KICK/TOPIC/MODE/INVITE; 4 NICK/QUIT/KILL;
5 identity; 6 whole entries and histories; 7 the commands of services links (`server_…` handlers), per handler,
the services part of the command table, whole entries and histories.  Every theorem is followed by an `example` on a concrete state
(`exSt`: alice and Bob on `#c`, carol on no channel, dave on `#d`, one services link) showing that the
hypotheses are satisfiable and that the outsiders are not among the recipients.
-/
namespace Robust.Props.C12
open Robust Robust.Irc

/-! ## the example state -/

def exAlice : Session :=
  { id := ⟨1, 0⟩, nick := "alice", username := "al", loggedIn := true, channels := ["#c"], operator := true
    ircPrefix := ⟨"alice", "al", "robust/0x1"⟩ }
def exBob : Session :=
  { id := ⟨2, 0⟩, nick := "Bob", username := "bo", loggedIn := true, channels := ["#c"]
    ircPrefix := ⟨"Bob", "bo", "robust/0x2"⟩ }
def exCarol : Session :=
  { id := ⟨3, 0⟩, nick := "carol", username := "ca", loggedIn := true, channels := []
    ircPrefix := ⟨"carol", "ca", "robust/0x3"⟩ }
def exDave : Session :=
  { id := ⟨4, 0⟩, nick := "dave", username := "da", loggedIn := true, channels := ["#d"]
    ircPrefix := ⟨"dave", "da", "robust/0x4"⟩ }
def exServ : Session :=
  { id := ⟨9, 0⟩, server := true, ircPrefix := ⟨"services.example", "", ""⟩ }
def exChanC : Channel := { name := "#c", nicks := [("alice", { chanop := true }), ("bob", {})], modes := ['n', 't'] }
def exChanD : Channel := { name := "#d", nicks := [("dave", { chanop := true })], modes := ['n', 't'] }

/-- alice (operator of `#c`, IRC operator) and Bob are on `#c`; carol is on no channel; dave is alone on `#d`;
session 9 is a services link -/
def exSt : St :=
  { sessions := [(⟨1, 0⟩, exAlice), (⟨2, 0⟩, exBob), (⟨3, 0⟩, exCarol), (⟨4, 0⟩, exDave), (⟨9, 0⟩, exServ)]
    nicks := [("alice", ⟨1, 0⟩), ("bob", ⟨2, 0⟩), ("carol", ⟨3, 0⟩), ("dave", ⟨4, 0⟩)]
    channels := [("#c", exChanC), ("#d", exChanD)]
    serverSessions := [9] }

def exCtx : Ctx := { st := exSt, msgid := 7 }

/-- the recipient lists of the lines a handler run produced -/
def rcpts (r : Res Ctx) : Option (List (List Nat)) :=
  match r with
  | .ok c => some (c.out.map (·.rcpt))
  | _ => none

/-- the rendered lines -/
def datas (r : Res Ctx) : Option (List Bytes) :=
  match r with
  | .ok c => some (c.out.map (·.data))
  | _ => none

/-- result of a recipient lookup -/
def okIds (r : Res (List Nat)) : Option (List Nat) :=
  match r with
  | .ok l => some l
  | _ => none

/-- the example state satisfies every invariant the theorems assume -/
theorem exSt_inv : GPInv exSt := ginv_of_ginvB (by decide)

theorem exPre (sid : Id) (h : sid.reply = 0) (hs : ∃ s, AMap.get exSt.sessions sid = some s) : Pre exCtx sid :=
  ⟨exSt_inv.ginv.inv, exSt_inv.ginv.linv, hs, h⟩

/-! ## 1. the send helpers (`sendChannel`, `sendChannelButOne`, `sendCommonChannels`, `sendUser`,
`sendAllUsers`, `sendServices`) -/

/-- **sendChannel**: for a stored channel the lookup cannot panic and returns exactly the (numeric ids of the)
sessions that list the channel. -/
theorem C12_sendChannel {st : St} (h : GInv st) {lc : String} {ch : Channel}
    (hc : AMap.get st.channels lc = some ch) :
    ∃ ids, rcChannel st ch = .ok ids ∧ ∀ n, n ∈ ids ↔ ∃ id, Lists st lc id ∧ id.id = n :=
  rcChannel_spec_inv h.inv h.ninv hc

/-- **sendChannelButOne**: the same minus the session `user`. -/
theorem C12_sendChannelButOne {st : St} (h : GInv st) {lc : String} {ch : Channel}
    (hc : AMap.get st.channels lc = some ch) (user : Id) :
    ∃ ids, rcChannelButOne st ch user = .ok ids ∧
      ∀ n, n ∈ ids ↔ ∃ id, Lists st lc id ∧ id ≠ user ∧ id.id = n :=
  rcChannelButOne_spec_inv h.inv h.ninv hc user

/-- **sendCommonChannels**: exactly the sessions that list at least one of the channels the session value `u`
lists — `u` itself included when it is stored and lists a channel. -/
theorem C12_sendCommonChannels {st : St} (h : GInv st) (u : Session) :
    ∃ ids, rcCommonChannels st u = .ok ids ∧
      ∀ n, n ∈ ids ↔ ∃ lc id, lc ∈ u.channels ∧ Lists st lc id ∧ id.id = n :=
  rcCommonChannels_spec_inv h.inv h.ninv u

/-- … and a stored session that lists a channel is among its own common-channel recipients -/
theorem C12_sendCommonChannels_self {st : St} (h : GInv st) {id : Id} {u : Session}
    (hs : AMap.get st.sessions id = some u) {lc : String} (hl : lc ∈ u.channels) {ids : List Nat}
    (hr : rcCommonChannels st u = .ok ids) : id.id ∈ ids := by
  obtain ⟨ids', h1, h2⟩ := C12_sendCommonChannels h u
  rw [hr] at h1; cases h1
  exact (h2 id.id).2 ⟨lc, id, hl, ⟨u, hs, hl⟩, rfl⟩

/-- **sendUser / sendServices / sendAllUsers**: one session; the services links; every indexed session. -/
theorem C12_sendUser_sendServices_sendAllUsers {st : St} (h : GInv st) (sid : Id) (n : Nat) :
    (n ∈ rcUser sid ↔ n = sid.id) ∧ (n ∈ rcServices st ↔ n ∈ st.serverSessions) ∧
    (n ∈ rcAllUsers st ↔ ∃ x id, AMap.get st.nicks x = some id ∧ id.id = n) :=
  ⟨mem_rcUser, Iff.rfl, mem_rcAllUsers h.inv.nickNodup⟩

example : okIds (rcChannel exSt exChanC) = some [1, 2] := by decide
example : okIds (rcChannelButOne exSt exChanC ⟨1, 0⟩) = some [2] := by decide
example : okIds (rcCommonChannels exSt exAlice) = some [1, 2] := by decide
example : okIds (rcCommonChannels exSt exCarol) = some [] := by decide
example : ∃ ids, rcChannel exSt exChanC = .ok ids ∧ 3 ∉ ids ∧ 4 ∉ ids :=
  ⟨[1, 2], rfl, by decide, by decide⟩
example : GInv exSt := exSt_inv.ginv

/-! ## 2. PRIVMSG / NOTICE -/

/-- the identity under which the session stored under `sid` with value `s` speaks -/
def senderPrefix (sid : Id) (s : Session) : Prefix := ⟨s.nick, s.username, "robust/0x" ++ hexNat sid.id⟩

/-- a registered client session's stored prefix is its current nick, user name and session-derived host -/
theorem C12_sender_identity {st : St} (h : GPInv st) {sid : Id} {s : Session}
    (hs : AMap.get st.sessions sid = some s) (hsrv : s.server = false) (hl : s.loggedIn = true) :
    s.ircPrefix = senderPrefix sid s := by
  rw [PInv.prefix_eq h.pinv h.ginv.linv hs hsrv hl]
  exact sessPrefix_stored h.ginv.inv.toWInvCore hs

/-- **PRIVMSG/NOTICE, every line.**  Run by a registered client `sid` on any message `m`, `cmdPrivmsg` leaves the
state unchanged and every line it produces is

1. a numeric reply, delivered to the sender only; or
2. the message, rendered under the sender's *current* nick, user name and session-derived host, and delivered
   * for a channel target: to exactly the sessions that list that channel, minus the sender — nobody else,
     not even the services links;
   * for a `$…` target of an IRC operator: to every indexed session;
   * for a nickname target: to the one session that owns that nickname. -/
theorem C12_privmsg {c c' : Ctx} {sid : Id} {m : IrcMsg} {s : Session} (h : GPInv c.st)
    (hs : AMap.get c.st.sessions sid = some s) (hsrv : s.server = false) (hl : s.loggedIn = true)
    (hr : cmdPrivmsg c sid m = .ok c') :
    c'.st = c.st ∧ ∀ new, c'.out = c.out ++ new → ∀ o ∈ new,
      o.rcpt = [sid.id] ∨
      ∃ p0, m.params[0]? = some p0 ∧
        o.data = (IrcMsg.mk (some (senderPrefix sid s)) m.command [p0, m.trailing]).render ∧
        ((hasPrefix p0 "#" = true ∧ RcptIs o (fun id => Lists c.st (chanToLower p0) id ∧ id ≠ sid) []) ∨
         (hasPrefix p0 "#" = false ∧ hasPrefix p0 "$" = true ∧ s.operator = true ∧ o.rcpt = rcAllUsers c.st) ∨
         (hasPrefix p0 "#" = false ∧ hasPrefix p0 "$" = false ∧
            ∃ tid t, AMap.get c.st.nicks (nickToLower p0) = some tid ∧ AMap.get c.st.sessions tid = some t ∧
              nickToLower t.nick = nickToLower p0 ∧ o.rcpt = [tid.id])) := by
  obtain ⟨hst, hout⟩ := cmdPrivmsg_out h.ginv.inv.toWInv hs hr
  refine ⟨hst, fun new hnew o ho => ?_⟩
  have hid := C12_sender_identity h hs hsrv hl
  cases hout.elim hnew o ho with
  | reply hh => exact Or.inl hh
  | chan p0 ch hp hh hc hmay hd hrc =>
    exact Or.inr ⟨p0, hp, by rw [hd, hid], Or.inl ⟨hh, privmsg_chan_rcptIs h.ginv.inv h.ginv.ni hrc⟩⟩
  | wall p0 hp hh hd' hop hd hrc =>
    exact Or.inr ⟨p0, hp, by rw [hd, hid], Or.inr (Or.inl ⟨hh, hd', hop, hrc⟩)⟩
  | user p0 tid t hp hh hd' hi ht hown hG hd hrc =>
    exact Or.inr ⟨p0, hp, by rw [hd, hid], Or.inr (Or.inr ⟨hh, hd', tid, t, hi, ht, hown, hrc⟩)⟩

/-- **no eavesdropping.**  Whatever a (non-operator) client sends with PRIVMSG/NOTICE to a channel name `p0`,
a numeric id `n` that is neither the sender's nor that of a session listing the channel receives nothing. -/
theorem C12_privmsg_no_eavesdrop {c c' : Ctx} {sid : Id} {m : IrcMsg} {s : Session} {p0 : String} (h : GPInv c.st)
    (hs : AMap.get c.st.sessions sid = some s) (hsrv : s.server = false) (hl : s.loggedIn = true)
    (hp : m.params[0]? = some p0) (hh : hasPrefix p0 "#" = true)
    (hr : cmdPrivmsg c sid m = .ok c') {new : List Out} (hnew : c'.out = c.out ++ new) {o : Out} (ho : o ∈ new)
    {n : Nat} (hn : n ∈ o.rcpt) : n = sid.id ∨ ∃ id, Lists c.st (chanToLower p0) id ∧ id ≠ sid ∧ id.id = n := by
  rcases (C12_privmsg h hs hsrv hl hr).2 new hnew o ho with hrep | ⟨p0', hp', _, hcase⟩
  · rw [hrep] at hn
    exact Or.inl (by simpa using hn)
  · rw [hp] at hp'; cases hp'
    rcases hcase with ⟨_, hrc⟩ | ⟨hf, _⟩ | ⟨hf, _⟩
    · rcases hrc.sound hn with ⟨id, ⟨h1, h2⟩, h3⟩ | h
      · exact Or.inr ⟨id, h1, h2, h3⟩
      · cases h
    · rw [hh] at hf; cases hf
    · rw [hh] at hf; cases hf

/-- **delivery.**  A PRIVMSG/NOTICE with a text to an existing channel, sent by a member (or by anybody when the
channel is not `+n`), succeeds and produces exactly one line: the message under the sender's identity, whose
recipients are exactly the other sessions listing the channel — so every other current member receives it. -/
theorem C12_privmsg_channel_delivered {c : Ctx} {sid : Id} {m : IrcMsg} {s : Session} {p0 : String} {ch : Channel}
    (h : GPInv c.st) (hs : AMap.get c.st.sessions sid = some s) (hsrv : s.server = false) (hl : s.loggedIn = true)
    (hp : m.params[0]? = some p0) (hlen : 2 ≤ m.params.length) (hh : hasPrefix p0 "#" = true)
    (hc : AMap.get c.st.channels (chanToLower p0) = some ch)
    (hmay : AMap.contains ch.nicks (nickToLower s.nick) = true ∨ ch.modes.contains 'n' = false) :
    ∃ rc, cmdPrivmsg c sid m = .ok (emit c ⟨some (senderPrefix sid s), m.command, [p0, m.trailing]⟩ rc) ∧
      ∀ n, n ∈ rc ↔ ∃ id, (Lists c.st (chanToLower p0) id ∧ id ≠ sid) ∧ id.id = n := by
  obtain ⟨rc, h1, h2⟩ := cmdPrivmsg_chan_delivers h.ginv.inv.toWInv hs hp hlen hh hc hmay
  rw [C12_sender_identity h hs hsrv hl] at h1
  refine ⟨rc, h1, fun n => ?_⟩
  rw [h2]
  constructor
  · rintro ⟨id, ho, hne, he⟩; exact ⟨id, ⟨(onChan_iff_lists' h.ginv.inv h.ginv.ni).1 ho, hne⟩, he⟩
  · rintro ⟨id, ⟨ho, hne⟩, he⟩; exact ⟨id, (onChan_iff_lists' h.ginv.inv h.ginv.ni).2 ho, hne, he⟩

/-! non-vacuity: alice says "hi" on `#c` — Bob (2) and nobody else gets it, under alice's identity;
carol (not on `#c`, which is `+n`) only gets a 404 back; a private message reaches only its addressee -/
example : rcpts (cmdPrivmsg exCtx ⟨1, 0⟩ ⟨none, "PRIVMSG", ["#c", "hi"]⟩) = some [[2]] := by decide
example : datas (cmdPrivmsg exCtx ⟨1, 0⟩ ⟨none, "PRIVMSG", ["#c", "hi"]⟩) =
    some [(IrcMsg.mk (some ⟨"alice", "al", "robust/0x1"⟩) "PRIVMSG" ["#c", "hi"]).render] := by rfl
example : rcpts (cmdPrivmsg exCtx ⟨3, 0⟩ ⟨none, "NOTICE", ["#c", "hi"]⟩) = some [[3]] := by decide
example : rcpts (cmdPrivmsg exCtx ⟨3, 0⟩ ⟨none, "PRIVMSG", ["BOB", "psst"]⟩) = some [[2]] := by decide
example : exAlice.ircPrefix = senderPrefix ⟨1, 0⟩ exAlice := by decide

/-- the theorem applied to the example: whatever alice's `PRIVMSG #c` produces, carol (3) and dave (4) and the
services link (9) are not among the recipients of any line -/
example (c' : Ctx) (hr : cmdPrivmsg exCtx ⟨1, 0⟩ ⟨none, "PRIVMSG", ["#c", "hi"]⟩ = .ok c') :
    ∀ o ∈ c'.out, 3 ∉ o.rcpt ∧ 4 ∉ o.rcpt ∧ 9 ∉ o.rcpt := by
  intro o ho
  have key : ∀ n, n ∈ o.rcpt → n = 1 ∨ n = 2 := by
    intro n hn
    rcases C12_privmsg_no_eavesdrop (s := exAlice) (p0 := "#c") exSt_inv rfl rfl rfl rfl (by decide) hr
      (new := c'.out) (by simp [exCtx]) ho hn with h | ⟨id, ⟨s, hs, hl⟩, _, he⟩
    · exact Or.inl h
    · have hm := AMap.mem_of_get hs
      have : ∀ e ∈ exSt.sessions, chanToLower "#c" ∈ e.2.channels → e.1.id = 1 ∨ e.1.id = 2 := by decide
      rw [← he]
      exact this _ hm hl
  refine ⟨fun h => ?_, fun h => ?_, fun h => ?_⟩ <;> (rcases key _ h with h | h <;> cases h)

/-! ## 3. JOIN, PART, KICK, TOPIC, MODE, INVITE (and KNOCK)

Each theorem says: every line the command appends is one of the constructors of the corresponding `…Line`
type — read them in `RcptJoin.lean`, `RcptLeave.lean`, `RcptTopicMode.lean`.  In each, `reply` is a line for the
acting session only; the relayed line carries `s.ircPrefix` (= `senderPrefix sid s` by `C12_sender_identity`) and
its recipients are given by `RcptIs` — exactly the sessions listing the channel concerned (for JOIN: plus the
joiner), plus the services links where the Go code adds `sendServices`.  For the multi-channel commands the
recipients are stated relative to the state in which the *command* starts. -/

/-- the hypotheses under which `ProcessMessage` calls a handler, from the invariant -/
theorem pre_of {c : Ctx} {sid : Id} {s : Session} (h : GPInv c.st) (h0 : sid.reply = 0)
    (hs : AMap.get c.st.sessions sid = some s) : Pre c sid :=
  ⟨h.ginv.inv, h.ginv.linv, ⟨s, hs⟩, h0⟩

/-- **JOIN**: the JOIN line (and the server's `MODE +nt` for a new channel) goes to exactly the joiner and the
sessions that list the channel; `SJOIN` to the services links only; everything else (403/473/474/475, and the
implied MODE/TOPIC/NAMES answers) to the joiner only. -/
theorem C12_join {c c' : Ctx} {sid : Id} {m : IrcMsg} {s : Session} {p0 : String} (h : GPInv c.st)
    (h0 : sid.reply = 0) (hs : AMap.get c.st.sessions sid = some s) (hl : s.loggedIn = true)
    (hp0 : m.params[0]? = some p0) (hr : cmdJoin c sid m = .ok c') :
    NewOut (JoinLine c.st sid s (splitChar p0 ',')) c c' :=
  cmdJoin_out (pre_of h h0 hs) h.ginv.ni hs hl hp0 hr

/-- JOIN of one channel changes the membership relation by at most "the joiner now lists that channel" -/
theorem C12_join_membership {c c' : Ctx} {sid : Id} {chn key : String} {s : Session} (h : GPInv c.st)
    (h0 : sid.reply = 0) (hs : AMap.get c.st.sessions sid = some s) (hl : s.loggedIn = true)
    (hr : joinOne c sid chn key = .ok c') :
    SameLists c.st c'.st ∨
      ∀ lc id, Lists c'.st lc id ↔ Lists c.st lc id ∨ (id = sid ∧ lc = chanToLower chn) :=
  joinOne_lists (pre_of h h0 hs) h.ginv.ni hs hl hr

/-- **PART**: the PART line goes to exactly the sessions listing the channel (the leaving one included) and the
services links; 403/442 to the sender only. -/
theorem C12_part {c c' : Ctx} {sid : Id} {m : IrcMsg} {s : Session} {p0 : String} (h : GPInv c.st)
    (h0 : sid.reply = 0) (hs : AMap.get c.st.sessions sid = some s) (hl : s.loggedIn = true)
    (hp0 : m.params[0]? = some p0) (hr : cmdPart c sid m = .ok c') :
    NewOut (PartLine c.st sid s (splitChar p0 ',')) c c' :=
  cmdPart_out (pre_of h h0 hs) h.ginv.ni hs hl hp0 hr

/-- PART of one channel: afterwards exactly the sender no longer lists exactly that channel (or nothing changed) -/
theorem C12_part_membership {c c' : Ctx} {sid : Id} {chn : String} {s : Session} (h : GPInv c.st)
    (hs : AMap.get c.st.sessions sid = some s) (hr : partOne c sid chn = .ok c') :
    SameLists c.st c'.st ∨
      ∀ lc id, Lists c'.st lc id ↔ Lists c.st lc id ∧ ¬ (id = sid ∧ lc = chanToLower chn) :=
  partOne_lists h.ginv.inv h.ginv.ni hs hr

/-- **KICK**: the KICK line goes to exactly the sessions listing the channel (the kicked one included) and the
services links; the sender is a channel operator of that channel; 403/442/482/441 to the sender only. -/
theorem C12_kick {c c' : Ctx} {sid : Id} {m : IrcMsg} {s : Session} (h : GPInv c.st)
    (hs : AMap.get c.st.sessions sid = some s) (hr : cmdKick c sid m = .ok c') :
    NewOut (KickLine c.st sid s m) c c' :=
  cmdKick_out h.ginv.inv h.ginv.ni hs hr

/-- after KICK exactly the target no longer lists exactly that channel (or nothing changed): a later channel
message is no longer delivered to it (`C12_privmsg` is stated in terms of the same relation `Lists`) -/
theorem C12_kick_membership {c c' : Ctx} {sid : Id} {m : IrcMsg} (h : GPInv c.st)
    (hr : cmdKick c sid m = .ok c') :
    SameLists c.st c'.st ∨
    ∃ chn target tid, m.params[0]? = some chn ∧ m.params[1]? = some target ∧
      AMap.get c.st.nicks (nickToLower target) = some tid ∧
      ∀ lc id, Lists c'.st lc id ↔ Lists c.st lc id ∧ ¬ (id = tid ∧ lc = chanToLower chn) :=
  cmdKick_lists h.ginv.inv hr

/-- **TOPIC**: the topic change goes to exactly the sessions listing the channel (the sender is one of them), a copy
to the services links only; 403/442/482/331/332/333 to the sender only. -/
theorem C12_topic {c c' : Ctx} {sid : Id} {m : IrcMsg} {s : Session} (h : GPInv c.st)
    (hs : AMap.get c.st.sessions sid = some s) (hr : cmdTopic c sid m = .ok c') :
    NewOut (TopicLine c.st sid s m) c c' :=
  cmdTopic_out h.ginv.inv h.ginv.ni hs hr

/-- **MODE**: a channel mode change goes to exactly the sessions listing the channel (the sender is one of them) and
the services links; a user mode query/change to the sender resp. the target user (the sender itself unless it is an
IRC operator) and the services links; everything else to the sender only. -/
theorem C12_mode {c c' : Ctx} {sid : Id} {m : IrcMsg} {s : Session} (h : GPInv c.st)
    (hs : AMap.get c.st.sessions sid = some s) (hr : cmdMode c sid m = .ok c') :
    NewOut (ModeLine c.st sid s m) c c' :=
  cmdMode_out h.ginv.inv h.ginv.ni hs hr

/-- **INVITE**: the INVITE line goes to the invited session and the services links only, the server NOTICE to exactly
the sessions listing the channel, 341/301 and the error numerics to the sender only; membership is unchanged. -/
theorem C12_invite {c c' : Ctx} {sid : Id} {m : IrcMsg} {s : Session} (h : GPInv c.st)
    (hs : AMap.get c.st.sessions sid = some s) (hr : cmdInvite c sid m = .ok c') :
    NewOut (InviteLine c.st sid s m) c c' ∧ SameLists c.st c'.st :=
  cmdInvite_out h.ginv.inv h.ginv.ni hs hr

/-- **KNOCK**: the server NOTICE goes to exactly the sessions listing the (invite-only) channel. -/
theorem C12_knock {c c' : Ctx} {sid : Id} {m : IrcMsg} (h : GPInv c.st) (hr : cmdKnock c sid m = .ok c') :
    c'.st = c.st ∧ NewOut (KnockLine c.st sid m) c c' :=
  cmdKnock_out h.ginv.inv h.ginv.ni hr

/-! non-vacuity (dave = 4 is on `#d` only and never appears; the services link is 9):
carol joins `#c`: JOIN to alice, Bob, carol; SJOIN to the link; the rest to carol -/
example : rcpts (cmdJoin exCtx ⟨3, 0⟩ ⟨none, "JOIN", ["#c"]⟩) = some [[1, 2, 3], [9], [3], [3], [3], [3]] := by decide
/-- Bob parts: alice, Bob and the link -/
example : rcpts (cmdPart exCtx ⟨2, 0⟩ ⟨none, "PART", ["#c"]⟩) = some [[1, 2, 9]] := by decide
/-- alice kicks Bob: alice, Bob and the link; carol may not kick (442 to her only) -/
example : rcpts (cmdKick exCtx ⟨1, 0⟩ ⟨none, "KICK", ["#c", "bob", "bye"]⟩) = some [[1, 2, 9]] := by decide
example : rcpts (cmdKick exCtx ⟨3, 0⟩ ⟨none, "KICK", ["#c", "bob", "bye"]⟩) = some [[3]] := by decide
example : rcpts (cmdTopic exCtx ⟨1, 0⟩ ⟨none, "TOPIC", ["#c", "new topic"]⟩) = some [[1, 2], [9]] := by decide
/-- (a mode *string* goes through a UTF-8 byte conversion that the kernel cannot evaluate, so the two evaluated
instances are the query forms: channel mode query → 324 to alice; user mode query → alice and the link) -/
example : rcpts (cmdMode exCtx ⟨1, 0⟩ ⟨none, "MODE", ["#c"]⟩) = some [[1]] := by decide
example : rcpts (cmdMode exCtx ⟨1, 0⟩ ⟨none, "MODE", ["alice"]⟩) = some [[1, 9]] := by decide
example : rcpts (cmdInvite exCtx ⟨1, 0⟩ ⟨none, "INVITE", ["carol", "#c"]⟩) = some [[1], [3, 9], [1, 2]] := by decide
example : datas (cmdKick exCtx ⟨1, 0⟩ ⟨none, "KICK", ["#c", "bob", "bye"]⟩) =
    some [(IrcMsg.mk (some ⟨"alice", "al", "robust/0x1"⟩) "KICK" ["#c", "bob", "bye"]).render] := by rfl
/-- after the kick Bob no longer lists `#c`, so alice's next message reaches nobody -/
example : (match cmdKick exCtx ⟨1, 0⟩ ⟨none, "KICK", ["#c", "bob", "bye"]⟩ with
    | .ok c => rcpts (cmdPrivmsg { c with out := [] } ⟨1, 0⟩ ⟨none, "PRIVMSG", ["#c", "anyone?"]⟩)
    | _ => none) = some [[]] := by decide
example : Pre exCtx ⟨3, 0⟩ := exPre _ rfl ⟨exCarol, rfl⟩

/-! ## 4. NICK, QUIT, KILL -/

/-- **NICK**: the nick change is announced under the *old* prefix to exactly the sender, the sessions that share a
channel with it, and the services links; 431/432/433 and the welcome burst of an implied login to the sender only;
the login burst (`NICK …`, `PRIVMSG NickServ`) to the services links only.  Membership is unchanged. -/
theorem C12_nick {c c' : Ctx} {sid : Id} {m : IrcMsg} {s : Session} (h : GPInv c.st) (h0 : sid.reply = 0)
    (hs : AMap.get c.st.sessions sid = some s) (hr : cmdNick c sid m = .ok c') :
    NewOut (NickLine c.st sid s m) c c' ∧ SameLists c.st c'.st :=
  cmdNick_out (pre_of h h0 hs) h.ginv.ni hs hr

/-- **QUIT**: the QUIT line goes to exactly the *other* sessions that share a channel with the leaving one, and the
services links; the closing ERROR to the session being closed only. -/
theorem C12_quit {c c' : Ctx} {sid : Id} {m : IrcMsg} {s : Session} (h : GPInv c.st) (h0 : sid.reply = 0)
    (hs : AMap.get c.st.sessions sid = some s) (hr : cmdQuit c sid m = .ok c') :
    NewOut (QuitLine c.st sid s m) c c' :=
  cmdQuit_out (pre_of h h0 hs) h.ginv.ni hs hr

/-- after QUIT the sessions on a channel are exactly the former members other than the one that left -/
theorem C12_quit_membership {c c' : Ctx} {sid : Id} {m : IrcMsg} {s : Session} (h : GPInv c.st) (h0 : sid.reply = 0)
    (hs : AMap.get c.st.sessions sid = some s) (hnick : s.nick ≠ "") (hr : cmdQuit c sid m = .ok c') :
    ∀ lc id, OnChan c'.st lc id ↔ Lists c.st lc id ∧ id ≠ sid :=
  cmdQuit_onChan (pre_of h h0 hs) h.ginv.ni hs hnick hr

/-- **KILL** (IRC operators only): the victim's QUIT goes to exactly the other sessions sharing a channel with the
victim, and the services links; the KILL line and the closing ERROR to the victim only; 481/401 to the sender only. -/
theorem C12_kill {c c' : Ctx} {sid : Id} {m : IrcMsg} {s : Session} (h : GPInv c.st) (h0 : sid.reply = 0)
    (hs : AMap.get c.st.sessions sid = some s) (hr : cmdKill c sid m = .ok c') :
    NewOut (KillLine c.st sid s m) c c' :=
  cmdKill_out (pre_of h h0 hs) h.ginv.ni hs hr

/-! non-vacuity: alice → alicia: alice (twice: `sendUser` and as a member), Bob, the link; never carol or dave -/
example : rcpts (cmdNick exCtx ⟨1, 0⟩ ⟨none, "NICK", ["alicia"]⟩) = some [[1, 2, 1, 9]] := by decide
example : datas (cmdNick exCtx ⟨1, 0⟩ ⟨none, "NICK", ["alicia"]⟩) =
    some [(IrcMsg.mk (some ⟨"alice", "al", "robust/0x1"⟩) "NICK" ["alicia"]).render] := by rfl
/-- a case-only nick change (`Bob` → `BOB`) is announced the same way -/
example : rcpts (cmdNick exCtx ⟨2, 0⟩ ⟨none, "NICK", ["BOB"]⟩) = some [[2, 1, 2, 9]] := by decide
/-- alice quits: QUIT to Bob and the link, ERROR to alice -/
example : rcpts (cmdQuit exCtx ⟨1, 0⟩ ⟨none, "QUIT", ["bye"]⟩) = some [[2, 9], [1]] := by decide
/-- alice (IRC operator) kills dave, emptying `#d`: QUIT to the link only, KILL and ERROR to dave -/
example : rcpts (cmdKill exCtx ⟨1, 0⟩ ⟨none, "KILL", ["dave", "spam"]⟩) = some [[9], [4], [4]] := by decide
/-- Bob is not an operator: 481 to him only -/
example : rcpts (cmdKill exCtx ⟨2, 0⟩ ⟨none, "KILL", ["dave", "spam"]⟩) = some [[2]] := by decide

/-! ## 5. identity -/

/-- **the identity invariant is inductive**: every state reachable from the initial one by a well-formed history
satisfies `GPInv`, i.e. the consistency invariant of C14 and: every stored client session's relay prefix is
`⟨nick, username, "robust/0x" ++ hex id⟩` for its *current* nick and user name (`updateIrcPrefix` follows every
change), or the session is still blank. -/
theorem C12_identity_reachable {es : List Entry} {st : St} (hw : WfHistory {} es) (hr : runEntries {} es = .ok st) :
    GPInv st :=
  run_preserves_gp GPInv_init hw hr

/-- one entry preserves it -/
theorem C12_identity_step (st st' : St) (e : Entry) (out : List Out) (h : GPInv st) (he : EntryOk st e)
    (hr : applyEntry st e = .ok (st', out)) : GPInv st' :=
  applyEntry_preserves_gp st st' e out h he hr

/-- every handler of the command table preserves the identity invariant -/
theorem C12_identity_handlers {fname : String} {h : Handler} (hh : handlerByName fname = some h) : PPres h :=
  handler_ppres hh

example : PInv exSt := exSt_inv.pinv
/-- after NICK the stored prefix has followed the nickname -/
example : (match cmdNick exCtx ⟨1, 0⟩ ⟨none, "NICK", ["alicia"]⟩ with
    | .ok c => (AMap.get c.st.sessions ⟨1, 0⟩).map (·.ircPrefix)
    | _ => none) = some ⟨"alicia", "al", "robust/0x1"⟩ := by decide

/-- **the prefix names the sender**: the nickname in a registered client's relay prefix is indexed to that very
session — a line rendered under `s.ircPrefix` cannot be attributed to anybody else -/
theorem C12_prefix_names_sender {st : St} (h : GPInv st) {sid : Id} {s : Session}
    (hs : AMap.get st.sessions sid = some s) (hsrv : s.server = false) (hl : s.loggedIn = true) :
    AMap.get st.nicks (nickToLower s.ircPrefix.name) = some sid := by
  rw [C12_sender_identity h hs hsrv hl]
  exact h.ginv.inv.owns sid s hs (h.ginv.inv.noDeleted sid s hs) (h.ginv.linv sid s hs hl)

/-- **no impersonation**: two stored registered client sessions whose relay prefixes carry the same nickname (up to
IRC case folding) are the same session -/
theorem C12_no_impersonation {st : St} (h : GPInv st) {a b : Id} {sa sb : Session}
    (ha : AMap.get st.sessions a = some sa) (hb : AMap.get st.sessions b = some sb)
    (ha1 : sa.server = false) (ha2 : sa.loggedIn = true) (hb1 : sb.server = false) (hb2 : sb.loggedIn = true)
    (he : nickToLower sa.ircPrefix.name = nickToLower sb.ircPrefix.name) : a = b := by
  have h1 := C12_prefix_names_sender h ha ha1 ha2
  have h2 := C12_prefix_names_sender h hb hb1 hb2
  rw [he, h2] at h1
  cases h1; rfl

/-- **services PRIVMSG/NOTICE** (sent by a services link for one of its pseudo-clients): numeric replies go to the
services links only; a channel message to exactly the sessions listing the channel; a private message to the owner
of the target nickname only.  (The prefix is the one the trusted link supplies, with user and host `services`.) -/
theorem C12_services_privmsg {c c' : Ctx} {sid : Id} {m : IrcMsg} (h : GPInv c.st)
    (hr : cmdServerPrivmsg c sid m = .ok c') : c'.st = c.st ∧ NewOut (SrvPrivmsgLine c.st m) c c' :=
  cmdServerPrivmsg_out h.ginv.inv h.ginv.ni hr

example : AMap.get exSt.nicks (nickToLower exBob.ircPrefix.name) = some ⟨2, 0⟩ := by decide
/-- ChanServ (a pseudo-client of link 9) speaks on `#c`: alice and Bob, nobody else -/
example : rcpts (cmdServerPrivmsg exCtx ⟨9, 0⟩ ⟨some ⟨"ChanServ", "", ""⟩, "NOTICE", ["#c", "hello"]⟩) = some [[1, 2]] := by
  decide
example : rcpts (cmdServerPrivmsg exCtx ⟨9, 0⟩ ⟨some ⟨"NickServ", "", ""⟩, "NOTICE", ["nobody", "hello"]⟩) = some [[9]] := by
  decide

/-! ## 6. whole entries, all client commands -/

/-- **every line of every client command.**  For an `IRCFromClient` entry `e` sent by a *client* session (not a
services link) in a state satisfying the invariant: the handler runs in a state `stH` that equals the state before
the entry up to bookkeeping fields of the acting session (`lastActivity`, `lastNonPing`, `lastClientMessageId`,
`remoteAddr`) and that satisfies the invariant again; and every line of the entry's output batch is either for the
acting session only (the gate's 421/451/461, a ban/timeout `ERROR`, replies of read-only commands) or is classified
by `ClientLine stH …`, i.e. by the `…Line` type of the handler the command table selects — each constructor of which
fixes the exact recipient set. -/
theorem C12_entry_client {st st' : St} {e : Entry} {out : List Out} {s : Session}
    (h : GPInv st) (he : EntryOk st e) (ht : e.type = 2)
    (hs : AMap.get st.sessions e.session = some s) (hsrv : s.server = false)
    (hr : applyEntry st e = .ok (st', out)) :
    ∃ stH sH, StBk st stH e.session ∧ AMap.get stH.sessions e.session = some sH ∧ Session.Bk s sH ∧
      GPInv stH ∧
      ∀ o ∈ out, ToOnly e.session o ∨ ∃ m, parseMessage e.data = some m ∧ ClientLine stH e.session sH m o :=
  applyEntry_client_out h he ht hs hsrv hr

/-- the same for a `DeleteSession` entry (session expiry / explicit delete: the server runs `QUIT :<reason>`) -/
theorem C12_entry_delete {st st' : St} {e : Entry} {out : List Out} {s : Session}
    (h : GPInv st) (he : EntryOk st e) (ht : e.type = 1)
    (hs : AMap.get st.sessions e.session = some s) (hsrv : s.server = false)
    (hr : applyEntry st e = .ok (st', out)) :
    ∃ stH sH, StBk st stH e.session ∧ AMap.get stH.sessions e.session = some sH ∧ Session.Bk s sH ∧
      GPInv stH ∧
      ∀ o ∈ out, ToOnly e.session o ∨
        ∃ m, parseMessage ("QUIT :" ++ e.data) = some m ∧ ClientLine stH e.session sH m o :=
  applyEntry_delete_out h he ht hs hsrv hr

/-- all other entry types produce no output at all -/
theorem C12_entry_silent {st st' : St} {e : Entry} {out : List Out} (ht : e.type ≠ 1 ∧ e.type ≠ 2)
    (hr : applyEntry st e = .ok (st', out)) : out = [] := by
  unfold applyEntry at hr
  split at hr
  · cases hr; rfl
  split at hr
  · cases hr; rfl
  split at hr
  · exact absurd ‹e.type = 1› ht.1
  split at hr
  · exact absurd ‹e.type = 2› ht.2
  split at hr
  · split at hr <;> (cases hr; rfl)
  · cases hr; rfl

/-- … for all histories: in every reachable state the classification applies to the next entry -/
theorem C12_history {es : List Entry} {st st' : St} {e : Entry} {out : List Out} {s : Session}
    (hw : WfHistory {} es) (hrun : runEntries {} es = .ok st) (he : EntryOk st e) (ht : e.type = 2)
    (hs : AMap.get st.sessions e.session = some s) (hsrv : s.server = false)
    (hr : applyEntry st e = .ok (st', out)) :
    ∃ stH sH, StBk st stH e.session ∧ AMap.get stH.sessions e.session = some sH ∧ Session.Bk s sH ∧
      GPInv stH ∧
      ∀ o ∈ out, ToOnly e.session o ∨ ∃ m, parseMessage e.data = some m ∧ ClientLine stH e.session sH m o :=
  C12_entry_client (C12_identity_reachable hw hrun) he ht hs hsrv hr

/-- the same one level below `applyEntry`: `ProcessMessage` (remote-address stage, registration gate, command
table, handler) on an already parsed line, started with an empty output batch -/
theorem C12_processMessage_client {st : St} {c' : Ctx} {e : Entry} {im : Option IrcMsg} {s : Session}
    (h : GPInv st) (hr0 : e.session.reply = 0) (hs : AMap.get st.sessions e.session = some s)
    (hsrv : s.server = false) (hr : processMessage { st := st, msgid := e.id } e im = .ok c') :
    ∃ stH sH, StBk st stH e.session ∧ AMap.get stH.sessions e.session = some sH ∧ Session.Bk s sH ∧
      GPInv stH ∧
      ∀ o ∈ c'.out, ToOnly e.session o ∨ ∃ m, im = some m ∧ ClientLine stH e.session sH m o :=
  processMessage_client_lines h hr0 hs hsrv hr

/-- an `IRCFromClient` entry -/
def exEntry (sid : Nat) (line : String) : Entry :=
  { type := 2, id := 7, session := ⟨sid, 0⟩, data := line, unixNano := 1000, cmid := 5, rev := 0,
    remoteAddr := "", cfg := none }

/-! non-vacuity.  (`parseMessage` is not evaluable by the kernel — UTF-8 byte sizes — so the evaluated instances
run `processMessage`, i.e. everything after parsing, on the parsed line; the command is matched case-insensitively
by the gate.)  alice's `privmsg #c :hello` reaches Bob only; carol's gets the 404 back; an unknown command gets a
421 back; dave, before and after, hears nothing. -/
example : rcpts (processMessage exCtx (exEntry 1 "privmsg #c :hello") (some ⟨none, "privmsg", ["#c", "hello"]⟩))
    = some [[2]] := by decide
example : rcpts (processMessage exCtx (exEntry 3 "PRIVMSG #c :let me in") (some ⟨none, "PRIVMSG", ["#c", "let me in"]⟩))
    = some [[3]] := by decide
example : rcpts (processMessage exCtx (exEntry 3 "FROBNICATE") (some ⟨none, "FROBNICATE", []⟩)) = some [[3]] := by
  decide
example : rcpts (processMessage exCtx (exEntry 3 "JOIN #c") (some ⟨none, "JOIN", ["#c"]⟩))
    = some [[1, 2, 3], [9], [3], [3], [3], [3]] := by decide
example : EntryOk exSt (exEntry 1 "privmsg #c :hello") := ⟨fun _ => rfl, fun h => by cases h⟩
example : (exEntry 1 "x").type = 2 ∧ AMap.get exSt.sessions (exEntry 1 "x").session = some exAlice ∧
    exAlice.server = false := ⟨rfl, rfl, rfl⟩

/-! ## 7. services links

A services link (`Session.server = true`) speaks for its pseudo-clients (`NickServ`, `ChanServ`, …: sessions
`⟨link, k⟩` with `k ≠ 0`, reached through the link's numeric id).  Its commands go to the `server_…` handlers of
`SCmds.lean`.  For each of them every NEW line is

* a numeric reply, delivered to the services links only (`o.rcpt = st.serverSessions`), or
* a notification whose recipient set is given *exactly* (`RcptIs` / `ToOnly`), relative to the state `st` in which the
  command starts:
  JOIN / SVSJOIN → the joiner and the sessions listing the channel; PART / KICK / SVSPART / TOPIC / MODE / the INVITE
  notice → the sessions listing the channel (KICK, SVSPART: plus the services links); INVITE, SVSMODE, the KILL line,
  the implied TOPIC/NAMES answers of SVSJOIN → the one target session; SVSNICK → the renamed session, the sessions
  sharing a channel with it and the services links; KILL's QUIT → the sessions sharing a channel with the victim and
  the services links; QUIT → the sessions (still) sharing a channel with the pseudo-client that goes away.

The constructors of the `Srv…Line` types (`RcptSrv.lean`, `RcptSvcA.lean`, `RcptSvcB.lean`, `RcptSvcC.lean`) are the
precise statements. -/

/-- the example state with two pseudo-clients of the link 9: ChanServ (`⟨9, 77⟩`, operator of `#c`) and NickServ
(`⟨9, 78⟩`, on `#d`) -/
def exChanServ : Session :=
  { id := ⟨9, 77⟩, nick := "ChanServ", username := "services", channels := ["#c"]
    ircPrefix := ⟨"ChanServ", "services", "robust/0x9"⟩ }
def exNickServ : Session :=
  { id := ⟨9, 78⟩, nick := "NickServ", username := "services", channels := ["#d"]
    ircPrefix := ⟨"NickServ", "services", "robust/0x9"⟩ }
def exChanC2 : Channel :=
  { name := "#c", nicks := [("alice", { chanop := true }), ("bob", {}), ("chanserv", { chanop := true })],
    modes := ['n', 't'] }
def exChanD2 : Channel :=
  { name := "#d", nicks := [("dave", { chanop := true }), ("nickserv", {})], modes := ['n', 't'] }
def exSt2 : St :=
  { sessions := [(⟨1, 0⟩, exAlice), (⟨2, 0⟩, exBob), (⟨3, 0⟩, exCarol), (⟨4, 0⟩, exDave), (⟨9, 0⟩, exServ),
      (⟨9, 78⟩, exNickServ), (⟨9, 77⟩, exChanServ)]
    nicks := [("alice", ⟨1, 0⟩), ("bob", ⟨2, 0⟩), ("carol", ⟨3, 0⟩), ("dave", ⟨4, 0⟩), ("chanserv", ⟨9, 77⟩),
      ("nickserv", ⟨9, 78⟩)]
    channels := [("#c", exChanC2), ("#d", exChanD2)]
    serverSessions := [9] }
def exCtx2 : Ctx := { st := exSt2, msgid := 7 }
/-- the prefix a line of ChanServ carries -/
def exCS : Option Prefix := some ⟨"ChanServ", "", ""⟩

theorem exSt2_inv : GPInv exSt2 := ginv_of_ginvB (by decide)

theorem exPre2 : Pre exCtx2 ⟨9, 0⟩ := ⟨exSt2_inv.ginv.inv, exSt2_inv.ginv.linv, ⟨exServ, rfl⟩, rfl⟩

/-- **services JOIN** (several channels): 403/401 to the services links; the JOIN of the pseudo-client named by the
prefix to exactly that pseudo-client and the sessions listing the channel -/
theorem C12_services_join {c c' : Ctx} {sid : Id} {m : IrcMsg} {s : Session} (h : GPInv c.st) (h0 : sid.reply = 0)
    (hs : AMap.get c.st.sessions sid = some s) (hr : cmdServerJoin c sid m = .ok c') :
    NewOut (SrvJoinLine c.st m) c c' :=
  cmdServerJoin_out (pre_of h h0 hs) h.ginv.ni hr

/-- one channel of a services JOIN changes the membership relation by at most "the pseudo-client now lists it" -/
theorem C12_services_join_membership {c c' : Ctx} {m : IrcMsg} {chn : String} (h : GPInv c.st)
    (hr : serverJoinOne c m chn = .ok c') :
    SameLists c.st c'.st ∨ ∃ pn tid, pfxName m = .ok pn ∧ AMap.get c.st.nicks (nickToLower pn) = some tid ∧
      ∀ lc id, Lists c'.st lc id ↔ Lists c.st lc id ∨ (id = tid ∧ lc = chanToLower chn) :=
  serverJoinOne_lists h.ginv.inv h.ginv.ni hr

/-- **services PART**: 403/442 to the services links; the PART to exactly the sessions listing the channel -/
theorem C12_services_part {c c' : Ctx} {sid : Id} {m : IrcMsg} {s : Session} (h : GPInv c.st) (h0 : sid.reply = 0)
    (hs : AMap.get c.st.sessions sid = some s) (hr : cmdServerPart c sid m = .ok c') :
    NewOut (SrvPartLine c.st m) c c' :=
  cmdServerPart_out (pre_of h h0 hs) h.ginv.ni hr

theorem C12_services_part_membership {c c' : Ctx} {m : IrcMsg} {chn : String} (h : GPInv c.st)
    (hr : serverPartOne c m chn = .ok c') :
    SameLists c.st c'.st ∨ ∃ pn tid, pfxName m = .ok pn ∧ AMap.get c.st.nicks (nickToLower pn) = some tid ∧
      ∀ lc id, Lists c'.st lc id ↔ Lists c.st lc id ∧ ¬ (id = tid ∧ lc = chanToLower chn) :=
  serverPartOne_lists h.ginv.inv h.ginv.ni hr

/-- **services KICK**: 403/441 to the services links; the KICK to exactly the sessions listing the channel (the kicked
one included) and the services links -/
theorem C12_services_kick {c c' : Ctx} {sid : Id} {m : IrcMsg} (h : GPInv c.st)
    (hr : cmdServerKick c sid m = .ok c') : NewOut (SrvKickLine c.st m) c c' :=
  cmdServerKick_out h.ginv.inv h.ginv.ni hr

theorem C12_services_kick_membership {c c' : Ctx} {sid : Id} {m : IrcMsg} (h : GPInv c.st)
    (hr : cmdServerKick c sid m = .ok c') :
    SameLists c.st c'.st ∨
    ∃ chn target tid, m.params[0]? = some chn ∧ m.params[1]? = some target ∧
      AMap.get c.st.nicks (nickToLower target) = some tid ∧
      ∀ lc id, Lists c'.st lc id ↔ Lists c.st lc id ∧ ¬ (id = tid ∧ lc = chanToLower chn) :=
  cmdServerKick_lists h.ginv.inv hr

/-- **services MODE**: 403/441/472 to the services links; the MODE line to exactly the sessions listing the channel;
membership unchanged -/
theorem C12_services_mode {c c' : Ctx} {sid : Id} {m : IrcMsg} (h : GPInv c.st)
    (hr : cmdServerMode c sid m = .ok c') : NewOut (SrvModeLine c.st m) c c' ∧ SameLists c.st c'.st :=
  cmdServerMode_out h.ginv.inv h.ginv.ni hr

/-- **services TOPIC**: 403 to the services links; the TOPIC line to exactly the sessions listing the channel -/
theorem C12_services_topic {c c' : Ctx} {sid : Id} {m : IrcMsg} (h : GPInv c.st)
    (hr : cmdServerTopic c sid m = .ok c') : NewOut (SrvTopicLine c.st m) c c' ∧ SameLists c.st c'.st :=
  cmdServerTopic_out h.ginv.inv h.ginv.ni hr

/-- **services INVITE**: 401/403/443/341 to the services links; the INVITE to the invited session only; the server
NOTICE to exactly the sessions listing the channel -/
theorem C12_services_invite {c c' : Ctx} {sid : Id} {m : IrcMsg} (h : GPInv c.st)
    (hr : cmdServerInvite c sid m = .ok c') : NewOut (SrvInviteLine c.st m) c c' ∧ SameLists c.st c'.st :=
  cmdServerInvite_out h.ginv.inv h.ginv.ni hr

/-- **SVSJOIN**: 401/403 and the SJOIN to the services links; the JOIN (under the target's own prefix) to exactly
the target and the sessions listing the channel; the implied TOPIC/NAMES answers to the target only -/
theorem C12_services_svsjoin {c c' : Ctx} {sid : Id} {m : IrcMsg} {s : Session} (h : GPInv c.st) (h0 : sid.reply = 0)
    (hs : AMap.get c.st.sessions sid = some s) (hr : cmdServerSvsjoin c sid m = .ok c') :
    NewOut (SrvSvsjoinLine c.st m) c c' :=
  cmdServerSvsjoin_out (pre_of h h0 hs) h.ginv.ni hr

/-- **SVSPART**: 401/403/442 to the services links; the PART (under the target's own prefix) to exactly the sessions
listing the channel and the services links -/
theorem C12_services_svspart {c c' : Ctx} {sid : Id} {m : IrcMsg} (h : GPInv c.st)
    (hr : cmdServerSvspart c sid m = .ok c') : NewOut (SrvSvspartLine c.st m) c c' :=
  cmdServerSvspart_out h.ginv.inv h.ginv.ni hr

theorem C12_services_svspart_membership {c c' : Ctx} {sid : Id} {m : IrcMsg} (h : GPInv c.st)
    (hr : cmdServerSvspart c sid m = .ok c') :
    SameLists c.st c'.st ∨
    ∃ p0 chn tid, m.params[0]? = some p0 ∧ m.params[1]? = some chn ∧
      AMap.get c.st.nicks (nickToLower p0) = some tid ∧
      ∀ lc id, Lists c'.st lc id ↔ Lists c.st lc id ∧ ¬ (id = tid ∧ lc = chanToLower chn) :=
  cmdServerSvspart_lists h.ginv.inv hr

/-- **SVSNICK**: 432/401/433 to the services links; the NICK line (old prefix) to exactly the renamed session, the
sessions sharing a channel with it, and the services links; membership unchanged -/
theorem C12_services_svsnick {c c' : Ctx} {sid : Id} {m : IrcMsg} {s : Session} (h : GPInv c.st) (h0 : sid.reply = 0)
    (hs : AMap.get c.st.sessions sid = some s) (hsrv : s.server = true)
    (hr : cmdServerSvsnick c sid m = .ok c') : NewOut (SrvSvsnickLine c.st m) c c' ∧ SameLists c.st c'.st :=
  cmdServerSvsnick_out (pre_of h h0 hs) h.ginv.ni hs hsrv hr

/-- **SVSMODE**: 401/501 to the services links; the MODE line (under the link's prefix) to the target session only -/
theorem C12_services_svsmode {c c' : Ctx} {sid : Id} {m : IrcMsg} {s : Session} (h : GPInv c.st)
    (hs : AMap.get c.st.sessions sid = some s) (hr : cmdServerSvsmode c sid m = .ok c') :
    NewOut (SrvSvsmodeLine c.st s m) c c' ∧ SameLists c.st c'.st :=
  cmdServerSvsmode_out h.ginv.inv hs hr

/-- **SVSHOLD** produces no line and touches neither sessions, nick index, channels nor the services links -/
theorem C12_services_svshold {c c' : Ctx} {sid : Id} {m : IrcMsg} (hr : cmdServerSvshold c sid m = .ok c') :
    c'.out = c.out ∧ c'.st.sessions = c.st.sessions ∧ c'.st.nicks = c.st.nicks ∧ c'.st.channels = c.st.channels ∧
    c'.st.serverSessions = c.st.serverSessions :=
  cmdServerSvshold_out hr

/-- **services KILL**: 461/401 to the services links; the KILL line to the victim only; the victim's QUIT to exactly the
sessions sharing a channel with the victim (itself included) and the services links; afterwards the sessions on a
channel are the former members other than the victim -/
theorem C12_services_kill {c c' : Ctx} {sid : Id} {m : IrcMsg} (h : GPInv c.st)
    (hr : cmdServerKill c sid m = .ok c') :
    NewOut (SrvKillLine c.st m) c c' ∧
    (SameLists c.st c'.st ∨ ∃ p0 tid, m.params[0]? = some p0 ∧ AMap.get c.st.nicks (nickToLower p0) = some tid ∧
      ∀ lc id, OnChan c'.st lc id ↔ Lists c.st lc id ∧ id ≠ tid) :=
  cmdServerKill_out h.ginv.inv h.ginv.ni hr

/-- **services QUIT**: with a prefix, the QUIT of that pseudo-client of the link goes to exactly the sessions sharing a
channel with it; without a prefix (the link goes away, also on a `DeleteSession` entry for the link) the link and its
pseudo-clients are removed in the order of their `reply` numbers, and the QUIT of each pseudo-client goes to exactly the
sessions sharing a channel with it that have not been removed before it -/
theorem C12_services_quit {c c' : Ctx} {sid : Id} {m : IrcMsg} {s : Session} (h : GPInv c.st) (h0 : sid.reply = 0)
    (hs : AMap.get c.st.sessions sid = some s) (hsrv : s.server = true)
    (hr : cmdServerQuit c sid m = .ok c') : NewOut (SrvQuitLine c.st sid m) c c' :=
  cmdServerQuit_out (pre_of h h0 hs) h.ginv.ni hs hsrv hr

/-- after a services QUIT: without prefix, the sessions still on a channel are the former members that do not belong to
the link (the link and all its pseudo-clients are gone); with a prefix, nothing changed (no pseudo-client of the link
carries that nickname) or exactly that pseudo-client is gone -/
theorem C12_services_quit_membership {c c' : Ctx} {sid : Id} {m : IrcMsg} {s : Session} (h : GPInv c.st)
    (h0 : sid.reply = 0) (hs : AMap.get c.st.sessions sid = some s) (hsrv : s.server = true)
    (hr : cmdServerQuit c sid m = .ok c') :
    (m.pfx = none → ∀ lc id, OnChan c'.st lc id ↔ Lists c.st lc id ∧ id.id ≠ sid.id) ∧
    (∀ p, m.pfx = some p → SameLists c.st c'.st ∨
      ∃ tid t, AMap.get c.st.sessions tid = some t ∧ tid.id = sid.id ∧ tid.reply ≠ 0 ∧
        nickToLower t.nick = nickToLower p.name ∧
        ∀ lc id, OnChan c'.st lc id ↔ Lists c.st lc id ∧ id ≠ tid) :=
  (cmdServerQuit_spec (pre_of h h0 hs) h.ginv.ni hs hsrv hr).2

/-- **services NICK** (introduction of a pseudo-client): every line is a numeric for the services links; nobody's
memberships change (the new pseudo-client lists no channel) -/
theorem C12_services_nick {c c' : Ctx} {sid : Id} {m : IrcMsg} (hr : cmdServerNick c sid m = .ok c') :
    NewOut (fun o => o.rcpt = c.st.serverSessions) c c' ∧ c'.st.serverSessions = c.st.serverSessions ∧
    (∀ lc id, Lists c.st lc id ↔ Lists c'.st lc id) :=
  let h := cmdServerNick_out hr
  ⟨h.1, h.2.1, fun lc id => ⟨h.2.2.1 lc id, h.2.2.2 lc id⟩⟩

/-- **the services part of the command table**: whatever handler a `server_…` key selects for a services link, all its
lines are classified by `ServiceLine` -/
theorem C12_services_handlers {key cmd fname : String} {mp : Nat} {hd : Handler}
    (hmem : (key, fname, mp, false) ∈ Gen.Commands.commands) (hkey : key = "server_" ++ cmd)
    (hh : handlerByName fname = some hd)
    {c c' : Ctx} {sid : Id} {m : IrcMsg} {s : Session} (h : GPInv c.st) (h0 : sid.reply = 0)
    (hs : AMap.get c.st.sessions sid = some s) (hsrv : s.server = true)
    (hr : hd c sid m = .ok c') : NewOut (ServiceLine c.st sid s m) c c' :=
  services_handler_out hmem hkey hh (pre_of h h0 hs) h.ginv.ni hs hsrv hr

/-- **every line of every services command.**  For an `IRCFromClient` entry `e` sent by a *services link* in a state
satisfying the invariant: the handler runs in a state `stH` that equals the state before the entry up to bookkeeping
fields of the link's session and that satisfies the invariant again; and every line of the entry's output batch is
either for the link only (the gate's 421/461, a ban `ERROR`, `PONG`) or is classified by `ServiceLine stH …`, i.e. by
the `Srv…Line` type of the handler the command table selects — each constructor of which fixes the exact recipient
set.  (No conformance hypothesis is needed: a non-conforming line makes `applyEntry` panic, i.e. not return `.ok`.) -/
theorem C12_entry_services {st st' : St} {e : Entry} {out : List Out} {s : Session}
    (h : GPInv st) (he : EntryOk st e) (ht : e.type = 2)
    (hs : AMap.get st.sessions e.session = some s) (hsrv : s.server = true)
    (hr : applyEntry st e = .ok (st', out)) :
    ∃ stH sH, StBk st stH e.session ∧ AMap.get stH.sessions e.session = some sH ∧ Session.Bk s sH ∧
      GPInv stH ∧
      ∀ o ∈ out, ToOnly e.session o ∨ ∃ m, parseMessage e.data = some m ∧ ServiceLine stH e.session sH m o :=
  applyEntry_services_out h he ht hs hsrv hr

/-- the same for a `DeleteSession` entry naming a services link: the server runs `QUIT :<reason>` *without prefix* for
the link, so the only classified lines are those of `SrvQuitLine.all` -/
theorem C12_entry_services_delete {st st' : St} {e : Entry} {out : List Out} {s : Session}
    (h : GPInv st) (he : EntryOk st e) (ht : e.type = 1)
    (hs : AMap.get st.sessions e.session = some s) (hsrv : s.server = true)
    (hr : applyEntry st e = .ok (st', out)) :
    ∃ stH sH, StBk st stH e.session ∧ AMap.get stH.sessions e.session = some sH ∧ Session.Bk s sH ∧
      GPInv stH ∧
      ∀ o ∈ out, ToOnly e.session o ∨
        ∃ m, parseMessage ("QUIT :" ++ e.data) = some m ∧ ServiceLine stH e.session sH m o :=
  applyEntry_services_delete_out h he ht hs hsrv hr

/-- **protocol-conforming services entries are total and classified**: for a conforming entry (`Conforming` of
`Entry.lean`: prefix present, documented number of parameters) of a services link, `applyEntry` does not panic, and if it
returns (i.e. unless the model declines the input, e.g. a non-decimal TOPIC time) the classification applies -/
theorem C12_entry_services_conforming {st : St} {e : Entry} {s : Session}
    (h : GPInv st) (he : EntryOk st e) (hc : Conforming st e) (ht : e.type = 2)
    (hs : AMap.get st.sessions e.session = some s) (hsrv : s.server = true) :
    (∀ site, applyEntry st e ≠ .panic site) ∧
    ∀ st' out, applyEntry st e = .ok (st', out) →
      GPInv st' ∧
      ∃ stH sH, StBk st stH e.session ∧ AMap.get stH.sessions e.session = some sH ∧ Session.Bk s sH ∧
        GPInv stH ∧
        ∀ o ∈ out, ToOnly e.session o ∨ ∃ m, parseMessage e.data = some m ∧ ServiceLine stH e.session sH m o :=
  ⟨applyEntry_no_panic st e h.ginv he hc, fun st' out hr =>
    ⟨applyEntry_preserves_gp st st' e out h he hr, C12_entry_services h he ht hs hsrv hr⟩⟩

/-- **every session, client or services link**: the lines of an `IRCFromClient` entry are for the acting session only
or classified by `ClientLine` (client) resp. `ServiceLine` (services link) -/
theorem C12_entry_all {st st' : St} {e : Entry} {out : List Out} {s : Session}
    (h : GPInv st) (he : EntryOk st e) (ht : e.type = 2)
    (hs : AMap.get st.sessions e.session = some s)
    (hr : applyEntry st e = .ok (st', out)) :
    ∃ stH sH, StBk st stH e.session ∧ AMap.get stH.sessions e.session = some sH ∧ Session.Bk s sH ∧
      GPInv stH ∧
      ∀ o ∈ out, ToOnly e.session o ∨ ∃ m, parseMessage e.data = some m ∧
        ((s.server = false ∧ ClientLine stH e.session sH m o) ∨ (s.server = true ∧ ServiceLine stH e.session sH m o)) := by
  cases hsrv : s.server with
  | false =>
    obtain ⟨stH, sH, h1, h2, h3, h4, h5⟩ := C12_entry_client h he ht hs hsrv hr
    refine ⟨stH, sH, h1, h2, h3, h4, fun o ho => ?_⟩
    rcases h5 o ho with h6 | ⟨m, hm, h6⟩
    · exact Or.inl h6
    · exact Or.inr ⟨m, hm, Or.inl ⟨rfl, h6⟩⟩
  | true =>
    obtain ⟨stH, sH, h1, h2, h3, h4, h5⟩ := C12_entry_services h he ht hs hsrv hr
    refine ⟨stH, sH, h1, h2, h3, h4, fun o ho => ?_⟩
    rcases h5 o ho with h6 | ⟨m, hm, h6⟩
    · exact Or.inl h6
    · exact Or.inr ⟨m, hm, Or.inr ⟨rfl, h6⟩⟩

/-- … for all histories: in every reachable state the classification applies to the next entry of a services link -/
theorem C12_history_services {es : List Entry} {st st' : St} {e : Entry} {out : List Out} {s : Session}
    (hw : WfHistory {} es) (hrun : runEntries {} es = .ok st) (he : EntryOk st e) (ht : e.type = 2)
    (hs : AMap.get st.sessions e.session = some s) (hsrv : s.server = true)
    (hr : applyEntry st e = .ok (st', out)) :
    ∃ stH sH, StBk st stH e.session ∧ AMap.get stH.sessions e.session = some sH ∧ Session.Bk s sH ∧
      GPInv stH ∧
      ∀ o ∈ out, ToOnly e.session o ∨ ∃ m, parseMessage e.data = some m ∧ ServiceLine stH e.session sH m o :=
  C12_entry_services (C12_identity_reachable hw hrun) he ht hs hsrv hr

/-- … and, client or services link alike, for all histories -/
theorem C12_history_all {es : List Entry} {st st' : St} {e : Entry} {out : List Out} {s : Session}
    (hw : WfHistory {} es) (hrun : runEntries {} es = .ok st) (he : EntryOk st e) (ht : e.type = 2)
    (hs : AMap.get st.sessions e.session = some s)
    (hr : applyEntry st e = .ok (st', out)) :
    ∃ stH sH, StBk st stH e.session ∧ AMap.get stH.sessions e.session = some sH ∧ Session.Bk s sH ∧
      GPInv stH ∧
      ∀ o ∈ out, ToOnly e.session o ∨ ∃ m, parseMessage e.data = some m ∧
        ((s.server = false ∧ ClientLine stH e.session sH m o) ∨ (s.server = true ∧ ServiceLine stH e.session sH m o)) :=
  C12_entry_all (C12_identity_reachable hw hrun) he ht hs hr

/-- the same one level below `applyEntry`, on an already parsed line -/
theorem C12_processMessage_services {st : St} {c' : Ctx} {e : Entry} {im : Option IrcMsg} {s : Session}
    (h : GPInv st) (hr0 : e.session.reply = 0) (hs : AMap.get st.sessions e.session = some s)
    (hsrv : s.server = true) (hr : processMessage { st := st, msgid := e.id } e im = .ok c') :
    ∃ stH sH, StBk st stH e.session ∧ AMap.get stH.sessions e.session = some sH ∧ Session.Bk s sH ∧
      GPInv stH ∧
      ∀ o ∈ c'.out, ToOnly e.session o ∨ ∃ m, im = some m ∧ ServiceLine stH e.session sH m o :=
  processMessage_services_lines h hr0 hs hsrv hr

/-! non-vacuity on `exSt2` (alice = 1, Bob = 2 and ChanServ = pseudo-client of link 9 on `#c`; carol = 3 on no channel;
dave = 4 and NickServ on `#d`; 9 is also the services link).  carol and dave never receive a `#c` notification.
(The kernel cannot evaluate `cmdServerTopic` — string-to-integer conversion — and the no-prefix `QUIT` — a
well-founded merge sort — so these two are not among the evaluated instances.) -/
example : Pre exCtx2 ⟨9, 0⟩ := exPre2
example : exServ.server = true := rfl
/-- ChanServ kicks Bob from `#c`: alice, Bob, ChanServ (via link 9) and the services link -/
example : rcpts (cmdServerKick exCtx2 ⟨9, 0⟩ ⟨exCS, "KICK", ["#c", "bob", "bye"]⟩) = some [[1, 2, 9, 9]] := by decide
/-- ChanServ joins `#d` (dave, NickServ, ChanServ) and the new channel `#new` (ChanServ only) -/
example : rcpts (cmdServerJoin exCtx2 ⟨9, 0⟩ ⟨exCS, "JOIN", ["#d,#new"]⟩) = some [[4, 9, 9], [9]] := by decide
/-- ChanServ parts `#c` (alice, Bob, ChanServ); it is not on `#d`: 442 to the services link -/
example : rcpts (cmdServerPart exCtx2 ⟨9, 0⟩ ⟨exCS, "PART", ["#c,#d"]⟩) = some [[1, 2, 9], [9]] := by decide
example : rcpts (cmdServerMode exCtx2 ⟨9, 0⟩ ⟨exCS, "MODE", ["#c", "+o", "bob"]⟩) = some [[1, 2, 9]] := by
  decide +kernel
/-- 341 to the link, INVITE to carol, NOTICE to the members of `#c` -/
example : rcpts (cmdServerInvite exCtx2 ⟨9, 0⟩ ⟨exCS, "INVITE", ["carol", "#c"]⟩) = some [[9], [3], [1, 2, 9]] := by
  decide
/-- carol is joined to `#c`: JOIN to the members and carol, SJOIN to the link, 331/353/366 to carol -/
example : rcpts (cmdServerSvsjoin exCtx2 ⟨9, 0⟩ ⟨exCS, "SVSJOIN", ["carol", "#c"]⟩) =
    some [[1, 2, 9, 3], [9], [3], [3], [3]] := by decide
example : rcpts (cmdServerSvspart exCtx2 ⟨9, 0⟩ ⟨exCS, "SVSPART", ["bob", "#c"]⟩) = some [[1, 2, 9, 9]] := by decide
/-- Bob is renamed: Bob, the members of `#c` (alice, ChanServ, Bob — re-keyed to the end of the member map), the link -/
example : rcpts (cmdServerSvsnick exCtx2 ⟨9, 0⟩ ⟨exCS, "SVSNICK", ["bob", "Robert"]⟩) = some [[2, 1, 9, 2, 9]] := by
  decide
example : rcpts (cmdServerSvsmode exCtx2 ⟨9, 0⟩ ⟨exCS, "SVSMODE", ["bob", "+r"]⟩) = some [[2]] := by decide +kernel
/-- dave is killed: KILL to dave; QUIT to the members of `#d` (dave, NickServ) and the link -/
example : rcpts (cmdServerKill exCtx2 ⟨9, 0⟩ ⟨exCS, "KILL", ["dave", "spam"]⟩) = some [[4], [4, 9, 9]] := by decide
/-- ChanServ quits: the members of `#c` -/
example : rcpts (cmdServerQuit exCtx2 ⟨9, 0⟩ ⟨exCS, "QUIT", ["bye"]⟩) = some [[1, 2, 9]] := by decide
/-- a nickname that is taken: 433 to the link -/
example : rcpts (cmdServerNick exCtx2 ⟨9, 0⟩ ⟨none, "NICK", ["alice", "1", "1", "services", "h", "s", "0", "Service"]⟩) =
    some [[9]] := by decide
example : rcpts (cmdServerSvshold exCtx2 ⟨9, 0⟩ ⟨exCS, "SVSHOLD", ["bob"]⟩) = some [] := by decide
/-- a whole services command through `processMessage` (gate, `server_KICK` lookup, handler) -/
example : rcpts (processMessage exCtx2 { exEntry 9 "" with session := ⟨9, 0⟩ } (some ⟨exCS, "kick", ["#c", "bob", "bye"]⟩))
    = some [[1, 2, 9, 9]] := by decide

/-- the theorem applied to the example: whatever ChanServ's `KICK #c bob` produces, carol (3) and dave (4) are not
among the recipients of any line -/
example (c' : Ctx) (hr : cmdServerKick exCtx2 ⟨9, 0⟩ ⟨exCS, "KICK", ["#c", "bob", "bye"]⟩ = .ok c') :
    ∀ o ∈ c'.out, 3 ∉ o.rcpt ∧ 4 ∉ o.rcpt := by
  intro o ho
  have key : ∀ n, n ∈ o.rcpt → n = 1 ∨ n = 2 ∨ n = 9 := by
    intro n hn
    have hline := (C12_services_kick exSt2_inv hr).elim (new := c'.out) (by simp [exCtx2]) o ho
    have hmem : ∀ e ∈ exSt2.sessions, chanToLower "#c" ∈ e.2.channels → e.1.id = 1 ∨ e.1.id = 2 ∨ e.1.id = 9 := by
      decide
    cases hline with
    | reply h =>
      rw [h] at hn
      exact Or.inr (Or.inr (by simpa [exCtx2, exSt2] using hn))
    | relay chn target pn ch tid hp0 hp1 hc ht hton hpn hd hrc =>
      have hchn : chn = "#c" := by
        have : (["#c", "bob", "bye"] : List String)[0]? = some chn := hp0
        simpa using this.symm
      subst hchn
      rcases hrc.sound hn with ⟨id, ⟨s, hs, hl⟩, he⟩ | h
      · rw [← he]; exact hmem _ (AMap.mem_of_get hs) hl
      · exact Or.inr (Or.inr (by simpa [exCtx2, exSt2] using h))
  refine ⟨fun h => ?_, fun h => ?_⟩ <;> (rcases key _ h with h | h | h <;> cases h)

end Robust.Props.C12
