import Robust.Time.Model
/-!
# C19 — a node whose clock could be off by ≥ the election timeout refuses to join

Statements are about `Gen.Time.worstCaseDrift` and `Gen.Time.timeInSync`, which are
*regenerated from the Go source on every run*, and about the hand model `Time.synchronized`
(tied by a differential run).  Measurement model: the local clock reads `start` before the
request and `end_` after the response; the peer produced its answer at some local instant
`t` with `start ≤ t ≤ end_`, when its own clock read `result = t + δ`.  `δ` is the true
offset between the two clocks; the network delays `t - start` and `end_ - t` are arbitrary.
-/
namespace Robust.Props.C19
open Robust.I64 Robust.Gen.Time Robust.Time

/-- The election timeout the property talks about is 2 s. -/
theorem C19_election_timeout : electionTimeout = 2 * 1000000000 := by decide

/-- Soundness of the measurement: if the computed worst-case drift is below the election
timeout then the true clock offset is, whatever the delays were.  No bound on any of the
times: saturation of `time.Time.Sub` and int64 wrap-around are part of the generated
definition. -/
theorem C19_drift_sound (r : TimeResult) (t δ : Int)
    (h1 : r.start ≤ t) (h2 : t ≤ r.end_) (hr : r.result = t + δ)
    (h : worstCaseDrift r < electionTimeout) :
    -electionTimeout < δ ∧ δ < electionTimeout := by
  obtain ⟨s, e, res⟩ := r
  simp only at h1 h2 hr
  subst hr
  have hd := tsub_spec (t + δ) s
  have hrt := tsub_spec e s
  unfold worstCaseDrift at h
  simp only at h
  generalize tsub (t + δ) s = d at *
  generalize tsub e s = rtt at *
  unfold electionTimeout at *
  unfold minI maxI at hd hrt
  simp only [neg, add, sub, wrap] at h
  by_cases hd0 : d < 0
  · simp only [hd0, ↓reduceIte] at h
    split at h <;> omega
  · simp only [hd0, ↓reduceIte] at h
    split at h <;> omega

/-- A list of measurements accepted by `timeInSync` contains only peers whose true offset is
below the election timeout. -/
theorem C19_timeInSync_sound (rs : List TimeResult) (h : timeInSync rs = true)
    (r : TimeResult) (hm : r ∈ rs) (t δ : Int)
    (h1 : r.start ≤ t) (h2 : t ≤ r.end_) (hr : r.result = t + δ) :
    -electionTimeout < δ ∧ δ < electionTimeout := by
  unfold timeInSync at h
  rw [List.all_eq_true] at h
  have := h r hm
  simp only [Bool.not_eq_true', decide_eq_false_iff_not, Int.not_le] at this
  exact C19_drift_sound r t δ h1 h2 hr (by unfold electionTimeout; omega)

/-- **Main statement.**  With the safeguard enabled, the start-up check lets the node join
only if every peer that answered is provably within the election timeout. -/
theorem C19_join_only_if_in_sync (rs : List TimeResult)
    (h : synchronized false rs = .ok)
    (r : TimeResult) (hm : r ∈ rs) (ha : r.result ≠ zeroTime) (t δ : Int)
    (h1 : r.start ≤ t) (h2 : t ≤ r.end_) (hr : r.result = t + δ) :
    -electionTimeout < δ ∧ δ < electionTimeout := by
  unfold synchronized at h
  simp only at h
  split at h
  · rename_i hs
    refine C19_timeInSync_sound _ hs r ?_ t δ h1 h2 hr
    rw [List.mem_filter]; exact ⟨hm, by simp [answered, ha]⟩
  · simp at h

/-- The `-join` start-up path (`SynchronizedWithMasterAndNetwork`) decides on the measurements of the
remaining peers followed by the measurement of the node being joined (`results = append(results, result)`):
if it lets the node join, the node being joined — which must have answered, or the process has already
exited — is within the election timeout, and so is every other peer that answered.  (That the Go code
really passes `collected ++ [master]` is exercised end to end by the `join …` scenarios of the check.) -/
theorem C19_join_path (collected : List TimeResult) (master : TimeResult)
    (h : synchronized false (collected ++ [master]) = .ok)
    (r : TimeResult) (hm : r = master ∨ r ∈ collected) (ha : r.result ≠ zeroTime) (t δ : Int)
    (h1 : r.start ≤ t) (h2 : t ≤ r.end_) (hr : r.result = t + δ) :
    -electionTimeout < δ ∧ δ < electionTimeout := by
  refine C19_join_only_if_in_sync _ h r ?_ ha t δ h1 h2 hr
  rcases hm with rfl | hm
  · simp
  · simp [hm]

/-- non-vacuity: a join target 1 ns ahead, one peer that did not answer -/
example : synchronized false ([⟨0, 0, zeroTime⟩] ++ [⟨1432323893000000000, 1432323893500000000, 1432323893000000001⟩]) = .ok := by decide

/-- Otherwise it refuses and reports exactly the offending peers that answered. -/
theorem C19_refuses_and_reports (rs : List TimeResult)
    (hbad : ∃ r ∈ rs, r.result ≠ zeroTime ∧ worstCaseDrift r ≥ electionTimeout) :
    ∃ off, synchronized false rs = .refuse off ∧
      ∀ r, r ∈ off ↔ (r ∈ rs ∧ r.result ≠ zeroTime ∧ worstCaseDrift r ≥ electionTimeout) := by
  obtain ⟨b, hb, hbz, hbd⟩ := hbad
  have hns : timeInSync (rs.filter answered) = false := by
    unfold timeInSync
    rw [List.all_eq_false]
    refine ⟨b, ?_, ?_⟩
    · rw [List.mem_filter]; exact ⟨hb, by simp [answered, hbz]⟩
    · simp only [Bool.not_eq_true', decide_eq_false_iff_not]
      unfold electionTimeout at hbd; simpa using hbd
  refine ⟨(rs.filter answered).filter offending, ?_, ?_⟩
  · unfold synchronized; simp [hns]
  · intro r
    simp only [List.mem_filter, answered, offending, Bool.not_eq_true', decide_eq_false_iff_not,
      decide_eq_true_eq]
    constructor
    · rintro ⟨⟨a, b⟩, c⟩; exact ⟨a, b, c⟩
    · rintro ⟨a, b, c⟩; exact ⟨⟨a, b⟩, c⟩

/-- The explicit override: with `-disable_timesafeguard` the check never refuses. -/
theorem C19_disabled_never_refuses (rs : List TimeResult) : synchronized true rs = .ok := by
  unfold synchronized; simp only; split <;> rfl

/-- Peers that did not answer are ignored: they neither make the check pass nor fail. -/
theorem C19_unanswered_ignored (d : Bool) (rs : List TimeResult) :
    synchronized d rs = synchronized d (rs.filter answered) := by
  unfold synchronized; simp [List.filter_filter]

/-- …and in particular an unanswered measurement is never *trusted*: it cannot vouch for
itself, it is simply not part of the decision (inserting it anywhere changes nothing). -/
theorem C19_unanswered_insert (d : Bool) (xs ys : List TimeResult) (z : TimeResult)
    (hz : z.result = zeroTime) :
    synchronized d (xs ++ z :: ys) = synchronized d (xs ++ ys) := by
  rw [C19_unanswered_ignored d (xs ++ z :: ys), C19_unanswered_ignored d (xs ++ ys)]
  simp [List.filter_append, answered, hz]

/-- The check is not vacuous / not trivially refusing: an instantaneous measurement of a peer
whose offset is below the timeout is accepted. -/
theorem C19_accepts_exact (s δ : Int) (h : -electionTimeout < δ ∧ δ < electionTimeout) :
    worstCaseDrift ⟨s, s, s + δ⟩ < electionTimeout := by
  have hd := tsub_spec (s + δ) s
  have hrt := tsub_spec s s
  unfold worstCaseDrift
  simp only
  generalize tsub (s + δ) s = d at *
  generalize tsub s s = rtt at *
  unfold electionTimeout at *
  unfold minI maxI at hd hrt
  simp only [neg, add, sub, wrap]
  by_cases hd0 : d < 0
  · simp only [hd0, ↓reduceIte]
    split <;> omega
  · simp only [hd0, ↓reduceIte]
    split <;> simp only [false_or] at * <;> omega

/-- Regression for the repaired defect (fixed: int64 wrap accepted peers ≥ 292 years off):
a peer in the year 2400 while the local clock is in 2026. -/
example : timeInSync [⟨1790000000000000000, 1790000000500000000, 13569465600000000000⟩] = false := by decide
example : timeInSync [⟨1790000000000000000, 1790000000500000000, zeroTime + 5⟩] = false := by decide
/-- non-vacuity of the hypotheses of `C19_join_only_if_in_sync` -/
example : synchronized false [⟨1432323893000000000, 1432323893500000000, 1432323893000000001⟩,
    ⟨0, 0, zeroTime⟩] = .ok := by decide

end Robust.Props.C19

