import Robust.Irc.Inv
import Robust.Irc.Proofs.Entry
import Robust.Irc.Proofs.PrivHistB
/-!
# C06 — no client line can crash the state machine
`C06_no_panic`: applying one committed entry to a state satisfying the invariant never panics, for
entries as the real system produces them (`EntryOk`) — whatever a *client* sends — and for services
links that send protocol-conforming lines (`Conforming`); `C06_history_no_panic`: the same for every
history from the initial state.  The first three statements are about the regenerated command
table and the dispatch gate.
-/
namespace Robust.Props.C06
open Robust Robust.Irc

/-- every command registered in the Go source (outside the test-only environment guard) is
dispatched to a modelled handler: nothing is silently outside the model -/
theorem C06_table_modelled :
    Gen.Commands.commands.all (fun e => e.2.2.2 || (handlerByName e.2.1).isSome) = true := by decide

/-- the only command registered under an environment guard is the test-only `PANIC` -/
theorem C06_only_panic_guarded :
    (Gen.Commands.commands.filter (fun e => e.2.2.2)).map (·.1) = ["PANIC"] := by decide

/-- regenerated: the services half of the dispatch table (key, handler, MinParams).  The handlers index
parameters beyond some of these gates, which is why panic-freedom for services links is stated for
protocol-conforming lines (`Conforming`); a gate that is lowered admits lines that used to be refused. -/
theorem C06_services_minparams :
    (Gen.Commands.commands.filter (fun e => hasPrefix e.1 "server_")).map (fun e => (e.1, e.2.1, e.2.2.1)) =
    [("server_INVITE", "cmdServerInvite", 2), ("server_JOIN", "cmdServerJoin", 0), ("server_KICK", "cmdServerKick", 2),
     ("server_KILL", "cmdServerKill", 1), ("server_MODE", "cmdServerMode", 0), ("server_NICK", "cmdServerNick", 0),
     ("server_NOTICE", "cmdServerPrivmsg", 0), ("server_PART", "cmdServerPart", 0), ("server_PING", "cmdPing", 0),
     ("server_PRIVMSG", "cmdServerPrivmsg", 0), ("server_QUIT", "cmdServerQuit", 0), ("server_SVSHOLD", "cmdServerSvshold", 1),
     ("server_SVSJOIN", "cmdServerSvsjoin", 2), ("server_SVSMODE", "cmdServerSvsmode", 2), ("server_SVSNICK", "cmdServerSvsnick", 2),
     ("server_SVSPART", "cmdServerSvspart", 2), ("server_TOPIC", "cmdServerTopic", 3)] := by decide

/-- the gate: a command with fewer parameters than its regenerated `MinParams` never reaches
its handler (so `msg.Params[k]` with `k < MinParams` cannot be out of range) -/
theorem C06_minparams_gate (c : Ctx) (e : Entry) (m : IrcMsg) (s : Session) (fname : String) (mp : Nat)
    (hs : getS c e.session = .ok s) (hreg : s.loggedIn = true ∨ s.server = true)
    (haddr : e.remoteAddr = "" ∨ e.remoteAddr = s.remoteAddr)
    (hl : lookupCommand ((if s.server then "server_" else "") ++ toUpper m.command) = some (fname, mp))
    (hlen : m.params.length < mp) :
    processMessage c e (some m) = .ok (sendUser c s.id (srv c "461" [s.nick, toUpper m.command, "Not enough parameters"])) := by
  unfold processMessage
  simp only [hs, bind, Res.bind]
  rcases haddr with h | h
  · simp [h, hs, pure]
    rcases hreg with hr | hr <;> simp [hr] at hl ⊢ <;> simp [hl, hlen]
  · simp [h, hs, pure]
    rcases hreg with hr | hr <;> simp [hr] at hl ⊢ <;> simp [hl, hlen]

/-- one entry never panics: whatever a client session sends, and for every protocol-conforming line of
a services link (`Conforming`: prefix present, documented number of parameters) -/
theorem C06_no_panic (st : St) (e : Entry) (h : GInv st) (he : EntryOk st e) (hc : Conforming st e) :
    ∀ site, applyEntry st e ≠ .panic site :=
  applyEntry_no_panic st e h he hc

/-- client sessions: no side condition on the line at all -/
theorem C06_client_no_panic (st : St) (e : Entry) (h : GInv st) (he : EntryOk st e)
    (hcl : ∀ s, AMap.get st.sessions e.session = some s → s.server = false) :
    ∀ site, applyEntry st e ≠ .panic site :=
  applyEntry_no_panic st e h he (fun _ s _ hs hsrv _ => by rw [hcl s hs] at hsrv; cases hsrv)

/-- no history of well-formed, conforming entries panics -/
theorem C06_history_no_panic {es : List Entry} (hw : WfHistory {} es) : ∀ site, runEntries {} es ≠ .panic site :=
  run_no_panic GInv_init hw

/-! ## non-vacuity

Every theorem above that has hypotheses is instantiated on concrete data on which all its hypotheses hold together.
`Ex.stR` is the state reached from the initial state by the history `Ex.es0` (`Ex.run0`, by evaluation): a Config
entry, a services link (session 2) with the pseudo-client `ChanServ`, the registered clients alice (chanop of `#c`
and `#d`) and bob, `ChanServ` on `#c` as well, and a connection (16) that has not chosen a nickname; it satisfies
`GInv` by `run_preserves` (`Ex.ginvR`).  `Ex.wfB` decides `WfHistory`, the lines of services links included.
(Services lines whose handler parses a number — `SVSHOLD nick 60`, `TOPIC` — go through `String.toNat?`, which the
kernel does not evaluate; the histories below avoid them.) -/
namespace Ex
local instance (cmd : String) (n : Nat) : Decidable (ParamsOK cmd n) := by unfold ParamsOK; exact inferInstance

/-- `Conforming` as a Boolean, the lines of services links included -/
def confB (st : St) (e : Entry) : Bool :=
  !(e.type == 2) || (match AMap.get st.sessions e.session with
    | some s => !s.server || (match parseMessage e.data with
        | some m => m.pfx.isSome && decide (ParamsOK (toUpper m.command) m.params.length)
        | none => true)
    | none => true)

theorem conf_of_B {st : St} {e : Entry} (h : confB st e = true) : Conforming st e := by
  intro ht s m hs hsv hm
  unfold confB at h
  simpa [ht, hs, hsv, hm] using h

/-- `WfHistory` as a Boolean -/
def wfB (st : St) : List Entry → Bool
  | [] => true
  | e :: es => entryOkB st e && confB st e && (match applyEntry st e with
    | .ok (st', _) => wfB st' es
    | _ => true)

theorem wf_of_B : ∀ {es : List Entry} {st : St}, wfB st es = true → WfHistory st es
  | [], _, _ => trivial
  | e :: es, st, h => by
    unfold wfB at h
    simp only [Bool.and_eq_true] at h
    refine ⟨entryOk_of_B h.1.1, conf_of_B h.1.2, fun st' out hap => ?_⟩
    have h2 := h.2
    rw [hap] at h2
    exact wf_of_B h2

def entryOk (r : Res (St × List Out)) : Bool :=
  match r with
  | .ok _ => true
  | _ => false
def mk (ty id : Nat) (sess : Id) (data : String) : Entry :=
  { type := ty, id := id, session := sess, data := data, unixNano := 0, cmid := id, rev := 0, remoteAddr := "", cfg := none }
def cfg : Config := { services := ["sekrit"], maxChannels := 2, maxSessions := 6 }
def eCfg : Entry :=
  { type := 6, id := 1, session := ⟨0, 0⟩, data := "", unixNano := 0, cmid := 0, rev := 1, remoteAddr := "", cfg := some cfg }
/-- the configuration; a services link connects and introduces `ChanServ`; alice registers and creates `#c`; bob
registers and joins; `ChanServ` joins; alice creates `#d`; a further connection is opened -/
def es0 : List Entry := [
  eCfg,
  mk 0 2 ⟨0, 0⟩ "auth-s", mk 2 3 ⟨2, 0⟩ "PASS services=sekrit", mk 2 4 ⟨2, 0⟩ "SERVER services.x 1",
  mk 2 5 ⟨2, 0⟩ ":services.x NICK ChanServ 1 1 services localhost services.x 0 :Channel Services",
  mk 0 6 ⟨0, 0⟩ "auth-a", mk 2 7 ⟨6, 0⟩ "NICK alice", mk 2 8 ⟨6, 0⟩ "USER a 0 * :Alice", mk 2 9 ⟨6, 0⟩ "JOIN #c",
  mk 0 10 ⟨0, 0⟩ "auth-b", mk 2 11 ⟨10, 0⟩ "NICK bob", mk 2 12 ⟨10, 0⟩ "USER b 0 * :Bob", mk 2 13 ⟨10, 0⟩ "JOIN #c",
  mk 2 14 ⟨2, 0⟩ ":ChanServ JOIN #c", mk 2 15 ⟨6, 0⟩ "JOIN #d",
  mk 0 16 ⟨0, 0⟩ "auth-d"]
/-- the pseudo-client's id: the link's id and the FNV hash of the nick -/
def csId : Id := ⟨2, 893999252474884769⟩
def linkS : Session := { id := ⟨2, 0⟩, auth := "auth-s", lastActivity := 14, lastNonPing := 14, created := 2, svid := "0", pass := "services=sekrit", server := true, lastClientMessageId := 14, ircPrefix := ⟨"services.x", "", ""⟩ }
def chanServS : Session := { id := csId, nick := "ChanServ", username := "services", realname := "Channel Services", channels := ["#c"], lastActivity := 5, lastNonPing := 5, created := 5, svid := "0", ircPrefix := ⟨"ChanServ", "services", "robust/0x2"⟩ }
def aliceS : Session := { id := ⟨6, 0⟩, auth := "auth-a", loggedIn := true, nick := "alice", username := "a", realname := "Alice", channels := ["#c", "#d"], lastActivity := 15, lastNonPing := 15, created := 6, svid := "0", lastClientMessageId := 15, ircPrefix := ⟨"alice", "a", "robust/0x6"⟩ }
def bobS : Session := { id := ⟨10, 0⟩, auth := "auth-b", loggedIn := true, nick := "bob", username := "b", realname := "Bob", channels := ["#c"], lastActivity := 13, lastNonPing := 13, created := 10, svid := "0", lastClientMessageId := 13, ircPrefix := ⟨"bob", "b", "robust/0xa"⟩ }
def daveS : Session := { id := ⟨16, 0⟩, auth := "auth-d", lastActivity := 16, lastNonPing := 16, created := 16, svid := "0" }
/-- the state reached from the initial state by `es0` (`run0` below) -/
def stR : St :=
  { sessions := [(⟨2, 0⟩, linkS), (csId, chanServS), (⟨6, 0⟩, aliceS), (⟨10, 0⟩, bobS), (⟨16, 0⟩, daveS)]
    nicks := [("chanserv", csId), ("alice", ⟨6, 0⟩), ("bob", ⟨10, 0⟩)]
    channels := [("#c", { name := "#c", nicks := [("alice", { chanop := true }), ("bob", {}), ("chanserv", {})], modes := ['n', 't'] }),
                 ("#d", { name := "#d", nicks := [("alice", { chanop := true })], modes := ['n', 't'] })]
    serverSessions := [2]
    lastProcessed := ⟨6, 0⟩
    config := { cfg with revision := 1 } }
theorem run0 : runOk {} es0 = some stR := by decide +kernel
theorem wf0 : wfB {} es0 = true := by decide +kernel
/-- `stR` is reachable, hence satisfies the full invariant -/
theorem ginvR : GInv stR := run_preserves GInv_init (wf_of_B wf0) (runOk_some run0)

def panicSite {α : Type} (r : Res α) : Option String :=
  match r with
  | .panic w => some w
  | _ => none
theorem stored_client {st : St} {sid : Id} {s0 : Session} (h0 : AMap.get st.sessions sid = some s0) (h1 : s0.server = false) :
    ∀ s, AMap.get st.sessions sid = some s → s.server = false := fun s h => by
  rw [h0] at h; cases h; exact h1
def cR : Ctx := { st := stR, msgid := 20 }
/-- bob: `KICK #c` (one parameter, `MinParams` is 2) -/
def eKick : Entry := mk 2 20 ⟨10, 0⟩ "KICK #c"
def mKick : IrcMsg := ⟨none, "KICK", ["#c"]⟩
/-- the services link: `:ChanServ KICK #c` -/
def eSKick : Entry := mk 2 20 ⟨2, 0⟩ ":ChanServ KICK #c"
def mSKick : IrcMsg := ⟨some ⟨"ChanServ", "", ""⟩, "KICK", ["#c"]⟩
/-- a conforming services line: `:ChanServ KICK #c bob :out` -/
def eSKick3 : Entry := mk 2 20 ⟨2, 0⟩ ":ChanServ KICK #c bob :out"
/-- not conforming: the services `JOIN` without prefix (its `MinParams` is 0, the handler reads `msg.Prefix.Name`) -/
def eSJoinBad : Entry := mk 2 20 ⟨2, 0⟩ "JOIN #c"
/-- a client line with missing parameters of every kind -/
def eOdd : Entry := mk 2 20 ⟨10, 0⟩ "MODE #c +o-v+bk"
def es1 : List Entry := [
  eSKick3, mk 2 21 ⟨2, 0⟩ ":ChanServ MODE #c +o ChanServ", mk 2 22 ⟨2, 0⟩ ":ChanServ NOTICE #c :welcome",
  mk 2 23 ⟨2, 0⟩ ":services.x SVSNICK alice alicia 0", mk 2 24 ⟨2, 0⟩ ":services.x SVSJOIN alicia #e", mk 2 25 ⟨2, 0⟩ ":services.x KILL alicia :bye",
  mk 2 26 ⟨16, 0⟩ "JOIN #c", mk 2 27 ⟨16, 0⟩ "NICK", mk 2 28 ⟨16, 0⟩ "USER", mk 2 29 ⟨16, 0⟩ ":x", mk 2 30 ⟨16, 0⟩ "",
  mk 1 31 ⟨16, 0⟩ "bye", mk 2 32 ⟨2, 0⟩ ":services.x QUIT :netsplit"]
theorem wf1 : wfB stR es1 = true := by decide +kernel
theorem wf_append : ∀ {es : List Entry} {st st' : St} {es' : List Entry}, WfHistory st es → runEntries st es = .ok st' →
    WfHistory st' es' → WfHistory st (es ++ es')
  | [], _, _, _, _, hr, h' => by cases hr; exact h'
  | e :: es, st, st', es', h, hr, h' => by
    refine ⟨h.1, h.2.1, fun st1 out hap => ?_⟩
    unfold runEntries at hr
    rw [hap] at hr
    exact wf_append (h.2.2 st1 out hap) hr h'
/-- the whole history from the initial state is well-formed -/
theorem wf01 : WfHistory {} (es0 ++ es1) := wf_append (wf_of_B wf0) (runOk_some run0) (wf_of_B wf1)
end Ex
open Ex

/-- `C06_minparams_gate` for a registered client (bob, `KICK #c`: one parameter, the gate is 2) … -/
example : processMessage cR eKick (some mKick) =
    .ok (sendUser cR ⟨10, 0⟩ (srv cR "461" ["bob", "KICK", "Not enough parameters"])) :=
  C06_minparams_gate cR eKick mKick bobS "cmdKick" 2 rfl (Or.inl rfl) (Or.inl rfl) (by decide +kernel) (by decide)
/-- … and for the services link (`:ChanServ KICK #c`, looked up as `server_KICK`) -/
example : processMessage cR eSKick (some mSKick) =
    .ok (sendUser cR ⟨2, 0⟩ (srv cR "461" ["", "KICK", "Not enough parameters"])) :=
  C06_minparams_gate cR eSKick mSKick linkS "cmdServerKick" 2 rfl (Or.inr rfl) (Or.inl rfl) (by decide +kernel) (by decide)

/-- `C06_no_panic` on a line of the services link (so that `Conforming` is not satisfied trivially): the entry is
conforming (by evaluation of `confB`), and it does apply -/
example : ∀ site, applyEntry stR eSKick3 ≠ .panic site :=
  C06_no_panic stR eSKick3 ginvR (entryOk_of_B (by decide +kernel)) (conf_of_B (by decide +kernel))
example : entryOk (applyEntry stR eSKick3) = true := by decide +kernel
/-- … and `Conforming` is needed: the services `JOIN` without prefix is not conforming and does panic in `stR` -/
example : confB stR eSJoinBad = false ∧ panicSite (applyEntry stR eSJoinBad) = some "msg.Prefix is nil" := by decide +kernel
/-- `C06_client_no_panic`: bob's session is stored and is not a services link -/
example : ∀ site, applyEntry stR eOdd ≠ .panic site :=
  C06_client_no_panic stR eOdd ginvR (entryOk_of_B (by decide +kernel))
    (stored_client (s0 := bobS) (by decide +kernel) rfl)
/-- `C06_history_no_panic` on the 29 entries of `es0 ++ es1` (services `KICK`, `MODE`, `NOTICE`, `SVSNICK`, `SVSJOIN`,
`KILL`, `QUIT`; an unregistered connection sending `JOIN`, `NICK` and `USER` without parameters, a line that is only a
prefix, an empty line; a DeleteSession entry) -/
example : ∀ site, runEntries {} (es0 ++ es1) ≠ .panic site := C06_history_no_panic wf01

end Robust.Props.C06
