import Robust.Irc.Inv
/-!
# C06 — no client line can crash the state machine
(work in progress: the per-handler theorems are added as they are proved; the statements here
are about the regenerated command table and the dispatch gate)
-/
namespace Robust.Props.C06
open Robust Robust.Irc

/-- every command registered in the Go source (outside the test-only environment guard) is
dispatched to a modelled handler: nothing is silently outside the model -/
theorem C06_table_modelled :
    Gen.Commands.commands.all (fun e => e.2.2.2 || (handlerByName e.2.1).isSome) = true := by decide

/-- the only command registered under an environment guard is the test-only `PANIC` -/
theorem C06_only_panic_guarded :
    (Gen.Commands.commands.filter (fun e => e.2.2.2)).map (·.1) = ["PANIC"] := by decide

/-- the gate: a command with fewer parameters than its regenerated `MinParams` never reaches
its handler (so `msg.Params[k]` with `k < MinParams` cannot be out of range) -/
theorem C06_minparams_gate (c : Ctx) (e : Entry) (m : IrcMsg) (s : Session) (fname : String) (mp : Nat)
    (hs : getS c e.session = .ok s) (hreg : s.loggedIn = true ∨ s.server = true)
    (haddr : e.remoteAddr = "" ∨ e.remoteAddr = s.remoteAddr)
    (hl : lookupCommand ((if s.server then "server_" else "") ++ toUpper m.command) = some (fname, mp))
    (hlen : m.params.length < mp) :
    processMessage c e (some m) = .ok (sendUser c s.id (srv c "461" [s.nick, toUpper m.command, "Not enough parameters"])) := by
  unfold processMessage
  simp only [hs, bind, Res.bind]
  rcases haddr with h | h
  · simp [h, hs, Res.bind, pure]
    rcases hreg with hr | hr <;> simp [hr] at hl ⊢ <;> simp [hl, hlen]
  · simp [h, hs, Res.bind, pure]
    rcases hreg with hr | hr <;> simp [hr] at hl ⊢ <;> simp [hl, hlen]

end Robust.Props.C06
