import Robust.Irc.Inv
import Robust.Irc.Proofs.Entry
/-!
# C06 — no client line can crash the state machine
`C06_no_panic`: applying one committed entry to a state satisfying the invariant never panics, for
entries as the real system produces them (`EntryOk`) — whatever a *client* sends — and for services
links that send protocol-conforming lines (`Conforming`); `C06_history_no_panic`: the same for every
history from the initial state.  The first three statements are about the regenerated command
table and the dispatch gate.
-/
namespace Robust.Props.C06
open Robust Robust.Irc

/-- every command registered in the Go source (outside the test-only environment guard) is
dispatched to a modelled handler: nothing is silently outside the model -/
theorem C06_table_modelled :
    Gen.Commands.commands.all (fun e => e.2.2.2 || (handlerByName e.2.1).isSome) = true := by decide

/-- the only command registered under an environment guard is the test-only `PANIC` -/
theorem C06_only_panic_guarded :
    (Gen.Commands.commands.filter (fun e => e.2.2.2)).map (·.1) = ["PANIC"] := by decide

/-- regenerated: the services half of the dispatch table (key, handler, MinParams).  The handlers index
parameters beyond some of these gates, which is why panic-freedom for services links is stated for
protocol-conforming lines (`Conforming`); a gate that is lowered admits lines that used to be refused. -/
theorem C06_services_minparams :
    (Gen.Commands.commands.filter (fun e => hasPrefix e.1 "server_")).map (fun e => (e.1, e.2.1, e.2.2.1)) =
    [("server_INVITE", "cmdServerInvite", 2), ("server_JOIN", "cmdServerJoin", 0), ("server_KICK", "cmdServerKick", 2),
     ("server_KILL", "cmdServerKill", 1), ("server_MODE", "cmdServerMode", 0), ("server_NICK", "cmdServerNick", 0),
     ("server_NOTICE", "cmdServerPrivmsg", 0), ("server_PART", "cmdServerPart", 0), ("server_PING", "cmdPing", 0),
     ("server_PRIVMSG", "cmdServerPrivmsg", 0), ("server_QUIT", "cmdServerQuit", 0), ("server_SVSHOLD", "cmdServerSvshold", 1),
     ("server_SVSJOIN", "cmdServerSvsjoin", 2), ("server_SVSMODE", "cmdServerSvsmode", 2), ("server_SVSNICK", "cmdServerSvsnick", 2),
     ("server_SVSPART", "cmdServerSvspart", 2), ("server_TOPIC", "cmdServerTopic", 3)] := by decide

/-- the gate: a command with fewer parameters than its regenerated `MinParams` never reaches
its handler (so `msg.Params[k]` with `k < MinParams` cannot be out of range) -/
theorem C06_minparams_gate (c : Ctx) (e : Entry) (m : IrcMsg) (s : Session) (fname : String) (mp : Nat)
    (hs : getS c e.session = .ok s) (hreg : s.loggedIn = true ∨ s.server = true)
    (haddr : e.remoteAddr = "" ∨ e.remoteAddr = s.remoteAddr)
    (hl : lookupCommand ((if s.server then "server_" else "") ++ toUpper m.command) = some (fname, mp))
    (hlen : m.params.length < mp) :
    processMessage c e (some m) = .ok (sendUser c s.id (srv c "461" [s.nick, toUpper m.command, "Not enough parameters"])) := by
  unfold processMessage
  simp only [hs, bind, Res.bind]
  rcases haddr with h | h
  · simp [h, hs, pure]
    rcases hreg with hr | hr <;> simp [hr] at hl ⊢ <;> simp [hl, hlen]
  · simp [h, hs, pure]
    rcases hreg with hr | hr <;> simp [hr] at hl ⊢ <;> simp [hl, hlen]

/-- one entry never panics: whatever a client session sends, and for every protocol-conforming line of
a services link (`Conforming`: prefix present, documented number of parameters) -/
theorem C06_no_panic (st : St) (e : Entry) (h : GInv st) (he : EntryOk st e) (hc : Conforming st e) :
    ∀ site, applyEntry st e ≠ .panic site :=
  applyEntry_no_panic st e h he hc

/-- client sessions: no side condition on the line at all -/
theorem C06_client_no_panic (st : St) (e : Entry) (h : GInv st) (he : EntryOk st e)
    (hcl : ∀ s, AMap.get st.sessions e.session = some s → s.server = false) :
    ∀ site, applyEntry st e ≠ .panic site :=
  applyEntry_no_panic st e h he (fun _ s _ hs hsrv _ => by rw [hcl s hs] at hsrv; cases hsrv)

/-- no history of well-formed, conforming entries panics -/
theorem C06_history_no_panic {es : List Entry} (hw : WfHistory {} es) : ∀ site, runEntries {} es ≠ .panic site :=
  run_no_panic GInv_init hw

end Robust.Props.C06
