import Robust.Api.Model
import Robust.Gen.Exprs
/-!
# C17 — only dead sessions are reported dead, only idle ones expire
-/
namespace Robust.Props.C17
open Robust Robust.Irc Robust.Api

/-- "no such session" is only answered for an id that is not stored and lies strictly below the
id the node has processed last -/
theorem C17_nosuch_sound (st : St) (id : Id) (h : getSession st id = .error .noSuchSession) :
    AMap.get st.sessions id = none ∧ id.id < st.lastProcessed.id := by
  unfold getSession at h
  cases hg : AMap.get st.sessions id with
  | some s => simp [hg] at h
  | none =>
    simp only [hg] at h
    split at h
    · rename_i hlt; exact ⟨rfl, hlt⟩
    · cases h

/-- an id newer than anything the node has processed is "not yet seen", never "no such
session": a lagging follower does not tell a client that its live session is gone -/
theorem C17_future_notyet (st : St) (id : Id) (hfut : st.lastProcessed.id ≤ id.id) (hnone : AMap.get st.sessions id = none) :
    getSession st id = .error .notYetSeen := by
  unfold getSession; simp [hnone]; omega

/-- a stored session is always found, whatever `lastProcessed` says -/
theorem C17_live_found (st : St) (id : Id) (s : Session) (h : AMap.get st.sessions id = some s) : getSession st id = .ok s := by
  unfold getSession; simp [h]

/-- Log-order argument: entry ids strictly increase, sessions are created under the id of their
CreateSession entry, and `lastProcessed` is always the id of an applied entry or of an existing
session — so an id below `lastProcessed` that is not stored can never be created by a later
entry (its CreateSession entry would need a smaller id than one already applied). -/
theorem C17_cannot_reappear (st : St) (id : Id) (h : getSession st id = .error .noSuchSession)
    (e : Entry) (hnew : st.lastProcessed.id ≤ e.id) (_hcreate : e.type = 0) :
    (⟨e.id, 0⟩ : Id) ≠ ⟨id.id, 0⟩ := by
  have := (C17_nosuch_sound st id h).2
  intro heq
  have : e.id = id.id := by injection heq
  omega

/-- the expiry sweep proposes deletion for exactly the client sessions whose last activity is
older than the configured expiration; services pseudo-clients are never proposed -/
theorem C17_expire_exact (st : St) (now : Int) (id : Id) :
    id ∈ expireSessions st now ↔ ∃ s, (id, s) ∈ st.sessions ∧ id.reply = 0 ∧ now - s.lastActivity > st.config.sessionExpiration := by
  unfold expireSessions
  simp only [List.mem_map, List.mem_filter, decide_eq_true_eq]
  constructor
  · rintro ⟨⟨i, s⟩, ⟨hm, hr, hlt⟩, rfl⟩
    simp only at hr hlt
    exact ⟨s, hm, hr, by omega⟩
  · rintro ⟨s, hm, hr, hlt⟩
    exact ⟨(id, s), ⟨hm, hr, by simp only; omega⟩, rfl⟩

theorem C17_pseudo_clients_never_expire (st : St) (now : Int) (id : Id) (h : id.reply ≠ 0) : id ∉ expireSessions st now := by
  intro hm
  obtain ⟨_, _, hr, _⟩ := (C17_expire_exact st now id).1 hm
  exact h hr

/-- regenerated: the comparison in getSessionLocked, and the two skip conditions, the timeout and
the proposed entry of ExpireSessions -/
theorem C17_wiring :
    Gen.Exprs.fact "getsession.conds" = "ok ;; i.lastProcessed.Id > id.Id" ∧
    Gen.Exprs.fact "expire.conds" = "id.Reply != 0 ;; time.Since(s.LastActivity) <= timeout" ∧
    Gen.Exprs.fact "expire.timeout" = "time.Duration(i.Config.SessionExpiration)" ∧
    Gen.Exprs.fact "expire.msg.Type" = "robust.DeleteSession" ∧
    Gen.Exprs.fact "expire.msg.Session" = "id" := by decide

end Robust.Props.C17
