import Robust.Api.Model
import Robust.Irc.Proofs.FrmCheck
import Robust.Gen.Exprs
/-!
# C17 — only dead sessions are reported dead, only idle ones expire

Part 1 (decision level): `getSession`, the expiry sweep.

Part 2 (end of a session, over the whole state machine): after a DeleteSession entry (expiry,
DELETE), a QUIT, a KILL by an IRC operator or a client entry from a GLINE-banned address the
session is not stored any more, its nickname is free and no channel lists it
(`C17_delete_entry_ends_session`, `C17_quit_…`, `C17_kill_…`, `C17_banned_…`); what each entry type
does to `lastProcessed` (`C17_lastProcessed_after`); `lastProcessed` is **not** monotone
(`C17_lastProcessed_not_monotone`: a client entry sets it to the numeric id of the *session*), the
true variant is the bound `lastProcessed.id ≤ id of the last applied entry`
(`C17_lastProcessed_bounded_partial`), which is what the "no such session" answer needs
(`C17_nosuch_is_final`).  Helpers: `Robust/Irc/Proofs/Frm*.lean`.
-/
namespace Robust.Props.C17
open Robust Robust.Irc Robust.Api

/-- "no such session" is only answered for an id that is not stored and lies strictly below the
id the node has processed last -/
theorem C17_nosuch_sound (st : St) (id : Id) (h : getSession st id = .error .noSuchSession) :
    AMap.get st.sessions id = none ∧ id.id < st.lastProcessed.id := by
  unfold getSession at h
  cases hg : AMap.get st.sessions id with
  | some s => simp [hg] at h
  | none =>
    simp only [hg] at h
    split at h
    · rename_i hlt; exact ⟨rfl, hlt⟩
    · cases h

/-- an id newer than anything the node has processed is "not yet seen", never "no such
session": a lagging follower does not tell a client that its live session is gone -/
theorem C17_future_notyet (st : St) (id : Id) (hfut : st.lastProcessed.id ≤ id.id) (hnone : AMap.get st.sessions id = none) :
    getSession st id = .error .notYetSeen := by
  unfold getSession; simp [hnone]; omega

/-- a stored session is always found, whatever `lastProcessed` says -/
theorem C17_live_found (st : St) (id : Id) (s : Session) (h : AMap.get st.sessions id = some s) : getSession st id = .ok s := by
  unfold getSession; simp [h]

/-- Log-order argument: entry ids strictly increase, sessions are created under the id of their
CreateSession entry, and `lastProcessed` is always the id of an applied entry or of an existing
session — so an id below `lastProcessed` that is not stored can never be created by a later
entry (its CreateSession entry would need a smaller id than one already applied). -/
theorem C17_cannot_reappear (st : St) (id : Id) (h : getSession st id = .error .noSuchSession)
    (e : Entry) (hnew : st.lastProcessed.id ≤ e.id) (_hcreate : e.type = 0) :
    (⟨e.id, 0⟩ : Id) ≠ ⟨id.id, 0⟩ := by
  have := (C17_nosuch_sound st id h).2
  intro heq
  have : e.id = id.id := by injection heq
  omega

/-- the expiry sweep proposes deletion for exactly the client sessions whose last activity is
older than the configured expiration; services pseudo-clients are never proposed -/
theorem C17_expire_exact (st : St) (now : Int) (id : Id) :
    id ∈ expireSessions st now ↔ ∃ s, (id, s) ∈ st.sessions ∧ id.reply = 0 ∧ now - s.lastActivity > st.config.sessionExpiration := by
  unfold expireSessions
  simp only [List.mem_map, List.mem_filter, decide_eq_true_eq]
  constructor
  · rintro ⟨⟨i, s⟩, ⟨hm, hr, hlt⟩, rfl⟩
    simp only at hr hlt
    exact ⟨s, hm, hr, by omega⟩
  · rintro ⟨s, hm, hr, hlt⟩
    exact ⟨(id, s), ⟨hm, hr, by simp only; omega⟩, rfl⟩

theorem C17_pseudo_clients_never_expire (st : St) (now : Int) (id : Id) (h : id.reply ≠ 0) : id ∉ expireSessions st now := by
  intro hm
  obtain ⟨_, _, hr, _⟩ := (C17_expire_exact st now id).1 hm
  exact h hr

/-- regenerated: the comparison in getSessionLocked, and the two skip conditions, the timeout and
the proposed entry of ExpireSessions -/
theorem C17_wiring :
    Gen.Exprs.fact "getsession.conds" = "recv.sessions[param1][1] ;; param1.Id < recv.lastProcessed.Id" ∧
    Gen.Exprs.fact "expire.conds" = "0 != rangekey.Reply ;; time.Since(rangeval.LastActivity) <= recv.sessionExpiration()" ∧
    Gen.Exprs.fact "expire.timeout.helper" = "return time.Duration(recv.Config.SessionExpiration)" ∧
    Gen.Exprs.fact "expire.msg.Type" = "robust.DeleteSession" ∧
    Gen.Exprs.fact "expire.msg.Session" = "rangekey" := by decide

/-! ## Part 2 — end of a session -/

/-- **DeleteSession entry** (what the expiry sweep and the DELETE request propose) for a stored
client session: afterwards the session is not stored, its nickname is free, and no channel's member
list contains that nickname. -/
theorem C17_delete_entry_ends_session {st st' : St} {e : Entry} {out : List Out} {s : Session} (h : GInv st)
    (he : EntryOk st e) (ht : e.type = 1) (hs : AMap.get st.sessions e.session = some s)
    (hsv : s.server = false) (hr : applyEntry st e = .ok (st', out)) :
    AMap.get st'.sessions e.session = none ∧ AMap.get st'.nicks (nickToLower s.nick) = none ∧
    ∀ lc ch, AMap.get st'.channels lc = some ch → nickToLower s.nick ∉ AMap.keys ch.nicks :=
  let g := applyEntry_delete_ends h he ht hs hsv hr
  ⟨g.notStored, g.nickFree, g.offChans⟩

/-- **QUIT** typed by the client: the same. -/
theorem C17_quit_entry_ends_session {st st' : St} {e : Entry} {out : List Out} {s : Session} {m : IrcMsg}
    (h : GInv st) (he : EntryOk st e) (ht : e.type = 2) (hs : AMap.get st.sessions e.session = some s)
    (hsv : s.server = false) (hm : parseMessage e.data = some m) (hq : toUpper m.command = "QUIT")
    (hr : applyEntry st e = .ok (st', out)) :
    AMap.get st'.sessions e.session = none ∧ AMap.get st'.nicks (nickToLower s.nick) = none ∧
    ∀ lc ch, AMap.get st'.channels lc = some ch → nickToLower s.nick ∉ AMap.keys ch.nicks :=
  let g := applyEntry_quit_ends h he ht hs hsv hm hq hr
  ⟨g.notStored, g.nickFree, g.offChans⟩

/-- **KILL** by a registered IRC operator (whose own address is not banned) of the session `tid`
indexed under the first parameter: the killed session is not stored any more (the operator's
`MaybeDeleteSession` purges every flagged session), its nickname is free, it is on no channel. -/
theorem C17_kill_entry_ends_session {st st' : St} {e : Entry} {out : List Out} {s : Session} {m : IrcMsg}
    {p0 : String} {tid : Id} (h : GInv st) (he : EntryOk st e) (ht : e.type = 2)
    (hs : AMap.get st.sessions e.session = some s) (hsv : s.server = false) (hli : s.loggedIn = true)
    (hop : s.operator = true) (hnb : AMap.get st.config.banned e.remoteAddr = none)
    (hm : parseMessage e.data = some m) (hq : toUpper m.command = "KILL") (hlen : 2 ≤ m.params.length)
    (hp0 : param m 0 = .ok p0) (htid : AMap.get st.nicks (nickToLower p0) = some tid)
    (hr : applyEntry st e = .ok (st', out)) :
    AMap.get st'.sessions tid = none ∧ AMap.get st'.nicks (nickToLower p0) = none ∧
    ∀ lc ch, AMap.get st'.channels lc = some ch → nickToLower p0 ∉ AMap.keys ch.nicks :=
  let g := applyEntry_kill_ends h he ht hs hsv hli hop hnb hm hq hlen hp0 htid hr
  ⟨g.notStored, g.nickFree, g.offChans⟩

/-- **Ban.** A client entry (any line that parses) arriving from a new address that is GLINE-banned
ends the session in the same way. -/
theorem C17_banned_entry_ends_session {st st' : St} {e : Entry} {out : List Out} {s : Session} {m : IrcMsg}
    {reason : String} (h : GInv st) (he : EntryOk st e) (ht : e.type = 2)
    (hs : AMap.get st.sessions e.session = some s) (hm : parseMessage e.data = some m)
    (hne : (e.remoteAddr != "" && e.remoteAddr != s.remoteAddr) = true)
    (hb : AMap.get st.config.banned e.remoteAddr = some reason) (hre : reason ≠ "")
    (hr : applyEntry st e = .ok (st', out)) :
    AMap.get st'.sessions e.session = none ∧ AMap.get st'.nicks (nickToLower s.nick) = none ∧
    ∀ lc ch, AMap.get st'.channels lc = some ch → nickToLower s.nick ∉ AMap.keys ch.nicks :=
  let g := applyEntry_banned_ends h he ht hs hm hne hb hre hr
  ⟨g.notStored, g.nickFree, g.offChans⟩

/-- … and a session that is not stored receives nothing through a channel or nickname lookup:
every recipient id computed by the send helpers is the id of a *stored* session
(the nick index only points to stored sessions — `Inv.index`). -/
theorem C17_gone_not_addressed {st : St} (h : GInv st) {σ : Id} (hσ : AMap.get st.sessions σ = none) :
    ∀ x, AMap.get st.nicks x ≠ some σ := by
  intro x hx
  obtain ⟨s, hs, _⟩ := h.inv.index x σ hx
  rw [hσ] at hs; cases hs

/-! ## Part 2b — `lastProcessed` -/

/-- What `applyEntry` does to `lastProcessed`: a DeleteSession entry of a stored session sets it to
the entry's id; a client entry of a stored session sets it to the numeric id **of the session**
(`SetLastProcessed(robust.Id{Id: msg.Session.Id})`, statemachine.go:111); every other entry
(CreateSession, message of death, Config, entries of unknown sessions) leaves it alone. -/
theorem C17_lastProcessed_after {st st' : St} {e : Entry} {out : List Out}
    (hr : applyEntry st e = .ok (st', out)) :
    st'.lastProcessed =
      if e.type = 1 ∧ (AMap.get st.sessions e.session).isSome then ⟨e.id, 0⟩
      else if e.type = 2 ∧ (AMap.get st.sessions e.session).isSome then ⟨e.session.id, 0⟩
      else st.lastProcessed :=
  applyEntry_lastProcessed hr

/-- **True variant of monotonicity (partial).** Assumption on the history, stated explicitly: entry
ids increase strictly (`IdsIncreasing n es`: the first id is above `n`, each next id above the
previous one — raft indexes).  Then `lastProcessed.id`, and the numeric id of every stored session,
never exceed the id of the entry applied last (`lastId n es`). -/
theorem C17_lastProcessed_bounded_partial {st st' : St} {es : List Entry} {n : Nat} (hw : SessWf st)
    (hwf : WfHistory st es) (hinc : IdsIncreasing n es)
    (hb : st.lastProcessed.id ≤ n ∧ ∀ id s, AMap.get st.sessions id = some s → id.id ≤ n)
    (hr : runEntries st es = .ok st') :
    st'.lastProcessed.id ≤ lastId n es ∧ ∀ id s, AMap.get st'.sessions id = some s → id.id ≤ lastId n es :=
  run_lpBound hw hwf hinc hb hr

/-- one step of the above -/
theorem C17_lastProcessed_bounded_step {st st' : St} {e : Entry} {out : List Out} {n : Nat} (hw : SessWf st)
    (he : EntryOk st e) (hb : st.lastProcessed.id ≤ n ∧ ∀ id s, AMap.get st.sessions id = some s → id.id ≤ n)
    (hn : n ≤ e.id) (hr : applyEntry st e = .ok (st', out)) :
    st'.lastProcessed.id ≤ e.id ∧ ∀ id s, AMap.get st'.sessions id = some s → id.id ≤ e.id :=
  applyEntry_lpBound hw he.1 hb hn hr

/-- Consequence for the lookup: once a node that has applied a history with increasing ids answers
"no such session" for `id`, no later entry (ids above the last applied one) can be the CreateSession
entry of that id — the answer is final.  (This is the use `C17_cannot_reappear` makes of
`lastProcessed`; its hypothesis `st.lastProcessed.id ≤ e.id` is discharged here.) -/
theorem C17_nosuch_is_final {st st' : St} {es : List Entry} {n : Nat} (hw : SessWf st)
    (hwf : WfHistory st es) (hinc : IdsIncreasing n es)
    (hb : st.lastProcessed.id ≤ n ∧ ∀ id s, AMap.get st.sessions id = some s → id.id ≤ n)
    (hr : runEntries st es = .ok st') (id : Id) (hno : getSession st' id = .error .noSuchSession)
    (e : Entry) (hlater : lastId n es < e.id) (hcreate : e.type = 0) : (⟨e.id, 0⟩ : Id) ≠ ⟨id.id, 0⟩ := by
  have hle := (C17_lastProcessed_bounded_partial hw hwf hinc hb hr).1
  exact C17_cannot_reappear st' id hno e (by omega) hcreate

/-! ### non-vacuity, and the counterexample to monotonicity -/

def exAlice : Session :=
  { id := ⟨1, 0⟩, nick := "alice", username := "al", loggedIn := true, channels := ["#c"], operator := true,
    ircPrefix := ⟨"alice", "al", "robust/0x1"⟩ }
def exBob : Session :=
  { id := ⟨2, 0⟩, nick := "Bob", username := "bo", loggedIn := true, channels := ["#c"], remoteAddr := "10.0.0.2",
    ircPrefix := ⟨"Bob", "bo", "robust/0x2"⟩ }
def exChanC : Channel := { name := "#c", nicks := [("alice", { chanop := true }), ("bob", {})], modes := ['n', 't'] }
/-- alice (IRC operator) and Bob on `#c`; entries up to id 9 have been applied -/
def exSt : St :=
  { sessions := [(⟨1, 0⟩, exAlice), (⟨2, 0⟩, exBob)]
    nicks := [("alice", ⟨1, 0⟩), ("bob", ⟨2, 0⟩)]
    channels := [("#c", exChanC)]
    lastProcessed := ⟨9, 0⟩ }
def mkE (type id : Nat) (session : Id) (data : String) : Entry :=
  { type := type, id := id, session := session, data := data, unixNano := 0, cmid := id, rev := 0,
    remoteAddr := "", cfg := none }

theorem exSt_inv : GPInv exSt := ginv_of_ginvB (by decide)

/-- the DeleteSession entry for Bob applies; afterwards Bob is not stored, "bob" is free, `#c` has only alice -/
theorem C17_example_delete :
    (applyEntry exSt (mkE 1 10 ⟨2, 0⟩ "expired")).isOk = true ∧
    (let st' := resSt (applyEntry exSt (mkE 1 10 ⟨2, 0⟩ "expired"))
     AMap.keys st'.sessions = [⟨1, 0⟩] ∧ AMap.keys st'.nicks = ["alice"] ∧
     st'.channels.map (fun c => (c.1, AMap.keys c.2.nicks)) = [("#c", ["alice"])] ∧
     st'.lastProcessed = ⟨10, 0⟩) :=
  ⟨by decide +kernel, by decide +kernel⟩

/-- `C17_delete_entry_ends_session` instantiated on the example (all hypotheses discharged) -/
example : AMap.get (resSt (applyEntry exSt (mkE 1 10 ⟨2, 0⟩ "expired"))).nicks "bob" = none :=
  (C17_delete_entry_ends_session (s := exBob) exSt_inv.ginv (entryOk_of_B (by decide)) rfl (by decide) rfl
    (eq_ok_of_isOk C17_example_delete.1)).2.1

/-- KILL by the operator alice: Bob is purged although the acting session is alice's -/
theorem C17_example_kill :
    (let st' := resSt (applyEntry exSt (mkE 2 10 ⟨1, 0⟩ "KILL bob :bye"))
     AMap.keys st'.sessions = [⟨1, 0⟩] ∧ AMap.keys st'.nicks = ["alice"] ∧
     st'.channels.map (fun c => (c.1, AMap.keys c.2.nicks)) = [("#c", ["alice"])]) := by decide +kernel

/-- **Counterexample: `lastProcessed` is not monotone**, although entry ids increase (10 < 11):
the DeleteSession entry 10 (of Bob) sets it to 10, the following client entry 11 of session 1
(alice's `PING`) sets it back to 1 — the numeric id of the *session*. -/
theorem C17_lastProcessed_not_monotone :
    let es := [mkE 1 10 ⟨2, 0⟩ "expired", mkE 2 11 ⟨1, 0⟩ "PING x"]
    (resSt (applyEntry exSt (mkE 1 10 ⟨2, 0⟩ "expired"))).lastProcessed = ⟨10, 0⟩ ∧
    (runEntries exSt es).isOk = true ∧ (runSt (runEntries exSt es)).lastProcessed = ⟨1, 0⟩ ∧
    IdsIncreasing 9 es ∧ WfHistory exSt es :=
  ⟨by decide +kernel, by decide +kernel, by decide +kernel, idsIncreasing_of_B (by decide),
   wf_of_B (by decide +kernel)⟩

/-- … while the bound of `C17_lastProcessed_bounded_partial` holds on the same history -/
example : (runSt (runEntries exSt [mkE 1 10 ⟨2, 0⟩ "expired", mkE 2 11 ⟨1, 0⟩ "PING x"])).lastProcessed.id ≤ 11 :=
  (C17_lastProcessed_bounded_partial (n := 9) exSt_inv.sessWf C17_lastProcessed_not_monotone.2.2.2.2
    C17_lastProcessed_not_monotone.2.2.2.1
    ⟨by decide, by
      intro id s hg
      have hm := AMap.mem_of_get hg
      have : ∀ p ∈ exSt.sessions, p.1.id ≤ 9 := by decide
      exact this _ hm⟩
    (run_eq_of_isOk C17_lastProcessed_not_monotone.2.1)).1

/-! ## non-vacuity (audit): every theorem above with hypotheses, instantiated on *reached* states

`Ex.stR` is the result of running the model from the initial state on `Ex.es0`: a Config entry naming an
operator; alice (2), Bob (5) and carol (11) register; alice and Bob join `#c`; alice becomes IRC operator and
GLINEs carol (who is thereby killed, her address 10.0.0.3 banned).  `Ex.stD` is `stR` after the DeleteSession
entry 15 of Bob.  Invariants come from `run_preserves_gp`. -/
namespace Ex
def mk (type id : Nat) (session : Id) (data : String) (addr : String := "") : Entry :=
  { type := type, id := id, session := session, data := data, unixNano := 0, cmid := id, rev := 0,
    remoteAddr := addr, cfg := none }
def es0 : List Entry := [
  { mk 6 1 ⟨0, 0⟩ "…toml…" with rev := 1, cfg := some { operators := [("root", "pw")] } },
  mk 0 2 ⟨0, 0⟩ "authA", mk 2 3 ⟨2, 0⟩ "NICK alice", mk 2 4 ⟨2, 0⟩ "USER al 0 * :Alice",
  mk 0 5 ⟨0, 0⟩ "authB", mk 2 6 ⟨5, 0⟩ "NICK Bob" "10.0.0.2", mk 2 7 ⟨5, 0⟩ "USER bo 0 * :Bob" "10.0.0.2",
  mk 2 8 ⟨2, 0⟩ "JOIN #c", mk 2 9 ⟨5, 0⟩ "JOIN #c" "10.0.0.2", mk 2 10 ⟨2, 0⟩ "OPER root pw",
  mk 0 11 ⟨0, 0⟩ "authC", mk 2 12 ⟨11, 0⟩ "NICK carol" "10.0.0.3", mk 2 13 ⟨11, 0⟩ "USER c 0 * :Carol" "10.0.0.3",
  mk 2 14 ⟨2, 0⟩ "GLINE carol :spam"]
def aliceR : Session := { id := ⟨2, 0⟩, auth := "authA", loggedIn := true, nick := "alice", username := "al", realname := "Alice", channels := ["#c"], lastActivity := 14, lastNonPing := 14, operator := true, created := 2, modes := ['o'], svid := "0", lastClientMessageId := 14, ircPrefix := ⟨"alice", "al", "robust/0x2"⟩ }
def bobR : Session := { id := ⟨5, 0⟩, auth := "authB", loggedIn := true, nick := "Bob", username := "bo", realname := "Bob", channels := ["#c"], lastActivity := 9, lastNonPing := 9, created := 5, svid := "0", lastClientMessageId := 9, ircPrefix := ⟨"Bob", "bo", "robust/0x5"⟩, remoteAddr := "10.0.0.2" }
/-- the state reached from the initial state by `es0` (`run0`) -/
def stR : St :=
  { sessions := [(⟨2, 0⟩, aliceR), (⟨5, 0⟩, bobR)]
    nicks := [("alice", ⟨2, 0⟩), ("bob", ⟨5, 0⟩)]
    channels := [("#c", { name := "#c", nicks := [("alice", { chanop := true }), ("bob", {})], modes := ['n', 't'] })]
    lastProcessed := ⟨2, 0⟩
    config := { revision := 1, operators := [("root", "pw")], banned := [("10.0.0.3", "spam")] } }
theorem run0 : runEntries {} es0 = .ok stR := by
  have h1 : (runEntries {} es0).isOk = true := by decide +kernel
  have h2 : runSt (runEntries {} es0) = stR := by decide +kernel
  rw [← h2]; exact run_eq_of_isOk h1
theorem wf0 : WfHistory {} es0 := wf_of_B (by decide +kernel)
theorem inc0 : IdsIncreasing 0 es0 := idsIncreasing_of_B (by decide)
theorem wfInit : SessWf ({} : St) := SessWf.of_core GPInv_init.ginv.inv.toWInvCore
/-- `stR` is reachable, hence satisfies the full invariant -/
theorem invR : GPInv stR := run_preserves_gp GPInv_init wf0 run0
theorem wfR : SessWf stR := invR.sessWf
theorem aliceR_stored : AMap.get stR.sessions ⟨2, 0⟩ = some aliceR := by decide
theorem bobR_stored : AMap.get stR.sessions ⟨5, 0⟩ = some bobR := by decide

/-- the DeleteSession entry for Bob (what the expiry sweep proposes) and the state after it -/
def eDel : Entry := mk 1 15 ⟨5, 0⟩ "expired"
def stD : St := resSt (applyEntry stR eDel)
theorem eDel_ok : (applyEntry stR eDel).isOk = true := by decide +kernel
theorem eDel_run : applyEntry stR eDel = .ok (stD, resOut (applyEntry stR eDel)) := eq_ok_of_isOk eDel_ok
theorem invD : GPInv stD := applyEntry_preserves_gp stR stD eDel _ invR (entryOk_of_B (by decide)) eDel_run
example : AMap.keys stD.sessions = [⟨2, 0⟩] ∧ stD.lastProcessed = ⟨15, 0⟩ := by decide +kernel

def errOf (r : Except SessErr Session) : Option SessErr :=
  match r with
  | .ok _ => none
  | .error e => some e
theorem error_of_errOf {r : Except SessErr Session} {e : SessErr} (h : errOf r = some e) : r = .error e := by
  cases r with
  | ok s => cases h
  | error e' => simp only [errOf, Option.some.injEq] at h; rw [h]

/-! ### part 1 -/

/-- on `stD`, Bob's id 5 is answered "no such session" (hypothesis of `C17_nosuch_sound`) -/
theorem bob_nosuch : getSession stD ⟨5, 0⟩ = .error .noSuchSession := error_of_errOf (by decide +kernel)
example : AMap.get stD.sessions ⟨5, 0⟩ = none ∧ (⟨5, 0⟩ : Id).id < stD.lastProcessed.id := C17_nosuch_sound stD ⟨5, 0⟩ bob_nosuch
/-- `C17_future_notyet` on `stD`: id 16 is above `lastProcessed = 15` and not stored -/
example : getSession stD ⟨16, 0⟩ = .error .notYetSeen :=
  C17_future_notyet stD ⟨16, 0⟩ (by decide +kernel) (by decide +kernel)
/-- … the hypotheses also hold on `stR` for carol's id 11 — a session that *was* stored and has been killed:
`lastProcessed` is 2 there (alice's client entry came last), so the killed session is reported "not yet seen" -/
example : getSession stR ⟨11, 0⟩ = .error .notYetSeen := C17_future_notyet stR ⟨11, 0⟩ (by decide) (by decide)
/-- `C17_live_found` -/
example : getSession stR ⟨5, 0⟩ = .ok bobR := C17_live_found stR ⟨5, 0⟩ bobR bobR_stored
/-- `C17_cannot_reappear` on `stD` for Bob's id and a CreateSession entry with the next raft index -/
example : (⟨(mk 0 16 ⟨0, 0⟩ "authD").id, 0⟩ : Id) ≠ ⟨5, 0⟩ :=
  C17_cannot_reappear stD ⟨5, 0⟩ bob_nosuch (mk 0 16 ⟨0, 0⟩ "authD") (by decide +kernel) rfl
/-- `C17_expire_exact` on `stR` (expiration 600 s): at `now = 600 s + 12 ns` Bob (last activity 9) is due, alice
(last activity 14) is not -/
example : expireSessions stR 600000000012 = [⟨5, 0⟩] := by decide +kernel
example : (⟨5, 0⟩ : Id) ∈ expireSessions stR 600000000012 :=
  (C17_expire_exact stR 600000000012 ⟨5, 0⟩).2 ⟨bobR, by decide, rfl, by decide⟩
/-- `C17_pseudo_clients_never_expire`: `stR` plus a services pseudo-client `⟨7, 77⟩` whose last activity is the
zero time (not a reached state: pseudo-client ids are `fnv64` hashes, which do not reduce in the kernel) -/
def stP : St := { stR with sessions := stR.sessions ++ [(⟨7, 77⟩, { id := ⟨7, 77⟩, nick := "ChanServ" })] }
example : (⟨7, 77⟩ : Id) ∉ expireSessions stP 1000000000000000 :=
  C17_pseudo_clients_never_expire stP 1000000000000000 ⟨7, 77⟩ (by decide)
example : expireSessions stP 1000000000000000 = [⟨2, 0⟩, ⟨5, 0⟩] := by decide +kernel

/-! ### part 2 -/

/-- `C17_delete_entry_ends_session` on the reached state -/
example : AMap.get stD.sessions ⟨5, 0⟩ = none ∧ AMap.get stD.nicks (nickToLower "Bob") = none ∧
    ∀ lc ch, AMap.get stD.channels lc = some ch → nickToLower "Bob" ∉ AMap.keys ch.nicks :=
  C17_delete_entry_ends_session (e := eDel) (s := bobR) invR.ginv (entryOk_of_B (by decide)) rfl bobR_stored rfl eDel_run
example : AMap.keys stD.nicks = ["alice"] ∧ stD.channels.map (fun c => (c.1, AMap.keys c.2.nicks)) = [("#c", ["alice"])] := by
  decide +kernel

/-- `C17_quit_entry_ends_session`: Bob types QUIT -/
def eQuit : Entry := mk 2 15 ⟨5, 0⟩ "QUIT :bye" "10.0.0.2"
theorem eQuit_ok : (applyEntry stR eQuit).isOk = true := by decide +kernel
example : AMap.get (resSt (applyEntry stR eQuit)).sessions ⟨5, 0⟩ = none ∧
    AMap.get (resSt (applyEntry stR eQuit)).nicks (nickToLower "Bob") = none ∧
    ∀ lc ch, AMap.get (resSt (applyEntry stR eQuit)).channels lc = some ch → nickToLower "Bob" ∉ AMap.keys ch.nicks :=
  C17_quit_entry_ends_session (e := eQuit) (s := bobR) (m := ⟨none, "QUIT", ["bye"]⟩) invR.ginv (entryOk_of_B (by decide)) rfl
    bobR_stored rfl (by decide +kernel) (by decide +kernel) (eq_ok_of_isOk eQuit_ok)

/-- `C17_kill_entry_ends_session`: alice (IRC operator, registered, address not banned) kills Bob -/
def eKill : Entry := mk 2 15 ⟨2, 0⟩ "KILL bob :bye"
theorem eKill_ok : (applyEntry stR eKill).isOk = true := by decide +kernel
example : AMap.get (resSt (applyEntry stR eKill)).sessions ⟨5, 0⟩ = none ∧
    AMap.get (resSt (applyEntry stR eKill)).nicks (nickToLower "bob") = none ∧
    ∀ lc ch, AMap.get (resSt (applyEntry stR eKill)).channels lc = some ch → nickToLower "bob" ∉ AMap.keys ch.nicks :=
  C17_kill_entry_ends_session (e := eKill) (s := aliceR) (m := ⟨none, "KILL", ["bob", "bye"]⟩) (p0 := "bob") (tid := ⟨5, 0⟩)
    invR.ginv (entryOk_of_B (by decide)) rfl aliceR_stored rfl rfl rfl (by decide) (by decide +kernel) (by decide +kernel)
    (by decide) rfl (by decide) (eq_ok_of_isOk eKill_ok)
example : AMap.keys (resSt (applyEntry stR eKill)).sessions = [⟨2, 0⟩] := by decide +kernel

/-- `C17_banned_entry_ends_session`: a line of Bob arrives from the address 10.0.0.3, which alice's GLINE in
`es0` has banned -/
def eBan : Entry := mk 2 15 ⟨5, 0⟩ "PRIVMSG #c :hi" "10.0.0.3"
theorem eBan_ok : (applyEntry stR eBan).isOk = true := by decide +kernel
example : AMap.get (resSt (applyEntry stR eBan)).sessions ⟨5, 0⟩ = none ∧
    AMap.get (resSt (applyEntry stR eBan)).nicks (nickToLower "Bob") = none ∧
    ∀ lc ch, AMap.get (resSt (applyEntry stR eBan)).channels lc = some ch → nickToLower "Bob" ∉ AMap.keys ch.nicks :=
  C17_banned_entry_ends_session (e := eBan) (s := bobR) (m := ⟨none, "PRIVMSG", ["#c", "hi"]⟩) (reason := "spam") invR.ginv
    (entryOk_of_B (by decide)) rfl bobR_stored (by decide +kernel) (by decide) (by decide) (by decide) (eq_ok_of_isOk eBan_ok)
example : AMap.keys (resSt (applyEntry stR eBan)).sessions = [⟨2, 0⟩] ∧
    (resSt (applyEntry stR eBan)).channels.map (fun c => (c.1, AMap.keys c.2.nicks)) = [("#c", ["alice"])] := by decide +kernel

/-- `C17_gone_not_addressed` on `stD` (invariant by preservation) for Bob's id -/
example : ∀ x, AMap.get stD.nicks x ≠ some ⟨5, 0⟩ := C17_gone_not_addressed invD.ginv (by decide +kernel)

/-! ### part 2b -/

/-- `C17_lastProcessed_after` for a DeleteSession entry, a client entry (of session 2) and a CreateSession entry -/
example : stD.lastProcessed = ⟨15, 0⟩ := by
  have h := C17_lastProcessed_after eDel_run
  rw [if_pos (by decide)] at h; exact h
example : (resSt (applyEntry stR eKill)).lastProcessed = ⟨2, 0⟩ := by
  have h := C17_lastProcessed_after (eq_ok_of_isOk eKill_ok)
  rw [if_neg (by decide), if_pos (by decide)] at h; exact h
def eNew : Entry := mk 0 15 ⟨0, 0⟩ "authD"
theorem eNew_ok : (applyEntry stR eNew).isOk = true := by decide +kernel
example : (resSt (applyEntry stR eNew)).lastProcessed = stR.lastProcessed := by
  have h := C17_lastProcessed_after (eq_ok_of_isOk eNew_ok)
  rw [if_neg (by decide), if_neg (by decide)] at h; exact h

/-- `C17_lastProcessed_bounded_partial` along the whole history `es0` from the initial state (`n = 0`) -/
example : stR.lastProcessed.id ≤ 14 ∧ ∀ id s, AMap.get stR.sessions id = some s → id.id ≤ 14 :=
  C17_lastProcessed_bounded_partial (n := 0) wfInit wf0 inc0 ⟨by decide, fun _ _ h => by cases h⟩ run0
/-- the bound `LPBound stR 14` just obtained, as used by the next two examples -/
theorem boundR : stR.lastProcessed.id ≤ 14 ∧ ∀ id s, AMap.get stR.sessions id = some s → id.id ≤ 14 :=
  C17_lastProcessed_bounded_partial (n := 0) wfInit wf0 inc0 ⟨by decide, fun _ _ h => by cases h⟩ run0
/-- `C17_lastProcessed_bounded_step` for entry 15 on the reached state -/
example : stD.lastProcessed.id ≤ 15 ∧ ∀ id s, AMap.get stD.sessions id = some s → id.id ≤ 15 :=
  C17_lastProcessed_bounded_step (e := eDel) (n := 14) wfR (entryOk_of_B (by decide)) boundR (by decide) eDel_run

/-- `C17_nosuch_is_final`: the history `[eDel]` from the reached state (`n = 14`): afterwards Bob's id is answered
"no such session", and no later CreateSession entry (id 16 > 15) can create it again -/
example : (⟨(mk 0 16 ⟨0, 0⟩ "authD").id, 0⟩ : Id) ≠ ⟨5, 0⟩ :=
  C17_nosuch_is_final (st := stR) (st' := stD) (es := [eDel]) (n := 14) wfR (wf_of_B (by decide +kernel))
    (idsIncreasing_of_B (by decide)) boundR (by unfold runEntries; rw [eDel_run]; rfl) ⟨5, 0⟩ bob_nosuch
    (mk 0 16 ⟨0, 0⟩ "authD") (by decide) rfl
end Ex

end Robust.Props.C17
