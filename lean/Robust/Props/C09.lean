import Robust.Store.LevelDB
namespace Robust.Props.C09
end Robust.Props.C09
