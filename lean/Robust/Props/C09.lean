import Robust.Store.Lemmas
/-!
C09: the LevelDB-backed raft `LogStore`/`StableStore` refines two partial maps
(`logView : index → entry`, `stableView : key → value`) under the representation invariant `WF`.
-/
namespace Robust.Props.C09
open Robust Robust.Bytes Robust.Codec Robust.Store

-- the theorem statements carry `WF` hypotheses uniformly, also where a proof does not need them
set_option linter.unusedVariables false

/-! ### keys: order and disjointness -/

theorem C09_be64_lt (a b : Nat) (ha : a < 2^64) (hb : b < 2^64) :
    lexLt (Bytes.be64 a) (Bytes.be64 b) = true ↔ a < b := be64_lt a b ha hb

-- AUDIT: the hypotheses can only hold together when `a = b` (that is the conclusion), so every instance
-- is "degenerate" by design; `Ex` shows one, and that the bounds are needed (`be64` wraps at 2^64).
theorem C09_be64_inj (a b : Nat) (ha : a < 2^64) (hb : b < 2^64)
    (h : Bytes.be64 a = Bytes.be64 b) : a = b := be64_inj a b ha hb h

/-- log entries and stable keys never shadow each other -/
theorem C09_key_disjoint (i : Nat) (k : Bytes) : Bytes.be64 i ≠ stablePrefix ++ k :=
  be64_ne_stable i k

theorem C09_log_key_not_stable (i : Nat) : isStable (Bytes.be64 i) = false := isStable_be64 i

theorem C09_stable_key_is_stable (k : Bytes) : isStable (stablePrefix ++ k) = true :=
  isStable_stable k

/-! ### invariant -/

theorem C09_wf_empty (p : Bool) : WF (Store.empty p) := by
  refine ⟨List.Pairwise.nil, fun k v h => ?_⟩
  cases h

theorem wf_put_log (s : Store) (p : Bool) (f : Fmt) (e : LogEntry) (h : WF s)
    (hi : e.index < 2^64) : WF ⟨kvPut s.kv (be64 e.index) (.log f e), p⟩ :=
  ⟨sorted_kvPut _ _ _ h.1, typed_kvPut_log _ _ _ h.2 hi⟩

theorem C09_wf_storeLogProto (s : Store) (e : LogEntry) (h : WF s) (hi : e.index < 2^64) :
    WF (s.storeLogProto e) := wf_put_log s _ _ e h hi

theorem wf_foldl_put (f : Fmt) (es : List LogEntry) (m : KV) (h : Sorted m ∧ Typed m)
    (hi : ∀ e ∈ es, e.index < 2^64) :
    Sorted (es.foldl (fun kv e => kvPut kv (be64 e.index) (.log f e)) m) ∧
    Typed (es.foldl (fun kv e => kvPut kv (be64 e.index) (.log f e)) m) := by
  induction es generalizing m with
  | nil => exact h
  | cons e es ih =>
    simp only [List.foldl_cons]
    exact ih _ ⟨sorted_kvPut _ _ _ h.1, typed_kvPut_log _ _ _ h.2 (hi e List.mem_cons_self)⟩
      (fun e' he' => hi e' (List.mem_cons_of_mem _ he'))

theorem C09_wf_storeLogs (s : Store) (es : List LogEntry) (h : WF s)
    (hi : ∀ e ∈ es, e.index < 2^64) : WF (s.storeLogs es) :=
  wf_foldl_put _ es s.kv h hi

theorem C09_wf_deleteRange (s : Store) (a b : Nat) (h : WF s) : WF (s.deleteRange a b) :=
  ⟨sorted_filter _ _ h.1, typed_filter _ _ h.2⟩

theorem C09_wf_set (s : Store) (k v : Bytes) (h : WF s) : WF (s.set k v) :=
  ⟨sorted_kvPut _ _ _ h.1, typed_kvPut_raw _ _ _ h.2⟩

/-! ### refinement: reads -/

theorem C09_getLog (s : Store) (i : Nat) (h : WF s) (hi : i < 2^64) :
    s.getLog i = match logView s i with | some e => .ok e | none => .error .notFound := by
  unfold Store.getLog logView
  cases hg : kvGet s.kv (be64 i) with
  | none => rfl
  | some v =>
    obtain ⟨f, e, hv, _⟩ := typed_log_key _ h.2 i hi v (kvGet_some_mem _ _ _ hg)
    subst hv; rfl

theorem C09_get (s : Store) (k : Bytes) (h : WF s) : s.get k = .ok (stableView s k) := by
  unfold Store.get stableView
  cases hg : kvGet s.kv (stablePrefix ++ k) with
  | none => rfl
  | some v =>
    obtain ⟨bs, hv⟩ := typed_stable_key _ h.2 k v (kvGet_some_mem _ _ _ hg)
    subst hv; rfl

/-! ### refinement: writes -/

theorem logView_put_log (s : Store) (p : Bool) (f : Fmt) (e : LogEntry) (hi : e.index < 2^64)
    (i : Nat) (hi' : i < 2^64) :
    logView ⟨kvPut s.kv (be64 e.index) (.log f e), p⟩ i
      = if i = e.index then some e else logView s i := by
  unfold logView
  simp only [kvGet_kvPut]
  by_cases hie : i = e.index
  · subst hie; simp
  · rw [if_neg hie, if_neg (fun hk => hie (be64_inj _ _ hi' hi hk))]

theorem stableView_put_log (s : Store) (p : Bool) (f : Fmt) (e : LogEntry) (k : Bytes) :
    stableView ⟨kvPut s.kv (be64 e.index) (.log f e), p⟩ k = stableView s k := by
  unfold stableView
  rw [kvGet_kvPut_other _ _ _ _ (fun hk => be64_ne_stable _ _ hk.symm)]

theorem C09_storeLogProto_view (s : Store) (e : LogEntry) (h : WF s) (hi : e.index < 2^64)
    (i : Nat) (hi' : i < 2^64) :
    logView (s.storeLogProto e) i = if i = e.index then some e else logView s i :=
  logView_put_log s _ _ e hi i hi'

theorem C09_storeLogProto_stable (s : Store) (e : LogEntry) (h : WF s) (k : Bytes) :
    stableView (s.storeLogProto e) k = stableView s k :=
  stableView_put_log s _ _ e k

theorem storeLogs_cons (s : Store) (e : LogEntry) (es : List LogEntry) :
    s.storeLogs (e :: es)
      = Store.storeLogs ⟨kvPut s.kv (be64 e.index) (.log (fmtOf s.useProto) e), s.useProto⟩ es := rfl

/-- later entries of a batch win -/
theorem C09_storeLogs_view (s : Store) (es : List LogEntry) (h : WF s)
    (hi : ∀ e ∈ es, e.index < 2^64) (i : Nat) (hi' : i < 2^64) :
    logView (s.storeLogs es) i
      = match es.reverse.find? (fun e => e.index == i) with
        | some e => some e
        | none => logView s i := by
  induction es generalizing s with
  | nil => rfl
  | cons e es ih =>
    have he := hi e List.mem_cons_self
    have hes : ∀ e' ∈ es, e'.index < 2^64 := fun e' he' => hi e' (List.mem_cons_of_mem _ he')
    rw [storeLogs_cons, ih _ (wf_put_log s _ _ e h he) hes]
    rw [List.reverse_cons, List.find?_append]
    cases hf : es.reverse.find? (fun e => e.index == i) with
    | some e' => rfl
    | none =>
      simp only [Option.none_or, List.find?_cons, List.find?_nil]
      rw [logView_put_log s _ _ e he i hi']
      by_cases hie : i = e.index
      · subst hie; simp
      · have : (e.index == i) = false := by simpa using fun hh => hie hh.symm
        rw [this, if_neg hie]

theorem storeLogs_stable (s : Store) (es : List LogEntry) (k : Bytes) :
    stableView (s.storeLogs es) k = stableView s k := by
  induction es generalizing s with
  | nil => rfl
  | cons e es ih => rw [storeLogs_cons, ih, stableView_put_log]

theorem C09_storeLogs_stable (s : Store) (es : List LogEntry) (h : WF s) (k : Bytes) :
    stableView (s.storeLogs es) k = stableView s k := storeLogs_stable s es k

theorem C09_set_view (s : Store) (k v : Bytes) (h : WF s) (k' : Bytes) :
    stableView (s.set k v) k' = if k' = k then some v else stableView s k' := by
  unfold stableView Store.set
  simp only [kvGet_kvPut, List.append_cancel_left_eq]
  by_cases hk : k' = k
  · rw [if_pos hk, if_pos hk]
  · rw [if_neg hk, if_neg hk]

theorem C09_set_log (s : Store) (k v : Bytes) (h : WF s) (i : Nat) :
    logView (s.set k v) i = logView s i := by
  unfold logView Store.set
  simp only [kvGet_kvPut_other _ _ _ _ (be64_ne_stable i k)]

theorem C09_uint64_roundtrip (s : Store) (k : Bytes) (v : Nat) (h : WF s) (hv : v < 2^64) :
    (s.setUint64 k v).getUint64 k = .ok v := by
  unfold Store.getUint64 Store.setUint64 Store.set
  simp only [kvGet_kvPut_same, be64_length, if_true, rdBe64_be64' v hv]

theorem C09_getUint64_missing (s : Store) (k : Bytes) (h : WF s) (hm : stableView s k = none) :
    s.getUint64 k = .ok 0 := by
  unfold stableView at hm
  unfold Store.getUint64
  cases hg : kvGet s.kv (stablePrefix ++ k) with
  | none => rfl
  | some v =>
    obtain ⟨bs, hv⟩ := typed_stable_key _ h.2 k v (kvGet_some_mem _ _ _ hg)
    subst hv; rw [hg] at hm; cases hm

theorem be64_lt_decide (a b : Nat) (ha : a < 2^64) (hb : b < 2^64) :
    lexLt (be64 a) (be64 b) = decide (a < b) := by
  rw [Bool.eq_iff_iff, be64_lt a b ha hb]; simp

/-- the keys `DeleteRange(a, b)` keeps -/
def delKeep (a b : Nat) (k : Bytes) : Bool :=
  !(inRange a (if b = 18446744073709551615 then none else some (b + 1)) k && !isStable k)

theorem deleteRange_kv (s : Store) (a b : Nat) :
    (s.deleteRange a b).kv = s.kv.filter (fun e => delKeep a b e.1) := rfl

/-- exactly the indexes in [a,b], including b = 2^64-1 -/
theorem C09_deleteRange_view (s : Store) (a b : Nat) (h : WF s) (ha : a < 2^64) (hb : b < 2^64)
    (i : Nat) (hi : i < 2^64) :
    logView (s.deleteRange a b) i = if a ≤ i ∧ i ≤ b then none else logView s i := by
  unfold logView
  rw [deleteRange_kv, kvGet_filter s.kv (delKeep a b)]
  simp only [delKeep, isStable_be64, inRange, be64_lt_decide i a hi ha, Bool.not_false, Bool.and_true]
  by_cases hb' : b = 18446744073709551615
  · subst hb'
    simp only [if_true, Bool.and_true, Bool.not_not, decide_eq_true_eq]
    by_cases hia : i < a
    · rw [if_pos hia, if_neg (by omega)]
    · rw [if_neg hia, if_pos (by omega)]
  · simp only [if_neg hb', be64_lt_decide i (b + 1) hi (by omega)]
    by_cases hc : a ≤ i ∧ i ≤ b
    · rw [if_pos hc, if_neg]
      have h1 : decide (i < a) = false := by simp; omega
      have h2 : decide (i < b + 1) = true := by simp; omega
      rw [h1, h2]; decide
    · rw [if_neg hc, if_pos]
      by_cases h1 : i < a
      · simp [h1]
      · have h2 : ¬ i < b + 1 := by omega
        simp [h1, h2]

/-- never touches the stable store -/
theorem C09_deleteRange_stable (s : Store) (a b : Nat) (h : WF s) (k : Bytes) :
    stableView (s.deleteRange a b) k = stableView s k := by
  unfold stableView
  rw [deleteRange_kv, kvGet_filter s.kv (delKeep a b)]
  simp only [delKeep, isStable_stable, Bool.not_true, Bool.and_false, Bool.not_false, if_true]

/-! ### first / last index -/

theorem all_stable_of_no_logs (s : Store) (h : WF s)
    (hn : ∀ i, i < 2^64 → logView s i = none) : ∀ p ∈ s.kv, isStable p.1 = true := by
  rintro ⟨k, v⟩ hp
  rcases h.2 k v hp with ⟨i, f, e, hi, hk, hv, _⟩ | ⟨k', bs, hk, _⟩
  · subst hk hv
    have := logView_of_mem s h.1 i f e hp
    rw [hn i hi] at this; cases this
  · subst hk; exact isStable_stable k'

/-- scanning a permutation `l` of the database that is sorted by `R`, the first key after the
leading stable block is a log key `be64 n` that is `R`-extreme among the log keys -/
theorem scan_extreme (s : Store) (h : WF s) (l : KV) (R : Bytes → Bytes → Prop)
    (hl : (l.map (·.1)).Pairwise R) (hmem : ∀ p, p ∈ l ↔ p ∈ s.kv)
    (i : Nat) (e : LogEntry) (hv : logView s i = some e) :
    ∃ n, (match l.dropWhile (fun e => isStable e.1) with
          | [] => .ok 0
          | (k, _) :: _ => keyIndex k) = Except.ok n ∧ n < 2^64 ∧ (logView s n).isSome ∧
      ∀ j, (logView s j).isSome → be64 j = be64 n ∨ R (be64 n) (be64 j) := by
  obtain ⟨f, hm⟩ := logView_eq_some s i e hv
  cases hd : l.dropWhile (fun e => isStable e.1) with
  | nil =>
    have := (dropWhile_eq_nil_iff _ _).1 hd _ ((hmem _).2 hm)
    simp only [isStable_be64] at this
    cases this
  | cons x rest =>
    obtain ⟨k, v⟩ := x
    obtain ⟨h1, h2, h3⟩ := dropWhile_head_least (·.1) R (fun e => isStable e.1) l hl _ _ hd
    obtain ⟨n, f', e', hn, hk, hv', _⟩ := typed_nonstable _ h.2 k v ((hmem _).1 h2) h1
    subst hk hv'
    refine ⟨n, keyIndex_be64 n hn, hn, ?_, fun j hj => ?_⟩
    · rw [logView_of_mem s h.1 n f' e' ((hmem _).1 h2)]; rfl
    · obtain ⟨fj, ej, hmj⟩ := logView_isSome_mem s j hj
      rcases h3 _ ((hmem _).2 hmj) (isStable_be64 j) with h4 | h4
      · exact Or.inl (congrArg Prod.fst h4)
      · exact Or.inr h4

theorem C09_firstIndex (s : Store) (h : WF s) :
    (∀ i, i < 2^64 → logView s i = none) → s.firstIndex = .ok 0 := by
  intro hn
  unfold Store.firstIndex
  rw [(dropWhile_eq_nil_iff _ _).2 (fun p hp => all_stable_of_no_logs s h hn p hp)]

theorem C09_firstIndex_least (s : Store) (h : WF s) (i : Nat) (hi : i < 2^64) (e : LogEntry)
    (hv : logView s i = some e) :
    ∃ n, s.firstIndex = .ok n ∧ n ≤ i ∧ (logView s n).isSome ∧
      ∀ j, j < 2^64 → (logView s j).isSome → n ≤ j := by
  obtain ⟨n, h1, hn, h2, h3⟩ :=
    scan_extreme s h s.kv (fun a b => lexLt a b = true) h.1 (fun _ => Iff.rfl) i e hv
  have key : ∀ j, j < 2^64 → (logView s j).isSome → n ≤ j := by
    intro j hj hs
    rcases h3 j hs with h4 | h4
    · exact Nat.le_of_eq (be64_inj _ _ hj hn h4).symm
    · exact Nat.le_of_lt ((be64_lt n j hn hj).1 h4)
  exact ⟨n, h1, key i hi (by rw [hv]; rfl), h2, key⟩

theorem C09_lastIndex (s : Store) (h : WF s) :
    (∀ i, i < 2^64 → logView s i = none) → s.lastIndex = .ok 0 := by
  intro hn
  unfold Store.lastIndex
  rw [(dropWhile_eq_nil_iff _ _).2
    (fun p hp => all_stable_of_no_logs s h hn p (List.mem_reverse.1 hp))]

theorem C09_lastIndex_greatest (s : Store) (h : WF s) (i : Nat) (hi : i < 2^64) (e : LogEntry)
    (hv : logView s i = some e) :
    ∃ n, s.lastIndex = .ok n ∧ i ≤ n ∧ (logView s n).isSome ∧
      ∀ j, j < 2^64 → (logView s j).isSome → j ≤ n := by
  obtain ⟨n, h1, hn, h2, h3⟩ :=
    scan_extreme s h s.kv.reverse (fun a b => lexLt b a = true)
      (by rw [List.map_reverse, List.pairwise_reverse]; exact h.1)
      (fun _ => List.mem_reverse) i e hv
  have key : ∀ j, j < 2^64 → (logView s j).isSome → j ≤ n := by
    intro j hj hs
    rcases h3 j hs with h4 | h4
    · exact Nat.le_of_eq (be64_inj _ _ hj hn h4)
    · exact Nat.le_of_lt ((be64_lt j n hj hn).1 h4)
  exact ⟨n, h1, key i hi (by rw [hv]; rfl), h2, key⟩

/-! ### conversion JSON → protobuf and reopen keep the abstract contents
(entries decode to the same replicated message) -/

/-- what a reader decodes from the payload of the entry at `idx`: the encoding is forgotten and
the id defaulting of `NewMessageFromBytes` applied -/
def Data.sem (idx : Nat) : Data → Data
  | .msg _ m => .msg .proto (m.withDefaultId idx)
  | .raw bs => .raw bs

def LogEntry.sem (e : LogEntry) : LogEntry := { e with data := Data.sem e.index e.data }

theorem withDefaultId_idem (m : RMsg) (i : Nat) :
    (m.withDefaultId i).withDefaultId i = m.withDefaultId i := by
  unfold RMsg.withDefaultId
  by_cases h : m.id = 0
  · rw [if_pos h]
    by_cases hi : i = 0
    · subst hi; simp
    · simp [hi]
  · rw [if_neg h, if_neg h]

/-- a pending write: replaces the value under an existing log key of `s` by a protobuf-encoded
entry with the same meaning -/
def Good (s : Store) (p : Bytes × Val) : Prop :=
  ∃ f e e', e'.index < 2^64 ∧ p = (be64 e'.index, Val.log .proto e') ∧
    (be64 e'.index, Val.log f e) ∈ s.kv ∧ LogEntry.sem e' = LogEntry.sem e

/-- `db` is a well-formed database with the same abstract contents as `s` -/
def Equiv (s : Store) (db : KV) : Prop :=
  WF ⟨db, s.useProto⟩ ∧
  (∀ i, i < 2^64 →
    (logView ⟨db, s.useProto⟩ i).map LogEntry.sem = (logView s i).map LogEntry.sem) ∧
  ∀ k, stableView ⟨db, s.useProto⟩ k = stableView s k

theorem equiv_refl (s : Store) (h : WF s) : Equiv s s.kv := ⟨h, fun _ _ => rfl, fun _ => rfl⟩

theorem equiv_put (s : Store) (h : WF s) (db : KV) (p : Bytes × Val) (hd : Equiv s db)
    (hp : Good s p) : Equiv s (kvPut db p.1 p.2) := by
  obtain ⟨f, e, e', hi, rfl, hm, hsem⟩ := hp
  obtain ⟨h1, h2, h3⟩ := hd
  refine ⟨wf_put_log ⟨db, s.useProto⟩ _ _ e' h1 hi, fun j hj => ?_, fun k => ?_⟩
  · rw [logView_put_log ⟨db, s.useProto⟩ _ _ e' hi j hj]
    by_cases hje : j = e'.index
    · subst hje
      rw [if_pos rfl, logView_of_mem s h.1 _ f e hm]
      simp only [Option.map_some, hsem]
    · rw [if_neg hje]; exact h2 j hj
  · rw [stableView_put_log ⟨db, s.useProto⟩]; exact h3 k

theorem equiv_flush (s : Store) (h : WF s) (pending : List (Bytes × Val)) (db : KV)
    (hd : Equiv s db) (hp : ∀ p ∈ pending, Good s p) :
    Equiv s (pending.foldl (fun m p => kvPut m p.1 p.2) db) := by
  induction pending generalizing db with
  | nil => exact hd
  | cons p ps ih =>
    simp only [List.foldl_cons]
    exact ih _ (equiv_put s h db p hd (hp p List.mem_cons_self))
      (fun q hq => hp q (List.mem_cons_of_mem _ hq))

theorem convertEntry_good (s : Store) (h : WF s) (k : Bytes) (f : Fmt) (e : LogEntry)
    (hm : (k, Val.log f e) ∈ s.kv) (nv : Val) (hc : convertEntry f e = some (some nv)) :
    Good s (k, nv) := by
  have hk : k = be64 e.index ∧ e.index < 2^64 := by
    rcases h.2 _ _ hm with ⟨i, f', e0, hi, hk, hv, he⟩ | ⟨k', bs, _, hv⟩
    · cases hv; subst he; exact ⟨hk, hi⟩
    · cases hv
  obtain ⟨rfl, hi⟩ := hk
  unfold convertEntry at hc
  split at hc
  · split at hc
    · cases hc; exact ⟨f, e, e, hi, rfl, hm, rfl⟩
    · cases hc
  · split at hc
    · split at hc
      · rename_i g m hdata
        cases hc
        refine ⟨f, e, { e with data := .msg .proto (m.withDefaultId e.index) }, hi, rfl, hm, ?_⟩
        simp only [LogEntry.sem, Data.sem, hdata, withDefaultId_idem]
      · cases hc
    · cases hc

theorem convertLoop_nil (db : KV) (pending : List (Bytes × Val)) :
    convertLoop db pending [] = pending.foldl (fun m p => kvPut m p.1 p.2) db := rfl

theorem convertLoop_cons (db : KV) (pending : List (Bytes × Val)) (k : Bytes) (v : Val)
    (rest : KV) :
    convertLoop db pending ((k, v) :: rest) =
      if isStable k then pending.foldl (fun m p => kvPut m p.1 p.2) db
      else match v with
        | .raw _ => db
        | .log f e =>
          match convertEntry f e with
          | none => db
          | some w =>
            if e.type = 0 && (match w with | some nv => pending ++ [(k, nv)] | none => pending).length > 100 then
              convertLoop ((match w with | some nv => pending ++ [(k, nv)] | none => pending).foldl
                (fun (m : KV) (p : Bytes × Val) => kvPut m p.1 p.2) db) [] rest
            else convertLoop db (match w with | some nv => pending ++ [(k, nv)] | none => pending) rest := rfl

theorem equiv_convertLoop (s : Store) (h : WF s) (rest : KV) (db : KV)
    (pending : List (Bytes × Val)) (hd : Equiv s db) (hp : ∀ p ∈ pending, Good s p)
    (hr : ∀ x ∈ rest, x ∈ s.kv) : Equiv s (convertLoop db pending rest) := by
  induction rest generalizing db pending with
  | nil => rw [convertLoop_nil]; exact equiv_flush s h pending db hd hp
  | cons x rest ih =>
    obtain ⟨k, v⟩ := x
    have hr' : ∀ x ∈ rest, x ∈ s.kv := fun x hx => hr x (List.mem_cons_of_mem _ hx)
    rw [convertLoop_cons]
    split
    · exact equiv_flush s h pending db hd hp
    · split
      · exact hd
      · rename_i f e
        split
        · exact hd
        · rename_i w hw
          have hp' : ∀ p ∈ (match w with | some nv => pending ++ [(k, nv)] | none => pending),
              Good s p := by
            intro p hpm
            cases w with
            | none => exact hp p hpm
            | some nv =>
              rcases List.mem_append.1 hpm with hpm | hpm
              · exact hp p hpm
              · rw [List.mem_singleton.1 hpm]
                exact convertEntry_good s h k f e (hr _ List.mem_cons_self) nv hw
          generalize (match w with | some nv => pending ++ [(k, nv)] | none => pending) = pd
            at hp' ⊢
          split
          · exact ih _ [] (equiv_flush s h pd db hd hp') (fun _ hq => by cases hq) hr'
          · exact ih db pd hd hp' hr'

theorem equiv_convert (s : Store) (h : WF s) : Equiv s s.convertToProto.kv :=
  equiv_convertLoop s h _ s.kv [] (equiv_refl s h) (fun _ hq => by cases hq)
    (fun x hx => List.dropWhile_subset _ hx)

/-! ## the bulk iterator (`GetBulkIterator(start, limit)`, read by FSM.Snapshot, Persist and Restore) -/

/-- a log index is visited iff it is stored and lies in `[start, limit)` -/
theorem C09_bulk_log_mem (s : Store) (a b i : Nat) (ha : a < 2^64) (hb : b < 2^64) (hi : i < 2^64) :
    be64 i ∈ s.bulkKeys a b ↔ (∃ v, (be64 i, v) ∈ s.kv) ∧ a ≤ i ∧ i < b := by
  unfold Store.bulkKeys
  simp only [List.mem_map, List.mem_filter, inRange]
  constructor
  · rintro ⟨e, ⟨hm, hr⟩, he⟩
    refine ⟨⟨e.2, ?_⟩, ?_⟩
    · rw [← he]; exact hm
    · rw [he] at hr
      simp only [be64_lt_decide i a hi ha, be64_lt_decide i b hi hb, Bool.and_eq_true, Bool.not_eq_true', decide_eq_true_eq,
        decide_eq_false_iff_not, Nat.not_lt] at hr
      exact hr
  · rintro ⟨⟨v, hm⟩, h1, h2⟩
    refine ⟨(be64 i, v), ⟨hm, ?_⟩, rfl⟩
    simp only [be64_lt_decide i a hi ha, be64_lt_decide i b hi hb, Bool.and_eq_true, Bool.not_eq_true', decide_eq_true_eq,
      decide_eq_false_iff_not, Nat.not_lt]
    exact ⟨h1, h2⟩

/-- an empty or inverted range visits no log entry: `limit ≤ start` is not "no upper bound" (the snapshot
code passes `last+1` and, when everything was compacted, `first = last+1`) -/
theorem C09_bulk_empty (s : Store) (a b i : Nat) (ha : a < 2^64) (hb : b < 2^64) (hi : i < 2^64) (h : b ≤ a) :
    be64 i ∉ s.bulkKeys a b := by
  rw [C09_bulk_log_mem s a b i ha hb hi]; omega

example : (Store.storeLogs (Store.empty true) [⟨5, 1, 0, .raw [], [], 0, 0⟩, ⟨7, 1, 0, .raw [], [], 0, 0⟩]).bulkKeys 5 7 = [be64 5] := by decide
example : (Store.storeLogs (Store.empty true) [⟨5, 1, 0, .raw [], [], 0, 0⟩, ⟨7, 1, 0, .raw [], [], 0, 0⟩]).bulkKeys 8 8 = [] := by decide

theorem C09_convert_view (s : Store) (h : WF s) (i : Nat) (hi : i < 2^64) :
    (logView s.convertToProto i).map LogEntry.sem = (logView s i).map LogEntry.sem :=
  (equiv_convert s h).2.1 i hi

theorem C09_convert_stable (s : Store) (h : WF s) (k : Bytes) :
    stableView s.convertToProto k = stableView s k :=
  (equiv_convert s h).2.2 k

theorem C09_wf_convert (s : Store) (h : WF s) : WF s.convertToProto :=
  (equiv_convert s h).1

theorem C09_reopen_view (s : Store) (p : Bool) (h : WF s) (i : Nat) (hi : i < 2^64) :
    (logView (s.reopen p) i).map LogEntry.sem = (logView s i).map LogEntry.sem := by
  unfold Store.reopen
  cases p with
  | false => rfl
  | true => exact C09_convert_view ⟨s.kv, true⟩ h i hi

/-! ## non-vacuity -/

namespace Ex

/-- a command whose id is absent (0): the reader defaults it to the raft index -/
def m1 : RMsg := ⟨0, 0, 7, 1, 6, [80, 73, 78, 71], 1700000000000000000, [], [], 99, 0, []⟩
def m2 : RMsg := ⟨6, 0, 7, 2, 6, [74, 79, 73, 78], 1700000001000000000, [], [], 100, 0, []⟩
def e5 : LogEntry := ⟨5, 2, 0, .msg .json m1, [], 1700000000, 5⟩
def e6 : LogEntry := ⟨6, 2, 0, .msg .json m2, [], 1700000001, 0⟩
/-- a raft-internal entry (type 1) with an opaque payload -/
def e7 : LogEntry := ⟨7, 3, 1, .raw [1, 2], [], 1700000002, 0⟩
/-- a second write to index 7 (same batch: the later one wins) -/
def e7b : LogEntry := ⟨7, 4, 1, .raw [3], [], 1700000003, 0⟩
def e9 : LogEntry := ⟨9, 4, 0, .msg .proto m2, [], 1700000004, 0⟩

/-- "CurrentTerm" / "LastVoteCand" / "LastVoteTerm" -/
def kTerm : Bytes := [67, 117, 114, 114, 101, 110, 116, 84, 101, 114, 109]
def kCand : Bytes := [76, 97, 115, 116, 86, 111, 116, 101, 67, 97, 110, 100]
def kVoteTerm : Bytes := [76, 97, 115, 116, 86, 111, 116, 101, 84, 101, 114, 109]

/-- a legacy (JSON) store holding two stable keys and the log entries 5, 6, 7 -/
def s0 : Store :=
  (((Store.empty false).setUint64 kTerm 3).set kCand [110, 49]).storeLogs [e5, e7, e6, e7b]

/-- the invariant of the populated store, obtained by running the operations -/
theorem wf0 : WF s0 :=
  C09_wf_storeLogs _ _ (C09_wf_set _ _ _ (C09_wf_set _ _ _ (C09_wf_empty false))) (by decide)

/-- the database really holds five keys: three log keys first, then two stable keys -/
example : s0.kv.map (·.1) = [be64 5, be64 6, be64 7, stablePrefix ++ kTerm, stablePrefix ++ kCand] := by decide

/-- a store holding only stable keys -/
def sStable : Store := ((Store.empty false).setUint64 kTerm 3).set kCand [110, 49]
theorem wfStable : WF sStable := C09_wf_set _ _ _ (C09_wf_set _ _ _ (C09_wf_empty false))
theorem stable_no_logs : ∀ i, i < 2^64 → logView sStable i = none := by
  intro i _
  show logView (((Store.empty false).set kTerm (be64 3)).set kCand [110, 49]) i = none
  rw [C09_set_log _ _ _ (C09_wf_set _ _ _ (C09_wf_empty false)), C09_set_log _ _ _ (C09_wf_empty false)]
  rfl

/-! keys -/

example : lexLt (be64 255) (be64 256) = true := (C09_be64_lt 255 256 (by decide) (by decide)).2 (by decide)
example : (255 : Nat) < 4294967296 := (C09_be64_lt 255 4294967296 (by decide) (by decide)).1 (by decide)
/-- `C09_be64_inj`: its three hypotheses can only hold together when `a = b` (that is the statement); an
instance with syntactically different arguments … -/
example : 2 + 3 = 5 := C09_be64_inj (2 + 3) 5 (by decide) (by decide) (by decide)
/-- … and the bounds are needed: beyond 64 bits the encoding wraps around -/
example : be64 (18446744073709551616 + 5) = be64 5 := by decide

/-! invariant -/

example : WF (s0.storeLogProto e9) := C09_wf_storeLogProto s0 e9 wf0 (by decide)
example : WF (s0.storeLogs [e9, e5]) := C09_wf_storeLogs s0 [e9, e5] wf0 (by decide)
example : WF (s0.deleteRange 6 7) := C09_wf_deleteRange s0 6 7 wf0
example : WF (s0.set kVoteTerm (be64 2)) := C09_wf_set s0 kVoteTerm (be64 2) wf0

/-! reads -/

example : s0.getLog 6 = (match logView s0 6 with | some e => .ok e | none => .error .notFound) :=
  C09_getLog s0 6 wf0 (by decide)
example : logView s0 6 = some e6 ∧ logView s0 7 = some e7b ∧ logView s0 8 = none := by decide
example : s0.getLog 6 = .ok e6 := (C09_getLog s0 6 wf0 (by decide)).trans rfl
example : s0.getLog 8 = .error .notFound := (C09_getLog s0 8 wf0 (by decide)).trans rfl
example : s0.get kCand = .ok (some [110, 49]) := (C09_get s0 kCand wf0).trans rfl
example : s0.get kVoteTerm = .ok none := (C09_get s0 kVoteTerm wf0).trans rfl

/-! writes -/

example : logView (s0.storeLogProto e9) 9 = some e9 :=
  (C09_storeLogProto_view s0 e9 wf0 (by decide) 9 (by decide)).trans rfl
example : logView (s0.storeLogProto e9) 5 = some e5 :=
  (C09_storeLogProto_view s0 e9 wf0 (by decide) 5 (by decide)).trans (by decide)
example : stableView (s0.storeLogProto e9) kTerm = some (be64 3) :=
  (C09_storeLogProto_stable s0 e9 wf0 kTerm).trans (by decide)

/-- a batch that writes index 7 twice and overwrites the stored entry 5 -/
example : logView (s0.storeLogs [e7, e9, e7b, { e5 with term := 8 }]) 7 = some e7b :=
  (C09_storeLogs_view s0 _ wf0 (by decide) 7 (by decide)).trans (by decide)
example : logView (s0.storeLogs [e7, e9, e7b, { e5 with term := 8 }]) 5 = some { e5 with term := 8 } :=
  (C09_storeLogs_view s0 _ wf0 (by decide) 5 (by decide)).trans (by decide)
example : logView (s0.storeLogs [e7, e9, e7b, { e5 with term := 8 }]) 6 = some e6 :=
  (C09_storeLogs_view s0 _ wf0 (by decide) 6 (by decide)).trans (by decide)
example : stableView (s0.storeLogs [e7, e9]) kCand = some [110, 49] :=
  (C09_storeLogs_stable s0 _ wf0 kCand).trans (by decide)

example : stableView (s0.set kCand [110, 50]) kCand = some [110, 50] :=
  (C09_set_view s0 kCand [110, 50] wf0 kCand).trans (by decide)
example : stableView (s0.set kCand [110, 50]) kTerm = some (be64 3) :=
  (C09_set_view s0 kCand [110, 50] wf0 kTerm).trans (by decide)
example : logView (s0.set kCand [110, 50]) 6 = some e6 := (C09_set_log s0 kCand [110, 50] wf0 6).trans (by decide)

example : (s0.setUint64 kTerm 4).getUint64 kTerm = .ok 4 := C09_uint64_roundtrip s0 kTerm 4 wf0 (by decide)
/-- reading back the value stored when `s0` was built -/
example : s0.getUint64 kTerm = .ok 3 := rfl
example : s0.getUint64 kVoteTerm = .ok 0 := C09_getUint64_missing s0 kVoteTerm wf0 (by decide)

/-! `DeleteRange` -/

example : logView (s0.deleteRange 6 7) 6 = none :=
  (C09_deleteRange_view s0 6 7 wf0 (by decide) (by decide) 6 (by decide)).trans (by decide)
example : logView (s0.deleteRange 6 7) 5 = some e5 :=
  (C09_deleteRange_view s0 6 7 wf0 (by decide) (by decide) 5 (by decide)).trans (by decide)
/-- the upper bound `MaxUint64` (no `max+1`) -/
example : logView (s0.deleteRange 6 18446744073709551615) 7 = none :=
  (C09_deleteRange_view s0 6 18446744073709551615 wf0 (by decide) (by decide) 7 (by decide)).trans (by decide)
example : stableView (s0.deleteRange 0 18446744073709551615) kTerm = some (be64 3) :=
  (C09_deleteRange_stable s0 0 18446744073709551615 wf0 kTerm).trans (by decide)

/-! first / last index -/

/-- no log entries, but a non-empty database (stable keys only) -/
example : sStable.firstIndex = .ok 0 := C09_firstIndex sStable wfStable stable_no_logs
example : sStable.lastIndex = .ok 0 := C09_lastIndex sStable wfStable stable_no_logs
example : sStable.kv.length = 2 := by decide

/-- the same after every entry of the populated store was deleted -/
theorem deleted_no_logs : ∀ i, i < 2^64 → logView (s0.deleteRange 0 18446744073709551615) i = none := by
  intro i hi
  rw [C09_deleteRange_view s0 0 18446744073709551615 wf0 (by decide) (by decide) i hi, if_pos (by omega)]
example : (s0.deleteRange 0 18446744073709551615).firstIndex = .ok 0 :=
  C09_firstIndex _ (C09_wf_deleteRange s0 _ _ wf0) deleted_no_logs
example : (s0.deleteRange 0 18446744073709551615).lastIndex = .ok 0 :=
  C09_lastIndex _ (C09_wf_deleteRange s0 _ _ wf0) deleted_no_logs

example : ∃ n, s0.firstIndex = .ok n ∧ n ≤ 6 ∧ (logView s0 n).isSome ∧
    ∀ j, j < 2^64 → (logView s0 j).isSome → n ≤ j :=
  C09_firstIndex_least s0 wf0 6 (by decide) e6 (by decide)
example : ∃ n, s0.lastIndex = .ok n ∧ 6 ≤ n ∧ (logView s0 n).isSome ∧
    ∀ j, j < 2^64 → (logView s0 j).isSome → j ≤ n :=
  C09_lastIndex_greatest s0 wf0 6 (by decide) e6 (by decide)
/-- the scans skip the stable keys (which sort *after* the log keys) and find 5 and 7 -/
example : s0.firstIndex = .ok 5 ∧ s0.lastIndex = .ok 7 := ⟨rfl, rfl⟩

/-! bulk iterator -/

example : be64 6 ∈ s0.bulkKeys 6 8 :=
  (C09_bulk_log_mem s0 6 8 6 (by decide) (by decide) (by decide)).2 ⟨⟨.log .json e6, by decide⟩, by decide, by decide⟩
example : be64 5 ∉ s0.bulkKeys 6 8 := fun h =>
  absurd ((C09_bulk_log_mem s0 6 8 5 (by decide) (by decide) (by decide)).1 h).2.1 (by decide)
example : s0.bulkKeys 6 8 = [be64 6, be64 7] := by decide
example : be64 6 ∉ s0.bulkKeys 8 6 := C09_bulk_empty s0 8 6 6 (by decide) (by decide) (by decide) (by decide)
example : be64 6 ∉ s0.bulkKeys 6 6 := C09_bulk_empty s0 6 6 6 (by decide) (by decide) (by decide) (by decide)

/-! conversion and reopen -/

example : (logView s0.convertToProto 5).map LogEntry.sem = (logView s0 5).map LogEntry.sem :=
  C09_convert_view s0 wf0 5 (by decide)
/-- the conversion really rewrites the entry (new encoding, id defaulted to the index), so the
equality above is not an equality of identical stores -/
example : logView s0.convertToProto 5 = some { e5 with data := .msg .proto { m1 with id := 5 } } ∧
    logView s0.convertToProto 5 ≠ logView s0 5 ∧
    s0.convertToProto.kv.map (·.2) ≠ s0.kv.map (·.2) := by decide
example : stableView s0.convertToProto kCand = some [110, 49] := (C09_convert_stable s0 wf0 kCand).trans (by decide)
example : WF s0.convertToProto := C09_wf_convert s0 wf0
example : (logView (s0.reopen true) 6).map LogEntry.sem = (logView s0 6).map LogEntry.sem :=
  C09_reopen_view s0 true wf0 6 (by decide)
example : logView (s0.reopen true) 6 = some { e6 with data := .msg .proto m2 } := by decide
example : (logView (s0.reopen false) 6).map LogEntry.sem = (logView s0 6).map LogEntry.sem :=
  C09_reopen_view s0 false wf0 6 (by decide)

end Ex

end Robust.Props.C09
