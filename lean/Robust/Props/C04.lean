import Robust.Stream.ResumeLemmas
/-!
C04 — resume exactly-once: a client that reconnects with `lastseen = (id, reply)` receives
exactly the messages positioned after `(id, reply)`, in order, whatever the lag of the node it
connects to and wherever earlier connections were cut.
-/
namespace Robust.Props.C04
open Robust.Stream.Resume

/-- the stream a client that has received everything up to (i,r) is still owed -/
def owed (net : Net) (i r : Nat) : List M := (flat net).filter (after i r)

/-- (1) one connection delivers a prefix of what is owed: in order, nothing skipped, nothing
twice; whatever the node's lag. (`hf` is not used: a node that reports `found` for a batch that
is not in `net` behaves like one that did not find it.) -/
theorem C04_conn_prefix (net : Net) (h : WfNet net) (found : Bool) (i r : Nat) (hi : 0 < i)
    (_hf : found = true → (getBatch net i).isSome) (k : Nat) :
    ∃ n, conn net found i r k = (owed net i r).take n := by
  obtain ⟨hinit, hinv⟩ := connInit_spec h found i r hi
  obtain ⟨n, hn⟩ := connRun_prefix h k _ hinv
  refine ⟨(connInit net found i r).2.length + n, ?_⟩
  rw [conn_eq, owed, hinit, hn, List.take_length_add_append]

/-- (2) with `net.length + 2` loop iterations everything owed is delivered: the state machine
loses nothing and blocks only when nothing is owed. -/
theorem C04_conn_complete (net : Net) (h : WfNet net) (found : Bool) (i r : Nat) (hi : 0 < i)
    (_hf : found = true → (getBatch net i).isSome) :
    conn net found i r (net.length + 2) = owed net i r := by
  obtain ⟨hinit, hinv⟩ := connInit_spec h found i r hi
  have hfuel := fuel_le_length net (connInit net found i r).1
  rw [conn_eq, owed, hinit, connRun_complete h _ _ hinv (by omega)]

/-- more iterations change nothing -/
theorem C04_conn_complete_ge (net : Net) (h : WfNet net) (found : Bool) (i r : Nat) (hi : 0 < i)
    (k : Nat) (hk : net.length + 2 ≤ k) : conn net found i r k = owed net i r := by
  obtain ⟨hinit, hinv⟩ := connInit_spec h found i r hi
  have hfuel := fuel_le_length net (connInit net found i r).1
  rw [conn_eq, owed, hinit, connRun_complete h _ _ hinv (by omega)]

/-- (3, exact form) a node that already stores the resume batch is exactly one loop iteration
ahead of a node that does not: same output stream. -/
theorem C04_lag_shift (net : Net) (h : WfNet net) (i r : Nat) (hi : 0 < i)
    (hf : (getBatch net i).isSome) (k : Nat) :
    conn net true i r k = conn net false i r (k + 1) :=
  conn_lag_shift h i r hi hf k

/-- (3) the lag of the node does not matter at all -/
theorem C04_lag_irrelevant (net : Net) (h : WfNet net) (i r : Nat) (hi : 0 < i)
    (hf : (getBatch net i).isSome) (k : Nat) :
    conn net true i r (k + 1) = conn net false i r (k + 1) ∨
      ∃ n m, conn net true i r k = (owed net i r).take n ∧
        conn net false i r k = (owed net i r).take m := by
  obtain ⟨n, hn⟩ := C04_conn_prefix net h true i r hi (fun _ => hf) k
  obtain ⟨m, hm⟩ := C04_conn_prefix net h false i r hi (fun hc => nomatch hc) k
  exact Or.inr ⟨n, m, hn, hm⟩

/-- (3') both nodes deliver the same complete stream -/
theorem C04_lag_irrelevant_complete (net : Net) (h : WfNet net) (i r : Nat) (hi : 0 < i) :
    conn net true i r (net.length + 2) = conn net false i r (net.length + 2) := by
  rw [C04_conn_complete_ge net h true i r hi _ (Nat.le_refl _),
    C04_conn_complete_ge net h false i r hi _ (Nat.le_refl _)]

/-! ## client level -/

/-- position of the last received message, or the start position -/
def lastPos (start : Nat × Nat) (received : List M) : Nat × Nat :=
  match received.getLast? with
  | some m => (m.id, m.reply)
  | none => start

/-- run the connections described by `cuts` (one (found, cut) pair per connection) -/
def client (net : Net) (session : Nat) (start : Nat × Nat) : List (Bool × Nat) → List M → List M
  | [], received => received
  | (found, cut) :: rest, received =>
    let p := lastPos start received
    let node_has := found && (getBatch net p.1).isSome
    let got := ((conn net node_has p.1 p.2 (net.length + 2)).take cut).filter (interesting session)
    client net session start rest (received ++ got)

/-- invariant of the reconnect loop: what the client holds, followed by what it is owed from its
current resume position, is what it was owed at the start -/
private def Good (net : Net) (session : Nat) (start : Nat × Nat) (received : List M) : Prop :=
  0 < (lastPos start received).1 ∧
    (owed net start.1 start.2).filter (interesting session)
      = received ++ (owed net (lastPos start received).1 (lastPos start received).2).filter
          (interesting session)

private theorem good_step (net : Net) (h : WfNet net) (session : Nat) (start : Nat × Nat)
    (received : List M) (hg : Good net session start received) (cut : Nat) :
    Good net session start
      (received ++ ((owed net (lastPos start received).1 (lastPos start received).2).take cut).filter
        (interesting session)) := by
  obtain ⟨hpos, heq⟩ := hg
  unfold Good
  generalize hp : lastPos start received = p at hpos heq ⊢
  cases hlast : (((owed net p.1 p.2).take cut).filter (interesting session)).getLast? with
  | none =>
    have hnil := List.getLast?_eq_none_iff.1 hlast
    rw [hnil, List.append_nil, hp]
    exact ⟨hpos, heq⟩
  | some m =>
    have hlp : lastPos start
        (received ++ ((owed net p.1 p.2).take cut).filter (interesting session)) = (m.id, m.reply) := by
      simp only [lastPos, List.getLast?_append, hlast]
      rfl
    rw [hlp]
    obtain ⟨ham, hres⟩ := resume_after_cut h p.1 p.2 (interesting session) cut m hlast
    refine ⟨Nat.lt_of_lt_of_le hpos (after_id_le ham), ?_⟩
    show _ = _ ++ ((flat net).filter (after m.id m.reply)).filter (interesting session)
    rw [hres, heq, List.append_assoc, ← List.filter_append]
    show _ = received ++ ((owed net p.1 p.2).take cut ++ (owed net p.1 p.2).drop cut).filter _
    rw [List.take_append_drop]

private theorem client_good (net : Net) (h : WfNet net) (session : Nat) (start : Nat × Nat)
    (cuts : List (Bool × Nat)) :
    ∀ received, Good net session start received →
      ∃ n, client net session start cuts received
        = ((owed net start.1 start.2).filter (interesting session)).take n := by
  induction cuts with
  | nil =>
    intro received hg
    refine ⟨received.length, ?_⟩
    rw [hg.2, List.take_left']
    · rfl
    · rfl
  | cons c rest ih =>
    intro received hg
    obtain ⟨found, cut⟩ := c
    simp only [client]
    rw [C04_conn_complete net h _ _ _ hg.1 (by
      intro hc
      simp only [Bool.and_eq_true] at hc
      exact hc.2)]
    exact ih _ (good_step net h session start received hg cut)

/-- (4) over any number of connections, each resuming at the last received message, served by a
node of arbitrary lag and cut after an arbitrary number of messages, the client has received a
prefix of what it is owed (filtered to its session): in order, none missing, none twice. -/
theorem C04_client_exactly_once (net : Net) (h : WfNet net) (session : Nat) (start : Nat × Nat)
    (hs : 0 < start.1) (cuts : List (Bool × Nat)) :
    ∃ n, client net session start cuts []
      = ((owed net start.1 start.2).filter (interesting session)).take n :=
  client_good net h session start cuts [] ⟨hs, by simp [lastPos]⟩

/-- (4') progress: a connection that is not cut (cut ≥ everything owed) completes the client's stream -/
theorem C04_client_complete (net : Net) (h : WfNet net) (session : Nat) (start : Nat × Nat)
    (hs : 0 < start.1) (found : Bool) :
    client net session start [(found, (flat net).length)] []
      = (owed net start.1 start.2).filter (interesting session) := by
  simp only [client, lastPos, List.getLast?_nil, List.nil_append]
  rw [C04_conn_complete net h _ _ _ hs (by
    intro hc
    simp only [Bool.and_eq_true] at hc
    exact hc.2)]
  rw [List.take_of_length_le]
  exact List.length_filter_le _ _

/-! ## non-vacuity -/

private def m (i r : Nat) (rc : List Nat) : M := ⟨i, r, rc⟩

/-- three batches: ids 2, 5, 6 -/
private def net3 : Net :=
  [[m 2 1 [1], m 2 2 [2], m 2 3 [1]], [m 5 1 [2]], [m 6 1 [1], m 6 2 [1, 2]]]

private theorem net3_wf : WfNet net3 := by
  refine ⟨?_, by decide⟩
  intro b hb
  simp only [net3, List.mem_cons, List.not_mem_nil, or_false] at hb
  rcases hb with rfl | rfl | rfl <;> refine ⟨by decide, ?_⟩ <;> intro j hj <;>
    simp only [List.length_cons, List.length_nil] at hj
  · have : j = 0 ∨ j = 1 ∨ j = 2 := by omega
    rcases this with rfl | rfl | rfl <;> exact ⟨rfl, rfl⟩
  · have : j = 0 := by omega
    subst this; exact ⟨rfl, rfl⟩
  · have : j = 0 ∨ j = 1 := by omega
    rcases this with rfl | rfl <;> exact ⟨rfl, rfl⟩

/-- resuming inside batch 2 after reply 1, on a lagging node and on an up-to-date node -/
example : conn net3 false 2 1 5 = [m 2 2 [2], m 2 3 [1], m 5 1 [2], m 6 1 [1], m 6 2 [1, 2]] := by
  decide
example : conn net3 true 2 1 5 = owed net3 2 1 := by decide
example : conn net3 true 2 1 1 = [m 2 2 [2], m 2 3 [1], m 5 1 [2]] := by decide
example : conn net3 false 2 1 1 = [m 2 2 [2], m 2 3 [1]] := by decide
/-- resume at an id that is not a batch id (between 2 and 5) -/
example : conn net3 false 3 7 5 = [m 5 1 [2], m 6 1 [1], m 6 2 [1, 2]] := by decide
/-- client of session 1: cut inside batch 2, then cut after batch 5, then uncut -/
example : client net3 1 (1, 0) [(true, 2), (false, 2), (true, 9)] []
    = [m 2 1 [1], m 2 3 [1], m 6 1 [1], m 6 2 [1, 2]] := by decide
example : ∃ n, client net3 1 (1, 0) [(true, 2), (false, 2), (true, 9)] []
    = ((owed net3 1 0).filter (interesting 1)).take n :=
  C04_client_exactly_once net3 net3_wf 1 (1, 0) (by decide) _

/-- `hi : 0 < i` is necessary: resuming at id 0 on a node that has not found batch 0 skips the
rest of batch 0 -/
private def net0 : Net := [[m 0 1 [1], m 0 2 [1]]]
example : conn net0 false 0 1 3 = [] ∧ owed net0 0 1 = [m 0 2 [1]] := by decide

end Robust.Props.C04
