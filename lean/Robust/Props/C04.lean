import Robust.Stream.Resume
namespace Robust.Props.C04
end Robust.Props.C04
