import Robust.Props.C14
import Robust.Irc.Proofs.RcptCheck
/-!
# C14 — the example state of `C14_services_refused_at_channel_limit` satisfies the proved invariant

Kept apart from `C14.lean` because the checker `ginvB` (with its soundness proof `ginv_of_ginvB`) lives in the C12
development (`RcptCheck.lean`).
-/
namespace Robust.Props.C14
open Robust Robust.Irc

/-- the example state satisfies the full invariant `GInv` (and the identity invariant of C12) -/
theorem C14_cex_state_consistent : GInv cexSt := (ginv_of_ginvB (st := cexSt) (by decide)).ginv

/-- **services SVSJOIN / JOIN are refused at the channel limit in a state satisfying the invariant**: `GInv cexSt`,
the number of channels is at the limit (`MaxChannels = 1`, one channel), and both `SVSJOIN alice #new` and
`:ChanServ JOIN #new` of the services link are answered with `403` to the services link only, create nothing, and
leave the limit respected -/
theorem C14_services_refused_at_channel_limit_consistent :
    GInv cexSt ∧ ChannelsWithinLimit cexSt ∧ cexSt.channels.length = cexSt.config.maxChannels ∧
    (match cmdServerSvsjoin ⟨cexSt, 1, 0, []⟩ ⟨9, 0⟩ cexSvsjoin with
     | .ok c' => decide (c'.st.channels.length = 1 ∧ c'.st.config.maxChannels = 1 ∧
         c'.out = [⟨1, 1, utf8 ":robustirc.net 403 services.example #new :No such channel", [9]⟩])
     | _ => false) = true ∧
    (match cmdServerJoin ⟨cexSt, 1, 0, []⟩ ⟨9, 0⟩ cexJoin with
     | .ok c' => decide (c'.st.channels.length = 1 ∧ c'.st.config.maxChannels = 1 ∧
         c'.out = [⟨1, 1, utf8 ":robustirc.net 403 ChanServ #new :No such channel", [9]⟩])
     | _ => false) = true ∧
    (match cmdServerSvsjoin ⟨cexSt, 1, 0, []⟩ ⟨9, 0⟩ cexSvsjoin with
     | .ok c' => ChannelsWithinLimit c'.st
     | _ => False) ∧
    (match cmdServerJoin ⟨cexSt, 1, 0, []⟩ ⟨9, 0⟩ cexJoin with
     | .ok c' => ChannelsWithinLimit c'.st
     | _ => False) :=
  ⟨C14_cex_state_consistent, C14_services_refused_at_channel_limit.2.1, rfl,
    C14_services_refused_at_channel_limit.2.2⟩

end Robust.Props.C14
