import Robust.Irc.Proofs.Clean
import Robust.Irc.Proofs.CleanEntry
import Robust.Gen.Exprs
/-!
# C15 — every line sent to clients is a single well-formed IRC line

"Every line sent to clients is a single well-formed IRC line: at most 510 bytes, containing no
LF, CR or NUL byte, starting with a prefix and a command; text posted by one client cannot
smuggle a second protocol line (CR/LF injection)."

* `IrcMsg.render` models `irc.Message.Bytes` (UTF-8 bytes truncated to 510).
* `parseMessage` models `irc.ParseMessage`.
* `firstLine` models the Go helper of the HTTP handlers that cuts the posted text at the first
  CR, LF or NUL.

Byte level (first half of the file): rendering, parsing, the cut.

State level (second half): handlers build lines from strings *stored* in the state, so a dirty string
stored earlier could surface later.  `CInv st` (`Proofs/CleanInv.lean`) says that every stored string
that can reach a line is clean: of every session `nick`, `username`, `realname`, `awayMsg`, `svid`,
`pass`, `ircPrefix.{name,user,host}`; of every channel `name`, `topicNick`, `topic`, `key`, the masks
of its bans; the `reason` of every SVSHOLD; the GLINE reasons `config.banned`; `serverName`.
(Not included, because the proofs show that no handler copies them into a line: `Session.auth`,
`Session.remoteAddr`, `Ban.re`, the lower-cased map keys and `channels` / `invitedTo` lists, the
other `Config` strings.)  All 41 handlers of `handlerByName`, the three stages of `processMessage`,
`applyEntry` for every entry type and every history keep `CInv` and emit only clean lines, provided
the text of the entries is clean (`CleanEntry`) — which the HTTP handlers' `firstLine` cut guarantees.
-/
namespace Robust.Props.C15
open Robust Robust.Irc

/-- at most 510 bytes -/
theorem C15_render_len (m : IrcMsg) : m.render.length ≤ 510 := by
  unfold IrcMsg.render
  simp only [List.length_take]
  exact Nat.min_le_left _ _

/-- UTF-8 never produces 0x00/0x0A/0x0D for other code points -/
theorem C15_utf8_clean (s : String) (h : Clean s) : CleanBytes (utf8 s) := utf8_clean s h

/-- a clean message renders to a line without CR/LF/NUL -/
theorem C15_render_clean (m : IrcMsg) (h : CleanMsg m) : CleanBytes m.render := render_clean m h

/-- shape: `[':' prefix SP] command …` -/
theorem C15_render_shape (m : IrcMsg) : ∃ rest : String, m.render =
    (utf8 ((match m.pfx with | some p => ":" ++ p.str ++ " " | none => "") ++ m.command ++ rest)).take 510 := by
  refine ⟨(if m.params.length > 1 then " " ++ joinStr " " m.params.dropLast else "") ++
    (match m.params.getLast? with
      | none => ""
      | some t =>
        " " ++ (if (t.isEmpty || t.toList.contains ' ' || t.toList.head? == some ':') then ":" else "") ++ t), ?_⟩
  unfold IrcMsg.render
  simp only []
  rw [String.append_assoc (s₁ := _ ++ m.command)]
  rfl

theorem C15_upper_clean : ∀ c : Char, cleanChar c = true → cleanChar (upperChar c) = true :=
  upperChar_clean

theorem C15_lower_clean : ∀ c : Char, cleanChar c = true → cleanChar (lowerChar c) = true :=
  lowerChar_clean

/-- parsing a clean line yields clean prefix/command/params -/
theorem C15_parse_clean (raw : String) (m : IrcMsg) (h : Clean raw) (hp : parseMessage raw = some m) :
    CleanMsg m := parseMessage_clean raw m h hp

theorem C15_firstLine_clean (s : String) : Clean (firstLine s) := firstLine_clean s
theorem C15_firstLine_id (s : String) (h : Clean s) : firstLine s = s := firstLine_id s h
/-- it only cuts, never rewrites -/
theorem C15_firstLine_prefix (s : String) : (firstLine s).toList <+: s.toList := firstLine_prefix s

/-- what a client posts, after the handler's cut and the parser, is a clean message -/
theorem C15_posted_line (body : String) (m : IrcMsg) (hp : parseMessage (firstLine body) = some m) :
    CleanMsg m := C15_parse_clean _ m (C15_firstLine_clean body) hp

/-- end to end: the posted text, cut, parsed and rendered again (as the server does when relaying),
is one line of at most 510 bytes without CR/LF/NUL -/
theorem C15_posted_rendered (body : String) (m : IrcMsg) (hp : parseMessage (firstLine body) = some m) :
    CleanBytes m.render ∧ m.render.length ≤ 510 :=
  ⟨C15_render_clean m (C15_posted_line body m hp), C15_render_len m⟩

/-! ## state level: stored strings stay clean, every emitted line is clean -/

/-- the empty initial state satisfies the invariant -/
theorem C15_init : CInv ({} : St) := CInv_init

/-- Handler level.  For every handler `h` of the command table (`handlerByName`, client and services
handlers alike): if every stored string is clean (`CInv c.st`), everything emitted so far is one clean
line of at most 510 bytes, and the incoming message is clean (prefix, command, parameters), then after
`h` every stored string is clean again and *every* output — old and new — is one clean line of at most
510 bytes. -/
theorem C15_handler_clean (fname : String) (h : Handler) (hh : handlerByName fname = some h)
    (c c' : Ctx) (sid : Id) (m : IrcMsg) (hI : CInv c.st)
    (hO : ∀ o ∈ c.out, CleanBytes o.data ∧ o.data.length ≤ 510) (hm : CleanMsg m)
    (hr : h c sid m = .ok c') :
    CInv c'.st ∧ ∀ o ∈ c'.out, CleanBytes o.data ∧ o.data.length ≤ 510 :=
  have hc := handler_cpres hh c sid m c' ⟨hI, hO⟩ hm hr
  ⟨hc.inv, hc.out⟩

/-- `ProcessMessage` (remote-address bookkeeping and GLINE ban, the 451 / 421 / 461 replies, the
"not registered within 10 minutes" and "You are banned" ERROR lines, `deleteSession`, the handler) keeps
the invariant and emits only clean lines when the parsed line, if there is one, is clean. -/
theorem C15_processMessage_clean (c c' : Ctx) (e : Entry) (im : Option IrcMsg) (hI : CInv c.st)
    (hO : ∀ o ∈ c.out, CleanBytes o.data ∧ o.data.length ≤ 510) (him : ∀ m, im = some m → CleanMsg m)
    (hr : processMessage c e im = .ok c') :
    CInv c'.st ∧ ∀ o ∈ c'.out, CleanBytes o.data ∧ o.data.length ≤ 510 :=
  have hc := processMessage_clean ⟨hI, hO⟩ him hr
  ⟨hc.inv, hc.out⟩

/-- One committed entry of any type keeps every stored string clean, provided the text it carries is
clean (`CleanEntry`: `Clean e.data` for IRCFromClient and DeleteSession entries, clean GLINE reasons for
Config entries; nothing for CreateSession / MessageOfDeath entries, nothing about `remoteAddr`). -/
theorem C15_state_clean_step (st st' : St) (e : Entry) (out : List Out) (h : CInv st) (he : CleanEntry e)
    (hr : applyEntry st e = .ok (st', out)) : CInv st' :=
  (applyEntry_clean st st' e out h he hr).1

/-- … and every line of the output batch it produces is one IRC line: no CR, LF or NUL byte, at most
510 bytes. -/
theorem C15_outputs_clean (st st' : St) (e : Entry) (out : List Out) (h : CInv st) (he : CleanEntry e)
    (hr : applyEntry st e = .ok (st', out)) : ∀ o ∈ out, CleanBytes o.data ∧ o.data.length ≤ 510 :=
  (applyEntry_clean st st' e out h he hr).2

/-- Entries as the HTTP API builds them: the text of an IRCFromClient / DeleteSession entry is
`firstLine` of what the client posted (`C15_handlers_cut` below), hence clean whatever was posted. -/
theorem C15_api_entry_clean (e : Entry) (body : String) (hd : e.data = firstLine body) (ht : e.type ≠ 6) :
    CleanEntry e :=
  ⟨fun _ => hd ▸ firstLine_clean body, fun h6 => absurd h6 ht⟩

/-- End to end for one posted line: whatever a client posts (any string: control characters, very
long, non-ASCII), in every state whose stored strings are clean, every line delivered as a result is one
IRC line of at most 510 bytes without CR / LF / NUL, and the stored strings stay clean. -/
theorem C15_posted_outputs_clean (st st' : St) (e : Entry) (body : String) (out : List Out) (h : CInv st)
    (ht : e.type = 1 ∨ e.type = 2) (hd : e.data = firstLine body) (hr : applyEntry st e = .ok (st', out)) :
    CInv st' ∧ ∀ o ∈ out, CleanBytes o.data ∧ o.data.length ≤ 510 :=
  applyEntry_clean st st' e out h
    (C15_api_entry_clean e body hd (by rcases ht with ht | ht <;> rw [ht] <;> decide)) hr

/-- Histories: starting from the empty state, after any history of entries with clean text every
stored string is clean (no well-formedness hypothesis is needed). -/
theorem C15_history_clean (es : List Entry) (st : St) (hw : CleanHistory es)
    (hr : runEntries {} es = .ok st) : CInv st :=
  run_clean CInv_init hw hr

/-- … and every line of every output batch produced along the way (`runLines` collects them in order) is
one clean line of at most 510 bytes. -/
theorem C15_history_outputs_clean (es : List Entry) (st : St) (outs : List Out) (hw : CleanHistory es)
    (hr : runLines {} es = .ok (st, outs)) :
    CInv st ∧ ∀ o ∈ outs, CleanBytes o.data ∧ o.data.length ≤ 510 :=
  runLines_clean CInv_init hw hr

/-- `runLines` and `runEntries` agree on the final state -/
theorem C15_runLines_state (st st' : St) (es : List Entry) (outs : List Out)
    (hr : runLines st es = .ok (st', outs)) : runEntries st es = .ok st' := runLines_state hr

/-- The quantifier of the property: in every state reachable from the empty one by a history of clean
entries, for every POST body, every line delivered as a result of posting it is one clean IRC line. -/
theorem C15_reachable_posted (es : List Entry) (st st' : St) (e : Entry) (body : String) (out : List Out)
    (hw : CleanHistory es) (hrun : runEntries {} es = .ok st) (ht : e.type = 1 ∨ e.type = 2)
    (hd : e.data = firstLine body) (hr : applyEntry st e = .ok (st', out)) :
    ∀ o ∈ out, CleanBytes o.data ∧ o.data.length ≤ 510 :=
  (C15_posted_outputs_clean st st' e body out (C15_history_clean es st hw hrun) ht hd hr).2

/-! ### non-vacuity of the state-level theorems -/

/-- two logged-in clients in `#c` -/
def demoSt : St :=
  { sessions := [(⟨1, 0⟩, { id := ⟨1, 0⟩, loggedIn := true, nick := "alice", username := "a",
                            ircPrefix := ⟨"alice", "a", "robust/0x1"⟩, channels := ["#c"] }),
                 (⟨2, 0⟩, { id := ⟨2, 0⟩, loggedIn := true, nick := "bob", username := "b",
                            ircPrefix := ⟨"bob", "b", "robust/0x2"⟩, channels := ["#c"] })],
    nicks := [("alice", ⟨1, 0⟩), ("bob", ⟨2, 0⟩)],
    channels := [("#c", { name := "#c", nicks := [("alice", { chanop := true }), ("bob", {})], modes := ['n', 't'] })] }

/-- an IRCFromClient entry of session 1 -/
def demoEntry (data : String) : Entry :=
  { type := 2, id := 10, session := ⟨1, 0⟩, data := data, unixNano := 0, cmid := 1, rev := 0, remoteAddr := "",
    cfg := none }

def outData (r : Res (St × List Out)) : List Bytes :=
  match r with
  | .ok (_, out) => out.map (·.data)
  | _ => []

theorem demoSt_clean : CInv demoSt := by
  refine ⟨?_, ?_, (fun _ h => nomatch h), (fun _ h => nomatch h), by decide⟩
  · intro e he
    simp only [demoSt, List.mem_cons, List.not_mem_nil, or_false] at he
    rcases he with rfl | rfl <;> (constructor <;> decide)
  · intro e he
    simp only [demoSt, List.mem_cons, List.not_mem_nil, or_false] at he
    subst he
    exact ⟨by decide, by decide, by decide, by decide, (fun _ h => nomatch h)⟩

theorem demoEntry_clean : CleanEntry (demoEntry "PRIVMSG #c :hi there") :=
  ⟨fun _ => by decide, fun h => absurd h (by decide)⟩

/-- the clean posted line is relayed to bob as exactly one line … -/
theorem demo_relay : outData (applyEntry demoSt (demoEntry "PRIVMSG #c :hi there"))
    = [utf8 ":alice!a@robust/0x1 PRIVMSG #c :hi there"] := by decide +kernel

/-- … and the theorem applies to it: the hypotheses of `C15_outputs_clean` are satisfiable and its
conclusion speaks about a non-empty batch -/
example : ∃ st' out, applyEntry demoSt (demoEntry "PRIVMSG #c :hi there") = .ok (st', out) ∧ out ≠ [] ∧
    ∀ o ∈ out, CleanBytes o.data ∧ o.data.length ≤ 510 := by
  cases hr : applyEntry demoSt (demoEntry "PRIVMSG #c :hi there") with
  | ok r =>
    obtain ⟨st', out⟩ := r
    refine ⟨st', out, rfl, ?_, C15_outputs_clean demoSt st' _ out demoSt_clean demoEntry_clean hr⟩
    intro hnil
    have h := demo_relay
    rw [hr, hnil] at h
    cases h
  | panic s => have h := demo_relay; rw [hr] at h; cases h
  | declined s => have h := demo_relay; rw [hr] at h; cases h

/-- the hypothesis `Clean e.data` cannot be dropped: an entry whose text contains a CR — which the API's
`firstLine` cut excludes, see `C15_firstLine_clean` / `C15_api_entry_clean` — violates `CleanEntry` … -/
example : ¬ CleanEntry (demoEntry "PRIVMSG #c :hi\rQUIT") :=
  fun h => absurd (h.data (Or.inr rfl)) (by decide)

/-- … and the state machine would indeed relay the CR verbatim to bob -/
example : outData (applyEntry demoSt (demoEntry "PRIVMSG #c :hi\rQUIT"))
      = [utf8 ":alice!a@robust/0x1 PRIVMSG #c hi\rQUIT"] ∧
    ¬ CleanBytes (utf8 ":alice!a@robust/0x1 PRIVMSG #c hi\rQUIT") := by
  constructor
  · decide +kernel
  · decide +kernel

/-- with the cut, the same POST body yields a clean entry and a clean relayed line -/
example : (demoEntry (firstLine "PRIVMSG #c :hi\rQUIT")).data = "PRIVMSG #c :hi" ∧
    outData (applyEntry demoSt (demoEntry (firstLine "PRIVMSG #c :hi\rQUIT")))
      = [utf8 ":alice!a@robust/0x1 PRIVMSG #c hi"] := by
  constructor
  · decide +kernel
  · decide +kernel

/-- a dirty stored string surfaces later even on a clean input line (why `CInv` is needed): with a topic
containing LF, a clean `TOPIC #c` query is answered with a two-line 332 reply -/
example :
    let st : St := { demoSt with channels :=
      [("#c", { name := "#c", nicks := [("alice", { chanop := true }), ("bob", {})], modes := ['n', 't'],
                topic := "x\nQUIT", topicNick := "bob", topicTime := 1 })] }
    ¬ CInv st ∧ ∃ b ∈ outData (applyEntry st (demoEntry "TOPIC #c")), ¬ CleanBytes b := by
  refine ⟨fun h => absurd (h.channels _ (List.mem_cons_self ..)).topic (by decide), ?_⟩
  refine ⟨utf8 ":robustirc.net 332 alice #c x\nQUIT", ?_, by decide +kernel⟩
  decide +kernel

/-! ## non-vacuity (byte level) -/

example : firstLine "PRIVMSG #c :hi\rQUIT" = "PRIVMSG #c :hi" := by decide

example : CleanMsg ⟨some ⟨"nick", "user", "host"⟩, "PRIVMSG", ["#c", "hi there"]⟩ := by decide
example : ¬ CleanMsg ⟨some ⟨"nick", "user", "host"⟩, "PRIVMSG", ["#c", "hi\r\nQUIT"]⟩ := by decide

/-- a concrete clean message renders to the expected single line … -/
example : (⟨some ⟨"nick", "user", "host"⟩, "PRIVMSG", ["#c", "hi there"]⟩ : IrcMsg).render
    = utf8 ":nick!user@host PRIVMSG #c :hi there" := by
  unfold IrcMsg.render
  simp only [utf8_eq_flatMap]
  decide

/-- … which is clean -/
example : CleanBytes (⟨some ⟨"nick", "user", "host"⟩, "PRIVMSG", ["#c", "hi there"]⟩ : IrcMsg).render :=
  C15_render_clean _ (by decide)

/-- the injection attempt is cut before parsing: the parsed message has no trace of `QUIT` -/
example : parseMessage (firstLine "PRIVMSG #c :hi\rQUIT") = some ⟨none, "PRIVMSG", ["#c", "hi"]⟩ := by
  decide +kernel

example : parseMessage (firstLine ":n!u@h privmsg #c :hi\nQUIT\r\n")
    = some ⟨some ⟨"n", "u", "h"⟩, "PRIVMSG", ["#c", "hi"]⟩ := by
  decide +kernel

/-- the cut is necessary: `parseMessage` alone only trims CR/LF at both ends, an embedded CR
survives into the trailing parameter (so the hypothesis `Clean raw` of `C15_parse_clean` cannot
be dropped) -/
example : ∃ m, parseMessage "PRIVMSG #c :hi\rQUIT" = some m ∧ ¬ CleanMsg m :=
  ⟨⟨none, "PRIVMSG", ["#c", "hi\rQUIT"]⟩, by decide +kernel, by decide⟩


/-! ## tie to the HTTP handlers (regenerated from internal/api on every run)

Both handlers that turn client-supplied text into a replicated entry pass it through
`firstLine`, and `firstLine` cuts at the first CR, LF or NUL. -/

theorem C15_handlers_cut :
    Robust.Gen.Exprs.fact "post.msg.Data" = "firstLine(req.Data)" ∧
    Robust.Gen.Exprs.fact "delete.msg.Data" = "firstLine(req.Quitmessage)" ∧
    Robust.Gen.Exprs.fact "firstLine.cutset" = "\r\n\x00" ∧
    Robust.Gen.Exprs.fact "firstLine.cut" = "s[:idx]" ∧
    Robust.Gen.Exprs.fact "firstLine.scanned" = "s" ∧
    Robust.Gen.Exprs.fact "firstLine.body" =
      "{ if idx := strings.IndexAny(s, \"\\r\\n\\x00\"); idx > -1 { return s[:idx] } return s }" := by decide

end Robust.Props.C15
