import Robust.Irc.Proofs.Clean
import Robust.Irc.Proofs.CleanEntry
import Robust.Irc.Proofs.UlenRelay
import Robust.Irc.Proofs.RcptCheck
import Robust.Irc.Proofs.CmdEntry
import Robust.Gen.Exprs
/-!
# C15 — every line sent to clients is a single well-formed IRC line

"Every line sent to clients is a single well-formed IRC line: at most 510 bytes, containing no
LF, CR or NUL byte, starting with a prefix and a command; text posted by one client cannot
smuggle a second protocol line (CR/LF injection)."

* `IrcMsg.render` models `irc.Message.Bytes` (UTF-8 bytes truncated to 510).
* `parseMessage` models `irc.ParseMessage`.
* `firstLine` models the Go helper of the HTTP handlers that cuts the posted text at the first
  CR, LF or NUL.

Byte level (first half of the file): rendering, parsing, the cut.

State level (second half): handlers build lines from strings *stored* in the state, so a dirty string
stored earlier could surface later.  `CInv st` (`Proofs/CleanInv.lean`) says that every stored string
that can reach a line is clean: of every session `nick`, `username`, `realname`, `awayMsg`, `svid`,
`pass`, `ircPrefix.{name,user,host}`; of every channel `name`, `topicNick`, `topic`, `key`, the masks
of its bans; the `reason` of every SVSHOLD; the GLINE reasons `config.banned`; `serverName`.
(Not included, because the proofs show that no handler copies them into a line: `Session.auth`,
`Session.remoteAddr`, `Ban.re`, the lower-cased map keys and `channels` / `invitedTo` lists, the
other `Config` strings.)  All 41 handlers of `handlerByName`, the three stages of `processMessage`,
`applyEntry` for every entry type and every history keep `CInv` and emit only clean lines, provided
the text of the entries is clean (`CleanEntry`) — which the HTTP handlers' `firstLine` cut guarantees.
-/
namespace Robust.Props.C15
open Robust Robust.Irc

/-- at most 510 bytes -/
theorem C15_render_len (m : IrcMsg) : m.render.length ≤ 510 := by
  unfold IrcMsg.render
  simp only [List.length_take]
  exact Nat.min_le_left _ _

/-- UTF-8 never produces 0x00/0x0A/0x0D for other code points -/
theorem C15_utf8_clean (s : String) (h : Clean s) : CleanBytes (utf8 s) := utf8_clean s h

/-- a clean message renders to a line without CR/LF/NUL -/
theorem C15_render_clean (m : IrcMsg) (h : CleanMsg m) : CleanBytes m.render := render_clean m h

/-- shape: `[':' prefix SP] command …` -/
theorem C15_render_shape (m : IrcMsg) : ∃ rest : String, m.render =
    (utf8 ((match m.pfx with | some p => ":" ++ p.str ++ " " | none => "") ++ m.command ++ rest)).take 510 := by
  refine ⟨(if m.params.length > 1 then " " ++ joinStr " " m.params.dropLast else "") ++
    (match m.params.getLast? with
      | none => ""
      | some t =>
        " " ++ (if (t.isEmpty || t.toList.contains ' ' || t.toList.head? == some ':') then ":" else "") ++ t), ?_⟩
  unfold IrcMsg.render
  simp only []
  rw [String.append_assoc (s₁ := _ ++ m.command)]
  rfl

theorem C15_upper_clean : ∀ c : Char, cleanChar c = true → cleanChar (upperChar c) = true :=
  upperChar_clean

theorem C15_lower_clean : ∀ c : Char, cleanChar c = true → cleanChar (lowerChar c) = true :=
  lowerChar_clean

/-- parsing a clean line yields clean prefix/command/params -/
theorem C15_parse_clean (raw : String) (m : IrcMsg) (h : Clean raw) (hp : parseMessage raw = some m) :
    CleanMsg m := parseMessage_clean raw m h hp

theorem C15_firstLine_clean (s : String) : Clean (firstLine s) := firstLine_clean s
theorem C15_firstLine_id (s : String) (h : Clean s) : firstLine s = s := firstLine_id s h
/-- it only cuts, never rewrites -/
theorem C15_firstLine_prefix (s : String) : (firstLine s).toList <+: s.toList := firstLine_prefix s

/-- what a client posts, after the handler's cut and the parser, is a clean message -/
theorem C15_posted_line (body : String) (m : IrcMsg) (hp : parseMessage (firstLine body) = some m) :
    CleanMsg m := C15_parse_clean _ m (C15_firstLine_clean body) hp

/-- end to end: the posted text, cut, parsed and rendered again (as the server does when relaying),
is one line of at most 510 bytes without CR/LF/NUL -/
theorem C15_posted_rendered (body : String) (m : IrcMsg) (hp : parseMessage (firstLine body) = some m) :
    CleanBytes m.render ∧ m.render.length ≤ 510 :=
  ⟨C15_render_clean m (C15_posted_line body m hp), C15_render_len m⟩

/-! ## state level: stored strings stay clean, every emitted line is clean -/

/-- the empty initial state satisfies the invariant -/
theorem C15_init : CInv ({} : St) := CInv_init

/-- Handler level.  For every handler `h` of the command table (`handlerByName`, client and services
handlers alike): if every stored string is clean (`CInv c.st`), everything emitted so far is one clean
line of at most 510 bytes, and the incoming message is clean (prefix, command, parameters), then after
`h` every stored string is clean again and *every* output — old and new — is one clean line of at most
510 bytes. -/
theorem C15_handler_clean (fname : String) (h : Handler) (hh : handlerByName fname = some h)
    (c c' : Ctx) (sid : Id) (m : IrcMsg) (hI : CInv c.st)
    (hO : ∀ o ∈ c.out, CleanBytes o.data ∧ o.data.length ≤ 510) (hm : CleanMsg m)
    (hr : h c sid m = .ok c') :
    CInv c'.st ∧ ∀ o ∈ c'.out, CleanBytes o.data ∧ o.data.length ≤ 510 :=
  have hc := handler_cpres hh c sid m c' ⟨hI, hO⟩ hm hr
  ⟨hc.inv, hc.out⟩

/-- `ProcessMessage` (remote-address bookkeeping and GLINE ban, the 451 / 421 / 461 replies, the
"not registered within 10 minutes" and "You are banned" ERROR lines, `deleteSession`, the handler) keeps
the invariant and emits only clean lines when the parsed line, if there is one, is clean. -/
theorem C15_processMessage_clean (c c' : Ctx) (e : Entry) (im : Option IrcMsg) (hI : CInv c.st)
    (hO : ∀ o ∈ c.out, CleanBytes o.data ∧ o.data.length ≤ 510) (him : ∀ m, im = some m → CleanMsg m)
    (hr : processMessage c e im = .ok c') :
    CInv c'.st ∧ ∀ o ∈ c'.out, CleanBytes o.data ∧ o.data.length ≤ 510 :=
  have hc := processMessage_clean ⟨hI, hO⟩ him hr
  ⟨hc.inv, hc.out⟩

/-- One committed entry of any type keeps every stored string clean, provided the text it carries is
clean (`CleanEntry`: `Clean e.data` for IRCFromClient and DeleteSession entries, clean GLINE reasons for
Config entries; nothing for CreateSession / MessageOfDeath entries, nothing about `remoteAddr`). -/
theorem C15_state_clean_step (st st' : St) (e : Entry) (out : List Out) (h : CInv st) (he : CleanEntry e)
    (hr : applyEntry st e = .ok (st', out)) : CInv st' :=
  (applyEntry_clean st st' e out h he hr).1

/-- … and every line of the output batch it produces is one IRC line: no CR, LF or NUL byte, at most
510 bytes. -/
theorem C15_outputs_clean (st st' : St) (e : Entry) (out : List Out) (h : CInv st) (he : CleanEntry e)
    (hr : applyEntry st e = .ok (st', out)) : ∀ o ∈ out, CleanBytes o.data ∧ o.data.length ≤ 510 :=
  (applyEntry_clean st st' e out h he hr).2

/-- Entries as the HTTP API builds them: the text of an IRCFromClient / DeleteSession entry is
`firstLine` of what the client posted (`C15_handlers_cut` below), hence clean whatever was posted. -/
theorem C15_api_entry_clean (e : Entry) (body : String) (hd : e.data = firstLine body) (ht : e.type ≠ 6) :
    CleanEntry e :=
  ⟨fun _ => hd ▸ firstLine_clean body, fun h6 => absurd h6 ht⟩

/-- End to end for one posted line: whatever a client posts (any string: control characters, very
long, non-ASCII), in every state whose stored strings are clean, every line delivered as a result is one
IRC line of at most 510 bytes without CR / LF / NUL, and the stored strings stay clean. -/
theorem C15_posted_outputs_clean (st st' : St) (e : Entry) (body : String) (out : List Out) (h : CInv st)
    (ht : e.type = 1 ∨ e.type = 2) (hd : e.data = firstLine body) (hr : applyEntry st e = .ok (st', out)) :
    CInv st' ∧ ∀ o ∈ out, CleanBytes o.data ∧ o.data.length ≤ 510 :=
  applyEntry_clean st st' e out h
    (C15_api_entry_clean e body hd (by rcases ht with ht | ht <;> rw [ht] <;> decide)) hr

/-- Histories: starting from the empty state, after any history of entries with clean text every
stored string is clean (no well-formedness hypothesis is needed). -/
theorem C15_history_clean (es : List Entry) (st : St) (hw : CleanHistory es)
    (hr : runEntries {} es = .ok st) : CInv st :=
  run_clean CInv_init hw hr

/-- … and every line of every output batch produced along the way (`runLines` collects them in order) is
one clean line of at most 510 bytes. -/
theorem C15_history_outputs_clean (es : List Entry) (st : St) (outs : List Out) (hw : CleanHistory es)
    (hr : runLines {} es = .ok (st, outs)) :
    CInv st ∧ ∀ o ∈ outs, CleanBytes o.data ∧ o.data.length ≤ 510 :=
  runLines_clean CInv_init hw hr

/-- `runLines` and `runEntries` agree on the final state -/
theorem C15_runLines_state (st st' : St) (es : List Entry) (outs : List Out)
    (hr : runLines st es = .ok (st', outs)) : runEntries st es = .ok st' := runLines_state hr

/-- The quantifier of the property: in every state reachable from the empty one by a history of clean
entries, for every POST body, every line delivered as a result of posting it is one clean IRC line. -/
theorem C15_reachable_posted (es : List Entry) (st st' : St) (e : Entry) (body : String) (out : List Out)
    (hw : CleanHistory es) (hrun : runEntries {} es = .ok st) (ht : e.type = 1 ∨ e.type = 2)
    (hd : e.data = firstLine body) (hr : applyEntry st e = .ok (st', out)) :
    ∀ o ∈ out, CleanBytes o.data ∧ o.data.length ≤ 510 :=
  (C15_posted_outputs_clean st st' e body out (C15_history_clean es st hw hrun) ht hd hr).2

/-! ### non-vacuity of the state-level theorems -/

/-- two logged-in clients in `#c` -/
def demoSt : St :=
  { sessions := [(⟨1, 0⟩, { id := ⟨1, 0⟩, loggedIn := true, nick := "alice", username := "a",
                            ircPrefix := ⟨"alice", "a", "robust/0x1"⟩, channels := ["#c"] }),
                 (⟨2, 0⟩, { id := ⟨2, 0⟩, loggedIn := true, nick := "bob", username := "b",
                            ircPrefix := ⟨"bob", "b", "robust/0x2"⟩, channels := ["#c"] })],
    nicks := [("alice", ⟨1, 0⟩), ("bob", ⟨2, 0⟩)],
    channels := [("#c", { name := "#c", nicks := [("alice", { chanop := true }), ("bob", {})], modes := ['n', 't'] })] }

/-- an IRCFromClient entry of session 1 -/
def demoEntry (data : String) : Entry :=
  { type := 2, id := 10, session := ⟨1, 0⟩, data := data, unixNano := 0, cmid := 1, rev := 0, remoteAddr := "",
    cfg := none }

def outData (r : Res (St × List Out)) : List Bytes :=
  match r with
  | .ok (_, out) => out.map (·.data)
  | _ => []

theorem demoSt_clean : CInv demoSt := by
  refine ⟨?_, ?_, (fun _ h => nomatch h), (fun _ h => nomatch h), by decide⟩
  · intro e he
    simp only [demoSt, List.mem_cons, List.not_mem_nil, or_false] at he
    rcases he with rfl | rfl <;> (constructor <;> decide)
  · intro e he
    simp only [demoSt, List.mem_cons, List.not_mem_nil, or_false] at he
    subst he
    exact ⟨by decide, by decide, by decide, by decide, (fun _ h => nomatch h)⟩

theorem demoEntry_clean : CleanEntry (demoEntry "PRIVMSG #c :hi there") :=
  ⟨fun _ => by decide, fun h => absurd h (by decide)⟩

/-- the clean posted line is relayed to bob as exactly one line … -/
theorem demo_relay : outData (applyEntry demoSt (demoEntry "PRIVMSG #c :hi there"))
    = [utf8 ":alice!a@robust/0x1 PRIVMSG #c :hi there"] := by decide +kernel

/-- … and the theorem applies to it: the hypotheses of `C15_outputs_clean` are satisfiable and its
conclusion speaks about a non-empty batch -/
example : ∃ st' out, applyEntry demoSt (demoEntry "PRIVMSG #c :hi there") = .ok (st', out) ∧ out ≠ [] ∧
    ∀ o ∈ out, CleanBytes o.data ∧ o.data.length ≤ 510 := by
  cases hr : applyEntry demoSt (demoEntry "PRIVMSG #c :hi there") with
  | ok r =>
    obtain ⟨st', out⟩ := r
    refine ⟨st', out, rfl, ?_, C15_outputs_clean demoSt st' _ out demoSt_clean demoEntry_clean hr⟩
    intro hnil
    have h := demo_relay
    rw [hr, hnil] at h
    cases h
  | panic s => have h := demo_relay; rw [hr] at h; cases h
  | declined s => have h := demo_relay; rw [hr] at h; cases h

/-- the hypothesis `Clean e.data` cannot be dropped: an entry whose text contains a CR — which the API's
`firstLine` cut excludes, see `C15_firstLine_clean` / `C15_api_entry_clean` — violates `CleanEntry` … -/
example : ¬ CleanEntry (demoEntry "PRIVMSG #c :hi\rQUIT") :=
  fun h => absurd (h.data (Or.inr rfl)) (by decide)

/-- … and the state machine would indeed relay the CR verbatim to bob -/
example : outData (applyEntry demoSt (demoEntry "PRIVMSG #c :hi\rQUIT"))
      = [utf8 ":alice!a@robust/0x1 PRIVMSG #c hi\rQUIT"] ∧
    ¬ CleanBytes (utf8 ":alice!a@robust/0x1 PRIVMSG #c hi\rQUIT") := by
  constructor
  · decide +kernel
  · decide +kernel

/-- with the cut, the same POST body yields a clean entry and a clean relayed line -/
example : (demoEntry (firstLine "PRIVMSG #c :hi\rQUIT")).data = "PRIVMSG #c :hi" ∧
    outData (applyEntry demoSt (demoEntry (firstLine "PRIVMSG #c :hi\rQUIT")))
      = [utf8 ":alice!a@robust/0x1 PRIVMSG #c hi"] := by
  constructor
  · decide +kernel
  · decide +kernel

/-- a dirty stored string surfaces later even on a clean input line (why `CInv` is needed): with a topic
containing LF, a clean `TOPIC #c` query is answered with a two-line 332 reply -/
example :
    let st : St := { demoSt with channels :=
      [("#c", { name := "#c", nicks := [("alice", { chanop := true }), ("bob", {})], modes := ['n', 't'],
                topic := "x\nQUIT", topicNick := "bob", topicTime := 1 })] }
    ¬ CInv st ∧ ∃ b ∈ outData (applyEntry st (demoEntry "TOPIC #c")), ¬ CleanBytes b := by
  refine ⟨fun h => absurd (h.channels _ (List.mem_cons_self ..)).topic (by decide), ?_⟩
  refine ⟨utf8 ":robustirc.net 332 alice #c x\nQUIT", ?_, by decide +kernel⟩
  decide +kernel

/-! ## "starting with a prefix and a command": the 510-byte cut never removes the command

`IrcMsg.render` cuts the line at 510 bytes.  A line `:nick!user@host CMD …` therefore keeps its command only
if the prefix is short.  Nicknames are at most 31 ASCII characters (`isValidNickname`), the host of a client
is `robust/0x<hex id>` (at most 25 bytes for a `uint64` id); user names were unbounded — a client with a
600-character user name made every line relayed under its prefix be cut *inside the prefix*
(`C15_long_prefix_no_command`).  `cmdUser` and `cmdServerNick` now store `truncateUsername u` (30
characters).

* `HasCommand bytes` mirrors the monitor's predicate: the line starts with `':'` and a non-empty token follows
  the first space, or it does not start with `':'` and starts with a non-empty token.  `cmdToken` is that token.
* (a) `UInv st`: every stored user name has at most 30 characters and — for sessions a client can act as
  (`id.reply = 0`) — no space.  Kept by all 41 handlers, `processMessage`, `applyEntry`, histories.
* (b) the prefix of a stored client session has at most 178 bytes and no space.
* (c) under such a prefix (and for server-prefixed replies under a short server name, and for lines without
  prefix) the command token of the rendered line is exactly the command.
* (d) *every* line of every handler (client and services), of `processMessage`, of every entry and of every
  history has a command (`C15_client_entry_has_command`, `C15_delete_entry_has_command`,
  `C15_services_entry_has_command`, `C15_history_lines_have_command`), by a self-contained invariant `KInv` that
  bounds every stored prefix; the theorems marked `_partial` are the earlier, weaker forms.

Assumptions about services (trusted): the prefix of a services *link* is what its `SERVER` line says
(`cmdServer`, not bounded in the model) and pseudo-clients introduced by services (`reply ≠ 0`) get a user name
cut to 30 characters that may contain a space if services send one; both are excluded (`ClientSess`).
Session ids are Raft indexes (`uint64`): `sid.id < 2^64` is a hypothesis. -/

/-! ### (a) user names are bounded -/

/-- what USER / services' NICK store has at most 30 characters -/
theorem C15_username_truncated (u : String) : (truncateUsername u).toList.length ≤ 30 :=
  truncateUsername_length u

/-- … and short user names are stored unchanged -/
theorem C15_username_short_unchanged (u : String) (h : u.toList.length ≤ 30) (hs : Spaceless u) : truncateUsername u = u :=
  truncateUsername_of_short h hs

/-- the stored user name never contains a space, whoever chose it (a services link can hand over a trailing
parameter): it is cut at the first one (fix in /repo, found by the thorough run of this property) -/
theorem C15_username_spaceless (u : String) : Spaceless (truncateUsername u) := truncateUsername_spaceless' u

/-- the invariant, read off a stored session: at most 30 characters, hence at most 120 bytes -/
theorem C15_username_bounded_stored (st : St) (h : UInv st) (sid : Id) (s : Session)
    (hs : AMap.get st.sessions sid = some s) :
    s.username.toList.length ≤ 30 ∧ s.username.utf8ByteSize ≤ 120 ∧ (s.id.reply = 0 → Spaceless s.username) := by
  obtain ⟨h1, h2⟩ := h sid s hs
  have h30 : s.username.toList.length ≤ 30 := h1
  have := utf8ByteSize_le s.username
  exact ⟨h30, by omega, h2⟩

theorem C15_username_bounded_init : UInv ({} : St) := UInv_init

/-- Handler level: every handler of the command table other than USER keeps `UInv` (for callers as
`processMessage` provides them: `Pre`; `MidOK m` holds of every parsed message) … -/
theorem C15_username_bounded_handler (fname : String) (h : Handler) (hh : handlerByName fname = some h)
    (hne : fname ≠ "cmdUser") (c c' : Ctx) (sid : Id) (m : IrcMsg) (hp : Pre c sid) (hm : MidOK m)
    (hu : UInv c.st) (hr : h c sid m = .ok c') : UInv c'.st :=
  handler_upres hh hne c sid m c' hp hm hu hr

/-- … and USER does, given two parameters (its table entry demands three, `user_minParams`): the stored
user name is the first parameter — not the trailing one, hence without space — cut to 30 characters. -/
theorem C15_username_bounded_user (c c' : Ctx) (sid : Id) (m : IrcMsg) (hm : MidOK m) (hl : 2 ≤ m.params.length)
    (hu : UInv c.st) (hr : cmdUser c sid m = .ok c') : UInv c'.st :=
  cmdUser_uinv hm hl hu hr

/-- every parsed line satisfies `MidOK`: only the trailing parameter can contain a space -/
theorem C15_parsed_midOK (raw : String) (m : IrcMsg) (hp : parseMessage raw = some m) : MidOK m :=
  parseMessage_midOK hp

theorem C15_username_bounded_processMessage (c c' : Ctx) (e : Entry) (im : Option IrcMsg) (hp : Pre c e.session)
    (hn : NI c.st) (hm : ∀ m, im = some m → MidOK m) (hu : UInv c.st) (hr : processMessage c e im = .ok c') :
    UInv c'.st :=
  processMessage_uinv hp hn hm hu hr

/-- **(a)** one committed entry of any type keeps the bound on user names -/
theorem C15_username_bounded (st st' : St) (e : Entry) (out : List Out) (h : GInv st) (hu : UInv st)
    (he : EntryOk st e) (hr : applyEntry st e = .ok (st', out)) : UInv st' :=
  applyEntry_uinv st st' e out h hu he hr

/-- histories: in every state reached from the empty one by a well-formed history, all invariants used below
hold (`GInv`, the identity invariant `PInv` of C12, and `UInv`) -/
theorem C15_username_bounded_history (es : List Entry) (st : St) (hw : WfHistory {} es)
    (hr : runEntries {} es = .ok st) : GPUInv st :=
  run_preserves_gpu GPUInv_init hw hr

/-! ### (b) prefixes are bounded -/

/-- `%x` of a `uint64` has at most 16 digits -/
theorem C15_hexNat_digits (n : Nat) (h : n < 2 ^ 64) : (hexNat n).toList.length ≤ 16 := hexNat_length h

/-- a valid nickname has at most 31 characters, all ASCII, none a space -/
theorem C15_nick_bounded (x : String) (h : isValidNickname x = true) :
    x.toList.length ≤ 31 ∧ Ascii x ∧ Spaceless x := validNick_bounds h

/-- **(b)** the prefix `nick!user@robust/0x<hex id>` stored for a client session (not a services link,
`reply = 0`, `uint64` id) has at most `31 + 1 + 120 + 1 + (9 + 16) = 178` bytes — 179 with the leading `':'` —
and contains no space -/
theorem C15_prefix_bounded (st : St) (h : GPUInv st) (sid : Id) (s : Session)
    (hs : AMap.get st.sessions sid = some s) (hsrv : s.server = false) (h0 : sid.reply = 0)
    (hid : sid.id < 2 ^ 64) :
    s.ircPrefix.str.utf8ByteSize ≤ 178 ∧ Spaceless s.ircPrefix.str :=
  (ClientSess.mk hs hsrv h0 hid).prefix (PfxCtx.of_gpu h)

/-! ### (c) the rendered line has a command -/

/-- **grammar**: for a non-empty command without space, under a prefix without space such that
`":" prefix " " command` fits into 510 bytes (without prefix: the command fits and does not start with `':'`),
the command token of the rendered line is exactly the command -/
theorem C15_render_command_token (m : IrcMsg) (hne : m.command ≠ "") (hsp : Spaceless m.command)
    (hpfx : ∀ p, m.pfx = some p → Spaceless p.str ∧ p.str.utf8ByteSize + m.command.utf8ByteSize + 2 ≤ 510)
    (hnone : m.pfx = none → m.command.toList.head? ≠ some ':' ∧ m.command.utf8ByteSize ≤ 510) :
    cmdToken m.render = utf8 m.command := render_cmdToken m hne hsp hpfx hnone

theorem C15_render_has_command (m : IrcMsg) (hne : m.command ≠ "") (hsp : Spaceless m.command)
    (hpfx : ∀ p, m.pfx = some p → Spaceless p.str ∧ p.str.utf8ByteSize + m.command.utf8ByteSize + 2 ≤ 510)
    (hnone : m.pfx = none → m.command.toList.head? ≠ some ':' ∧ m.command.utf8ByteSize ≤ 510) :
    HasCommand m.render := render_hasCommand m hne hsp hpfx hnone

/-- the bound on the prefix cannot be dropped: under a prefix without space of 509 bytes or more the rendered
line has no command (the violation before the fix) -/
theorem C15_long_prefix_no_command (m : IrcMsg) (p : Prefix) (hp : m.pfx = some p) (hsp : Spaceless p.str)
    (hlen : 509 ≤ p.str.utf8ByteSize) : ¬ HasCommand m.render :=
  render_long_prefix_no_command m p hp hsp hlen

/-- **relayed lines**: whatever is relayed under the stored prefix of a client session — `cmd` any good command
(`GoodCmd`: not empty, no space, at most 330 bytes; decidable), any parameters however long — keeps its command -/
theorem C15_relayed_has_command (st : St) (h : GPUInv st) (sid : Id) (s : Session)
    (hs : AMap.get st.sessions sid = some s) (hsrv : s.server = false) (h0 : sid.reply = 0)
    (hid : sid.id < 2 ^ 64) (cmd : String) (hg : GoodCmd cmd) (params : List String) :
    cmdToken (IrcMsg.mk (some s.ircPrefix) cmd params).render = utf8 cmd ∧
    HasCommand (IrcMsg.mk (some s.ircPrefix) cmd params).render :=
  have ht := relayed_cmdToken (PfxCtx.of_gpu h) (ClientSess.mk hs hsrv h0 hid) hg params
  ⟨ht, hasCommand_of_token ht hg.ne⟩

/-- the relay commands are good -/
example : GoodCmd "PRIVMSG" ∧ GoodCmd "NOTICE" ∧ GoodCmd "JOIN" ∧ GoodCmd "PART" ∧ GoodCmd "NICK" ∧
    GoodCmd "QUIT" ∧ GoodCmd "KICK" ∧ GoodCmd "TOPIC" ∧ GoodCmd "MODE" ∧ GoodCmd "INVITE" ∧ GoodCmd "KILL" := by
  decide

/-- a command that the command table accepts (its upper-case form is a key of at most 82 characters without
space) is good, e.g. `privmsg` -/
theorem C15_dispatched_command_good (x K : String) (h : toUpper x = K) (hne : K ≠ "") (hsp : Spaceless K)
    (hlen : K.toList.length ≤ 82) : GoodCmd x := goodCmd_of_toUpper h hne hsp hlen

/-- **server-prefixed replies** keep their command when the server name is short and contains no space -/
theorem C15_server_reply_has_command (c : Ctx) (hsp : Spaceless c.st.serverName)
    (hlen : c.st.serverName.utf8ByteSize ≤ 63) (cmd : String) (hg : GoodCmd cmd) (params : List String) :
    cmdToken (srv c cmd params).render = utf8 cmd ∧ HasCommand (srv c cmd params).render :=
  have ht := srv_cmdToken ⟨hsp, hlen⟩ hg params
  ⟨ht, hasCommand_of_token ht hg.ne⟩

/-- the default server name qualifies -/
example : Spaceless ({} : St).serverName ∧ ({} : St).serverName.utf8ByteSize ≤ 63 := by decide

/-- **lines without prefix** (`ERROR :Closing Link …`) keep their command -/
theorem C15_plain_has_command (cmd : String) (hg : GoodCmd cmd) (hcol : cmd.toList.head? ≠ some ':')
    (params : List String) :
    cmdToken (IrcMsg.mk none cmd params).render = utf8 cmd ∧ HasCommand (IrcMsg.mk none cmd params).render :=
  have ht := plain_cmdToken hg hcol params
  ⟨ht, hasCommand_of_token ht hg.ne⟩

/-- **PRIVMSG / NOTICE, every line**: all lines `cmdPrivmsg` produces for a client session — the message relayed
under the sender's prefix to a channel, to all users (`$` broadcast) or to one user, and the numeric replies
411, 412, 403, 404, 481, 401, 301 — have a command. -/
theorem C15_privmsg_has_command (c c' : Ctx) (sid : Id) (m : IrcMsg) (s : Session) (h : GPUInv c.st)
    (hs : AMap.get c.st.sessions sid = some s) (hsrv : s.server = false) (h0 : sid.reply = 0)
    (hid : sid.id < 2 ^ 64) (hsp : Spaceless c.st.serverName) (hlen : c.st.serverName.utf8ByteSize ≤ 63)
    (hm : GoodCmd m.command) (hr : cmdPrivmsg c sid m = .ok c') :
    ∃ new, c'.out = c.out ++ new ∧ ∀ o ∈ new, HasCommand o.data :=
  cmdPrivmsg_hasCommand (PfxCtx.of_gpu h) ⟨hs, hsrv, h0, hid⟩ ⟨hsp, hlen⟩ hm hr

/-- **all client commands (partial)**: every line that a client command produces and whose text the recipient
classification of C12 characterises keeps its command: the lines relayed under the acting client's prefix
(`LineShape.relayed`: PRIVMSG / NOTICE and the service aliases with the message's command, JOIN, PART, NICK,
QUIT, KICK, TOPIC, MODE, INVITE), the victim's QUIT of a KILL (`victim`, if the victim is a client session) and
the closing ERROR (`error`).  Not covered (`other`): numeric replies, server notices and lines for services,
whose text C12 does not characterise; each of them is server-prefixed, so `C15_server_reply_has_command`
applies to it; the walk through the handlers that says so is (d) below (`C15_client_handler_has_command`,
`C15_client_entry_has_command`). -/
theorem C15_client_lines_have_command_partial (st : St) (h : GPUInv st) (sid : Id) (s : Session)
    (hs : AMap.get st.sessions sid = some s) (hsrv : s.server = false) (h0 : sid.reply = 0)
    (hid : sid.id < 2 ^ 64) (m : IrcMsg) (o : Out) (hl : ClientLine st sid s m o) : LineShape st s o :=
  hl.shape (PfxCtx.of_gpu h) ⟨hs, hsrv, h0, hid⟩

/-- … for a whole `IRCFromClient` entry of a client session: `stH` is the state in which the handler runs (the
state before the entry up to `lastActivity` / `remoteAddr` / … of the acting session) -/
theorem C15_entry_lines_have_command_partial (st st' : St) (e : Entry) (out : List Out) (s : Session)
    (h : GPUInv st) (he : EntryOk st e) (ht : e.type = 2) (hs : AMap.get st.sessions e.session = some s)
    (hsrv : s.server = false) (hid : e.session.id < 2 ^ 64) (hr : applyEntry st e = .ok (st', out)) :
    ∃ stH sH, StBk st stH e.session ∧ AMap.get stH.sessions e.session = some sH ∧ Session.Bk s sH ∧
      ∀ o ∈ out, LineShape stH sH o :=
  applyEntry_client_shapes h he ht hs hsrv hid hr

/-- … and for a `DeleteSession` entry (the QUIT the server generates) -/
theorem C15_delete_lines_have_command_partial (st st' : St) (e : Entry) (out : List Out) (s : Session)
    (h : GPUInv st) (he : EntryOk st e) (ht : e.type = 1) (hs : AMap.get st.sessions e.session = some s)
    (hsrv : s.server = false) (hid : e.session.id < 2 ^ 64) (hr : applyEntry st e = .ok (st', out)) :
    ∃ stH sH, StBk st stH e.session ∧ AMap.get stH.sessions e.session = some sH ∧ Session.Bk s sH ∧
      ∀ o ∈ out, LineShape stH sH o :=
  applyEntry_delete_shapes h he ht hs hsrv hid hr

/-! ### (d) every line has a command

The partial theorems above classify the lines whose text the recipient classification of C12 characterises.  The
following ones cover *every* line: numeric replies, server notices, lines for services, the lines of the services
handlers.  They rest on a self-contained invariant `KInv st` (`Proofs/CmdInv.lean`): every stored session has a
prefix without space of at most 178 bytes (300 for a services link), a nickname without space of at most 31
bytes, a user name without space of at most 30 characters and a numeric id below `2^64`; the server name has no
space and at most 63 bytes.  One walk through each of the 41 handlers (`Proofs/CmdClient{A,B,C}.lean`,
`Proofs/CmdSrv.lean`) shows that it keeps `KInv` and that every line it emits is built under the server prefix,
without prefix, under a stored prefix, under the bare nickname of a stored session, or under the prefix of the
line services sent — with a literal command, or (PRIVMSG / NOTICE) the dispatched command.

Assumptions (all about names that services or the operator choose; stated as hypotheses):

* `SrvNameOK st`: the server name has no space and at most 63 bytes;
* `SrvPrefixOK st` / `Ids64 st` (only to obtain `KInv` from `GPUInv`): stored prefixes and user names of links and
  pseudo-clients have no space, prefixes at most 300 bytes; session ids are `uint64`;
* `SvcEntryOK st e`: a line sent by a services *link* has a prefix without space of at most 160 bytes, and the
  user name (fourth parameter) of its `NICK` lines has no space;
* `EntryNamesOK e` (only for keeping `KInv`): `CreateSession` ids are `uint64`, and a `SERVER` line announces a name
  of at most 300 bytes. -/

/-- the empty state satisfies the invariant -/
theorem C15_prefixes_bounded_init : KInv ({} : St) := KInv_init

/-- `KInv` follows from the invariants above and the assumptions on services' sessions -/
theorem C15_prefixes_bounded_of_invariants (st : St) (h : GPUInv st) (hn : SrvNameOK st) (hs : SrvPrefixOK st)
    (hid : Ids64 st) : KInv st := KInv.of_gpu h hn hs hid

/-- … and gives the assumption on services' sessions back (so it is kept by everything that keeps `KInv`) -/
theorem C15_srvPrefixOK_kept (st : St) (h : KInv st) : SrvPrefixOK st := h.srvPrefixOK

/-- read off the invariant: *every* stored prefix (clients, pseudo-clients, links) has no space and at most 300
bytes — 178 unless the session is a services link -/
theorem C15_prefix_bounded_all (st : St) (h : KInv st) (sid : Id) (s : Session)
    (hs : AMap.get st.sessions sid = some s) :
    Spaceless s.ircPrefix.str ∧ s.ircPrefix.str.utf8ByteSize ≤ 300 ∧
      (s.server = false → s.ircPrefix.str.utf8ByteSize ≤ 178) := by
  have k := h.get hs
  have h1 := k.pfxLen
  have h2 := pfxCap_le s
  refine ⟨k.pfxSp, by omega, fun hf => ?_⟩
  unfold pfxCap at h1
  rw [hf] at h1
  exact h1

/-- **all handlers**: every handler of the command table — client and services handlers — keeps `KInv` and
appends only lines with a command, given `HArgs` (what the dispatch of `processMessage` establishes about the
message, plus the assumptions on lines of services) -/
theorem C15_handler_has_command (fname : String) (h : Handler) (hh : handlerByName fname = some h)
    (c c' : Ctx) (sid : Id) (m : IrcMsg) (hk : KInv c.st) (ha : HArgs fname c sid m) (hr : h c sid m = .ok c') :
    KInv c'.st ∧ ∃ new, c'.out = c.out ++ new ∧ ∀ o ∈ new, HasCommand o.data :=
  have k := handler_kstep hh (KStep.start hk) ha hr
  ⟨k.inv, k.out⟩

/-- **client handlers**: for every handler of the table other than the services handlers `cmdServer…`, under the
invariants of a reachable state, a short server name and the assumptions on services' sessions; the actor a
stored client session; the message with a good command (`C15_dispatched_command_good`) and middle parameters
without space (`C15_parsed_midOK`); USER with two parameters (the table demands three) — every new line has a
command: relayed lines, numeric replies, server notices, lines for services -/
theorem C15_client_handler_has_command (fname : String) (h : Handler) (hh : handlerByName fname = some h)
    (hcl : clientHandler fname = true) (c c' : Ctx) (sid : Id) (m : IrcMsg) (s : Session) (hg : GPUInv c.st)
    (hn : SrvNameOK c.st) (hsp : SrvPrefixOK c.st) (hid : Ids64 c.st)
    (hs : AMap.get c.st.sessions sid = some s) (hsrv : s.server = false) (hcmd : GoodCmd m.command)
    (hmid : MidOK m) (hu : fname = "cmdUser" → 2 ≤ m.params.length) (hr : h c sid m = .ok c') :
    ∃ new, c'.out = c.out ++ new ∧ ∀ o ∈ new, HasCommand o.data :=
  (client_handler_hc hh hcl (KInv.of_gpu hg hn hsp hid) hs hsrv hcmd hmid hu hr).2

/-- all 26 client handlers qualify, the 15 services handlers do not -/
example : ["cmdAway", "cmdServiceAlias", "cmdGline", "cmdInvite", "cmdIson", "cmdJoin", "cmdKick", "cmdKill",
      "cmdKnock", "cmdList", "cmdMode", "cmdMotd", "cmdNames", "cmdNick", "cmdOper", "cmdPart", "cmdPass",
      "cmdPing", "cmdPrivmsg", "cmdQuit", "cmdTopic", "cmdUser", "cmdUserhost", "cmdWho", "cmdWhois"].all
      clientHandler = true ∧
    ["cmdServer", "cmdServerInvite", "cmdServerJoin", "cmdServerKick", "cmdServerKill", "cmdServerMode",
      "cmdServerNick", "cmdServerPrivmsg", "cmdServerPart", "cmdServerQuit", "cmdServerSvshold", "cmdServerSvsjoin",
      "cmdServerSvsmode", "cmdServerSvsnick", "cmdServerSvspart", "cmdServerTopic"].all
      (fun f => !clientHandler f) = true := by decide

/-- **`ProcessMessage`**: the 421 / 451 / 461 replies, the `ERROR` of a banned or never-registered session and all
lines of the handler have a command (`hsvc`: the assumption on the line if the acting session is a link); `KInv`
is kept if a `SERVER` line announces a short name -/
theorem C15_processMessage_has_command (c c' : Ctx) (e : Entry) (im : Option IrcMsg) (hk : KInv c.st)
    (hp : Pre c e.session) (hn : NI c.st) (hmid : ∀ m, im = some m → MidOK m)
    (hsvc : ∀ m s, im = some m → AMap.get c.st.sessions e.session = some s → s.server = true → SvcLineOK m)
    (hr : processMessage c e im = .ok c') :
    (∃ new, c'.out = c.out ++ new ∧ ∀ o ∈ new, HasCommand o.data) ∧
      ((∀ m, im = some m → ServerLineOK m) → KInv c'.st) :=
  processMessage_kstep (KStep.start hk) hp hn hmid hsvc hr

/-- **one committed entry of any type, any session**: every line of its output batch has a command -/
theorem C15_entry_has_command (st st' : St) (e : Entry) (out : List Out) (h : GInv st) (hk : KInv st)
    (he : EntryOk st e) (hs : SvcEntryOK st e) (hr : applyEntry st e = .ok (st', out)) :
    ∀ o ∈ out, HasCommand o.data :=
  (applyEntry_kinv st st' e out h hk he hs hr).1

/-- … and the invariant is kept -/
theorem C15_entry_keeps_prefixes (st st' : St) (e : Entry) (out : List Out) (h : GInv st) (hk : KInv st)
    (he : EntryOk st e) (hs : SvcEntryOK st e) (hn : EntryNamesOK e) (hr : applyEntry st e = .ok (st', out)) :
    KInv st' :=
  (applyEntry_kinv st st' e out h hk he hs hr).2 hn

/-- **an entry of a client session** (`IRCFromClient`; also `DeleteSession`, see below): *every* line it causes —
the gate replies, the `ERROR` lines, the relayed lines, numeric replies, notices, lines for services — has a
command.  No assumption on the posted text. -/
theorem C15_client_entry_has_command (st st' : St) (e : Entry) (out : List Out) (s : Session) (h : GPUInv st)
    (hn : SrvNameOK st) (hsp : SrvPrefixOK st) (hid : Ids64 st) (he : EntryOk st e)
    (hs : AMap.get st.sessions e.session = some s) (hsrv : s.server = false)
    (hr : applyEntry st e = .ok (st', out)) : ∀ o ∈ out, HasCommand o.data :=
  C15_entry_has_command st st' e out h.ginv (KInv.of_gpu h hn hsp hid) he
    (fun _ m s' _ hs' hsrv' => by rw [hs] at hs'; cases hs'; rw [hsrv] at hsrv'; cases hsrv') hr

/-- **a `DeleteSession` entry** (of any session): the `QUIT` the server generates, and the closing `ERROR` -/
theorem C15_delete_entry_has_command (st st' : St) (e : Entry) (out : List Out) (h : GPUInv st)
    (hn : SrvNameOK st) (hsp : SrvPrefixOK st) (hid : Ids64 st) (he : EntryOk st e) (ht : e.type = 1)
    (hr : applyEntry st e = .ok (st', out)) : ∀ o ∈ out, HasCommand o.data :=
  C15_entry_has_command st st' e out h.ginv (KInv.of_gpu h hn hsp hid) he
    (fun ht2 => by rw [ht] at ht2; cases ht2) hr

/-- **an `IRCFromClient` entry of a services link**: every line it causes has a command, given the assumption on
the line -/
theorem C15_services_entry_has_command (st st' : St) (e : Entry) (out : List Out) (h : GPUInv st)
    (hn : SrvNameOK st) (hsp : SrvPrefixOK st) (hid : Ids64 st) (he : EntryOk st e)
    (hl : ∀ m, parseMessage e.data = some m → SvcLineOK m)
    (hr : applyEntry st e = .ok (st', out)) : ∀ o ∈ out, HasCommand o.data :=
  C15_entry_has_command st st' e out h.ginv (KInv.of_gpu h hn hsp hid) he (fun _ m _ hm _ _ => hl m hm) hr

/-- for a line as the parser delivers it, the assumption on lines of services reduces to lengths: the prefix ends
at the first space (so it contains none), and the user name of a `NICK` line with its nine parameters is not the
trailing one; what remains is that the prefix has at most 160 bytes -/
theorem C15_services_line_ok (raw : String) (m : IrcMsg) (hp : parseMessage raw = some m)
    (hl : ∀ p, m.pfx = some p → p.str.utf8ByteSize ≤ 160)
    (hn : toUpper m.command = "NICK" → 5 ≤ m.params.length) : SvcLineOK m :=
  SvcLineOK.of_parsed hp hl hn

/-- **histories**: starting from the empty state, every line of every output batch produced along a well-formed
history whose entries satisfy the assumptions (relative to the state they are applied to) has a command, and the
final state satisfies `KInv` -/
theorem C15_history_lines_have_command (es : List Entry) (st : St) (outs : List Out) (hw : WfHistory {} es)
    (ha : ArgsHistory {} es) (hr : runLines {} es = .ok (st, outs)) :
    KInv st ∧ ∀ o ∈ outs, HasCommand o.data :=
  runLines_hc GInv_init KInv_init hw ha hr

/-- … in particular when every entry satisfies the state-independent form `EntryLineOK` of the assumptions -/
theorem C15_history_lines_have_command' (es : List Entry) (st : St) (outs : List Out) (hw : WfHistory {} es)
    (ha : ∀ e ∈ es, EntryLineOK e) (hr : runLines {} es = .ok (st, outs)) :
    KInv st ∧ ∀ o ∈ outs, HasCommand o.data :=
  runLines_hc GInv_init KInv_init hw (ArgsHistory.of_all ha _) hr

/-- a posted line without prefix that is neither `SERVER` nor `NICK` satisfies the assumptions whatever it says -/
theorem C15_plain_line_ok (e : Entry) (hid : e.type = 0 → e.id < 2 ^ 64)
    (hl : ∀ m, parseMessage e.data = some m → m.pfx = none ∧ toUpper m.command ≠ "SERVER" ∧
      toUpper m.command ≠ "NICK") : EntryLineOK e :=
  ⟨hid, fun _ m hm =>
    have ⟨h1, h2, h3⟩ := hl m hm
    ⟨fun hc => absurd hc h2, ⟨fun p hp => (by rw [h1] at hp; cases hp), fun hc => absurd hc h3⟩⟩⟩

/-! ### non-vacuity -/

/-- a user name of 600 characters -/
def longUser : String := String.ofList (List.replicate 600 'u')

/-- a 600-character `USER` parameter is stored as 30 characters -/
example : (truncateUsername longUser).toList.length = 30 ∧
    truncateUsername longUser = String.ofList (List.replicate 30 'u') := by
  have hs : Spaceless longUser := by
    unfold longUser Spaceless
    intro c hc
    rw [String.toList_ofList] at hc
    rw [List.eq_of_mem_replicate hc]; decide
  unfold truncateUsername
  rw [firstWord_of_spaceless hs]
  unfold takeChars longUser maxUserLen
  simp only [String.toList_ofList, List.take_replicate, List.length_replicate]
  exact ⟨rfl, rfl⟩

example : truncateUsername "alice" = "alice" :=
  truncateUsername_of_short (by decide) (by decide)

/-- what a services link can hand over as the trailing parameter of a short NICK: cut at the first space -/
example : truncateUsername "hello world" = "hello" := by
  unfold truncateUsername
  have : firstWord "hello world" = "hello" := by unfold firstWord; decide
  rw [this]; decide

theorem longUser_spaceless : Spaceless longUser := by
  unfold longUser
  exact spaceless_ofList fun c hc => by rw [(List.mem_replicate.1 hc).2]; decide

theorem longUser_bytes : longUser.utf8ByteSize = 600 := by
  have ha : Ascii longUser := by
    unfold Ascii longUser
    rw [String.toList_ofList]
    intro c hc; rw [(List.mem_replicate.1 hc).2]; decide
  rw [utf8ByteSize_ascii ha]
  unfold longUser
  rw [String.toList_ofList, List.length_replicate]

/-- before the fix: under the prefix `nick!uuu…u@robust/0x1` with the 600-character user name every relayed
line is cut inside the prefix and has no command … -/
example (cmd : String) (params : List String) :
    ¬ HasCommand (IrcMsg.mk (some ⟨"nick", longUser, "robust/0x1"⟩) cmd params).render := by
  refine C15_long_prefix_no_command _ _ rfl ?_ ?_
  · unfold Prefix.str
    refine spaceless_append (spaceless_append (by decide) ?_) ?_
    · split
      · exact spaceless_empty
      · exact spaceless_append (by decide) longUser_spaceless
    · exact by decide
  · unfold Prefix.str
    rw [utf8ByteSize_append, utf8ByteSize_append]
    have hne : longUser.isEmpty = false := by
      rw [Bool.eq_false_iff]; intro he
      have := longUser_bytes
      rw [String.isEmpty_iff_utf8ByteSize_eq_zero.1 he] at this
      cases this
    rw [hne]
    simp only [Bool.false_eq_true, ↓reduceIte]
    rw [utf8ByteSize_append, longUser_bytes]
    omega

/-- … after the fix the stored user name has 30 characters and the same line keeps its command -/
example : cmdToken (IrcMsg.mk (some ⟨"nick", truncateUsername "uuuuuuuuuuuuuuuuuuuuuuuuuuuuuuuuuuuuuuuu", "robust/0x1"⟩)
      "PRIVMSG" ["#c", "hi"]).render = utf8 "PRIVMSG" := by
  unfold IrcMsg.render
  simp only [utf8_eq_flatMap]
  decide +kernel

/-- the predicate on concrete lines -/
example : HasCommand [58, 97, 33, 98, 64, 99, 32, 80, 73, 78, 71, 32, 120] ∧   -- ":a!b@c PING x"
    HasCommand [80, 73, 78, 71] ∧                                                -- "PING"
    ¬ HasCommand [58, 97, 33, 98, 64, 99] ∧                                      -- ":a!b@c"      (cut inside the prefix)
    ¬ HasCommand [58, 97, 33, 98, 64, 99, 32] ∧                                  -- ":a!b@c "
    ¬ HasCommand [] := by decide

/-- the state of the demo satisfies all invariants, and its server name is short -/
theorem demoSt_gpu : GPUInv demoSt :=
  have h : GPInv demoSt := ginv_of_ginvB (by decide)
  ⟨h.ginv, h.pinv, UInv.of_all (by decide)⟩

theorem demoEntry_ok (data : String) : EntryOk demoSt (demoEntry data) :=
  ⟨fun _ => rfl, fun h => by cases h⟩

/-- the hypotheses of `C15_entry_lines_have_command_partial` are satisfiable, and for the relayed PRIVMSG of the
demo its conclusion says that the command token is `PRIVMSG` -/
example : ∃ st' out, applyEntry demoSt (demoEntry "PRIVMSG #c :hi there") = .ok (st', out) ∧
    ∀ o ∈ out, cmdToken o.data = utf8 "PRIVMSG" := by
  cases hr : applyEntry demoSt (demoEntry "PRIVMSG #c :hi there") with
  | ok r =>
    obtain ⟨st', out⟩ := r
    refine ⟨st', out, rfl, fun o ho => ?_⟩
    have hd := demo_relay
    rw [hr] at hd
    simp only [outData] at hd
    obtain ⟨stH, sH, _, _, _, hsh⟩ := C15_entry_lines_have_command_partial demoSt st' _ out
      (demoSt.sessions.head!).2 demoSt_gpu (demoEntry_ok _) rfl rfl rfl (by decide) hr
    have hod : o.data = utf8 ":alice!a@robust/0x1 PRIVMSG #c :hi there" := by
      cases out with
      | nil => cases ho
      | cons a t =>
        cases t with
        | nil =>
          simp only [List.map_cons, List.map_nil, List.cons.injEq, and_true] at hd
          rw [List.mem_singleton] at ho
          rw [ho, hd]
        | cons b t' => simp at hd
    rw [hod, utf8_eq_flatMap, utf8_eq_flatMap]
    decide +kernel
  | panic s => have h := demo_relay; rw [hr] at h; cases h
  | declined s => have h := demo_relay; rw [hr] at h; cases h

/-! #### non-vacuity of (d) -/

/-- the Boolean form of "every line has a command" -/
def allHaveCommand (l : List Bytes) : Bool := l.all fun b => decide (HasCommand b)

/-- the demo state satisfies `KInv` -/
theorem demoSt_kinv : KInv demoSt := KInv.of_all (by decide +kernel) (by decide)

/-- … and the hypotheses of `C15_client_entry_has_command` -/
theorem demoSt_hyps : SrvNameOK demoSt ∧ SrvPrefixOK demoSt ∧ Ids64 demoSt := by
  refine ⟨demoSt_kinv.name, demoSt_kinv.srvPrefixOK, fun id s hg => ?_⟩
  have hm := AMap.mem_of_get hg
  simp only [demoSt, List.mem_cons, List.not_mem_nil, or_false, Prod.mk.injEq] at hm
  rcases hm with ⟨rfl, _⟩ | ⟨rfl, _⟩ <;> decide

/-- `JOIN #d` by alice: the relayed JOIN, `MODE +nt`, the `SJOIN` for services and the numeric replies 324, 331,
353, 366 — seven lines, each with a command -/
theorem demo_join : outData (applyEntry demoSt (demoEntry "JOIN #d")) =
      [utf8 ":alice!a@robust/0x1 JOIN #d", utf8 ":robustirc.net MODE #d +nt", utf8 ":robustirc.net SJOIN 1 #d @alice",
       utf8 ":robustirc.net 324 alice #d +nt", utf8 ":robustirc.net 331 alice #d :No topic is set",
       utf8 ":robustirc.net 353 alice = #d @alice", utf8 ":robustirc.net 366 alice #d :End of /NAMES list."] ∧
    allHaveCommand (outData (applyEntry demoSt (demoEntry "JOIN #d"))) = true := by
  constructor <;> decide +kernel

/-- `TOPIC #c :hello`: the relayed TOPIC and the line for services under the bare nickname; `FOO bar`: the 421 -/
example : outData (applyEntry demoSt (demoEntry "TOPIC #c :hello")) =
      [utf8 ":alice!a@robust/0x1 TOPIC #c hello", utf8 ":alice TOPIC #c alice 0 hello"] ∧
    allHaveCommand (outData (applyEntry demoSt (demoEntry "TOPIC #c :hello"))) = true ∧
    outData (applyEntry demoSt (demoEntry "FOO bar")) = [utf8 ":robustirc.net 421 alice FOO :Unknown command"] ∧
    allHaveCommand (outData (applyEntry demoSt (demoEntry "FOO bar"))) = true := by
  refine ⟨?_, ?_, ?_, ?_⟩ <;> decide +kernel

/-- the hypotheses of `C15_client_entry_has_command` are satisfiable and its conclusion speaks about the seven
lines of `demo_join` -/
example : ∃ st' out, applyEntry demoSt (demoEntry "JOIN #d") = .ok (st', out) ∧ out.length = 7 ∧
    ∀ o ∈ out, HasCommand o.data := by
  cases hr : applyEntry demoSt (demoEntry "JOIN #d") with
  | ok r =>
    obtain ⟨st', out⟩ := r
    have hd := demo_join.1
    rw [hr] at hd
    simp only [outData] at hd
    refine ⟨st', out, rfl, ?_, C15_client_entry_has_command demoSt st' _ out (demoSt.sessions.head!).2 demoSt_gpu
      demoSt_hyps.1 demoSt_hyps.2.1 demoSt_hyps.2.2 (demoEntry_ok _) rfl rfl hr⟩
    have := congrArg List.length hd
    simpa using this
  | panic s => have h := demo_join.1; rw [hr] at h; cases h
  | declined s => have h := demo_join.1; rw [hr] at h; cases h

/-- the assumption on lines of services cannot be dropped: under a `servicesPrefix` whose name has 509 bytes the
relayed line loses its command -/
example (cmd : String) (params : List String) :
    ¬ HasCommand (IrcMsg.mk (some ⟨String.ofList (List.replicate 509 'x'), "", ""⟩) cmd params).render := by
  refine C15_long_prefix_no_command _ _ rfl ?_ ?_
  · exact (bare_prefix_bounds (a := 509) (spaceless_ofList fun c hc => by rw [(List.mem_replicate.1 hc).2]; decide)
      (by decide +kernel)).1
  · have e : (Prefix.str ⟨String.ofList (List.replicate 509 'x'), "", ""⟩) = String.ofList (List.replicate 509 'x') := by
      decide +kernel
    rw [e]
    decide +kernel

/-! ## non-vacuity (byte level) -/

example : firstLine "PRIVMSG #c :hi\rQUIT" = "PRIVMSG #c :hi" := by decide

example : CleanMsg ⟨some ⟨"nick", "user", "host"⟩, "PRIVMSG", ["#c", "hi there"]⟩ := by decide
example : ¬ CleanMsg ⟨some ⟨"nick", "user", "host"⟩, "PRIVMSG", ["#c", "hi\r\nQUIT"]⟩ := by decide

/-- a concrete clean message renders to the expected single line … -/
example : (⟨some ⟨"nick", "user", "host"⟩, "PRIVMSG", ["#c", "hi there"]⟩ : IrcMsg).render
    = utf8 ":nick!user@host PRIVMSG #c :hi there" := by
  unfold IrcMsg.render
  simp only [utf8_eq_flatMap]
  decide

/-- … which is clean -/
example : CleanBytes (⟨some ⟨"nick", "user", "host"⟩, "PRIVMSG", ["#c", "hi there"]⟩ : IrcMsg).render :=
  C15_render_clean _ (by decide)

/-- the injection attempt is cut before parsing: the parsed message has no trace of `QUIT` -/
example : parseMessage (firstLine "PRIVMSG #c :hi\rQUIT") = some ⟨none, "PRIVMSG", ["#c", "hi"]⟩ := by
  decide +kernel

example : parseMessage (firstLine ":n!u@h privmsg #c :hi\nQUIT\r\n")
    = some ⟨some ⟨"n", "u", "h"⟩, "PRIVMSG", ["#c", "hi"]⟩ := by
  decide +kernel

/-- the cut is necessary: `parseMessage` alone only trims CR/LF at both ends, an embedded CR
survives into the trailing parameter (so the hypothesis `Clean raw` of `C15_parse_clean` cannot
be dropped) -/
example : ∃ m, parseMessage "PRIVMSG #c :hi\rQUIT" = some m ∧ ¬ CleanMsg m :=
  ⟨⟨none, "PRIVMSG", ["#c", "hi\rQUIT"]⟩, by decide +kernel, by decide⟩


/-! ## tie to the HTTP handlers (regenerated from internal/api on every run)

Both handlers that turn client-supplied text into a replicated entry pass it through the Go
function `firstLine`. That this function computes the model's `firstLine` (cut at the first CR,
LF or NUL) is not read off its text: `checks/C15.py` runs the real function and the model's on the
same generated texts on every run (clean, cut, separators only, separators beyond byte 512,
multi-byte characters) and judges the real output on its own. -/

theorem C15_handlers_cut :
    Robust.Gen.Exprs.fact "post.msg.Data" = "firstLine(local:struct{Data string; ClientMessageId uint64}.Data)" ∧
    Robust.Gen.Exprs.fact "delete.msg.Data" = "firstLine(local:struct{Quitmessage string}.Quitmessage)" := by decide

end Robust.Props.C15
