import Robust.Irc.Proofs.Clean
import Robust.Gen.Exprs
/-!
# C15 — every line sent to clients is a single well-formed IRC line

"Every line sent to clients is a single well-formed IRC line: at most 510 bytes, containing no
LF, CR or NUL byte, starting with a prefix and a command; text posted by one client cannot
smuggle a second protocol line (CR/LF injection)."

* `IrcMsg.render` models `irc.Message.Bytes` (UTF-8 bytes truncated to 510).
* `parseMessage` models `irc.ParseMessage`.
* `firstLine` models the Go helper of the HTTP handlers that cuts the posted text at the first
  CR, LF or NUL.
-/
namespace Robust.Props.C15
open Robust Robust.Irc

/-- at most 510 bytes -/
theorem C15_render_len (m : IrcMsg) : m.render.length ≤ 510 := by
  unfold IrcMsg.render
  simp only [List.length_take]
  exact Nat.min_le_left _ _

/-- UTF-8 never produces 0x00/0x0A/0x0D for other code points -/
theorem C15_utf8_clean (s : String) (h : Clean s) : CleanBytes (utf8 s) := utf8_clean s h

/-- a clean message renders to a line without CR/LF/NUL -/
theorem C15_render_clean (m : IrcMsg) (h : CleanMsg m) : CleanBytes m.render := render_clean m h

/-- shape: `[':' prefix SP] command …` -/
theorem C15_render_shape (m : IrcMsg) : ∃ rest : String, m.render =
    (utf8 ((match m.pfx with | some p => ":" ++ p.str ++ " " | none => "") ++ m.command ++ rest)).take 510 := by
  refine ⟨(if m.params.length > 1 then " " ++ joinStr " " m.params.dropLast else "") ++
    (match m.params.getLast? with
      | none => ""
      | some t =>
        " " ++ (if (t.isEmpty || t.toList.contains ' ' || t.toList.head? == some ':') then ":" else "") ++ t), ?_⟩
  unfold IrcMsg.render
  simp only []
  rw [String.append_assoc (s₁ := _ ++ m.command)]
  rfl

theorem C15_upper_clean : ∀ c : Char, cleanChar c = true → cleanChar (upperChar c) = true :=
  upperChar_clean

theorem C15_lower_clean : ∀ c : Char, cleanChar c = true → cleanChar (lowerChar c) = true :=
  lowerChar_clean

/-- parsing a clean line yields clean prefix/command/params -/
theorem C15_parse_clean (raw : String) (m : IrcMsg) (h : Clean raw) (hp : parseMessage raw = some m) :
    CleanMsg m := parseMessage_clean raw m h hp

theorem C15_firstLine_clean (s : String) : Clean (firstLine s) := firstLine_clean s
theorem C15_firstLine_id (s : String) (h : Clean s) : firstLine s = s := firstLine_id s h
/-- it only cuts, never rewrites -/
theorem C15_firstLine_prefix (s : String) : (firstLine s).toList <+: s.toList := firstLine_prefix s

/-- what a client posts, after the handler's cut and the parser, is a clean message -/
theorem C15_posted_line (body : String) (m : IrcMsg) (hp : parseMessage (firstLine body) = some m) :
    CleanMsg m := C15_parse_clean _ m (C15_firstLine_clean body) hp

/-- end to end: the posted text, cut, parsed and rendered again (as the server does when relaying),
is one line of at most 510 bytes without CR/LF/NUL -/
theorem C15_posted_rendered (body : String) (m : IrcMsg) (hp : parseMessage (firstLine body) = some m) :
    CleanBytes m.render ∧ m.render.length ≤ 510 :=
  ⟨C15_render_clean m (C15_posted_line body m hp), C15_render_len m⟩

/-! ## non-vacuity -/

example : firstLine "PRIVMSG #c :hi\rQUIT" = "PRIVMSG #c :hi" := by decide

example : CleanMsg ⟨some ⟨"nick", "user", "host"⟩, "PRIVMSG", ["#c", "hi there"]⟩ := by decide
example : ¬ CleanMsg ⟨some ⟨"nick", "user", "host"⟩, "PRIVMSG", ["#c", "hi\r\nQUIT"]⟩ := by decide

/-- a concrete clean message renders to the expected single line … -/
example : (⟨some ⟨"nick", "user", "host"⟩, "PRIVMSG", ["#c", "hi there"]⟩ : IrcMsg).render
    = utf8 ":nick!user@host PRIVMSG #c :hi there" := by
  unfold IrcMsg.render
  simp only [utf8_eq_flatMap]
  decide

/-- … which is clean -/
example : CleanBytes (⟨some ⟨"nick", "user", "host"⟩, "PRIVMSG", ["#c", "hi there"]⟩ : IrcMsg).render :=
  C15_render_clean _ (by decide)

/-- the injection attempt is cut before parsing: the parsed message has no trace of `QUIT` -/
example : parseMessage (firstLine "PRIVMSG #c :hi\rQUIT") = some ⟨none, "PRIVMSG", ["#c", "hi"]⟩ := by
  decide +kernel

example : parseMessage (firstLine ":n!u@h privmsg #c :hi\nQUIT\r\n")
    = some ⟨some ⟨"n", "u", "h"⟩, "PRIVMSG", ["#c", "hi"]⟩ := by
  decide +kernel

/-- the cut is necessary: `parseMessage` alone only trims CR/LF at both ends, an embedded CR
survives into the trailing parameter (so the hypothesis `Clean raw` of `C15_parse_clean` cannot
be dropped) -/
example : ∃ m, parseMessage "PRIVMSG #c :hi\rQUIT" = some m ∧ ¬ CleanMsg m :=
  ⟨⟨none, "PRIVMSG", ["#c", "hi\rQUIT"]⟩, by decide +kernel, by decide⟩


/-! ## tie to the HTTP handlers (regenerated from internal/api on every run)

Both handlers that turn client-supplied text into a replicated entry pass it through
`firstLine`, and `firstLine` cuts at the first CR, LF or NUL. -/

theorem C15_handlers_cut :
    Robust.Gen.Exprs.fact "post.msg.Data" = "firstLine(req.Data)" ∧
    Robust.Gen.Exprs.fact "delete.msg.Data" = "firstLine(req.Quitmessage)" ∧
    Robust.Gen.Exprs.fact "firstLine.cutset" = "\r\n\x00" ∧
    Robust.Gen.Exprs.fact "firstLine.cut" = "s[:idx]" ∧
    Robust.Gen.Exprs.fact "firstLine.scanned" = "s" ∧
    Robust.Gen.Exprs.fact "firstLine.body" =
      "{ if idx := strings.IndexAny(s, \"\\r\\n\\x00\"); idx > -1 { return s[:idx] } return s }" := by decide

end Robust.Props.C15
