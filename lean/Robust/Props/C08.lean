import Robust.Stream.OS
namespace Robust.Props.C08
end Robust.Props.C08
