import Robust.Stream.Inv
import Robust.Gen.Locks
/-!
C08 — output stream next-message lookup: the invariant is preserved by every operation, `Get`
refines a plain map, `GetNext`'s two phases meet their specification, and the system-level
invariant holds over every interleaving of the lock regions.
-/
namespace Robust.Props.C08
open Robust Robust.Stream

theorem C08_inv_init : Inv OS.init := by
  have hget : ∀ k b, SMap.get OS.init.db k = some b → k = 0 ∧ b = sentinel := by
    intro k b hb
    simp only [OS.init, SMap.get] at hb
    split at hb
    · rename_i hk; cases hb; exact ⟨hk.symm, rfl⟩
    · cases hb
  refine ⟨?_, ?_, ?_, ?_, ?_⟩
  · simp [OS.init, SMap.Sorted, SMap.keys]
  · intro k b hb; obtain ⟨rfl, rfl⟩ := hget k b hb; exact ⟨rfl, by decide⟩
  · exact ⟨0, sentinel, rfl, rfl, rfl, rfl, rfl⟩
  · intro k b hb; obtain ⟨rfl, rfl⟩ := hget k b hb
    left; exact ⟨rfl, by simp [OS.init, SMap.keys]⟩
  · intro k c hc; simp [OS.init, SMap.get] at hc

theorem C08_inv_add (s s' : OS) (msgs : List Msg) (h : Inv s) (hok : AddOk s msgs)
    (ha : s.add msgs = some s') : Inv s' := by
  obtain ⟨m, lid, lb, hm, hlast, hlb, hlbm, hmax, hlt, hnn, hl', hc', hget, hkeys, hsorted⟩ :=
    add_effect s s' msgs h hok ha
  have hlidlt : lid < noNext := (h.keyId lid lb hlb).2
  have hlidmem : lid ∈ SMap.keys s.db := SMap.get_some_mem _ _ _ hlb
  have hnewid : (⟨msgs, noNext⟩ : Batch).id? = some m.id := by simp [Batch.id?, hm]
  refine ⟨hsorted, ?_, ?_, ?_, ?_⟩
  · intro k b hb
    rw [hget] at hb
    split at hb
    · rename_i hk; subst hk; cases hb; exact ⟨hnewid, hnn⟩
    · split at hb
      · rename_i hk; subst hk; cases hb; exact ⟨hlast, hlidlt⟩
      · exact h.keyId k b hb
  · refine ⟨m.id, ⟨msgs, noNext⟩, ?_, ?_, ?_, rfl, ?_⟩
    · apply SMap.getLast_of_max _ hsorted
      · rw [hget, if_pos rfl]
      · intro k' hk'
        rw [hkeys] at hk'
        rcases hk' with rfl | hk'
        · exact Nat.le_refl _
        · have := hmax k' hk'; omega
    · rw [hl']; exact hnewid
    · rw [hl']
    · rw [hl']
  · intro k b hb
    rw [hget] at hb
    split at hb
    · rename_i hk; subst hk; cases hb
      left
      refine ⟨rfl, fun k' hk' => ?_⟩
      rw [hkeys] at hk'
      rcases hk' with rfl | hk'
      · exact Nat.le_refl _
      · have := hmax k' hk'; omega
    · split at hb
      · rename_i hk; subst hk; cases hb
        right
        refine ⟨hlt, hnn, fun k' hk' hlt' => ?_⟩
        rw [hkeys] at hk'
        rcases hk' with rfl | hk'
        · exact Nat.le_refl _
        · have := hmax k' hk'; omega
      · rename_i hk1 hk2
        have hkmem : k ∈ SMap.keys s.db := SMap.get_some_mem _ _ _ hb
        have hkle := hmax k hkmem
        rcases h.link k b hb with ⟨_, h2⟩ | ⟨h1, h2, h3⟩
        · have := h2 lid hlidmem; omega
        · right
          refine ⟨h1, h2, fun k' hk' hlt' => ?_⟩
          rw [hkeys] at hk'
          rcases hk' with rfl | hk'
          · have := h3 lid hlidmem (by omega); omega
          · exact h3 k' hk' hlt'
  · intro k c hc
    rw [hc', SMap.get_erase] at hc
    split at hc
    · cases hc
    · rename_i hk
      have hb := h.cacheOk k c hc
      have hkle := hmax k (SMap.get_some_mem _ _ _ hb)
      rw [hget, if_neg (by omega), if_neg hk]; exact hb

theorem C08_inv_delete (s s' : OS) (id : Nat) (h : Inv s) (hid : id ≠ 0)
    (h0 : 0 ∈ SMap.keys s.db) (hd : s.delete id = some s') : Inv s' ∧ 0 ∈ SMap.keys s'.db := by
  obtain ⟨lid, lb, hlast, hlb, hmax, hcase⟩ := delete_effect s s' id h hd
  have hlidmem : lid ∈ SMap.keys s.db := SMap.get_some_mem _ _ _ hlb
  obtain ⟨lid', lb', hl1, hl2, hl3, hl4, hl5⟩ := h.lastIs
  rw [hlast] at hl2; cases hl2
  obtain ⟨hg', _⟩ := SMap.getLast_max _ h.sorted _ _ hl1
  rw [hlb] at hg'; cases hg'
  rcases hcase with ⟨hne, rfl⟩ | ⟨rfl, pk, mb, hpk, hpklt, hshape, rfl⟩
  · -- plain erase
    have hget : ∀ k, SMap.get (SMap.erase s.db id) k = if k = id then none else SMap.get s.db k :=
      fun k => SMap.get_erase _ _ _
    refine ⟨⟨SMap.sorted_erase _ _ h.sorted, ?_, ?_, ?_, ?_⟩, ?_⟩
    · intro k b hb
      simp only [hget] at hb
      split at hb
      · cases hb
      · exact h.keyId k b hb
    · refine ⟨lid, lb, ?_, hlast, hl3, hl4, hl5⟩
      apply SMap.getLast_of_max _ (SMap.sorted_erase _ _ h.sorted)
      · simp only [hget]; rw [if_neg (Ne.symm hne)]; exact hlb
      · intro k' hk'
        exact hmax k' ((SMap.keys_erase_mem _ _ _).1 hk').1
    · intro k b hb
      simp only [hget] at hb
      split at hb
      · cases hb
      · rcases h.link k b hb with ⟨h1, h2⟩ | ⟨h1, h2, h3⟩
        · left; exact ⟨h1, fun k' hk' => h2 k' ((SMap.keys_erase_mem _ _ _).1 hk').1⟩
        · right; exact ⟨h1, h2, fun k' hk' => h3 k' ((SMap.keys_erase_mem _ _ _).1 hk').1⟩
    · intro k c hc
      simp only [SMap.get_erase] at hc
      split at hc
      · cases hc
      · rename_i hk
        simp only [hget]; rw [if_neg hk]; exact h.cacheOk k c hc
    · exact (SMap.keys_erase_mem _ _ _).2 ⟨h0, Ne.symm hid⟩
  · -- tail deletion: re-point to the predecessor
    have hget : ∀ k, SMap.get (SMap.erase (SMap.put s.db pk ⟨mb.msgs, noNext⟩) id) k =
        if k = id then none else if k = pk then some ⟨mb.msgs, noNext⟩ else SMap.get s.db k :=
      fun k => by rw [SMap.get_erase, SMap.get_put]
    have hpkmem : pk ∈ SMap.keys s.db := SMap.get_some_mem _ _ _ hpk
    have hkeys : ∀ k, k ∈ SMap.keys (SMap.erase (SMap.put s.db pk ⟨mb.msgs, noNext⟩) id) ↔
        k ∈ SMap.keys s.db ∧ k ≠ id := by
      intro k
      rw [SMap.keys_erase_mem, SMap.keys_put_mem]
      constructor
      · rintro ⟨hk | hk, hne⟩
        · subst hk; exact ⟨hpkmem, hne⟩
        · exact ⟨hk, hne⟩
      · rintro ⟨hk, hne⟩; exact ⟨Or.inr hk, hne⟩
    have hsorted := SMap.sorted_erase _ id (SMap.sorted_put _ pk ⟨mb.msgs, noNext⟩ h.sorted)
    have hnewmax : ∀ k' ∈ SMap.keys (SMap.erase (SMap.put s.db pk ⟨mb.msgs, noNext⟩) id),
        k' ≤ pk := by
      intro k' hk'
      obtain ⟨hk1, hk2⟩ := (hkeys k').1 hk'
      rcases hshape k' hk1 with h1 | h1
      · exact absurd h1 hk2
      · exact h1
    have hpkid := h.keyId pk mb hpk
    refine ⟨⟨hsorted, ?_, ?_, ?_, ?_⟩, ?_⟩
    · intro k b hb
      simp only [hget] at hb
      split at hb
      · cases hb
      · split at hb
        · rename_i hk; subst hk; cases hb; exact hpkid
        · exact h.keyId k b hb
    · refine ⟨pk, ⟨mb.msgs, noNext⟩, ?_, hpkid.1, rfl, rfl, rfl⟩
      apply SMap.getLast_of_max _ hsorted _ _ _ hnewmax
      rw [hget, if_neg (by omega), if_pos rfl]
    · intro k b hb
      have hkmem := (hkeys k).1 (SMap.get_some_mem _ _ _ hb)
      simp only [hget] at hb
      split at hb
      · cases hb
      · split at hb
        · rename_i hk; subst hk; cases hb
          left; exact ⟨rfl, hnewmax⟩
        · rename_i hk1 hk2
          have hkle : k ≤ pk := by
            rcases hshape k hkmem.1 with h1 | h1
            · exact absurd h1 hk1
            · exact h1
          rcases h.link k b hb with ⟨_, h2⟩ | ⟨h1, h2, h3⟩
          · have := h2 id hlidmem; omega
          · right; exact ⟨h1, h2, fun k' hk' => h3 k' ((hkeys k').1 hk').1⟩
    · intro k c hc
      simp only [SMap.get_erase] at hc
      split at hc
      · cases hc
      · split at hc
        · cases hc
        · rename_i hk hkp
          rw [hget, if_neg hk, if_neg hkp]; exact h.cacheOk k c hc
    · exact (hkeys 0).2 ⟨h0, Ne.symm hid⟩

theorem C08_inv_get (s : OS) (id : Nat) (h : Inv s) :
    Inv (s.get id).1 ∧ (s.get id).1.db = s.db := by
  obtain ⟨i1, d1, _, _⟩ := getU_spec s id h
  exact ⟨i1, d1⟩

/-- the abstract content of the stream: a plain map from batch id to messages -/
def contents (s : OS) : SMap (List Msg) := s.db.map (fun e => (e.1, e.2.msgs))

theorem contents_get (s : OS) (k : Nat) :
    SMap.get (contents s) k = (SMap.get s.db k).map (·.msgs) :=
  SMap.get_map (fun b : Batch => b.msgs) s.db k

/-- `Get` returns exactly what is stored under that id -/
theorem C08_get (s : OS) (id : Nat) (h : Inv s) : (s.get id).2 = SMap.get (contents s) id := by
  obtain ⟨_, _, _, sp⟩ := getU_spec s id h
  rw [contents_get]
  show (s.getU id).2.map (·.msgs) = _
  generalize (s.getU id).2 = r at sp
  cases r with
  | none => simp only at sp; rw [(SMap.get_none_iff _ _).2 sp]
  | some c => simp only at sp; rw [sp]

theorem C08_contents_add (s s' : OS) (msgs : List Msg) (m : Msg) (h : Inv s) (hok : AddOk s msgs)
    (hm : msgs.head? = some m) (ha : s.add msgs = some s') :
    ∀ k, SMap.get (contents s') k = if k = m.id then some msgs else SMap.get (contents s) k := by
  obtain ⟨m', lid, lb, hm', _, hlb, hlbm, _, _, _, _, _, hget, _, _⟩ := add_effect s s' msgs h hok ha
  rw [hm] at hm'; cases hm'
  intro k
  rw [contents_get, contents_get, hget]
  split
  · rfl
  · split
    · rename_i hk; subst hk; rw [hlb]; simp [hlbm]
    · rfl

set_option linter.unusedVariables false in
theorem C08_contents_delete (s s' : OS) (id : Nat) (h : Inv s) (hid : id ≠ 0)
    (h0 : 0 ∈ SMap.keys s.db) (hd : s.delete id = some s') :
    ∀ k, SMap.get (contents s') k = if k = id then none else SMap.get (contents s) k := by
  obtain ⟨lid, lb, _, _, _, hcase⟩ := delete_effect s s' id h hd
  intro k
  rw [contents_get, contents_get]
  rcases hcase with ⟨_, rfl⟩ | ⟨rfl, pk, mb, hpk, hpklt, _, rfl⟩
  · simp only [SMap.get_erase]
    split <;> rfl
  · simp only [SMap.get_erase, SMap.get_put]
    split
    · rfl
    · split
      · rename_i hk; subst hk; rw [hpk]; rfl
      · rfl

theorem C08_delete_no_panic (s : OS) (id : Nat) (h : Inv s) (hid : id ≠ 0)
    (h0 : 0 ∈ SMap.keys s.db) : ∃ s', s.delete id = some s' :=
  delete_no_panic s id h hid h0

/-- phase 1: returns the least stored batch above `x`, or decides to wait behind the greatest
key only when nothing above `x` is stored; never panics; `db` unchanged -/
theorem C08_p1 (s : OS) (x : Nat) (h : Inv s) :
    Inv (s.getNextP1 x).1 ∧ (s.getNextP1 x).1.db = s.db ∧
    match (s.getNextP1 x).2 with
    | .ret m => leastAbove s x m
    | .park cur => cur ∈ SMap.keys s.db ∧ cur ≤ x ∧ noneAbove s x
    | .panic => False := by
  obtain ⟨i, d, sp⟩ := p1_spec s x h
  refine ⟨i, d, ?_⟩
  generalize (s.getNextP1 x).2 = r at sp
  cases r with
  | ret m => exact sp
  | park c => exact ⟨sp.1, sp.2.1, fun k hk => Nat.le_trans (sp.2.2 k hk) sp.2.1⟩
  | panic => exact sp

/-- one wait-loop stretch entered behind any `cur ≤ x` (which may have been deleted meanwhile):
returns the least stored batch above `x`; blocks only when nothing above `x` is stored; starts
over only if `cur` is gone or the chain from `cur` reaches, at or below `x`, a batch whose
successor was deleted; never panics -/
theorem C08_p2 (s : OS) (x cur : Nat) (h : Inv s) (hc : cur ≤ x) :
    Inv (s.getNextP2 x (s.db.length + 1) cur).1 ∧
    (s.getNextP2 x (s.db.length + 1) cur).1.db = s.db ∧
    match (s.getNextP2 x (s.db.length + 1) cur).2 with
    | .ret m => leastAbove s x m
    | .wait c => c ∈ SMap.keys s.db ∧ c ≤ x ∧ noneAbove s x
    | .restart => cur ∉ SMap.keys s.db ∨ ∃ c, cur ≤ c ∧ c ≤ x ∧ Dangling s c
    | .panic => False := by
  obtain ⟨i, d, sp⟩ := p2_spec s x cur h hc
  refine ⟨i, d, ?_⟩
  generalize (s.getNextP2 x (s.db.length + 1) cur).2 = r at sp
  cases r <;> exact sp

/-- phase 1 followed immediately (no interference) by the wait-loop stretch blocks behind the
batch phase 1 chose -/
theorem C08_p1_then_p2_waits (s : OS) (x cur : Nat) (h : Inv s)
    (hp : (s.getNextP1 x).2 = .park cur) :
    ((s.getNextP1 x).1.getNextP2 x ((s.getNextP1 x).1.db.length + 1) cur).2 = .wait cur := by
  obtain ⟨i, d, sp⟩ := p1_spec s x h
  rw [hp] at sp
  obtain ⟨h1, _, h3⟩ := sp
  exact p2_of_max _ x _ cur i (by rw [d]; exact h1) (by rw [d]; exact h3)

/-- … in particular it never restarts (or panics): a restart cannot loop without interference -/
theorem C08_p1_then_p2_no_restart (s : OS) (x cur : Nat) (h : Inv s)
    (hp : (s.getNextP1 x).2 = .park cur) :
    (∃ c, ((s.getNextP1 x).1.getNextP2 x ((s.getNextP1 x).1.db.length + 1) cur).2 = .wait c) ∨
    (∃ m, ((s.getNextP1 x).1.getNextP2 x ((s.getNextP1 x).1.db.length + 1) cur).2 = .ret m) :=
  Or.inl ⟨cur, C08_p1_then_p2_waits s x cur h hp⟩

/-! ### The concurrent system -/

def ThreadOk (os : OS) (t : RThread) : Prop :=
  (t.pc ≠ .crashed) ∧ (∀ c, t.pc = .ready (some c) → c ≤ t.x) ∧
  (∀ c, t.pc = .waiting c → c ≤ t.x ∧ noneAbove os t.x)

/-- the system-level invariant over every interleaving -/
def SysInv (σ : Sys) : Prop :=
  Inv σ.os ∧ 0 ∈ SMap.keys σ.os.db ∧ ∀ t ∈ σ.rs, (t.pc ≠ .crashed) ∧
    (∀ c, t.pc = .ready (some c) → c ≤ t.x) ∧
    (∀ c, t.pc = .waiting c → c ≤ t.x ∧ noneAbove σ.os t.x)

theorem ThreadOk_congr (s s' : OS) (h : s'.db = s.db) (t : RThread) (ht : ThreadOk s t) :
    ThreadOk s' t :=
  ⟨ht.1, ht.2.1, fun c hc => ⟨(ht.2.2 c hc).1, (noneAbove_congr s s' h _).2 (ht.2.2 c hc).2⟩⟩

theorem ThreadOk_signal (s s' : OS) (t : RThread) (ht : ThreadOk s t) : ThreadOk s' (signal t) := by
  unfold signal
  cases hpc : t.pc with
  | waiting c =>
    refine ⟨by simp, ?_, by simp⟩
    intro c' hc'
    simp only [PC.ready.injEq, Option.some.injEq] at hc'
    subst hc'
    exact (ht.2.2 c hpc).1
  | ready c =>
    refine ⟨ht.1, ht.2.1, ?_⟩
    intro c' hc'; rw [hpc] at hc'; cases hc'
  | returned m =>
    refine ⟨ht.1, ht.2.1, ?_⟩
    intro c' hc'; rw [hpc] at hc'; cases hc'
  | crashed => exact absurd hpc ht.1

/-- `Delete` only removes keys -/
theorem delete_keys (s s' : OS) (id : Nat) (h : Inv s) (hd : s.delete id = some s') :
    ∀ k ∈ SMap.keys s'.db, k ∈ SMap.keys s.db := by
  obtain ⟨lid, lb, _, _, _, hcase⟩ := delete_effect s s' id h hd
  rcases hcase with ⟨_, rfl⟩ | ⟨rfl, pk, mb, hpk, _, _, rfl⟩
  · exact fun k hk => ((SMap.keys_erase_mem _ _ _).1 hk).1
  · intro k hk
    have := ((SMap.keys_erase_mem _ _ _).1 hk).1
    rcases (SMap.keys_put_mem _ _ _ _).1 this with rfl | h1
    · exact SMap.get_some_mem _ _ _ hpk
    · exact h1

theorem ThreadOk_delete (s s' : OS) (id : Nat) (h : Inv s)
    (hd : s.delete id = some s') (t : RThread) (ht : ThreadOk s t) : ThreadOk s' t := by
  have hsub := delete_keys s s' id h hd
  refine ⟨ht.1, ht.2.1, fun c hc => ?_⟩
  obtain ⟨hle, hw⟩ := ht.2.2 c hc
  exact ⟨hle, fun k hk => hw k (hsub k hk)⟩

/-- one reader step: the invariant is kept, `db` is untouched, the reader stays well-formed -/
theorem reader_spec (os : OS) (t : RThread) (c : Option Nat) (h : Inv os) (ht : ThreadOk os t)
    (hpc : t.pc = .ready c) :
    Inv (readerStep os t).1 ∧ (readerStep os t).1.db = os.db ∧
      ThreadOk (readerStep os t).1 (readerStep os t).2 := by
  unfold readerStep
  rw [hpc]
  cases c with
  | none =>
    simp only
    obtain ⟨i1, d1, sp⟩ := p1_spec os t.x h
    generalize os.getNextP1 t.x = p at i1 d1 sp ⊢
    obtain ⟨os1, r⟩ := p
    cases r with
    | ret m => exact ⟨i1, d1, by simp, by simp, by simp⟩
    | park c =>
      refine ⟨i1, d1, by simp, ?_, by simp⟩
      intro c' hc'
      simp only [PC.ready.injEq, Option.some.injEq] at hc'
      subst hc'; exact sp.2.1
    | panic => exact absurd sp id
  | some c =>
    simp only
    have hc := ht.2.1 c hpc
    obtain ⟨i1, d1, sp⟩ := p2_spec os t.x c h hc
    generalize os.getNextP2 t.x (os.db.length + 1) c = p at i1 d1 sp ⊢
    obtain ⟨os1, r⟩ := p
    cases r with
    | ret m => exact ⟨i1, d1, by simp, by simp, by simp⟩
    | wait c' =>
      refine ⟨i1, d1, ?_⟩
      simp only at d1
      obtain ⟨_, s2, s3⟩ := sp
      cases hcan : t.cancelled with
      | true => exact ⟨by simp, by simp, by simp⟩
      | false =>
        refine ⟨by simp, by simp, ?_⟩
        intro c'' hc''
        simp only [Bool.false_eq_true, ↓reduceIte, PC.waiting.injEq] at hc''
        subst hc''
        exact ⟨s2, (noneAbove_congr os os1 d1 _).2 s3⟩
    | restart => exact ⟨i1, d1, by simp, by simp, by simp⟩
    | panic => exact absurd sp id

theorem C08_reach_inv (σ : Sys) (h : Reach σ) : SysInv σ := by
  induction h with
  | init => exact ⟨C08_inv_init, by simp [OS.init, SMap.keys], fun t ht => by simp at ht⟩
  | step σ σ' _ hs ih =>
    obtain ⟨hi, h0, hts⟩ := ih
    cases hs with
    | add msgs os' hok ha =>
      have hi' := C08_inv_add _ _ _ hi hok ha
      obtain ⟨_, _, _, _, _, _, _, _, _, _, _, _, _, hkeys, _⟩ := add_effect _ _ _ hi hok ha
      refine ⟨hi', (hkeys 0).2 (Or.inr h0), fun t ht => ?_⟩
      obtain ⟨t0, ht0, rfl⟩ := List.mem_map.1 ht
      exact ThreadOk_signal _ _ _ (hts t0 ht0)
    | delete id os' hid hd =>
      obtain ⟨hi', h0'⟩ := C08_inv_delete _ _ _ hi hid h0 hd
      exact ⟨hi', h0', fun t ht => ThreadOk_delete _ _ _ hi hd t (hts t ht)⟩
    | get id =>
      obtain ⟨hi', hdb⟩ := C08_inv_get σ.os id hi
      refine ⟨hi', ?_, fun t ht => ThreadOk_congr _ _ hdb t (hts t ht)⟩
      show 0 ∈ SMap.keys (σ.os.get id).1.db
      rw [hdb]; exact h0
    | interrupt =>
      refine ⟨hi, h0, fun t ht => ?_⟩
      obtain ⟨t0, ht0, rfl⟩ := List.mem_map.1 ht
      exact ThreadOk_signal _ _ _ (hts t0 ht0)
    | call x =>
      refine ⟨hi, h0, fun t ht => ?_⟩
      rcases List.mem_append.1 ht with ht | ht
      · exact hts t ht
      · simp only [List.mem_singleton] at ht
        subst ht
        exact ⟨by simp, by simp, by simp⟩
    | cancel i t hi' =>
      refine ⟨hi, h0, fun t' ht' => ?_⟩
      rcases List.mem_or_eq_of_mem_set ht' with ht' | rfl
      · exact hts t' ht'
      · exact hts t (List.mem_of_getElem? hi')
    | reader i t c hi' hpc =>
      have htok : ThreadOk σ.os t := hts t (List.mem_of_getElem? hi')
      obtain ⟨i1, d1, tok⟩ := reader_spec σ.os t c hi htok hpc
      refine ⟨i1, ?_, fun t' ht' => ?_⟩
      · show 0 ∈ SMap.keys (readerStep σ.os t).1.db
        rw [d1]; exact h0
      · rcases List.mem_or_eq_of_mem_set ht' with ht' | rfl
        · exact ThreadOk_congr _ _ d1 t' (hts t' ht')
        · exact tok

/-! ### Corollaries, for every reachable state / every step -/

/-- a reader never stays blocked although a successor exists -/
theorem C08_no_lost_wakeup (σ : Sys) (h : Reach σ) (t : RThread) (ht : t ∈ σ.rs) (c : Nat)
    (hw : t.pc = .waiting c) : noneAbove σ.os t.x :=
  (((C08_reach_inv σ h).2.2 t ht).2.2 c hw).2

theorem C08_never_panics (σ : Sys) (h : Reach σ) (t : RThread) (ht : t ∈ σ.rs) :
    t.pc ≠ .crashed :=
  ((C08_reach_inv σ h).2.2 t ht).1

/-- what a reader returns is the least stored batch above `x` at the instant of that step -/
theorem C08_returns_least (σ : Sys) (h : Reach σ) (i : Nat) (t : RThread) (c : Option Nat)
    (hi : σ.rs[i]? = some t) (hr : t.pc = .ready c) (m : List Msg)
    (hret : (readerStep σ.os t).2.pc = .returned (some m)) : leastAbove σ.os t.x m := by
  obtain ⟨hinv, _, hts⟩ := C08_reach_inv σ h
  have htok := hts t (List.mem_of_getElem? hi)
  unfold readerStep at hret
  rw [hr] at hret
  cases c with
  | none =>
    simp only at hret
    obtain ⟨_, _, sp⟩ := p1_spec σ.os t.x hinv
    generalize σ.os.getNextP1 t.x = p at sp hret
    obtain ⟨os1, r⟩ := p
    cases r with
    | ret m' =>
      simp only [PC.returned.injEq, Option.some.injEq] at hret
      subst hret; exact sp
    | park c => simp at hret
    | panic => simp at hret
  | some c =>
    simp only at hret
    obtain ⟨_, _, sp⟩ := p2_spec σ.os t.x c hinv (htok.2.1 c hr)
    generalize σ.os.getNextP2 t.x (σ.os.db.length + 1) c = p at sp hret
    obtain ⟨os1, r⟩ := p
    cases r with
    | ret m' =>
      simp only [PC.returned.injEq, Option.some.injEq] at hret
      subst hret; exact sp
    | wait c' =>
      simp only at hret
      split at hret <;> simp at hret
    | restart => simp at hret
    | panic => simp at hret

-- AUDIT: not vacuous (instance in `Ex` below); `h` and `hi` are unused — the fact holds for every stream
-- and reader, reachable or not.
set_option linter.unusedVariables false in
/-- once cancelled and woken a reader does not block again -/
theorem C08_cancelled_returns (σ : Sys) (h : Reach σ) (i : Nat) (t : RThread) (c : Nat)
    (hi : σ.rs[i]? = some t) (hr : t.pc = .ready (some c)) (hcan : t.cancelled = true) :
    ∀ c', (readerStep σ.os t).2.pc ≠ .waiting c' := by
  intro c'
  unfold readerStep
  rw [hr]
  simp only
  generalize σ.os.getNextP2 t.x (σ.os.db.length + 1) c = p
  obtain ⟨os1, r⟩ := p
  cases r <;> simp [hcan]

-- AUDIT: not vacuous (instance in `Ex` below), but `σ`, `msgs`, `os'` and `ht` are unused: the statement
-- is a fact about `signal` alone; its link to `Add`/`Interrupt` is that `Step.add`/`Step.interrupt` map
-- `signal` over the readers (see the last example of `Ex`, which takes the `Add` step of the system).
set_option linter.unusedVariables false in
/-- `Add`/`Interrupt` make every waiter runnable -/
theorem C08_wakes_on_add (σ : Sys) (msgs : List Msg) (os' : OS) (t : RThread) (ht : t ∈ σ.rs)
    (c : Nat) (hw : t.pc = .waiting c) : (signal t).pc = .ready (some c) := by
  unfold signal; rw [hw]

/-! ### Regression: the former lost wake-up

Schedule: `GetNext(0)` parks behind the sentinel on the fresh stream; `Add 5`; `Add 7` (both
wake the reader, which does not run yet); `Delete 5`; now the reader runs its wait-loop
stretch: batch 0 has `next = 5`, 5 is gone.  The unrepaired loop blocked here although batch 7
is stored; the repaired loop starts over, and phase 1 returns batch 7. -/
namespace Regression

def msg (n : Nat) : List Msg := [⟨n, 0, [], []⟩]
def t0 : RThread := ⟨0, false, .ready none⟩
def t1 : RThread := ⟨0, false, .ready (some 0)⟩
def os2 : OS := ⟨[(0, sentinel)], sentinel, [(0, sentinel)]⟩
def os3 : OS := ⟨[(0, ⟨msg 0, 5⟩), (5, ⟨msg 5, noNext⟩)], ⟨msg 5, noNext⟩, []⟩
def os4 : OS := ⟨[(0, ⟨msg 0, 5⟩), (5, ⟨msg 5, 7⟩), (7, ⟨msg 7, noNext⟩)], ⟨msg 7, noNext⟩, []⟩
def os5 : OS := ⟨[(0, ⟨msg 0, 5⟩), (7, ⟨msg 7, noNext⟩)], ⟨msg 7, noNext⟩, []⟩
def os6 : OS := ⟨[(0, ⟨msg 0, 5⟩), (7, ⟨msg 7, noNext⟩)], ⟨msg 7, noNext⟩, [(0, ⟨msg 0, 5⟩)]⟩

theorem r1 : Reach ⟨OS.init, [t0]⟩ := Reach.step _ _ Reach.init (Step.call ⟨OS.init, []⟩ 0)
theorem r2 : Reach ⟨os2, [t1]⟩ := Reach.step _ _ r1 (Step.reader ⟨OS.init, [t0]⟩ 0 t0 none rfl rfl)
theorem r3 : Reach ⟨os3, [t1]⟩ :=
  Reach.step _ _ r2 (Step.add ⟨os2, [t1]⟩ (msg 5) os3 ⟨_, rfl, by decide, by decide⟩ rfl)
theorem r4 : Reach ⟨os4, [t1]⟩ :=
  Reach.step _ _ r3 (Step.add ⟨os3, [t1]⟩ (msg 7) os4 ⟨_, rfl, by decide, by decide⟩ rfl)
theorem r5 : Reach ⟨os5, [t1]⟩ :=
  Reach.step _ _ r4 (Step.delete ⟨os4, [t1]⟩ 5 os5 (by decide) rfl)

/-- the wait-loop stretch now starts over … -/
example : readerStep os5 t1 = (os6, t0) := rfl
/-- … and phase 1 then returns batch 7 -/
example : (readerStep os6 t0).2.pc = .returned (some (msg 7)) := rfl

theorem r7 : Reach ⟨(readerStep os6 t0).1, [(readerStep os6 t0).2]⟩ :=
  Reach.step _ _ (Reach.step _ _ r5 (Step.reader ⟨os5, [t1]⟩ 0 t1 (some 0) rfl rfl))
    (Step.reader ⟨os6, [t0]⟩ 0 t0 none rfl rfl)

end Regression

/-- regenerated: the lock operations of every function of outputstream.go, in source order.  The atomic steps
of the transition system above are these lock regions (read off the code by hand); any change to the locking
structure of the file — a new fast path outside a region, a region split or merged — changes this table and
with it the justification of the model's step boundaries. -/
theorem C08_lock_regions : Robust.Gen.Locks.streamRegions = [
  ("internal/outputstream:OutputStream.Add", ["OutputStream.messagesMu.Lock", "defer OutputStream.messagesMu.Unlock"]),
  ("internal/outputstream:OutputStream.Delete", ["OutputStream.messagesMu.Lock", "defer OutputStream.messagesMu.Unlock"]),
  ("internal/outputstream:OutputStream.Get", ["OutputStream.messagesMu.RLock", "defer OutputStream.messagesMu.RUnlock"]),
  ("internal/outputstream:OutputStream.GetNext", ["OutputStream.messagesMu.RLock", "OutputStream.messagesMu.RUnlock", "OutputStream.messagesMu.RUnlock", "OutputStream.messagesMu.RUnlock", "OutputStream.messagesMu.Lock", "OutputStream.messagesMu.Unlock", "OutputStream.messagesMu.Unlock", "OutputStream.messagesMu.Unlock", "OutputStream.messagesMu.Unlock"]),
  ("internal/outputstream:OutputStream.InterruptGetNext", ["OutputStream.messagesMu.Lock", "defer OutputStream.messagesMu.Unlock"]),
  ("internal/outputstream:OutputStream.LastSeen", ["OutputStream.messagesMu.RLock", "defer OutputStream.messagesMu.RUnlock"]),
  ("internal/outputstream:OutputStream.reset", ["OutputStream.messagesMu.Lock", "defer OutputStream.messagesMu.Unlock"])
] := by decide

/-! ## non-vacuity

Every hypothesis set of the theorems above is instantiated on the populated streams of the regression
schedule (three batches, a deleted middle batch, a warm cache); the invariant of each stream is obtained
from `C08_reach_inv` along the run that produces it, not postulated. -/
namespace Ex
open Regression

theorem r6 : Reach ⟨os6, [t0]⟩ :=
  Reach.step _ _ r5 (Step.reader ⟨os5, [t1]⟩ 0 t1 (some 0) rfl rfl)

theorem inv4 : Inv os4 := (C08_reach_inv _ r4).1
theorem inv5 : Inv os5 := (C08_reach_inv _ r5).1
theorem inv6 : Inv os6 := (C08_reach_inv _ r6).1

/-! ### the sequential operations -/

/-- `os4` after `Add 9` -/
def os9 : OS := ⟨[(0, ⟨msg 0, 5⟩), (5, ⟨msg 5, 7⟩), (7, ⟨msg 7, 9⟩), (9, ⟨msg 9, noNext⟩)], ⟨msg 9, noNext⟩, []⟩

theorem addOk9 : AddOk os4 (msg 9) := ⟨_, rfl, by decide, by decide⟩

example : Inv os9 := C08_inv_add os4 os9 (msg 9) inv4 addOk9 rfl

/-- `Add` on the stream with a deleted middle batch and a warm cache (only the cached copy of the
last batch, 7, would be invalidated; the cached batch 0 survives) -/
example : Inv ((os6.add (msg 9)).getD os6) ∧ ((os6.add (msg 9)).getD os6).cache = [(0, ⟨msg 0, 5⟩)] :=
  ⟨C08_inv_add os6 _ (msg 9) inv6 ⟨_, rfl, by decide, by decide⟩ rfl, rfl⟩

/-- plain deletion of the middle batch -/
example : Inv os5 ∧ 0 ∈ SMap.keys os5.db := C08_inv_delete os4 os5 5 inv4 (by decide) (by decide) rfl

/-- deletion of the *last* batch: the predecessor is re-pointed and becomes `last` -/
def os4t : OS := ⟨[(0, ⟨msg 0, 5⟩), (5, ⟨msg 5, noNext⟩)], ⟨msg 5, noNext⟩, []⟩
example : Inv os4t ∧ 0 ∈ SMap.keys os4t.db := C08_inv_delete os4 os4t 7 inv4 (by decide) (by decide) rfl

/-- deletion of the last batch with a warm cache holding the predecessor: the stale cached copy
(`next = 5`) is dropped -/
def os6t : OS := ⟨[(0, ⟨msg 0, noNext⟩)], ⟨msg 0, noNext⟩, []⟩
example : Inv os6t ∧ 0 ∈ SMap.keys os6t.db := C08_inv_delete os6 os6t 7 inv6 (by decide) (by decide) rfl

example : Inv (os5.get 7).1 ∧ (os5.get 7).1.db = os5.db := C08_inv_get os5 7 inv5
/-- … and that `Get` did populate the cache -/
example : (os5.get 7).1.cache = [(7, ⟨msg 7, noNext⟩)] := rfl

example : (os4.get 5).2 = some (msg 5) := (C08_get os4 5 inv4).trans rfl
example : (os5.get 5).2 = none := (C08_get os5 5 inv5).trans rfl
/-- through the cache -/
example : (os6.get 0).2 = some (msg 0) := (C08_get os6 0 inv6).trans rfl

example : SMap.get (contents os9) 9 = some (msg 9) :=
  (C08_contents_add os4 os9 (msg 9) _ inv4 addOk9 rfl rfl 9).trans rfl
example : SMap.get (contents os9) 7 = some (msg 7) :=
  (C08_contents_add os4 os9 (msg 9) _ inv4 addOk9 rfl rfl 7).trans rfl

example : SMap.get (contents os5) 5 = none :=
  (C08_contents_delete os4 os5 5 inv4 (by decide) (by decide) rfl 5).trans rfl
example : SMap.get (contents os4t) 5 = some (msg 5) :=
  (C08_contents_delete os4 os4t 7 inv4 (by decide) (by decide) rfl 5).trans rfl

example : ∃ s', os4.delete 7 = some s' := C08_delete_no_panic os4 7 inv4 (by decide) (by decide)
/-- deleting an id that is not stored is fine too -/
example : ∃ s', os5.delete 5 = some s' := C08_delete_no_panic os5 5 inv5 (by decide) (by decide)

/-! ### the two phases of `GetNext` -/

/-- phase 1 on the stream whose batch 0 points to the deleted batch 5: range search finds batch 7 -/
example : leastAbove os5 0 (msg 7) := (C08_p1 os5 0 inv5).2.2
/-- phase 1 through the chain -/
example : leastAbove os4 5 (msg 7) := (C08_p1 os4 5 inv4).2.2
/-- phase 1 behind the last batch: park -/
example : 7 ∈ SMap.keys os4.db ∧ 7 ≤ 7 ∧ noneAbove os4 7 := (C08_p1 os4 7 inv4).2.2
/-- phase 1 for an id that is not stored and above everything: park behind the greatest key -/
example : 7 ∈ SMap.keys os5.db ∧ 7 ≤ 8 ∧ noneAbove os5 8 := (C08_p1 os5 8 inv5).2.2

/-- wait-loop stretch: the chain 0 → 5 → 7 is followed, then the reader blocks behind 7 -/
example : (os4.getNextP2 7 (os4.db.length + 1) 0).2 = .wait 7 := rfl
example : 7 ∈ SMap.keys os4.db ∧ 7 ≤ 7 ∧ noneAbove os4 7 := (C08_p2 os4 7 0 inv4 (by decide)).2.2
/-- … returns the first batch above `x` -/
example : leastAbove os4 5 (msg 7) := (C08_p2 os4 5 0 inv4 (by decide)).2.2
/-- … starts over at a dangling link -/
example : 0 ∉ SMap.keys os5.db ∨ ∃ c, 0 ≤ c ∧ c ≤ 0 ∧ Dangling os5 c := (C08_p2 os5 0 0 inv5 (by decide)).2.2
/-- … starts over when the batch waited behind is gone -/
example : 5 ∉ SMap.keys os5.db ∨ ∃ c, 5 ≤ c ∧ c ≤ 6 ∧ Dangling os5 c := (C08_p2 os5 6 5 inv5 (by decide)).2.2

example : ((os4.getNextP1 7).1.getNextP2 7 ((os4.getNextP1 7).1.db.length + 1) 7).2 = .wait 7 :=
  C08_p1_then_p2_waits os4 7 7 inv4 rfl
example : (∃ c, ((os5.getNextP1 9).1.getNextP2 9 ((os5.getNextP1 9).1.db.length + 1) 7).2 = .wait c) ∨
    (∃ m, ((os5.getNextP1 9).1.getNextP2 9 ((os5.getNextP1 9).1.db.length + 1) 7).2 = .ret m) :=
  C08_p1_then_p2_no_restart os5 9 7 inv5 rfl

/-! ### the concurrent system: two readers, one of them blocked, then cancelled and woken -/

def u0 : RThread := ⟨7, false, .ready none⟩
def u1 : RThread := ⟨7, false, .ready (some 7)⟩
def uW : RThread := ⟨7, false, .waiting 7⟩
def uC : RThread := ⟨7, true, .ready (some 7)⟩
/-- `os4` with batch 7 cached by the second reader's phase 1 -/
def os4c : OS := { os4 with cache := [(7, ⟨msg 7, noNext⟩)] }

theorem q1 : Reach ⟨os4, [t1, u0]⟩ := Reach.step _ _ r4 (Step.call ⟨os4, [t1]⟩ 7)
theorem q2 : Reach ⟨os4c, [t1, u1]⟩ := Reach.step _ _ q1 (Step.reader ⟨os4, [t1, u0]⟩ 1 u0 none rfl rfl)
/-- the second reader blocks behind batch 7 while the first one is still runnable -/
theorem qW : Reach ⟨os4c, [t1, uW]⟩ := Reach.step _ _ q2 (Step.reader ⟨os4c, [t1, u1]⟩ 1 u1 (some 7) rfl rfl)
theorem q4 : Reach ⟨os4c, [t1, { uW with cancelled := true }]⟩ :=
  Reach.step _ _ qW (Step.cancel ⟨os4c, [t1, uW]⟩ 1 uW rfl)
theorem qC : Reach ⟨os4c, [t1, uC]⟩ :=
  Reach.step _ _ q4 (Step.interrupt ⟨os4c, [t1, { uW with cancelled := true }]⟩)

example : SysInv ⟨os4c, [t1, uW]⟩ := C08_reach_inv _ qW
example : SysInv ⟨(readerStep os6 t0).1, [(readerStep os6 t0).2]⟩ := C08_reach_inv _ r7

example : noneAbove os4c 7 := C08_no_lost_wakeup _ qW uW (by decide) 7 rfl
example : uW.pc ≠ .crashed := C08_never_panics _ qW uW (by decide)
example : t1.pc ≠ .crashed := C08_never_panics _ qW t1 (by decide)

/-- a return out of phase 1 (after the restart of the regression schedule) … -/
example : leastAbove os6 0 (msg 7) := C08_returns_least _ r6 0 t0 none rfl rfl (msg 7) rfl
/-- … and out of the wait loop (the first reader, woken by the two `Add`s, follows 0 → 5) -/
example : leastAbove os4c 0 (msg 5) := C08_returns_least _ qW 0 t1 (some 0) rfl rfl (msg 5) rfl

/-- the cancelled, woken reader returns `[]` instead of blocking again -/
example : ∀ c', (readerStep os4c uC).2.pc ≠ .waiting c' := C08_cancelled_returns _ qC 1 uC 7 rfl rfl rfl
example : (readerStep os4c uC).2.pc = .returned none := rfl
/-- the same reader, not cancelled, does block again: the hypothesis `cancelled = true` matters -/
example : (readerStep os4c u1).2.pc = .waiting 7 := rfl

example : (signal uW).pc = .ready (some 7) :=
  C08_wakes_on_add ⟨os4c, [t1, uW]⟩ (msg 9) os9 uW (by decide) 7 rfl
/-- … and this is what the `Add` step of the system does with the blocked reader -/
example : Reach ⟨{ os9 with cache := [] }, [t1, u1]⟩ :=
  Reach.step _ _ qW (Step.add ⟨os4c, [t1, uW]⟩ (msg 9) _ ⟨_, rfl, by decide, by decide⟩ rfl)

end Ex

end Robust.Props.C08
