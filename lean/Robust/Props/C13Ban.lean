import Robust.Props.C13
/-!
# C13 (addition) — a ban on a session host also bans the address, and nobody from it gets in

`MODE #c +b *!*@robust/0x<id>` stores two entries under the same mask: the pattern as written and
the pattern with the session host replaced by the remote address that session last used
(`banBoth`, cmd_mode.go).  The property's clause "a session becomes a member of an existing channel
only if no ban (+b) matches it" is about *matching*, which for these bans means matching the
address form `nick!user@addr` as well.  The theorems below say that the second entry is really
stored, is kept when further bans are added, and that any session — in particular a *new* session of
the banned user coming from the same address — whose address form matches it fails the admission
condition `joinAllowed`, whatever else holds (invitation, key).  Together with
`C13_join_member_only_if` (membership ⇒ `joinAllowed`) this closes the ban-evasion route.
-/
namespace Robust.Props.C13Ban
open Robust.Irc

theorem banOne_add {ch ch' : Channel} {m p : String} (h : banOne ch true m p = .ok ch') :
    ch'.bans = ch.bans ++ [⟨m, p⟩] ∧ (parseRe p.toList).isSome = true := by
  unfold banOne at h
  split at h
  · cases h
  · rename_i t ht
    simp only [↓reduceIte, Res.ok.injEq] at h
    subst h
    exact ⟨rfl, by simp [ht]⟩

/-- Setting a ban stores the entry for the pattern as written *and* the entry for the
address-resolved pattern, and keeps every ban that was there. -/
theorem C13_ban_stores_both {ch ch' : Channel} {m p pa : String}
    (h : banBoth ch true m p pa = .ok ch') :
    (⟨m, p⟩ : Ban) ∈ ch'.bans ∧ (⟨m, pa⟩ : Ban) ∈ ch'.bans ∧ (∀ b ∈ ch.bans, b ∈ ch'.bans) := by
  unfold banBoth at h
  obtain ⟨ch1, h1, h2⟩ := Res.bind_eq_ok.1 h
  obtain ⟨e1, _⟩ := banOne_add h1
  by_cases hp : pa = p
  · subst hp
    simp only [bne_self_eq_false, Bool.false_eq_true, ↓reduceIte] at h2
    cases h2
    rw [e1]
    exact ⟨by simp, by simp, fun b hb => by simp [hb]⟩
  · have : (pa != p) = true := by simpa using hp
    simp only [this, ↓reduceIte] at h2
    obtain ⟨e2, _⟩ := banOne_add h2
    rw [e2, e1]
    exact ⟨by simp, by simp, fun b hb => by simp [hb]⟩

/-- A stored ban whose regexp matches either form of the user is found by `banned`: the answer is
never "not banned" (it is "banned", or the model declines a regexp outside its fragment). -/
theorem isBanned_of_mem {bans : List Ban} {b : Ban} {toks : List Tok} {uh uha : String}
    (hb : b ∈ bans) (hp : parseRe b.re.toList = some toks)
    (hm : (reMatch toks uh || reMatch toks uha) = true) :
    isBanned bans uh uha ≠ .ok false := by
  induction bans with
  | nil => cases hb
  | cons x rest ih =>
    unfold isBanned
    rcases List.mem_cons.1 hb with rfl | hr
    · rw [hp]; simp only [hm, ↓reduceIte]; intro h; cases h
    · split
      · intro h; cases h
      · split
        · intro h; cases h
        · exact ih hr

/-- **Ban evasion is closed.**  After `+b` with a mask that resolves to an address pattern `pa`,
any session whose address form `nick!user@remoteAddr` matches `pa` is refused admission to the
channel — whether or not it is the session that was named in the mask, and whatever invitation or
key it presents. -/
theorem C13_address_ban_blocks_join {ch ch' : Channel} {m p pa : String} {toks : List Tok}
    (h : banBoth ch true m p pa = .ok ch') (hp : parseRe pa.toList = some toks)
    (s : Session) (lc key : String)
    (hm : reMatch toks (s.nick ++ "!" ++ s.username ++ "@" ++ s.remoteAddr) = true) :
    joinAllowed s ch' lc key = false := by
  have hmem := (C13_ban_stores_both h).2.1
  have hne := isBanned_of_mem (uh := s.ircPrefix.str)
    (uha := s.nick ++ "!" ++ s.username ++ "@" ++ s.remoteAddr) hmem hp (by simp [hm])
  unfold joinAllowed
  cases hres : isBanned ch'.bans s.ircPrefix.str (s.nick ++ "!" ++ s.username ++ "@" ++ s.remoteAddr) with
  | ok b =>
    cases b with
    | false => exact absurd hres hne
    | true => simp
  | _ => simp

/-- …and the same for the pattern as written against the session-host form (the prefix). -/
theorem C13_host_ban_blocks_join {ch ch' : Channel} {m p pa : String} {toks : List Tok}
    (h : banBoth ch true m p pa = .ok ch') (hp : parseRe p.toList = some toks)
    (s : Session) (lc key : String)
    (hm : reMatch toks s.ircPrefix.str = true) :
    joinAllowed s ch' lc key = false := by
  have hmem := (C13_ban_stores_both h).1
  have hne := isBanned_of_mem (uh := s.ircPrefix.str)
    (uha := s.nick ++ "!" ++ s.username ++ "@" ++ s.remoteAddr) hmem hp (by simp [hm])
  unfold joinAllowed
  cases hres : isBanned ch'.bans s.ircPrefix.str (s.nick ++ "!" ++ s.username ++ "@" ++ s.remoteAddr) with
  | ok b =>
    cases b with
    | false => exact absurd hres hne
    | true => simp
  | _ => simp

/-- A later ban does not lift an earlier one: bans only accumulate under `+b`. -/
theorem C13_ban_monotone {ch ch' : Channel} {m p pa : String} {b : Ban}
    (h : banBoth ch true m p pa = .ok ch') (hb : b ∈ ch.bans) : b ∈ ch'.bans :=
  (C13_ban_stores_both h).2.2 b hb


/-! ## non-vacuity: the scenario end to end on a concrete state

bob (session 2) last spoke from 10.0.0.1; alice, channel operator of `#c`, types
`MODE #c +b *!*@robust/0x2`.  Both entries are in the ban list afterwards; `evil`, a brand-new session
(id 9) from 10.0.0.1 holding an invitation to the `+i` channel, fails the admission condition, and so does
bob himself through his session host; `carol` from elsewhere is not affected by the ban (she only lacks
the invitation). -/
namespace Ex
open Robust.Props.C13.Ex
def bobA : Session := { bob with remoteAddr := "10.0.0.1" }
def stA : St := { st0 with sessions := [(⟨1, 0⟩, alice), (⟨2, 0⟩, bobA), (⟨3, 0⟩, carol), (⟨4, 0⟩, dave)] }
def cA : Ctx := { st := stA, msgid := 7 }
def evil : Session := { id := ⟨9, 0⟩, nick := "evil", username := "e", loggedIn := true, invitedTo := ["#c"], ircPrefix := ⟨"evil", "e", "robust/0x9"⟩, remoteAddr := "10.0.0.1" }
def carolI : Session := { carol with invitedTo := ["#c"], remoteAddr := "10.0.0.2" }
def chanAfter : Option Channel :=
  match cmdMode cA aliceId ⟨none, "MODE", ["#c", "+b", "*!*@robust/0x2"]⟩ with
  | .ok c => AMap.get c.st.channels "#c"
  | _ => none
def pat : String := replaceAll (quoteMeta "*!*@robust/0x2") "\\*" ".*"
def resolved : Option String := match resolveSessionToRemoteAddr stA pat with | .ok x => some x | _ => none
def pHost : String := ".*!.*@robust/0x2"
def pAddr : String := ".*!.*@10.0.0.1"
def tHost : List Tok := [.star, .lit '!', .star, .lit '@', .lit 'r', .lit 'o', .lit 'b', .lit 'u', .lit 's', .lit 't', .lit '/', .lit '0', .lit 'x', .lit '2']
def tAddr : List Tok := [.star, .lit '!', .star, .lit '@', .lit '1', .lit '0', .any, .lit '0', .any, .lit '0', .any, .lit '1']
def chB : Channel := { chanC with bans := [⟨"*!*@robust/0x2", pHost⟩, ⟨"*!*@robust/0x2", pAddr⟩] }
def joinAllowed' : Bool × Bool := (joinAllowed evil chanC "#c" "", joinAllowed carolI chB "#c" "")
theorem hB : banBoth chanC true "*!*@robust/0x2" pHost pAddr = .ok chB := by rfl
theorem hHost : parseRe pHost.toList = some tHost := by decide +kernel
theorem hAddr : parseRe pAddr.toList = some tAddr := by decide +kernel
/-- what the model's `cmdMode` computes for alice's `MODE #c +b *!*@robust/0x2` on `stA` (the address is
substituted into the already quoted pattern, so its dots are regexp dots — as in the Go code) -/
theorem modeStoresBoth : (pat, resolved, chanAfter.map (·.bans)) = (pHost, some pAddr, some chB.bans) := by decide +kernel
end Ex
open Ex Robust.Props.C13.Ex in
example : joinAllowed evil chB "#c" "" = false ∧ joinAllowed bobA chB "#c" "" = false :=
  ⟨C13_address_ban_blocks_join hB hAddr evil "#c" "" (by decide +kernel),
   C13_host_ban_blocks_join hB hHost bobA "#c" "" (by decide +kernel)⟩
/-- the ban is what keeps `evil` out (let in before the ban), and it does not hit carol at 10.0.0.2 -/
example : Ex.joinAllowed' = (true, true) := by decide +kernel

end Robust.Props.C13Ban
