import Robust.Irc.Proofs.PrivHistB
import Robust.Irc.Proofs.FlagOriginHist
/-!
# C13 — privileged effects require the privilege

For every privileged command the *refusal frame*: if the acting session lacks the privilege, the
handler (when it returns normally) leaves the replicated state exactly as it was and addresses
every message it emits to the acting session only (`Refused c c' sid`:
`c'.st = c.st ∧ ∃ extra, c'.out = c.out ++ extra ∧ ∀ o ∈ extra, o.rcpt = [sid.id]`).

* channel operator (`chanOpOf st nick lc`): KICK, INVITE into `+i`, TOPIC on `+t`, MODE (also IRC operators);
* on the channel: TOPIC set/clear/query;
* IRC operator (`s.operator`): KILL, GLINE, PRIVMSG/NOTICE to `$…`;
* OPER sets the flag only for a `(name, password)` listed in `Config.IRC.Operators`;
  SERVER promotes the session only if `s.pass = "services=" ++ pw` for a configured `pw`
  (otherwise `ERROR :Invalid password`, the session stays open and unchanged);
  services handlers are dispatched only for sessions with `s.server = true`;
* JOIN of an existing channel: admission condition `joinAllowed`, one-shot invitations;
* history: chanop flags of an existing channel never appear through entries of sessions that are
  neither chanop of it, nor IRC operator, nor a services link (`C13_chanop_origin_partial`);
* history: a session's `operator` flag comes from an accepted `OPER` line of that session, or from the
  line that completes its registration when its PASS string has an `oper=<name> <password>` part
  (`maybeLogin` runs an automatic OPER) — in both cases with a pair listed in the configuration at
  that moment; a session's `server` flag comes from an accepted `SERVER` line of that session
  (`C13_oper_flag_history`, `C13_server_flag_history`; section 8).

Model notes.  The captcha path of JOIN (`+x` without invitation) is `.declined` in the model, so
for `+x` the theorems say "an invitation is required".  All theorems are conditional on the
handler returning `.ok` (C06 shows it never panics on invariant states).
Every theorem is followed by a non-vacuity example on the concrete state `Ex.st0`.
-/
namespace Robust.Props.C13
open Robust Robust.Irc

/-! ## the concrete state of the non-vacuity examples -/
namespace Ex
def alice : Session := { id := ⟨1, 0⟩, nick := "alice", username := "a", loggedIn := true, channels := ["#c"], ircPrefix := ⟨"alice", "a", "robust/0x1"⟩ }
def bob : Session := { id := ⟨2, 0⟩, nick := "bob", username := "b", loggedIn := true, channels := ["#c"], ircPrefix := ⟨"bob", "b", "robust/0x2"⟩ }
/-- carol is not on `#c`; she gave `PASS services=wrong` -/
def carol : Session := { id := ⟨3, 0⟩, nick := "carol", username := "c", loggedIn := true, ircPrefix := ⟨"carol", "c", "robust/0x3"⟩, pass := "services=wrong" }
/-- dave has just connected and gave `PASS services=sekrit` -/
def dave : Session := { id := ⟨4, 0⟩, pass := "services=sekrit" }
/-- `#c` (`+nti`): alice is channel operator, bob a plain member -/
def chanC : Channel := { name := "#c", nicks := [("alice", { chanop := true }), ("bob", {})], modes := ['n', 't', 'i'] }
def cfg : Config := { operators := [("root", "pw")], services := ["sekrit"] }
def st0 : St := { sessions := [(⟨1, 0⟩, alice), (⟨2, 0⟩, bob), (⟨3, 0⟩, carol), (⟨4, 0⟩, dave)], nicks := [("alice", ⟨1, 0⟩), ("bob", ⟨2, 0⟩), ("carol", ⟨3, 0⟩)], channels := [("#c", chanC)], config := cfg }
def c0 : Ctx := { st := st0, msgid := 7 }
def aliceId : Id := ⟨1, 0⟩
def bobId : Id := ⟨2, 0⟩
def carolId : Id := ⟨3, 0⟩
def daveId : Id := ⟨4, 0⟩
/-- state and recipient lists of a normal return -/
def result (r : Res Ctx) : Option (St × List (List Nat)) :=
  match r with
  | .ok c => some (c.st, c.out.map Out.rcpt)
  | _ => none
/-- normal return, state as in `st0`, every output addressed to `who` only -/
def unchanged (r : Res Ctx) (who : Nat) : Bool :=
  match result r with
  | some (st, rc) => decide (st = st0) && rc.all (· == [who])
  | none => false
theorem ok_of_result {r : Res Ctx} {st : St} {rc : List (List Nat)} (h : result r = some (st, rc)) :
    ∃ c', r = .ok c' ∧ c'.st = st := by
  cases r with
  | ok c => simp only [result, Option.some.injEq, Prod.mk.injEq] at h; exact ⟨c, rfl, h.1⟩
  | panic x => simp [result] at h
  | declined x => simp [result] at h
/-- the state satisfies the executable invariant -/
example : invB st0 = true := by decide
end Ex
open Ex

/-! ## 1. channel operator: KICK, INVITE, TOPIC -/

/-- KICK by a session that is not a channel operator of that channel (no such channel, not a
member, or a member without the flag): nobody is removed, nothing else changes, the only output
is a numeric to the actor. -/
theorem C13_kick_requires_chanop {c c' : Ctx} {sid : Id} {m : IrcMsg} {s : Session} {chn : String}
    (hs : AMap.get c.st.sessions sid = some s) (hp0 : m.params[0]? = some chn)
    (hnop : chanOpOf c.st s.nick (chanToLower chn) = false)
    (hr : cmdKick c sid m = .ok c') : Refused c c' sid :=
  cmdKick_refused hs hp0 hnop hr

/-- bob (plain member) kicks alice: refused, state as before, only bob is told -/
example : ∃ c', cmdKick c0 bobId ⟨none, "KICK", ["#c", "alice"]⟩ = .ok c' ∧ Refused c0 c' bobId :=
  ⟨_, rfl, C13_kick_requires_chanop (c := c0) (sid := bobId) (m := ⟨none, "KICK", ["#c", "alice"]⟩) (s := bob) (chn := "#c") (by decide) (by decide) (by decide) rfl⟩
example : unchanged (cmdKick c0 bobId ⟨none, "KICK", ["#c", "alice"]⟩) 2 = true := by decide
/-- contrast: alice (chanop) kicks bob: bob is removed, both are told -/
example : (result (cmdKick c0 aliceId ⟨none, "KICK", ["#c", "bob"]⟩)).map (fun r => (memberOf r.1 "bob" "#c", r.2))
    = some (none, [[1, 2]]) := by decide

/-- INVITE into an invite-only (`+i`) channel by a member without the chanop flag: no invitation is
recorded (state unchanged), the invitee is not notified. -/
theorem C13_invite_requires_chanop {c c' : Ctx} {sid : Id} {m : IrcMsg} {s : Session} {chn : String} {ch : Channel}
    (hs : AMap.get c.st.sessions sid = some s) (hp1 : m.params[1]? = some chn)
    (hch : AMap.get c.st.channels (chanToLower chn) = some ch) (hi : ch.modes.contains 'i' = true)
    (hnop : chanOpOf c.st s.nick (chanToLower chn) = false)
    (hr : cmdInvite c sid m = .ok c') : Refused c c' sid :=
  cmdInvite_refused hs hp1 hch hi hnop hr

example : ∃ c', cmdInvite c0 bobId ⟨none, "INVITE", ["carol", "#c"]⟩ = .ok c' ∧ Refused c0 c' bobId :=
  ⟨_, rfl, C13_invite_requires_chanop (c := c0) (sid := bobId) (m := ⟨none, "INVITE", ["carol", "#c"]⟩) (s := bob) (chn := "#c") (ch := chanC) (by decide) (by decide) (by decide)
    (by decide) (by decide) rfl⟩
/-- contrast: alice's INVITE records the invitation for carol -/
example : (result (cmdInvite c0 aliceId ⟨none, "INVITE", ["carol", "#c"]⟩)).map
    (fun r => (AMap.get r.1.sessions carolId).map (·.invitedTo)) = some (some ["#c"]) := by decide

/-- INVITE by a session that is not on the channel (whatever the channel modes): refused. -/
theorem C13_invite_requires_membership {c c' : Ctx} {sid : Id} {m : IrcMsg} {s : Session} {chn : String}
    (hs : AMap.get c.st.sessions sid = some s) (hp1 : m.params[1]? = some chn)
    (hnot : memberOf c.st s.nick (chanToLower chn) = none)
    (hr : cmdInvite c sid m = .ok c') : Refused c c' sid :=
  cmdInvite_refused_notOn hs hp1 hnot hr

example : ∃ c', cmdInvite c0 carolId ⟨none, "INVITE", ["carol", "#c"]⟩ = .ok c' ∧ Refused c0 c' carolId :=
  ⟨_, rfl, C13_invite_requires_membership (c := c0) (sid := carolId) (m := ⟨none, "INVITE", ["carol", "#c"]⟩) (s := carol) (chn := "#c") (by decide) (by decide) (by decide) rfl⟩

/-- TOPIC (set, clear or query) by a session that does not list the channel: nothing changes.
(`cmdTopic` tests the session's channel list; `C13_topic_requires_membership'` is the same
statement on the channel's member map, for states satisfying the invariant.) -/
theorem C13_topic_requires_membership {c c' : Ctx} {sid : Id} {m : IrcMsg} {s : Session} {chn : String}
    (hs : AMap.get c.st.sessions sid = some s) (hp0 : m.params[0]? = some chn)
    (hnot : s.channels.contains (chanToLower chn) = false)
    (hr : cmdTopic c sid m = .ok c') : Refused c c' sid :=
  cmdTopic_refused_notOn hs hp0 hnot hr

/-- carol is not on `#c`: neither setting nor clearing the topic has an effect -/
example : ∃ c', cmdTopic c0 carolId ⟨none, "TOPIC", ["#c", "x"]⟩ = .ok c' ∧ Refused c0 c' carolId :=
  ⟨_, rfl, C13_topic_requires_membership (c := c0) (sid := carolId) (m := ⟨none, "TOPIC", ["#c", "x"]⟩) (s := carol) (chn := "#c") (by decide) (by decide) (by decide) rfl⟩
example : unchanged (cmdTopic c0 carolId ⟨none, "TOPIC", ["#c", ""]⟩) 3 = true := by decide

theorem C13_topic_requires_membership' {c c' : Ctx} {sid : Id} {m : IrcMsg} {s : Session} {chn : String}
    (hw : WInv c.st) (hs : AMap.get c.st.sessions sid = some s) (hl : s.deleted = false) (hn : s.nick ≠ "")
    (hp0 : m.params[0]? = some chn) (hnot : memberOf c.st s.nick (chanToLower chn) = none)
    (hr : cmdTopic c sid m = .ok c') : Refused c c' sid :=
  cmdTopic_refused_notMember hw hs hl hn hp0 hnot hr

/-- TOPIC on a `+t` channel by a session without the chanop flag: the topic is neither set nor
cleared (a query is answered to the actor). -/
theorem C13_topic_requires_chanop_on_t {c c' : Ctx} {sid : Id} {m : IrcMsg} {s : Session} {chn : String} {ch : Channel}
    (hs : AMap.get c.st.sessions sid = some s) (hp0 : m.params[0]? = some chn)
    (hch : AMap.get c.st.channels (chanToLower chn) = some ch) (ht : ch.modes.contains 't' = true)
    (hnop : chanOpOf c.st s.nick (chanToLower chn) = false)
    (hr : cmdTopic c sid m = .ok c') : Refused c c' sid :=
  cmdTopic_refused_t hs hp0 hch ht hnop hr

example : ∃ c', cmdTopic c0 bobId ⟨none, "TOPIC", ["#c", "new topic"]⟩ = .ok c' ∧ Refused c0 c' bobId :=
  ⟨_, rfl, C13_topic_requires_chanop_on_t (c := c0) (sid := bobId) (m := ⟨none, "TOPIC", ["#c", "new topic"]⟩) (s := bob) (chn := "#c") (ch := chanC) (by decide) (by decide) (by decide)
    (by decide) (by decide) rfl⟩
example : unchanged (cmdTopic c0 bobId ⟨none, "TOPIC", ["#c", ""]⟩) 2 = true := by decide
/-- contrast: alice sets the topic -/
example : (result (cmdTopic c0 aliceId ⟨none, "TOPIC", ["#c", "new topic"]⟩)).map
    (fun r => (AMap.get r.1.channels "#c").map (·.topic)) = some (some "new topic") := by decide

/-! ## 2. MODE on a channel -/

/-- MODE on a channel the actor is on, the actor being neither channel operator there nor IRC
operator: the state is unchanged — modes, key, ban list, chanop flags — whatever the mode string
(every letter of a multi-letter string, with or without parameters, `+b`/`-b` with a mask); the
ban-list query (`+b` without mask) and the mode query are answered to the actor only. -/
theorem C13_mode_requires_chanop_or_oper {c c' : Ctx} {sid : Id} {m : IrcMsg} {s : Session} {chn : String}
    (hs : AMap.get c.st.sessions sid = some s) (hp0 : m.params[0]? = some chn)
    (hon : s.channels.contains (chanToLower chn) = true)
    (hnop : chanOpOf c.st s.nick (chanToLower chn) = false) (hno : s.operator = false)
    (hr : cmdMode c sid m = .ok c') : Refused c c' sid :=
  cmdMode_refused hs hp0 hon hnop hno hr

/-- bob tries `+o bob`, `-t`, a ban and a key in one mode string: nothing happens -/
example : ∃ c', cmdMode c0 bobId ⟨none, "MODE", ["#c", "+o-t+bk", "bob", "x!*@*", "key"]⟩ = .ok c' ∧ Refused c0 c' bobId :=
  ⟨_, rfl, C13_mode_requires_chanop_or_oper (c := c0) (sid := bobId) (m := ⟨none, "MODE", ["#c", "+o-t+bk", "bob", "x!*@*", "key"]⟩) (s := bob) (chn := "#c") (by decide) (by decide) (by decide) (by decide)
    (by decide) rfl⟩
example : unchanged (cmdMode c0 bobId ⟨none, "MODE", ["#c", "-o+b", "alice", "alice!*@*"]⟩) 2 = true := by decide
/-- contrast: alice's `+o bob` makes bob a channel operator -/
example : (result (cmdMode c0 aliceId ⟨none, "MODE", ["#c", "+o", "bob"]⟩)).map (fun r => chanOpOf r.1 "bob" "#c")
    = some true := by decide +kernel

/-- … and whether or not the actor is on the channel: no channel changes at all (off the channel
the handler treats the target as a nickname; that branch never touches a channel). -/
theorem C13_mode_channels_unchanged {c c' : Ctx} {sid : Id} {m : IrcMsg} {s : Session} {chn : String}
    (hs : AMap.get c.st.sessions sid = some s) (hp0 : m.params[0]? = some chn)
    (hnop : chanOpOf c.st s.nick (chanToLower chn) = false) (hno : s.operator = false)
    (hr : cmdMode c sid m = .ok c') : c'.st.channels = c.st.channels :=
  cmdMode_channels_unchanged hs hp0 hnop hno hr

/-- carol is not on `#c` -/
example : ∃ c', cmdMode c0 carolId ⟨none, "MODE", ["#c", "+o", "carol"]⟩ = .ok c' ∧ c'.st.channels = c0.st.channels :=
  ⟨_, rfl, C13_mode_channels_unchanged (c := c0) (sid := carolId) (m := ⟨none, "MODE", ["#c", "+o", "carol"]⟩) (s := carol)
    (chn := "#c") (by decide) (by decide) (by decide) (by decide) rfl⟩

/-- MODE naming something the actor is not on and that is not its own nickname, by a non-operator:
nothing changes. -/
theorem C13_mode_off_channel_refused {c c' : Ctx} {sid : Id} {m : IrcMsg} {s : Session} {chn : String}
    (hs : AMap.get c.st.sessions sid = some s) (hp0 : m.params[0]? = some chn)
    (hon : s.channels.contains (chanToLower chn) = false)
    (hne : nickToLower chn ≠ nickToLower s.nick) (hno : s.operator = false)
    (hr : cmdMode c sid m = .ok c') : Refused c c' sid :=
  cmdMode_notOn_refused hs hp0 hon hne hno hr

example : ∃ c', cmdMode c0 carolId ⟨none, "MODE", ["#c", "+o", "carol"]⟩ = .ok c' ∧ Refused c0 c' carolId :=
  ⟨_, rfl, C13_mode_off_channel_refused (c := c0) (sid := carolId) (m := ⟨none, "MODE", ["#c", "+o", "carol"]⟩) (s := carol) (chn := "#c") (by decide) (by decide) (by decide) (by decide)
    (by decide) rfl⟩

/-! ## 3. IRC operator: KILL, GLINE, network-wide notices -/

theorem C13_kill_requires_oper {c c' : Ctx} {sid : Id} {m : IrcMsg} {s : Session}
    (hs : AMap.get c.st.sessions sid = some s) (hno : s.operator = false)
    (hr : cmdKill c sid m = .ok c') : Refused c c' sid :=
  cmdKill_refused hs hno hr

example : ∃ c', cmdKill c0 bobId ⟨none, "KILL", ["alice", "bye"]⟩ = .ok c' ∧ Refused c0 c' bobId :=
  ⟨_, rfl, C13_kill_requires_oper (c := c0) (sid := bobId) (m := ⟨none, "KILL", ["alice", "bye"]⟩) (s := bob) (by decide) (by decide) rfl⟩

theorem C13_gline_requires_oper {c c' : Ctx} {sid : Id} {m : IrcMsg} {s : Session}
    (hs : AMap.get c.st.sessions sid = some s) (hno : s.operator = false)
    (hr : cmdGline c sid m = .ok c') : Refused c c' sid :=
  cmdGline_refused hs hno hr

example : ∃ c', cmdGline c0 bobId ⟨none, "GLINE", ["alice", "bye"]⟩ = .ok c' ∧ Refused c0 c' bobId :=
  ⟨_, rfl, C13_gline_requires_oper (c := c0) (sid := bobId) (m := ⟨none, "GLINE", ["alice", "bye"]⟩) (s := bob) (by decide) (by decide) rfl⟩

/-- PRIVMSG / NOTICE to a `$…` target by a non-operator reaches nobody but the actor (numeric 481). -/
theorem C13_global_notice_requires_oper {c c' : Ctx} {sid : Id} {m : IrcMsg} {s : Session} {p0 : String}
    (hs : AMap.get c.st.sessions sid = some s) (hno : s.operator = false)
    (hp0 : m.params[0]? = some p0) (hh : hasPrefix p0 "#" = false) (hd : hasPrefix p0 "$" = true)
    (hr : cmdPrivmsg c sid m = .ok c') : Refused c c' sid :=
  cmdPrivmsg_dollar_refused hs hno hp0 hh hd hr

example : ∃ c', cmdPrivmsg c0 bobId ⟨none, "NOTICE", ["$*", "hello all"]⟩ = .ok c' ∧ Refused c0 c' bobId :=
  ⟨_, rfl, C13_global_notice_requires_oper (c := c0) (sid := bobId) (m := ⟨none, "NOTICE", ["$*", "hello all"]⟩) (s := bob) (p0 := "$*") (by decide) (by decide) (by decide) (by decide)
    (by decide) rfl⟩

/-! ## 4. OPER, SERVER, dispatch of services commands -/

/-- OPER with a `(name, password)` pair that is not configured: nothing changes. -/
theorem C13_oper_requires_configured_credentials {c c' : Ctx} {sid : Id} {m : IrcMsg} {s : Session}
    {name password : String}
    (hs : AMap.get c.st.sessions sid = some s) (hp0 : m.params[0]? = some name) (hp1 : m.params[1]? = some password)
    (hno : operListed c.st.config name password = false)
    (hr : cmdOper c sid m = .ok c') : Refused c c' sid :=
  cmdOper_refused hs hp0 hp1 hno hr

example : ∃ c', cmdOper c0 bobId ⟨none, "OPER", ["root", "wrong"]⟩ = .ok c' ∧ Refused c0 c' bobId :=
  ⟨_, rfl, C13_oper_requires_configured_credentials (c := c0) (sid := bobId) (m := ⟨none, "OPER", ["root", "wrong"]⟩) (s := bob) (name := "root") (password := "wrong") (by decide)
    (by decide) (by decide) (by decide) rfl⟩
/-- contrast: the configured pair turns the flag on -/
example : (result (cmdOper c0 bobId ⟨none, "OPER", ["root", "pw"]⟩)).map
    (fun r => (AMap.get r.1.sessions bobId).map (·.operator)) = some (some true) := by decide

/-- if OPER turned the actor's operator flag on, the pair was configured -/
theorem C13_oper_flag_only_if_listed {c c' : Ctx} {sid : Id} {m : IrcMsg} {s s' : Session} {name password : String}
    (hs : AMap.get c.st.sessions sid = some s) (hp0 : m.params[0]? = some name) (hp1 : m.params[1]? = some password)
    (hr : cmdOper c sid m = .ok c') (hs' : AMap.get c'.st.sessions sid = some s')
    (hbefore : s.operator = false) (hafter : s'.operator = true) :
    operListed c.st.config name password = true := by
  cases h : operListed c.st.config name password with
  | true => rfl
  | false =>
    have := (cmdOper_refused hs hp0 hp1 h hr).st
    rw [this, hs] at hs'
    cases hs'
    rw [hbefore] at hafter
    cases hafter

/-- bob's successful OPER: the hypotheses hold with `s' = bob` plus the flag, the pair is the configured one -/
example : operListed cfg "root" "pw" = true :=
  C13_oper_flag_only_if_listed (c := c0) (sid := bobId) (m := ⟨none, "OPER", ["root", "pw"]⟩) (s := bob)
    (s' := { bob with operator := true, modes := ['o'] }) (c' := _) (by decide) (by decide) (by decide) rfl (by decide)
    (by decide) (by decide)

/-- SERVER from a session whose PASS is not `services=<configured password>`: `ERROR :Invalid
password` to the actor; the session is neither promoted to a services link nor closed. -/
theorem C13_server_requires_services_password {c c' : Ctx} {sid : Id} {m : IrcMsg} {s : Session}
    (hs : AMap.get c.st.sessions sid = some s) (hno : servicesAuth c.st.config s.pass = false)
    (hr : cmdServer c sid m = .ok c') : Refused c c' sid :=
  cmdServer_refused hs hno hr

example : ∃ c', cmdServer c0 carolId ⟨none, "SERVER", ["services.x", "1"]⟩ = .ok c' ∧ Refused c0 c' carolId :=
  ⟨_, rfl, C13_server_requires_services_password (c := c0) (sid := carolId) (m := ⟨none, "SERVER", ["services.x", "1"]⟩) (s := carol) (by decide) (by decide) rfl⟩

/-- if SERVER turned the actor's `server` flag on, the password was configured -/
theorem C13_server_flag_only_if_authenticated {c c' : Ctx} {sid : Id} {m : IrcMsg} {s s' : Session}
    (hs : AMap.get c.st.sessions sid = some s)
    (hr : cmdServer c sid m = .ok c') (hs' : AMap.get c'.st.sessions sid = some s')
    (hbefore : s.server = false) (hafter : s'.server = true) :
    servicesAuth c.st.config s.pass = true := by
  cases h : servicesAuth c.st.config s.pass with
  | true => rfl
  | false =>
    have := (cmdServer_refused hs h hr).st
    rw [this, hs] at hs'
    cases hs'
    rw [hbefore] at hafter
    cases hafter

/-- dave's SERVER after `PASS services=sekrit` promotes the session to a services link (on a state
without registered users, so that the burst is empty) -/
def Ex.cD : Ctx := { st := { sessions := [(⟨4, 0⟩, dave)], config := cfg }, msgid := 7 }
def Ex.daveS : Session := { dave with server := true, ircPrefix := ⟨"services.x", "", ""⟩ }
example : servicesAuth cfg dave.pass = true := by
  obtain ⟨c', hr, hst⟩ := ok_of_result (r := cmdServer cD daveId ⟨none, "SERVER", ["services.x", "1"]⟩)
    (st := { sessions := [(⟨4, 0⟩, daveS)], config := cfg, serverSessions := [4] }) (rc := [[4]]) (by decide +kernel)
  exact C13_server_flag_only_if_authenticated (c := cD) (sid := daveId) (s := dave) (s' := daveS) (by decide) hr
    (by rw [hst]; decide) (by decide) (by decide)

/-- the regenerated command table: services handlers (`cmdServerInvite … cmdServerTopic`) are
registered under `server_…` keys only -/
theorem C13_services_handlers_under_server_keys :
    Gen.Commands.commands.all (fun e =>
      (startsLowerS e.1 || !isServicesHandlerName e.2.1) && (startsLowerS e.1 == hasPrefix e.1 "server_")) = true :=
  table_services_keys

/-- the dispatch for a session that is not a services link: a numeric to the actor, or a handler
that is not a services handler (`ClientDispatched`) -/
theorem C13_dispatch_client {c c' : Ctx} {s : Session} {m : IrcMsg} {x : String}
    (hsv : s.server = false) (hr : dispatchStage c s m (toUpper x) = .ok c') :
    ClientDispatched c s m (toUpper x) c' :=
  dispatchStage_client hsv hr

/-- bob types `SVSMODE` (a services command): for a client session that is an unknown command -/
example : ∃ c', dispatchStage c0 bob ⟨none, "svsmode", ["alice", "+o"]⟩ (toUpper "svsmode") = .ok c' ∧
    ClientDispatched c0 bob ⟨none, "svsmode", ["alice", "+o"]⟩ (toUpper "svsmode") c' ∧ c'.st = st0 := by
  obtain ⟨c', hr, hst⟩ := ok_of_result (r := dispatchStage c0 bob ⟨none, "svsmode", ["alice", "+o"]⟩ (toUpper "svsmode"))
    (st := st0) (rc := [[2]]) (by decide +kernel)
  exact ⟨c', hr, C13_dispatch_client (by decide) hr, hst⟩

/-- `ProcessMessage` on a line of a session with `server = false` (on an invariant state): the
remote-address stage keeps the flag, and the line is then gated and dispatched as a client line
(`gateStage`, for which `gateStage_client` / `C13_dispatch_client` apply): no services handler runs. -/
theorem C13_services_commands_need_link {c c' : Ctx} {e : Entry} {m : IrcMsg} {s : Session}
    (hp : Pre c e.session) (hn : NI c.st) (hs : AMap.get c.st.sessions e.session = some s) (hsv : s.server = false)
    (hr : processMessage c e (some m) = .ok c') :
    ∃ c1 b, addrStage c e s = .ok (c1, b) ∧ (b = true → c' = c1) ∧
      (b = false → ∃ s1, AMap.get c1.st.sessions e.session = some s1 ∧ s1.server = false ∧
        (ClientDispatched c1 s1 m (toUpper m.command) c' ∨
          (s1.loggedIn = false ∧
            (c' = sendUser c1 s1.id (srv c1 "451" [toUpper m.command, "You have not registered"]) ∨
             deleteSession (sendUser (sendUser c1 s1.id (srv c1 "451" [toUpper m.command, "You have not registered"])) s1.id
               ⟨none, "ERROR", ["Closing Link: You have not registered within 10 minutes"]⟩) s1.id = .ok c')))) := by
  obtain ⟨c1, b, h1, h2, h3⟩ := processMessage_client hp hn hs hsv hr
  refine ⟨c1, b, h1, h2, fun hb => ?_⟩
  obtain ⟨s1, hs1, hsv1, hg⟩ := h3 hb
  exact ⟨s1, hs1, hsv1, gateStage_client hs1 hsv1 hg⟩

/-! ## 5. JOIN of an existing channel -/

/-- JOIN of an existing channel whose admission condition (`joinAllowed`: invitation on `+i` and on
`+x`, no matching ban, exact key on `+k`) fails: the session does not become a member, nothing
changes (in particular an invitation is not consumed). -/
theorem C13_join_refused {c c' : Ctx} {sid : Id} {s : Session} {chn key : String} {ch : Channel}
    (hs : AMap.get c.st.sessions sid = some s)
    (hch : AMap.get c.st.channels (chanToLower chn) = some ch)
    (hno : joinAllowed s ch (chanToLower chn) key = false)
    (hr : joinOne c sid chn key = .ok c') : Refused c c' sid :=
  joinOne_refused hs hch hno hr

/-- carol has no invitation for the `+i` channel `#c` -/
example : ∃ c', joinOne c0 carolId "#c" "" = .ok c' ∧ Refused c0 c' carolId :=
  ⟨_, rfl, C13_join_refused (c := c0) (sid := carolId) (chn := "#c") (key := "") (s := carol) (ch := chanC)
    (by decide) (by decide) (by decide) rfl⟩

/-- a session that was not a member of the existing channel and is one after the JOIN satisfied
the admission condition -/
theorem C13_join_member_only_if {c c' : Ctx} {sid : Id} {s : Session} {chn key : String} {ch : Channel}
    (hs : AMap.get c.st.sessions sid = some s)
    (hch : AMap.get c.st.channels (chanToLower chn) = some ch)
    (hbefore : memberOf c.st s.nick (chanToLower chn) = none)
    (hafter : memberOf c'.st s.nick (chanToLower chn) ≠ none)
    (hr : joinOne c sid chn key = .ok c') : joinAllowed s ch (chanToLower chn) key = true :=
  joinOne_member_only_if hs hch hbefore hafter hr

namespace Ex
/-- the context after alice's `INVITE carol #c` -/
def c1 : Ctx :=
  match cmdInvite c0 aliceId ⟨none, "INVITE", ["carol", "#c"]⟩ with
  | .ok c => c
  | _ => c0
def carol1 : Session := { carol with invitedTo := ["#c"] }
end Ex
/-- carol, invited, joins `#c`: not a member before, a member after, and the condition holds -/
example : ∃ c', joinOne c1 carolId "#c" "" = .ok c' ∧ joinAllowed carol1 chanC "#c" "" = true :=
  ⟨_, rfl, C13_join_member_only_if (c := c1) (sid := carolId) (s := carol1) (chn := "#c") (key := "") (ch := chanC)
    (by decide) (by decide) (by decide) (by decide) rfl⟩

/-- the same for the command `JOIN <chn> [<key>]` with a single channel name -/
theorem C13_cmdJoin_member_only_if {c c' : Ctx} {sid : Id} {m : IrcMsg} {s : Session} {chn : String} {ch : Channel}
    (hs : AMap.get c.st.sessions sid = some s) (hp0 : m.params[0]? = some chn) (hc : ',' ∉ chn.toList)
    (hch : AMap.get c.st.channels (chanToLower chn) = some ch)
    (hbefore : memberOf c.st s.nick (chanToLower chn) = none)
    (hafter : memberOf c'.st s.nick (chanToLower chn) ≠ none)
    (hr : cmdJoin c sid m = .ok c') : joinAllowed s ch (chanToLower chn) (firstJoinKey m) = true :=
  joinOne_member_only_if hs hch hbefore hafter (cmdJoin_single_ok hp0 hc hr)

example : ∃ c', cmdJoin c1 carolId ⟨none, "JOIN", ["#c"]⟩ = .ok c' ∧
    joinAllowed carol1 chanC "#c" (firstJoinKey ⟨none, "JOIN", ["#c"]⟩) = true :=
  ⟨_, rfl, C13_cmdJoin_member_only_if (c := c1) (sid := carolId) (m := ⟨none, "JOIN", ["#c"]⟩) (s := carol1) (chn := "#c")
    (ch := chanC) (by decide) (by decide) (by decide) (by decide) (by decide) (by decide) rfl⟩

theorem C13_cmdJoin_refused {c c' : Ctx} {sid : Id} {m : IrcMsg} {s : Session} {chn : String} {ch : Channel}
    (hs : AMap.get c.st.sessions sid = some s) (hp0 : m.params[0]? = some chn) (hc : ',' ∉ chn.toList)
    (hch : AMap.get c.st.channels (chanToLower chn) = some ch)
    (hno : joinAllowed s ch (chanToLower chn) (firstJoinKey m) = false)
    (hr : cmdJoin c sid m = .ok c') : Refused c c' sid :=
  joinOne_refused hs hch hno (cmdJoin_single_ok hp0 hc hr)

example : ∃ c', cmdJoin c0 carolId ⟨none, "JOIN", ["#c"]⟩ = .ok c' ∧ Refused c0 c' carolId :=
  ⟨_, rfl, C13_cmdJoin_refused (c := c0) (sid := carolId) (m := ⟨none, "JOIN", ["#c"]⟩) (s := carol) (chn := "#c") (ch := chanC) (by decide) (by decide) (by decide) (by decide)
    (by decide) rfl⟩

/-- invitations are valid once: an admitted JOIN of a `+i`/`+x` channel removes the invitation
(also when the session already was a member); operator and server flags are untouched. -/
theorem C13_join_consumes_invitation {c c' : Ctx} {sid : Id} {s : Session} {chn key : String} {ch : Channel}
    (hs : AMap.get c.st.sessions sid = some s) (hid : s.id = sid)
    (hv : isValidChannel chn = true)
    (hch : AMap.get c.st.channels (chanToLower chn) = some ch)
    (hyes : joinAllowed s ch (chanToLower chn) key = true)
    (hr : joinOne c sid chn key = .ok c') :
    ∃ s', AMap.get c'.st.sessions sid = some s' ∧
      s'.invitedTo = (if ch.modes.contains 'i' || ch.modes.contains 'x'
        then s.invitedTo.filter (· ≠ chanToLower chn) else s.invitedTo) ∧
      s'.operator = s.operator ∧ s'.server = s.server :=
  joinOne_admitted hs hid hv hch hyes hr

example : ∃ c' s', joinOne c1 carolId "#c" "" = .ok c' ∧ AMap.get c'.st.sessions carolId = some s' ∧ s'.invitedTo = [] := by
  obtain ⟨s', h1, h2, _⟩ := C13_join_consumes_invitation (c := c1) (sid := carolId) (s := carol1) (chn := "#c") (key := "")
    (ch := chanC) (c' := _) (by decide) (by decide) (by decide) (by decide) (by decide) rfl
  exact ⟨_, s', rfl, h1, h2.trans (by decide)⟩

/-- after alice's INVITE carol may join once: she becomes a plain member and the invitation is gone -/
example : (match cmdInvite c0 aliceId ⟨none, "INVITE", ["carol", "#c"]⟩ with
    | .ok c1 => (result (cmdJoin c1 carolId ⟨none, "JOIN", ["#c"]⟩)).map
        (fun r => (memberOf r.1 "carol" "#c", (AMap.get r.1.sessions carolId).map (·.invitedTo)))
    | _ => none) = some (some { chanop := false }, some []) := by decide

/-! ## 6. history: where chanop flags come from -/

/-- One committed client entry (IRCFromClient) whose actor is not a services link, not an IRC
operator and not a channel operator of the existing channel `lc`: no member key of `lc` gains the
chanop flag (`OpsMono st st' lc`).  Hence, for clients, a chanop flag appears only through
`MODE +o` by a chanop of that channel or by an IRC operator, or through the JOIN that creates the
channel (a NICK change moves the flag with the nick).  Partial: flags are tracked by member key;
entries of services links are outside. -/
theorem C13_chanop_origin_partial {st st' : St} {e : Entry} {out : List Out} {s : Session} {lc : String}
    (ht : e.type = 2) (hs : AMap.get st.sessions e.session = some s) (hid : s.id = e.session)
    (hsv : s.server = false) (hno : s.operator = false)
    (hnop : chanOpOf st s.nick lc = false) (hex : (AMap.get st.channels lc).isSome = true)
    (hr : applyEntry st e = .ok (st', out)) : OpsMono st st' lc :=
  applyEntry_client_ops_partial ht hs hid hsv hno hnop hex hr

/-- on states satisfying the invariant sessions are stored under their id (`hid` above) -/
theorem C13_chanop_origin_partial' {st st' : St} {e : Entry} {out : List Out} {s : Session} {lc : String}
    (hg : GInv st) (ht : e.type = 2) (hs : AMap.get st.sessions e.session = some s)
    (hsv : s.server = false) (hno : s.operator = false)
    (hnop : chanOpOf st s.nick lc = false) (hex : (AMap.get st.channels lc).isSome = true)
    (hr : applyEntry st e = .ok (st', out)) : OpsMono st st' lc :=
  applyEntry_client_ops_partial ht hs (hg.inv.sessId _ _ hs).1 hsv hno hnop hex hr

/-- the committed entry "bob: MODE #c +o bob" on `st0` -/
def Ex.eMode : Entry :=
  { type := 2, id := 9, session := ⟨2, 0⟩, data := "MODE #c +o bob", unixNano := 0, cmid := 1, rev := 0,
    remoteAddr := "", cfg := none }
def Ex.entrySt (r : Res (St × List Out)) : Option St :=
  match r with
  | .ok p => some p.1
  | _ => none
theorem Ex.entrySt_some {r : Res (St × List Out)} (h : (entrySt r).isSome = true) : ∃ st' out, r = .ok (st', out) := by
  cases r with
  | ok p => exact ⟨p.1, p.2, rfl⟩
  | panic x => simp [entrySt] at h
  | declined x => simp [entrySt] at h
theorem Ex.eMode_ok : ∃ st' out, applyEntry st0 eMode = .ok (st', out) :=
  entrySt_some (by decide +kernel)
example : ∃ st' out, applyEntry st0 eMode = .ok (st', out) ∧ OpsMono st0 st' "#c" := by
  obtain ⟨st', out, h⟩ := eMode_ok
  exact ⟨st', out, h, C13_chanop_origin_partial (s := bob) (by decide) (by decide) (by decide) (by decide) (by decide)
    (by decide) (by decide) h⟩
example : (entrySt (applyEntry st0 eMode)).map (fun st => chanOpOf st "bob" "#c") = some false := by decide +kernel

/-- over histories: as long as only unprivileged sessions act (`UnprivHistory lc`), the chanop
flags of `lc` at the end are among those at the start -/
theorem C13_chanop_history_partial {lc : String} {st st' : St} {es : List Entry} (h : GInv st) (hw : WfHistory st es)
    (hu : UnprivHistory lc st es) (hr : runEntries st es = .ok st') : OpsMono st st' lc :=
  run_ops_partial h hw hu hr

namespace Ex
def mk (ty id : Nat) (sess : Id) (data : String) : Entry :=
  { type := ty, id := id, session := sess, data := data, unixNano := 0, cmid := id, rev := 0, remoteAddr := "", cfg := none }
/-- alice creates `#c` (and so is its operator), bob joins it, carol registers but stays outside -/
def es0 : List Entry := [
  mk 0 1 ⟨0, 0⟩ "auth1", mk 2 2 ⟨1, 0⟩ "NICK alice", mk 2 3 ⟨1, 0⟩ "USER a 0 * :Alice", mk 2 4 ⟨1, 0⟩ "JOIN #c",
  mk 0 5 ⟨0, 0⟩ "auth2", mk 2 6 ⟨5, 0⟩ "NICK bob", mk 2 7 ⟨5, 0⟩ "USER b 0 * :Bob", mk 2 8 ⟨5, 0⟩ "JOIN #c",
  mk 0 9 ⟨0, 0⟩ "auth3", mk 2 10 ⟨9, 0⟩ "NICK carol", mk 2 11 ⟨9, 0⟩ "USER c 0 * :Carol"]
def aliceR : Session := { id := ⟨1, 0⟩, auth := "auth1", loggedIn := true, nick := "alice", username := "a", realname := "Alice", channels := ["#c"], lastActivity := 4, lastNonPing := 4, created := 1, svid := "0", lastClientMessageId := 4, ircPrefix := ⟨"alice", "a", "robust/0x1"⟩ }
def bobR : Session := { id := ⟨5, 0⟩, auth := "auth2", loggedIn := true, nick := "bob", username := "b", realname := "Bob", channels := ["#c"], lastActivity := 8, lastNonPing := 8, created := 5, svid := "0", lastClientMessageId := 8, ircPrefix := ⟨"bob", "b", "robust/0x5"⟩ }
def carolR : Session := { id := ⟨9, 0⟩, auth := "auth3", loggedIn := true, nick := "carol", username := "c", realname := "Carol", lastActivity := 11, lastNonPing := 11, created := 9, svid := "0", lastClientMessageId := 11, ircPrefix := ⟨"carol", "c", "robust/0x9"⟩ }
/-- the state reached from the initial state by `es0` (`run0` below) -/
def stR : St := { sessions := [(⟨1, 0⟩, aliceR), (⟨5, 0⟩, bobR), (⟨9, 0⟩, carolR)], nicks := [("alice", ⟨1, 0⟩), ("bob", ⟨5, 0⟩), ("carol", ⟨9, 0⟩)], channels := [("#c", { name := "#c", nicks := [("alice", { chanop := true }), ("bob", {})], modes := ['n', 't'] })], lastProcessed := ⟨9, 0⟩ }
/-- bob tries to get at the operator status: MODE +o, KICK, NICK change, TOPIC, PART and re-JOIN -/
def es1 : List Entry := [
  mk 2 12 ⟨5, 0⟩ "MODE #c +o bob", mk 2 13 ⟨5, 0⟩ "KICK #c alice", mk 2 14 ⟨5, 0⟩ "NICK robert",
  mk 2 15 ⟨5, 0⟩ "TOPIC #c :mine", mk 2 16 ⟨5, 0⟩ "PART #c", mk 2 17 ⟨5, 0⟩ "JOIN #c"]
def stEnd : St := (runOk stR es1).getD {}
theorem run0 : runOk {} es0 = some stR := by decide +kernel
theorem wf0 : histB none {} es0 = true := by decide +kernel
theorem run1 : runOk stR es1 = some stEnd := by decide +kernel
theorem unpriv1 : histB (some "#c") stR es1 = true := by decide +kernel
/-- `stR` is reachable, hence satisfies the full invariant -/
theorem ginvR : GInv stR := run_preserves GInv_init (wf_of_histB wf0) (runOk_some run0)
end Ex

/-- the hypotheses of `C13_chanop_history_partial` hold for bob's six attempts on the reachable state `stR` … -/
example : OpsMono stR stEnd "#c" :=
  C13_chanop_history_partial ginvR (wf_of_histB unpriv1) (unpriv_of_histB unpriv1) (runOk_some run1)
/-- … and indeed alice is still the only operator at the end (bob, now "robert", re-joined as a plain member) -/
example : (AMap.get stEnd.channels "#c").map (fun ch => ch.nicks) =
    some [("alice", { chanop := true }), ("robert", { chanop := false })] := by decide +kernel

/-- NICK: a key that carries the flag afterwards carried it before, or it is the actor's new key
and the actor's old key carried it (the flag moves with the nick) -/
theorem C13_nick_moves_chanop_partial {c c' : Ctx} {sid : Id} {m : IrcMsg} {s : Session} {lc : String}
    (hs : AMap.get c.st.sessions sid = some s) (hr : cmdNick c sid m = .ok c') :
    ∀ n, opFlagC c'.st.channels lc n = true →
      opFlagC c.st.channels lc n = true ∨
      (n = nickToLower (m.params.head?.getD "") ∧ opFlagC c.st.channels lc (nickToLower s.nick) = true) :=
  cmdNick_ops_partial hs hr

/-- alice (chanop of `#c`) changes her nick: the flag is now under "alicia" -/
example : (result (cmdNick c0 aliceId ⟨none, "NICK", ["alicia"]⟩)).map
    (fun r => (chanOpOf r.1 "alicia" "#c", memberOf r.1 "alice" "#c")) = some (true, none) := by decide +kernel

/-- KICK, PART, QUIT, KILL, GLINE, TOPIC, INVITE, AWAY, OPER, USER, PASS, SERVER never set a chanop
flag, whoever runs them -/
theorem C13_removal_commands_set_no_chanop :
    OpsAll cmdKick ∧ OpsAll cmdPart ∧ OpsAll cmdQuit ∧ OpsAll cmdKill ∧ OpsAll cmdGline ∧ OpsAll cmdTopic ∧
    OpsAll cmdInvite ∧ OpsAll cmdAway ∧ OpsAll cmdOper ∧ OpsAll cmdUser ∧ OpsAll cmdPass ∧ OpsAll cmdServer :=
  ⟨cmdKick_ops, cmdPart_ops, cmdQuit_ops, cmdKill_ops, cmdGline_ops, cmdTopic_ops, cmdInvite_ops, cmdAway_ops,
    cmdOper_ops, cmdUser_ops, cmdPass_ops, cmdServer_ops⟩

/-! ## 7. examples on a reachable state (for the theorems that assume the invariant) -/

namespace Ex
theorem bobR_stored : AMap.get stR.sessions ⟨5, 0⟩ = some bobR := by decide
def cR : Ctx := { st := stR, msgid := 20 }
def eSvs : Entry := mk 2 20 ⟨5, 0⟩ "SVSMODE bob +o"
def mSvs : IrcMsg := ⟨none, "SVSMODE", ["bob", "+o"]⟩
example : parseMessage eSvs.data = some mSvs := by decide +kernel
end Ex

/-- bob, a client session of the reachable state, sends the services command `SVSMODE bob +o`:
`ProcessMessage` treats it as a client line (421 Unknown command), nothing changes -/
example : ∃ c', processMessage cR eSvs (some mSvs) = .ok c' ∧ c'.st = stR ∧
    ∃ c1 b, addrStage cR eSvs bobR = .ok (c1, b) ∧ (b = false → ∃ s1, AMap.get c1.st.sessions eSvs.session = some s1 ∧
      s1.server = false) := by
  obtain ⟨c', hr, hst⟩ := ok_of_result (r := processMessage cR eSvs (some mSvs)) (st := stR) (rc := [[5]]) (by decide +kernel)
  obtain ⟨c1, b, h1, _, h3⟩ := C13_services_commands_need_link (c := cR) (e := eSvs) (s := bobR)
    ⟨ginvR.inv, ginvR.linv, ⟨_, bobR_stored⟩, rfl⟩ ginvR.ni bobR_stored (by decide) hr
  exact ⟨c', hr, hst, c1, b, h1, fun hb => by obtain ⟨s1, hs1, hsv1, _⟩ := h3 hb; exact ⟨s1, hs1, hsv1⟩⟩

/-- carol is not a member of `#c` in the reachable state: her TOPIC is refused (member-map form) -/
example : ∃ c', cmdTopic cR ⟨9, 0⟩ ⟨none, "TOPIC", ["#c", "x"]⟩ = .ok c' ∧ Refused cR c' ⟨9, 0⟩ :=
  ⟨_, rfl, C13_topic_requires_membership' (c := cR) (sid := ⟨9, 0⟩) (m := ⟨none, "TOPIC", ["#c", "x"]⟩) (s := carolR)
    (chn := "#c") ginvR.inv.toWInv (by decide) (by decide) (by decide) (by decide) (by decide) rfl⟩

/-- `C13_chanop_origin_partial'` on the reachable state: bob's `MODE #c +o bob` as a committed entry -/
example : ∀ st' out, applyEntry stR (mk 2 12 ⟨5, 0⟩ "MODE #c +o bob") = .ok (st', out) → OpsMono stR st' "#c" :=
  fun _ _ h => C13_chanop_origin_partial' ginvR rfl bobR_stored (by decide) (by decide) (by decide) (by decide) h

/-! ## 8. history: where operator and server flags come from

Proofs in `Robust/Irc/Proofs/FlagOrigin*.lean`.  The model has exactly three ways to set
`Session.operator` and one to set `Session.server`, all on the acting session of a client line
(IRCFromClient entry) and all checked against the configuration of the state before the entry:

* `operByOper cfg s m`: `OPER <name> <password>` of a registered client session, pair listed;
* `operByLogin cfg s m`: the `NICK` / `USER` / `PASS` line that completes the registration of a
  client session whose PASS string (for `PASS`: the one this line stores, `passAfter`) has an
  `oper=<name> <password>` part with a listed pair — `maybeLogin` then runs `cmdOper` itself
  (`commands.go`, `maybeLogin`: `extractPassword(s.Pass, "oper")`);
* `serverBySERVER cfg s m`: `SERVER …` of a client session whose stored PASS string is
  `services=<configured services password>`.

Nothing else sets a flag: no services handler does (the pseudo-clients a services `NICK` creates
have `server = false`, `operator = false`), CreateSession stores a session without flags,
DeleteSession / MessageOfDeath / Config entries keep the flags of every stored session. -/

/-- per handler (every handler of `handlerByName`, clients' and services'): a session that carries
the operator flag after the handler carried it before under the same id, or it is the actor and
`OperVia` holds (`cmdOper` with a listed pair; `cmdNick`/`cmdUser`/`cmdPass` registering a session
whose PASS string has an `oper=` part with a listed pair); the same for `server` and `ServerVia`
(`cmdServer` with a configured services password in the stored PASS string) -/
theorem C13_flag_origin_handler {fname : String} {h : Handler} (hh : handlerByName fname = some h)
    {c c' : Ctx} {sid : Id} {m : IrcMsg} (hw : SessWf c.st) (hr : h c sid m = .ok c') :
    (∀ id s', AMap.get c'.st.sessions id = some s' → s'.operator = true →
      (∃ s, AMap.get c.st.sessions id = some s ∧ s.operator = true) ∨ (id = sid ∧ OperVia fname c.st sid m)) ∧
    (∀ id s', AMap.get c'.st.sessions id = some s' → s'.server = true →
      (∃ s, AMap.get c.st.sessions id = some s ∧ s.server = true) ∨ (id = sid ∧ ServerVia fname c.st sid)) :=
  handler_flag_origin hh hw hr

/-- on states satisfying the invariant `SessWf` holds -/
theorem C13_sessWf_of_ginv {st : St} (hg : GInv st) : SessWf st := SessWf.of_core hg.inv.toWInvCore

/-- one committed entry of any type: a session that is an IRC operator afterwards was one before
(same id), or the entry is a client line of that very session with an operator origin evaluated on
the session and the configuration stored *before* the entry -/
theorem C13_oper_flag_origin {st st' : St} {e : Entry} {out : List Out} (hg : GInv st)
    (hr : applyEntry st e = .ok (st', out)) {sid : Id} {s' : Session}
    (hs' : AMap.get st'.sessions sid = some s') (hop : s'.operator = true) :
    (∃ s, AMap.get st.sessions sid = some s ∧ s.operator = true) ∨
    (e.type = 2 ∧ e.session = sid ∧ ∃ s m, AMap.get st.sessions sid = some s ∧ parseMessage e.data = some m ∧
      (operByOper st.config s m = true ∨ operByLogin st.config s m = true)) :=
  (applyEntry_flags (C13_sessWf_of_ginv hg) hr).oper sid s' hs' hop

/-- the same for the `server` flag: the only origin is an accepted `SERVER` line of that session -/
theorem C13_server_flag_origin {st st' : St} {e : Entry} {out : List Out} (hg : GInv st)
    (hr : applyEntry st e = .ok (st', out)) {sid : Id} {s' : Session}
    (hs' : AMap.get st'.sessions sid = some s') (hsv : s'.server = true) :
    (∃ s, AMap.get st.sessions sid = some s ∧ s.server = true) ∨
    (e.type = 2 ∧ e.session = sid ∧ ∃ s m, AMap.get st.sessions sid = some s ∧ parseMessage e.data = some m ∧
      serverBySERVER st.config s m = true) :=
  (applyEntry_flags (C13_sessWf_of_ginv hg) hr).server sid s' hs' hsv

/-- what the three origins say -/
theorem C13_operByOper_iff {cfg : Config} {s : Session} {m : IrcMsg} :
    operByOper cfg s m = true ↔ s.server = false ∧ s.loggedIn = true ∧ toUpper m.command = "OPER" ∧
      ∃ name password, m.params[0]? = some name ∧ m.params[1]? = some password ∧ operListed cfg name password = true :=
  operByOper_iff

theorem C13_operByLogin_iff {cfg : Config} {s : Session} {m : IrcMsg} :
    operByLogin cfg s m = true ↔ s.server = false ∧ s.loggedIn = false ∧
      (((toUpper m.command = "NICK" ∨ toUpper m.command = "USER") ∧ loginOperCreds cfg s.pass = true) ∨
       (toUpper m.command = "PASS" ∧ loginOperCreds cfg (passAfter m s.pass) = true)) :=
  operByLogin_iff

theorem C13_loginOperCreds_iff {cfg : Config} {pass : String} :
    loginOperCreds cfg pass = true ↔
      ∃ parsed name password, parseMessage ("OPER " ++ extractPassword pass "oper") = some parsed ∧
        parsed.params[0]? = some name ∧ parsed.params[1]? = some password ∧ operListed cfg name password = true := by
  rw [loginOperCreds_iff]
  constructor
  · rintro ⟨parsed, hp, hc⟩
    obtain ⟨name, pw, h0, h1, h2⟩ := operCreds_iff.1 hc
    exact ⟨parsed, name, pw, hp, h0, h1, h2⟩
  · rintro ⟨parsed, name, pw, hp, h0, h1, h2⟩
    exact ⟨parsed, hp, operCreds_iff.2 ⟨name, pw, h0, h1, h2⟩⟩

theorem C13_serverBySERVER_iff {cfg : Config} {s : Session} {m : IrcMsg} :
    serverBySERVER cfg s m = true ↔ s.server = false ∧ toUpper m.command = "SERVER" ∧ servicesAuth cfg s.pass = true :=
  serverBySERVER_iff

/-- over histories (any list of entries that runs to `.ok`; nothing is required of the entries): a
session that is an IRC operator at the end was one at the start (same id), or the history splits
`es = pre ++ e :: post` at a client line `e` of that session which has an operator origin on the
state `mid` reached by `pre` — stored session and configuration of `mid` -/
theorem C13_oper_flag_history {st st' : St} {es : List Entry} (hg : GInv st) (hr : runEntries st es = .ok st')
    {sid : Id} {s' : Session} (hs' : AMap.get st'.sessions sid = some s') (hop : s'.operator = true) :
    (∃ s, AMap.get st.sessions sid = some s ∧ s.operator = true) ∨
    ∃ pre e post mid, es = pre ++ e :: post ∧ runEntries st pre = .ok mid ∧
      e.type = 2 ∧ e.session = sid ∧ ∃ s m, AMap.get mid.sessions sid = some s ∧ parseMessage e.data = some m ∧
        (operByOper mid.config s m = true ∨ operByLogin mid.config s m = true) :=
  run_oper_origin (C13_sessWf_of_ginv hg) hr hs' hop

theorem C13_server_flag_history {st st' : St} {es : List Entry} (hg : GInv st) (hr : runEntries st es = .ok st')
    {sid : Id} {s' : Session} (hs' : AMap.get st'.sessions sid = some s') (hsv : s'.server = true) :
    (∃ s, AMap.get st.sessions sid = some s ∧ s.server = true) ∨
    ∃ pre e post mid, es = pre ++ e :: post ∧ runEntries st pre = .ok mid ∧
      e.type = 2 ∧ e.session = sid ∧ ∃ s m, AMap.get mid.sessions sid = some s ∧ parseMessage e.data = some m ∧
        serverBySERVER mid.config s m = true :=
  run_server_origin (C13_sessWf_of_ginv hg) hr hs' hsv

/-- from the initial state: an operator flag in any reachable state is backed by an accepted line of
that session in the history (OPER with a listed pair, or the registration of a session whose PASS
string carries a listed `oper=` pair) -/
theorem C13_oper_flag_reachable {st' : St} {es : List Entry} (hr : runEntries {} es = .ok st')
    {sid : Id} {s' : Session} (hs' : AMap.get st'.sessions sid = some s') (hop : s'.operator = true) :
    ∃ pre e post mid, es = pre ++ e :: post ∧ runEntries {} pre = .ok mid ∧
      e.type = 2 ∧ e.session = sid ∧ ∃ s m, AMap.get mid.sessions sid = some s ∧ parseMessage e.data = some m ∧
        (operByOper mid.config s m = true ∨ operByLogin mid.config s m = true) :=
  run_oper_reachable hr hs' hop

theorem C13_server_flag_reachable {st' : St} {es : List Entry} (hr : runEntries {} es = .ok st')
    {sid : Id} {s' : Session} (hs' : AMap.get st'.sessions sid = some s') (hsv : s'.server = true) :
    ∃ pre e post mid, es = pre ++ e :: post ∧ runEntries {} pre = .ok mid ∧
      e.type = 2 ∧ e.session = sid ∧ ∃ s m, AMap.get mid.sessions sid = some s ∧ parseMessage e.data = some m ∧
        serverBySERVER mid.config s m = true :=
  run_server_reachable hr hs' hsv

namespace Ex
/-- a Config entry that installs `cfg` (operator `root`/`pw`, services password `sekrit`) -/
def eCfg : Entry :=
  { type := 6, id := 1, session := ⟨0, 0⟩, data := "", unixNano := 0, cmid := 0, rev := 1, remoteAddr := "", cfg := some cfg }
/-- after the configuration: oscar registers and types `OPER root pw`; mallory registers and types
`OPER root wrong`; eve gives `PASS oper=root pw` and registers -/
def esP : List Entry := [
  eCfg,
  mk 0 2 ⟨0, 0⟩ "auth-o", mk 2 3 ⟨2, 0⟩ "NICK oscar", mk 2 4 ⟨2, 0⟩ "USER o 0 * :Oscar", mk 2 5 ⟨2, 0⟩ "OPER root pw",
  mk 0 6 ⟨0, 0⟩ "auth-m", mk 2 7 ⟨6, 0⟩ "NICK mallory", mk 2 8 ⟨6, 0⟩ "USER m 0 * :Mallory", mk 2 9 ⟨6, 0⟩ "OPER root wrong",
  mk 0 10 ⟨0, 0⟩ "auth-e", mk 2 11 ⟨10, 0⟩ "PASS oper=root pw", mk 2 12 ⟨10, 0⟩ "NICK eve", mk 2 13 ⟨10, 0⟩ "USER e 0 * :Eve"]
/-- after the configuration: a services link gives `PASS services=sekrit` and `SERVER`; trudy gives
`PASS services=wrong` and `SERVER` (nobody has registered yet, so the burst is empty) -/
def esS : List Entry := [
  eCfg,
  mk 0 2 ⟨0, 0⟩ "auth-s", mk 2 3 ⟨2, 0⟩ "PASS services=sekrit", mk 2 4 ⟨2, 0⟩ "SERVER services.x 1",
  mk 0 5 ⟨0, 0⟩ "auth-t", mk 2 6 ⟨5, 0⟩ "PASS services=wrong", mk 2 7 ⟨5, 0⟩ "SERVER services.y 1"]
def stP : St := (runOk {} esP).getD {}
def stS : St := (runOk {} esS).getD {}
/-- (operator, server) of a stored session -/
def flags (st : St) (sid : Id) : Option (Bool × Bool) := (AMap.get st.sessions sid).map fun s => (s.operator, s.server)
theorem runP : runOk {} esP = some stP := by decide +kernel
theorem runS : runOk {} esS = some stS := by decide +kernel
/-- oscar and eve are IRC operators, mallory is not -/
theorem flagsP : [flags stP ⟨2, 0⟩, flags stP ⟨6, 0⟩, flags stP ⟨10, 0⟩] =
    [some (true, false), some (false, false), some (true, false)] := by decide +kernel
/-- session 2 is a services link, trudy's session is not -/
theorem flagsS : [flags stS ⟨2, 0⟩, flags stS ⟨5, 0⟩] = [some (false, true), some (false, false)] := by decide +kernel
theorem stored_of_flags {st : St} {sid : Id} {a b : Bool} (h : flags st sid = some (a, b)) :
    ∃ s, AMap.get st.sessions sid = some s ∧ s.operator = a ∧ s.server = b := by
  unfold flags at h
  cases hg : AMap.get st.sessions sid with
  | none => rw [hg] at h; cases h
  | some s =>
    rw [hg] at h
    simp only [Option.map_some, Option.some.injEq, Prod.mk.injEq] at h
    exact ⟨s, rfl, h.1, h.2⟩
/-- the states just before oscar's OPER, mallory's OPER, eve's USER, the link's SERVER, trudy's SERVER (in `esS`) -/
def midO : St := (runOk {} (esP.take 4)).getD {}
def midM : St := (runOk {} (esP.take 8)).getD {}
def midE : St := (runOk {} (esP.take 12)).getD {}
def midS : St := (runOk {} (esS.take 3)).getD {}
def midT : St := (runOk {} (esS.take 6)).getD {}
def originAt (mid : St) (sid : Id) (line : String) (f : Config → Session → IrcMsg → Bool) : Option Bool :=
  match AMap.get mid.sessions sid, parseMessage line with
  | some s, some m => some (f mid.config s m)
  | _, _ => none
end Ex

/-- the hypotheses of `C13_oper_flag_reachable` hold for oscar in the reachable state `stP` … -/
example : ∃ pre e post mid, esP = pre ++ e :: post ∧ runEntries {} pre = .ok mid ∧
    e.type = 2 ∧ e.session = ⟨2, 0⟩ ∧ ∃ s m, AMap.get mid.sessions ⟨2, 0⟩ = some s ∧ parseMessage e.data = some m ∧
      (operByOper mid.config s m = true ∨ operByLogin mid.config s m = true) := by
  obtain ⟨s', hs', hop, _⟩ := stored_of_flags (st := stP) (sid := ⟨2, 0⟩) (a := true) (b := false) (by decide +kernel)
  exact C13_oper_flag_reachable (runOk_some runP) hs' hop
/-- … for eve (who never typed OPER) … -/
example : ∃ pre e post mid, esP = pre ++ e :: post ∧ runEntries {} pre = .ok mid ∧
    e.type = 2 ∧ e.session = ⟨10, 0⟩ ∧ ∃ s m, AMap.get mid.sessions ⟨10, 0⟩ = some s ∧ parseMessage e.data = some m ∧
      (operByOper mid.config s m = true ∨ operByLogin mid.config s m = true) := by
  obtain ⟨s', hs', hop, _⟩ := stored_of_flags (st := stP) (sid := ⟨10, 0⟩) (a := true) (b := false) (by decide +kernel)
  exact C13_oper_flag_reachable (runOk_some runP) hs' hop
/-- … and those of `C13_server_flag_reachable` for the services link -/
example : ∃ pre e post mid, esS = pre ++ e :: post ∧ runEntries {} pre = .ok mid ∧
    e.type = 2 ∧ e.session = ⟨2, 0⟩ ∧ ∃ s m, AMap.get mid.sessions ⟨2, 0⟩ = some s ∧ parseMessage e.data = some m ∧
      serverBySERVER mid.config s m = true := by
  obtain ⟨s', hs', _, hsv⟩ := stored_of_flags (st := stS) (sid := ⟨2, 0⟩) (a := false) (b := true) (by decide +kernel)
  exact C13_server_flag_reachable (runOk_some runS) hs' hsv
/-- the history-level theorem from a reachable state other than the initial one (`stR`, section 6,
followed by bob's six attempts `es1`): the hypotheses `GInv stR` and `runEntries stR es1 = .ok stEnd` hold -/
example : ∀ sid s', AMap.get stEnd.sessions sid = some s' → s'.operator = true →
    (∃ s, AMap.get stR.sessions sid = some s ∧ s.operator = true) ∨ OperHist stR es1 sid :=
  fun _ _ hs' hop => C13_oper_flag_history ginvR (runOk_some run1) hs' hop

/-- the origins, evaluated on the states just before the lines in question: oscar's `OPER root pw` is
an `operByOper` origin, mallory's `OPER root wrong` is none; eve's `USER` is an `operByLogin` origin
(her PASS string has `oper=root pw`), oscar's `USER` was none; the link's `SERVER` is a
`serverBySERVER` origin, trudy's is none -/
example : originAt midO ⟨2, 0⟩ "OPER root pw" operByOper = some true := by decide +kernel
example : originAt midM ⟨6, 0⟩ "OPER root wrong" operByOper = some false := by decide +kernel
example : originAt midM ⟨6, 0⟩ "OPER root wrong" operByLogin = some false := by decide +kernel
example : originAt midE ⟨10, 0⟩ "USER e 0 * :Eve" operByLogin = some true := by decide +kernel
example : originAt midE ⟨10, 0⟩ "USER e 0 * :Eve" operByOper = some false := by decide +kernel
example : originAt midS ⟨2, 0⟩ "SERVER services.x 1" serverBySERVER = some true := by decide +kernel
example : originAt midT ⟨5, 0⟩ "SERVER services.y 1" serverBySERVER = some false := by decide +kernel

/-- the per-entry theorem on a reachable state: bob types `OPER root pw` on `stR`, whose configuration
lists no operator — the entry runs, and bob is not an operator afterwards (by the theorem: he was
none before and the line has no origin) -/
example : ∀ st' out, applyEntry stR (mk 2 12 ⟨5, 0⟩ "OPER root pw") = .ok (st', out) →
    ∀ s', AMap.get st'.sessions ⟨5, 0⟩ = some s' → s'.operator = false := by
  intro st' out hr s' hs'
  cases hop : s'.operator with
  | false => rfl
  | true =>
    rcases C13_oper_flag_origin ginvR hr hs' hop with ⟨s, hs, ho⟩ | ⟨_, _, s, m, hs, hm, hv⟩
    · rw [bobR_stored] at hs; cases hs; exact absurd ho (by decide)
    · rw [bobR_stored] at hs; cases hs
      have hm' : parseMessage "OPER root pw" = some m := hm
      have e1 : operByOper stR.config bobR ⟨none, "OPER", ["root", "pw"]⟩ = false := by decide +kernel
      have e2 : operByLogin stR.config bobR ⟨none, "OPER", ["root", "pw"]⟩ = false := by decide +kernel
      have hp : parseMessage "OPER root pw" = some ⟨none, "OPER", ["root", "pw"]⟩ := by decide +kernel
      rw [hp] at hm'; cases hm'
      rcases hv with hv | hv
      · rw [e1] at hv; cases hv
      · rw [e2] at hv; cases hv


/-- the per-handler theorem, instantiated for `cmdOper` run by bob on the reachable state `stR`
(`handlerByName "cmdOper" = some cmdOper`, `SessWf stR` from the invariant) -/
example : ∀ c', cmdOper cR ⟨5, 0⟩ ⟨none, "OPER", ["root", "pw"]⟩ = .ok c' →
    ∀ id s', AMap.get c'.st.sessions id = some s' → s'.operator = true →
      (∃ s, AMap.get stR.sessions id = some s ∧ s.operator = true) ∨
      (id = ⟨5, 0⟩ ∧ OperVia "cmdOper" stR ⟨5, 0⟩ ⟨none, "OPER", ["root", "pw"]⟩) :=
  fun _ hr => (C13_flag_origin_handler (fname := "cmdOper") rfl (C13_sessWf_of_ginv ginvR) hr).1

end Robust.Props.C13
