import Robust.Irc.Inv
namespace Robust.Props.C13
open Robust Robust.Irc
theorem C13_placeholder_init : invB ({} : St) = true := by decide
end Robust.Props.C13
