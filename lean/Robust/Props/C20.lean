import Robust.Race.Discipline
import Robust.Gen.Commands
import Robust.Race.Theorems
/-!
# C20 — data-race freedom through a lock discipline

Two halves:

* `Robust/Race/Theorems.lean` proves, for a trace model of `sync.RWMutex`, that a program in which
  every access to a field is made while holding that field's guard (exclusively for writes) has no
  two conflicting accesses that are unordered: between them the first thread releases the guard
  and the second acquires it (`lockset_orders`, `no_adjacent_race`).
* this file checks that the code follows such a discipline: the table `Gen.Locks.accesses`
  (regenerated from the source on every run: function × field × read/write × locks held, with the
  locks of the callers folded in) is compared with the guard assigned to every field below.

What the static table cannot see (pointers escaping a critical section, two different IRCServer
instances, goroutine confinement) is the job of the race-detector run of the check.
-/
namespace Robust.Props.C20
open Robust Robust.Gen.Locks Robust.Race.Discipline

/-- regenerated: every access to a shared field in the source follows the discipline (or is one of
the listed, justified exceptions).  A write under a read lock, an access outside the critical
section, or a new unguarded field makes this fail. -/
theorem C20_discipline : accesses.all rowOk = true := by decide +kernel

/-- regenerated: every field of the shared structs has been classified (a new field forces a decision) -/
theorem C20_fields_classified :
    structFields.all (fun sf => sf.2.all fun f =>
      (sf.1, f) ∈ mutexFields || (sf.1, f) ∈ immutableFields || (sf.1, f) ∈ confinedFields || (guardOf sf.1 f).isSome) = true := by
  decide +kernel

/-- every handler of the regenerated command table is only ever entered with the session lock held
exclusively (regenerated entry lock sets: the fixpoint over the call graph, handlers being reached
through `cmd.Func(…)` in ProcessMessage) -/
theorem C20_handlers_locked :
    (Gen.Commands.commands.filter (fun c => !c.2.2.2)).all (fun c =>   -- all but the test-only PANIC literal
      match entryLocks.find? (fun e => e.1 == "internal/ircserver:IRCServer." ++ c.2.1) with
      | some e => e.2.contains "IRCServer.sessionsMu:W"
      | none => false) = true := by
  decide +kernel

/-- regenerated: every acquisition of a mutex while another one is (or, through any caller, may be) held
respects one global lock order — sessionsMu before ConfigMu before lastProcessedMu, messagesMu before
cacheMu, restoreMu outermost.  A function that takes two of them in the opposite order (as ThrottleUntil,
ExpireSessions and the status page did with ConfigMu and sessionsMu: the network-wide deadlock repaired in
/repo 34426db) makes this fail.  With a global order no cycle of waiting threads can form. -/
theorem C20_lock_order :
    lockOrder.all (fun e => decide (lockRank e.1 < lockRank e.2.1)) = true := by decide +kernel

/-- the trace-model half, restated here so that the axiom audit of this module covers it: under a
lock discipline, two conflicting accesses of different threads are always separated by a release of
the guard by the first thread and a later acquisition by the second (they are ordered by
happens-before, hence not a data race in the sense of the Go memory model) -/
theorem C20_lockset_orders (G : String → String) (pre mid post : List Race.Ev) (e1 e2 : Race.Ev)
    (t1 t2 : Race.Tid) (f : String)
    (hrun : Race.run Race.LS.init (pre ++ e1 :: mid ++ e2 :: post) ≠ none)
    (hd : Race.Disciplined G Race.LS.init (pre ++ e1 :: mid ++ e2 :: post))
    (h1 : Race.isAccess e1 t1 f) (h2 : Race.isAccess e2 t2 f) (hne : t1 ≠ t2)
    (hw : e1 = .wr t1 f ∨ e2 = .wr t2 f) :
    ∃ i j : Nat, i < j ∧ (∃ a, mid[i]? = some a ∧ Race.isRel a t1 (G f)) ∧ (∃ b, mid[j]? = some b ∧ Race.isAcq b t2 (G f)) :=
  Race.lockset_orders G pre mid post e1 e2 t1 t2 f hrun hd h1 h2 hne hw

-- AUDIT: the conclusion is `False`, i.e. the hypotheses are jointly unsatisfiable *by design* (this is
-- the statement: no running, disciplined trace has adjacent conflicting accesses); a non-vacuity instance
-- cannot exist.  `Ex` below shows instead that each of "disciplined", "t1 ≠ t2", "one is a write" is
-- needed: dropping any one of them leaves a satisfiable set on a trace that runs.
/-- conflicting accesses are never adjacent -/
theorem C20_no_adjacent_race (G : String → String) (pre post : List Race.Ev) (e1 e2 : Race.Ev)
    (t1 t2 : Race.Tid) (f : String)
    (hrun : Race.run Race.LS.init (pre ++ e1 :: [] ++ e2 :: post) ≠ none)
    (hd : Race.Disciplined G Race.LS.init (pre ++ e1 :: [] ++ e2 :: post))
    (h1 : Race.isAccess e1 t1 f) (h2 : Race.isAccess e2 t2 f) (hne : t1 ≠ t2)
    (hw : e1 = .wr t1 f ∨ e2 = .wr t2 f) : False :=
  Race.no_adjacent_race G pre post e1 e2 t1 t2 f hrun hd h1 h2 hne hw

/-! ## non-vacuity -/

namespace Ex

/-- two guards, three threads: the configuration is guarded by `ConfigMu`, everything else by
`sessionsMu` -/
def G (f : String) : String := if f = "cfg" then "ConfigMu" else "sessionsMu"

def pre : List Race.Ev := [.acqR 3 "ConfigMu", .rd 3 "cfg", .acqW 1 "sessionsMu"]
def mid : List Race.Ev :=
  [.relW 1 "sessionsMu", .relR 3 "ConfigMu", .acqR 2 "sessionsMu", .acqR 3 "sessionsMu"]
def post : List Race.Ev := [.rd 3 "sessions", .relR 2 "sessionsMu", .relR 3 "sessionsMu"]

/-- thread 3 reads the configuration under `ConfigMu.RLock` while thread 1 writes `sessions` under
`sessionsMu.Lock`; afterwards threads 2 and 3 read `sessions` under `sessionsMu.RLock` -/
def trace : List Race.Ev := pre ++ .wr 1 "sessions" :: mid ++ .rd 2 "sessions" :: post

theorem trace_runs : Race.run Race.LS.init trace ≠ none := by
  simp [trace, pre, mid, post, Race.run, Race.step, Race.LS.init]

theorem trace_disciplined : Race.Disciplined G Race.LS.init trace := by
  simp [trace, pre, mid, post, G, Race.Disciplined, Race.step, Race.holdsW, Race.holds, Race.LS.init]

/-- all hypotheses of `C20_lockset_orders` hold together on a trace with two locks, three threads, a
write and a later conflicting read -/
example : ∃ i j : Nat, i < j ∧ (∃ a, mid[i]? = some a ∧ Race.isRel a 1 "sessionsMu") ∧
    (∃ b, mid[j]? = some b ∧ Race.isAcq b 2 "sessionsMu") :=
  C20_lockset_orders G pre mid post (.wr 1 "sessions") (.rd 2 "sessions") 1 2 "sessions"
    trace_runs trace_disciplined (Or.inr rfl) (Or.inl rfl) (by decide) (Or.inl rfl)

/-- … and the witnesses are the expected release (position 0) and acquisition (position 2) -/
example : mid[0]? = some (.relW 1 "sessionsMu") ∧ mid[2]? = some (.acqR 2 "sessionsMu") := ⟨rfl, rfl⟩

/-! `C20_no_adjacent_race` concludes `False`: its hypotheses are jointly unsatisfiable *by design* (that
is the statement), so no instance of all of them can exist.  What can be shown instead is that no
hypothesis is redundant: dropping any one of "disciplined", "different threads", "one is a write"
leaves a satisfiable set — on traces that run. -/

/-- without the discipline: an adjacent write/read pair of two threads on a trace that runs -/
example : Race.run Race.LS.init ([.acqW 1 "sessionsMu"] ++ .wr 1 "sessions" :: [] ++ .rd 2 "sessions" :: [.relW 1 "sessionsMu"]) ≠ none ∧
    Race.isAccess (.wr 1 "sessions") 1 "sessions" ∧ Race.isAccess (.rd 2 "sessions") 2 "sessions" ∧ (1 : Race.Tid) ≠ 2 ∧
    ¬ Race.Disciplined G Race.LS.init ([.acqW 1 "sessionsMu"] ++ .wr 1 "sessions" :: [] ++ .rd 2 "sessions" :: [.relW 1 "sessionsMu"]) := by
  refine ⟨?_, Or.inr rfl, Or.inl rfl, by decide, ?_⟩
  · simp [Race.run, Race.step, Race.LS.init]
  · simp [G, Race.Disciplined, Race.step, Race.holdsW, Race.holds, Race.LS.init]

/-- without "different threads": a disciplined trace with an adjacent write/read of one thread -/
example : Race.run Race.LS.init ([.acqW 1 "sessionsMu"] ++ .wr 1 "sessions" :: [] ++ .rd 1 "sessions" :: [.relW 1 "sessionsMu"]) ≠ none ∧
    Race.Disciplined G Race.LS.init ([.acqW 1 "sessionsMu"] ++ .wr 1 "sessions" :: [] ++ .rd 1 "sessions" :: [.relW 1 "sessionsMu"]) := by
  constructor
  · simp [Race.run, Race.step, Race.LS.init]
  · simp [G, Race.Disciplined, Race.step, Race.holdsW, Race.holds, Race.LS.init]

/-- without "one is a write": a disciplined trace with adjacent reads of two threads under `RLock` -/
example : Race.run Race.LS.init ([.acqR 1 "sessionsMu", .acqR 2 "sessionsMu"] ++ .rd 1 "sessions" :: [] ++ .rd 2 "sessions" :: [.relR 1 "sessionsMu", .relR 2 "sessionsMu"]) ≠ none ∧
    Race.Disciplined G Race.LS.init ([.acqR 1 "sessionsMu", .acqR 2 "sessionsMu"] ++ .rd 1 "sessions" :: [] ++ .rd 2 "sessions" :: [.relR 1 "sessionsMu", .relR 2 "sessionsMu"]) ∧
    (1 : Race.Tid) ≠ 2 := by
  refine ⟨?_, ?_, by decide⟩
  · simp [Race.run, Race.step, Race.LS.init]
  · simp [G, Race.Disciplined, Race.step, Race.holds, Race.LS.init]

end Ex

end Robust.Props.C20
