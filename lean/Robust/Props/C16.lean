import Robust.Api.Model
import Robust.Irc.Proofs.FrmCheck
import Robust.Gen.Exprs
/-!
# C16 — only valid current-revision config updates take effect, the same on all nodes

Part 1 (decision level): the POST /config handler and the Config case of the state machine.

Part 2 (frame): the replicated configuration changes **only** through Config entries and GLINE.
Every handler of the command table other than `cmdGline` leaves `St.config` alone
(`C16_handlers_keep_config`); `cmdGline` changes nothing but `banned`, by one entry, and only for
an IRC operator (`C16_gline_only_bans`); per entry (`C16_entry_config_cases`,
`C16_entry_keeps_config`) and for the Config entry itself (`C16_config_entry_frame`: the new
configuration is the posted one with the entry's revision, and nothing else of the state changes).
Helpers: `Robust/Irc/Proofs/Frm*.lean`.
-/
namespace Robust.Props.C16
open Robust Robust.Irc Robust.Api

/-- accepted ⇔ the body parses and names the revision currently in force -/
theorem C16_accept_iff (st : St) (rev : Option Nat) (body : String) (cfg : Option Config) :
    (handlePostConfig st rev body cfg).status = 200 ↔ (∃ c, cfg = some c) ∧ rev = some st.config.revision := by
  unfold handlePostConfig
  cases rev with
  | none => simp
  | some r =>
    cases cfg with
    | none => simp
    | some c =>
      by_cases h : r = st.config.revision <;> simp [h]

/-- a rejected or unparsable update proposes nothing -/
theorem C16_reject_nop (st : St) (rev : Option Nat) (body : String) (cfg : Option Config)
    (h : (handlePostConfig st rev body cfg).status ≠ 200) : (handlePostConfig st rev body cfg).proposal = none := by
  unfold handlePostConfig at h ⊢
  cases rev with
  | none => rfl
  | some r =>
    cases cfg with
    | none => rfl
    | some c => by_cases hr : r = st.config.revision <;> simp_all

/-- an accepted update raises the revision by exactly one on every node that applies the entry,
and installs exactly the posted configuration -/
theorem C16_plus_one (st : St) (body : String) (c : Config) (e : Entry)
    (h : handlePostConfig st (some st.config.revision) body (some c) = ⟨200, some e⟩) (st2 : St) :
    ∃ st2', applyEntry st2 e = .ok (st2', []) ∧ st2'.config.revision = st.config.revision + 1 ∧
      st2'.config = { c with revision := st.config.revision + 1 } ∧ st2'.sessions = st2.sessions ∧ st2'.channels = st2.channels := by
  unfold handlePostConfig at h
  simp at h
  subst h
  exact ⟨{ st2 with config := { c with revision := st.config.revision + 1 } }, by unfold applyEntry; simp, rfl, rfl, rfl, rfl⟩

/-- a Config entry whose text does not parse (cannot happen through the handler, which parses
first) is skipped by the state machine without any effect -/
theorem C16_unparsable_skipped (st : St) (e : Entry) (h : e.type = 6) (hc : e.cfg = none) : applyEntry st e = .ok (st, []) := by
  unfold applyEntry; simp [h, hc]

/-- replicas are functions of the log: two nodes applying the same config entry to states with
equal configuration end with equal configuration -/
theorem C16_replicas_equal (a b : St) (e : Entry) (h : e.type = 6) (hab : a.config = b.config) :
    ∃ a' b', applyEntry a e = .ok (a', []) ∧ applyEntry b e = .ok (b', []) ∧ a'.config = b'.config := by
  unfold applyEntry
  cases hc : e.cfg with
  | none => exact ⟨a, b, by simp [h], by simp [h], hab⟩
  | some c => exact ⟨{ a with config := { c with revision := e.rev } }, { b with config := { c with revision := e.rev } }, by simp [h], by simp [h], rfl⟩

/-- bans added by GLINE become part of the replicated configuration (they are in the state that
every replica computes and that snapshots serialize) -/
theorem C16_gline_sets_ban (c : Ctx) (sid tid : Id) (m : IrcMsg) (s t : Session) (p0 : String) (c' : Ctx)
    (hs : getS c sid = .ok s) (hop : s.operator = true) (hp : param m 0 = .ok p0)
    (ht : AMap.get c.st.nicks (nickToLower p0) = some tid) (hts : getS c tid = .ok t) (haddr : t.remoteAddr ≠ "")
    (hk : cmdKill { c with st := { c.st with config := { c.st.config with banned := AMap.set c.st.config.banned t.remoteAddr m.trailing } } } sid m = .ok c') :
    cmdGline c sid m = .ok c' := by
  unfold cmdGline
  simp [hs, hop, hp, ht, hts, haddr, hk, bind, Res.bind, pure]

/-- regenerated from applyConfig: the revision test, and the proposed entry's fields -/
theorem C16_wiring :
    Gen.Exprs.fact "config.revtest.init" = "got, want := revision, api.configRevision()" ∧
    Gen.Exprs.fact "config.revtest" = "got != want" ∧
    Gen.Exprs.fact "config.msg.Revision" = "revision + 1" ∧
    Gen.Exprs.fact "config.msg.Data" = "body" ∧
    Gen.Exprs.fact "config.msg.Type" = "robust.Config" := by decide

/-! ## Part 2 — only Config entries and GLINE write the configuration -/

/-- **Frame, handlers.** Every handler of the command table other than `cmdGline` — client and
services handlers alike — returns with the configuration it was called with.
(`SessWf` and `reply = 0` are the hypotheses of the common frame walk of `Frm*.lean`, which
carries markers, stored ids, `lastProcessed` and the configuration together.) -/
theorem C16_handlers_keep_config {fname : String} {h : Handler} (hh : handlerByName fname = some h)
    (hg : fname ≠ "cmdGline") {c c' : Ctx} {sid : Id} {m : IrcMsg} (h0 : sid.reply = 0) (hw : SessWf c.st)
    (hr : h c sid m = .ok c') : c'.st.config = c.st.config :=
  (handler_fpres hh hg c.st c sid m c' h0 (Frm.refl hw) hr).config

/-- **GLINE.** `cmdGline` either leaves the configuration alone (not an operator, unknown nick, no
address known) or — the actor is an IRC operator — sets exactly one entry of `banned`: the address of
the session indexed under the first parameter ↦ the reason. -/
theorem C16_gline_only_bans {c c' : Ctx} {sid : Id} {m : IrcMsg} (hw : SessWf c.st)
    (hr : cmdGline c sid m = .ok c') :
    c'.st.config = c.st.config ∨
    ∃ s p0 tid t, AMap.get c.st.sessions sid = some s ∧ s.operator = true ∧ param m 0 = .ok p0 ∧
      AMap.get c.st.nicks (nickToLower p0) = some tid ∧ AMap.get c.st.sessions tid = some t ∧
      t.remoteAddr ≠ "" ∧
      c'.st.config = { c.st.config with banned := AMap.set c.st.config.banned t.remoteAddr m.trailing } :=
  (cmdGline_spec hw hr).2

/-- … in particular everything but `banned` (revision, operators, services passwords, limits,
expiration, captcha, trusted bridges, allowed origins) is untouched by GLINE, and a non-operator
cannot change anything -/
theorem C16_gline_rest_kept {c c' : Ctx} {sid : Id} {m : IrcMsg} (hw : SessWf c.st)
    (hr : cmdGline c sid m = .ok c') :
    { c'.st.config with banned := [] } = { c.st.config with banned := [] } ∧
    (∀ s, AMap.get c.st.sessions sid = some s → s.operator = false → c'.st.config = c.st.config) := by
  rcases C16_gline_only_bans hw hr with h | ⟨s, _, _, _, hs, hop, _, _, _, _, h⟩
  · exact ⟨by rw [h], fun _ _ _ => h⟩
  · refine ⟨by rw [h], fun s' hs' hno => ?_⟩
    rw [hs] at hs'; cases hs'
    rw [hop] at hno; cases hno

/-- **Entries.** An entry other than a Config entry leaves the configuration alone, or it is a client
entry whose line is a `GLINE` of a session that is an IRC operator, and one ban was added. -/
theorem C16_entry_config_cases {st st' : St} {e : Entry} {out : List Out} (hw : SessWf st) (he : EntryOk st e)
    (h6 : e.type ≠ 6) (hr : applyEntry st e = .ok (st', out)) :
    st'.config = st.config ∨
    ∃ m s addr reason, e.type = 2 ∧ parseMessage e.data = some m ∧ toUpper m.command = "GLINE" ∧
      AMap.get st.sessions e.session = some s ∧ s.operator = true ∧
      st'.config = { st.config with banned := AMap.set st.config.banned addr reason } :=
  applyEntry_config_cases hw he.1 h6 hr

/-- For entry types other than 6 and other than a type-2 GLINE by an operator: `st'.config = st.config`. -/
theorem C16_entry_keeps_config {st st' : St} {e : Entry} {out : List Out} (hw : SessWf st) (he : EntryOk st e)
    (h6 : e.type ≠ 6)
    (hng : ¬(e.type = 2 ∧ ∃ m s, parseMessage e.data = some m ∧ toUpper m.command = "GLINE" ∧
      AMap.get st.sessions e.session = some s ∧ s.operator = true))
    (hr : applyEntry st e = .ok (st', out)) : st'.config = st.config := by
  rcases C16_entry_config_cases hw he h6 hr with h | ⟨m, s, _, _, h2, hm, hc, hs, hop, _⟩
  · exact h
  · exact absurd ⟨h2, m, s, hm, hc, hs, hop⟩ hng

/-- **Config entry (type 6)** with a configuration that parses: the new configuration is the posted
one with the entry's revision, nothing else of the state changes (sessions, nick index, channels,
SVSHOLDs, services links, `lastProcessed`, server name), and nothing is sent. -/
theorem C16_config_entry_frame {st st' : St} {e : Entry} {out : List Out} {cfg : Config} (ht : e.type = 6)
    (hc : e.cfg = some cfg) (hr : applyEntry st e = .ok (st', out)) :
    st' = { st with config := { cfg with revision := e.rev } } ∧ out = [] ∧
    st'.sessions = st.sessions ∧ st'.nicks = st.nicks ∧ st'.channels = st.channels ∧
    st'.svsholds = st.svsholds ∧ st'.lastProcessed = st.lastProcessed := by
  obtain ⟨h1, h2⟩ := applyEntry_config ht hr
  rw [hc] at h1
  subst h1
  exact ⟨rfl, h2, rfl, rfl, rfl, rfl, rfl⟩

/-- Along a history without Config entries and without GLINEs the configuration never changes. -/
theorem C16_history_keeps_config {st st' : St} {es : List Entry} (hw : SessWf st) (hwf : WfHistory st es)
    (hq : ∀ e ∈ es, e.type ≠ 6 ∧ ∀ m, parseMessage e.data = some m → toUpper m.command ≠ "GLINE")
    (hr : runEntries st es = .ok st') : st'.config = st.config := by
  induction es generalizing st with
  | nil => cases hr; rfl
  | cons e es ih =>
    unfold runEntries at hr
    obtain ⟨he, _, hnext⟩ := hwf
    split at hr
    · rename_i st1 out hap
      have h1 := hq e (List.mem_cons_self ..)
      have hc : st1.config = st.config :=
        C16_entry_keeps_config hw he h1.1 (fun ⟨_, m, _, hm, hcmd, _⟩ => h1.2 m hm hcmd) hap
      rw [← hc]
      exact ih (hw.applyEntry he.1 hap) (hnext st1 out hap) (fun e' he' => hq e' (List.mem_cons_of_mem _ he')) hr
    · cases hr
    · cases hr

/-! ### non-vacuity -/

def exAlice : Session :=
  { id := ⟨1, 0⟩, nick := "alice", username := "al", loggedIn := true, channels := ["#c"], operator := true,
    ircPrefix := ⟨"alice", "al", "robust/0x1"⟩ }
def exBob : Session :=
  { id := ⟨2, 0⟩, nick := "Bob", username := "bo", loggedIn := true, channels := ["#c"], remoteAddr := "10.0.0.2",
    ircPrefix := ⟨"Bob", "bo", "robust/0x2"⟩ }
def exChanC : Channel := { name := "#c", nicks := [("alice", { chanop := true }), ("bob", {})], modes := ['n', 't'] }
/-- alice (IRC operator) and Bob (address known) on `#c`; revision 3 -/
def exSt : St :=
  { sessions := [(⟨1, 0⟩, exAlice), (⟨2, 0⟩, exBob)]
    nicks := [("alice", ⟨1, 0⟩), ("bob", ⟨2, 0⟩)]
    channels := [("#c", exChanC)]
    config := { revision := 3, operators := [("root", "pw")] } }
def mkE (type id : Nat) (session : Id) (data : String) : Entry :=
  { type := type, id := id, session := session, data := data, unixNano := 0, cmid := id, rev := 0,
    remoteAddr := "", cfg := none }

theorem exSt_inv : GPInv exSt := ginv_of_ginvB (by decide)

/-- the operator's GLINE adds exactly the ban and keeps the rest; Bob's GLINE changes nothing;
a line that does change the state a lot (KILL) keeps the configuration -/
theorem C16_example_gline :
    (resSt (applyEntry exSt (mkE 2 10 ⟨1, 0⟩ "GLINE bob :spam"))).config =
      { exSt.config with banned := [("10.0.0.2", "spam")] } ∧
    (applyEntry exSt (mkE 2 10 ⟨2, 0⟩ "GLINE alice :spam")).isOk = true ∧
    (resSt (applyEntry exSt (mkE 2 10 ⟨2, 0⟩ "GLINE alice :spam"))).config = exSt.config ∧
    (applyEntry exSt (mkE 2 10 ⟨1, 0⟩ "KILL bob :bye")).isOk = true ∧
    (resSt (applyEntry exSt (mkE 2 10 ⟨1, 0⟩ "KILL bob :bye"))).config = exSt.config :=
  ⟨by decide +kernel, by decide +kernel, by decide +kernel, by decide +kernel, by decide +kernel⟩

/-- `C16_entry_keeps_config` instantiated: hypotheses hold for Bob's `PRIVMSG`, the entry applies -/
example : (resSt (applyEntry exSt (mkE 2 10 ⟨2, 0⟩ "PRIVMSG #c :hi"))).config = exSt.config := by
  have hok : (applyEntry exSt (mkE 2 10 ⟨2, 0⟩ "PRIVMSG #c :hi")).isOk = true := by decide +kernel
  refine C16_entry_keeps_config exSt_inv.sessWf (entryOk_of_B (by decide)) (by decide) ?_ (eq_ok_of_isOk hok)
  rintro ⟨_, m, s, hm, hc, _⟩
  have : parseMessage "PRIVMSG #c :hi" = some ⟨none, "PRIVMSG", ["#c", "hi"]⟩ := by decide +kernel
  rw [show (mkE 2 10 ⟨2, 0⟩ "PRIVMSG #c :hi").data = "PRIVMSG #c :hi" from rfl, this] at hm
  cases hm
  exact absurd hc (by decide +kernel)

/-- a Config entry: revision and contents replaced, sessions untouched -/
theorem C16_example_config_entry :
    let e : Entry := { mkE 6 11 ⟨0, 0⟩ "…toml…" with rev := 4, cfg := some { maxChannels := 5 } }
    (resSt (applyEntry exSt e)).config = { maxChannels := 5, revision := 4 } ∧
    (resSt (applyEntry exSt e)).sessions = exSt.sessions := by decide +kernel

end Robust.Props.C16
