import Robust.Api.Model
import Robust.Irc.Proofs.FrmCheck
import Robust.Gen.Exprs
/-!
# C16 — only valid current-revision config updates take effect, the same on all nodes

Part 1 (decision level): the POST /config handler and the Config case of the state machine.

Part 2 (frame): the replicated configuration changes **only** through Config entries and GLINE.
Every handler of the command table other than `cmdGline` leaves `St.config` alone
(`C16_handlers_keep_config`); `cmdGline` changes nothing but `banned`, by one entry, and only for
an IRC operator (`C16_gline_only_bans`); per entry (`C16_entry_config_cases`,
`C16_entry_keeps_config`) and for the Config entry itself (`C16_config_entry_frame`: the new
configuration is the posted one with the entry's revision, and nothing else of the state changes).
Helpers: `Robust/Irc/Proofs/Frm*.lean`.
-/
namespace Robust.Props.C16
open Robust Robust.Irc Robust.Api

/-- accepted ⇔ the body parses and names the revision currently in force -/
theorem C16_accept_iff (st : St) (rev : Option Nat) (body : String) (cfg : Option Config) :
    (handlePostConfig st rev body cfg).status = 200 ↔ (∃ c, cfg = some c) ∧ rev = some st.config.revision := by
  unfold handlePostConfig
  cases rev with
  | none => simp
  | some r =>
    cases cfg with
    | none => simp
    | some c =>
      by_cases h : r = st.config.revision <;> simp [h]

/-- a rejected or unparsable update proposes nothing -/
theorem C16_reject_nop (st : St) (rev : Option Nat) (body : String) (cfg : Option Config)
    (h : (handlePostConfig st rev body cfg).status ≠ 200) : (handlePostConfig st rev body cfg).proposal = none := by
  unfold handlePostConfig at h ⊢
  cases rev with
  | none => rfl
  | some r =>
    cases cfg with
    | none => rfl
    | some c => by_cases hr : r = st.config.revision <;> simp_all

/-- an accepted update raises the revision by exactly one on every node that applies the entry,
and installs exactly the posted configuration -/
theorem C16_plus_one (st : St) (body : String) (c : Config) (e : Entry)
    (h : handlePostConfig st (some st.config.revision) body (some c) = ⟨200, some e⟩) (st2 : St) :
    ∃ st2', applyEntry st2 e = .ok (st2', []) ∧ st2'.config.revision = st.config.revision + 1 ∧
      st2'.config = { c with revision := st.config.revision + 1 } ∧ st2'.sessions = st2.sessions ∧ st2'.channels = st2.channels := by
  unfold handlePostConfig at h
  simp at h
  subst h
  exact ⟨{ st2 with config := { c with revision := st.config.revision + 1 } }, by unfold applyEntry; simp, rfl, rfl, rfl, rfl⟩

/-- a Config entry whose text does not parse (cannot happen through the handler, which parses
first) is skipped by the state machine without any effect -/
theorem C16_unparsable_skipped (st : St) (e : Entry) (h : e.type = 6) (hc : e.cfg = none) : applyEntry st e = .ok (st, []) := by
  unfold applyEntry; simp [h, hc]

/-- replicas are functions of the log: two nodes applying the same config entry to states with
equal configuration end with equal configuration -/
theorem C16_replicas_equal (a b : St) (e : Entry) (h : e.type = 6) (hab : a.config = b.config) :
    ∃ a' b', applyEntry a e = .ok (a', []) ∧ applyEntry b e = .ok (b', []) ∧ a'.config = b'.config := by
  unfold applyEntry
  cases hc : e.cfg with
  | none => exact ⟨a, b, by simp [h], by simp [h], hab⟩
  | some c => exact ⟨{ a with config := { c with revision := e.rev } }, { b with config := { c with revision := e.rev } }, by simp [h], by simp [h], rfl⟩

/-- bans added by GLINE become part of the replicated configuration (they are in the state that
every replica computes and that snapshots serialize) -/
theorem C16_gline_sets_ban (c : Ctx) (sid tid : Id) (m : IrcMsg) (s t : Session) (p0 : String) (c' : Ctx)
    (hs : getS c sid = .ok s) (hop : s.operator = true) (hp : param m 0 = .ok p0)
    (ht : AMap.get c.st.nicks (nickToLower p0) = some tid) (hts : getS c tid = .ok t) (haddr : t.remoteAddr ≠ "")
    (hk : cmdKill { c with st := { c.st with config := { c.st.config with banned := AMap.set c.st.config.banned t.remoteAddr m.trailing } } } sid m = .ok c') :
    cmdGline c sid m = .ok c' := by
  unfold cmdGline
  simp [hs, hop, hp, ht, hts, haddr, hk, bind, Res.bind, pure]

/-- regenerated from applyConfig: the revision test, and the proposed entry's fields -/
theorem C16_wiring :
    Gen.Exprs.fact "config.revtest" = "param1 != recv.configRevision()" ∧
    Gen.Exprs.fact "config.msg.Revision" = "param1 + 1" ∧
    Gen.Exprs.fact "config.msg.Data" = "param2" ∧
    Gen.Exprs.fact "config.msg.Type" = "robust.Config" := by decide

/-! ## Part 2 — only Config entries and GLINE write the configuration -/

/-- **Frame, handlers.** Every handler of the command table other than `cmdGline` — client and
services handlers alike — returns with the configuration it was called with.
(`SessWf` and `reply = 0` are the hypotheses of the common frame walk of `Frm*.lean`, which
carries markers, stored ids, `lastProcessed` and the configuration together.) -/
theorem C16_handlers_keep_config {fname : String} {h : Handler} (hh : handlerByName fname = some h)
    (hg : fname ≠ "cmdGline") {c c' : Ctx} {sid : Id} {m : IrcMsg} (h0 : sid.reply = 0) (hw : SessWf c.st)
    (hr : h c sid m = .ok c') : c'.st.config = c.st.config :=
  (handler_fpres hh hg c.st c sid m c' h0 (Frm.refl hw) hr).config

/-- **GLINE.** `cmdGline` either leaves the configuration alone (not an operator, unknown nick, no
address known) or — the actor is an IRC operator — sets exactly one entry of `banned`: the address of
the session indexed under the first parameter ↦ the reason. -/
theorem C16_gline_only_bans {c c' : Ctx} {sid : Id} {m : IrcMsg} (hw : SessWf c.st)
    (hr : cmdGline c sid m = .ok c') :
    c'.st.config = c.st.config ∨
    ∃ s p0 tid t, AMap.get c.st.sessions sid = some s ∧ s.operator = true ∧ param m 0 = .ok p0 ∧
      AMap.get c.st.nicks (nickToLower p0) = some tid ∧ AMap.get c.st.sessions tid = some t ∧
      t.remoteAddr ≠ "" ∧
      c'.st.config = { c.st.config with banned := AMap.set c.st.config.banned t.remoteAddr m.trailing } :=
  (cmdGline_spec hw hr).2

/-- … in particular everything but `banned` (revision, operators, services passwords, limits,
expiration, captcha, trusted bridges, allowed origins) is untouched by GLINE, and a non-operator
cannot change anything -/
theorem C16_gline_rest_kept {c c' : Ctx} {sid : Id} {m : IrcMsg} (hw : SessWf c.st)
    (hr : cmdGline c sid m = .ok c') :
    { c'.st.config with banned := [] } = { c.st.config with banned := [] } ∧
    (∀ s, AMap.get c.st.sessions sid = some s → s.operator = false → c'.st.config = c.st.config) := by
  rcases C16_gline_only_bans hw hr with h | ⟨s, _, _, _, hs, hop, _, _, _, _, h⟩
  · exact ⟨by rw [h], fun _ _ _ => h⟩
  · refine ⟨by rw [h], fun s' hs' hno => ?_⟩
    rw [hs] at hs'; cases hs'
    rw [hop] at hno; cases hno

/-- **Entries.** An entry other than a Config entry leaves the configuration alone, or it is a client
entry whose line is a `GLINE` of a session that is an IRC operator, and one ban was added. -/
theorem C16_entry_config_cases {st st' : St} {e : Entry} {out : List Out} (hw : SessWf st) (he : EntryOk st e)
    (h6 : e.type ≠ 6) (hr : applyEntry st e = .ok (st', out)) :
    st'.config = st.config ∨
    ∃ m s addr reason, e.type = 2 ∧ parseMessage e.data = some m ∧ toUpper m.command = "GLINE" ∧
      AMap.get st.sessions e.session = some s ∧ s.operator = true ∧
      st'.config = { st.config with banned := AMap.set st.config.banned addr reason } :=
  applyEntry_config_cases hw he.1 h6 hr

/-- For entry types other than 6 and other than a type-2 GLINE by an operator: `st'.config = st.config`. -/
theorem C16_entry_keeps_config {st st' : St} {e : Entry} {out : List Out} (hw : SessWf st) (he : EntryOk st e)
    (h6 : e.type ≠ 6)
    (hng : ¬(e.type = 2 ∧ ∃ m s, parseMessage e.data = some m ∧ toUpper m.command = "GLINE" ∧
      AMap.get st.sessions e.session = some s ∧ s.operator = true))
    (hr : applyEntry st e = .ok (st', out)) : st'.config = st.config := by
  rcases C16_entry_config_cases hw he h6 hr with h | ⟨m, s, _, _, h2, hm, hc, hs, hop, _⟩
  · exact h
  · exact absurd ⟨h2, m, s, hm, hc, hs, hop⟩ hng

/-- **Config entry (type 6)** with a configuration that parses: the new configuration is the posted
one with the entry's revision, nothing else of the state changes (sessions, nick index, channels,
SVSHOLDs, services links, `lastProcessed`, server name), and nothing is sent. -/
theorem C16_config_entry_frame {st st' : St} {e : Entry} {out : List Out} {cfg : Config} (ht : e.type = 6)
    (hc : e.cfg = some cfg) (hr : applyEntry st e = .ok (st', out)) :
    st' = { st with config := { cfg with revision := e.rev } } ∧ out = [] ∧
    st'.sessions = st.sessions ∧ st'.nicks = st.nicks ∧ st'.channels = st.channels ∧
    st'.svsholds = st.svsholds ∧ st'.lastProcessed = st.lastProcessed := by
  obtain ⟨h1, h2⟩ := applyEntry_config ht hr
  rw [hc] at h1
  subst h1
  exact ⟨rfl, h2, rfl, rfl, rfl, rfl, rfl⟩

/-- Along a history without Config entries and without GLINEs the configuration never changes. -/
theorem C16_history_keeps_config {st st' : St} {es : List Entry} (hw : SessWf st) (hwf : WfHistory st es)
    (hq : ∀ e ∈ es, e.type ≠ 6 ∧ ∀ m, parseMessage e.data = some m → toUpper m.command ≠ "GLINE")
    (hr : runEntries st es = .ok st') : st'.config = st.config := by
  induction es generalizing st with
  | nil => cases hr; rfl
  | cons e es ih =>
    unfold runEntries at hr
    obtain ⟨he, _, hnext⟩ := hwf
    split at hr
    · rename_i st1 out hap
      have h1 := hq e (List.mem_cons_self ..)
      have hc : st1.config = st.config :=
        C16_entry_keeps_config hw he h1.1 (fun ⟨_, m, _, hm, hcmd, _⟩ => h1.2 m hm hcmd) hap
      rw [← hc]
      exact ih (hw.applyEntry he.1 hap) (hnext st1 out hap) (fun e' he' => hq e' (List.mem_cons_of_mem _ he')) hr
    · cases hr
    · cases hr

/-! ### non-vacuity -/

def exAlice : Session :=
  { id := ⟨1, 0⟩, nick := "alice", username := "al", loggedIn := true, channels := ["#c"], operator := true,
    ircPrefix := ⟨"alice", "al", "robust/0x1"⟩ }
def exBob : Session :=
  { id := ⟨2, 0⟩, nick := "Bob", username := "bo", loggedIn := true, channels := ["#c"], remoteAddr := "10.0.0.2",
    ircPrefix := ⟨"Bob", "bo", "robust/0x2"⟩ }
def exChanC : Channel := { name := "#c", nicks := [("alice", { chanop := true }), ("bob", {})], modes := ['n', 't'] }
/-- alice (IRC operator) and Bob (address known) on `#c`; revision 3 -/
def exSt : St :=
  { sessions := [(⟨1, 0⟩, exAlice), (⟨2, 0⟩, exBob)]
    nicks := [("alice", ⟨1, 0⟩), ("bob", ⟨2, 0⟩)]
    channels := [("#c", exChanC)]
    config := { revision := 3, operators := [("root", "pw")] } }
def mkE (type id : Nat) (session : Id) (data : String) : Entry :=
  { type := type, id := id, session := session, data := data, unixNano := 0, cmid := id, rev := 0,
    remoteAddr := "", cfg := none }

theorem exSt_inv : GPInv exSt := ginv_of_ginvB (by decide)

/-- the operator's GLINE adds exactly the ban and keeps the rest; Bob's GLINE changes nothing;
a line that does change the state a lot (KILL) keeps the configuration -/
theorem C16_example_gline :
    (resSt (applyEntry exSt (mkE 2 10 ⟨1, 0⟩ "GLINE bob :spam"))).config =
      { exSt.config with banned := [("10.0.0.2", "spam")] } ∧
    (applyEntry exSt (mkE 2 10 ⟨2, 0⟩ "GLINE alice :spam")).isOk = true ∧
    (resSt (applyEntry exSt (mkE 2 10 ⟨2, 0⟩ "GLINE alice :spam"))).config = exSt.config ∧
    (applyEntry exSt (mkE 2 10 ⟨1, 0⟩ "KILL bob :bye")).isOk = true ∧
    (resSt (applyEntry exSt (mkE 2 10 ⟨1, 0⟩ "KILL bob :bye"))).config = exSt.config :=
  ⟨by decide +kernel, by decide +kernel, by decide +kernel, by decide +kernel, by decide +kernel⟩

/-- `C16_entry_keeps_config` instantiated: hypotheses hold for Bob's `PRIVMSG`, the entry applies -/
example : (resSt (applyEntry exSt (mkE 2 10 ⟨2, 0⟩ "PRIVMSG #c :hi"))).config = exSt.config := by
  have hok : (applyEntry exSt (mkE 2 10 ⟨2, 0⟩ "PRIVMSG #c :hi")).isOk = true := by decide +kernel
  refine C16_entry_keeps_config exSt_inv.sessWf (entryOk_of_B (by decide)) (by decide) ?_ (eq_ok_of_isOk hok)
  rintro ⟨_, m, s, hm, hc, _⟩
  have : parseMessage "PRIVMSG #c :hi" = some ⟨none, "PRIVMSG", ["#c", "hi"]⟩ := by decide +kernel
  rw [show (mkE 2 10 ⟨2, 0⟩ "PRIVMSG #c :hi").data = "PRIVMSG #c :hi" from rfl, this] at hm
  cases hm
  exact absurd hc (by decide +kernel)

/-- a Config entry: revision and contents replaced, sessions untouched -/
theorem C16_example_config_entry :
    let e : Entry := { mkE 6 11 ⟨0, 0⟩ "…toml…" with rev := 4, cfg := some { maxChannels := 5 } }
    (resSt (applyEntry exSt e)).config = { maxChannels := 5, revision := 4 } ∧
    (resSt (applyEntry exSt e)).sessions = exSt.sessions := by decide +kernel

/-! ## non-vacuity (audit): every theorem above with hypotheses, instantiated on a *reached* state

`Ex.stR` is the result of running the model on the history `Ex.es0` from the initial state (a Config entry
that names an operator, two registrations, two JOINs, an OPER); its invariant comes from `run_preserves_gp`. -/
namespace Ex
def mk (type id : Nat) (session : Id) (data : String) (addr : String := "") : Entry :=
  { type := type, id := id, session := session, data := data, unixNano := 0, cmid := id, rev := 0,
    remoteAddr := addr, cfg := none }
def es0 : List Entry := [
  { mk 6 1 ⟨0, 0⟩ "…toml…" with rev := 1, cfg := some { operators := [("root", "pw")] } },
  mk 0 2 ⟨0, 0⟩ "authA", mk 2 3 ⟨2, 0⟩ "NICK alice", mk 2 4 ⟨2, 0⟩ "USER al 0 * :Alice",
  mk 0 5 ⟨0, 0⟩ "authB", mk 2 6 ⟨5, 0⟩ "NICK Bob" "10.0.0.2", mk 2 7 ⟨5, 0⟩ "USER bo 0 * :Bob" "10.0.0.2",
  mk 2 8 ⟨2, 0⟩ "JOIN #c", mk 2 9 ⟨5, 0⟩ "JOIN #c" "10.0.0.2", mk 2 10 ⟨2, 0⟩ "OPER root pw"]
def aliceR : Session := { id := ⟨2, 0⟩, auth := "authA", loggedIn := true, nick := "alice", username := "al", realname := "Alice", channels := ["#c"], lastActivity := 10, lastNonPing := 10, operator := true, created := 2, modes := ['o'], svid := "0", lastClientMessageId := 10, ircPrefix := ⟨"alice", "al", "robust/0x2"⟩ }
def bobR : Session := { id := ⟨5, 0⟩, auth := "authB", loggedIn := true, nick := "Bob", username := "bo", realname := "Bob", channels := ["#c"], lastActivity := 9, lastNonPing := 9, created := 5, svid := "0", lastClientMessageId := 9, ircPrefix := ⟨"Bob", "bo", "robust/0x5"⟩, remoteAddr := "10.0.0.2" }
/-- the state reached from the initial state by `es0` (`run0`): revision 1, one operator configured -/
def stR : St :=
  { sessions := [(⟨2, 0⟩, aliceR), (⟨5, 0⟩, bobR)]
    nicks := [("alice", ⟨2, 0⟩), ("bob", ⟨5, 0⟩)]
    channels := [("#c", { name := "#c", nicks := [("alice", { chanop := true }), ("bob", {})], modes := ['n', 't'] })]
    lastProcessed := ⟨2, 0⟩
    config := { revision := 1, operators := [("root", "pw")] } }
theorem run0 : runEntries {} es0 = .ok stR := by
  have h1 : (runEntries {} es0).isOk = true := by decide +kernel
  have h2 : runSt (runEntries {} es0) = stR := by decide +kernel
  rw [← h2]; exact run_eq_of_isOk h1
theorem wf0 : WfHistory {} es0 := wf_of_B (by decide +kernel)
/-- `stR` is reachable, hence satisfies the full invariant -/
theorem invR : GPInv stR := run_preserves_gp GPInv_init wf0 run0
theorem wfR : SessWf stR := invR.sessWf
theorem aliceR_stored : AMap.get stR.sessions ⟨2, 0⟩ = some aliceR := by decide
theorem bobR_stored : AMap.get stR.sessions ⟨5, 0⟩ = some bobR := by decide
def ctxOf (r : Res Ctx) : Ctx :=
  match r with
  | .ok c => c
  | _ => { st := {}, msgid := 0 }
theorem eq_ok_ctx {r : Res Ctx} (h : r.isOk = true) : r = .ok (ctxOf r) := by
  cases r with
  | ok a => rfl
  | panic s => cases h
  | declined w => cases h
/-- the posted configuration of the examples -/
def newCfg : Config := { operators := [("root", "pw2")], maxChannels := 5 }

/-! ### part 1 -/

/-- `C16_reject_nop`: a stale revision (0 instead of 1), a missing header and an unparsable body are all
rejected (hypothesis), nothing is proposed -/
example : (handlePostConfig stR (some 0) "…toml…" (some newCfg)).proposal = none :=
  C16_reject_nop stR (some 0) "…toml…" (some newCfg) (by decide)
example : (handlePostConfig stR none "…toml…" (some newCfg)).proposal = none :=
  C16_reject_nop stR none "…toml…" (some newCfg) (by decide)
example : (handlePostConfig stR (some 1) "garbage" none).proposal = none :=
  C16_reject_nop stR (some 1) "garbage" none (by decide)

/-- the entry the handler proposes for the current revision 1 -/
def ePosted : Entry := ⟨6, 0, ⟨0, 0⟩, "…toml…", 0, 0, 2, "", some newCfg⟩
/-- a second node that lags: it has applied only the first five entries of `es0` (Bob's session exists but has not registered) -/
def stLag : St := runSt (runEntries {} (es0.take 5))
/-- `C16_plus_one`: the update is accepted on `stR` (hypothesis); applied on the lagging node `stLag` it
installs exactly the posted configuration with revision 2 -/
example : ∃ st2', applyEntry stLag ePosted = .ok (st2', []) ∧ st2'.config.revision = 1 + 1 ∧
    st2'.config = { newCfg with revision := 1 + 1 } ∧ st2'.sessions = stLag.sessions ∧ st2'.channels = stLag.channels :=
  C16_plus_one stR "…toml…" newCfg ePosted rfl stLag
example : (resSt (applyEntry stLag ePosted)).config = { operators := [("root", "pw2")], maxChannels := 5, revision := 2 } ∧
    AMap.keys (resSt (applyEntry stLag ePosted)).sessions = [⟨2, 0⟩, ⟨5, 0⟩] := by decide +kernel

/-- `C16_unparsable_skipped`: a Config entry whose text did not parse -/
example : applyEntry stR { ePosted with cfg := none } = .ok (stR, []) :=
  C16_unparsable_skipped stR { ePosted with cfg := none } rfl rfl

/-- `C16_replicas_equal`: `stR` and the same node one entry later (Bob has been deleted, so the states
differ) have equal configurations (hypothesis) and still do after the Config entry -/
def stR' : St := resSt (applyEntry stR (mk 1 11 ⟨5, 0⟩ "expired"))
example : ∃ a' b', applyEntry stR ePosted = .ok (a', []) ∧ applyEntry stR' ePosted = .ok (b', []) ∧ a'.config = b'.config :=
  C16_replicas_equal stR stR' ePosted rfl (by decide +kernel)
example : stR ≠ stR' ∧ (resSt (applyEntry stR ePosted)).config = (resSt (applyEntry stR' ePosted)).config := by decide +kernel

/-- `C16_gline_sets_ban`: alice (IRC operator) bans Bob's address -/
def cR : Ctx := { st := stR, msgid := 11 }
def mGline : IrcMsg := ⟨none, "GLINE", ["bob", "spam"]⟩
def cBanned : Ctx := { cR with st := { stR with config := { stR.config with banned := AMap.set stR.config.banned bobR.remoteAddr mGline.trailing } } }
theorem killB_ok : (cmdKill cBanned ⟨2, 0⟩ mGline).isOk = true := by decide +kernel
example : cmdGline cR ⟨2, 0⟩ mGline = .ok (ctxOf (cmdKill cBanned ⟨2, 0⟩ mGline)) :=
  C16_gline_sets_ban cR ⟨2, 0⟩ ⟨5, 0⟩ mGline aliceR bobR "bob" _ rfl rfl rfl (by decide) rfl (by decide) (eq_ok_ctx killB_ok)
example : (ctxOf (cmdGline cR ⟨2, 0⟩ mGline)).st.config.banned = [("10.0.0.2", "spam")] := by decide +kernel

/-! ### part 2 -/

/-- `C16_handlers_keep_config`: alice's KILL of Bob (a handler that changes a lot) on the reached state -/
def mKill : IrcMsg := ⟨none, "KILL", ["bob", "bye"]⟩
theorem kill_ok : (cmdKill cR ⟨2, 0⟩ mKill).isOk = true := by decide +kernel
example : (ctxOf (cmdKill cR ⟨2, 0⟩ mKill)).st.config = stR.config :=
  C16_handlers_keep_config (fname := "cmdKill") rfl (by decide) (c := cR) (sid := ⟨2, 0⟩) (m := mKill) rfl wfR (eq_ok_ctx kill_ok)
/-- … and Bob's `JOIN #d` (creates a channel) -/
def mJoin : IrcMsg := ⟨none, "JOIN", ["#d"]⟩
theorem join_ok : (cmdJoin cR ⟨5, 0⟩ mJoin).isOk = true := by decide +kernel
example : (ctxOf (cmdJoin cR ⟨5, 0⟩ mJoin)).st.config = stR.config :=
  C16_handlers_keep_config (fname := "cmdJoin") rfl (by decide) (c := cR) (sid := ⟨5, 0⟩) (m := mJoin) rfl wfR (eq_ok_ctx join_ok)
example : AMap.keys (ctxOf (cmdJoin cR ⟨5, 0⟩ mJoin)).st.channels = ["#c", "#d"] := by decide +kernel

theorem gline_ok : (cmdGline cR ⟨2, 0⟩ mGline).isOk = true := by decide +kernel
theorem glineBob_ok : (cmdGline cR ⟨5, 0⟩ ⟨none, "GLINE", ["alice", "spam"]⟩).isOk = true := by decide +kernel
/-- `C16_gline_only_bans`: hypotheses hold for the operator's GLINE (second disjunct: one ban is set) and
for Bob's GLINE (first disjunct: refused) -/
example : (ctxOf (cmdGline cR ⟨2, 0⟩ mGline)).st.config = stR.config ∨
    ∃ s p0 tid t, AMap.get stR.sessions ⟨2, 0⟩ = some s ∧ s.operator = true ∧ param mGline 0 = .ok p0 ∧
      AMap.get stR.nicks (nickToLower p0) = some tid ∧ AMap.get stR.sessions tid = some t ∧ t.remoteAddr ≠ "" ∧
      (ctxOf (cmdGline cR ⟨2, 0⟩ mGline)).st.config =
        { stR.config with banned := AMap.set stR.config.banned t.remoteAddr mGline.trailing } :=
  C16_gline_only_bans (c := cR) wfR (eq_ok_ctx gline_ok)
example : (ctxOf (cmdGline cR ⟨2, 0⟩ mGline)).st.config ≠ stR.config ∧
    (ctxOf (cmdGline cR ⟨5, 0⟩ ⟨none, "GLINE", ["alice", "spam"]⟩)).st.config = stR.config := by decide +kernel
/-- `C16_gline_rest_kept` for both -/
example : { (ctxOf (cmdGline cR ⟨2, 0⟩ mGline)).st.config with banned := [] } = { stR.config with banned := [] } :=
  (C16_gline_rest_kept (c := cR) wfR (eq_ok_ctx gline_ok)).1
example : (ctxOf (cmdGline cR ⟨5, 0⟩ ⟨none, "GLINE", ["alice", "spam"]⟩)).st.config = stR.config :=
  (C16_gline_rest_kept (c := cR) wfR (eq_ok_ctx glineBob_ok)).2 bobR bobR_stored rfl

/-- the same lines as committed entries -/
def eGline : Entry := mk 2 11 ⟨2, 0⟩ "GLINE bob :spam"
def eGlineBob : Entry := mk 2 11 ⟨5, 0⟩ "GLINE alice :spam" "10.0.0.2"
def eKill : Entry := mk 2 11 ⟨2, 0⟩ "KILL bob :bye"
def eDel : Entry := mk 1 11 ⟨5, 0⟩ "expired"
theorem eGline_ok : (applyEntry stR eGline).isOk = true := by decide +kernel
theorem eGlineBob_ok : (applyEntry stR eGlineBob).isOk = true := by decide +kernel
theorem eKill_ok : (applyEntry stR eKill).isOk = true := by decide +kernel
theorem eDel_ok : (applyEntry stR eDel).isOk = true := by decide +kernel
/-- `C16_entry_config_cases`: for the operator's GLINE entry (second disjunct) and for a DeleteSession entry -/
example : (resSt (applyEntry stR eGline)).config = stR.config ∨
    ∃ m s addr reason, eGline.type = 2 ∧ parseMessage eGline.data = some m ∧ toUpper m.command = "GLINE" ∧
      AMap.get stR.sessions eGline.session = some s ∧ s.operator = true ∧
      (resSt (applyEntry stR eGline)).config = { stR.config with banned := AMap.set stR.config.banned addr reason } :=
  C16_entry_config_cases (e := eGline) wfR (entryOk_of_B (by decide)) (by decide) (eq_ok_of_isOk eGline_ok)
example : (resSt (applyEntry stR eGline)).config = { stR.config with banned := [("10.0.0.2", "spam")] } := by decide +kernel
example : (resSt (applyEntry stR eDel)).config = stR.config :=
  (C16_entry_config_cases (e := eDel) wfR (entryOk_of_B (by decide)) (by decide) (eq_ok_of_isOk eDel_ok)).resolve_right
    (fun ⟨_, _, _, _, h2, _⟩ => absurd h2 (by decide))

/-- the hypothesis `hng` of `C16_entry_keeps_config` from Booleans: the line is not a GLINE, or the session
is not an IRC operator -/
theorem hng_of_B {st : St} {e : Entry}
    (h : (match parseMessage e.data with
          | some m => toUpper m.command != "GLINE"
          | none => true) = true ∨
         (match AMap.get st.sessions e.session with
          | some s => !s.operator
          | none => true) = true) :
    ¬(e.type = 2 ∧ ∃ m s, parseMessage e.data = some m ∧ toUpper m.command = "GLINE" ∧
      AMap.get st.sessions e.session = some s ∧ s.operator = true) := by
  rintro ⟨_, m, s, hm, hc, hs, hop⟩
  rw [hm, hs] at h
  rcases h with h | h
  · simp [hc] at h
  · simp [hop] at h
/-- `C16_entry_keeps_config`: the operator's KILL (not a GLINE), Bob's GLINE (not an operator), DeleteSession -/
example : (resSt (applyEntry stR eKill)).config = stR.config :=
  C16_entry_keeps_config (e := eKill) wfR (entryOk_of_B (by decide)) (by decide) (hng_of_B (Or.inl (by decide +kernel)))
    (eq_ok_of_isOk eKill_ok)
example : (resSt (applyEntry stR eGlineBob)).config = stR.config :=
  C16_entry_keeps_config (e := eGlineBob) wfR (entryOk_of_B (by decide)) (by decide) (hng_of_B (Or.inr (by decide +kernel)))
    (eq_ok_of_isOk eGlineBob_ok)
example : (resSt (applyEntry stR eDel)).config = stR.config :=
  C16_entry_keeps_config (e := eDel) wfR (entryOk_of_B (by decide)) (by decide) (fun h => by cases h.1)
    (eq_ok_of_isOk eDel_ok)

/-- `C16_config_entry_frame` on the reached state with the posted entry -/
theorem ePosted_ok : (applyEntry stR ePosted).isOk = true := by decide +kernel
example : resSt (applyEntry stR ePosted) = { stR with config := { newCfg with revision := 2 } } ∧
    resOut (applyEntry stR ePosted) = [] ∧ (resSt (applyEntry stR ePosted)).sessions = stR.sessions ∧
    (resSt (applyEntry stR ePosted)).nicks = stR.nicks ∧ (resSt (applyEntry stR ePosted)).channels = stR.channels ∧
    (resSt (applyEntry stR ePosted)).svsholds = stR.svsholds ∧
    (resSt (applyEntry stR ePosted)).lastProcessed = stR.lastProcessed :=
  C16_config_entry_frame (e := ePosted) (cfg := newCfg) rfl rfl (eq_ok_of_isOk ePosted_ok)

/-- a continuation without Config entries and GLINEs: Bob talks, joins `#d`, is killed by alice, a message of
death, a new session that registers -/
def es1 : List Entry := [mk 2 11 ⟨5, 0⟩ "PRIVMSG #c :hi" "10.0.0.2", mk 2 12 ⟨5, 0⟩ "JOIN #d" "10.0.0.2",
  mk 2 13 ⟨2, 0⟩ "KILL bob :bye", mk 5 14 ⟨2, 0⟩ "boom", mk 0 15 ⟨0, 0⟩ "authC", mk 2 16 ⟨15, 0⟩ "NICK carol",
  mk 2 17 ⟨15, 0⟩ "USER c 0 * :Carol"]
theorem run1_ok : (runEntries stR es1).isOk = true := by decide +kernel
theorem wf1 : WfHistory stR es1 := wf_of_B (by decide +kernel)
theorem quiet1 : ∀ e ∈ es1, e.type ≠ 6 ∧ ∀ m, parseMessage e.data = some m → toUpper m.command ≠ "GLINE" := by
  have h : es1.all (fun e => e.type != 6 && (match parseMessage e.data with
      | some m => toUpper m.command != "GLINE"
      | none => true)) = true := by decide +kernel
  intro e he
  have h1 := List.all_eq_true.1 h e he
  simp only [Bool.and_eq_true, bne_iff_ne, ne_eq] at h1
  refine ⟨h1.1, fun m hm => ?_⟩
  have h2 := h1.2
  rw [hm] at h2
  simpa using h2
/-- `C16_history_keeps_config` along `es1` from the reached state (all four hypotheses discharged) -/
example : (runSt (runEntries stR es1)).config = stR.config :=
  C16_history_keeps_config wfR wf1 quiet1 (run_eq_of_isOk run1_ok)
example : (runSt (runEntries stR es1)).sessions.map (fun p => (p.1, p.2.nick)) = [(⟨2, 0⟩, "alice"), (⟨15, 0⟩, "carol")] ∧
    AMap.keys (runSt (runEntries stR es1)).channels = ["#c"] := by decide +kernel
end Ex

end Robust.Props.C16
