import Robust.Api.Model
import Robust.Gen.Exprs
/-!
# C16 — only valid current-revision config updates take effect, the same on all nodes
-/
namespace Robust.Props.C16
open Robust Robust.Irc Robust.Api

/-- accepted ⇔ the body parses and names the revision currently in force -/
theorem C16_accept_iff (st : St) (rev : Option Nat) (body : String) (cfg : Option Config) :
    (handlePostConfig st rev body cfg).status = 200 ↔ (∃ c, cfg = some c) ∧ rev = some st.config.revision := by
  unfold handlePostConfig
  cases rev with
  | none => simp
  | some r =>
    cases cfg with
    | none => simp
    | some c =>
      by_cases h : r = st.config.revision <;> simp [h]

/-- a rejected or unparsable update proposes nothing -/
theorem C16_reject_nop (st : St) (rev : Option Nat) (body : String) (cfg : Option Config)
    (h : (handlePostConfig st rev body cfg).status ≠ 200) : (handlePostConfig st rev body cfg).proposal = none := by
  unfold handlePostConfig at h ⊢
  cases rev with
  | none => rfl
  | some r =>
    cases cfg with
    | none => rfl
    | some c => by_cases hr : r = st.config.revision <;> simp_all

/-- an accepted update raises the revision by exactly one on every node that applies the entry,
and installs exactly the posted configuration -/
theorem C16_plus_one (st : St) (body : String) (c : Config) (e : Entry)
    (h : handlePostConfig st (some st.config.revision) body (some c) = ⟨200, some e⟩) (st2 : St) :
    ∃ st2', applyEntry st2 e = .ok (st2', []) ∧ st2'.config.revision = st.config.revision + 1 ∧
      st2'.config = { c with revision := st.config.revision + 1 } ∧ st2'.sessions = st2.sessions ∧ st2'.channels = st2.channels := by
  unfold handlePostConfig at h
  simp at h
  subst h
  exact ⟨{ st2 with config := { c with revision := st.config.revision + 1 } }, by unfold applyEntry; simp, rfl, rfl, rfl, rfl⟩

/-- a Config entry whose text does not parse (cannot happen through the handler, which parses
first) is skipped by the state machine without any effect -/
theorem C16_unparsable_skipped (st : St) (e : Entry) (h : e.type = 6) (hc : e.cfg = none) : applyEntry st e = .ok (st, []) := by
  unfold applyEntry; simp [h, hc]

/-- replicas are functions of the log: two nodes applying the same config entry to states with
equal configuration end with equal configuration -/
theorem C16_replicas_equal (a b : St) (e : Entry) (h : e.type = 6) (hab : a.config = b.config) :
    ∃ a' b', applyEntry a e = .ok (a', []) ∧ applyEntry b e = .ok (b', []) ∧ a'.config = b'.config := by
  unfold applyEntry
  cases hc : e.cfg with
  | none => exact ⟨a, b, by simp [h], by simp [h], hab⟩
  | some c => exact ⟨{ a with config := { c with revision := e.rev } }, { b with config := { c with revision := e.rev } }, by simp [h], by simp [h], rfl⟩

/-- bans added by GLINE become part of the replicated configuration (they are in the state that
every replica computes and that snapshots serialize) -/
theorem C16_gline_sets_ban (c : Ctx) (sid tid : Id) (m : IrcMsg) (s t : Session) (p0 : String) (c' : Ctx)
    (hs : getS c sid = .ok s) (hop : s.operator = true) (hp : param m 0 = .ok p0)
    (ht : AMap.get c.st.nicks (nickToLower p0) = some tid) (hts : getS c tid = .ok t) (haddr : t.remoteAddr ≠ "")
    (hk : cmdKill { c with st := { c.st with config := { c.st.config with banned := AMap.set c.st.config.banned t.remoteAddr m.trailing } } } sid m = .ok c') :
    cmdGline c sid m = .ok c' := by
  unfold cmdGline
  simp [hs, hop, hp, ht, hts, haddr, hk, bind, Res.bind, pure]

/-- regenerated from applyConfig: the revision test, and the proposed entry's fields -/
theorem C16_wiring :
    Gen.Exprs.fact "config.revtest.init" = "got, want := revision, api.configRevision()" ∧
    Gen.Exprs.fact "config.revtest" = "got != want" ∧
    Gen.Exprs.fact "config.msg.Revision" = "revision + 1" ∧
    Gen.Exprs.fact "config.msg.Data" = "body" ∧
    Gen.Exprs.fact "config.msg.Type" = "robust.Config" := by decide

end Robust.Props.C16
