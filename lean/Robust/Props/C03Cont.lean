import Robust.Props.C01Congr
import Robust.Props.C03
/-!
# C03 — save + load is invisible for every continuation

`Props/C03.lean` shows that `saveLoad st` is `st` with the nick index and `serverSessions` rebuilt
from the sessions (`C03_state_strong`): the same finite maps, in their own order.  With the
congruence theorem of `Props/C01Congr.lean` this gives the "every continuation" half of C03:

* `C03_equiv`: `st ≈ saveLoad st`;
* `C03_continuation`: for every list of entries, running it from `saveLoad st` and from `st` gives
  the same kind of result, equivalent final states, and entry by entry the same outputs (ids,
  bytes, order) up to the order of the recipients.

Hypotheses: `GInv st`, `Canon st` (as in `C03.lean`; it contains the duplicate-freeness of the
holds) and `ServersExact st`: the list `serverSessions` holds exactly the stored sessions flagged
`server`, once each.  The last one is needed for `≈` and is *not* an invariant of the model (nor of
the Go code): `serverSessions` is only ever appended to (`SERVER`), never pruned when the link's
session is deleted, while `Unmarshal` rebuilds it from the stored sessions.  After a services
link has gone, the original node keeps its stale id in every "to all services" recipient set and
a restored node does not — a difference in `InterestingFor` that names no live session (see the
`#eval` in the scratch file).  Without stale or repeated entries the two nodes are equivalent.
-/
namespace Robust.Props.C03Cont
open Robust Robust.Irc Robust.Props.C01Congr

/-- `serverSessions` is, up to order, what `Unmarshal` rebuilds: the ids of the stored sessions
flagged `server` -/
def ServersExact (st : St) : Prop := st.serverSessions.Perm (rebuiltServers st.sessions)

/-- no services link has ever registered: the condition holds trivially -/
theorem ServersExact_of_none (st : St) (h1 : st.serverSessions = [])
    (h2 : ∀ e ∈ st.sessions, e.2.server = false) : ServersExact st := by
  unfold ServersExact rebuiltServers
  rw [h1]
  have : st.sessions.filter (·.2.server) = [] := by
    rw [List.filter_eq_nil_iff]
    intro e he; rw [h2 e he]; simp
  rw [this]; exact List.Perm.refl _

theorem holdsNodup_of_canon {st : St} (hC : Canon st) : HoldsNodup st := ((canon_iff st).1 hC).2.2.1

/-- the restored state is the original one up to the order of the nick index and of `serverSessions` -/
theorem C03_equiv (st : St) (hI : Inv st) (hC : Canon st) (hV : ServersExact st) : st ≈ saveLoad st := by
  obtain ⟨he, hnd, hget, _⟩ := Robust.Props.C03.C03_state_strong st hI hC
  rw [he]
  have hn : MEq (fun (a b : Id) => a = b) st.nicks (rebuiltNicks st.sessions) :=
    ⟨hI.nickNodup, hnd, fun k => ORel.of_eq (hget k).symm⟩
  exact ⟨PermR.refl (EntryRel.refl SessEq.refl) _, hn.perm, PermR.refl (EntryRel.refl Channel.Equiv.refl) _,
    List.Perm.refl _, hV, rfl, rfl, rfl⟩

/-- one entry after the cut -/
theorem C03_continuation_entry (st : St) (e : Entry) (hG : GInv st) (hC : Canon st) (hV : ServersExact st) :
    RRel EntryResEquiv (applyEntry st e) (applyEntry (saveLoad st) e) :=
  C01_replicas_agree st (saveLoad st) e hG (holdsNodup_of_canon hC) (C03_equiv st hG.inv hC hV)

/-- **every continuation**: running any list of entries from the restored state and from the
original state gives the same kind of result, equivalent final states and, entry by entry, the
same outputs up to recipient order -/
theorem C03_continuation (st : St) (es : List Entry) (hG : GInv st) (hC : Canon st) (hV : ServersExact st)
    (hw : OkHistory st es) : RRel RunResEquiv (runOut st es) (runOut (saveLoad st) es) :=
  C01_history st (saveLoad st) es hG (holdsNodup_of_canon hC) (C03_equiv st hG.inv hC hV) hw

/-- in particular the final states -/
theorem C03_continuation_states (st st1 : St) (es : List Entry) (hG : GInv st) (hC : Canon st)
    (hV : ServersExact st) (hw : OkHistory st es) (hr : runEntries st es = .ok st1) :
    ∃ st1', runEntries (saveLoad st) es = .ok st1' ∧ st1 ≈ st1' :=
  C01_history_states st (saveLoad st) st1 es hG (holdsNodup_of_canon hC) (C03_equiv st hG.inv hC hV) hw hr

/-- the restored state satisfies the hypotheses of the congruence theorem again -/
theorem C03_restored_ginv (st : St) (hG : GInv st) (hC : Canon st) (hV : ServersExact st) :
    GInv (saveLoad st) ∧ HoldsNodup (saveLoad st) :=
  ⟨C01_ginv_transfer hG (holdsNodup_of_canon hC) (C03_equiv st hG.inv hC hV),
   (C01_inv_transfer hG.inv (holdsNodup_of_canon hC) (C03_equiv st hG.inv hC hV)).2⟩

/-- non-vacuity: the example state of `C03.lean` (a nickless session, "Alice" on `#C`, a services
link, a hold); its restored form differs from it (`saveLoad exSt ≠ exSt` there) but is equivalent -/
example : Robust.Props.C03.exSt ≈ saveLoad Robust.Props.C03.exSt :=
  C03_equiv _ Robust.Props.C03.exSt_inv Robust.Props.C03.exSt_canon (by
    unfold ServersExact
    decide)

end Robust.Props.C03Cont
