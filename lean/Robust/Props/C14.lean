import Robust.Irc.Inv
import Robust.Irc.Proofs.Entry
/-!
# C14 — IRC state stays consistent

The invariant `GInv = Inv ∧ LInv ∧ NInv ∧ VInv` (`Robust/Irc/Proofs/InvDef.lean`, `FrameLogin.lean`,
`NInv.lean`) holds in every state reachable from the initial one by well-formed entries
(`C14_reachable`, from `applyEntry_preserves`); the theorems below spell out what it says.
-/
namespace Robust.Props.C14
open Robust Robust.Irc

/-- the consistency predicate holds of a fresh server -/
theorem C14_init : invB ({} : St) = true := by decide

/-- every state reachable by a well-formed history satisfies the invariant -/
theorem C14_reachable {es : List Entry} {st : St} (hw : WfHistory {} es) (hr : runEntries {} es = .ok st) :
    GInv st :=
  run_preserves GInv_init hw hr

/-- one entry preserves the invariant -/
theorem C14_step (st st' : St) (e : Entry) (out : List Out) (h : GInv st) (he : EntryOk st e)
    (hr : applyEntry st e = .ok (st', out)) : GInv st' :=
  applyEntry_preserves st st' e out h he hr

/-- nicknames are unique up to IRC case folding -/
theorem C14_nick_unique {st : St} (h : GInv st) {a b : Id} {sa sb : Session}
    (ha : AMap.get st.sessions a = some sa) (hb : AMap.get st.sessions b = some sb)
    (hn : sa.nick ≠ "") (he : nickToLower sa.nick = nickToLower sb.nick) : a = b := by
  have hnb : sb.nick ≠ "" := by
    intro hb0
    rw [hb0, nickToLower_empty] at he
    exact hn (nickToLower_eq_empty.1 he)
  have h1 := h.inv.owns a sa ha (h.inv.noDeleted a sa ha) hn
  have h2 := h.inv.owns b sb hb (h.inv.noDeleted b sb hb) hnb
  rw [he, h2] at h1
  cases h1; rfl

/-- no stored session is flagged deleted, and sessions are stored under their id -/
theorem C14_sessions_live {st : St} (h : GInv st) {id : Id} {s : Session} (hs : AMap.get st.sessions id = some s) :
    s.deleted = false ∧ s.id = id :=
  ⟨h.inv.noDeleted id s hs, (h.inv.sessId id s hs).1⟩

/-- a session with a nickname is indexed under it -/
theorem C14_indexed {st : St} (h : GInv st) {id : Id} {s : Session} (hs : AMap.get st.sessions id = some s)
    (hn : s.nick ≠ "") : AMap.get st.nicks (nickToLower s.nick) = some id :=
  h.inv.owns id s hs (h.inv.noDeleted id s hs) hn

/-- membership is symmetric: a session (with a nickname) lists a channel iff that channel lists it -/
theorem C14_membership_symmetric {st : St} (h : GInv st) {id : Id} {s : Session}
    (hs : AMap.get st.sessions id = some s) (hn : s.nick ≠ "") (lc : String) :
    lc ∈ s.channels ↔ ∃ c, AMap.get st.channels lc = some c ∧ nickToLower s.nick ∈ AMap.keys c.nicks := by
  have hl := h.inv.noDeleted id s hs
  constructor
  · intro hlc
    obtain ⟨c, hc, hm⟩ := (h.inv.toWInv.owns_chans hs hl hn).2 lc hlc
    exact ⟨c, hc, AMap.contains_iff_mem_keys.1 hm⟩
  · rintro ⟨c, hc, hm⟩
    obtain ⟨id', s', h1, h2, h3⟩ := (h.inv.chans lc c hc).2.2 _ hm
    have h4 := h.inv.owns id s hs hl hn
    rw [h4] at h1; cases h1
    rw [hs] at h2; cases h2
    exact h3

/-- a session without nickname is in no channel and is not indexed; `""` is not an index key -/
theorem C14_nickless_inert {st : St} (h : GInv st) :
    AMap.get st.nicks "" = none ∧
    ∀ id s, AMap.get st.sessions id = some s → s.nick = "" → s.channels = [] ∧ ∀ x, AMap.get st.nicks x ≠ some id :=
  h.ninv

/-- every nickname carried by a session and every channel name is syntactically valid -/
theorem C14_names_valid {st : St} (h : GInv st) :
    (∀ id s, AMap.get st.sessions id = some s → s.nick ≠ "" → isValidNickname s.nick = true) ∧
    (∀ lc c, AMap.get st.channels lc = some c → isValidChannel c.name = true) :=
  h.vinv

/-- a registered session has a nickname -/
theorem C14_logged_in_has_nick {st : St} (h : GInv st) {id : Id} {s : Session}
    (hs : AMap.get st.sessions id = some s) (hl : s.loggedIn = true) : s.nick ≠ "" :=
  h.linv id s hs hl

/-- no stored channel is empty -/
theorem C14_no_empty_channel {st : St} (h : GInv st) {lc : String} {c : Channel}
    (hc : AMap.get st.channels lc = some c) : c.nicks ≠ [] :=
  h.inv.nonempty lc c hc

/-- channels are stored under their lower-cased name -/
theorem C14_channel_key {st : St} (h : GInv st) {lc : String} {c : Channel}
    (hc : AMap.get st.channels lc = some c) : chanToLower c.name = lc :=
  (h.inv.chans lc c hc).1

/-- every member of a channel is a live, indexed session carrying that nick and listing the channel -/
theorem C14_members_are_live_and_reachable {st : St} (h : GInv st) {lc n : String} {c : Channel}
    (hc : AMap.get st.channels lc = some c) (hm : n ∈ AMap.keys c.nicks) :
    ∃ id s, AMap.get st.nicks n = some id ∧ AMap.get st.sessions id = some s ∧ s.deleted = false ∧
      nickToLower s.nick = n ∧ lc ∈ s.channels := by
  obtain ⟨id, s, h1, h2, h3, h4, h5, _⟩ := h.inv.toWInvCore.chanMember_live hc hm
  exact ⟨id, s, h1, h2, h4, h5, h3⟩

/-- the index only points to live sessions carrying that nick -/
theorem C14_index_sound {st : St} (h : GInv st) {n : String} {id : Id} (hi : AMap.get st.nicks n = some id) :
    ∃ s, AMap.get st.sessions id = some s ∧ s.deleted = false ∧ nickToLower s.nick = n :=
  h.inv.index n id hi

/-- the maps have no duplicate keys -/
theorem C14_nodup {st : St} (h : GInv st) :
    (AMap.keys st.sessions).Nodup ∧ (AMap.keys st.nicks).Nodup ∧ (AMap.keys st.channels).Nodup :=
  ⟨h.inv.sessNodup, h.inv.nickNodup, h.inv.chanNodup⟩

/-- session creation at or above the configured limit is refused (and only then) -/
theorem C14_limits_sessions (st : St) (id : Id) (auth : String) (ts : Int) :
    createSession st id auth ts = none ↔ (st.sessions.length ≥ st.config.maxSessions ∧ st.config.maxSessions > 0) := by
  unfold createSession
  split
  · rename_i hc
    simp only [Bool.and_eq_true, decide_eq_true_eq] at hc
    exact ⟨fun _ => hc, fun _ => rfl⟩
  · rename_i hc
    simp only [Bool.and_eq_true, decide_eq_true_eq] at hc
    exact ⟨(fun h => by cases h), fun h => absurd h hc⟩

theorem all_of_get {κ ν : Type} [DecidableEq κ] {m : AMap κ ν} {p : κ × ν → Bool}
    (h : ∀ k v, AMap.get m k = some v → p (k, v) = true) (hn : (AMap.keys m).Nodup) : m.all p = true :=
  (AMap.all_iff_get hn).2 h

/-- the executable consistency predicate (the twin of `ircserver.VerifWalk`) holds in every state
satisfying the proved invariant -/
theorem C14_invB {st : St} (h : GInv st) : invB st = true := by
  unfold invB
  simp only [Bool.and_eq_true]
  refine ⟨⟨⟨⟨⟨?_, ?_⟩, ?_⟩, ?_⟩, ?_⟩, ?_⟩
  · simpa [keysNodup] using h.inv.sessNodup
  · simpa [keysNodup] using h.inv.nickNodup
  · simpa [keysNodup] using h.inv.chanNodup
  · refine all_of_get (fun id s hs => ?_) h.inv.sessNodup
    have hl := h.inv.noDeleted id s hs
    obtain ⟨hid, hnd⟩ := h.inv.sessId id s hs
    simp only [Bool.and_eq_true, decide_eq_true_eq]
    refine ⟨?_, hnd⟩
    unfold sessionOk
    simp only [Bool.and_eq_true, beq_iff_eq, Bool.not_eq_true', Bool.or_eq_true]
    refine ⟨⟨hid, hl⟩, ?_⟩
    by_cases hn : s.nick = ""
    · exact Or.inl hn
    · right
      simp only [bne_iff_ne, ne_eq]
      refine ⟨⟨⟨?_, h.inv.owns id s hs hl hn⟩, Or.inr (h.vinv.1 id s hs hn)⟩, ?_⟩
      · refine all_of_get (fun id' s' hs' => ?_) h.inv.sessNodup
        simp only [Bool.or_eq_true, beq_iff_eq, bne_iff_ne, ne_eq]
        by_cases h1 : id' = id
        · exact Or.inl (Or.inl h1)
        by_cases h2 : s'.nick = ""
        · exact Or.inl (Or.inr h2)
        right
        intro he
        exact h1 (C14_nick_unique h hs' hs h2 he)
      · rw [List.all_eq_true]
        intro ch hch
        obtain ⟨c, hc, hm⟩ := (h.inv.toWInv.owns_chans hs hl hn).2 ch hch
        rw [hc]; exact hm
  · refine all_of_get (fun lc id hi => ?_) h.inv.nickNodup
    obtain ⟨s, hs, _, hlow⟩ := h.inv.index lc id hi
    unfold nickIndexOk
    simp only [hs, beq_iff_eq]
    exact hlow
  · refine all_of_get (fun lc c hc => ?_) h.inv.chanNodup
    obtain ⟨hname, hnd, hmem⟩ := h.inv.chans lc c hc
    unfold channelOk
    simp only [Bool.and_eq_true, beq_iff_eq, decide_eq_true_eq]
    refine ⟨⟨⟨⟨hname, h.vinv.2 lc c hc⟩, ?_⟩, by simpa [keysNodup] using hnd⟩, ?_⟩
    · have := h.inv.nonempty lc c hc
      cases hcn : c.nicks with
      | nil => exact absurd hcn this
      | cons a t => simp
    · rw [List.all_eq_true]
      intro e he
      obtain ⟨id, s, h1, h2, h3⟩ := hmem e.1 (AMap.mem_keys_of_mem he)
      simp only [h1, h2]
      exact List.contains_iff_mem.2 h3
end Robust.Props.C14
