import Robust.Irc.Inv
import Robust.Irc.Proofs.Entry
import Robust.Irc.Proofs.ChanLimitEntry
import Robust.Irc.Proofs.ChanLimitSessEntry
import Robust.Irc.Proofs.PrivHistB
/-!
# C14 — IRC state stays consistent

The invariant `GInv = Inv ∧ LInv ∧ NInv ∧ VInv` (`Robust/Irc/Proofs/InvDef.lean`, `FrameLogin.lean`,
`NInv.lean`) holds in every state reachable from the initial one by well-formed entries
(`C14_reachable`, from `applyEntry_preserves`); the theorems below spell out what it says.
-/
namespace Robust.Props.C14
open Robust Robust.Irc

/-- the consistency predicate holds of a fresh server -/
theorem C14_init : invB ({} : St) = true := by decide

/-- every state reachable by a well-formed history satisfies the invariant -/
theorem C14_reachable {es : List Entry} {st : St} (hw : WfHistory {} es) (hr : runEntries {} es = .ok st) :
    GInv st :=
  run_preserves GInv_init hw hr

/-- one entry preserves the invariant -/
theorem C14_step (st st' : St) (e : Entry) (out : List Out) (h : GInv st) (he : EntryOk st e)
    (hr : applyEntry st e = .ok (st', out)) : GInv st' :=
  applyEntry_preserves st st' e out h he hr

/-- nicknames are unique up to IRC case folding -/
theorem C14_nick_unique {st : St} (h : GInv st) {a b : Id} {sa sb : Session}
    (ha : AMap.get st.sessions a = some sa) (hb : AMap.get st.sessions b = some sb)
    (hn : sa.nick ≠ "") (he : nickToLower sa.nick = nickToLower sb.nick) : a = b := by
  have hnb : sb.nick ≠ "" := by
    intro hb0
    rw [hb0, nickToLower_empty] at he
    exact hn (nickToLower_eq_empty.1 he)
  have h1 := h.inv.owns a sa ha (h.inv.noDeleted a sa ha) hn
  have h2 := h.inv.owns b sb hb (h.inv.noDeleted b sb hb) hnb
  rw [he, h2] at h1
  cases h1; rfl

/-- no stored session is flagged deleted, and sessions are stored under their id -/
theorem C14_sessions_live {st : St} (h : GInv st) {id : Id} {s : Session} (hs : AMap.get st.sessions id = some s) :
    s.deleted = false ∧ s.id = id :=
  ⟨h.inv.noDeleted id s hs, (h.inv.sessId id s hs).1⟩

/-- a session with a nickname is indexed under it -/
theorem C14_indexed {st : St} (h : GInv st) {id : Id} {s : Session} (hs : AMap.get st.sessions id = some s)
    (hn : s.nick ≠ "") : AMap.get st.nicks (nickToLower s.nick) = some id :=
  h.inv.owns id s hs (h.inv.noDeleted id s hs) hn

/-- membership is symmetric: a session (with a nickname) lists a channel iff that channel lists it -/
theorem C14_membership_symmetric {st : St} (h : GInv st) {id : Id} {s : Session}
    (hs : AMap.get st.sessions id = some s) (hn : s.nick ≠ "") (lc : String) :
    lc ∈ s.channels ↔ ∃ c, AMap.get st.channels lc = some c ∧ nickToLower s.nick ∈ AMap.keys c.nicks := by
  have hl := h.inv.noDeleted id s hs
  constructor
  · intro hlc
    obtain ⟨c, hc, hm⟩ := (h.inv.toWInv.owns_chans hs hl hn).2 lc hlc
    exact ⟨c, hc, AMap.contains_iff_mem_keys.1 hm⟩
  · rintro ⟨c, hc, hm⟩
    obtain ⟨id', s', h1, h2, h3⟩ := (h.inv.chans lc c hc).2.2 _ hm
    have h4 := h.inv.owns id s hs hl hn
    rw [h4] at h1; cases h1
    rw [hs] at h2; cases h2
    exact h3

/-- a session without nickname is in no channel and is not indexed; `""` is not an index key -/
theorem C14_nickless_inert {st : St} (h : GInv st) :
    AMap.get st.nicks "" = none ∧
    ∀ id s, AMap.get st.sessions id = some s → s.nick = "" → s.channels = [] ∧ ∀ x, AMap.get st.nicks x ≠ some id :=
  h.ninv

/-- every nickname carried by a session and every channel name is syntactically valid -/
theorem C14_names_valid {st : St} (h : GInv st) :
    (∀ id s, AMap.get st.sessions id = some s → s.nick ≠ "" → isValidNickname s.nick = true) ∧
    (∀ lc c, AMap.get st.channels lc = some c → isValidChannel c.name = true) :=
  h.vinv

/-- a registered session has a nickname -/
theorem C14_logged_in_has_nick {st : St} (h : GInv st) {id : Id} {s : Session}
    (hs : AMap.get st.sessions id = some s) (hl : s.loggedIn = true) : s.nick ≠ "" :=
  h.linv id s hs hl

/-- no stored channel is empty -/
theorem C14_no_empty_channel {st : St} (h : GInv st) {lc : String} {c : Channel}
    (hc : AMap.get st.channels lc = some c) : c.nicks ≠ [] :=
  h.inv.nonempty lc c hc

/-- channels are stored under their lower-cased name -/
theorem C14_channel_key {st : St} (h : GInv st) {lc : String} {c : Channel}
    (hc : AMap.get st.channels lc = some c) : chanToLower c.name = lc :=
  (h.inv.chans lc c hc).1

/-- every member of a channel is a live, indexed session carrying that nick and listing the channel -/
theorem C14_members_are_live_and_reachable {st : St} (h : GInv st) {lc n : String} {c : Channel}
    (hc : AMap.get st.channels lc = some c) (hm : n ∈ AMap.keys c.nicks) :
    ∃ id s, AMap.get st.nicks n = some id ∧ AMap.get st.sessions id = some s ∧ s.deleted = false ∧
      nickToLower s.nick = n ∧ lc ∈ s.channels := by
  obtain ⟨id, s, h1, h2, h3, h4, h5, _⟩ := h.inv.toWInvCore.chanMember_live hc hm
  exact ⟨id, s, h1, h2, h4, h5, h3⟩

/-- the index only points to live sessions carrying that nick -/
theorem C14_index_sound {st : St} (h : GInv st) {n : String} {id : Id} (hi : AMap.get st.nicks n = some id) :
    ∃ s, AMap.get st.sessions id = some s ∧ s.deleted = false ∧ nickToLower s.nick = n :=
  h.inv.index n id hi

/-- the maps have no duplicate keys -/
theorem C14_nodup {st : St} (h : GInv st) :
    (AMap.keys st.sessions).Nodup ∧ (AMap.keys st.nicks).Nodup ∧ (AMap.keys st.channels).Nodup :=
  ⟨h.inv.sessNodup, h.inv.nickNodup, h.inv.chanNodup⟩

/-- session creation at or above the configured limit is refused (and only then) -/
theorem C14_limits_sessions (st : St) (id : Id) (auth : String) (ts : Int) :
    createSession st id auth ts = none ↔ (st.sessions.length ≥ st.config.maxSessions ∧ st.config.maxSessions > 0) := by
  unfold createSession
  split
  · rename_i hc
    simp only [Bool.and_eq_true, decide_eq_true_eq] at hc
    exact ⟨fun _ => hc, fun _ => rfl⟩
  · rename_i hc
    simp only [Bool.and_eq_true, decide_eq_true_eq] at hc
    exact ⟨(fun h => by cases h), fun h => absurd h hc⟩

theorem all_of_get {κ ν : Type} [DecidableEq κ] {m : AMap κ ν} {p : κ × ν → Bool}
    (h : ∀ k v, AMap.get m k = some v → p (k, v) = true) (hn : (AMap.keys m).Nodup) : m.all p = true :=
  (AMap.all_iff_get hn).2 h

/-- the executable consistency predicate (the twin of `ircserver.VerifWalk`) holds in every state
satisfying the proved invariant -/
theorem C14_invB {st : St} (h : GInv st) : invB st = true := by
  unfold invB
  simp only [Bool.and_eq_true]
  refine ⟨⟨⟨⟨⟨?_, ?_⟩, ?_⟩, ?_⟩, ?_⟩, ?_⟩
  · simpa [keysNodup] using h.inv.sessNodup
  · simpa [keysNodup] using h.inv.nickNodup
  · simpa [keysNodup] using h.inv.chanNodup
  · refine all_of_get (fun id s hs => ?_) h.inv.sessNodup
    have hl := h.inv.noDeleted id s hs
    obtain ⟨hid, hnd⟩ := h.inv.sessId id s hs
    simp only [Bool.and_eq_true, decide_eq_true_eq]
    refine ⟨?_, hnd⟩
    unfold sessionOk
    simp only [Bool.and_eq_true, beq_iff_eq, Bool.not_eq_true', Bool.or_eq_true]
    refine ⟨⟨hid, hl⟩, ?_⟩
    by_cases hn : s.nick = ""
    · exact Or.inl hn
    · right
      simp only [bne_iff_ne, ne_eq]
      refine ⟨⟨⟨?_, h.inv.owns id s hs hl hn⟩, Or.inr (h.vinv.1 id s hs hn)⟩, ?_⟩
      · refine all_of_get (fun id' s' hs' => ?_) h.inv.sessNodup
        simp only [Bool.or_eq_true, beq_iff_eq, bne_iff_ne, ne_eq]
        by_cases h1 : id' = id
        · exact Or.inl (Or.inl h1)
        by_cases h2 : s'.nick = ""
        · exact Or.inl (Or.inr h2)
        right
        intro he
        exact h1 (C14_nick_unique h hs' hs h2 he)
      · rw [List.all_eq_true]
        intro ch hch
        obtain ⟨c, hc, hm⟩ := (h.inv.toWInv.owns_chans hs hl hn).2 ch hch
        rw [hc]; exact hm
  · refine all_of_get (fun lc id hi => ?_) h.inv.nickNodup
    obtain ⟨s, hs, _, hlow⟩ := h.inv.index lc id hi
    unfold nickIndexOk
    simp only [hs, beq_iff_eq]
    exact hlow
  · refine all_of_get (fun lc c hc => ?_) h.inv.chanNodup
    obtain ⟨hname, hnd, hmem⟩ := h.inv.chans lc c hc
    unfold channelOk
    simp only [Bool.and_eq_true, beq_iff_eq, decide_eq_true_eq]
    refine ⟨⟨⟨⟨hname, h.vinv.2 lc c hc⟩, ?_⟩, by simpa [keysNodup] using hnd⟩, ?_⟩
    · have := h.inv.nonempty lc c hc
      cases hcn : c.nicks with
      | nil => exact absurd hcn this
      | cons a t => simp
    · rw [List.all_eq_true]
      intro e he
      obtain ⟨id, s, h1, h2, h3⟩ := hmem e.1 (AMap.mem_keys_of_mem he)
      simp only [h1, h2]
      exact List.contains_iff_mem.2 h3

/-! ## the configured limits (`MaxSessions`, `MaxChannels`)

What holds in the model (and in the Go code): a channel is created only by a client's `JOIN` and by the services
commands `JOIN` / `SVSJOIN`, and each of the three creates it only while the number of channels is below
`MaxChannels` (or `MaxChannels = 0`, no limit); at the limit the line is refused with `403`.  Every other client
command, every other services command, session deletion and expiry never raise the number of channels; no command
touches the limits themselves (GLINE only changes `config.banned`).  So the clause "the configured maximum number
of channels is never exceeded" holds for every well-formed history — whoever the acting sessions are — in which no
Config entry lowers the limit below the current number of channels (`C14_limits_channels_history`).  Sessions are
created by CreateSession entries and by the services `NICK`, both through `createSession`, which refuses at the
limit. -/

/-- **one JOIN target** (`joinOne`): the limit is untouched; the number of channels does not grow, or exactly one
channel — under a key that was not stored — is created, and then the number of channels was below the limit
(or there is no limit) -/
theorem C14_join_creates_only_below_limit {c c' : Ctx} {sid : Id} {chn key : String}
    (hr : joinOne c sid chn key = .ok c') :
    c'.st.config.maxChannels = c.st.config.maxChannels ∧
    (c'.st.channels.length ≤ c.st.channels.length ∨
      (c'.st.channels.length = c.st.channels.length + 1 ∧ AMap.get c.st.channels (chanToLower chn) = none ∧
        (c.st.config.maxChannels = 0 ∨ c.st.channels.length < c.st.config.maxChannels))) :=
  joinOne_creates_only_below_limit hr

/-- **one services JOIN target** (`serverJoinOne`, the step of `cmdServerJoin`): the same — the limit is untouched;
the number of channels does not grow, or exactly one channel — under a key that was not stored — is created, and
then the number of channels was below the limit (or there is no limit) -/
theorem C14_services_join_creates_only_below_limit {c c' : Ctx} {m : IrcMsg} {chn : String}
    (hr : serverJoinOne c m chn = .ok c') :
    c'.st.config.maxChannels = c.st.config.maxChannels ∧
    (c'.st.channels.length ≤ c.st.channels.length ∨
      (c'.st.channels.length = c.st.channels.length + 1 ∧ AMap.get c.st.channels (chanToLower chn) = none ∧
        (c.st.config.maxChannels = 0 ∨ c.st.channels.length < c.st.config.maxChannels))) :=
  serverJoinOne_creates_only_below_limit hr

/-- **services SVSJOIN** (`cmdServerSvsjoin`; the channel is the second parameter): the same -/
theorem C14_services_svsjoin_creates_only_below_limit {c c' : Ctx} {sid : Id} {m : IrcMsg}
    (hr : cmdServerSvsjoin c sid m = .ok c') :
    c'.st.config.maxChannels = c.st.config.maxChannels ∧
    (c'.st.channels.length ≤ c.st.channels.length ∨
      ∃ chn, m.params[1]? = some chn ∧
        c'.st.channels.length = c.st.channels.length + 1 ∧ AMap.get c.st.channels (chanToLower chn) = none ∧
        (c.st.config.maxChannels = 0 ∨ c.st.channels.length < c.st.config.maxChannels)) :=
  cmdServerSvsjoin_creates_only_below_limit hr

/-- **JOIN** (any number of targets): with a limit the number of channels stays at most the larger of the
previous number and the limit -/
theorem C14_join_channel_limit {c c' : Ctx} {sid : Id} {m : IrcMsg} (hr : cmdJoin c sid m = .ok c') :
    c'.st.config.maxChannels = c.st.config.maxChannels ∧
    (0 < c.st.config.maxChannels → c'.st.channels.length ≤ max c.st.channels.length c.st.config.maxChannels) :=
  cmdJoin_channel_limit hr

/-- **every handler of the command table** (client and services) except the three joining handlers — the client's
`JOIN` and the services `JOIN` / `SVSJOIN`, which respect the limit (`C14_all_handlers_channel_limit`): the limit
is untouched and the number of channels does not grow -/
theorem C14_handlers_do_not_create_channels {fname : String} {h : Handler} (hh : handlerByName fname = some h)
    (h1 : fname ≠ "cmdJoin") (h2 : fname ≠ "cmdServerJoin") (h3 : fname ≠ "cmdServerSvsjoin")
    {c c' : Ctx} {sid : Id} {m : IrcMsg} (hr : h c sid m = .ok c') :
    c'.st.config.maxChannels = c.st.config.maxChannels ∧ c'.st.channels.length ≤ c.st.channels.length :=
  let r := handler_chanLe hh h1 h2 h3 c.st c sid m c' (ChanLe.refl _) hr
  ⟨r.maxChannels, r.le⟩

/-- **every handler of the command table, no exception** (client and services, the three joining handlers
included): the limit is untouched, and with a limit the number of channels stays at most the larger of the
previous number and the limit -/
theorem C14_all_handlers_channel_limit {fname : String} {h : Handler} (hh : handlerByName fname = some h)
    {c c' : Ctx} {sid : Id} {m : IrcMsg} (hr : h c sid m = .ok c') :
    c'.st.config.maxChannels = c.st.config.maxChannels ∧
    (0 < c.st.config.maxChannels → c'.st.channels.length ≤ max c.st.channels.length c.st.config.maxChannels) :=
  let r := handler_chanLim hh c.st c sid m c' (ChanLim.refl _) hr
  ⟨r.maxChannels, r.le⟩

/-- **one entry, any acting session (client or services link)**: entries other than Config entries keep the limit,
Config entries keep the channels; the number of channels grows only through a type-2 entry whose line is `JOIN`
(from a client or a services link) or `SVSJOIN` from a services link, and then — with a limit — it stays at most
the larger of the previous number and the limit -/
theorem C14_limits_channels_entry {st st' : St} {e : Entry} {out : List Out} (h : GInv st) (he : EntryOk st e)
    (hr : applyEntry st e = .ok (st', out)) :
    (e.type ≠ 6 → st'.config.maxChannels = st.config.maxChannels) ∧
    (e.type = 6 → st'.channels = st.channels) ∧
    (st'.channels.length ≤ st.channels.length ∨
      (e.type = 2 ∧ ∃ s m, AMap.get st.sessions e.session = some s ∧ parseMessage e.data = some m ∧
        (toUpper m.command = "JOIN" ∨ (s.server = true ∧ toUpper m.command = "SVSJOIN")) ∧
        (0 < st.config.maxChannels → st'.channels.length ≤ max st.channels.length st.config.maxChannels))) :=
  let r := applyEntry_chan (SessWf.of_core h.inv.toWInvCore) he.1 hr
  ⟨r.maxChannels, r.config, r.chans⟩

/-- **channel limit**: an entry — whoever the acting session is — never changes the limit (unless it is a
Config entry, which leaves the channels alone), never raises the number of channels above
`max (current number) maxChannels`, and raises it at all only through a `JOIN` or a services link's `SVSJOIN` -/
theorem C14_limits_channels {st st' : St} {e : Entry} {out : List Out} (h : GInv st) (he : EntryOk st e)
    (hr : applyEntry st e = .ok (st', out)) :
    (e.type ≠ 6 → st'.config.maxChannels = st.config.maxChannels) ∧
    (e.type = 6 → st'.channels = st.channels) ∧
    (0 < st.config.maxChannels → e.type ≠ 6 → st'.channels.length ≤ max st.channels.length st.config.maxChannels) ∧
    (st.channels.length < st'.channels.length →
       e.type = 2 ∧ ∃ s m, AMap.get st.sessions e.session = some s ∧ parseMessage e.data = some m ∧
         (toUpper m.command = "JOIN" ∨ (s.server = true ∧ toUpper m.command = "SVSJOIN"))) := by
  obtain ⟨h1, h2, h3⟩ := C14_limits_channels_entry h he hr
  refine ⟨h1, h2, fun hpos _ => ?_, fun hlt => ?_⟩
  · rcases h3 with hle | ⟨_, s, m, _, _, _, hlim⟩
    · exact Nat.le_trans hle (Nat.le_max_left _ _)
    · exact hlim hpos
  · rcases h3 with hle | ⟨ht, s, m, hs, hm, hj, _⟩
    · omega
    · exact ⟨ht, s, m, hs, hm, hj⟩

/-- the limit is respected (`maxChannels = 0`: no limit) -/
def ChannelsWithinLimit (st : St) : Prop :=
  st.config.maxChannels = 0 ∨ st.channels.length ≤ st.config.maxChannels

/-- **the limit is respected after the entry** when it was before — for every acting session, client or services
link — provided that a Config entry sets a limit that is `0` or at least the current number of channels -/
theorem C14_limits_channels_step {st st' : St} {e : Entry} {out : List Out} (h : GInv st) (he : EntryOk st e)
    (hl : ChannelsWithinLimit st)
    (hcfg : e.type = 6 → ∀ cfg, e.cfg = some cfg → cfg.maxChannels = 0 ∨ st.channels.length ≤ cfg.maxChannels)
    (hr : applyEntry st e = .ok (st', out)) : ChannelsWithinLimit st' :=
  (applyEntry_chan (SessWf.of_core h.inv.toWInvCore) he.1 hr).within hl hcfg ⟨out, hr⟩

/-- along the history (threaded through `applyEntry` like `WfHistory`): a Config entry sets a limit that is
`0` or at least the current number of channels -/
def LimitHistory (st : St) : List Entry → Prop
  | [] => True
  | e :: es =>
    (e.type = 6 → ∀ cfg, e.cfg = some cfg → cfg.maxChannels = 0 ∨ st.channels.length ≤ cfg.maxChannels) ∧
    ∀ st' out, applyEntry st e = .ok (st', out) → LimitHistory st' es

theorem LimitHistory_iff (st : St) (es : List Entry) : LimitHistory st es ↔ Robust.Irc.LimitHistory st es := by
  induction es generalizing st with
  | nil => exact Iff.rfl
  | cons e es ih =>
    unfold LimitHistory Robust.Irc.LimitHistory
    exact and_congr Iff.rfl (forall_congr' fun st' => forall_congr' fun out => imp_congr Iff.rfl (ih st'))

/-- **the channel limit over histories**: in a well-formed history from the initial state in which no Config
entry lowers the limit below the current number of channels, the number of channels never exceeds the configured
limit (no exception for services links: their `JOIN` / `SVSJOIN` are refused at the limit) -/
theorem C14_limits_channels_history {es : List Entry} {st : St} (hw : WfHistory {} es)
    (hl : LimitHistory {} es) (hr : runEntries {} es = .ok st) : ChannelsWithinLimit st :=
  run_within_limit (SessWf.of_core GInv_init.inv.toWInvCore) (Or.inl rfl) hw ((LimitHistory_iff _ _).1 hl) hr

/-! ### non-vacuity: at the limit the services `JOIN` / `SVSJOIN` are refused

The state below was the counterexample to the channel limit before services `JOIN` / `SVSJOIN` checked
`MaxChannels`: then both lines succeeded and left two channels although `MaxChannels = 1`. -/

def cexAlice : Session :=
  { id := ⟨1, 0⟩, nick := "alice", username := "al", loggedIn := true, channels := ["#c"]
    ircPrefix := ⟨"alice", "al", "robust/0x1"⟩ }
def cexServ : Session :=
  { id := ⟨9, 0⟩, server := true, ircPrefix := ⟨"services.example", "", ""⟩ }
/-- a pseudo-client of the link 9 -/
def cexChanServ : Session :=
  { id := ⟨9, 77⟩, nick := "ChanServ", username := "services", channels := []
    ircPrefix := ⟨"ChanServ", "services", "robust/0x9"⟩ }
def cexChanC : Channel := { name := "#c", nicks := [("alice", { chanop := true })], modes := ['n', 't'] }

/-- `MaxChannels = 1`, one channel `#c` (alice), one services link (session 9) with the pseudo-client ChanServ:
the number of channels is at the limit -/
def cexSt : St :=
  { sessions := [(⟨1, 0⟩, cexAlice), (⟨9, 0⟩, cexServ), (⟨9, 77⟩, cexChanServ)]
    nicks := [("alice", ⟨1, 0⟩), ("chanserv", ⟨9, 77⟩)]
    channels := [("#c", cexChanC)]
    serverSessions := [9]
    config := { maxChannels := 1 } }

/-- `:services.example SVSJOIN alice #new` -/
def cexSvsjoin : IrcMsg := ⟨some ⟨"services.example", "", ""⟩, "SVSJOIN", ["alice", "#new"]⟩
/-- `:ChanServ JOIN #new` -/
def cexJoin : IrcMsg := ⟨some ⟨"ChanServ", "", ""⟩, "JOIN", ["#new"]⟩

/-- the executable consistency predicate holds of the example state (that it satisfies the proved invariant
`GInv` is `C14_cex_state_consistent` in `C14Cex.lean`, which needs the checker of `RcptCheck.lean`) -/
theorem cexSt_invB : invB cexSt = true := by decide

/-- **at the limit the services SVSJOIN and JOIN are refused**: in a consistent state (`invB`; `GInv` in
`C14Cex.lean`) with `MaxChannels = 1` and one channel, the services lines `SVSJOIN alice #new` and
`:ChanServ JOIN #new` succeed as handlers but create nothing: the only output is the numeric `403` to the services
link (session 9), and there is still one channel -/
theorem C14_services_refused_at_channel_limit :
    invB cexSt = true ∧ ChannelsWithinLimit cexSt ∧
    (match cmdServerSvsjoin ⟨cexSt, 1, 0, []⟩ ⟨9, 0⟩ cexSvsjoin with
     | .ok c' => decide (c'.st.channels.length = 1 ∧ c'.st.config.maxChannels = 1 ∧
         c'.out = [⟨1, 1, utf8 ":robustirc.net 403 services.example #new :No such channel", [9]⟩])
     | _ => false) = true ∧
    (match cmdServerJoin ⟨cexSt, 1, 0, []⟩ ⟨9, 0⟩ cexJoin with
     | .ok c' => decide (c'.st.channels.length = 1 ∧ c'.st.config.maxChannels = 1 ∧
         c'.out = [⟨1, 1, utf8 ":robustirc.net 403 ChanServ #new :No such channel", [9]⟩])
     | _ => false) = true ∧
    (match cmdServerSvsjoin ⟨cexSt, 1, 0, []⟩ ⟨9, 0⟩ cexSvsjoin with
     | .ok c' => ChannelsWithinLimit c'.st
     | _ => False) ∧
    (match cmdServerJoin ⟨cexSt, 1, 0, []⟩ ⟨9, 0⟩ cexJoin with
     | .ok c' => ChannelsWithinLimit c'.st
     | _ => False) :=
  ⟨cexSt_invB, Or.inr (by decide), by decide +kernel, by decide +kernel,
    Or.inr (by decide +kernel), Or.inr (by decide +kernel)⟩

/-- … and through the whole of `ProcessMessage` for the services link (session 9): the same two lines, dispatched
via the command table, are answered with `403` to the services link and leave the one channel -/
theorem C14_services_refused_at_channel_limit_processMessage :
    (match processMessage ⟨cexSt, 1, 0, []⟩ { (default : Entry) with type := 2, id := 1, session := ⟨9, 0⟩ }
        (some cexSvsjoin) with
     | .ok c' => decide (c'.st.channels.length = 1 ∧ c'.st.config.maxChannels = 1 ∧
         c'.out = [⟨1, 1, utf8 ":robustirc.net 403 services.example #new :No such channel", [9]⟩])
     | _ => false) = true ∧
    (match processMessage ⟨cexSt, 1, 0, []⟩ { (default : Entry) with type := 2, id := 1, session := ⟨9, 0⟩ }
        (some cexJoin) with
     | .ok c' => decide (c'.st.channels.length = 1 ∧ c'.st.config.maxChannels = 1 ∧
         c'.out = [⟨1, 1, utf8 ":robustirc.net 403 ChanServ #new :No such channel", [9]⟩])
     | _ => false) = true :=
  ⟨by decide +kernel, by decide +kernel⟩

/-! ### the session limit -/

/-- **CreateSession entries**: the configuration is untouched; with a limit the number of sessions stays at most
the larger of the previous number and the limit; at the limit nothing happens -/
theorem C14_limits_sessions_entry {st st' : St} {e : Entry} {out : List Out} (ht : e.type = 0)
    (hr : applyEntry st e = .ok (st', out)) :
    st'.config = st.config ∧
    (0 < st.config.maxSessions → st'.sessions.length ≤ max st.sessions.length st.config.maxSessions) ∧
    (st.config.maxSessions ≤ st.sessions.length → 0 < st.config.maxSessions → st' = st) :=
  applyEntry_create_sessions ht hr

/-- **services NICK** (the other caller of `createSession`): the same bound -/
theorem C14_limits_sessions_services_nick {c c' : Ctx} {sid : Id} {m : IrcMsg}
    (hr : cmdServerNick c sid m = .ok c') :
    c'.st.config = c.st.config ∧
    (0 < c.st.config.maxSessions → c'.st.sessions.length ≤ max c.st.sessions.length c.st.config.maxSessions) :=
  chanLim_cmdServerNick_sessions hr

/-- **every handler of the command table except the services `NICK`**: the session limit is untouched and the
number of stored sessions does not grow (sessions flagged deleted are purged after the handler) -/
theorem C14_handlers_do_not_create_sessions {fname : String} {h : Handler} (hh : handlerByName fname = some h)
    (hn : fname ≠ "cmdServerNick") {c c' : Ctx} {sid : Id} {m : IrcMsg}
    (hw : (∀ id s, AMap.get c.st.sessions id = some s → s.id = id) ∧ (AMap.keys c.st.sessions).Nodup)
    (hr : h c sid m = .ok c') :
    c'.st.config.maxSessions = c.st.config.maxSessions ∧ c'.st.sessions.length ≤ c.st.sessions.length :=
  let r := handler_sessLe hh hn c.st c sid m c' (SessLe.refl ⟨hw.1, hw.2⟩) hr
  ⟨r.maxSessions, r.le⟩

/-- **one entry**: entries other than Config entries keep the session limit, Config entries keep the sessions;
the number of sessions grows only through a CreateSession entry or the services `NICK` of a services link,
and then — with a limit — it stays at most the larger of the previous number and the limit -/
theorem C14_limits_sessions_any_entry {st st' : St} {e : Entry} {out : List Out} (h : GInv st) (he : EntryOk st e)
    (hr : applyEntry st e = .ok (st', out)) :
    (e.type ≠ 6 → st'.config.maxSessions = st.config.maxSessions) ∧
    (e.type = 6 → st'.sessions = st.sessions) ∧
    (st'.sessions.length ≤ st.sessions.length ∨
      ((e.type = 0 ∨ (e.type = 2 ∧ ∃ s m, AMap.get st.sessions e.session = some s ∧
          parseMessage e.data = some m ∧ s.server = true ∧ toUpper m.command = "NICK")) ∧
        (0 < st.config.maxSessions → st'.sessions.length ≤ max st.sessions.length st.config.maxSessions))) :=
  let r := applyEntry_sess (SessWf.of_core h.inv.toWInvCore) he.1 hr
  ⟨r.maxSessions, r.config, r.sess⟩

/-- the session limit is respected (`maxSessions = 0`: no limit) -/
def SessionsWithinLimit (st : St) : Prop :=
  st.config.maxSessions = 0 ∨ st.sessions.length ≤ st.config.maxSessions

/-- **the session limit is respected after the entry** when it was before and — for a Config entry — the new
limit is `0` or at least the current number of sessions -/
theorem C14_limits_sessions_step {st st' : St} {e : Entry} {out : List Out} (h : GInv st) (he : EntryOk st e)
    (hl : SessionsWithinLimit st)
    (hcfg : e.type = 6 → ∀ cfg, e.cfg = some cfg → cfg.maxSessions = 0 ∨ st.sessions.length ≤ cfg.maxSessions)
    (hr : applyEntry st e = .ok (st', out)) : SessionsWithinLimit st' :=
  (applyEntry_sess (SessWf.of_core h.inv.toWInvCore) he.1 hr).within hl hcfg ⟨out, hr⟩

/-- along the history (threaded through `applyEntry` like `WfHistory`): a Config entry sets a session limit that
is `0` or at least the current number of sessions -/
def SessLimitHistory (st : St) : List Entry → Prop
  | [] => True
  | e :: es =>
    (e.type = 6 → ∀ cfg, e.cfg = some cfg → cfg.maxSessions = 0 ∨ st.sessions.length ≤ cfg.maxSessions) ∧
    ∀ st' out, applyEntry st e = .ok (st', out) → SessLimitHistory st' es

theorem SessLimitHistory_iff (st : St) (es : List Entry) :
    SessLimitHistory st es ↔ Robust.Irc.SessLimitHistory st es := by
  induction es generalizing st with
  | nil => exact Iff.rfl
  | cons e es ih =>
    unfold SessLimitHistory Robust.Irc.SessLimitHistory
    exact and_congr Iff.rfl (forall_congr' fun st' => forall_congr' fun out => imp_congr Iff.rfl (ih st'))

/-- **the session limit over histories**: in a well-formed history from the initial state in which no Config
entry lowers the limit below the current number of sessions, the number of stored sessions never exceeds the
configured limit (no exception for services links: their `NICK` goes through `createSession`) -/
theorem C14_limits_sessions_history {es : List Entry} {st : St} (hw : WfHistory {} es)
    (hl : SessLimitHistory {} es) (hr : runEntries {} es = .ok st) : SessionsWithinLimit st :=
  run_sessions_within_limit (SessWf.of_core GInv_init.inv.toWInvCore) (Or.inl rfl) hw
    ((SessLimitHistory_iff _ _).1 hl) hr

/-! ## non-vacuity

Every theorem above that has hypotheses is instantiated on concrete data on which all its hypotheses hold together.

* `Ex.stR` is the state reached from the initial state by the history `Ex.es0` (`Ex.run0`, by evaluation): a Config
  entry (`MaxChannels = 2`, `MaxSessions = 6`), a services link (session 2) with the pseudo-client `ChanServ`, the
  registered clients alice (chanop of `#c` and `#d`) and bob, `ChanServ` on `#c` as well, and a connection (16) that
  has not chosen a nickname — 5 sessions, and 2 channels: the channel limit is reached.  `GInv stR` by
  `run_preserves` (`Ex.ginvR`).
* `Ex.stC` is `stR` after a Config entry that raises the channel limit to 3 (`GInv` by `C14_step`).
* `Ex.histB` decides `WfHistory`, `LimitHistory` and `SessLimitHistory` in one pass (the lines of services links
  included); the history theorems are instantiated on `es0 ++ es2` (26 entries).

The examples written `example := C14_… args` have the instantiated conclusion of the theorem as their type. -/
namespace Ex
local instance (cmd : String) (n : Nat) : Decidable (ParamsOK cmd n) := by unfold ParamsOK; exact inferInstance

/-- `Conforming` as a Boolean, the lines of services links included -/
def confB (st : St) (e : Entry) : Bool :=
  !(e.type == 2) || (match AMap.get st.sessions e.session with
    | some s => !s.server || (match parseMessage e.data with
        | some m => m.pfx.isSome && decide (ParamsOK (toUpper m.command) m.params.length)
        | none => true)
    | none => true)

theorem conf_of_B {st : St} {e : Entry} (h : confB st e = true) : Conforming st e := by
  intro ht s m hs hsv hm
  unfold confB at h
  simpa [ht, hs, hsv, hm] using h

/-- the side condition of `LimitHistory` / `SessLimitHistory` on one entry, as Booleans -/
def limOkB (st : St) (e : Entry) : Bool :=
  !(e.type == 6) || (match e.cfg with
    | some cfg => cfg.maxChannels == 0 || decide (st.channels.length ≤ cfg.maxChannels)
    | none => true)
def slimOkB (st : St) (e : Entry) : Bool :=
  !(e.type == 6) || (match e.cfg with
    | some cfg => cfg.maxSessions == 0 || decide (st.sessions.length ≤ cfg.maxSessions)
    | none => true)

/-- `WfHistory`, `LimitHistory` and `SessLimitHistory` in one pass, as a Boolean -/
def histB (st : St) : List Entry → Bool
  | [] => true
  | e :: es => entryOkB st e && confB st e && limOkB st e && slimOkB st e && (match applyEntry st e with
    | .ok (st', _) => histB st' es
    | _ => true)

theorem wf_of_B : ∀ {es : List Entry} {st : St}, histB st es = true → WfHistory st es
  | [], _, _ => trivial
  | e :: es, st, h => by
    unfold histB at h
    simp only [Bool.and_eq_true] at h
    refine ⟨entryOk_of_B h.1.1.1.1, conf_of_B h.1.1.1.2, fun st' out hap => ?_⟩
    have h2 := h.2
    rw [hap] at h2
    exact wf_of_B h2

theorem lim_of_B : ∀ {es : List Entry} {st : St}, histB st es = true → LimitHistory st es
  | [], _, _ => trivial
  | e :: es, st, h => by
    unfold histB at h
    simp only [Bool.and_eq_true] at h
    refine ⟨fun ht cfg hc => ?_, fun st' out hap => ?_⟩
    · have h1 := h.1.1.2
      unfold limOkB at h1
      simpa [ht, hc] using h1
    · have h2 := h.2
      rw [hap] at h2
      exact lim_of_B h2

theorem slim_of_B : ∀ {es : List Entry} {st : St}, histB st es = true → SessLimitHistory st es
  | [], _, _ => trivial
  | e :: es, st, h => by
    unfold histB at h
    simp only [Bool.and_eq_true] at h
    refine ⟨fun ht cfg hc => ?_, fun st' out hap => ?_⟩
    · have h1 := h.1.2
      unfold slimOkB at h1
      simpa [ht, hc] using h1
    · have h2 := h.2
      rw [hap] at h2
      exact slim_of_B h2

theorem wf_append : ∀ {es : List Entry} {st st' : St} {es' : List Entry}, WfHistory st es → runEntries st es = .ok st' →
    WfHistory st' es' → WfHistory st (es ++ es')
  | [], _, _, _, _, hr, h' => by cases hr; exact h'
  | e :: es, st, st', es', h, hr, h' => by
    refine ⟨h.1, h.2.1, fun st1 out hap => ?_⟩
    unfold runEntries at hr
    rw [hap] at hr
    exact wf_append (h.2.2 st1 out hap) hr h'
theorem lim_append : ∀ {es : List Entry} {st st' : St} {es' : List Entry}, LimitHistory st es → runEntries st es = .ok st' →
    LimitHistory st' es' → LimitHistory st (es ++ es')
  | [], _, _, _, _, hr, h' => by cases hr; exact h'
  | e :: es, st, st', es', h, hr, h' => by
    refine ⟨h.1, fun st1 out hap => ?_⟩
    unfold runEntries at hr
    rw [hap] at hr
    exact lim_append (h.2 st1 out hap) hr h'
theorem slim_append : ∀ {es : List Entry} {st st' : St} {es' : List Entry}, SessLimitHistory st es →
    runEntries st es = .ok st' → SessLimitHistory st' es' → SessLimitHistory st (es ++ es')
  | [], _, _, _, _, hr, h' => by cases hr; exact h'
  | e :: es, st, st', es', h, hr, h' => by
    refine ⟨h.1, fun st1 out hap => ?_⟩
    unfold runEntries at hr
    rw [hap] at hr
    exact slim_append (h.2 st1 out hap) hr h'
theorem run_append : ∀ {es : List Entry} {st st' st'' : St} {es' : List Entry}, runEntries st es = .ok st' →
    runEntries st' es' = .ok st'' → runEntries st (es ++ es') = .ok st''
  | [], _, _, _, _, hr, h' => by cases hr; exact h'
  | e :: es, st, st', st'', es', hr, h' => by
    unfold runEntries at hr
    show runEntries st (e :: (es ++ es')) = _
    unfold runEntries
    split at hr
    · rename_i st1 out hap
      exact run_append hr h'
    · cases hr
    · cases hr

/-- the parts of a result that returns -/
def entryOk (r : Res (St × List Out)) : Bool :=
  match r with
  | .ok _ => true
  | _ => false
def entrySt (r : Res (St × List Out)) : St :=
  match r with
  | .ok p => p.1
  | _ => {}
def entryOut (r : Res (St × List Out)) : List Out :=
  match r with
  | .ok p => p.2
  | _ => []
theorem eq_of_entryOk {r : Res (St × List Out)} (h : entryOk r = true) : r = .ok (entrySt r, entryOut r) := by
  cases r with
  | ok p => rfl
  | panic x => cases h
  | declined x => cases h
def ctxOk (r : Res Ctx) : Bool :=
  match r with
  | .ok _ => true
  | _ => false
def ctxOf (r : Res Ctx) : Ctx :=
  match r with
  | .ok c => c
  | _ => ⟨{}, 0, 0, []⟩
theorem eq_of_ctxOk {r : Res Ctx} (h : ctxOk r = true) : r = .ok (ctxOf r) := by
  cases r with
  | ok p => rfl
  | panic x => cases h
  | declined x => cases h
/-- number of channels, number of sessions and number of outputs of a handler that returns -/
def counts (r : Res Ctx) : Option (Nat × Nat × Nat) :=
  match r with
  | .ok c => some (c.st.channels.length, c.st.sessions.length, c.out.length)
  | _ => none
/-- the text of the last output of a handler that returns -/
def lastText (r : Res Ctx) : Option String :=
  match r with
  | .ok c => c.out.getLast?.map fun o => String.ofList (o.data.map fun b => Char.ofNat b.toNat)
  | _ => none
def mk (ty id : Nat) (sess : Id) (data : String) : Entry :=
  { type := ty, id := id, session := sess, data := data, unixNano := 0, cmid := id, rev := 0, remoteAddr := "", cfg := none }
def cfg : Config := { services := ["sekrit"], maxChannels := 2, maxSessions := 6 }
def eCfg : Entry :=
  { type := 6, id := 1, session := ⟨0, 0⟩, data := "", unixNano := 0, cmid := 0, rev := 1, remoteAddr := "", cfg := some cfg }
/-- the configuration; a services link connects and introduces `ChanServ`; alice registers and creates `#c`; bob
registers and joins; `ChanServ` joins; alice creates `#d`; a further connection is opened -/
def es0 : List Entry := [
  eCfg,
  mk 0 2 ⟨0, 0⟩ "auth-s", mk 2 3 ⟨2, 0⟩ "PASS services=sekrit", mk 2 4 ⟨2, 0⟩ "SERVER services.x 1",
  mk 2 5 ⟨2, 0⟩ ":services.x NICK ChanServ 1 1 services localhost services.x 0 :Channel Services",
  mk 0 6 ⟨0, 0⟩ "auth-a", mk 2 7 ⟨6, 0⟩ "NICK alice", mk 2 8 ⟨6, 0⟩ "USER a 0 * :Alice", mk 2 9 ⟨6, 0⟩ "JOIN #c",
  mk 0 10 ⟨0, 0⟩ "auth-b", mk 2 11 ⟨10, 0⟩ "NICK bob", mk 2 12 ⟨10, 0⟩ "USER b 0 * :Bob", mk 2 13 ⟨10, 0⟩ "JOIN #c",
  mk 2 14 ⟨2, 0⟩ ":ChanServ JOIN #c", mk 2 15 ⟨6, 0⟩ "JOIN #d",
  mk 0 16 ⟨0, 0⟩ "auth-d"]
/-- the pseudo-client's id: the link's id and the FNV hash of the nick -/
def csId : Id := ⟨2, 893999252474884769⟩
def linkS : Session := { id := ⟨2, 0⟩, auth := "auth-s", lastActivity := 14, lastNonPing := 14, created := 2, svid := "0", pass := "services=sekrit", server := true, lastClientMessageId := 14, ircPrefix := ⟨"services.x", "", ""⟩ }
def chanServS : Session := { id := csId, nick := "ChanServ", username := "services", realname := "Channel Services", channels := ["#c"], lastActivity := 5, lastNonPing := 5, created := 5, svid := "0", ircPrefix := ⟨"ChanServ", "services", "robust/0x2"⟩ }
def aliceS : Session := { id := ⟨6, 0⟩, auth := "auth-a", loggedIn := true, nick := "alice", username := "a", realname := "Alice", channels := ["#c", "#d"], lastActivity := 15, lastNonPing := 15, created := 6, svid := "0", lastClientMessageId := 15, ircPrefix := ⟨"alice", "a", "robust/0x6"⟩ }
def bobS : Session := { id := ⟨10, 0⟩, auth := "auth-b", loggedIn := true, nick := "bob", username := "b", realname := "Bob", channels := ["#c"], lastActivity := 13, lastNonPing := 13, created := 10, svid := "0", lastClientMessageId := 13, ircPrefix := ⟨"bob", "b", "robust/0xa"⟩ }
def daveS : Session := { id := ⟨16, 0⟩, auth := "auth-d", lastActivity := 16, lastNonPing := 16, created := 16, svid := "0" }
/-- the state reached from the initial state by `es0` (`run0` below) -/
def stR : St :=
  { sessions := [(⟨2, 0⟩, linkS), (csId, chanServS), (⟨6, 0⟩, aliceS), (⟨10, 0⟩, bobS), (⟨16, 0⟩, daveS)]
    nicks := [("chanserv", csId), ("alice", ⟨6, 0⟩), ("bob", ⟨10, 0⟩)]
    channels := [("#c", { name := "#c", nicks := [("alice", { chanop := true }), ("bob", {}), ("chanserv", {})], modes := ['n', 't'] }),
                 ("#d", { name := "#d", nicks := [("alice", { chanop := true })], modes := ['n', 't'] })]
    serverSessions := [2]
    lastProcessed := ⟨6, 0⟩
    config := { cfg with revision := 1 } }
theorem run0 : runOk {} es0 = some stR := by decide +kernel
theorem hist0 : histB {} es0 = true := by decide +kernel
/-- `stR` is reachable, hence satisfies the full invariant -/
theorem ginvR : GInv stR := run_preserves GInv_init (wf_of_B hist0) (runOk_some run0)

def cR : Ctx := { st := stR, msgid := 20 }
/-- a Config entry that raises the channel limit to 3 and keeps the session limit -/
def cfg3 : Config := { cfg with maxChannels := 3 }
def eCfg3 : Entry :=
  { type := 6, id := 20, session := ⟨0, 0⟩, data := "", unixNano := 0, cmid := 0, rev := 2, remoteAddr := "", cfg := some cfg3 }
/-- `stR` after `eCfg3`: two channels, limit 3 -/
def stC : St := { stR with config := { cfg3 with revision := 2 } }
def cC : Ctx := { st := stC, msgid := 21 }
theorem applyC : applyEntry stR eCfg3 = .ok (stC, []) := rfl
/-- bob creates `#new` -/
def eJoin : Entry := mk 2 21 ⟨10, 0⟩ "JOIN #new"
def mJoin2 : IrcMsg := ⟨none, "JOIN", ["#x,#y"]⟩
def mSJoin : IrcMsg := ⟨some ⟨"ChanServ", "", ""⟩, "JOIN", ["#new"]⟩
def mSvsjoin : IrcMsg := ⟨some ⟨"services.x", "", ""⟩, "SVSJOIN", ["bob", "#new"]⟩
def mSNick : IrcMsg := ⟨some ⟨"services.x", "", ""⟩, "NICK", ["NickServ", "1", "1", "services", "localhost", "services.x", "0", "Nick Services"]⟩
def eSNick : Entry := mk 2 21 ⟨2, 0⟩ ":services.x NICK NickServ 1 1 services localhost services.x 0 :Nick Services"
def eCreate : Entry := mk 0 21 ⟨0, 0⟩ "auth-e"
def eCreate2 : Entry := mk 0 22 ⟨0, 0⟩ "auth-f"
/-- the limits are set to the current numbers (3 channels, 6 sessions): the boundary case allowed by `LimitHistory` -/
def cfgT : Config := { cfg with maxChannels := 3, maxSessions := 6 }
def eCfgT : Entry :=
  { type := 6, id := 29, session := ⟨0, 0⟩, data := "", unixNano := 0, cmid := 0, rev := 3, remoteAddr := "", cfg := some cfgT }
/-- the limit is raised to 3; bob creates `#new` (3 channels); a fourth channel is refused to bob, to the services
`SVSJOIN` and to the services `JOIN`; a sixth session is created, a seventh is refused, and so is the pseudo-client
`NickServ`; the limits are set to the current numbers; bob still cannot create `#more` -/
def es2 : List Entry := [
  eCfg3, eJoin, mk 2 22 ⟨10, 0⟩ "JOIN #more", mk 2 23 ⟨2, 0⟩ ":services.x SVSJOIN bob #more", mk 2 24 ⟨2, 0⟩ ":ChanServ JOIN #more",
  mk 0 25 ⟨0, 0⟩ "auth-e", mk 0 26 ⟨0, 0⟩ "auth-f",
  mk 2 27 ⟨2, 0⟩ ":services.x NICK NickServ 1 1 services localhost services.x 0 :Nick Services",
  eCfgT, mk 2 30 ⟨10, 0⟩ "JOIN #more"]
def stEnd : St := (runOk stR es2).getD {}
theorem runOk_of_isSome {st : St} {es : List Entry} (h : (runOk st es).isSome = true) :
    runOk st es = some ((runOk st es).getD {}) := by
  cases h' : runOk st es with
  | none => rw [h'] at h; cases h
  | some x => rfl
theorem run2 : runOk stR es2 = some stEnd := runOk_of_isSome (by decide +kernel)
theorem hist2 : histB stR es2 = true := by decide +kernel
theorem run02 : runEntries {} (es0 ++ es2) = .ok stEnd := run_append (runOk_some run0) (runOk_some run2)
theorem wf02 : WfHistory {} (es0 ++ es2) := wf_append (wf_of_B hist0) (runOk_some run0) (wf_of_B hist2)
theorem lim02 : LimitHistory {} (es0 ++ es2) := lim_append (lim_of_B hist0) (runOk_some run0) (lim_of_B hist2)
theorem slim02 : SessLimitHistory {} (es0 ++ es2) := slim_append (slim_of_B hist0) (runOk_some run0) (slim_of_B hist2)
theorem ginvC : GInv stC := C14_step stR stC eCfg3 [] ginvR (entryOk_of_B (by decide +kernel)) applyC
theorem getAlice : AMap.get stR.sessions ⟨6, 0⟩ = some aliceS := by decide +kernel
theorem getBob : AMap.get stR.sessions ⟨10, 0⟩ = some bobS := by decide +kernel
theorem getDave : AMap.get stR.sessions ⟨16, 0⟩ = some daveS := by decide +kernel
def chanC : Channel := { name := "#c", nicks := [("alice", { chanop := true }), ("bob", {}), ("chanserv", {})], modes := ['n', 't'] }
theorem getC : AMap.get stR.channels "#c" = some chanC := by decide +kernel
attribute [irreducible] stEnd
end Ex
open Ex

/-- `C14_reachable` on `es0` (16 entries) and on `es0 ++ es2` (26 entries) -/
example : GInv stR := C14_reachable (wf_of_B hist0) (runOk_some run0)
example : GInv stEnd := C14_reachable wf02 run02
/-- `C14_step` on a Config entry, and on bob's `JOIN #new`, which applies and creates the channel -/
example : GInv stC := C14_step stR stC eCfg3 [] ginvR (entryOk_of_B (by decide +kernel)) applyC
example : GInv (entrySt (applyEntry stC eJoin)) :=
  C14_step stC _ eJoin _ ginvC (entryOk_of_B (by decide +kernel)) (eq_of_entryOk (by decide +kernel))
example : (AMap.keys (entrySt (applyEntry stC eJoin)).channels) = ["#c", "#d", "#new"] := by decide +kernel

/-- `C14_nick_unique`: its hypotheses can only hold for `a = b` (that is the statement); on alice's stored session
they do, and on alice and bob the theorem shows that the folded nicks differ -/
example : (⟨6, 0⟩ : Id) = ⟨6, 0⟩ := C14_nick_unique ginvR getAlice getAlice (by decide) rfl
example : nickToLower aliceS.nick ≠ nickToLower bobS.nick :=
  fun he => absurd (C14_nick_unique ginvR getAlice getBob (by decide) he) (by decide)
/-- `C14_sessions_live`, `C14_indexed` on alice -/
example : aliceS.deleted = false ∧ aliceS.id = ⟨6, 0⟩ := C14_sessions_live ginvR getAlice
example : AMap.get stR.nicks (nickToLower aliceS.nick) = some ⟨6, 0⟩ := C14_indexed ginvR getAlice (by decide)
/-- `C14_membership_symmetric`: alice and `#d` (both sides hold), bob and `#d` (both sides fail) -/
example : "#d" ∈ aliceS.channels ↔ ∃ c, AMap.get stR.channels "#d" = some c ∧ nickToLower aliceS.nick ∈ AMap.keys c.nicks :=
  C14_membership_symmetric ginvR getAlice (by decide) "#d"
example : "#d" ∈ aliceS.channels ∧ "#d" ∉ bobS.channels := by decide
example : ¬ ∃ c, AMap.get stR.channels "#d" = some c ∧ nickToLower bobS.nick ∈ AMap.keys c.nicks :=
  fun h => absurd ((C14_membership_symmetric ginvR getBob (by decide) "#d").2 h) (by decide)
/-- `C14_nickless_inert` on the connection without nickname that `stR` contains -/
example : daveS.channels = [] ∧ ∀ x, AMap.get stR.nicks x ≠ some ⟨16, 0⟩ :=
  (C14_nickless_inert ginvR).2 ⟨16, 0⟩ daveS getDave rfl
/-- `C14_names_valid`, `C14_logged_in_has_nick`, `C14_no_empty_channel`, `C14_channel_key` on alice and `#c` -/
example : isValidNickname aliceS.nick = true ∧ isValidChannel chanC.name = true :=
  ⟨(C14_names_valid ginvR).1 ⟨6, 0⟩ aliceS getAlice (by decide), (C14_names_valid ginvR).2 "#c" chanC getC⟩
example : aliceS.nick ≠ "" := C14_logged_in_has_nick ginvR getAlice rfl
example : chanC.nicks ≠ [] := C14_no_empty_channel ginvR getC
example : chanToLower chanC.name = "#c" := C14_channel_key ginvR getC
/-- `C14_members_are_live_and_reachable`, `C14_index_sound` on the pseudo-client `ChanServ`, a member of `#c` -/
example : ∃ id s, AMap.get stR.nicks "chanserv" = some id ∧ AMap.get stR.sessions id = some s ∧ s.deleted = false ∧
    nickToLower s.nick = "chanserv" ∧ "#c" ∈ s.channels :=
  C14_members_are_live_and_reachable ginvR getC (by decide)
example : ∃ s, AMap.get stR.sessions csId = some s ∧ s.deleted = false ∧ nickToLower s.nick = "chanserv" :=
  C14_index_sound ginvR (n := "chanserv") (by decide +kernel)
/-- `C14_nodup`, `C14_invB` (and the executable predicate evaluated directly) -/
example : (AMap.keys stR.sessions).Nodup ∧ (AMap.keys stR.nicks).Nodup ∧ (AMap.keys stR.channels).Nodup := C14_nodup ginvR
example : invB stR = true := C14_invB ginvR
example : invB stR = true := by decide +kernel

/-- `C14_join_creates_only_below_limit`: below the limit (2 channels, limit 3) bob's `JOIN #new` creates the channel … -/
example := C14_join_creates_only_below_limit (c := cC) (sid := ⟨10, 0⟩) (chn := "#new") (key := "")
  (eq_of_ctxOk (by decide +kernel))
example : counts (joinOne cC ⟨10, 0⟩ "#new" "") = some (3, 5, 7) := by decide +kernel
/-- … at the limit (2 channels, limit 2) it returns as well, and is refused -/
example := C14_join_creates_only_below_limit (c := cR) (sid := ⟨10, 0⟩) (chn := "#new") (key := "")
  (eq_of_ctxOk (by decide +kernel))
example : counts (joinOne cR ⟨10, 0⟩ "#new" "") = some (2, 5, 1) ∧
    lastText (joinOne cR ⟨10, 0⟩ "#new" "") = some ":robustirc.net 403 bob #new :No such channel" := by decide +kernel

/-- `C14_services_join_creates_only_below_limit`: `:ChanServ JOIN #new` below and at the limit -/
example := C14_services_join_creates_only_below_limit (c := cC) (m := mSJoin) (chn := "#new") (eq_of_ctxOk (by decide +kernel))
example := C14_services_join_creates_only_below_limit (c := cR) (m := mSJoin) (chn := "#new") (eq_of_ctxOk (by decide +kernel))
example : counts (serverJoinOne cC mSJoin "#new") = some (3, 5, 1) ∧ counts (serverJoinOne cR mSJoin "#new") = some (2, 5, 1) ∧
    lastText (serverJoinOne cR mSJoin "#new") = some ":robustirc.net 403 ChanServ #new :No such channel" := by decide +kernel

/-- `C14_services_svsjoin_creates_only_below_limit`: `SVSJOIN bob #new` below and at the limit -/
example := C14_services_svsjoin_creates_only_below_limit (c := cC) (sid := ⟨2, 0⟩) (m := mSvsjoin) (eq_of_ctxOk (by decide +kernel))
example := C14_services_svsjoin_creates_only_below_limit (c := cR) (sid := ⟨2, 0⟩) (m := mSvsjoin) (eq_of_ctxOk (by decide +kernel))
example : counts (cmdServerSvsjoin cC ⟨2, 0⟩ mSvsjoin) = some (3, 5, 5) ∧ counts (cmdServerSvsjoin cR ⟨2, 0⟩ mSvsjoin) = some (2, 5, 1) := by
  decide +kernel

/-- `C14_join_channel_limit`: `JOIN #x,#y` with 2 channels and limit 3: `#x` is created, `#y` is refused -/
example := C14_join_channel_limit (c := cC) (sid := ⟨10, 0⟩) (m := mJoin2) (eq_of_ctxOk (by decide +kernel))
example : counts (cmdJoin cC ⟨10, 0⟩ mJoin2) = some (3, 5, 8) ∧
    lastText (cmdJoin cC ⟨10, 0⟩ mJoin2) = some ":robustirc.net 403 bob #y :No such channel" := by decide +kernel

/-- `C14_handlers_do_not_create_channels`: alice's `PART #d` (the channel disappears) -/
example := C14_handlers_do_not_create_channels (fname := "cmdPart") (h := cmdPart) rfl (by decide) (by decide) (by decide)
  (c := cR) (sid := ⟨6, 0⟩) (m := ⟨none, "PART", ["#d"]⟩) (eq_of_ctxOk (by decide +kernel))
example : counts (cmdPart cR ⟨6, 0⟩ ⟨none, "PART", ["#d"]⟩) = some (1, 5, 1) := by decide +kernel
/-- `C14_all_handlers_channel_limit` on one of the three joining handlers -/
example := C14_all_handlers_channel_limit (fname := "cmdServerSvsjoin") (h := cmdServerSvsjoin) rfl
  (c := cC) (sid := ⟨2, 0⟩) (m := mSvsjoin) (eq_of_ctxOk (by decide +kernel))

/-- `C14_limits_channels_entry`, `C14_limits_channels`: the committed `JOIN #new` of bob in `stC` (the number of channels
grows, so the second disjunct / the last conjunct are the ones that apply), and the Config entry `eCfg3` in `stR` -/
example := C14_limits_channels_entry (st := stC) (e := eJoin) ginvC (entryOk_of_B (by decide +kernel)) (eq_of_entryOk (by decide +kernel))
example := C14_limits_channels (st := stC) (e := eJoin) ginvC (entryOk_of_B (by decide +kernel)) (eq_of_entryOk (by decide +kernel))
example : stC.channels.length < (entrySt (applyEntry stC eJoin)).channels.length := by decide +kernel
example := C14_limits_channels_entry (st := stR) (e := eCfg3) ginvR (entryOk_of_B (by decide +kernel)) applyC
example := C14_limits_channels (st := stR) (e := eCfg3) ginvR (entryOk_of_B (by decide +kernel)) applyC

/-- `C14_limits_channels_step`: `stR` is at the limit (2 of 2); a Config entry that raises the limit (the hypothesis
`hcfg` is used: `3 ≥ 2`), and bob's `JOIN #new` at the limit in `stR` (refused) and below it in `stC` (created) -/
example : ChannelsWithinLimit stC :=
  C14_limits_channels_step (e := eCfg3) ginvR (entryOk_of_B (by decide +kernel)) (Or.inr (by decide))
    (fun _ cfg hc => by cases hc; exact Or.inr (by decide)) applyC
example : ChannelsWithinLimit (entrySt (applyEntry stR eJoin)) :=
  C14_limits_channels_step (e := eJoin) ginvR (entryOk_of_B (by decide +kernel)) (Or.inr (by decide))
    (fun h => absurd h (by decide)) (eq_of_entryOk (by decide +kernel))
example : ChannelsWithinLimit (entrySt (applyEntry stC eJoin)) :=
  C14_limits_channels_step (e := eJoin) ginvC (entryOk_of_B (by decide +kernel)) (Or.inr (by decide))
    (fun h => absurd h (by decide)) (eq_of_entryOk (by decide +kernel))
example : (entrySt (applyEntry stR eJoin)).channels.length = 2 ∧ (entrySt (applyEntry stC eJoin)).channels.length = 3 := by
  decide +kernel

/-- `C14_limits_channels_history` on the 26 entries of `es0 ++ es2` -/
example : ChannelsWithinLimit stEnd := C14_limits_channels_history wf02 lim02 run02
example : (runOk stR es2).map (fun st => (AMap.keys st.channels, st.sessions.length, st.config.maxChannels, st.config.maxSessions)) =
    some (["#c", "#d", "#new"], 6, 3, 6) := by decide +kernel

/-- `C14_limits_sessions_entry`: a CreateSession entry with 5 sessions and limit 6 (created), and the next one (refused:
the state is unchanged) -/
example := C14_limits_sessions_entry (st := stR) (e := eCreate) rfl (eq_of_entryOk (by decide +kernel))
example := C14_limits_sessions_entry (st := entrySt (applyEntry stR eCreate)) (e := eCreate2) rfl (eq_of_entryOk (by decide +kernel))
example : (entrySt (applyEntry stR eCreate)).sessions.length = 6 ∧
    entrySt (applyEntry (entrySt (applyEntry stR eCreate)) eCreate2) = entrySt (applyEntry stR eCreate) := by decide +kernel

/-- `C14_limits_sessions_services_nick`: the services link introduces `NickServ` (5 sessions, limit 6) -/
example := C14_limits_sessions_services_nick (c := cR) (sid := ⟨2, 0⟩) (m := mSNick) (eq_of_ctxOk (by decide +kernel))
example : counts (cmdServerNick cR ⟨2, 0⟩ mSNick) = some (2, 6, 0) := by decide +kernel

/-- `C14_handlers_do_not_create_sessions`: bob's `QUIT`; the hypothesis on the session map from the invariant of `stR` -/
example := C14_handlers_do_not_create_sessions (fname := "cmdQuit") (h := cmdQuit) rfl (by decide)
  (c := cR) (sid := ⟨10, 0⟩) (m := ⟨none, "QUIT", ["bye"]⟩)
  ⟨fun id s hs => (ginvR.inv.sessId id s hs).1, ginvR.inv.sessNodup⟩ (eq_of_ctxOk (by decide +kernel))

/-- `C14_limits_sessions_any_entry`: the committed services `NICK` (the number of sessions grows) and a Config entry -/
example := C14_limits_sessions_any_entry (st := stR) (e := eSNick) ginvR (entryOk_of_B (by decide +kernel)) (eq_of_entryOk (by decide +kernel))
example : (entrySt (applyEntry stR eSNick)).sessions.length = 6 := by decide +kernel
example := C14_limits_sessions_any_entry (st := stR) (e := eCfg3) ginvR (entryOk_of_B (by decide +kernel)) applyC

/-- `C14_limits_sessions_step`: 5 sessions, limit 6; the Config entry (`hcfg` is used: `6 ≥ 5`) and a CreateSession entry -/
example : SessionsWithinLimit stC :=
  C14_limits_sessions_step (e := eCfg3) ginvR (entryOk_of_B (by decide +kernel)) (Or.inr (by decide))
    (fun _ cfg hc => by cases hc; exact Or.inr (by decide)) applyC
example : SessionsWithinLimit (entrySt (applyEntry stR eCreate)) :=
  C14_limits_sessions_step (e := eCreate) ginvR (entryOk_of_B (by decide +kernel)) (Or.inr (by decide))
    (fun h => absurd h (by decide)) (eq_of_entryOk (by decide +kernel))

/-- `C14_limits_sessions_history` on `es0 ++ es2` -/
example : SessionsWithinLimit stEnd := C14_limits_sessions_history wf02 slim02 run02
end Robust.Props.C14
