import Robust.Irc.Inv
/-!
# C14 — IRC state stays consistent
(work in progress: the preservation theorems are added as they are proved)
-/
namespace Robust.Props.C14
open Robust Robust.Irc

/-- the consistency predicate holds of a fresh server -/
theorem C14_init : invB ({} : St) = true := by decide

end Robust.Props.C14
