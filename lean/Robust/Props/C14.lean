import Robust.Irc.Inv
import Robust.Irc.Proofs.Entry
import Robust.Irc.Proofs.ChanLimitEntry
import Robust.Irc.Proofs.ChanLimitSessEntry
/-!
# C14 — IRC state stays consistent

The invariant `GInv = Inv ∧ LInv ∧ NInv ∧ VInv` (`Robust/Irc/Proofs/InvDef.lean`, `FrameLogin.lean`,
`NInv.lean`) holds in every state reachable from the initial one by well-formed entries
(`C14_reachable`, from `applyEntry_preserves`); the theorems below spell out what it says.
-/
namespace Robust.Props.C14
open Robust Robust.Irc

/-- the consistency predicate holds of a fresh server -/
theorem C14_init : invB ({} : St) = true := by decide

/-- every state reachable by a well-formed history satisfies the invariant -/
theorem C14_reachable {es : List Entry} {st : St} (hw : WfHistory {} es) (hr : runEntries {} es = .ok st) :
    GInv st :=
  run_preserves GInv_init hw hr

/-- one entry preserves the invariant -/
theorem C14_step (st st' : St) (e : Entry) (out : List Out) (h : GInv st) (he : EntryOk st e)
    (hr : applyEntry st e = .ok (st', out)) : GInv st' :=
  applyEntry_preserves st st' e out h he hr

/-- nicknames are unique up to IRC case folding -/
theorem C14_nick_unique {st : St} (h : GInv st) {a b : Id} {sa sb : Session}
    (ha : AMap.get st.sessions a = some sa) (hb : AMap.get st.sessions b = some sb)
    (hn : sa.nick ≠ "") (he : nickToLower sa.nick = nickToLower sb.nick) : a = b := by
  have hnb : sb.nick ≠ "" := by
    intro hb0
    rw [hb0, nickToLower_empty] at he
    exact hn (nickToLower_eq_empty.1 he)
  have h1 := h.inv.owns a sa ha (h.inv.noDeleted a sa ha) hn
  have h2 := h.inv.owns b sb hb (h.inv.noDeleted b sb hb) hnb
  rw [he, h2] at h1
  cases h1; rfl

/-- no stored session is flagged deleted, and sessions are stored under their id -/
theorem C14_sessions_live {st : St} (h : GInv st) {id : Id} {s : Session} (hs : AMap.get st.sessions id = some s) :
    s.deleted = false ∧ s.id = id :=
  ⟨h.inv.noDeleted id s hs, (h.inv.sessId id s hs).1⟩

/-- a session with a nickname is indexed under it -/
theorem C14_indexed {st : St} (h : GInv st) {id : Id} {s : Session} (hs : AMap.get st.sessions id = some s)
    (hn : s.nick ≠ "") : AMap.get st.nicks (nickToLower s.nick) = some id :=
  h.inv.owns id s hs (h.inv.noDeleted id s hs) hn

/-- membership is symmetric: a session (with a nickname) lists a channel iff that channel lists it -/
theorem C14_membership_symmetric {st : St} (h : GInv st) {id : Id} {s : Session}
    (hs : AMap.get st.sessions id = some s) (hn : s.nick ≠ "") (lc : String) :
    lc ∈ s.channels ↔ ∃ c, AMap.get st.channels lc = some c ∧ nickToLower s.nick ∈ AMap.keys c.nicks := by
  have hl := h.inv.noDeleted id s hs
  constructor
  · intro hlc
    obtain ⟨c, hc, hm⟩ := (h.inv.toWInv.owns_chans hs hl hn).2 lc hlc
    exact ⟨c, hc, AMap.contains_iff_mem_keys.1 hm⟩
  · rintro ⟨c, hc, hm⟩
    obtain ⟨id', s', h1, h2, h3⟩ := (h.inv.chans lc c hc).2.2 _ hm
    have h4 := h.inv.owns id s hs hl hn
    rw [h4] at h1; cases h1
    rw [hs] at h2; cases h2
    exact h3

/-- a session without nickname is in no channel and is not indexed; `""` is not an index key -/
theorem C14_nickless_inert {st : St} (h : GInv st) :
    AMap.get st.nicks "" = none ∧
    ∀ id s, AMap.get st.sessions id = some s → s.nick = "" → s.channels = [] ∧ ∀ x, AMap.get st.nicks x ≠ some id :=
  h.ninv

/-- every nickname carried by a session and every channel name is syntactically valid -/
theorem C14_names_valid {st : St} (h : GInv st) :
    (∀ id s, AMap.get st.sessions id = some s → s.nick ≠ "" → isValidNickname s.nick = true) ∧
    (∀ lc c, AMap.get st.channels lc = some c → isValidChannel c.name = true) :=
  h.vinv

/-- a registered session has a nickname -/
theorem C14_logged_in_has_nick {st : St} (h : GInv st) {id : Id} {s : Session}
    (hs : AMap.get st.sessions id = some s) (hl : s.loggedIn = true) : s.nick ≠ "" :=
  h.linv id s hs hl

/-- no stored channel is empty -/
theorem C14_no_empty_channel {st : St} (h : GInv st) {lc : String} {c : Channel}
    (hc : AMap.get st.channels lc = some c) : c.nicks ≠ [] :=
  h.inv.nonempty lc c hc

/-- channels are stored under their lower-cased name -/
theorem C14_channel_key {st : St} (h : GInv st) {lc : String} {c : Channel}
    (hc : AMap.get st.channels lc = some c) : chanToLower c.name = lc :=
  (h.inv.chans lc c hc).1

/-- every member of a channel is a live, indexed session carrying that nick and listing the channel -/
theorem C14_members_are_live_and_reachable {st : St} (h : GInv st) {lc n : String} {c : Channel}
    (hc : AMap.get st.channels lc = some c) (hm : n ∈ AMap.keys c.nicks) :
    ∃ id s, AMap.get st.nicks n = some id ∧ AMap.get st.sessions id = some s ∧ s.deleted = false ∧
      nickToLower s.nick = n ∧ lc ∈ s.channels := by
  obtain ⟨id, s, h1, h2, h3, h4, h5, _⟩ := h.inv.toWInvCore.chanMember_live hc hm
  exact ⟨id, s, h1, h2, h4, h5, h3⟩

/-- the index only points to live sessions carrying that nick -/
theorem C14_index_sound {st : St} (h : GInv st) {n : String} {id : Id} (hi : AMap.get st.nicks n = some id) :
    ∃ s, AMap.get st.sessions id = some s ∧ s.deleted = false ∧ nickToLower s.nick = n :=
  h.inv.index n id hi

/-- the maps have no duplicate keys -/
theorem C14_nodup {st : St} (h : GInv st) :
    (AMap.keys st.sessions).Nodup ∧ (AMap.keys st.nicks).Nodup ∧ (AMap.keys st.channels).Nodup :=
  ⟨h.inv.sessNodup, h.inv.nickNodup, h.inv.chanNodup⟩

/-- session creation at or above the configured limit is refused (and only then) -/
theorem C14_limits_sessions (st : St) (id : Id) (auth : String) (ts : Int) :
    createSession st id auth ts = none ↔ (st.sessions.length ≥ st.config.maxSessions ∧ st.config.maxSessions > 0) := by
  unfold createSession
  split
  · rename_i hc
    simp only [Bool.and_eq_true, decide_eq_true_eq] at hc
    exact ⟨fun _ => hc, fun _ => rfl⟩
  · rename_i hc
    simp only [Bool.and_eq_true, decide_eq_true_eq] at hc
    exact ⟨(fun h => by cases h), fun h => absurd h hc⟩

theorem all_of_get {κ ν : Type} [DecidableEq κ] {m : AMap κ ν} {p : κ × ν → Bool}
    (h : ∀ k v, AMap.get m k = some v → p (k, v) = true) (hn : (AMap.keys m).Nodup) : m.all p = true :=
  (AMap.all_iff_get hn).2 h

/-- the executable consistency predicate (the twin of `ircserver.VerifWalk`) holds in every state
satisfying the proved invariant -/
theorem C14_invB {st : St} (h : GInv st) : invB st = true := by
  unfold invB
  simp only [Bool.and_eq_true]
  refine ⟨⟨⟨⟨⟨?_, ?_⟩, ?_⟩, ?_⟩, ?_⟩, ?_⟩
  · simpa [keysNodup] using h.inv.sessNodup
  · simpa [keysNodup] using h.inv.nickNodup
  · simpa [keysNodup] using h.inv.chanNodup
  · refine all_of_get (fun id s hs => ?_) h.inv.sessNodup
    have hl := h.inv.noDeleted id s hs
    obtain ⟨hid, hnd⟩ := h.inv.sessId id s hs
    simp only [Bool.and_eq_true, decide_eq_true_eq]
    refine ⟨?_, hnd⟩
    unfold sessionOk
    simp only [Bool.and_eq_true, beq_iff_eq, Bool.not_eq_true', Bool.or_eq_true]
    refine ⟨⟨hid, hl⟩, ?_⟩
    by_cases hn : s.nick = ""
    · exact Or.inl hn
    · right
      simp only [bne_iff_ne, ne_eq]
      refine ⟨⟨⟨?_, h.inv.owns id s hs hl hn⟩, Or.inr (h.vinv.1 id s hs hn)⟩, ?_⟩
      · refine all_of_get (fun id' s' hs' => ?_) h.inv.sessNodup
        simp only [Bool.or_eq_true, beq_iff_eq, bne_iff_ne, ne_eq]
        by_cases h1 : id' = id
        · exact Or.inl (Or.inl h1)
        by_cases h2 : s'.nick = ""
        · exact Or.inl (Or.inr h2)
        right
        intro he
        exact h1 (C14_nick_unique h hs' hs h2 he)
      · rw [List.all_eq_true]
        intro ch hch
        obtain ⟨c, hc, hm⟩ := (h.inv.toWInv.owns_chans hs hl hn).2 ch hch
        rw [hc]; exact hm
  · refine all_of_get (fun lc id hi => ?_) h.inv.nickNodup
    obtain ⟨s, hs, _, hlow⟩ := h.inv.index lc id hi
    unfold nickIndexOk
    simp only [hs, beq_iff_eq]
    exact hlow
  · refine all_of_get (fun lc c hc => ?_) h.inv.chanNodup
    obtain ⟨hname, hnd, hmem⟩ := h.inv.chans lc c hc
    unfold channelOk
    simp only [Bool.and_eq_true, beq_iff_eq, decide_eq_true_eq]
    refine ⟨⟨⟨⟨hname, h.vinv.2 lc c hc⟩, ?_⟩, by simpa [keysNodup] using hnd⟩, ?_⟩
    · have := h.inv.nonempty lc c hc
      cases hcn : c.nicks with
      | nil => exact absurd hcn this
      | cons a t => simp
    · rw [List.all_eq_true]
      intro e he
      obtain ⟨id, s, h1, h2, h3⟩ := hmem e.1 (AMap.mem_keys_of_mem he)
      simp only [h1, h2]
      exact List.contains_iff_mem.2 h3

/-! ## the configured limits (`MaxSessions`, `MaxChannels`)

What holds in the model (and in the Go code): a channel is created only by a client's `JOIN` and by the services
commands `JOIN` / `SVSJOIN`, and each of the three creates it only while the number of channels is below
`MaxChannels` (or `MaxChannels = 0`, no limit); at the limit the line is refused with `403`.  Every other client
command, every other services command, session deletion and expiry never raise the number of channels; no command
touches the limits themselves (GLINE only changes `config.banned`).  So the clause "the configured maximum number
of channels is never exceeded" holds for every well-formed history — whoever the acting sessions are — in which no
Config entry lowers the limit below the current number of channels (`C14_limits_channels_history`).  Sessions are
created by CreateSession entries and by the services `NICK`, both through `createSession`, which refuses at the
limit. -/

/-- **one JOIN target** (`joinOne`): the limit is untouched; the number of channels does not grow, or exactly one
channel — under a key that was not stored — is created, and then the number of channels was below the limit
(or there is no limit) -/
theorem C14_join_creates_only_below_limit {c c' : Ctx} {sid : Id} {chn key : String}
    (hr : joinOne c sid chn key = .ok c') :
    c'.st.config.maxChannels = c.st.config.maxChannels ∧
    (c'.st.channels.length ≤ c.st.channels.length ∨
      (c'.st.channels.length = c.st.channels.length + 1 ∧ AMap.get c.st.channels (chanToLower chn) = none ∧
        (c.st.config.maxChannels = 0 ∨ c.st.channels.length < c.st.config.maxChannels))) :=
  joinOne_creates_only_below_limit hr

/-- **one services JOIN target** (`serverJoinOne`, the step of `cmdServerJoin`): the same — the limit is untouched;
the number of channels does not grow, or exactly one channel — under a key that was not stored — is created, and
then the number of channels was below the limit (or there is no limit) -/
theorem C14_services_join_creates_only_below_limit {c c' : Ctx} {m : IrcMsg} {chn : String}
    (hr : serverJoinOne c m chn = .ok c') :
    c'.st.config.maxChannels = c.st.config.maxChannels ∧
    (c'.st.channels.length ≤ c.st.channels.length ∨
      (c'.st.channels.length = c.st.channels.length + 1 ∧ AMap.get c.st.channels (chanToLower chn) = none ∧
        (c.st.config.maxChannels = 0 ∨ c.st.channels.length < c.st.config.maxChannels))) :=
  serverJoinOne_creates_only_below_limit hr

/-- **services SVSJOIN** (`cmdServerSvsjoin`; the channel is the second parameter): the same -/
theorem C14_services_svsjoin_creates_only_below_limit {c c' : Ctx} {sid : Id} {m : IrcMsg}
    (hr : cmdServerSvsjoin c sid m = .ok c') :
    c'.st.config.maxChannels = c.st.config.maxChannels ∧
    (c'.st.channels.length ≤ c.st.channels.length ∨
      ∃ chn, m.params[1]? = some chn ∧
        c'.st.channels.length = c.st.channels.length + 1 ∧ AMap.get c.st.channels (chanToLower chn) = none ∧
        (c.st.config.maxChannels = 0 ∨ c.st.channels.length < c.st.config.maxChannels)) :=
  cmdServerSvsjoin_creates_only_below_limit hr

/-- **JOIN** (any number of targets): with a limit the number of channels stays at most the larger of the
previous number and the limit -/
theorem C14_join_channel_limit {c c' : Ctx} {sid : Id} {m : IrcMsg} (hr : cmdJoin c sid m = .ok c') :
    c'.st.config.maxChannels = c.st.config.maxChannels ∧
    (0 < c.st.config.maxChannels → c'.st.channels.length ≤ max c.st.channels.length c.st.config.maxChannels) :=
  cmdJoin_channel_limit hr

/-- **every handler of the command table** (client and services) except the three joining handlers — the client's
`JOIN` and the services `JOIN` / `SVSJOIN`, which respect the limit (`C14_all_handlers_channel_limit`): the limit
is untouched and the number of channels does not grow -/
theorem C14_handlers_do_not_create_channels {fname : String} {h : Handler} (hh : handlerByName fname = some h)
    (h1 : fname ≠ "cmdJoin") (h2 : fname ≠ "cmdServerJoin") (h3 : fname ≠ "cmdServerSvsjoin")
    {c c' : Ctx} {sid : Id} {m : IrcMsg} (hr : h c sid m = .ok c') :
    c'.st.config.maxChannels = c.st.config.maxChannels ∧ c'.st.channels.length ≤ c.st.channels.length :=
  let r := handler_chanLe hh h1 h2 h3 c.st c sid m c' (ChanLe.refl _) hr
  ⟨r.maxChannels, r.le⟩

/-- **every handler of the command table, no exception** (client and services, the three joining handlers
included): the limit is untouched, and with a limit the number of channels stays at most the larger of the
previous number and the limit -/
theorem C14_all_handlers_channel_limit {fname : String} {h : Handler} (hh : handlerByName fname = some h)
    {c c' : Ctx} {sid : Id} {m : IrcMsg} (hr : h c sid m = .ok c') :
    c'.st.config.maxChannels = c.st.config.maxChannels ∧
    (0 < c.st.config.maxChannels → c'.st.channels.length ≤ max c.st.channels.length c.st.config.maxChannels) :=
  let r := handler_chanLim hh c.st c sid m c' (ChanLim.refl _) hr
  ⟨r.maxChannels, r.le⟩

/-- **one entry, any acting session (client or services link)**: entries other than Config entries keep the limit,
Config entries keep the channels; the number of channels grows only through a type-2 entry whose line is `JOIN`
(from a client or a services link) or `SVSJOIN` from a services link, and then — with a limit — it stays at most
the larger of the previous number and the limit -/
theorem C14_limits_channels_entry {st st' : St} {e : Entry} {out : List Out} (h : GInv st) (he : EntryOk st e)
    (hr : applyEntry st e = .ok (st', out)) :
    (e.type ≠ 6 → st'.config.maxChannels = st.config.maxChannels) ∧
    (e.type = 6 → st'.channels = st.channels) ∧
    (st'.channels.length ≤ st.channels.length ∨
      (e.type = 2 ∧ ∃ s m, AMap.get st.sessions e.session = some s ∧ parseMessage e.data = some m ∧
        (toUpper m.command = "JOIN" ∨ (s.server = true ∧ toUpper m.command = "SVSJOIN")) ∧
        (0 < st.config.maxChannels → st'.channels.length ≤ max st.channels.length st.config.maxChannels))) :=
  let r := applyEntry_chan (SessWf.of_core h.inv.toWInvCore) he.1 hr
  ⟨r.maxChannels, r.config, r.chans⟩

/-- **channel limit**: an entry — whoever the acting session is — never changes the limit (unless it is a
Config entry, which leaves the channels alone), never raises the number of channels above
`max (current number) maxChannels`, and raises it at all only through a `JOIN` or a services link's `SVSJOIN` -/
theorem C14_limits_channels {st st' : St} {e : Entry} {out : List Out} (h : GInv st) (he : EntryOk st e)
    (hr : applyEntry st e = .ok (st', out)) :
    (e.type ≠ 6 → st'.config.maxChannels = st.config.maxChannels) ∧
    (e.type = 6 → st'.channels = st.channels) ∧
    (0 < st.config.maxChannels → e.type ≠ 6 → st'.channels.length ≤ max st.channels.length st.config.maxChannels) ∧
    (st.channels.length < st'.channels.length →
       e.type = 2 ∧ ∃ s m, AMap.get st.sessions e.session = some s ∧ parseMessage e.data = some m ∧
         (toUpper m.command = "JOIN" ∨ (s.server = true ∧ toUpper m.command = "SVSJOIN"))) := by
  obtain ⟨h1, h2, h3⟩ := C14_limits_channels_entry h he hr
  refine ⟨h1, h2, fun hpos _ => ?_, fun hlt => ?_⟩
  · rcases h3 with hle | ⟨_, s, m, _, _, _, hlim⟩
    · exact Nat.le_trans hle (Nat.le_max_left _ _)
    · exact hlim hpos
  · rcases h3 with hle | ⟨ht, s, m, hs, hm, hj, _⟩
    · omega
    · exact ⟨ht, s, m, hs, hm, hj⟩

/-- the limit is respected (`maxChannels = 0`: no limit) -/
def ChannelsWithinLimit (st : St) : Prop :=
  st.config.maxChannels = 0 ∨ st.channels.length ≤ st.config.maxChannels

/-- **the limit is respected after the entry** when it was before — for every acting session, client or services
link — provided that a Config entry sets a limit that is `0` or at least the current number of channels -/
theorem C14_limits_channels_step {st st' : St} {e : Entry} {out : List Out} (h : GInv st) (he : EntryOk st e)
    (hl : ChannelsWithinLimit st)
    (hcfg : e.type = 6 → ∀ cfg, e.cfg = some cfg → cfg.maxChannels = 0 ∨ st.channels.length ≤ cfg.maxChannels)
    (hr : applyEntry st e = .ok (st', out)) : ChannelsWithinLimit st' :=
  (applyEntry_chan (SessWf.of_core h.inv.toWInvCore) he.1 hr).within hl hcfg ⟨out, hr⟩

/-- along the history (threaded through `applyEntry` like `WfHistory`): a Config entry sets a limit that is
`0` or at least the current number of channels -/
def LimitHistory (st : St) : List Entry → Prop
  | [] => True
  | e :: es =>
    (e.type = 6 → ∀ cfg, e.cfg = some cfg → cfg.maxChannels = 0 ∨ st.channels.length ≤ cfg.maxChannels) ∧
    ∀ st' out, applyEntry st e = .ok (st', out) → LimitHistory st' es

theorem LimitHistory_iff (st : St) (es : List Entry) : LimitHistory st es ↔ Robust.Irc.LimitHistory st es := by
  induction es generalizing st with
  | nil => exact Iff.rfl
  | cons e es ih =>
    unfold LimitHistory Robust.Irc.LimitHistory
    exact and_congr Iff.rfl (forall_congr' fun st' => forall_congr' fun out => imp_congr Iff.rfl (ih st'))

/-- **the channel limit over histories**: in a well-formed history from the initial state in which no Config
entry lowers the limit below the current number of channels, the number of channels never exceeds the configured
limit (no exception for services links: their `JOIN` / `SVSJOIN` are refused at the limit) -/
theorem C14_limits_channels_history {es : List Entry} {st : St} (hw : WfHistory {} es)
    (hl : LimitHistory {} es) (hr : runEntries {} es = .ok st) : ChannelsWithinLimit st :=
  run_within_limit (SessWf.of_core GInv_init.inv.toWInvCore) (Or.inl rfl) hw ((LimitHistory_iff _ _).1 hl) hr

/-! ### non-vacuity: at the limit the services `JOIN` / `SVSJOIN` are refused

The state below was the counterexample to the channel limit before services `JOIN` / `SVSJOIN` checked
`MaxChannels`: then both lines succeeded and left two channels although `MaxChannels = 1`. -/

def cexAlice : Session :=
  { id := ⟨1, 0⟩, nick := "alice", username := "al", loggedIn := true, channels := ["#c"]
    ircPrefix := ⟨"alice", "al", "robust/0x1"⟩ }
def cexServ : Session :=
  { id := ⟨9, 0⟩, server := true, ircPrefix := ⟨"services.example", "", ""⟩ }
/-- a pseudo-client of the link 9 -/
def cexChanServ : Session :=
  { id := ⟨9, 77⟩, nick := "ChanServ", username := "services", channels := []
    ircPrefix := ⟨"ChanServ", "services", "robust/0x9"⟩ }
def cexChanC : Channel := { name := "#c", nicks := [("alice", { chanop := true })], modes := ['n', 't'] }

/-- `MaxChannels = 1`, one channel `#c` (alice), one services link (session 9) with the pseudo-client ChanServ:
the number of channels is at the limit -/
def cexSt : St :=
  { sessions := [(⟨1, 0⟩, cexAlice), (⟨9, 0⟩, cexServ), (⟨9, 77⟩, cexChanServ)]
    nicks := [("alice", ⟨1, 0⟩), ("chanserv", ⟨9, 77⟩)]
    channels := [("#c", cexChanC)]
    serverSessions := [9]
    config := { maxChannels := 1 } }

/-- `:services.example SVSJOIN alice #new` -/
def cexSvsjoin : IrcMsg := ⟨some ⟨"services.example", "", ""⟩, "SVSJOIN", ["alice", "#new"]⟩
/-- `:ChanServ JOIN #new` -/
def cexJoin : IrcMsg := ⟨some ⟨"ChanServ", "", ""⟩, "JOIN", ["#new"]⟩

/-- the executable consistency predicate holds of the example state (that it satisfies the proved invariant
`GInv` is `C14_cex_state_consistent` in `C14Cex.lean`, which needs the checker of `RcptCheck.lean`) -/
theorem cexSt_invB : invB cexSt = true := by decide

/-- **at the limit the services SVSJOIN and JOIN are refused**: in a consistent state (`invB`; `GInv` in
`C14Cex.lean`) with `MaxChannels = 1` and one channel, the services lines `SVSJOIN alice #new` and
`:ChanServ JOIN #new` succeed as handlers but create nothing: the only output is the numeric `403` to the services
link (session 9), and there is still one channel -/
theorem C14_services_refused_at_channel_limit :
    invB cexSt = true ∧ ChannelsWithinLimit cexSt ∧
    (match cmdServerSvsjoin ⟨cexSt, 1, 0, []⟩ ⟨9, 0⟩ cexSvsjoin with
     | .ok c' => decide (c'.st.channels.length = 1 ∧ c'.st.config.maxChannels = 1 ∧
         c'.out = [⟨1, 1, utf8 ":robustirc.net 403 services.example #new :No such channel", [9]⟩])
     | _ => false) = true ∧
    (match cmdServerJoin ⟨cexSt, 1, 0, []⟩ ⟨9, 0⟩ cexJoin with
     | .ok c' => decide (c'.st.channels.length = 1 ∧ c'.st.config.maxChannels = 1 ∧
         c'.out = [⟨1, 1, utf8 ":robustirc.net 403 ChanServ #new :No such channel", [9]⟩])
     | _ => false) = true ∧
    (match cmdServerSvsjoin ⟨cexSt, 1, 0, []⟩ ⟨9, 0⟩ cexSvsjoin with
     | .ok c' => ChannelsWithinLimit c'.st
     | _ => False) ∧
    (match cmdServerJoin ⟨cexSt, 1, 0, []⟩ ⟨9, 0⟩ cexJoin with
     | .ok c' => ChannelsWithinLimit c'.st
     | _ => False) :=
  ⟨cexSt_invB, Or.inr (by decide), by decide +kernel, by decide +kernel,
    Or.inr (by decide +kernel), Or.inr (by decide +kernel)⟩

/-- … and through the whole of `ProcessMessage` for the services link (session 9): the same two lines, dispatched
via the command table, are answered with `403` to the services link and leave the one channel -/
theorem C14_services_refused_at_channel_limit_processMessage :
    (match processMessage ⟨cexSt, 1, 0, []⟩ { (default : Entry) with type := 2, id := 1, session := ⟨9, 0⟩ }
        (some cexSvsjoin) with
     | .ok c' => decide (c'.st.channels.length = 1 ∧ c'.st.config.maxChannels = 1 ∧
         c'.out = [⟨1, 1, utf8 ":robustirc.net 403 services.example #new :No such channel", [9]⟩])
     | _ => false) = true ∧
    (match processMessage ⟨cexSt, 1, 0, []⟩ { (default : Entry) with type := 2, id := 1, session := ⟨9, 0⟩ }
        (some cexJoin) with
     | .ok c' => decide (c'.st.channels.length = 1 ∧ c'.st.config.maxChannels = 1 ∧
         c'.out = [⟨1, 1, utf8 ":robustirc.net 403 ChanServ #new :No such channel", [9]⟩])
     | _ => false) = true :=
  ⟨by decide +kernel, by decide +kernel⟩

/-! ### the session limit -/

/-- **CreateSession entries**: the configuration is untouched; with a limit the number of sessions stays at most
the larger of the previous number and the limit; at the limit nothing happens -/
theorem C14_limits_sessions_entry {st st' : St} {e : Entry} {out : List Out} (ht : e.type = 0)
    (hr : applyEntry st e = .ok (st', out)) :
    st'.config = st.config ∧
    (0 < st.config.maxSessions → st'.sessions.length ≤ max st.sessions.length st.config.maxSessions) ∧
    (st.config.maxSessions ≤ st.sessions.length → 0 < st.config.maxSessions → st' = st) :=
  applyEntry_create_sessions ht hr

/-- **services NICK** (the other caller of `createSession`): the same bound -/
theorem C14_limits_sessions_services_nick {c c' : Ctx} {sid : Id} {m : IrcMsg}
    (hr : cmdServerNick c sid m = .ok c') :
    c'.st.config = c.st.config ∧
    (0 < c.st.config.maxSessions → c'.st.sessions.length ≤ max c.st.sessions.length c.st.config.maxSessions) :=
  chanLim_cmdServerNick_sessions hr

/-- **every handler of the command table except the services `NICK`**: the session limit is untouched and the
number of stored sessions does not grow (sessions flagged deleted are purged after the handler) -/
theorem C14_handlers_do_not_create_sessions {fname : String} {h : Handler} (hh : handlerByName fname = some h)
    (hn : fname ≠ "cmdServerNick") {c c' : Ctx} {sid : Id} {m : IrcMsg}
    (hw : (∀ id s, AMap.get c.st.sessions id = some s → s.id = id) ∧ (AMap.keys c.st.sessions).Nodup)
    (hr : h c sid m = .ok c') :
    c'.st.config.maxSessions = c.st.config.maxSessions ∧ c'.st.sessions.length ≤ c.st.sessions.length :=
  let r := handler_sessLe hh hn c.st c sid m c' (SessLe.refl ⟨hw.1, hw.2⟩) hr
  ⟨r.maxSessions, r.le⟩

/-- **one entry**: entries other than Config entries keep the session limit, Config entries keep the sessions;
the number of sessions grows only through a CreateSession entry or the services `NICK` of a services link,
and then — with a limit — it stays at most the larger of the previous number and the limit -/
theorem C14_limits_sessions_any_entry {st st' : St} {e : Entry} {out : List Out} (h : GInv st) (he : EntryOk st e)
    (hr : applyEntry st e = .ok (st', out)) :
    (e.type ≠ 6 → st'.config.maxSessions = st.config.maxSessions) ∧
    (e.type = 6 → st'.sessions = st.sessions) ∧
    (st'.sessions.length ≤ st.sessions.length ∨
      ((e.type = 0 ∨ (e.type = 2 ∧ ∃ s m, AMap.get st.sessions e.session = some s ∧
          parseMessage e.data = some m ∧ s.server = true ∧ toUpper m.command = "NICK")) ∧
        (0 < st.config.maxSessions → st'.sessions.length ≤ max st.sessions.length st.config.maxSessions))) :=
  let r := applyEntry_sess (SessWf.of_core h.inv.toWInvCore) he.1 hr
  ⟨r.maxSessions, r.config, r.sess⟩

/-- the session limit is respected (`maxSessions = 0`: no limit) -/
def SessionsWithinLimit (st : St) : Prop :=
  st.config.maxSessions = 0 ∨ st.sessions.length ≤ st.config.maxSessions

/-- **the session limit is respected after the entry** when it was before and — for a Config entry — the new
limit is `0` or at least the current number of sessions -/
theorem C14_limits_sessions_step {st st' : St} {e : Entry} {out : List Out} (h : GInv st) (he : EntryOk st e)
    (hl : SessionsWithinLimit st)
    (hcfg : e.type = 6 → ∀ cfg, e.cfg = some cfg → cfg.maxSessions = 0 ∨ st.sessions.length ≤ cfg.maxSessions)
    (hr : applyEntry st e = .ok (st', out)) : SessionsWithinLimit st' :=
  (applyEntry_sess (SessWf.of_core h.inv.toWInvCore) he.1 hr).within hl hcfg ⟨out, hr⟩

/-- along the history (threaded through `applyEntry` like `WfHistory`): a Config entry sets a session limit that
is `0` or at least the current number of sessions -/
def SessLimitHistory (st : St) : List Entry → Prop
  | [] => True
  | e :: es =>
    (e.type = 6 → ∀ cfg, e.cfg = some cfg → cfg.maxSessions = 0 ∨ st.sessions.length ≤ cfg.maxSessions) ∧
    ∀ st' out, applyEntry st e = .ok (st', out) → SessLimitHistory st' es

theorem SessLimitHistory_iff (st : St) (es : List Entry) :
    SessLimitHistory st es ↔ Robust.Irc.SessLimitHistory st es := by
  induction es generalizing st with
  | nil => exact Iff.rfl
  | cons e es ih =>
    unfold SessLimitHistory Robust.Irc.SessLimitHistory
    exact and_congr Iff.rfl (forall_congr' fun st' => forall_congr' fun out => imp_congr Iff.rfl (ih st'))

/-- **the session limit over histories**: in a well-formed history from the initial state in which no Config
entry lowers the limit below the current number of sessions, the number of stored sessions never exceeds the
configured limit (no exception for services links: their `NICK` goes through `createSession`) -/
theorem C14_limits_sessions_history {es : List Entry} {st : St} (hw : WfHistory {} es)
    (hl : SessLimitHistory {} es) (hr : runEntries {} es = .ok st) : SessionsWithinLimit st :=
  run_sessions_within_limit (SessWf.of_core GInv_init.inv.toWInvCore) (Or.inl rfl) hw
    ((SessLimitHistory_iff _ _).1 hl) hr

end Robust.Props.C14
