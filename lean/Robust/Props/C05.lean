import Robust.Props.C02
import Robust.Props.C04
import Robust.Props.C10
import Robust.Gen.Exprs
/-!
# C05 — acknowledged messages survive crashes and fail-over, exactly once, everywhere

The end-to-end promise is a composition.  The pieces that are theorems elsewhere:

* C02: for every schedule of commits, snapshots, failed snapshot writes, restores and restarts
  (= process kills: a restart re-reads the durable log and the newest snapshot), a node's state is
  the plain replay of its committed log, and its log copy / output store hold exactly the commands
  not yet folded into a snapshot;
* C09: the durable log store is a faithful (index ↦ entry) map across close/reopen/kill;
* C04: a client that reads over any number of connections, cut anywhere, on nodes of any lag,
  receives a prefix of its filtered stream, nothing twice, nothing skipped; C08: GetNext;
* C10: a retried POST is acknowledged without being proposed again; C01: apply is deterministic.

What this file adds is the network level: several nodes whose committed logs are prefixes of one
log `L` (the one thing assumed of raft: log matching / leader completeness, i.e. an entry that was
acknowledged is in the log of every node that has caught up to its index).  For every fault
schedule on every node: an acknowledged command is in the node's state exactly once, forever; the
applied sequences of any two nodes are prefixes of one another (same order everywhere); and two nodes
hold the same output batches wherever neither has compacted them.
-/
namespace Robust.Props.C05
open Robust.Fsm Robust.Props.C02

theorem commits_append (a b : List Op) : commits (a ++ b) = commits a ++ commits b := by
  induction a with
  | nil => rfl
  | cons o r ih => cases o <;> simp [commits, ih]

/-- a node of the network: its life is any well-formed schedule of commits and faults, and what it
has committed so far is a prefix of the network's log `L` -/
structure NodeLife (L : List LogEntry) where
  ops : List Op
  wf : WfOps ops
  k : Nat
  pre : commits ops = L.take k

def NodeLife.node {L : List LogEntry} (n : NodeLife L) : Node := ({} : Node).run n.ops

/-- (1) whatever happened to the node (kills, restarts, snapshots, failed snapshot writes, restores), its
state is the replay of the first `k` entries of the network's log -/
theorem C05_node_is_replay {L : List LogEntry} (n : NodeLife L) :
    n.node.live = replayLive (L.take n.k) ∧ n.node.exp = replayExp (L.take n.k) := by
  have h := C02_state_eq_replay n.ops n.wf
  simp only at h
  rw [← n.pre]
  exact ⟨h.2.1, h.2.2⟩

/-- (2) an acknowledged command is never lost: once a node has applied it, it stays part of the node's
state through every continuation of the node's life — more traffic, kills and restarts, snapshots,
restores — -/
theorem C05_acked_never_lost (ops more : List Op) (hw : WfOps (ops ++ more)) (e : LogEntry)
    (he : e ∈ commits ops) (hc : e.isCmd = true) :
    e.idx ∈ (({} : Node).run (ops ++ more)).live := by
  have h := (C02_state_eq_replay (ops ++ more) hw)
  simp only at h
  rw [h.2.1, commits_append]
  unfold replayLive
  exact List.mem_map.2 ⟨e, List.mem_filter.2 ⟨List.mem_append_left _ he, hc⟩, rfl⟩

/-- (3) … and exactly once: the state holds no command twice -/
theorem C05_exactly_once_in_state (ops : List Op) (hw : WfOps ops) :
    (({} : Node).run ops).live.Nodup := by
  have h := (C02_state_eq_replay ops hw)
  simp only at h
  rw [h.2.1]
  unfold replayLive
  have hs : ((commits ops).map (·.idx)).Pairwise (· < ·) := hw.1
  have : (((commits ops).filter (·.isCmd)).map (·.idx)).Pairwise (· < ·) :=
    List.Pairwise.sublist (List.Sublist.map _ List.filter_sublist) hs
  exact this.imp (fun h => Nat.ne_of_lt h)

theorem replayLive_take_prefix (L : List LogEntry) {a b : Nat} (h : a ≤ b) :
    replayLive (L.take a) <+: replayLive (L.take b) := by
  unfold replayLive
  have : L.take a <+: L.take b := (List.take_prefix_take_left (l := L) h)
  obtain ⟨t, ht⟩ := this
  rw [← ht, List.filter_append, List.map_append]
  exact List.prefix_append _ _

/-- (4) same order everywhere: of any two nodes, whatever faults each of them went through, one has
applied a prefix of what the other has applied -/
theorem C05_same_order_everywhere {L : List LogEntry} (n₁ n₂ : NodeLife L) :
    n₁.node.live <+: n₂.node.live ∨ n₂.node.live <+: n₁.node.live := by
  rw [(C05_node_is_replay n₁).1, (C05_node_is_replay n₂).1]
  rcases Nat.le_total n₁.k n₂.k with h | h
  · exact Or.inl (replayLive_take_prefix L h)
  · exact Or.inr (replayLive_take_prefix L h)

/-- (5) a node that has caught up to an acknowledged command holds it -/
theorem C05_caught_up_node_has_it {L : List LogEntry} (n : NodeLife L) (e : LogEntry) (hc : e.isCmd = true)
    (he : e ∈ L.take n.k) : e.idx ∈ n.node.live := by
  rw [(C05_node_is_replay n).1]
  unfold replayLive
  exact List.mem_map.2 ⟨e, List.mem_filter.2 ⟨he, hc⟩, rfl⟩

/-- (6) the output a node serves: a node's log copy is the committed commands above its compaction boundary
`b` (that is what ties `b` to the node — a first version of this theorem left the boundaries unconstrained,
which made it true for any pair of nodes; found by the non-vacuity audit), and for every such command the node
holds the output batch; so two nodes serve the same batches wherever neither has compacted -/
theorem C05_nodes_serve_the_same_output {L : List LogEntry} (n₁ n₂ : NodeLife L) :
    ∃ b₁ b₂,
      n₁.node.irc = (L.take n₁.k).filter (fun e => e.isCmd && decide (b₁ < e.idx)) ∧
      n₂.node.irc = (L.take n₂.k).filter (fun e => e.isCmd && decide (b₂ < e.idx)) ∧
      ∀ e ∈ L.take (min n₁.k n₂.k), e.isCmd = true → b₁ < e.idx → b₂ < e.idx →
        (e.idx ∈ n₁.node.out ∧ e.idx ∈ n₂.node.out) := by
  obtain ⟨b₁, h₁, _⟩ := C02_unfolded_exact n₁.ops n₁.wf
  obtain ⟨b₂, h₂, _⟩ := C02_unfolded_exact n₂.ops n₂.wf
  have o₁ := (C02_unfolded_kept n₁.ops n₁.wf).1
  have o₂ := (C02_unfolded_kept n₂.ops n₂.wf).1
  refine ⟨b₁, b₂, ?_, ?_, fun e he hc hb₁ hb₂ => ⟨?_, ?_⟩⟩
  · show (({} : Node).run n₁.ops).irc = _
    rw [h₁, n₁.pre]
  · show (({} : Node).run n₂.ops).irc = _
    rw [h₂, n₂.pre]
  · refine (o₁ e.idx).2 (List.mem_map.2 ⟨e, ?_, rfl⟩)
    show e ∈ (({} : Node).run n₁.ops).irc
    rw [h₁, n₁.pre]
    refine List.mem_filter.2 ⟨(List.take_prefix_take_left (l := L) (Nat.min_le_left _ _)).subset he, ?_⟩
    simp [hc, hb₁]
  · refine (o₂ e.idx).2 (List.mem_map.2 ⟨e, ?_, rfl⟩)
    show e ∈ (({} : Node).run n₂.ops).irc
    rw [h₂, n₂.pre]
    refine List.mem_filter.2 ⟨(List.take_prefix_take_left (l := L) (Nat.min_le_right _ _)).subset he, ?_⟩
    simp [hc, hb₂]

/-- (7) and only old output is ever compacted away: a snapshot keeps every command (and its output)
that is younger than the session expiration plus the sweep interval — a live session's unread
messages are younger than that (restated from C02) -/
theorem C05_recent_output_survives_snapshots (ops : List Op) (h : WfOps ops) (n' : Node) (now : Int)
    (hs : (({} : Node).run ops).snapshot now = some n') (e : LogEntry)
    (he : e ∈ (({} : Node).run ops).irc)
    (hnew : e.ts > now - ((if (({} : Node).run ops).exp = 0 then 600000000000 else (({} : Node).run ops).exp)
              + expireSessionsInterval)) :
    e ∈ n'.irc ∧ (e.idx ∈ (({} : Node).run ops).out → e.idx ∈ n'.out) :=
  C02_recent_kept_reachable ops h n' now hs e he hnew

/-- (8) the client side (restated from C04 so that this module's audit covers it): over any number of
connections, cut anywhere, to nodes of any lag, the client has received a prefix of its stream -/
theorem C05_client_exactly_once (net : Stream.Resume.Net) (h : Stream.Resume.WfNet net) (session : Nat) (start : Nat × Nat)
    (hs : 0 < start.1) (sched : List (Bool × Nat)) :
    ∃ n, Robust.Props.C04.client net session start sched [] =
      ((Robust.Props.C04.owed net start.1 start.2).filter (Stream.Resume.interesting session)).take n :=
  Robust.Props.C04.C04_client_exactly_once net h session start hs sched

/-- regenerated from api.go: a POST is acknowledged only after raft reported the entry committed and the
FSM's response was checked — `applyMessageWait` waits on `f.Error()` itself (no goroutine, select or timer
that could let it return while the entry is still in flight: a client that is told "failed" retries, and a
retry of an entry that commits later is a duplicate), and the id is taken only afterwards -/
theorem C05_ack_after_commit :
    Robust.Gen.Exprs.fact "apply.wait" = "nil != recv.raftNode.Apply(_).Error() => return recv.raftNode.Apply(_).Error()" ∧
    Robust.Gen.Exprs.fact "apply.async" = "0" ∧
    Robust.Gen.Exprs.fact "apply.idAfterErrorCheck" = "true" := by decide

/-! non-vacuity: a three-entry log, one node that was killed and restarted after a snapshot, one that
lags behind -/
def e1 : LogEntry := ⟨1, 100, true, none⟩
def e2 : LogEntry := ⟨2, 200, true, none⟩
def e3 : LogEntry := ⟨3, 300, true, none⟩
def exL : List LogEntry := [e1, e2, e3]

def nA : NodeLife exL := ⟨[.commit e1, .commit e2, .snapshot 100000000000000, .persist, .restart, .commit e3, .restart],
  by unfold WfOps; simp [commits, e1, e2, e3], 3, by simp [commits, exL]⟩
def nB : NodeLife exL := ⟨[.commit e1, .restart, .commit e2], by unfold WfOps; simp [commits, e1, e2], 2, by simp [commits, exL]⟩

example : nB.node.live <+: nA.node.live := by
  rcases C05_same_order_everywhere nA nB with h | h
  · have h1 : nA.node.live = [1, 2, 3] := by decide
    have h2 : nB.node.live = [1, 2] := by decide
    rw [h1, h2]; decide
  · exact h
example : nA.node.live = [1, 2, 3] ∧ nB.node.live = [1, 2] := by decide

/-! ## non-vacuity (audit)

A five-entry network log with a raft-internal entry (`l3`, not a command) and a network configuration that
changes the session expiration (`l4`).  Node A: snapshot that folds only the old part, persist, kill and
restart, a second snapshot whose write fails.  Node B lags (three entries), was killed once, snapshotted and
had raft re-install its newest snapshot. -/
namespace Ex
def l1 : LogEntry := ⟨1, 100, true, none⟩
def l2 : LogEntry := ⟨2, 200, true, none⟩
def l3 : LogEntry := ⟨3, 250, false, none⟩
def l4 : LogEntry := ⟨4, 300, true, some 700000000000⟩
def l5 : LogEntry := ⟨5, 400, true, none⟩
def L : List LogEntry := [l1, l2, l3, l4, l5]
def opsA : List Op := [.commit l1, .commit l2, .snapshot 610000000150, .persist, .commit l3, .commit l4, .restart,
  .commit l5, .snapshot 610000000150, .persistFail]
def opsB : List Op := [.commit l1, .restart, .commit l2, .snapshot 610000000050, .persist, .commit l3, .restoreLatest]
theorem wfA : WfOps opsA := by unfold WfOps; decide
theorem wfB : WfOps opsB := by unfold WfOps; decide
/-- the two nodes as lives over `L` (the structure fields `wf` and `pre` are the hypotheses) -/
def nA : NodeLife L := ⟨opsA, wfA, 5, by decide⟩
def nB : NodeLife L := ⟨opsB, wfB, 3, by decide⟩
/-- what the nodes hold: A has folded entry 1 into its snapshot state, B nothing yet -/
example : nA.node.live = [1, 2, 4, 5] ∧ nA.node.out = [2, 4, 5] ∧ nA.node.irc.map (·.idx) = [2, 4, 5] ∧
    nA.node.exp = 700000000000 ∧ nA.node.persisted.map (fun s => (s.index, s.stateIdx, s.state)) = [(2, 1, [1])] := by decide
example : nB.node.live = [1, 2] ∧ nB.node.out = [1, 2] ∧ nB.node.exp = 600000000000 ∧
    nB.node.persisted.map (fun s => (s.index, s.stateIdx, s.state)) = [(2, 0, [])] := by decide

/-- `C05_node_is_replay` for both nodes, with the concrete right-hand sides -/
example : nA.node.live = replayLive (L.take 5) ∧ nA.node.exp = replayExp (L.take 5) := C05_node_is_replay nA
example : nB.node.live = replayLive (L.take 3) ∧ nB.node.exp = replayExp (L.take 3) := C05_node_is_replay nB
example : replayLive (L.take 5) = [1, 2, 4, 5] ∧ replayExp (L.take 5) = 700000000000 ∧ replayLive (L.take 3) = [1, 2] := by decide

/-- `C05_acked_never_lost`: entry 2 was applied during the first four steps of A's life; it is still there after
the rest of it (raft-internal entry, config, kill, restart, second snapshot) -/
example : l2.idx ∈ (({} : Node).run (opsA.take 4 ++ opsA.drop 4)).live :=
  C05_acked_never_lost (opsA.take 4) (opsA.drop 4) wfA l2 (by decide) rfl
/-- `C05_exactly_once_in_state` -/
example : (({} : Node).run opsA).live.Nodup := C05_exactly_once_in_state opsA wfA
/-- `C05_same_order_everywhere` -/
example : nB.node.live <+: nA.node.live :=
  (C05_same_order_everywhere nA nB).resolve_left (by decide)
/-- `C05_caught_up_node_has_it`: B has caught up to entry 2 (but not to 4) -/
example : l2.idx ∈ nB.node.live := C05_caught_up_node_has_it nB l2 rfl (by decide)
example : l4 ∉ L.take nB.k ∧ l4.idx ∉ nB.node.live := by decide

/-- `C05_nodes_serve_the_same_output` on the example nodes: the boundaries are determined by the nodes' log
copies (A has compacted up to 1, B nothing), and above both every command's batch is held by both -/
example : ∃ b₁ b₂,
    nA.node.irc = (L.take nA.k).filter (fun e => e.isCmd && decide (b₁ < e.idx)) ∧
    nB.node.irc = (L.take nB.k).filter (fun e => e.isCmd && decide (b₂ < e.idx)) ∧
    ∀ e ∈ L.take (min nA.k nB.k), e.isCmd = true → b₁ < e.idx → b₂ < e.idx →
      (e.idx ∈ nA.node.out ∧ e.idx ∈ nB.node.out) := C05_nodes_serve_the_same_output nA nB
/-- … concretely, with the nodes' real compaction boundaries (A: 1, B: 0): -/
example : nA.node.irc = (L.take nA.k).filter (fun e => e.isCmd && decide (1 < e.idx)) ∧
    nB.node.irc = (L.take nB.k).filter (fun e => e.isCmd && decide (0 < e.idx)) ∧
    ∀ e ∈ L.take (min nA.k nB.k), e.isCmd = true → 1 < e.idx → 0 < e.idx →
      (e.idx ∈ nA.node.out ∧ e.idx ∈ nB.node.out) := by decide
/-- why the tie matters: without it a statement of this shape holds for *any* predicate `P` in place of "both
nodes hold the batch" (pick a boundary above every index of `L`) -/
theorem le_foldr_max (l : List Nat) : ∀ x ∈ l, x ≤ l.foldr max 0 := by
  induction l with
  | nil => intro x hx; cases hx
  | cons a l ih =>
    intro x hx
    simp only [List.foldr_cons]
    rcases List.mem_cons.1 hx with rfl | h
    · exact Nat.le_max_left _ _
    · exact Nat.le_trans (ih x h) (Nat.le_max_right _ _)
example (L : List LogEntry) (k : Nat) (P : LogEntry → Prop) :
    ∃ b₁ b₂ : Nat, ∀ e ∈ L.take k, e.isCmd = true → b₁ < e.idx → b₂ < e.idx → P e := by
  refine ⟨(L.map (·.idx)).foldr max 0, 0, fun e he _ hb _ => ?_⟩
  have := le_foldr_max (L.map (·.idx)) e.idx (List.mem_map.2 ⟨e, (List.take_subset k L) he, rfl⟩)
  omega

theorem some_getD_of_isSome {α : Type} {o : Option α} {d : α} (h : o.isSome = true) : o = some (o.getD d) := by
  cases o with
  | none => cases h
  | some a => rfl
/-- `C05_recent_output_survives_snapshots`: a third snapshot of node A at `now = 710 s + 350 ns` (expiration is
700 s by then, horizon 350 ns) succeeds (`hs`); entry 5 (ts 400) is in the log copy (`he`) and newer than the
horizon (`hnew`): it and its output survive, while entries 2 and 4 are folded -/
def nA' : Node := ((({} : Node).run opsA).snapshot 710000000350).getD {}
example : l5 ∈ nA'.irc ∧ (l5.idx ∈ (({} : Node).run opsA).out → l5.idx ∈ nA'.out) :=
  C05_recent_output_survives_snapshots opsA wfA nA' 710000000350 (some_getD_of_isSome (by decide)) l5 (by decide) (by decide)
example : nA'.irc.map (·.idx) = [5] ∧ nA'.out = [5] ∧ (({} : Node).run opsA).out = [2, 4, 5] ∧ nA'.live = [1, 2, 4, 5] := by decide

/-- `C05_client_exactly_once`: four batches (ids 2, 5, 6, 9), two sessions; the client of session 1 starts at
`(1, 0)` and reads over four connections — cut inside batch 2 on a lagging node, cut after batch 5, cut at once,
then uncut -/
def mm (i r : Nat) (rc : List Nat) : Stream.Resume.M := ⟨i, r, rc⟩
def net4 : Stream.Resume.Net :=
  [[mm 2 1 [1], mm 2 2 [2], mm 2 3 [1]], [mm 5 1 [2]], [mm 6 1 [1], mm 6 2 [1, 2]], [mm 9 1 [2], mm 9 2 [1]]]
theorem net4_wf : Stream.Resume.WfNet net4 := by
  unfold Stream.Resume.WfNet Stream.Resume.WfBatch; decide
def sched4 : List (Bool × Nat) := [(false, 2), (true, 2), (true, 0), (true, 9)]
example : ∃ n, Robust.Props.C04.client net4 1 (1, 0) sched4 [] =
    ((Robust.Props.C04.owed net4 1 0).filter (Stream.Resume.interesting 1)).take n :=
  C05_client_exactly_once net4 net4_wf 1 (1, 0) (by decide) sched4
example : Robust.Props.C04.client net4 1 (1, 0) sched4 [] = [mm 2 1 [1], mm 2 3 [1], mm 6 1 [1], mm 6 2 [1, 2], mm 9 2 [1]] ∧
    (Robust.Props.C04.owed net4 1 0).filter (Stream.Resume.interesting 1) =
      [mm 2 1 [1], mm 2 3 [1], mm 6 1 [1], mm 6 2 [1, 2], mm 9 2 [1]] := by decide
end Ex

end Robust.Props.C05
