import Robust.Props.C02
import Robust.Props.C04
import Robust.Props.C10
import Robust.Gen.Exprs
/-!
# C05 — acknowledged messages survive crashes and fail-over, exactly once, everywhere

The end-to-end promise is a composition.  The pieces that are theorems elsewhere:

* C02: for every schedule of commits, snapshots, failed snapshot writes, restores and restarts
  (= process kills: a restart re-reads the durable log and the newest snapshot), a node's state is
  the plain replay of its committed log, and its log copy / output store hold exactly the commands
  not yet folded into a snapshot;
* C09: the durable log store is a faithful (index ↦ entry) map across close/reopen/kill;
* C04: a client that reads over any number of connections, cut anywhere, on nodes of any lag,
  receives a prefix of its filtered stream, nothing twice, nothing skipped; C08: GetNext;
* C10: a retried POST is acknowledged without being proposed again; C01: apply is deterministic.

What this file adds is the network level: several nodes whose committed logs are prefixes of one
log `L` (the one thing assumed of raft: log matching / leader completeness, i.e. an entry that was
acknowledged is in the log of every node that has caught up to its index).  For every fault
schedule on every node: an acknowledged command is in the node's state exactly once, forever; the
applied sequences of any two nodes are prefixes of one another (same order everywhere); and two nodes
hold the same output batches wherever neither has compacted them.
-/
namespace Robust.Props.C05
open Robust.Fsm Robust.Props.C02

theorem commits_append (a b : List Op) : commits (a ++ b) = commits a ++ commits b := by
  induction a with
  | nil => rfl
  | cons o r ih => cases o <;> simp [commits, ih]

/-- a node of the network: its life is any well-formed schedule of commits and faults, and what it
has committed so far is a prefix of the network's log `L` -/
structure NodeLife (L : List LogEntry) where
  ops : List Op
  wf : WfOps ops
  k : Nat
  pre : commits ops = L.take k

def NodeLife.node {L : List LogEntry} (n : NodeLife L) : Node := ({} : Node).run n.ops

/-- (1) whatever happened to the node (kills, restarts, snapshots, failed snapshot writes, restores), its
state is the replay of the first `k` entries of the network's log -/
theorem C05_node_is_replay {L : List LogEntry} (n : NodeLife L) :
    n.node.live = replayLive (L.take n.k) ∧ n.node.exp = replayExp (L.take n.k) := by
  have h := C02_state_eq_replay n.ops n.wf
  simp only at h
  rw [← n.pre]
  exact ⟨h.2.1, h.2.2⟩

/-- (2) an acknowledged command is never lost: once a node has applied it, it stays part of the node's
state through every continuation of the node's life — more traffic, kills and restarts, snapshots,
restores — -/
theorem C05_acked_never_lost (ops more : List Op) (hw : WfOps (ops ++ more)) (e : LogEntry)
    (he : e ∈ commits ops) (hc : e.isCmd = true) :
    e.idx ∈ (({} : Node).run (ops ++ more)).live := by
  have h := (C02_state_eq_replay (ops ++ more) hw)
  simp only at h
  rw [h.2.1, commits_append]
  unfold replayLive
  exact List.mem_map.2 ⟨e, List.mem_filter.2 ⟨List.mem_append_left _ he, hc⟩, rfl⟩

/-- (3) … and exactly once: the state holds no command twice -/
theorem C05_exactly_once_in_state (ops : List Op) (hw : WfOps ops) :
    (({} : Node).run ops).live.Nodup := by
  have h := (C02_state_eq_replay ops hw)
  simp only at h
  rw [h.2.1]
  unfold replayLive
  have hs : ((commits ops).map (·.idx)).Pairwise (· < ·) := hw.1
  have : (((commits ops).filter (·.isCmd)).map (·.idx)).Pairwise (· < ·) :=
    List.Pairwise.sublist (List.Sublist.map _ List.filter_sublist) hs
  exact this.imp (fun h => Nat.ne_of_lt h)

theorem replayLive_take_prefix (L : List LogEntry) {a b : Nat} (h : a ≤ b) :
    replayLive (L.take a) <+: replayLive (L.take b) := by
  unfold replayLive
  have : L.take a <+: L.take b := (List.take_prefix_take_left (l := L) h)
  obtain ⟨t, ht⟩ := this
  rw [← ht, List.filter_append, List.map_append]
  exact List.prefix_append _ _

/-- (4) same order everywhere: of any two nodes, whatever faults each of them went through, one has
applied a prefix of what the other has applied -/
theorem C05_same_order_everywhere {L : List LogEntry} (n₁ n₂ : NodeLife L) :
    n₁.node.live <+: n₂.node.live ∨ n₂.node.live <+: n₁.node.live := by
  rw [(C05_node_is_replay n₁).1, (C05_node_is_replay n₂).1]
  rcases Nat.le_total n₁.k n₂.k with h | h
  · exact Or.inl (replayLive_take_prefix L h)
  · exact Or.inr (replayLive_take_prefix L h)

/-- (5) a node that has caught up to an acknowledged command holds it -/
theorem C05_caught_up_node_has_it {L : List LogEntry} (n : NodeLife L) (e : LogEntry) (hc : e.isCmd = true)
    (he : e ∈ L.take n.k) : e.idx ∈ n.node.live := by
  rw [(C05_node_is_replay n).1]
  unfold replayLive
  exact List.mem_map.2 ⟨e, List.mem_filter.2 ⟨he, hc⟩, rfl⟩

/-- (6) the output a node serves: wherever a node has not compacted yet (index above its boundary `b`),
it holds the output batch of exactly the committed commands; so two nodes serve the same batches
wherever neither has compacted -/
theorem C05_nodes_serve_the_same_output {L : List LogEntry} (n₁ n₂ : NodeLife L) :
    ∃ b₁ b₂, ∀ e ∈ L.take (min n₁.k n₂.k), e.isCmd = true → b₁ < e.idx → b₂ < e.idx →
      (e.idx ∈ n₁.node.out ∧ e.idx ∈ n₂.node.out) := by
  obtain ⟨b₁, h₁, _⟩ := C02_unfolded_exact n₁.ops n₁.wf
  obtain ⟨b₂, h₂, _⟩ := C02_unfolded_exact n₂.ops n₂.wf
  have o₁ := (C02_unfolded_kept n₁.ops n₁.wf).1
  have o₂ := (C02_unfolded_kept n₂.ops n₂.wf).1
  refine ⟨b₁, b₂, fun e he hc hb₁ hb₂ => ⟨?_, ?_⟩⟩
  · refine (o₁ e.idx).2 (List.mem_map.2 ⟨e, ?_, rfl⟩)
    show e ∈ (({} : Node).run n₁.ops).irc
    rw [h₁, n₁.pre]
    refine List.mem_filter.2 ⟨(List.take_prefix_take_left (l := L) (Nat.min_le_left _ _)).subset he, ?_⟩
    simp [hc, hb₁]
  · refine (o₂ e.idx).2 (List.mem_map.2 ⟨e, ?_, rfl⟩)
    show e ∈ (({} : Node).run n₂.ops).irc
    rw [h₂, n₂.pre]
    refine List.mem_filter.2 ⟨(List.take_prefix_take_left (l := L) (Nat.min_le_right _ _)).subset he, ?_⟩
    simp [hc, hb₂]

/-- (7) and only old output is ever compacted away: a snapshot keeps every command (and its output)
that is younger than the session expiration plus the sweep interval — a live session's unread
messages are younger than that (restated from C02) -/
theorem C05_recent_output_survives_snapshots (ops : List Op) (h : WfOps ops) (n' : Node) (now : Int)
    (hs : (({} : Node).run ops).snapshot now = some n') (e : LogEntry)
    (he : e ∈ (({} : Node).run ops).irc)
    (hnew : e.ts > now - ((if (({} : Node).run ops).exp = 0 then 600000000000 else (({} : Node).run ops).exp)
              + expireSessionsInterval)) :
    e ∈ n'.irc ∧ (e.idx ∈ (({} : Node).run ops).out → e.idx ∈ n'.out) :=
  C02_recent_kept_reachable ops h n' now hs e he hnew

/-- (8) the client side (restated from C04 so that this module's audit covers it): over any number of
connections, cut anywhere, to nodes of any lag, the client has received a prefix of its stream -/
theorem C05_client_exactly_once (net : Stream.Resume.Net) (h : Stream.Resume.WfNet net) (session : Nat) (start : Nat × Nat)
    (hs : 0 < start.1) (sched : List (Bool × Nat)) :
    ∃ n, Robust.Props.C04.client net session start sched [] =
      ((Robust.Props.C04.owed net start.1 start.2).filter (Stream.Resume.interesting session)).take n :=
  Robust.Props.C04.C04_client_exactly_once net h session start hs sched

/-- regenerated from api.go: a POST is acknowledged only after raft reported the entry committed and the
FSM's response was checked — `applyMessageWait` waits on `f.Error()` itself (no goroutine, select or timer
that could let it return while the entry is still in flight: a client that is told "failed" retries, and a
retry of an entry that commits later is a duplicate), and the id is taken only afterwards -/
theorem C05_ack_after_commit :
    Robust.Gen.Exprs.fact "apply.wait" = "err := f.Error() ; err != nil ; { return err }" ∧
    Robust.Gen.Exprs.fact "apply.async" = "0" ∧
    Robust.Gen.Exprs.fact "apply.idAfterErrorCheck" = "true" := by decide

/-! non-vacuity: a three-entry log, one node that was killed and restarted after a snapshot, one that
lags behind -/
def e1 : LogEntry := ⟨1, 100, true, none⟩
def e2 : LogEntry := ⟨2, 200, true, none⟩
def e3 : LogEntry := ⟨3, 300, true, none⟩
def exL : List LogEntry := [e1, e2, e3]

def nA : NodeLife exL := ⟨[.commit e1, .commit e2, .snapshot 100000000000000, .persist, .restart, .commit e3, .restart],
  by unfold WfOps; simp [commits, e1, e2, e3], 3, by simp [commits, exL]⟩
def nB : NodeLife exL := ⟨[.commit e1, .restart, .commit e2], by unfold WfOps; simp [commits, e1, e2], 2, by simp [commits, exL]⟩

example : nB.node.live <+: nA.node.live := by
  rcases C05_same_order_everywhere nA nB with h | h
  · have h1 : nA.node.live = [1, 2, 3] := by decide
    have h2 : nB.node.live = [1, 2] := by decide
    rw [h1, h2]; decide
  · exact h
example : nA.node.live = [1, 2, 3] ∧ nB.node.live = [1, 2] := by decide

end Robust.Props.C05
