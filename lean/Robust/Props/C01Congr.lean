import Robust.Irc.Proofs.PermAll
import Robust.Irc.Proofs.PrivHistB
/-!
# C01 — replica determinism, the congruence theorem

The model keeps Go's hash maps as association lists; the list order stands for Go's unspecified
iteration order, which differs between replicas.  This file states, at the level of the property,
that **the behaviour of the model does not depend on the order of its maps**:

* `St.Equiv` (`st ≈ st'`): same scalars (`lastProcessed`, `serverName`, the network configuration),
  and every map a *permutation* of the other — `sessions` and `channels` up to the equivalence of
  their values (a session's `channels` / `invitedTo` lists, a channel's member map, are again
  permutations), `nicks`, `svsholds`, `serverSessions` plain permutations;
* `OutEq` (`o ≈ o'`): same `id`, `reply`, `data`, the recipient list a permutation (Go's
  `InterestingFor` is a set); output *lists* are compared in order (`OutsEq`), because reply ids
  are assigned in emission order;
* `C01_replicas_agree`: one committed entry applied to equivalent states gives the same kind of
  result (`ok` / `panic` / `declined`), equivalent states and equivalent output batches;
* `C01_history`: two replicas that start equivalent and apply the same log stay equivalent and
  emit, entry by entry, the same outputs up to recipient order.

The hypotheses are `GInv st` (the invariant of `Entry.lean`; only `Inv` is used) and `HoldsNodup st`:
the keys of `svsholds` are duplicate-free.  The latter is not part of `GInv`, is preserved by every
entry (`C01_replicas_agree_ok`) and is needed: with a duplicated key `get` returns the first
match, and two permutations of `[("bob", h₁), ("bob", h₂)]` answer `NICK bob` with different texts
(checked by `#eval` in the scratch file of this development).

The network configuration is compared with equality: it is replaced wholesale by a config entry
(the same value on all replicas), only read through `get` and only changed through `set` (GLINE).

Handler level (`Robust/Irc/Proofs/PermH1 … PermH7`): all 41 handlers of `handlerByName` are
congruent — 39 without any invariant (`HCongr`), `cmdServerQuit` and `cmdServerKill` (`HCongrU`)
given that a non-empty nickname has a single owner (`UniqNick`, from `Inv`) and that the prefix of
the line has a non-empty name (`MsgPfxOK`, true of every parsed line).
-/
namespace Robust.Props.C01Congr
open Robust Robust.Irc

/-! ## the equivalence -/

/-- `≈` on states is an equivalence relation -/
theorem C01_equiv_equivalence : Equivalence (fun (a b : St) => a ≈ b) := St.equiv_equivalence

/-- `≈` on output messages is an equivalence relation -/
theorem C01_out_equiv_equivalence : Equivalence (fun (a b : Out) => a ≈ b) := Out.equiv_equivalence

/-- output batches up to recipient order: an equivalence relation as well -/
theorem C01_outs_equivalence : Equivalence OutsEq := ⟨OutsEq.refl, OutsEq.symm, OutsEq.trans⟩

/-- permuting the maps of a state gives an equivalent state -/
theorem C01_perm_equiv (st : St) (ss : AMap Id Session) (ns : AMap String Id) (cs : AMap String Channel)
    (hs : AMap String SvsHold) (sv : List Nat) (h1 : st.sessions.Perm ss) (h2 : st.nicks.Perm ns)
    (h3 : st.channels.Perm cs) (h4 : st.svsholds.Perm hs) (h5 : st.serverSessions.Perm sv) :
    st ≈ { st with sessions := ss, nicks := ns, channels := cs, svsholds := hs, serverSessions := sv } :=
  ⟨PermR.of_perm (EntryRel.refl SessEq.refl) h1, h2, PermR.of_perm (EntryRel.refl Channel.Equiv.refl) h3, h4, h5,
   rfl, rfl, rfl⟩

/-- on duplicate-free maps `≈` is extensional equality of the lookups: the sessions -/
theorem C01_equiv_get_sessions {st st' : St} (hI : Inv st) (hS : HoldsNodup st) (h : st ≈ st') (id : Id) :
    ORel SessEq (AMap.get st.sessions id) (AMap.get st'.sessions id) :=
  (St.Equiv.toStEq h hI.toWInvCore hS).sessions.rel id

/-- … the nick index, the holds -/
theorem C01_equiv_get_nicks {st st' : St} (hI : Inv st) (hS : HoldsNodup st) (h : st ≈ st') (lc : String) :
    AMap.get st'.nicks lc = AMap.get st.nicks lc ∧ AMap.get st'.svsholds lc = AMap.get st.svsholds lc :=
  ⟨(St.Equiv.toStEq h hI.toWInvCore hS).get_nicks lc, (St.Equiv.toStEq h hI.toWInvCore hS).get_svsholds lc⟩

/-- the invariants transfer along `≈` -/
theorem C01_inv_transfer {st st' : St} (hI : Inv st) (hS : HoldsNodup st) (h : st ≈ st') :
    Inv st' ∧ HoldsNodup st' :=
  ⟨hI.of_equiv hS h, HoldsNodup.of_stEq (St.Equiv.toStEq h hI.toWInvCore hS)⟩

theorem C01_ginv_transfer {st st' : St} (hG : GInv st) (hS : HoldsNodup st) (h : st ≈ st') : GInv st' :=
  hG.of_equiv hS h

/-! ## handlers -/

/-- every handler of the command table is congruent: on equivalent contexts (equivalent states,
same `msgid` / `replyid`, equivalent outputs so far) it gives the same kind of result and, when
it returns, equivalent contexts -/
theorem C01_handlers_congr (fname : String) (h : Handler) (hh : handlerByName fname = some h)
    (c c' : Ctx) (sid : Id) (m : IrcMsg) (hu : UniqNick c.st) (hm : MsgPfxOK m) (hc : CEq c c') :
    RRel CEq (h c sid m) (h c' sid m) :=
  allHandlersCongr fname h hh c c' sid m hu hm hc

/-- the handlers that need no side condition at all (39 of the 41) -/
theorem C01_handlers_congr_plain :
    HCongr cmdAway ∧ HCongr cmdServiceAlias ∧ HCongr cmdGline ∧ HCongr cmdInvite ∧ HCongr cmdIson ∧
    HCongr cmdJoin ∧ HCongr cmdKick ∧ HCongr cmdKill ∧ HCongr cmdKnock ∧ HCongr cmdList ∧ HCongr cmdMode ∧
    HCongr cmdMotd ∧ HCongr cmdNames ∧ HCongr cmdNick ∧ HCongr cmdOper ∧ HCongr cmdPart ∧ HCongr cmdPass ∧
    HCongr cmdPing ∧ HCongr cmdPrivmsg ∧ HCongr cmdQuit ∧ HCongr cmdServer ∧ HCongr cmdTopic ∧ HCongr cmdUser ∧
    HCongr cmdUserhost ∧ HCongr cmdWho ∧ HCongr cmdWhois ∧
    HCongr cmdServerInvite ∧ HCongr cmdServerJoin ∧ HCongr cmdServerKick ∧ HCongr cmdServerMode ∧
    HCongr cmdServerNick ∧ HCongr cmdServerPrivmsg ∧ HCongr cmdServerPart ∧ HCongr cmdServerSvshold ∧
    HCongr cmdServerSvsjoin ∧ HCongr cmdServerSvsmode ∧ HCongr cmdServerSvsnick ∧ HCongr cmdServerSvspart ∧
    HCongr cmdServerTopic :=
  ⟨cmdAway_congr, cmdServiceAlias_congr, cmdGline_congr, cmdInvite_congr, cmdIson_congr, cmdJoin_congr,
   cmdKick_congr, cmdKill_congr, cmdKnock_congr, cmdList_congr, cmdMode_congr, cmdMotd_congr, cmdNames_congr,
   cmdNick_congr, cmdOper_congr, cmdPart_congr, cmdPass_congr, cmdPing_congr, cmdPrivmsg_congr, cmdQuit_congr,
   cmdServer_congr, cmdTopic_congr, cmdUser_congr, cmdUserhost_congr, cmdWho_congr, cmdWhois_congr,
   cmdServerInvite_congr, cmdServerJoin_congr, cmdServerKick_congr, cmdServerMode_congr, cmdServerNick_congr,
   cmdServerPrivmsg_congr, cmdServerPart_congr, cmdServerSvshold_congr, cmdServerSvsjoin_congr,
   cmdServerSvsmode_congr, cmdServerSvsnick_congr, cmdServerSvspart_congr, cmdServerTopic_congr⟩

/-- … and the two that search the sessions with an early exit -/
theorem C01_handlers_congr_uniq : HCongrU cmdServerQuit ∧ HCongrU cmdServerKill :=
  ⟨cmdServerQuit_congr, cmdServerKill_congr⟩

/-! ## one entry -/

/-- results of `applyEntry` up to the order of the maps and of the recipients -/
def EntryResEquiv (r r' : St × List Out) : Prop := r.1 ≈ r'.1 ∧ OutsEq r.2 r'.2

/-- **replicas agree**: one committed entry, applied to equivalent states, gives the same kind of
result, equivalent states, and the same output batch (ids, bytes, order) up to recipient order -/
theorem C01_replicas_agree (st st' : St) (e : Entry) (hG : GInv st) (hS : HoldsNodup st) (h : st ≈ st') :
    RRel EntryResEquiv (applyEntry st e) (applyEntry st' e) :=
  (applyEntry_congr allHandlersCongr hG.inv (St.Equiv.toStEq h hG.inv.toWInvCore hS) e).mono
    (fun _ _ hr => ⟨hr.1.toEquiv, hr.2⟩)

/-- the same, using only `Inv` -/
theorem C01_replicas_agree_inv (st st' : St) (e : Entry) (hI : Inv st) (hS : HoldsNodup st) (h : st ≈ st') :
    RRel EntryResEquiv (applyEntry st e) (applyEntry st' e) :=
  (applyEntry_congr allHandlersCongr hI (St.Equiv.toStEq h hI.toWInvCore hS) e).mono
    (fun _ _ hr => ⟨hr.1.toEquiv, hr.2⟩)

/-- the `ok` case spelled out; the side condition on the holds is preserved -/
theorem C01_replicas_agree_ok (st st' st1 : St) (e : Entry) (out : List Out) (hG : GInv st) (hS : HoldsNodup st)
    (h : st ≈ st') (hr : applyEntry st e = .ok (st1, out)) :
    ∃ st1' out', applyEntry st' e = .ok (st1', out') ∧ st1 ≈ st1' ∧ OutsEq out out' ∧
      HoldsNodup st1 ∧ HoldsNodup st1' := by
  have ha := applyEntry_congr allHandlersCongr hG.inv (St.Equiv.toStEq h hG.inv.toWInvCore hS) e
  rw [hr] at ha
  obtain ⟨r', hr', hs, ho⟩ := ha.of_ok
  exact ⟨r'.1, r'.2, hr', hs.toEquiv, ho, hs.svsholds.nd, hs.svsholds.nd'⟩

/-- the two replicas panic together (with possibly different sites) and decline together -/
theorem C01_replicas_agree_fail (st st' : St) (e : Entry) (hG : GInv st) (hS : HoldsNodup st) (h : st ≈ st') :
    ((∃ s, applyEntry st e = .panic s) ↔ ∃ s, applyEntry st' e = .panic s) ∧
    ((∃ s, applyEntry st e = .declined s) ↔ ∃ s, applyEntry st' e = .declined s) := by
  have ha := C01_replicas_agree st st' e hG hS h
  generalize applyEntry st e = x at ha
  generalize applyEntry st' e = y at ha
  cases ha <;> simp

/-! ## histories -/

/-- results of a history up to the order of the maps and of the recipients -/
def RunResEquiv (r r' : St × List (List Out)) : Prop := r.1 ≈ r'.1 ∧ All2 OutsEq r.2 r'.2

/-- **history version**: two replicas that start in equivalent states and apply the same log
(`runOut`: `runEntries` keeping the output batch of every entry) stay equivalent and emit, entry by
entry, the same output lists up to recipient order; they also fail together.
`OkHistory`: every entry is one the system can produce (`EntryOk`, as in `applyEntry_preserves`). -/
theorem C01_history (st st' : St) (es : List Entry) (hG : GInv st) (hS : HoldsNodup st) (h : st ≈ st')
    (hw : OkHistory st es) : RRel RunResEquiv (runOut st es) (runOut st' es) :=
  (runOut_congr allHandlersCongr hG (St.Equiv.toStEq h hG.inv.toWInvCore hS) es hw).mono
    (fun _ _ hr => ⟨hr.1.toEquiv, hr.2⟩)

/-- the same for the well-formed histories of `Entry.lean` -/
theorem C01_history_wf (st st' : St) (es : List Entry) (hG : GInv st) (hS : HoldsNodup st) (h : st ≈ st')
    (hw : WfHistory st es) : RRel RunResEquiv (runOut st es) (runOut st' es) :=
  C01_history st st' es hG hS h hw.ok

/-- `runOut` is `runEntries` with the outputs kept -/
theorem C01_runOut_runEntries (st : St) (es : List Entry) :
    RRel (fun (r : St × List (List Out)) (s : St) => r.1 = s) (runOut st es) (runEntries st es) :=
  runOut_fst st es

/-- the final states of the two replicas (`runEntries`) are equivalent -/
theorem C01_history_states (st st' st1 : St) (es : List Entry) (hG : GInv st) (hS : HoldsNodup st) (h : st ≈ st')
    (hw : OkHistory st es) (hr : runEntries st es = .ok st1) : ∃ st1', runEntries st' es = .ok st1' ∧ st1 ≈ st1' := by
  have h1 := runOut_fst st es
  have h2 := runOut_fst st' es
  have h3 := C01_history st st' es hG hS h hw
  rw [hr] at h1
  obtain ⟨r, hr1, e1⟩ := h1.of_ok'
  rw [hr1] at h3
  obtain ⟨r', hr2, hrr⟩ := h3.of_ok
  rw [hr2] at h2
  obtain ⟨s2, hs2, e2⟩ := h2.of_ok
  exact ⟨s2, hs2, by rw [← e1, ← e2]; exact hrr.1⟩

/-- the initial state satisfies the hypotheses -/
theorem C01_init : GInv ({} : St) ∧ HoldsNodup ({} : St) := ⟨GInv_init, List.nodup_nil⟩

/-! ## non-vacuity

Every theorem above that has hypotheses is instantiated on concrete data on which all its hypotheses hold together.

* `Ex.stR` is the state reached from the initial state by the history `Ex.es0` (`Ex.run0`, by evaluation): a Config
  entry, a services link (session 2) with the pseudo-client `ChanServ`, the registered clients alice (chanop of `#c`
  and `#d`) and bob, `ChanServ` on `#c` as well, and a connection (16) that has not chosen a nickname; `GInv` from
  `run_preserves` (`Ex.ginvR`).
* `Ex.stH` is `stR` with two SVSHOLDs (so that `HoldsNodup` says something): the line `SVSHOLD nick 60 :reason` itself
  goes through `String.toNat?`, which the kernel does not evaluate, and `svsholds` is not mentioned by `GInv`
  (`Ex.GInv_svsholds`).
* `Ex.stH'` is the other replica: *every* map of `stH` in reverse order, the inner ones (a session's channels, a
  channel's members) included; `stH ≠ stH'` as terms, `stH ≈ stH'` (`Ex.equivH`, using `C01_perm_equiv`). -/
namespace Ex
local instance (cmd : String) (n : Nat) : Decidable (ParamsOK cmd n) := by unfold ParamsOK; exact inferInstance

/-- `Conforming` as a Boolean, the lines of services links included -/
def confB (st : St) (e : Entry) : Bool :=
  !(e.type == 2) || (match AMap.get st.sessions e.session with
    | some s => !s.server || (match parseMessage e.data with
        | some m => m.pfx.isSome && decide (ParamsOK (toUpper m.command) m.params.length)
        | none => true)
    | none => true)

theorem conf_of_B {st : St} {e : Entry} (h : confB st e = true) : Conforming st e := by
  intro ht s m hs hsv hm
  unfold confB at h
  simpa [ht, hs, hsv, hm] using h

/-- `WfHistory` as a Boolean -/
def wfB (st : St) : List Entry → Bool
  | [] => true
  | e :: es => entryOkB st e && confB st e && (match applyEntry st e with
    | .ok (st', _) => wfB st' es
    | _ => true)

theorem wf_of_B : ∀ {es : List Entry} {st : St}, wfB st es = true → WfHistory st es
  | [], _, _ => trivial
  | e :: es, st, h => by
    unfold wfB at h
    simp only [Bool.and_eq_true] at h
    refine ⟨entryOk_of_B h.1.1, conf_of_B h.1.2, fun st' out hap => ?_⟩
    have h2 := h.2
    rw [hap] at h2
    exact wf_of_B h2

theorem runOk_of_isSome {st : St} {es : List Entry} (h : (runOk st es).isSome = true) :
    runOk st es = some ((runOk st es).getD {}) := by
  cases h' : runOk st es with
  | none => rw [h'] at h; cases h
  | some x => rfl

def entryOk (r : Res (St × List Out)) : Bool :=
  match r with
  | .ok _ => true
  | _ => false
def entrySt (r : Res (St × List Out)) : St :=
  match r with
  | .ok p => p.1
  | _ => {}
def entryOut (r : Res (St × List Out)) : List Out :=
  match r with
  | .ok p => p.2
  | _ => []
theorem eq_of_entryOk {r : Res (St × List Out)} (h : entryOk r = true) : r = .ok (entrySt r, entryOut r) := by
  cases r with
  | ok p => rfl
  | panic x => cases h
  | declined x => cases h
def declinedWhy {α : Type} (r : Res α) : Option String :=
  match r with
  | .declined w => some w
  | _ => none
theorem declined_of {α : Type} {r : Res α} {w : String} (h : declinedWhy r = some w) : r = .declined w := by
  cases r with
  | declined x => simp only [declinedWhy, Option.some.injEq] at h; rw [h]
  | ok p => cases h
  | panic x => cases h
/-- the recipient lists of a handler that returns -/
def rcpts (r : Res Ctx) : Option (List (List Nat)) :=
  match r with
  | .ok c => some (c.out.map Out.rcpt)
  | _ => none

def mk (ty id : Nat) (sess : Id) (data : String) : Entry :=
  { type := ty, id := id, session := sess, data := data, unixNano := 0, cmid := id, rev := 0, remoteAddr := "", cfg := none }
def cfg : Config := { services := ["sekrit"], maxChannels := 2, maxSessions := 6 }
def eCfg : Entry :=
  { type := 6, id := 1, session := ⟨0, 0⟩, data := "", unixNano := 0, cmid := 0, rev := 1, remoteAddr := "", cfg := some cfg }
/-- the configuration; a services link connects and introduces `ChanServ`; alice registers and creates `#c`; bob
registers and joins; `ChanServ` joins; alice creates `#d`; a further connection is opened -/
def es0 : List Entry := [
  eCfg,
  mk 0 2 ⟨0, 0⟩ "auth-s", mk 2 3 ⟨2, 0⟩ "PASS services=sekrit", mk 2 4 ⟨2, 0⟩ "SERVER services.x 1",
  mk 2 5 ⟨2, 0⟩ ":services.x NICK ChanServ 1 1 services localhost services.x 0 :Channel Services",
  mk 0 6 ⟨0, 0⟩ "auth-a", mk 2 7 ⟨6, 0⟩ "NICK alice", mk 2 8 ⟨6, 0⟩ "USER a 0 * :Alice", mk 2 9 ⟨6, 0⟩ "JOIN #c",
  mk 0 10 ⟨0, 0⟩ "auth-b", mk 2 11 ⟨10, 0⟩ "NICK bob", mk 2 12 ⟨10, 0⟩ "USER b 0 * :Bob", mk 2 13 ⟨10, 0⟩ "JOIN #c",
  mk 2 14 ⟨2, 0⟩ ":ChanServ JOIN #c", mk 2 15 ⟨6, 0⟩ "JOIN #d",
  mk 0 16 ⟨0, 0⟩ "auth-d"]
/-- the pseudo-client's id: the link's id and the FNV hash of the nick -/
def csId : Id := ⟨2, 893999252474884769⟩
def linkS : Session := { id := ⟨2, 0⟩, auth := "auth-s", lastActivity := 14, lastNonPing := 14, created := 2, svid := "0", pass := "services=sekrit", server := true, lastClientMessageId := 14, ircPrefix := ⟨"services.x", "", ""⟩ }
def chanServS : Session := { id := csId, nick := "ChanServ", username := "services", realname := "Channel Services", channels := ["#c"], lastActivity := 5, lastNonPing := 5, created := 5, svid := "0", ircPrefix := ⟨"ChanServ", "services", "robust/0x2"⟩ }
def aliceS : Session := { id := ⟨6, 0⟩, auth := "auth-a", loggedIn := true, nick := "alice", username := "a", realname := "Alice", channels := ["#c", "#d"], lastActivity := 15, lastNonPing := 15, created := 6, svid := "0", lastClientMessageId := 15, ircPrefix := ⟨"alice", "a", "robust/0x6"⟩ }
def bobS : Session := { id := ⟨10, 0⟩, auth := "auth-b", loggedIn := true, nick := "bob", username := "b", realname := "Bob", channels := ["#c"], lastActivity := 13, lastNonPing := 13, created := 10, svid := "0", lastClientMessageId := 13, ircPrefix := ⟨"bob", "b", "robust/0xa"⟩ }
def daveS : Session := { id := ⟨16, 0⟩, auth := "auth-d", lastActivity := 16, lastNonPing := 16, created := 16, svid := "0" }
/-- the state reached from the initial state by `es0` (`run0` below) -/
def stR : St :=
  { sessions := [(⟨2, 0⟩, linkS), (csId, chanServS), (⟨6, 0⟩, aliceS), (⟨10, 0⟩, bobS), (⟨16, 0⟩, daveS)]
    nicks := [("chanserv", csId), ("alice", ⟨6, 0⟩), ("bob", ⟨10, 0⟩)]
    channels := [("#c", { name := "#c", nicks := [("alice", { chanop := true }), ("bob", {}), ("chanserv", {})], modes := ['n', 't'] }),
                 ("#d", { name := "#d", nicks := [("alice", { chanop := true })], modes := ['n', 't'] })]
    serverSessions := [2]
    lastProcessed := ⟨6, 0⟩
    config := { cfg with revision := 1 } }
theorem run0 : runOk {} es0 = some stR := by decide +kernel
theorem wf0 : wfB {} es0 = true := by decide +kernel
/-- `stR` is reachable, hence satisfies the full invariant -/
theorem ginvR : GInv stR := run_preserves GInv_init (wf_of_B wf0) (runOk_some run0)

theorem GInv_svsholds {st : St} (x : AMap String SvsHold) (h : GInv st) : GInv { st with svsholds := x } :=
  ⟨(Inv_svsholds _ x).2 h.inv, h.linv, h.ninv, h.vinv⟩
/-- `stR` after `SVSHOLD mallory 60 :held` and `SVSHOLD eve 0 :gone` of the services link -/
def stH : St := { stR with svsholds := [("mallory", ⟨15, 60000000000, "held"⟩), ("eve", ⟨15, 0, "gone"⟩)] }
theorem ginvH : GInv stH := GInv_svsholds _ ginvR
theorem holdsH : HoldsNodup stH := by unfold HoldsNodup; decide +kernel

theorem all2_map {α : Type} {R : α → α → Prop} {f : α → α} (hf : ∀ a, R a (f a)) : ∀ l : List α, All2 R l (l.map f)
  | [] => .nil
  | a :: l => .cons (hf a) (all2_map hf l)

def revS (s : Session) : Session := { s with channels := s.channels.reverse, invitedTo := s.invitedTo.reverse }
def revC (c : Channel) : Channel := { c with nicks := c.nicks.reverse }
/-- the inner maps reversed: every session's channel list, every channel's member map -/
def stI : St :=
  { stH with sessions := stH.sessions.map (fun e => (e.1, revS e.2)), channels := stH.channels.map (fun e => (e.1, revC e.2)) }
theorem equivI : stH ≈ stI :=
  ⟨PermR.of_all2 (all2_map (f := fun e => (e.1, revS e.2))
      (fun _ => ⟨rfl, ⟨rfl, (List.reverse_perm _).symm, (List.reverse_perm _).symm⟩⟩) stH.sessions),
   List.Perm.refl _,
   PermR.of_all2 (all2_map (f := fun e => (e.1, revC e.2)) (fun _ => ⟨rfl, ⟨rfl, (List.reverse_perm _).symm⟩⟩) stH.channels),
   List.Perm.refl _, List.Perm.refl _, rfl, rfl, rfl⟩
/-- … and the five outer maps reversed as well: the other replica -/
def stH' : St :=
  { stI with sessions := stI.sessions.reverse, nicks := stI.nicks.reverse, channels := stI.channels.reverse,
             svsholds := stI.svsholds.reverse, serverSessions := stI.serverSessions.reverse }
/-- `C01_perm_equiv` on the five reversed maps (composed with the reversal of the inner maps) -/
theorem equivH : stH ≈ stH' :=
  C01_equiv_equivalence.trans equivI
    (C01_perm_equiv stI _ _ _ _ _ (List.reverse_perm _).symm (List.reverse_perm _).symm (List.reverse_perm _).symm
      (List.reverse_perm _).symm (List.reverse_perm _).symm)

def cH : Ctx := { st := stH, msgid := 20 }
def cH' : Ctx := { st := stH', msgid := 20 }
theorem ceqH : CEq cH cH' := ⟨St.Equiv.toStEq equivH ginvH.inv.toWInvCore holdsH, rfl, rfl, .nil⟩
/-- bob to `#c` -/
def mPriv : IrcMsg := ⟨none, "PRIVMSG", ["#c", "hello"]⟩
/-- `:ChanServ QUIT :bye` of the services link: the early-exit search for the owner of the nick -/
def mSQuit : IrcMsg := ⟨some ⟨"ChanServ", "", ""⟩, "QUIT", ["bye"]⟩
def ePriv : Entry := mk 2 21 ⟨10, 0⟩ "PRIVMSG #c :hello"
/-- a services line that the model declines to follow -/
def eDecl : Entry := mk 2 21 ⟨2, 0⟩ ":services.x SVSHOLD eve soon"
def stP : St := entrySt (applyEntry stH ePriv)
def outP : List Out := entryOut (applyEntry stH ePriv)
theorem applyP : applyEntry stH ePriv = .ok (stP, outP) := eq_of_entryOk (by decide +kernel)
/-- bob talks; the new connection tries the held nick `mallory` (refused, the text comes from the hold) and then `eve`
(the hold has expired and is removed); alice renames herself (re-keying `#c` and `#d`); bob leaves `#c`; `ChanServ`
talks to bob; alice's session is deleted (which deletes `#d`) -/
def es1 : List Entry := [
  ePriv, mk 2 22 ⟨16, 0⟩ "NICK mallory", mk 2 23 ⟨16, 0⟩ "NICK eve", mk 2 24 ⟨6, 0⟩ "NICK alicia", mk 2 25 ⟨10, 0⟩ "PART #c",
  mk 2 26 ⟨2, 0⟩ ":ChanServ PRIVMSG bob :registered", mk 1 27 ⟨6, 0⟩ "gone"]
def stEnd : St := (runOk stH es1).getD {}
theorem run1 : runOk stH es1 = some stEnd := runOk_of_isSome (by decide +kernel)
theorem wf1 : wfB stH es1 = true := by decide +kernel
attribute [irreducible] stP outP stEnd
end Ex
open Ex

/-- the two replicas are different terms … -/
example : stH ≠ stH' := by decide +kernel
/-- … `C01_equiv_get_sessions`: alice's session is the same up to the order of her channel list -/
example : ORel SessEq (AMap.get stH.sessions ⟨6, 0⟩) (AMap.get stH'.sessions ⟨6, 0⟩) :=
  C01_equiv_get_sessions ginvH.inv holdsH equivH ⟨6, 0⟩
example : (AMap.get stH.sessions ⟨6, 0⟩).map (·.channels) = some ["#c", "#d"] ∧
    (AMap.get stH'.sessions ⟨6, 0⟩).map (·.channels) = some ["#d", "#c"] := by decide +kernel
/-- `C01_equiv_get_nicks` on an indexed nick and on a held one -/
example : AMap.get stH'.nicks "bob" = AMap.get stH.nicks "bob" ∧ AMap.get stH'.svsholds "bob" = AMap.get stH.svsholds "bob" :=
  C01_equiv_get_nicks ginvH.inv holdsH equivH "bob"
example : AMap.get stH'.svsholds "mallory" = AMap.get stH.svsholds "mallory" :=
  (C01_equiv_get_nicks ginvH.inv holdsH equivH "mallory").2
example : AMap.get stH'.nicks "bob" = some ⟨10, 0⟩ ∧ (AMap.get stH'.svsholds "mallory").map (·.reason) = some "held" := by
  decide +kernel
/-- `C01_inv_transfer`, `C01_ginv_transfer` -/
example : Inv stH' ∧ HoldsNodup stH' := C01_inv_transfer ginvH.inv holdsH equivH
example : GInv stH' := C01_ginv_transfer ginvH holdsH equivH

/-- `C01_handlers_congr` on a handler without side condition: bob's PRIVMSG to `#c` returns on both replicas, the
recipients (alice, the link of `ChanServ`) come in the two orders -/
example : RRel CEq (cmdPrivmsg cH ⟨10, 0⟩ mPriv) (cmdPrivmsg cH' ⟨10, 0⟩ mPriv) :=
  C01_handlers_congr "cmdPrivmsg" cmdPrivmsg rfl cH cH' ⟨10, 0⟩ mPriv (UniqNick.of_inv ginvH.inv) (fun _ h => by cases h) ceqH
example : rcpts (cmdPrivmsg cH ⟨10, 0⟩ mPriv) = some [[6, 2]] ∧ rcpts (cmdPrivmsg cH' ⟨10, 0⟩ mPriv) = some [[2, 6]] := by
  decide +kernel
/-- … and on one of the two handlers that need `UniqNick` and `MsgPfxOK` (a present prefix with a non-empty name):
the services `QUIT` of `ChanServ` finds the same owner in both iteration orders of the sessions -/
example : RRel CEq (cmdServerQuit cH ⟨2, 0⟩ mSQuit) (cmdServerQuit cH' ⟨2, 0⟩ mSQuit) :=
  C01_handlers_congr "cmdServerQuit" cmdServerQuit rfl cH cH' ⟨2, 0⟩ mSQuit (UniqNick.of_inv ginvH.inv)
    (fun p h => by cases h; decide) ceqH
example : rcpts (cmdServerQuit cH ⟨2, 0⟩ mSQuit) = some [[6, 10, 2]] ∧
    rcpts (cmdServerQuit cH' ⟨2, 0⟩ mSQuit) = some [[2, 10, 6]] := by decide +kernel

/-- `C01_replicas_agree`, `C01_replicas_agree_inv`, `C01_replicas_agree_ok` on bob's committed PRIVMSG: it applies
(`Ex.applyP`), and the one output message is addressed to `[6, 2]` on one replica and to `[2, 6]` on the other -/
example : RRel EntryResEquiv (applyEntry stH ePriv) (applyEntry stH' ePriv) :=
  C01_replicas_agree stH stH' ePriv ginvH holdsH equivH
example : RRel EntryResEquiv (applyEntry stH ePriv) (applyEntry stH' ePriv) :=
  C01_replicas_agree_inv stH stH' ePriv ginvH.inv holdsH equivH
example : ∃ st1' out', applyEntry stH' ePriv = .ok (st1', out') ∧ stP ≈ st1' ∧ OutsEq outP out' ∧
    HoldsNodup stP ∧ HoldsNodup st1' :=
  C01_replicas_agree_ok stH stH' stP ePriv outP ginvH holdsH equivH applyP
example : (entryOut (applyEntry stH ePriv)).map Out.rcpt = [[6, 2]] ∧
    (entryOut (applyEntry stH' ePriv)).map Out.rcpt = [[2, 6]] := by decide +kernel
/-- `C01_replicas_agree_fail`: a line that is declined on one replica (by evaluation) is declined on the other -/
example : ∃ s, applyEntry stH' eDecl = .declined s :=
  (C01_replicas_agree_fail stH stH' eDecl ginvH holdsH equivH).2.1
    ⟨_, declined_of (w := "time.ParseDuration on a non-decimal input") (by decide +kernel)⟩

/-- `C01_history`, `C01_history_wf`, `C01_history_states` on the seven entries of `Ex.es1`, which run through
(`Ex.run1`) and are well-formed (`Ex.wf1`) -/
example : RRel RunResEquiv (runOut stH es1) (runOut stH' es1) :=
  C01_history stH stH' es1 ginvH holdsH equivH (wf_of_B wf1).ok
example : RRel RunResEquiv (runOut stH es1) (runOut stH' es1) :=
  C01_history_wf stH stH' es1 ginvH holdsH equivH (wf_of_B wf1)
example : ∃ st1', runEntries stH' es1 = .ok st1' ∧ stEnd ≈ st1' :=
  C01_history_states stH stH' stEnd es1 ginvH holdsH equivH (wf_of_B wf1).ok (runOk_some run1)
/-- the other replica at the end: alice and `#d` are gone, the new connection is `eve`, the expired hold was consumed -/
example : (runOk stH' es1).map (fun st => (AMap.keys st.nicks, AMap.keys st.channels, AMap.keys st.svsholds)) =
    some (["bob", "chanserv", "eve"], ["#c"], ["mallory"]) := by decide +kernel

end Robust.Props.C01Congr
