import Robust.Irc.Proofs.PermAll
/-!
# C01 — replica determinism, the congruence theorem

The model keeps Go's hash maps as association lists; the list order stands for Go's unspecified
iteration order, which differs between replicas.  This file states, at the level of the property,
that **the behaviour of the model does not depend on the order of its maps**:

* `St.Equiv` (`st ≈ st'`): same scalars (`lastProcessed`, `serverName`, the network configuration),
  and every map a *permutation* of the other — `sessions` and `channels` up to the equivalence of
  their values (a session's `channels` / `invitedTo` lists, a channel's member map, are again
  permutations), `nicks`, `svsholds`, `serverSessions` plain permutations;
* `OutEq` (`o ≈ o'`): same `id`, `reply`, `data`, the recipient list a permutation (Go's
  `InterestingFor` is a set); output *lists* are compared in order (`OutsEq`), because reply ids
  are assigned in emission order;
* `C01_replicas_agree`: one committed entry applied to equivalent states gives the same kind of
  result (`ok` / `panic` / `declined`), equivalent states and equivalent output batches;
* `C01_history`: two replicas that start equivalent and apply the same log stay equivalent and
  emit, entry by entry, the same outputs up to recipient order.

The hypotheses are `GInv st` (the invariant of `Entry.lean`; only `Inv` is used) and `HoldsNodup st`:
the keys of `svsholds` are duplicate-free.  The latter is not part of `GInv`, is preserved by every
entry (`C01_replicas_agree_ok`) and is needed: with a duplicated key `get` returns the first
match, and two permutations of `[("bob", h₁), ("bob", h₂)]` answer `NICK bob` with different texts
(checked by `#eval` in the scratch file of this development).

The network configuration is compared with equality: it is replaced wholesale by a config entry
(the same value on all replicas), only read through `get` and only changed through `set` (GLINE).

Handler level (`Robust/Irc/Proofs/PermH1 … PermH7`): all 41 handlers of `handlerByName` are
congruent — 39 without any invariant (`HCongr`), `cmdServerQuit` and `cmdServerKill` (`HCongrU`)
given that a non-empty nickname has a single owner (`UniqNick`, from `Inv`) and that the prefix of
the line has a non-empty name (`MsgPfxOK`, true of every parsed line).
-/
namespace Robust.Props.C01Congr
open Robust Robust.Irc

/-! ## the equivalence -/

/-- `≈` on states is an equivalence relation -/
theorem C01_equiv_equivalence : Equivalence (fun (a b : St) => a ≈ b) := St.equiv_equivalence

/-- `≈` on output messages is an equivalence relation -/
theorem C01_out_equiv_equivalence : Equivalence (fun (a b : Out) => a ≈ b) := Out.equiv_equivalence

/-- output batches up to recipient order: an equivalence relation as well -/
theorem C01_outs_equivalence : Equivalence OutsEq := ⟨OutsEq.refl, OutsEq.symm, OutsEq.trans⟩

/-- permuting the maps of a state gives an equivalent state -/
theorem C01_perm_equiv (st : St) (ss : AMap Id Session) (ns : AMap String Id) (cs : AMap String Channel)
    (hs : AMap String SvsHold) (sv : List Nat) (h1 : st.sessions.Perm ss) (h2 : st.nicks.Perm ns)
    (h3 : st.channels.Perm cs) (h4 : st.svsholds.Perm hs) (h5 : st.serverSessions.Perm sv) :
    st ≈ { st with sessions := ss, nicks := ns, channels := cs, svsholds := hs, serverSessions := sv } :=
  ⟨PermR.of_perm (EntryRel.refl SessEq.refl) h1, h2, PermR.of_perm (EntryRel.refl Channel.Equiv.refl) h3, h4, h5,
   rfl, rfl, rfl⟩

/-- on duplicate-free maps `≈` is extensional equality of the lookups: the sessions -/
theorem C01_equiv_get_sessions {st st' : St} (hI : Inv st) (hS : HoldsNodup st) (h : st ≈ st') (id : Id) :
    ORel SessEq (AMap.get st.sessions id) (AMap.get st'.sessions id) :=
  (St.Equiv.toStEq h hI.toWInvCore hS).sessions.rel id

/-- … the nick index, the holds -/
theorem C01_equiv_get_nicks {st st' : St} (hI : Inv st) (hS : HoldsNodup st) (h : st ≈ st') (lc : String) :
    AMap.get st'.nicks lc = AMap.get st.nicks lc ∧ AMap.get st'.svsholds lc = AMap.get st.svsholds lc :=
  ⟨(St.Equiv.toStEq h hI.toWInvCore hS).get_nicks lc, (St.Equiv.toStEq h hI.toWInvCore hS).get_svsholds lc⟩

/-- the invariants transfer along `≈` -/
theorem C01_inv_transfer {st st' : St} (hI : Inv st) (hS : HoldsNodup st) (h : st ≈ st') :
    Inv st' ∧ HoldsNodup st' :=
  ⟨hI.of_equiv hS h, HoldsNodup.of_stEq (St.Equiv.toStEq h hI.toWInvCore hS)⟩

theorem C01_ginv_transfer {st st' : St} (hG : GInv st) (hS : HoldsNodup st) (h : st ≈ st') : GInv st' :=
  hG.of_equiv hS h

/-! ## handlers -/

/-- every handler of the command table is congruent: on equivalent contexts (equivalent states,
same `msgid` / `replyid`, equivalent outputs so far) it gives the same kind of result and, when
it returns, equivalent contexts -/
theorem C01_handlers_congr (fname : String) (h : Handler) (hh : handlerByName fname = some h)
    (c c' : Ctx) (sid : Id) (m : IrcMsg) (hu : UniqNick c.st) (hm : MsgPfxOK m) (hc : CEq c c') :
    RRel CEq (h c sid m) (h c' sid m) :=
  allHandlersCongr fname h hh c c' sid m hu hm hc

/-- the handlers that need no side condition at all (39 of the 41) -/
theorem C01_handlers_congr_plain :
    HCongr cmdAway ∧ HCongr cmdServiceAlias ∧ HCongr cmdGline ∧ HCongr cmdInvite ∧ HCongr cmdIson ∧
    HCongr cmdJoin ∧ HCongr cmdKick ∧ HCongr cmdKill ∧ HCongr cmdKnock ∧ HCongr cmdList ∧ HCongr cmdMode ∧
    HCongr cmdMotd ∧ HCongr cmdNames ∧ HCongr cmdNick ∧ HCongr cmdOper ∧ HCongr cmdPart ∧ HCongr cmdPass ∧
    HCongr cmdPing ∧ HCongr cmdPrivmsg ∧ HCongr cmdQuit ∧ HCongr cmdServer ∧ HCongr cmdTopic ∧ HCongr cmdUser ∧
    HCongr cmdUserhost ∧ HCongr cmdWho ∧ HCongr cmdWhois ∧
    HCongr cmdServerInvite ∧ HCongr cmdServerJoin ∧ HCongr cmdServerKick ∧ HCongr cmdServerMode ∧
    HCongr cmdServerNick ∧ HCongr cmdServerPrivmsg ∧ HCongr cmdServerPart ∧ HCongr cmdServerSvshold ∧
    HCongr cmdServerSvsjoin ∧ HCongr cmdServerSvsmode ∧ HCongr cmdServerSvsnick ∧ HCongr cmdServerSvspart ∧
    HCongr cmdServerTopic :=
  ⟨cmdAway_congr, cmdServiceAlias_congr, cmdGline_congr, cmdInvite_congr, cmdIson_congr, cmdJoin_congr,
   cmdKick_congr, cmdKill_congr, cmdKnock_congr, cmdList_congr, cmdMode_congr, cmdMotd_congr, cmdNames_congr,
   cmdNick_congr, cmdOper_congr, cmdPart_congr, cmdPass_congr, cmdPing_congr, cmdPrivmsg_congr, cmdQuit_congr,
   cmdServer_congr, cmdTopic_congr, cmdUser_congr, cmdUserhost_congr, cmdWho_congr, cmdWhois_congr,
   cmdServerInvite_congr, cmdServerJoin_congr, cmdServerKick_congr, cmdServerMode_congr, cmdServerNick_congr,
   cmdServerPrivmsg_congr, cmdServerPart_congr, cmdServerSvshold_congr, cmdServerSvsjoin_congr,
   cmdServerSvsmode_congr, cmdServerSvsnick_congr, cmdServerSvspart_congr, cmdServerTopic_congr⟩

/-- … and the two that search the sessions with an early exit -/
theorem C01_handlers_congr_uniq : HCongrU cmdServerQuit ∧ HCongrU cmdServerKill :=
  ⟨cmdServerQuit_congr, cmdServerKill_congr⟩

/-! ## one entry -/

/-- results of `applyEntry` up to the order of the maps and of the recipients -/
def EntryResEquiv (r r' : St × List Out) : Prop := r.1 ≈ r'.1 ∧ OutsEq r.2 r'.2

/-- **replicas agree**: one committed entry, applied to equivalent states, gives the same kind of
result, equivalent states, and the same output batch (ids, bytes, order) up to recipient order -/
theorem C01_replicas_agree (st st' : St) (e : Entry) (hG : GInv st) (hS : HoldsNodup st) (h : st ≈ st') :
    RRel EntryResEquiv (applyEntry st e) (applyEntry st' e) :=
  (applyEntry_congr allHandlersCongr hG.inv (St.Equiv.toStEq h hG.inv.toWInvCore hS) e).mono
    (fun _ _ hr => ⟨hr.1.toEquiv, hr.2⟩)

/-- the same, using only `Inv` -/
theorem C01_replicas_agree_inv (st st' : St) (e : Entry) (hI : Inv st) (hS : HoldsNodup st) (h : st ≈ st') :
    RRel EntryResEquiv (applyEntry st e) (applyEntry st' e) :=
  (applyEntry_congr allHandlersCongr hI (St.Equiv.toStEq h hI.toWInvCore hS) e).mono
    (fun _ _ hr => ⟨hr.1.toEquiv, hr.2⟩)

/-- the `ok` case spelled out; the side condition on the holds is preserved -/
theorem C01_replicas_agree_ok (st st' st1 : St) (e : Entry) (out : List Out) (hG : GInv st) (hS : HoldsNodup st)
    (h : st ≈ st') (hr : applyEntry st e = .ok (st1, out)) :
    ∃ st1' out', applyEntry st' e = .ok (st1', out') ∧ st1 ≈ st1' ∧ OutsEq out out' ∧
      HoldsNodup st1 ∧ HoldsNodup st1' := by
  have ha := applyEntry_congr allHandlersCongr hG.inv (St.Equiv.toStEq h hG.inv.toWInvCore hS) e
  rw [hr] at ha
  obtain ⟨r', hr', hs, ho⟩ := ha.of_ok
  exact ⟨r'.1, r'.2, hr', hs.toEquiv, ho, hs.svsholds.nd, hs.svsholds.nd'⟩

/-- the two replicas panic together (with possibly different sites) and decline together -/
theorem C01_replicas_agree_fail (st st' : St) (e : Entry) (hG : GInv st) (hS : HoldsNodup st) (h : st ≈ st') :
    ((∃ s, applyEntry st e = .panic s) ↔ ∃ s, applyEntry st' e = .panic s) ∧
    ((∃ s, applyEntry st e = .declined s) ↔ ∃ s, applyEntry st' e = .declined s) := by
  have ha := C01_replicas_agree st st' e hG hS h
  generalize applyEntry st e = x at ha
  generalize applyEntry st' e = y at ha
  cases ha <;> simp

/-! ## histories -/

/-- results of a history up to the order of the maps and of the recipients -/
def RunResEquiv (r r' : St × List (List Out)) : Prop := r.1 ≈ r'.1 ∧ All2 OutsEq r.2 r'.2

/-- **history version**: two replicas that start in equivalent states and apply the same log
(`runOut`: `runEntries` keeping the output batch of every entry) stay equivalent and emit, entry by
entry, the same output lists up to recipient order; they also fail together.
`OkHistory`: every entry is one the system can produce (`EntryOk`, as in `applyEntry_preserves`). -/
theorem C01_history (st st' : St) (es : List Entry) (hG : GInv st) (hS : HoldsNodup st) (h : st ≈ st')
    (hw : OkHistory st es) : RRel RunResEquiv (runOut st es) (runOut st' es) :=
  (runOut_congr allHandlersCongr hG (St.Equiv.toStEq h hG.inv.toWInvCore hS) es hw).mono
    (fun _ _ hr => ⟨hr.1.toEquiv, hr.2⟩)

/-- the same for the well-formed histories of `Entry.lean` -/
theorem C01_history_wf (st st' : St) (es : List Entry) (hG : GInv st) (hS : HoldsNodup st) (h : st ≈ st')
    (hw : WfHistory st es) : RRel RunResEquiv (runOut st es) (runOut st' es) :=
  C01_history st st' es hG hS h hw.ok

/-- `runOut` is `runEntries` with the outputs kept -/
theorem C01_runOut_runEntries (st : St) (es : List Entry) :
    RRel (fun (r : St × List (List Out)) (s : St) => r.1 = s) (runOut st es) (runEntries st es) :=
  runOut_fst st es

/-- the final states of the two replicas (`runEntries`) are equivalent -/
theorem C01_history_states (st st' st1 : St) (es : List Entry) (hG : GInv st) (hS : HoldsNodup st) (h : st ≈ st')
    (hw : OkHistory st es) (hr : runEntries st es = .ok st1) : ∃ st1', runEntries st' es = .ok st1' ∧ st1 ≈ st1' := by
  have h1 := runOut_fst st es
  have h2 := runOut_fst st' es
  have h3 := C01_history st st' es hG hS h hw
  rw [hr] at h1
  obtain ⟨r, hr1, e1⟩ := h1.of_ok'
  rw [hr1] at h3
  obtain ⟨r', hr2, hrr⟩ := h3.of_ok
  rw [hr2] at h2
  obtain ⟨s2, hs2, e2⟩ := h2.of_ok
  exact ⟨s2, hs2, by rw [← e1, ← e2]; exact hrr.1⟩

/-- the initial state satisfies the hypotheses -/
theorem C01_init : GInv ({} : St) ∧ HoldsNodup ({} : St) := ⟨GInv_init, List.nodup_nil⟩

end Robust.Props.C01Congr
