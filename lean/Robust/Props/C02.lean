import Robust.Fsm.Model
namespace Robust.Props.C02
open Robust.Fsm
theorem C02_placeholder : (({} : Node).run []).live = [] := rfl
end Robust.Props.C02
