import Robust.Fsm.Lemmas
/-!
# C02 — compaction is invisible

For any log and any schedule of snapshots, failed snapshot writes, restores from the latest snapshot
and process restarts, a node ends in the same state as a node that applied the whole log without ever
snapshotting; every persisted snapshot is complete; the node's log copy and output store hold exactly
the un-folded commands; and a snapshot step compacts only inputs older than the horizon.

The model is `Robust.Fsm` (`Model.lean`), the inductive invariant is `Robust.Fsm.Inv` (`Lemmas.lean`).
-/
namespace Robust.Props.C02
open Robust.Fsm

/-- the schedule's committed entries, in order -/
def commits : List Op → List LogEntry
  | [] => []
  | .commit e :: r => e :: commits r
  | _ :: r => commits r

/-- the committed entries have strictly increasing indexes ≥ 1 (raft assigns them) -/
def WfOps (ops : List Op) : Prop :=
  ((commits ops).map (·.idx)).Pairwise (· < ·) ∧ ∀ e ∈ commits ops, 1 ≤ e.idx

/-- what a node that never snapshots holds after applying the committed log -/
def replayLive (log : List LogEntry) : List Nat := (log.filter (·.isCmd)).map (·.idx)

def replayExp (log : List LogEntry) : Int :=
  (log.filter (·.isCmd)).foldl (fun ex e => match e.setsExp with | some d => d | none => ex) 600000000000

/-! ## glue to the vocabulary of `Lemmas.lean` -/

theorem commits_eq (ops : List Op) : commits ops = commitsOf ops := by
  induction ops with
  | nil => rfl
  | cons op ops ih => cases op <;> simp [commits, commitsOf, ih]

theorem replayLive_eq (L : List LogEntry) : replayLive L = idxs (cmds L) := rfl

theorem replayExp_eq (L : List LogEntry) : replayExp L = expOf (cmds L) defaultExp := by
  unfold replayExp expOf cmds defaultExp
  congr 1

/-- every node reachable by a well-formed schedule satisfies the invariant, over the committed log -/
theorem reachable_inv (ops : List Op) (h : WfOps ops) :
    (({} : Node).run ops).raftlog = commits ops ∧ ∃ b, Inv (({} : Node).run ops) b := by
  have hs : Sorted (({} : Node).raftlog ++ commitsOf ops) := by
    show Sorted ([] ++ commitsOf ops)
    rw [List.nil_append, ← commits_eq]
    exact List.pairwise_map.1 h.1
  have hp : ∀ e ∈ commitsOf ops, 1 ≤ e.idx := by rw [← commits_eq]; exact h.2
  obtain ⟨h1, h2⟩ := inv_run ops inv_init hs hp
  refine ⟨?_, h2⟩
  rw [h1, commits_eq]; rfl

/-! ## (1) same state as plain replay, for every schedule -/

theorem C02_state_eq_replay (ops : List Op) (h : WfOps ops) :
    let n := ({} : Node).run ops
    n.raftlog = commits ops ∧ n.live = replayLive (commits ops) ∧ n.exp = replayExp (commits ops) := by
  obtain ⟨hl, b, I⟩ := reachable_inv ops h
  refine ⟨hl, ?_, ?_⟩
  · rw [replayLive_eq, ← hl]; exact I.live
  · rw [replayExp_eq, ← hl]; exact I.exp

/-! ## (2) every persisted snapshot is complete -/

theorem C02_snapshot_complete (ops : List Op) (h : WfOps ops) (s : Snap)
    (hs : s ∈ (({} : Node).run ops).persisted) :
    s.state ++ replayLive s.retained = replayLive ((commits ops).filter (fun e => e.idx ≤ s.index)) := by
  obtain ⟨hl, b, I⟩ := reachable_inv ops h
  have g := I.pers s hs
  rw [← hl, replayLive_eq, replayLive_eq, g.retained, cmds_between, g.good.st, ← idxs_append,
    upto_between (sorted_cmds I.sorted) g.le]
  congr 1
  exact (cmds_filter_comm _ _).symm

/-- the same for the session expiration carried by the snapshot -/
theorem C02_snapshot_complete_exp (ops : List Op) (h : WfOps ops) (s : Snap)
    (hs : s ∈ (({} : Node).run ops).persisted) :
    expOf s.retained s.stateExp = replayExp ((commits ops).filter (fun e => e.idx ≤ s.index)) ∧
    s.stateIdx ≤ s.index ∧
    s.retained = (commits ops).filter (fun e => e.isCmd && decide (s.stateIdx < e.idx ∧ e.idx ≤ s.index)) := by
  obtain ⟨hl, b, I⟩ := reachable_inv ops h
  have g := I.pers s hs
  refine ⟨?_, g.le, ?_⟩
  · rw [← hl, replayExp_eq, g.retained, g.good.ex, ← expOf_append,
      upto_between (sorted_cmds I.sorted) g.le]
    congr 1
    exact (cmds_filter_comm _ _).symm
  · rw [← hl, g.retained]
    simp only [between, cmds, List.filter_filter]
    apply List.filter_congr; intro x _; exact Bool.and_comm _ _

/-! ## (3) the log copy and the output store hold exactly the un-folded commands -/

theorem C02_unfolded_kept (ops : List Op) (h : WfOps ops) :
    let n := ({} : Node).run ops
    (∀ i, i ∈ n.out ↔ i ∈ n.irc.map (·.idx)) ∧
    ∃ folded, folded ++ n.irc.map (·.idx) = n.live ∧ (n.irc = [] ∨ ∀ i ∈ folded, ∀ e ∈ n.irc, i < e.idx) := by
  obtain ⟨_, b, I⟩ := reachable_inv ops h
  refine ⟨I.out, idxs (upto b (cmds (({} : Node).run ops).raftlog)), ?_, Or.inr ?_⟩
  · show idxs _ ++ idxs _ = _
    rw [I.live, I.irc, ← idxs_append, sorted_split (sorted_cmds I.sorted)]
  · intro i hi e he
    obtain ⟨x, hx, rfl⟩ := List.mem_map.1 hi
    rw [I.irc] at he
    have h1 : x.idx ≤ b := by simpa using (List.mem_filter.1 hx).2
    have h2 : b < e.idx := by simpa using (List.mem_filter.1 he).2
    omega

/-- sharper form of (3): there is a boundary `b` such that the log copy is *exactly* the list of
committed commands with index `> b` (identical entries, in order), and the folded part is exactly the
commands with index `≤ b` -/
theorem C02_unfolded_exact (ops : List Op) (h : WfOps ops) :
    let n := ({} : Node).run ops
    ∃ b, n.irc = (commits ops).filter (fun e => e.isCmd && decide (b < e.idx)) ∧
         replayLive ((commits ops).filter (fun e => e.idx ≤ b)) ++ n.irc.map (·.idx) = n.live := by
  obtain ⟨hl, b, I⟩ := reachable_inv ops h
  refine ⟨b, ?_, ?_⟩
  · rw [← hl, I.irc]
    simp only [after, cmds, List.filter_filter]
    apply List.filter_congr; intro x _; exact Bool.and_comm _ _
  · rw [← hl, replayLive_eq, cmds_filter_comm]
    show idxs (upto b _) ++ idxs _ = _
    rw [I.live, I.irc, ← idxs_append, sorted_split (sorted_cmds I.sorted)]

/-! ## (4) only inputs older than the horizon are compacted by one snapshot step -/

theorem C02_horizon (n n' : Node) (now : Int) (hs : n.snapshot now = some n') (e : LogEntry)
    (he : e ∈ n.irc) (hne : e ∉ n'.irc) :
    e.ts ≤ now - ((if n.exp = 0 then 600000000000 else n.exp) + expireSessionsInterval) := by
  obtain ⟨f, l, _, _, _, hn'⟩ := snapshot_some hs
  obtain ⟨hsplit, hold, _⟩ := foldOld_spec (horizonOf n now) n.irc
  rw [hn'] at hne
  rw [hsplit] at he
  rcases List.mem_append.1 he with he | he
  · exact hold e he
  · exact absurd he hne

/-! ## (5) an input newer than the horizon is still served after the snapshot -/

/-- the log-copy half of (5) holds for every node -/
theorem C02_recent_kept_irc (n n' : Node) (now : Int) (hs : n.snapshot now = some n') (e : LogEntry)
    (he : e ∈ n.irc)
    (hnew : e.ts > now - ((if n.exp = 0 then 600000000000 else n.exp) + expireSessionsInterval)) :
    e ∈ n'.irc := by
  obtain ⟨f, l, _, _, _, hn'⟩ := snapshot_some hs
  obtain ⟨hsplit, hold, _⟩ := foldOld_spec (horizonOf n now) n.irc
  rw [hn']
  rw [hsplit] at he
  rcases List.mem_append.1 he with he | he
  · have := hold e he
    exact absurd this (by show ¬ e.ts ≤ horizonOf n now; unfold horizonOf; omega)
  · exact he

/-- (5) as requested, with the one hypothesis it needs: the indexes in the node's log copy are
distinct (the store is keyed by index; true for every reachable node, see `C02_recent_kept_reachable`).
Without it the statement is false, see `C02_recent_kept_needs_distinct`. -/
theorem C02_recent_kept (n n' : Node) (now : Int) (hs : n.snapshot now = some n') (e : LogEntry)
    (he : e ∈ n.irc)
    (hnew : e.ts > now - ((if n.exp = 0 then 600000000000 else n.exp) + expireSessionsInterval))
    (hd : (n.irc.map (·.idx)).Nodup) :
    e ∈ n'.irc ∧ (e.idx ∈ n.out → e.idx ∈ n'.out) := by
  have hirc := C02_recent_kept_irc n n' now hs e he hnew
  refine ⟨hirc, ?_⟩
  obtain ⟨f, l, _, _, _, hn'⟩ := snapshot_some hs
  obtain ⟨hsplit, _, _⟩ := foldOld_spec (horizonOf n now) n.irc
  rw [hn'] at hirc ⊢
  intro ho
  show e.idx ∈ n.out.filter _
  refine List.mem_filter.2 ⟨ho, ?_⟩
  have hirc : e ∈ (foldOld (horizonOf n now) n.irc).2.1 := hirc
  rw [hsplit, List.map_append] at hd
  have hdis := (List.pairwise_append.1 hd).2.2
  have : (foldOld (horizonOf n now) n.irc).1.any (fun x => x.idx == e.idx) = false := by
    apply Bool.eq_false_iff.2
    intro hany
    obtain ⟨x, hx, hxe⟩ := List.any_eq_true.1 hany
    have hxe : x.idx = e.idx := by simpa using hxe
    exact hdis x.idx (List.mem_map.2 ⟨x, hx, rfl⟩) e.idx (List.mem_map.2 ⟨e, hirc, rfl⟩) hxe
  simp [this]

/-- (5) unconditionally for every node reachable by a well-formed schedule -/
theorem C02_recent_kept_reachable (ops : List Op) (h : WfOps ops) (n' : Node) (now : Int)
    (hs : (({} : Node).run ops).snapshot now = some n') (e : LogEntry)
    (he : e ∈ (({} : Node).run ops).irc)
    (hnew : e.ts > now - ((if (({} : Node).run ops).exp = 0 then 600000000000 else (({} : Node).run ops).exp)
              + expireSessionsInterval)) :
    e ∈ n'.irc ∧ (e.idx ∈ (({} : Node).run ops).out → e.idx ∈ n'.out) := by
  obtain ⟨_, b, I⟩ := reachable_inv ops h
  apply C02_recent_kept _ n' now hs e he hnew
  have hs : Sorted (({} : Node).run ops).irc := by rw [I.irc]; exact (sorted_cmds I.sorted).filter _
  have : ((({} : Node).run ops).irc.map (·.idx)).Pairwise (· < ·) := List.pairwise_map.2 hs
  exact this.imp (fun h => Nat.ne_of_lt h)

/-- counterexample to (5) for an *unreachable* node whose log copy holds two entries with the same
index: the old one is folded, its id is deleted from the output store, the new one stays in the log
copy without output -/
theorem C02_recent_kept_needs_distinct :
    ∃ (n n' : Node) (now : Int) (e : LogEntry), n.snapshot now = some n' ∧ e ∈ n.irc ∧
      e.ts > now - ((if n.exp = 0 then 600000000000 else n.exp) + expireSessionsInterval) ∧
      e.idx ∈ n.out ∧ e.idx ∉ n'.out := by
  refine ⟨{ irc := [⟨1, 0, true, none⟩, ⟨1, 100, true, none⟩], out := [1] }, _, 610000000050,
    ⟨1, 100, true, none⟩, rfl, ?_⟩
  decide

/-! ## examples -/

def cmd (i : Nat) (ts : Int) : Op := .commit ⟨i, ts, true, none⟩

/-- a schedule with an index gap (entry 6 is raft-internal) and an "everything is old" snapshot -/
def sched : List Op :=
  [cmd 1 10, cmd 2 20, cmd 3 30, cmd 4 40, cmd 5 50,
   .snapshot 1000000000000000, .persist,
   .commit ⟨6, 60, false, none⟩, cmd 7 70,
   .snapshot 1000000000000000, .persist, .restart]

example : (({} : Node).run sched).live = [1, 2, 3, 4, 5, 7] := by decide
example : (({} : Node).run sched).live = replayLive (commits sched) := by decide
example : (({} : Node).run sched).irc = [] ∧ (({} : Node).run sched).out = [] := by decide
example : (({} : Node).run sched).persisted.map (fun s => (s.index, s.stateIdx, s.state, s.retained)) =
    [(7, 7, [1, 2, 3, 4, 5, 7], []), (5, 5, [1, 2, 3, 4, 5], [])] := by decide
/-- after the first "everything is old" snapshot the log copy is empty and the next snapshot finds the
state under key 5 although the next stored index is 7 -/
example : (({} : Node).run (sched.take 9)).irc.map (·.idx) = [7] ∧
    (({} : Node).run (sched.take 9)).lss = [(5, [1, 2, 3, 4, 5], 600000000000)] := by decide
/-- a snapshot that folds only the old half, a failed write, and a restore of the older snapshot -/
example : (({} : Node).run
    [cmd 1 10, cmd 2 20, .snapshot 620000000015, .persist, cmd 3 30, .snapshot 620000000025,
     .persistFail, .restoreLatest, cmd 4 40, .snapshot 620000000035, .persist, .restart]).live = [1, 2, 3, 4] := by
  decide

/-! ## non-vacuity -/

namespace Ex

/-- a schedule exercising every kind of step, with timestamps in ns: entry 3 lowers the session
expiration to 300 s (so the horizon is `now − 310 s`), entry 5 is raft-internal; the first snapshot
folds 1–3 and retains 4; the second one is computed but its write fails; the node then installs the
first snapshot again, snapshots a third time (folding 4 and 6, retaining 7), persists, restarts, and
commits entry 8 -/
def sched2 : List Op :=
  [cmd 1 10000000000, cmd 2 20000000000, .commit ⟨3, 25000000000, true, some 300000000000⟩,
   cmd 4 400000000000,
   .snapshot 420000000000, .persist,
   .commit ⟨5, 450000000000, false, none⟩, cmd 6 500000000000,
   .snapshot 720000000000, .persistFail, .restoreLatest,
   cmd 7 600000000000,
   .snapshot 830000000000, .persist, .restart,
   cmd 8 700000000000]

theorem wf2 : WfOps sched2 := ⟨by decide, by decide⟩

/-- the end state is populated: a non-empty log copy and output store, two persisted snapshots with
non-empty state and retained entries, and a non-default expiration -/
example : (({} : Node).run sched2).live = [1, 2, 3, 4, 6, 7, 8] ∧
    (({} : Node).run sched2).irc.map (·.idx) = [7, 8] ∧ (({} : Node).run sched2).out = [7, 8] ∧
    (({} : Node).run sched2).exp = 300000000000 ∧
    (({} : Node).run sched2).persisted.map (fun s => (s.index, s.stateIdx, s.state, s.stateExp, s.retained.map (·.idx))) =
      [(7, 6, [1, 2, 3, 4, 6], 300000000000, [7]), (4, 3, [1, 2, 3], 300000000000, [4])] := by decide

example : (({} : Node).run sched2).raftlog = commits sched2 ∧
    (({} : Node).run sched2).live = replayLive (commits sched2) ∧
    (({} : Node).run sched2).exp = replayExp (commits sched2) := C02_state_eq_replay sched2 wf2

/-- the older persisted snapshot: state `[1,2,3]`, retained entry 4 -/
def snapA : Snap := ⟨4, 3, [1, 2, 3], 300000000000, [⟨4, 400000000000, true, none⟩]⟩
/-- the newer one: state `[1,2,3,4,6]` (entry 5 is not a command), retained entry 7 -/
def snapB : Snap := ⟨7, 6, [1, 2, 3, 4, 6], 300000000000, [⟨7, 600000000000, true, none⟩]⟩

theorem memA : snapA ∈ (({} : Node).run sched2).persisted := by decide
theorem memB : snapB ∈ (({} : Node).run sched2).persisted := by decide

example : snapA.state ++ replayLive snapA.retained = replayLive ((commits sched2).filter (fun e => e.idx ≤ snapA.index)) :=
  C02_snapshot_complete sched2 wf2 snapA memA
example : snapB.state ++ replayLive snapB.retained = [1, 2, 3, 4, 6, 7] :=
  (C02_snapshot_complete sched2 wf2 snapB memB).trans (by decide)

example : expOf snapB.retained snapB.stateExp = replayExp ((commits sched2).filter (fun e => e.idx ≤ snapB.index)) ∧
    snapB.stateIdx ≤ snapB.index ∧
    snapB.retained = (commits sched2).filter (fun e => e.isCmd && decide (snapB.stateIdx < e.idx ∧ e.idx ≤ snapB.index)) :=
  C02_snapshot_complete_exp sched2 wf2 snapB memB
/-- … and the expiration it carries is the non-default one set by entry 3 -/
example : replayExp ((commits sched2).filter (fun e => e.idx ≤ snapB.index)) = 300000000000 := by decide

example : (∀ i, i ∈ (({} : Node).run sched2).out ↔ i ∈ (({} : Node).run sched2).irc.map (·.idx)) ∧
    ∃ folded, folded ++ (({} : Node).run sched2).irc.map (·.idx) = (({} : Node).run sched2).live ∧
      ((({} : Node).run sched2).irc = [] ∨ ∀ i ∈ folded, ∀ e ∈ (({} : Node).run sched2).irc, i < e.idx) :=
  C02_unfolded_kept sched2 wf2

example : ∃ b, (({} : Node).run sched2).irc = (commits sched2).filter (fun e => e.isCmd && decide (b < e.idx)) ∧
    replayLive ((commits sched2).filter (fun e => e.idx ≤ b)) ++ (({} : Node).run sched2).irc.map (·.idx) =
      (({} : Node).run sched2).live :=
  C02_unfolded_exact sched2 wf2
/-- the boundary is 6 here -/
example : (({} : Node).run sched2).irc = (commits sched2).filter (fun e => e.isCmd && decide (6 < e.idx)) ∧
    replayLive ((commits sched2).filter (fun e => e.idx ≤ 6)) = [1, 2, 3, 4, 6] := by decide

/-! one snapshot step: the node after the first four commits (log copy 1–4, expiration 300 s),
snapshotting at `now = 420 s`: horizon 110 s, entries 1–3 are folded, entry 4 stays -/

def nA : Node := ({} : Node).run (sched2.take 4)
def nowA : Int := 420000000000
def nA' : Node := (nA.snapshot nowA).getD nA
def e2 : LogEntry := ⟨2, 20000000000, true, none⟩
def e4 : LogEntry := ⟨4, 400000000000, true, none⟩

theorem snapA_some : nA.snapshot nowA = some nA' := rfl

example : nA.irc.map (·.idx) = [1, 2, 3, 4] ∧ nA.out = [1, 2, 3, 4] ∧ nA.exp = 300000000000 ∧
    nA'.irc.map (·.idx) = [4] ∧ nA'.out = [4] := by decide

example : e2.ts ≤ nowA - ((if nA.exp = 0 then 600000000000 else nA.exp) + expireSessionsInterval) :=
  C02_horizon nA nA' nowA snapA_some e2 (by decide) (by decide)

example : e4 ∈ nA'.irc :=
  C02_recent_kept_irc nA nA' nowA snapA_some e4 (by decide) (by decide)

example : e4 ∈ nA'.irc ∧ (e4.idx ∈ nA.out → e4.idx ∈ nA'.out) :=
  C02_recent_kept nA nA' nowA snapA_some e4 (by decide) (by decide) (by decide)

/-- the premise of the inner implication holds too -/
example : e4.idx ∈ nA.out := by decide

example : e4 ∈ nA'.irc ∧ (e4.idx ∈ (({} : Node).run (sched2.take 4)).out → e4.idx ∈ nA'.out) :=
  C02_recent_kept_reachable (sched2.take 4) ⟨by decide, by decide⟩ nA' nowA snapA_some e4
    (by decide) (by decide)

end Ex

end Robust.Props.C02
