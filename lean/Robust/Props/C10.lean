import Robust.Api.Model
import Robust.Irc.Proofs.AMapLemmas
import Robust.Irc.Proofs.FrmCheck
import Robust.Gen.Exprs
/-!
# C10 — a retried POST (same client message id) is never applied twice

Part 1 (decision level): what the POST handler and the first step of the state machine do with the
marker `Session.lastClientMessageId`.

Part 2 (frame): the marker is written **only** by `updateLastClientMessageID` — none of the 41
command handlers, nor the address / registration stages of `ProcessMessage`, nor
`MaybeDeleteSession` touches the marker of any stored session (`C10_handlers_keep_marker`,
`C10_processMessage_keeps_marker`); hence per entry type (`C10_client_entry_marker`,
`C10_death_entry_marker`, `C10_other_entries_keep_marker`, `C10_new_session_marker_zero`) and along
every well-formed history (`C10_marker_is_last_cmid`): the marker of a stored client session is the
client message id of the last client entry / message of death of that session, so the retry test
of the POST handler answers exactly for that id (`C10_retry_after_history`).
Helpers: `Robust/Irc/Proofs/Frm*.lean`.
-/
namespace Robust.Props.C10
open Robust Robust.Irc Robust.Api

/-- The handler's decision: a POST whose client message id equals the session's marker is
acknowledged (200) **without proposing an entry** — no second log entry, hence no second
delivery; any other id proposes exactly one IRCFromClient entry carrying that id. -/
theorem C10_retry_not_proposed (st : St) (hdr : Option String) (idStr : String) (σ : Id) (s : Session)
    (cmid : Nat) (data addr : String)
    (hauth : session st hdr idStr = .ok σ) (hs : AMap.get st.sessions σ = some s) (hm : s.lastClientMessageId = cmid) :
    handlePost st hdr idStr cmid data addr = ⟨200, none⟩ := by
  unfold handlePost; simp [hauth, hs, hm]

theorem C10_fresh_id_proposed (st : St) (hdr : Option String) (idStr : String) (σ : Id) (s : Session)
    (cmid : Nat) (data addr : String)
    (hauth : session st hdr idStr = .ok σ) (hs : AMap.get st.sessions σ = some s) (hm : s.lastClientMessageId ≠ cmid) :
    ∃ e, handlePost st hdr idStr cmid data addr = ⟨200, some e⟩ ∧ e.type = 2 ∧ e.session = σ ∧ e.cmid = cmid := by
  unfold handlePost; simp [hauth, hs, hm]

/-- Applying a client entry sets the marker of its session *before* the line is processed
(`UpdateLastClientMessageID` is the first thing the FSM does) … -/
theorem C10_marker_set_first (st : St) (e : Entry) (s : Session) (hs : AMap.get st.sessions e.session = some s) :
    ∃ st1 s1, updateLastClientMessageID st e = some st1 ∧ AMap.get st1.sessions e.session = some s1 ∧ s1.lastClientMessageId = e.cmid := by
  unfold updateLastClientMessageID
  simp only [hs]
  exact ⟨_, _, rfl, AMap.get_set_same _ _ _, rfl⟩

/-- …and the same holds for an entry that is skipped as message of death. -/
theorem C10_marker_set_by_death (st : St) (e : Entry) (h : e.type = 5) (s : Session) (hs : AMap.get st.sessions e.session = some s) :
    ∃ st1 s1, applyEntry st e = .ok (st1, []) ∧ AMap.get st1.sessions e.session = some s1 ∧ s1.lastClientMessageId = e.cmid := by
  obtain ⟨st1, s1, h1, h2, h3⟩ := C10_marker_set_first st e s hs
  refine ⟨st1, s1, ?_, h2, h3⟩
  unfold applyEntry; simp [h, h1]

/-- So once the first copy has been applied and the marker still carries its id, every repeat
— any number of them, whatever other sessions do in between, as long as this session's marker
is not moved by a newer message of its own — is acknowledged without a proposal. -/
theorem C10_retry_after_apply (st' : St) (hdr : Option String) (idStr : String) (σ : Id) (s' : Session) (cmid : Nat)
    (hauth : session st' hdr idStr = .ok σ) (hs : AMap.get st'.sessions σ = some s') (hm : s'.lastClientMessageId = cmid)
    (repeats : List (String × String)) :
    ∀ r ∈ repeats, handlePost st' hdr idStr cmid r.1 r.2 = ⟨200, none⟩ :=
  fun r _ => C10_retry_not_proposed st' hdr idStr σ s' cmid r.1 r.2 hauth hs hm

/-- if the session was closed by the first copy (QUIT/KILL), the retry is refused: still no entry -/
theorem C10_retry_after_close (st' : St) (hdr : Option String) (idStr : String) (e : SessErr)
    (h : session st' hdr idStr = .error e) (cmid : Nat) (data addr : String) :
    (handlePost st' hdr idStr cmid data addr).proposal = none := by
  unfold handlePost; simp [h, refuse]

/-- regenerated from handlePostMessage / applyRobustMessage: the duplicate test compares the
session's last id with the request's, answers with a bare `return`, and comes before the leader
check, the proxying and `applyMessageWait`; the proposed entry carries the request's id; the FSM
updates the marker first, for client entries and for messages of death alike. -/
theorem C10_wiring :
    Gen.Exprs.fact "post.dedupe.cond" = "api.ircServer().LastPostMessage(session) == req.ClientMessageId" ∧
    Gen.Exprs.fact "post.dedupe.body" = "return" ∧
    Gen.Exprs.fact "post.dedupe.first" = "true" ∧
    Gen.Exprs.fact "post.msg.ClientMessageId" = "req.ClientMessageId" ∧
    Gen.Exprs.fact "post.msg.Session" = "session" ∧
    Gen.Exprs.fact "death.case.first" = "i.UpdateLastClientMessageID(msg)" := by decide

/-! ## Part 2 — nothing but `updateLastClientMessageID` writes the marker -/

/-- **Frame, handlers.** For every handler `h` of the command table and every session `σ` stored
after a run of `h` (the actor or anybody else): either `σ` was stored before and carries the same
marker, or `σ` was not stored before — then it is a services pseudo-client created by this run
(services `NICK`; its id has `reply ≠ 0`) and its marker is `0`.
Hypotheses: the acting session is one the HTTP API can name (`reply = 0`) and sessions are stored
under their own id without duplicate keys (`SessWf`, two conjuncts of the global invariant; without
them `putS` could overwrite a *different* session). -/
theorem C10_handlers_keep_marker {fname : String} {h : Handler} (hh : handlerByName fname = some h)
    {c c' : Ctx} {sid : Id} {m : IrcMsg} (h0 : sid.reply = 0) (hw : SessWf c.st) (hr : h c sid m = .ok c')
    {σ : Id} {s' : Session} (hs' : AMap.get c'.st.sessions σ = some s') :
    (∃ s, AMap.get c.st.sessions σ = some s ∧ s'.lastClientMessageId = s.lastClientMessageId) ∨
    (AMap.get c.st.sessions σ = none ∧ s'.lastClientMessageId = 0 ∧ σ.reply ≠ 0) := by
  rcases (handler_frmM hh c sid m c' h0 hw hr).mark σ s' hs' with ⟨s, hs, e⟩ | ⟨hn, e, hrep, _⟩
  · exact Or.inl ⟨s, hs, e⟩
  · exact Or.inr ⟨hn, e, hrep⟩

/-- … and no handler removes a session from the map (sessions are only flagged `deleted`;
`MaybeDeleteSession` removes them afterwards): every session stored before is stored after, with the
same marker. -/
theorem C10_handlers_keep_sessions {fname : String} {h : Handler} (hh : handlerByName fname = some h)
    {c c' : Ctx} {sid : Id} {m : IrcMsg} (h0 : sid.reply = 0) (hw : SessWf c.st) (hr : h c sid m = .ok c')
    {σ : Id} {s : Session} (hs : AMap.get c.st.sessions σ = some s) :
    ∃ s', AMap.get c'.st.sessions σ = some s' ∧ s'.lastClientMessageId = s.lastClientMessageId := by
  have f := handler_frmM hh c sid m c' h0 hw hr
  cases hg : AMap.get c'.st.sessions σ with
  | none => rw [f.mono σ hg] at hs; cases hs
  | some s' => exact ⟨s', rfl, (f.mark σ s' hg).old hs⟩

/-- **Frame, `ProcessMessage`** (address bookkeeping and GLINE-ban check, registration gate, table
lookup, handler): the same statement. -/
theorem C10_processMessage_keeps_marker {c c' : Ctx} {e : Entry} {im : Option IrcMsg}
    (h0 : e.session.reply = 0) (hw : SessWf c.st) (hr : processMessage c e im = .ok c')
    {σ : Id} {s' : Session} (hs' : AMap.get c'.st.sessions σ = some s') :
    (∃ s, AMap.get c.st.sessions σ = some s ∧ s'.lastClientMessageId = s.lastClientMessageId) ∨
    (AMap.get c.st.sessions σ = none ∧ s'.lastClientMessageId = 0 ∧ σ.reply ≠ 0) := by
  rcases (processMessage_frm h0 hw hr).1.mark σ s' hs' with ⟨s, hs, e⟩ | ⟨hn, e, hrep, _⟩
  · exact Or.inl ⟨s, hs, e⟩
  · exact Or.inr ⟨hn, e, hrep⟩

/-- **Client entry (type 2).** After `applyEntry`, the marker of the entry's session — if it is
still stored — is exactly the entry's client message id, whatever the line did; and every other
session that was stored before and is still stored carries its old marker. -/
theorem C10_client_entry_marker {st st' : St} {e : Entry} {out : List Out} (hw : SessWf st) (he : EntryOk st e)
    (ht : e.type = 2) (hr : applyEntry st e = .ok (st', out)) :
    (∀ s', AMap.get st'.sessions e.session = some s' → s'.lastClientMessageId = e.cmid) ∧
    (∀ σ s s', σ ≠ e.session → AMap.get st.sessions σ = some s → AMap.get st'.sessions σ = some s' →
      s'.lastClientMessageId = s.lastClientMessageId) :=
  ⟨fun _ hs' => (applyEntry_marker hw he hr hs').1 (Or.inl ht) rfl,
   fun _ s _ hne hs hs' => (applyEntry_marker hw he hr hs').2.1 (fun h => hne h.2) s hs⟩

/-- **Message of death (type 5)**: likewise — the skipped message still moves the marker of its
session, and only that one. -/
theorem C10_death_entry_marker {st st' : St} {e : Entry} {out : List Out} (hw : SessWf st) (he : EntryOk st e)
    (ht : e.type = 5) (hr : applyEntry st e = .ok (st', out)) :
    (∀ s', AMap.get st'.sessions e.session = some s' → s'.lastClientMessageId = e.cmid) ∧
    (∀ σ s s', σ ≠ e.session → AMap.get st.sessions σ = some s → AMap.get st'.sessions σ = some s' →
      s'.lastClientMessageId = s.lastClientMessageId) :=
  ⟨fun _ hs' => (applyEntry_marker hw he hr hs').1 (Or.inr ht) rfl,
   fun _ s _ hne hs hs' => (applyEntry_marker hw he hr hs').2.1 (fun h => hne h.2) s hs⟩

/-- **All other entries** (CreateSession 0, DeleteSession 1, Config 6, unknown types): no session
that was stored before changes its marker.  (`EntryOk` is used for type 0: the id of a CreateSession
entry is fresh — otherwise `createSession` would overwrite the stored session, marker included.) -/
theorem C10_other_entries_keep_marker {st st' : St} {e : Entry} {out : List Out} (hw : SessWf st)
    (he : EntryOk st e) (h2 : e.type ≠ 2) (h5 : e.type ≠ 5) (hr : applyEntry st e = .ok (st', out))
    {σ : Id} {s s' : Session} (hs : AMap.get st.sessions σ = some s) (hs' : AMap.get st'.sessions σ = some s') :
    s'.lastClientMessageId = s.lastClientMessageId :=
  (applyEntry_marker hw he hr hs').2.1 (fun h => h.1.elim h2 h5) s hs

/-- A session that appears with an entry (CreateSession, services `NICK`) starts with marker `0`;
and with `reply = 0` it can only be the session of a CreateSession entry. -/
theorem C10_new_session_marker_zero {st st' : St} {e : Entry} {out : List Out} (hw : SessWf st)
    (he : EntryOk st e) (hr : applyEntry st e = .ok (st', out))
    {σ : Id} {s' : Session} (hn : AMap.get st.sessions σ = none) (hs' : AMap.get st'.sessions σ = some s') :
    s'.lastClientMessageId = 0 ∧ (σ.reply = 0 → e.type = 0 ∧ σ = ⟨e.id, 0⟩) :=
  (applyEntry_marker hw he hr hs').2.2 hn

/-- **Corollary, histories.** Along any well-formed history the marker of a stored client session
`σ` (`reply = 0`) is `expectedMarker σ m0 es`: the client message id of the last client entry /
message of death of `σ` (a CreateSession entry that creates `σ` resets it to `0`; `m0` is the marker
`σ` had before the history, if it was stored then). -/
theorem C10_marker_is_last_cmid {st st' : St} {es : List Entry} {σ : Id} {m0 : Nat} (hw : SessWf st)
    (hwf : WfHistory st es) (hσ : σ.reply = 0)
    (hP : ∀ s, AMap.get st.sessions σ = some s → s.lastClientMessageId = m0)
    (hr : runEntries st es = .ok st') {s' : Session} (hs' : AMap.get st'.sessions σ = some s') :
    s'.lastClientMessageId = expectedMarker σ m0 es :=
  run_marker hw hwf hσ hP hr s' hs'

/-- entries that are neither client entries / messages of death of `σ` nor create `σ` leave the
expected marker alone -/
theorem expectedMarker_quiet (σ : Id) (m : Nat) (es : List Entry)
    (hq : ∀ e ∈ es, ¬((e.type = 2 ∨ e.type = 5) ∧ e.session = σ) ∧ ¬(e.type = 0 ∧ (⟨e.id, 0⟩ : Id) = σ)) :
    expectedMarker σ m es = m := by
  induction es generalizing m with
  | nil => rfl
  | cons e es ih =>
    unfold expectedMarker
    rw [List.foldl_cons]
    have h1 := hq e (List.mem_cons_self ..)
    have : markerStep σ m e = m := by
      unfold markerStep
      rw [if_neg h1.1, if_neg h1.2]
    rw [this]
    exact ih m (fun e' he' => hq e' (List.mem_cons_of_mem _ he'))

/-- the expected marker after a history `es1 ++ e :: es2` in which `e` is the last entry of `σ` -/
theorem expectedMarker_last (σ : Id) (m0 : Nat) (es1 es2 : List Entry) (e : Entry)
    (he : (e.type = 2 ∨ e.type = 5) ∧ e.session = σ)
    (hq : ∀ e' ∈ es2, ¬((e'.type = 2 ∨ e'.type = 5) ∧ e'.session = σ) ∧ ¬(e'.type = 0 ∧ (⟨e'.id, 0⟩ : Id) = σ)) :
    expectedMarker σ m0 (es1 ++ e :: es2) = e.cmid := by
  unfold expectedMarker
  rw [List.foldl_append, List.foldl_cons]
  have : markerStep σ (List.foldl (markerStep σ) m0 es1) e = e.cmid := by
    unfold markerStep; rw [if_pos he]
  rw [this]
  exact expectedMarker_quiet σ e.cmid es2 hq

/-- an authenticated session is stored and has `reply = 0` -/
theorem session_stored {st : St} {hdr : Option String} {idStr : String} {σ : Id}
    (h : session st hdr idStr = .ok σ) : (∃ s, AMap.get st.sessions σ = some s) ∧ σ.reply = 0 := by
  unfold session at h
  split at h
  · cases h
  · rename_i id _
    dsimp only at h
    split at h
    · cases h
    · split at h
      · cases h
      · rename_i s hgs
        split at h
        · simp only [Except.ok.injEq] at h
          subst h
          refine ⟨?_, rfl⟩
          unfold getSession at hgs
          cases hg : AMap.get st.sessions ⟨id, 0⟩ with
          | some s0 => exact ⟨s0, rfl⟩
          | none =>
            rw [hg] at hgs
            simp only at hgs
            split at hgs <;> cases hgs
        · cases h

/-- **Capstone.** Replica-independent form of the property: on *any* node whose state is the result
of a well-formed history in which the client entry `e` (client message id `e.cmid`) is the last
entry of session `σ` — whatever other sessions did before and after — a POST of `σ` that repeats
`e.cmid` is acknowledged without proposing anything (if `σ` is gone, `session` fails and
`C10_retry_after_close` applies). -/
theorem C10_retry_after_history {st st' : St} {es1 es2 : List Entry} {e : Entry} {σ : Id} (hw : SessWf st)
    (hwf : WfHistory st (es1 ++ e :: es2)) (he : (e.type = 2 ∨ e.type = 5) ∧ e.session = σ)
    (hq : ∀ e' ∈ es2, ¬((e'.type = 2 ∨ e'.type = 5) ∧ e'.session = σ) ∧ ¬(e'.type = 0 ∧ (⟨e'.id, 0⟩ : Id) = σ))
    (hr : runEntries st (es1 ++ e :: es2) = .ok st')
    (hdr : Option String) (idStr : String) (hauth : session st' hdr idStr = .ok σ) (data addr : String) :
    handlePost st' hdr idStr e.cmid data addr = ⟨200, none⟩ := by
  obtain ⟨⟨s', hs'⟩, hσ⟩ := session_stored hauth
  have hm : s'.lastClientMessageId = e.cmid := by
    cases hg : AMap.get st.sessions σ with
    | none =>
      have hm := C10_marker_is_last_cmid (m0 := 0) hw hwf hσ (fun s hs => by rw [hg] at hs; cases hs) hr hs'
      rw [expectedMarker_last σ 0 es1 es2 e he hq] at hm
      exact hm
    | some s0 =>
      have hm := C10_marker_is_last_cmid (m0 := s0.lastClientMessageId) hw hwf hσ
        (fun s hs => by rw [hg] at hs; cases hs; rfl) hr hs'
      rw [expectedMarker_last σ _ es1 es2 e he hq] at hm
      exact hm
  exact C10_retry_not_proposed st' hdr idStr σ s' e.cmid data addr hauth hs' hm

/-! ### non-vacuity: a concrete state, entries and history -/

def exAlice : Session :=
  { id := ⟨1, 0⟩, nick := "alice", username := "al", loggedIn := true, channels := ["#c"], operator := true,
    lastClientMessageId := 41, ircPrefix := ⟨"alice", "al", "robust/0x1"⟩ }
def exBob : Session :=
  { id := ⟨2, 0⟩, nick := "Bob", username := "bo", loggedIn := true, channels := ["#c"], remoteAddr := "10.0.0.2",
    lastClientMessageId := 77, ircPrefix := ⟨"Bob", "bo", "robust/0x2"⟩ }
def exChanC : Channel := { name := "#c", nicks := [("alice", { chanop := true }), ("bob", {})], modes := ['n', 't'] }
/-- alice (IRC operator, marker 41) and Bob (marker 77) on `#c` -/
def exSt : St :=
  { sessions := [(⟨1, 0⟩, exAlice), (⟨2, 0⟩, exBob)]
    nicks := [("alice", ⟨1, 0⟩), ("bob", ⟨2, 0⟩)]
    channels := [("#c", exChanC)] }
def mkE (type id : Nat) (session : Id) (data : String) (cmid : Nat) : Entry :=
  { type := type, id := id, session := session, data := data, unixNano := 0, cmid := cmid, rev := 0,
    remoteAddr := "", cfg := none }
/-- Bob talks (cmid 78), alice kills Bob (cmid 42), a message of death of alice (cmid 43), a new session 13 -/
def exHist : List Entry :=
  [mkE 2 10 ⟨2, 0⟩ "PRIVMSG #c :hi" 78, mkE 2 11 ⟨1, 0⟩ "KILL bob :bye" 42, mkE 5 12 ⟨1, 0⟩ "boom" 43,
   mkE 0 13 ⟨0, 0⟩ "auth" 0]

theorem exSt_inv : GPInv exSt := ginv_of_ginvB (by decide)
theorem exSt_wf : SessWf exSt := exSt_inv.sessWf
theorem exHist_wf : WfHistory exSt exHist := wf_of_B (by decide +kernel)

/-- the hypotheses of the entry-level theorems hold for the first entry, it applies, and Bob's marker
moves from 77 to 78 while alice keeps 41 -/
theorem C10_example_client_entry :
    EntryOk exSt (mkE 2 10 ⟨2, 0⟩ "PRIVMSG #c :hi" 78) ∧
    (applyEntry exSt (mkE 2 10 ⟨2, 0⟩ "PRIVMSG #c :hi" 78)).isOk = true ∧
    markers (resSt (applyEntry exSt (mkE 2 10 ⟨2, 0⟩ "PRIVMSG #c :hi" 78))) = [(⟨1, 0⟩, 41), (⟨2, 0⟩, 78)] :=
  ⟨entryOk_of_B (by decide), by decide +kernel, by decide +kernel⟩

/-- a handler run that does change other sessions (KILL removes Bob from the channel and flags him)
leaves both markers alone -/
theorem C10_example_handler :
    (cmdKill { st := exSt, msgid := 11 } ⟨1, 0⟩ ⟨none, "KILL", ["bob", "bye"]⟩).isOk = true ∧
    (match cmdKill { st := exSt, msgid := 11 } ⟨1, 0⟩ ⟨none, "KILL", ["bob", "bye"]⟩ with
      | .ok c => markers c.st | _ => []) = [(⟨1, 0⟩, 41), (⟨2, 0⟩, 77)] :=
  ⟨by decide +kernel, by decide +kernel⟩

/-- the history runs through; at the end alice and the new session are stored with the expected
markers: 43 (the message of death, not the KILL before it) and 0 -/
theorem C10_example_history :
    (runEntries exSt exHist).isOk = true ∧
    markers (runSt (runEntries exSt exHist)) = [(⟨1, 0⟩, 43), (⟨13, 0⟩, 0)] ∧
    expectedMarker ⟨1, 0⟩ 41 exHist = 43 ∧ expectedMarker ⟨13, 0⟩ 0 exHist = 0 :=
  ⟨by decide +kernel, by decide +kernel, by decide, by decide⟩

/-- `C10_marker_is_last_cmid` instantiated on the example -/
example {s' : Session} (hs' : AMap.get (runSt (runEntries exSt exHist)).sessions ⟨1, 0⟩ = some s') :
    s'.lastClientMessageId = 43 := by
  have h := C10_marker_is_last_cmid (σ := ⟨1, 0⟩) (m0 := 41) exSt_wf exHist_wf rfl
    (fun s hs => by
      have : AMap.get exSt.sessions ⟨1, 0⟩ = some exAlice := by decide
      rw [this] at hs; cases hs; rfl)
    (run_eq_of_isOk C10_example_history.1) hs'
  rw [h]; exact C10_example_history.2.2.1

/-- Why `SessWf` is assumed: in a (never reached) state where a session is stored under a key that
is not its own id, `putS` writes to the *other* key — here AWAY of the session stored under `⟨1,0⟩`
(whose `id` field says `⟨2,0⟩`) overwrites the session `⟨2,0⟩` and with it its marker (77 ↦ 41). -/
theorem C10_counterexample_without_wf :
    let bad : St := { sessions := [(⟨1, 0⟩, { exAlice with id := ⟨2, 0⟩ }), (⟨2, 0⟩, exBob)] }
    (match cmdAway { st := bad, msgid := 1 } ⟨1, 0⟩ ⟨none, "AWAY", ["gone"]⟩ with
      | .ok c => markers c.st | _ => []) = [(⟨1, 0⟩, 41), (⟨2, 0⟩, 41)] := by decide +kernel

end Robust.Props.C10
