import Robust.Api.Model
import Robust.Irc.Proofs.AMapLemmas
import Robust.Gen.Exprs
/-!
# C10 — a retried POST (same client message id) is never applied twice
-/
namespace Robust.Props.C10
open Robust Robust.Irc Robust.Api

/-- The handler's decision: a POST whose client message id equals the session's marker is
acknowledged (200) **without proposing an entry** — no second log entry, hence no second
delivery; any other id proposes exactly one IRCFromClient entry carrying that id. -/
theorem C10_retry_not_proposed (st : St) (hdr : Option String) (idStr : String) (σ : Id) (s : Session)
    (cmid : Nat) (data addr : String)
    (hauth : session st hdr idStr = .ok σ) (hs : AMap.get st.sessions σ = some s) (hm : s.lastClientMessageId = cmid) :
    handlePost st hdr idStr cmid data addr = ⟨200, none⟩ := by
  unfold handlePost; simp [hauth, hs, hm]

theorem C10_fresh_id_proposed (st : St) (hdr : Option String) (idStr : String) (σ : Id) (s : Session)
    (cmid : Nat) (data addr : String)
    (hauth : session st hdr idStr = .ok σ) (hs : AMap.get st.sessions σ = some s) (hm : s.lastClientMessageId ≠ cmid) :
    ∃ e, handlePost st hdr idStr cmid data addr = ⟨200, some e⟩ ∧ e.type = 2 ∧ e.session = σ ∧ e.cmid = cmid := by
  unfold handlePost; simp [hauth, hs, hm]

/-- Applying a client entry sets the marker of its session *before* the line is processed
(`UpdateLastClientMessageID` is the first thing the FSM does) … -/
theorem C10_marker_set_first (st : St) (e : Entry) (s : Session) (hs : AMap.get st.sessions e.session = some s) :
    ∃ st1 s1, updateLastClientMessageID st e = some st1 ∧ AMap.get st1.sessions e.session = some s1 ∧ s1.lastClientMessageId = e.cmid := by
  unfold updateLastClientMessageID
  simp only [hs]
  exact ⟨_, _, rfl, AMap.get_set_same _ _ _, rfl⟩

/-- …and the same holds for an entry that is skipped as message of death. -/
theorem C10_marker_set_by_death (st : St) (e : Entry) (h : e.type = 5) (s : Session) (hs : AMap.get st.sessions e.session = some s) :
    ∃ st1 s1, applyEntry st e = .ok (st1, []) ∧ AMap.get st1.sessions e.session = some s1 ∧ s1.lastClientMessageId = e.cmid := by
  obtain ⟨st1, s1, h1, h2, h3⟩ := C10_marker_set_first st e s hs
  refine ⟨st1, s1, ?_, h2, h3⟩
  unfold applyEntry; simp [h, h1]

/-- So once the first copy has been applied and the marker still carries its id, every repeat
— any number of them, whatever other sessions do in between, as long as this session's marker
is not moved by a newer message of its own — is acknowledged without a proposal. -/
theorem C10_retry_after_apply (st' : St) (hdr : Option String) (idStr : String) (σ : Id) (s' : Session) (cmid : Nat)
    (hauth : session st' hdr idStr = .ok σ) (hs : AMap.get st'.sessions σ = some s') (hm : s'.lastClientMessageId = cmid)
    (repeats : List (String × String)) :
    ∀ r ∈ repeats, handlePost st' hdr idStr cmid r.1 r.2 = ⟨200, none⟩ :=
  fun r _ => C10_retry_not_proposed st' hdr idStr σ s' cmid r.1 r.2 hauth hs hm

/-- if the session was closed by the first copy (QUIT/KILL), the retry is refused: still no entry -/
theorem C10_retry_after_close (st' : St) (hdr : Option String) (idStr : String) (e : SessErr)
    (h : session st' hdr idStr = .error e) (cmid : Nat) (data addr : String) :
    (handlePost st' hdr idStr cmid data addr).proposal = none := by
  unfold handlePost; simp [h, refuse]

/-- regenerated from handlePostMessage / applyRobustMessage: the duplicate test compares the
session's last id with the request's, answers with a bare `return`, and comes before the leader
check, the proxying and `applyMessageWait`; the proposed entry carries the request's id; the FSM
updates the marker first, for client entries and for messages of death alike. -/
theorem C10_wiring :
    Gen.Exprs.fact "post.dedupe.cond" = "api.ircServer().LastPostMessage(session) == req.ClientMessageId" ∧
    Gen.Exprs.fact "post.dedupe.body" = "return" ∧
    Gen.Exprs.fact "post.dedupe.first" = "true" ∧
    Gen.Exprs.fact "post.msg.ClientMessageId" = "req.ClientMessageId" ∧
    Gen.Exprs.fact "post.msg.Session" = "session" ∧
    Gen.Exprs.fact "death.case.first" = "i.UpdateLastClientMessageID(msg)" := by decide

end Robust.Props.C10
