import Robust.Api.Model
import Robust.Irc.Proofs.AMapLemmas
import Robust.Irc.Proofs.FrmCheck
import Robust.Gen.Exprs
/-!
# C10 — a retried POST (same client message id) is never applied twice

Part 1 (decision level): what the POST handler and the first step of the state machine do with the
marker `Session.lastClientMessageId`.

Part 2 (frame): the marker is written **only** by `updateLastClientMessageID` — none of the 41
command handlers, nor the address / registration stages of `ProcessMessage`, nor
`MaybeDeleteSession` touches the marker of any stored session (`C10_handlers_keep_marker`,
`C10_processMessage_keeps_marker`); hence per entry type (`C10_client_entry_marker`,
`C10_death_entry_marker`, `C10_other_entries_keep_marker`, `C10_new_session_marker_zero`) and along
every well-formed history (`C10_marker_is_last_cmid`): the marker of a stored client session is the
client message id of the last client entry / message of death of that session, so the retry test
of the POST handler answers exactly for that id (`C10_retry_after_history`).
Helpers: `Robust/Irc/Proofs/Frm*.lean`.
-/
namespace Robust.Props.C10
open Robust Robust.Irc Robust.Api

/-- The handler's decision: a POST whose client message id equals the session's marker is
acknowledged (200) **without proposing an entry** — no second log entry, hence no second
delivery; any other id proposes exactly one IRCFromClient entry carrying that id. -/
theorem C10_retry_not_proposed (st : St) (hdr : Option String) (idStr : String) (σ : Id) (s : Session)
    (cmid : Nat) (data addr : String)
    (hauth : session st hdr idStr = .ok σ) (hs : AMap.get st.sessions σ = some s) (hm : s.lastClientMessageId = cmid) :
    handlePost st hdr idStr cmid data addr = ⟨200, none⟩ := by
  unfold handlePost; simp [hauth, hs, hm]

theorem C10_fresh_id_proposed (st : St) (hdr : Option String) (idStr : String) (σ : Id) (s : Session)
    (cmid : Nat) (data addr : String)
    (hauth : session st hdr idStr = .ok σ) (hs : AMap.get st.sessions σ = some s) (hm : s.lastClientMessageId ≠ cmid) :
    ∃ e, handlePost st hdr idStr cmid data addr = ⟨200, some e⟩ ∧ e.type = 2 ∧ e.session = σ ∧ e.cmid = cmid := by
  unfold handlePost; simp [hauth, hs, hm]

/-- Applying a client entry sets the marker of its session *before* the line is processed
(`UpdateLastClientMessageID` is the first thing the FSM does) … -/
theorem C10_marker_set_first (st : St) (e : Entry) (s : Session) (hs : AMap.get st.sessions e.session = some s) :
    ∃ st1 s1, updateLastClientMessageID st e = some st1 ∧ AMap.get st1.sessions e.session = some s1 ∧ s1.lastClientMessageId = e.cmid := by
  unfold updateLastClientMessageID
  simp only [hs]
  exact ⟨_, _, rfl, AMap.get_set_same _ _ _, rfl⟩

/-- …and the same holds for an entry that is skipped as message of death. -/
theorem C10_marker_set_by_death (st : St) (e : Entry) (h : e.type = 5) (s : Session) (hs : AMap.get st.sessions e.session = some s) :
    ∃ st1 s1, applyEntry st e = .ok (st1, []) ∧ AMap.get st1.sessions e.session = some s1 ∧ s1.lastClientMessageId = e.cmid := by
  obtain ⟨st1, s1, h1, h2, h3⟩ := C10_marker_set_first st e s hs
  refine ⟨st1, s1, ?_, h2, h3⟩
  unfold applyEntry; simp [h, h1]

/-- So once the first copy has been applied and the marker still carries its id, every repeat
— any number of them, whatever other sessions do in between, as long as this session's marker
is not moved by a newer message of its own — is acknowledged without a proposal. -/
theorem C10_retry_after_apply (st' : St) (hdr : Option String) (idStr : String) (σ : Id) (s' : Session) (cmid : Nat)
    (hauth : session st' hdr idStr = .ok σ) (hs : AMap.get st'.sessions σ = some s') (hm : s'.lastClientMessageId = cmid)
    (repeats : List (String × String)) :
    ∀ r ∈ repeats, handlePost st' hdr idStr cmid r.1 r.2 = ⟨200, none⟩ :=
  fun r _ => C10_retry_not_proposed st' hdr idStr σ s' cmid r.1 r.2 hauth hs hm

/-- if the session was closed by the first copy (QUIT/KILL), the retry is refused: still no entry -/
theorem C10_retry_after_close (st' : St) (hdr : Option String) (idStr : String) (e : SessErr)
    (h : session st' hdr idStr = .error e) (cmid : Nat) (data addr : String) :
    (handlePost st' hdr idStr cmid data addr).proposal = none := by
  unfold handlePost; simp [h, refuse]

/-- regenerated from handlePostMessage / applyRobustMessage: the duplicate test compares the
session's last id with the request's, answers with a bare `return`, and comes before the leader
check, the proxying and `applyMessageWait`; the proposed entry carries the request's id; the FSM
updates the marker first, for client entries and for messages of death alike. -/
theorem C10_wiring :
    Gen.Exprs.fact "post.dedupe.cond" = "local:struct{Data string; ClientMessageId uint64}.ClientMessageId == recv.ircServer().LastPostMessage(param3)" ∧
    Gen.Exprs.fact "post.dedupe.body" = "return" ∧
    Gen.Exprs.fact "post.dedupe.first" = "true" ∧
    Gen.Exprs.fact "post.msg.ClientMessageId" = "local:struct{Data string; ClientMessageId uint64}.ClientMessageId" ∧
    Gen.Exprs.fact "post.msg.Session" = "param3" ∧
    Gen.Exprs.fact "death.case.first" = "param2.UpdateLastClientMessageID(param1)" := by decide

/-! ## Part 2 — nothing but `updateLastClientMessageID` writes the marker -/

/-- **Frame, handlers.** For every handler `h` of the command table and every session `σ` stored
after a run of `h` (the actor or anybody else): either `σ` was stored before and carries the same
marker, or `σ` was not stored before — then it is a services pseudo-client created by this run
(services `NICK`; its id has `reply ≠ 0`) and its marker is `0`.
Hypotheses: the acting session is one the HTTP API can name (`reply = 0`) and sessions are stored
under their own id without duplicate keys (`SessWf`, two conjuncts of the global invariant; without
them `putS` could overwrite a *different* session). -/
theorem C10_handlers_keep_marker {fname : String} {h : Handler} (hh : handlerByName fname = some h)
    {c c' : Ctx} {sid : Id} {m : IrcMsg} (h0 : sid.reply = 0) (hw : SessWf c.st) (hr : h c sid m = .ok c')
    {σ : Id} {s' : Session} (hs' : AMap.get c'.st.sessions σ = some s') :
    (∃ s, AMap.get c.st.sessions σ = some s ∧ s'.lastClientMessageId = s.lastClientMessageId) ∨
    (AMap.get c.st.sessions σ = none ∧ s'.lastClientMessageId = 0 ∧ σ.reply ≠ 0) := by
  rcases (handler_frmM hh c sid m c' h0 hw hr).mark σ s' hs' with ⟨s, hs, e⟩ | ⟨hn, e, hrep, _⟩
  · exact Or.inl ⟨s, hs, e⟩
  · exact Or.inr ⟨hn, e, hrep⟩

/-- … and no handler removes a session from the map (sessions are only flagged `deleted`;
`MaybeDeleteSession` removes them afterwards): every session stored before is stored after, with the
same marker. -/
theorem C10_handlers_keep_sessions {fname : String} {h : Handler} (hh : handlerByName fname = some h)
    {c c' : Ctx} {sid : Id} {m : IrcMsg} (h0 : sid.reply = 0) (hw : SessWf c.st) (hr : h c sid m = .ok c')
    {σ : Id} {s : Session} (hs : AMap.get c.st.sessions σ = some s) :
    ∃ s', AMap.get c'.st.sessions σ = some s' ∧ s'.lastClientMessageId = s.lastClientMessageId := by
  have f := handler_frmM hh c sid m c' h0 hw hr
  cases hg : AMap.get c'.st.sessions σ with
  | none => rw [f.mono σ hg] at hs; cases hs
  | some s' => exact ⟨s', rfl, (f.mark σ s' hg).old hs⟩

/-- **Frame, `ProcessMessage`** (address bookkeeping and GLINE-ban check, registration gate, table
lookup, handler): the same statement. -/
theorem C10_processMessage_keeps_marker {c c' : Ctx} {e : Entry} {im : Option IrcMsg}
    (h0 : e.session.reply = 0) (hw : SessWf c.st) (hr : processMessage c e im = .ok c')
    {σ : Id} {s' : Session} (hs' : AMap.get c'.st.sessions σ = some s') :
    (∃ s, AMap.get c.st.sessions σ = some s ∧ s'.lastClientMessageId = s.lastClientMessageId) ∨
    (AMap.get c.st.sessions σ = none ∧ s'.lastClientMessageId = 0 ∧ σ.reply ≠ 0) := by
  rcases (processMessage_frm h0 hw hr).1.mark σ s' hs' with ⟨s, hs, e⟩ | ⟨hn, e, hrep, _⟩
  · exact Or.inl ⟨s, hs, e⟩
  · exact Or.inr ⟨hn, e, hrep⟩

/-- **Client entry (type 2).** After `applyEntry`, the marker of the entry's session — if it is
still stored — is exactly the entry's client message id, whatever the line did; and every other
session that was stored before and is still stored carries its old marker. -/
theorem C10_client_entry_marker {st st' : St} {e : Entry} {out : List Out} (hw : SessWf st) (he : EntryOk st e)
    (ht : e.type = 2) (hr : applyEntry st e = .ok (st', out)) :
    (∀ s', AMap.get st'.sessions e.session = some s' → s'.lastClientMessageId = e.cmid) ∧
    (∀ σ s s', σ ≠ e.session → AMap.get st.sessions σ = some s → AMap.get st'.sessions σ = some s' →
      s'.lastClientMessageId = s.lastClientMessageId) :=
  ⟨fun _ hs' => (applyEntry_marker hw he hr hs').1 (Or.inl ht) rfl,
   fun _ s _ hne hs hs' => (applyEntry_marker hw he hr hs').2.1 (fun h => hne h.2) s hs⟩

/-- **Message of death (type 5)**: likewise — the skipped message still moves the marker of its
session, and only that one. -/
theorem C10_death_entry_marker {st st' : St} {e : Entry} {out : List Out} (hw : SessWf st) (he : EntryOk st e)
    (ht : e.type = 5) (hr : applyEntry st e = .ok (st', out)) :
    (∀ s', AMap.get st'.sessions e.session = some s' → s'.lastClientMessageId = e.cmid) ∧
    (∀ σ s s', σ ≠ e.session → AMap.get st.sessions σ = some s → AMap.get st'.sessions σ = some s' →
      s'.lastClientMessageId = s.lastClientMessageId) :=
  ⟨fun _ hs' => (applyEntry_marker hw he hr hs').1 (Or.inr ht) rfl,
   fun _ s _ hne hs hs' => (applyEntry_marker hw he hr hs').2.1 (fun h => hne h.2) s hs⟩

/-- **All other entries** (CreateSession 0, DeleteSession 1, Config 6, unknown types): no session
that was stored before changes its marker.  (`EntryOk` is used for type 0: the id of a CreateSession
entry is fresh — otherwise `createSession` would overwrite the stored session, marker included.) -/
theorem C10_other_entries_keep_marker {st st' : St} {e : Entry} {out : List Out} (hw : SessWf st)
    (he : EntryOk st e) (h2 : e.type ≠ 2) (h5 : e.type ≠ 5) (hr : applyEntry st e = .ok (st', out))
    {σ : Id} {s s' : Session} (hs : AMap.get st.sessions σ = some s) (hs' : AMap.get st'.sessions σ = some s') :
    s'.lastClientMessageId = s.lastClientMessageId :=
  (applyEntry_marker hw he hr hs').2.1 (fun h => h.1.elim h2 h5) s hs

/-- A session that appears with an entry (CreateSession, services `NICK`) starts with marker `0`;
and with `reply = 0` it can only be the session of a CreateSession entry. -/
theorem C10_new_session_marker_zero {st st' : St} {e : Entry} {out : List Out} (hw : SessWf st)
    (he : EntryOk st e) (hr : applyEntry st e = .ok (st', out))
    {σ : Id} {s' : Session} (hn : AMap.get st.sessions σ = none) (hs' : AMap.get st'.sessions σ = some s') :
    s'.lastClientMessageId = 0 ∧ (σ.reply = 0 → e.type = 0 ∧ σ = ⟨e.id, 0⟩) :=
  (applyEntry_marker hw he hr hs').2.2 hn

/-- **Corollary, histories.** Along any well-formed history the marker of a stored client session
`σ` (`reply = 0`) is `expectedMarker σ m0 es`: the client message id of the last client entry /
message of death of `σ` (a CreateSession entry that creates `σ` resets it to `0`; `m0` is the marker
`σ` had before the history, if it was stored then). -/
theorem C10_marker_is_last_cmid {st st' : St} {es : List Entry} {σ : Id} {m0 : Nat} (hw : SessWf st)
    (hwf : WfHistory st es) (hσ : σ.reply = 0)
    (hP : ∀ s, AMap.get st.sessions σ = some s → s.lastClientMessageId = m0)
    (hr : runEntries st es = .ok st') {s' : Session} (hs' : AMap.get st'.sessions σ = some s') :
    s'.lastClientMessageId = expectedMarker σ m0 es :=
  run_marker hw hwf hσ hP hr s' hs'

/-- entries that are neither client entries / messages of death of `σ` nor create `σ` leave the
expected marker alone -/
theorem expectedMarker_quiet (σ : Id) (m : Nat) (es : List Entry)
    (hq : ∀ e ∈ es, ¬((e.type = 2 ∨ e.type = 5) ∧ e.session = σ) ∧ ¬(e.type = 0 ∧ (⟨e.id, 0⟩ : Id) = σ)) :
    expectedMarker σ m es = m := by
  induction es generalizing m with
  | nil => rfl
  | cons e es ih =>
    unfold expectedMarker
    rw [List.foldl_cons]
    have h1 := hq e (List.mem_cons_self ..)
    have : markerStep σ m e = m := by
      unfold markerStep
      rw [if_neg h1.1, if_neg h1.2]
    rw [this]
    exact ih m (fun e' he' => hq e' (List.mem_cons_of_mem _ he'))

/-- the expected marker after a history `es1 ++ e :: es2` in which `e` is the last entry of `σ` -/
theorem expectedMarker_last (σ : Id) (m0 : Nat) (es1 es2 : List Entry) (e : Entry)
    (he : (e.type = 2 ∨ e.type = 5) ∧ e.session = σ)
    (hq : ∀ e' ∈ es2, ¬((e'.type = 2 ∨ e'.type = 5) ∧ e'.session = σ) ∧ ¬(e'.type = 0 ∧ (⟨e'.id, 0⟩ : Id) = σ)) :
    expectedMarker σ m0 (es1 ++ e :: es2) = e.cmid := by
  unfold expectedMarker
  rw [List.foldl_append, List.foldl_cons]
  have : markerStep σ (List.foldl (markerStep σ) m0 es1) e = e.cmid := by
    unfold markerStep; rw [if_pos he]
  rw [this]
  exact expectedMarker_quiet σ e.cmid es2 hq

/-- an authenticated session is stored and has `reply = 0` -/
theorem session_stored {st : St} {hdr : Option String} {idStr : String} {σ : Id}
    (h : session st hdr idStr = .ok σ) : (∃ s, AMap.get st.sessions σ = some s) ∧ σ.reply = 0 := by
  unfold session at h
  split at h
  · cases h
  · rename_i id _
    dsimp only at h
    split at h
    · cases h
    · split at h
      · cases h
      · rename_i s hgs
        split at h
        · simp only [Except.ok.injEq] at h
          subst h
          refine ⟨?_, rfl⟩
          unfold getSession at hgs
          cases hg : AMap.get st.sessions ⟨id, 0⟩ with
          | some s0 => exact ⟨s0, rfl⟩
          | none =>
            rw [hg] at hgs
            simp only at hgs
            split at hgs <;> cases hgs
        · cases h

/-- **Capstone.** Replica-independent form of the property: on *any* node whose state is the result
of a well-formed history in which the client entry `e` (client message id `e.cmid`) is the last
entry of session `σ` — whatever other sessions did before and after — a POST of `σ` that repeats
`e.cmid` is acknowledged without proposing anything (if `σ` is gone, `session` fails and
`C10_retry_after_close` applies). -/
theorem C10_retry_after_history {st st' : St} {es1 es2 : List Entry} {e : Entry} {σ : Id} (hw : SessWf st)
    (hwf : WfHistory st (es1 ++ e :: es2)) (he : (e.type = 2 ∨ e.type = 5) ∧ e.session = σ)
    (hq : ∀ e' ∈ es2, ¬((e'.type = 2 ∨ e'.type = 5) ∧ e'.session = σ) ∧ ¬(e'.type = 0 ∧ (⟨e'.id, 0⟩ : Id) = σ))
    (hr : runEntries st (es1 ++ e :: es2) = .ok st')
    (hdr : Option String) (idStr : String) (hauth : session st' hdr idStr = .ok σ) (data addr : String) :
    handlePost st' hdr idStr e.cmid data addr = ⟨200, none⟩ := by
  obtain ⟨⟨s', hs'⟩, hσ⟩ := session_stored hauth
  have hm : s'.lastClientMessageId = e.cmid := by
    cases hg : AMap.get st.sessions σ with
    | none =>
      have hm := C10_marker_is_last_cmid (m0 := 0) hw hwf hσ (fun s hs => by rw [hg] at hs; cases hs) hr hs'
      rw [expectedMarker_last σ 0 es1 es2 e he hq] at hm
      exact hm
    | some s0 =>
      have hm := C10_marker_is_last_cmid (m0 := s0.lastClientMessageId) hw hwf hσ
        (fun s hs => by rw [hg] at hs; cases hs; rfl) hr hs'
      rw [expectedMarker_last σ _ es1 es2 e he hq] at hm
      exact hm
  exact C10_retry_not_proposed st' hdr idStr σ s' e.cmid data addr hauth hs' hm

/-! ### non-vacuity: a concrete state, entries and history -/

def exAlice : Session :=
  { id := ⟨1, 0⟩, nick := "alice", username := "al", loggedIn := true, channels := ["#c"], operator := true,
    lastClientMessageId := 41, ircPrefix := ⟨"alice", "al", "robust/0x1"⟩ }
def exBob : Session :=
  { id := ⟨2, 0⟩, nick := "Bob", username := "bo", loggedIn := true, channels := ["#c"], remoteAddr := "10.0.0.2",
    lastClientMessageId := 77, ircPrefix := ⟨"Bob", "bo", "robust/0x2"⟩ }
def exChanC : Channel := { name := "#c", nicks := [("alice", { chanop := true }), ("bob", {})], modes := ['n', 't'] }
/-- alice (IRC operator, marker 41) and Bob (marker 77) on `#c` -/
def exSt : St :=
  { sessions := [(⟨1, 0⟩, exAlice), (⟨2, 0⟩, exBob)]
    nicks := [("alice", ⟨1, 0⟩), ("bob", ⟨2, 0⟩)]
    channels := [("#c", exChanC)] }
def mkE (type id : Nat) (session : Id) (data : String) (cmid : Nat) : Entry :=
  { type := type, id := id, session := session, data := data, unixNano := 0, cmid := cmid, rev := 0,
    remoteAddr := "", cfg := none }
/-- Bob talks (cmid 78), alice kills Bob (cmid 42), a message of death of alice (cmid 43), a new session 13 -/
def exHist : List Entry :=
  [mkE 2 10 ⟨2, 0⟩ "PRIVMSG #c :hi" 78, mkE 2 11 ⟨1, 0⟩ "KILL bob :bye" 42, mkE 5 12 ⟨1, 0⟩ "boom" 43,
   mkE 0 13 ⟨0, 0⟩ "auth" 0]

theorem exSt_inv : GPInv exSt := ginv_of_ginvB (by decide)
theorem exSt_wf : SessWf exSt := exSt_inv.sessWf
theorem exHist_wf : WfHistory exSt exHist := wf_of_B (by decide +kernel)

/-- the hypotheses of the entry-level theorems hold for the first entry, it applies, and Bob's marker
moves from 77 to 78 while alice keeps 41 -/
theorem C10_example_client_entry :
    EntryOk exSt (mkE 2 10 ⟨2, 0⟩ "PRIVMSG #c :hi" 78) ∧
    (applyEntry exSt (mkE 2 10 ⟨2, 0⟩ "PRIVMSG #c :hi" 78)).isOk = true ∧
    markers (resSt (applyEntry exSt (mkE 2 10 ⟨2, 0⟩ "PRIVMSG #c :hi" 78))) = [(⟨1, 0⟩, 41), (⟨2, 0⟩, 78)] :=
  ⟨entryOk_of_B (by decide), by decide +kernel, by decide +kernel⟩

/-- a handler run that does change other sessions (KILL removes Bob from the channel and flags him)
leaves both markers alone -/
theorem C10_example_handler :
    (cmdKill { st := exSt, msgid := 11 } ⟨1, 0⟩ ⟨none, "KILL", ["bob", "bye"]⟩).isOk = true ∧
    (match cmdKill { st := exSt, msgid := 11 } ⟨1, 0⟩ ⟨none, "KILL", ["bob", "bye"]⟩ with
      | .ok c => markers c.st | _ => []) = [(⟨1, 0⟩, 41), (⟨2, 0⟩, 77)] :=
  ⟨by decide +kernel, by decide +kernel⟩

/-- the history runs through; at the end alice and the new session are stored with the expected
markers: 43 (the message of death, not the KILL before it) and 0 -/
theorem C10_example_history :
    (runEntries exSt exHist).isOk = true ∧
    markers (runSt (runEntries exSt exHist)) = [(⟨1, 0⟩, 43), (⟨13, 0⟩, 0)] ∧
    expectedMarker ⟨1, 0⟩ 41 exHist = 43 ∧ expectedMarker ⟨13, 0⟩ 0 exHist = 0 :=
  ⟨by decide +kernel, by decide +kernel, by decide, by decide⟩

/-- `C10_marker_is_last_cmid` instantiated on the example -/
example {s' : Session} (hs' : AMap.get (runSt (runEntries exSt exHist)).sessions ⟨1, 0⟩ = some s') :
    s'.lastClientMessageId = 43 := by
  have h := C10_marker_is_last_cmid (σ := ⟨1, 0⟩) (m0 := 41) exSt_wf exHist_wf rfl
    (fun s hs => by
      have : AMap.get exSt.sessions ⟨1, 0⟩ = some exAlice := by decide
      rw [this] at hs; cases hs; rfl)
    (run_eq_of_isOk C10_example_history.1) hs'
  rw [h]; exact C10_example_history.2.2.1

/-- Why `SessWf` is assumed: in a (never reached) state where a session is stored under a key that
is not its own id, `putS` writes to the *other* key — here AWAY of the session stored under `⟨1,0⟩`
(whose `id` field says `⟨2,0⟩`) overwrites the session `⟨2,0⟩` and with it its marker (77 ↦ 41). -/
theorem C10_counterexample_without_wf :
    let bad : St := { sessions := [(⟨1, 0⟩, { exAlice with id := ⟨2, 0⟩ }), (⟨2, 0⟩, exBob)] }
    (match cmdAway { st := bad, msgid := 1 } ⟨1, 0⟩ ⟨none, "AWAY", ["gone"]⟩ with
      | .ok c => markers c.st | _ => []) = [(⟨1, 0⟩, 41), (⟨2, 0⟩, 41)] := by decide +kernel

/-! ## non-vacuity (audit): every theorem above instantiated on a *reached* state

The state `Ex.stR` is not written down by hand and checked, it is the result of running the model on
the history `Ex.es0` from the initial state; its invariant comes from `run_preserves_gp`. -/
namespace Ex
def mk (type id : Nat) (session : Id) (data : String) (cmid : Nat) (addr : String := "") : Entry :=
  { type := type, id := id, session := session, data := data, unixNano := 0, cmid := cmid, rev := 0,
    remoteAddr := addr, cfg := none }
/-- a network configuration with one operator; alice (session 2) and Bob (session 5) register -/
def esA : List Entry := [
  { mk 6 1 ⟨0, 0⟩ "…toml…" 0 with rev := 1, cfg := some { operators := [("root", "pw")] } },
  mk 0 2 ⟨0, 0⟩ "authA" 0, mk 2 3 ⟨2, 0⟩ "NICK alice" 101, mk 2 4 ⟨2, 0⟩ "USER al 0 * :Alice" 102,
  mk 0 5 ⟨0, 0⟩ "authB" 0, mk 2 6 ⟨5, 0⟩ "NICK Bob" 201 "10.0.0.2", mk 2 7 ⟨5, 0⟩ "USER bo 0 * :Bob" 202 "10.0.0.2",
  mk 2 8 ⟨2, 0⟩ "JOIN #c" 103]
/-- Bob's last line: he joins `#c` (client message id 203) -/
def eB : Entry := mk 2 9 ⟨5, 0⟩ "JOIN #c" 203 "10.0.0.2"
/-- afterwards only alice acts: she becomes IRC operator -/
def esC : List Entry := [mk 2 10 ⟨2, 0⟩ "OPER root pw" 104]
def es0 : List Entry := esA ++ eB :: esC
def aliceR : Session := { id := ⟨2, 0⟩, auth := "authA", loggedIn := true, nick := "alice", username := "al", realname := "Alice", channels := ["#c"], lastActivity := 10, lastNonPing := 10, operator := true, created := 2, modes := ['o'], svid := "0", lastClientMessageId := 104, ircPrefix := ⟨"alice", "al", "robust/0x2"⟩ }
def bobR : Session := { id := ⟨5, 0⟩, auth := "authB", loggedIn := true, nick := "Bob", username := "bo", realname := "Bob", channels := ["#c"], lastActivity := 9, lastNonPing := 9, created := 5, svid := "0", lastClientMessageId := 203, ircPrefix := ⟨"Bob", "bo", "robust/0x5"⟩, remoteAddr := "10.0.0.2" }
/-- the state reached from the initial state by `es0` (`run0`) -/
def stR : St :=
  { sessions := [(⟨2, 0⟩, aliceR), (⟨5, 0⟩, bobR)]
    nicks := [("alice", ⟨2, 0⟩), ("bob", ⟨5, 0⟩)]
    channels := [("#c", { name := "#c", nicks := [("alice", { chanop := true }), ("bob", {})], modes := ['n', 't'] })]
    lastProcessed := ⟨2, 0⟩
    config := { revision := 1, operators := [("root", "pw")] } }
theorem run0 : runEntries {} es0 = .ok stR := by
  have h1 : (runEntries {} es0).isOk = true := by decide +kernel
  have h2 : runSt (runEntries {} es0) = stR := by decide +kernel
  rw [← h2]; exact run_eq_of_isOk h1
theorem wf0 : WfHistory {} es0 := wf_of_B (by decide +kernel)
/-- `stR` is reachable, hence satisfies the full invariant -/
theorem invR : GPInv stR := run_preserves_gp GPInv_init wf0 run0
theorem wfR : SessWf stR := invR.sessWf
theorem aliceR_stored : AMap.get stR.sessions ⟨2, 0⟩ = some aliceR := by decide
theorem bobR_stored : AMap.get stR.sessions ⟨5, 0⟩ = some bobR := by decide
/-- Bob's session authenticates with its auth string -/
theorem bob_auth : session stR (some "authB") "0x5" = .ok ⟨5, 0⟩ := rfl

def ctxOf (r : Res Ctx) : Ctx :=
  match r with
  | .ok c => c
  | _ => { st := {}, msgid := 0 }
theorem eq_ok_ctx {r : Res Ctx} (h : r.isOk = true) : r = .ok (ctxOf r) := by
  cases r with
  | ok a => rfl
  | panic s => cases h
  | declined w => cases h

def sessView (r : Except SessErr Id) : Option Id × Option SessErr :=
  match r with
  | .ok i => (some i, none)
  | .error e => (none, some e)
theorem sess_ok_of_view {r : Except SessErr Id} {i : Id} (h : sessView r = (some i, none)) : r = .ok i := by
  cases r with
  | ok j => simp only [sessView, Prod.mk.injEq, Option.some.injEq, and_true] at h; rw [h]
  | error e => simp [sessView] at h
theorem sess_error_of_view {r : Except SessErr Id} {e : SessErr} (h : sessView r = (none, some e)) : r = .error e := by
  cases r with
  | ok j => simp [sessView] at h
  | error e' => simp only [sessView, Prod.mk.injEq, Option.some.injEq, true_and] at h; rw [h]

/-! ### part 1 -/

/-- `C10_retry_not_proposed`: Bob repeats the id of his last line (203) -/
example : handlePost stR (some "authB") "0x5" 203 "JOIN #c" "10.0.0.2" = ⟨200, none⟩ :=
  C10_retry_not_proposed stR (some "authB") "0x5" ⟨5, 0⟩ bobR 203 "JOIN #c" "10.0.0.2" bob_auth bobR_stored rfl
/-- `C10_fresh_id_proposed`: a new id (204) is proposed, once -/
example : ∃ e, handlePost stR (some "authB") "0x5" 204 "PRIVMSG #c :hi" "10.0.0.2" = ⟨200, some e⟩ ∧ e.type = 2 ∧
    e.session = ⟨5, 0⟩ ∧ e.cmid = 204 :=
  C10_fresh_id_proposed stR (some "authB") "0x5" ⟨5, 0⟩ bobR 204 "PRIVMSG #c :hi" "10.0.0.2" bob_auth bobR_stored (by decide)

/-- Bob's next line as committed entry 11, and the same entry marked as message of death -/
def eNext : Entry := mk 2 11 ⟨5, 0⟩ "PRIVMSG #c :hi" 204 "10.0.0.2"
def eNextDead : Entry := { eNext with type := 5 }
def bobR1 : Session := { bobR with lastClientMessageId := 204, lastActivity := 11, lastNonPing := 11 }
/-- the state after `eNext` (also after `eNextDead`: the PRIVMSG changes nothing else, except that the
client entry sets `lastProcessed`) -/
def stR1 : St := resSt (applyEntry stR eNext)
theorem eNext_ok : (applyEntry stR eNext).isOk = true := by decide +kernel
theorem eNextDead_ok : (applyEntry stR eNextDead).isOk = true := by decide +kernel
theorem bobR1_stored : AMap.get stR1.sessions ⟨5, 0⟩ = some bobR1 := by decide +kernel

/-- `C10_marker_set_first` -/
example : ∃ st1 s1, updateLastClientMessageID stR eNext = some st1 ∧ AMap.get st1.sessions ⟨5, 0⟩ = some s1 ∧
    s1.lastClientMessageId = 204 := C10_marker_set_first stR eNext bobR bobR_stored
/-- `C10_marker_set_by_death` -/
example : ∃ st1 s1, applyEntry stR eNextDead = .ok (st1, []) ∧ AMap.get st1.sessions ⟨5, 0⟩ = some s1 ∧
    s1.lastClientMessageId = 204 := C10_marker_set_by_death stR eNextDead rfl bobR bobR_stored
example : markers (resSt (applyEntry stR eNextDead)) = [(⟨2, 0⟩, 104), (⟨5, 0⟩, 204)] := by decide +kernel

/-- `C10_retry_after_apply`: on the state after `eNext`, three repeats (also from another address) -/
example : ∀ r ∈ [("PRIVMSG #c :hi", "10.0.0.2"), ("PRIVMSG #c :hi", "10.0.0.9"), ("PRIVMSG #c :other text", "10.0.0.2")],
    handlePost stR1 (some "authB") "0x5" 204 r.1 r.2 = ⟨200, none⟩ :=
  C10_retry_after_apply stR1 (some "authB") "0x5" ⟨5, 0⟩ bobR1 204
    (sess_ok_of_view (by decide +kernel))
    bobR1_stored rfl _

/-- Bob quits with his next line; alternatively alice kills him -/
def eQuit : Entry := mk 2 11 ⟨5, 0⟩ "QUIT :bye" 204 "10.0.0.2"
def eKill : Entry := mk 2 11 ⟨2, 0⟩ "KILL bob :bye" 105
theorem eQuit_ok : (applyEntry stR eQuit).isOk = true := by decide +kernel
theorem eKill_ok : (applyEntry stR eKill).isOk = true := by decide +kernel
/-- `C10_retry_after_close`: after the QUIT was applied the retry of id 204 fails authentication
(hypothesis), nothing is proposed.  (The error is `notYetSeen`, not `noSuchSession`: the client entry set
`lastProcessed` to the session's own numeric id, 5 — see C17; `handlePost` answers 404 for both.) -/
example : (handlePost (resSt (applyEntry stR eQuit)) (some "authB") "0x5" 204 "QUIT :bye" "10.0.0.2").proposal = none :=
  C10_retry_after_close _ (some "authB") "0x5" .notYetSeen (sess_error_of_view (by decide +kernel)) 204 _ _
example : markers (resSt (applyEntry stR eQuit)) = [(⟨2, 0⟩, 104)] := by decide +kernel

/-! ### part 2 -/

/-- alice's KILL of Bob as a handler run on the reached state -/
def cR : Ctx := { st := stR, msgid := 11 }
def mKill : IrcMsg := ⟨none, "KILL", ["bob", "bye"]⟩
theorem kill_ok : (cmdKill cR ⟨2, 0⟩ mKill).isOk = true := by decide +kernel
/-- `C10_handlers_keep_marker`: hypotheses `hh`, `h0`, `hw`, `hr` hold for the KILL … -/
example : ∀ σ s', AMap.get (ctxOf (cmdKill cR ⟨2, 0⟩ mKill)).st.sessions σ = some s' →
    (∃ s, AMap.get stR.sessions σ = some s ∧ s'.lastClientMessageId = s.lastClientMessageId) ∨
    (AMap.get stR.sessions σ = none ∧ s'.lastClientMessageId = 0 ∧ σ.reply ≠ 0) :=
  fun _ _ hs' => C10_handlers_keep_marker (fname := "cmdKill") rfl (c := cR) (sid := ⟨2, 0⟩) (m := mKill) rfl wfR
    (eq_ok_ctx kill_ok) hs'
/-- … and `hs'` for both sessions: Bob is flagged and off the channel but still stored, markers as before -/
example : (ctxOf (cmdKill cR ⟨2, 0⟩ mKill)).st.sessions.map (fun p => (p.1, p.2.deleted, p.2.lastClientMessageId)) =
      [(⟨2, 0⟩, false, 104), (⟨5, 0⟩, true, 203)] ∧
    (ctxOf (cmdKill cR ⟨2, 0⟩ mKill)).st.channels.map (fun p => (p.1, AMap.keys p.2.nicks)) = [("#c", ["alice"])] :=
  ⟨by decide +kernel, by decide +kernel⟩
/-- `C10_handlers_keep_sessions` for the killed session -/
example : ∃ s', AMap.get (ctxOf (cmdKill cR ⟨2, 0⟩ mKill)).st.sessions ⟨5, 0⟩ = some s' ∧ s'.lastClientMessageId = 203 :=
  C10_handlers_keep_sessions (fname := "cmdKill") rfl (c := cR) (sid := ⟨2, 0⟩) (m := mKill) rfl wfR (eq_ok_ctx kill_ok) bobR_stored

-- AUDIT: the second disjunct of `C10_handlers_keep_marker` (a pseudo-client created by a services `NICK`) is
-- not exemplified here: its id is `⟨link, fnv64 nick⟩` and `fnv64` (via `String.toUTF8`) does not reduce in the
-- kernel (`decide +kernel` gets stuck on it); the disjunct is part of the conclusion, no hypothesis depends on it.

theorem pm_ok : (processMessage cR eKill (parseMessage eKill.data)).isOk = true := by decide +kernel
/-- `C10_processMessage_keeps_marker` for the same line through the gate -/
example : ∀ σ s', AMap.get (ctxOf (processMessage cR eKill (parseMessage eKill.data))).st.sessions σ = some s' →
    (∃ s, AMap.get stR.sessions σ = some s ∧ s'.lastClientMessageId = s.lastClientMessageId) ∨
    (AMap.get stR.sessions σ = none ∧ s'.lastClientMessageId = 0 ∧ σ.reply ≠ 0) :=
  fun _ _ hs' => C10_processMessage_keeps_marker (c := cR) (e := eKill) rfl wfR (eq_ok_ctx pm_ok) hs'
example : markers (ctxOf (processMessage cR eKill (parseMessage eKill.data))).st = [(⟨2, 0⟩, 104), (⟨5, 0⟩, 203)] := by decide +kernel

/-- `C10_client_entry_marker` on `eNext` (Bob's PRIVMSG): Bob's marker becomes 204, alice keeps 104 -/
example : (∀ s', AMap.get stR1.sessions ⟨5, 0⟩ = some s' → s'.lastClientMessageId = 204) ∧
    (∀ σ s s', σ ≠ ⟨5, 0⟩ → AMap.get stR.sessions σ = some s → AMap.get stR1.sessions σ = some s' →
      s'.lastClientMessageId = s.lastClientMessageId) :=
  C10_client_entry_marker (e := eNext) wfR (entryOk_of_B (by decide)) rfl (eq_ok_of_isOk eNext_ok)
example : markers stR1 = [(⟨2, 0⟩, 104), (⟨5, 0⟩, 204)] := by decide +kernel
/-- … and on `eKill`, where the session of the entry survives and the other one is removed -/
example : ∀ s', AMap.get (resSt (applyEntry stR eKill)).sessions ⟨2, 0⟩ = some s' → s'.lastClientMessageId = 105 :=
  (C10_client_entry_marker (e := eKill) wfR (entryOk_of_B (by decide)) rfl (eq_ok_of_isOk eKill_ok)).1
example : markers (resSt (applyEntry stR eKill)) = [(⟨2, 0⟩, 105)] := by decide +kernel

/-- `C10_death_entry_marker` on `eNextDead` -/
example : (∀ s', AMap.get (resSt (applyEntry stR eNextDead)).sessions ⟨5, 0⟩ = some s' → s'.lastClientMessageId = 204) ∧
    (∀ σ s s', σ ≠ ⟨5, 0⟩ → AMap.get stR.sessions σ = some s →
      AMap.get (resSt (applyEntry stR eNextDead)).sessions σ = some s' → s'.lastClientMessageId = s.lastClientMessageId) :=
  C10_death_entry_marker (e := eNextDead) wfR (entryOk_of_B (by decide)) rfl (eq_ok_of_isOk eNextDead_ok)

/-- a DeleteSession entry for Bob, a CreateSession entry, a Config entry -/
def eDel : Entry := mk 1 11 ⟨5, 0⟩ "expired" 0
def eNew : Entry := mk 0 11 ⟨0, 0⟩ "authC" 0
def eCfg : Entry := { mk 6 11 ⟨0, 0⟩ "…toml…" 0 with rev := 2, cfg := some { maxChannels := 5 } }
theorem eDel_ok : (applyEntry stR eDel).isOk = true := by decide +kernel
theorem eNew_ok : (applyEntry stR eNew).isOk = true := by decide +kernel
theorem eCfg_ok : (applyEntry stR eCfg).isOk = true := by decide +kernel
/-- `C10_other_entries_keep_marker` for each of the three (σ = alice, resp. Bob) -/
example : ∀ s', AMap.get (resSt (applyEntry stR eDel)).sessions ⟨2, 0⟩ = some s' → s'.lastClientMessageId = 104 :=
  fun _ hs' => C10_other_entries_keep_marker (e := eDel) wfR (entryOk_of_B (by decide)) (by decide) (by decide)
    (eq_ok_of_isOk eDel_ok) aliceR_stored hs'
example : ∀ s', AMap.get (resSt (applyEntry stR eNew)).sessions ⟨5, 0⟩ = some s' → s'.lastClientMessageId = 203 :=
  fun _ hs' => C10_other_entries_keep_marker (e := eNew) wfR (entryOk_of_B (by decide)) (by decide) (by decide)
    (eq_ok_of_isOk eNew_ok) bobR_stored hs'
example : ∀ s', AMap.get (resSt (applyEntry stR eCfg)).sessions ⟨5, 0⟩ = some s' → s'.lastClientMessageId = 203 :=
  fun _ hs' => C10_other_entries_keep_marker (e := eCfg) wfR (entryOk_of_B (by decide)) (by decide) (by decide)
    (eq_ok_of_isOk eCfg_ok) bobR_stored hs'
example : markers (resSt (applyEntry stR eDel)) = [(⟨2, 0⟩, 104)] ∧
    markers (resSt (applyEntry stR eNew)) = [(⟨2, 0⟩, 104), (⟨5, 0⟩, 203), (⟨11, 0⟩, 0)] ∧
    markers (resSt (applyEntry stR eCfg)) = [(⟨2, 0⟩, 104), (⟨5, 0⟩, 203)] :=
  ⟨by decide +kernel, by decide +kernel, by decide +kernel⟩

/-- `C10_new_session_marker_zero`: session 11 is not stored in `stR` and is stored after `eNew` -/
example : ∀ s', AMap.get (resSt (applyEntry stR eNew)).sessions ⟨11, 0⟩ = some s' →
    s'.lastClientMessageId = 0 ∧ ((⟨11, 0⟩ : Id).reply = 0 → eNew.type = 0 ∧ (⟨11, 0⟩ : Id) = ⟨eNew.id, 0⟩) :=
  fun _ hs' => C10_new_session_marker_zero (e := eNew) wfR (entryOk_of_B (by decide)) (eq_ok_of_isOk eNew_ok)
    (by decide) hs'

/-! ### histories -/

/-- `C10_marker_is_last_cmid` from the *initial* state along `es0` (σ = Bob, not stored at the start, so
`hP` holds for any `m0`; `m0 := 0`): the marker in `stR` is the expected one, 203 -/
example : bobR.lastClientMessageId = expectedMarker ⟨5, 0⟩ 0 es0 :=
  C10_marker_is_last_cmid (st := {}) (σ := ⟨5, 0⟩) (m0 := 0) (SessWf.of_core GPInv_init.ginv.inv.toWInvCore) wf0 rfl
    (fun s hs => by cases hs) run0 bobR_stored
example : expectedMarker ⟨5, 0⟩ 0 es0 = 203 ∧ expectedMarker ⟨2, 0⟩ 0 es0 = 104 := by decide

/-- a continuation from the reached state: Bob talks twice, alice kills him, a message of death of alice, a
new session -/
def es1 : List Entry := [eNext, mk 2 12 ⟨5, 0⟩ "PRIVMSG #c :again" 205 "10.0.0.2", mk 2 13 ⟨2, 0⟩ "KILL bob :bye" 105,
  mk 5 14 ⟨2, 0⟩ "boom" 106, mk 0 15 ⟨0, 0⟩ "authC" 0]
theorem run1_ok : (runEntries stR es1).isOk = true := by decide +kernel
theorem wf1 : WfHistory stR es1 := wf_of_B (by decide +kernel)
/-- `C10_marker_is_last_cmid` from the reached state (σ = alice, stored with marker 104: `hP`) -/
example : ∀ s', AMap.get (runSt (runEntries stR es1)).sessions ⟨2, 0⟩ = some s' → s'.lastClientMessageId = 106 :=
  fun _ hs' => C10_marker_is_last_cmid (σ := ⟨2, 0⟩) (m0 := 104) wfR wf1 rfl
    (fun s hs => by rw [aliceR_stored] at hs; cases hs; rfl) (run_eq_of_isOk run1_ok) hs'
example : markers (runSt (runEntries stR es1)) = [(⟨2, 0⟩, 106), (⟨15, 0⟩, 0)] := by decide +kernel

/-- `C10_retry_after_history` with the whole history from the initial state: `es0 = esA ++ eB :: esC`,
`eB` is Bob's last entry, only alice acts afterwards; on the resulting node a POST of Bob repeating 203 is
acknowledged without a proposal -/
example : handlePost stR (some "authB") "0x5" 203 "JOIN #c" "10.0.0.7" = ⟨200, none⟩ :=
  C10_retry_after_history (st := {}) (es1 := esA) (es2 := esC) (e := eB) (σ := ⟨5, 0⟩)
    (SessWf.of_core GPInv_init.ginv.inv.toWInvCore) wf0 (by decide) (by decide) run0 (some "authB") "0x5" bob_auth _ _
/-- … and from the reached state, where the last entry of alice is a message of death (type 5) followed by
entries of others -/
example : handlePost (runSt (runEntries stR es1)) (some "authA") "0x2" 106 "boom" "" = ⟨200, none⟩ :=
  C10_retry_after_history (st := stR) (es1 := es1.take 3) (es2 := es1.drop 4) (e := mk 5 14 ⟨2, 0⟩ "boom" 106) (σ := ⟨2, 0⟩)
    wfR wf1 (by decide) (by decide) (run_eq_of_isOk run1_ok) (some "authA") "0x2" (sess_ok_of_view (by decide +kernel)) _ _
end Ex

end Robust.Props.C10
