import Robust.Stream.Codec
import Robust.Codec.Message
import Robust.Base.Records
import Robust.Gen.Copies
/-!
# C18 — every writer/reader pair of the on-disk and on-wire formats round-trips

* output batches: byte-exact model of `marshal`/`unmarshalMessageBatch`, round-trip proved for
  every batch (any number of messages, recipients, any payload bytes);
* replicated messages and raft log entries: the field copies around the wire codecs are
  **regenerated from the Go source** (`Gen.Copies`); the theorems below are statements about
  those regenerated tables, lifted to all records by `Records.rt_sound`.
-/
namespace Robust.Props.C18
open Robust Robust.Stream Robust.Records Robust.Facts Robust.Codec

/-! ## output batches -/

/-- An output batch written to the output store decodes to the same ids, text and recipient
list.  `hflags`: only `true` is ever stored in a recipient map (regenerated fact
`C18_only_true_stored`); a `false` entry would be written as a key and come back as `true`. -/
theorem C18_batch_roundtrip (b : Batch) (h : WfBatch b)
    (hflags : ∀ m ∈ b.msgs, ∀ r ∈ m.rcpt, r.2 = true) :
    unmarshal (marshal b) = some b := by
  rw [unmarshal_marshal b h, Batch.allTrue_eq b hflags]

/-- without the hypothesis on the flags: ids, text and the recipient *keys* still round-trip -/
theorem C18_batch_roundtrip_keys (b : Batch) (h : WfBatch b) :
    unmarshal (marshal b) = some b.allTrue := unmarshal_marshal b h

/-- regenerated fact: every store into an `InterestingFor` map stores the constant `true` -/
theorem C18_only_true_stored :
    Gen.Copies.interestingForStores.all (fun s => s.2 == "true") = true := by decide

/-- decoding is total on well-formed input only: a truncated buffer is rejected (Go: panic),
never silently mis-decoded -/
theorem C18_batch_truncated : unmarshal (marshal ⟨[⟨1, 1, [65], [(7, true)]⟩], noNext⟩ |>.dropLast) = none := by
  decide

/-! ## replicated messages (`robust.Message` ⇄ `pb.RobustMessage`) -/

def lookup (n : String) (l : List (String × List CopyFact)) : List CopyFact :=
  match l.find? (fun e => e.1 == n) with
  | some e => e.2
  | none => []

def encProtoMessage := lookup "internal/robust:Message.ProtoMessage" Gen.Copies.pb_RobustMessage_from_robust_Message
def encCopyToProto := lookup "internal/robust:Message.CopyToProtoMessage" Gen.Copies.pb_RobustMessage_from_robust_Message
def decFromBytes := lookup "internal/robust:NewMessageFromBytes" Gen.Copies.robust_Message_from_pb_RobustMessage

/-- all fields of `robust.Message` that are part of the replicated format (`InterestingFor` is
`json:"-"` and never encoded: it is recomputed by every node) -/
def msgFields : List String := Gen.Copies.fields_robust_Message.filter (· ≠ "InterestingFor")

theorem C18_msg_fields : msgFields = ["ClientMessageId", "Currentmaster", "Data", "Id.Id", "Id.Reply",
    "RemoteAddr", "Revision", "Servers", "Session.Id", "Session.Reply", "Type", "UnixNano"] := by decide

/-- A replicated message encoded with `ProtoMessage` decodes to the same message (every field of
`robust.Message`, for every record). -/
theorem C18_msg_pb_roundtrip (m : Rec) (f : String) (hf : f ∈ msgFields) :
    applyCopies decFromBytes (applyCopies encProtoMessage m) f = m f :=
  rt_sound encProtoMessage decFromBytes msgFields (by decide) m f hf

theorem C18_msg_pb_roundtrip_copy (m : Rec) (f : String) (hf : f ∈ msgFields) :
    applyCopies decFromBytes (applyCopies encCopyToProto m) f = m f :=
  rt_sound encCopyToProto decFromBytes msgFields (by decide) m f hf

/-- both protobuf encoders agree -/
theorem C18_encoders_agree : sameTable encProtoMessage encCopyToProto = true ∧
    dstFunctional encProtoMessage = true ∧ dstFunctional encCopyToProto = true := by decide

/-- every field of the protobuf message is written by the encoders (nothing is left at its zero
value by accident) -/
theorem C18_pb_fields_all_written :
    Gen.Copies.fields_pb_RobustMessage.all (fun f => encProtoMessage.any (·.dst == f) && encCopyToProto.any (·.dst == f)) = true := by
  decide

/-- the id defaults to the raft index only when absent (regenerated condition + model) -/
theorem C18_id_default_fact : Gen.Copies.idDefaultCond = "msg.Id.Id == 0" ∧ Gen.Copies.idDefaultBody = "msg.Id.Id = index" := by
  decide

theorem C18_id_default (m : RMsg) (index : Nat) :
    (m.id ≠ 0 → fromBytes m index = m) ∧ (m.id = 0 → fromBytes m index = { m with id := index }) := by
  unfold fromBytes RMsg.withDefaultId
  constructor <;> intro h <;> simp [h]

/-! ## raft log entries (`raft.Log` ⇄ `pb.RaftLog`) -/

def canonicalLogDecoder : List CopyFact :=
  [⟨"AppendedAt", "AppendedAt", "asTime"⟩, ⟨"Data", "Data", ""⟩, ⟨"Extensions", "Extensions", ""⟩,
   ⟨"Index", "Index", ""⟩, ⟨"Term", "Term", ""⟩, ⟨"Type", "Type", "conv"⟩]

/-- every reader of a stored raft log entry (store, snapshotting, text-log dump, canary, generic
decoder) copies the same six fields in the same way: they decode identically -/
theorem C18_raftlog_readers_agree :
    Gen.Copies.raft_Log_from_pb_RaftLog.all (fun e => sameTable e.2 canonicalLogDecoder && dstFunctional e.2) = true := by
  decide

/-- …and the readers the property names are all present in that regenerated list -/
theorem C18_raftlog_readers_present :
    ["internal/raftlog:FromBytes", "internal/raftstore:LevelDBStore.GetLog", "main:FSM.Snapshot", "main:dumpLogToDisk1", "main:canary"].all
      (fun n => Gen.Copies.raft_Log_from_pb_RaftLog.any (·.1 == n)) = true := by decide

/-- every writer/reader pair round-trips every field of `raft.Log` -/
theorem C18_raftlog_pairs :
    Gen.Copies.pb_RaftLog_from_raft_Log.all (fun w =>
      Gen.Copies.raft_Log_from_pb_RaftLog.all (fun r => rtOK w.2 r.2 Gen.Copies.fields_raft_Log)) = true := by
  decide

theorem C18_raftlog_roundtrip (w r : String × List CopyFact)
    (hw : w ∈ Gen.Copies.pb_RaftLog_from_raft_Log) (hr : r ∈ Gen.Copies.raft_Log_from_pb_RaftLog)
    (m : Rec) (f : String) (hf : f ∈ Gen.Copies.fields_raft_Log) :
    applyCopies r.2 (applyCopies w.2 m) f = m f := by
  have h := C18_raftlog_pairs
  rw [List.all_eq_true] at h
  have h1 := h w hw
  rw [List.all_eq_true] at h1
  exact rt_sound w.2 r.2 _ (h1 r hr) m f hf

theorem C18_raftlog_writers_present :
    ["internal/raftstore:LevelDBStore.StoreLogs", "internal/raftstore:LevelDBStore.ConvertToProto", "main:FSM.Apply"].all
      (fun n => Gen.Copies.pb_RaftLog_from_raft_Log.any (·.1 == n)) = true ∧
    Gen.Copies.fields_raft_Log = Gen.Copies.fields_pb_RaftLog := by decide

/-- output messages handed to / taken from the output store keep id, text and recipients -/
theorem C18_outputstream_copies :
    Gen.Copies.outputstream_Message_from_robust_Message.all (fun e => sameTable e.2 [⟨"Data", "Data", ""⟩, ⟨"Id", "Id", ""⟩, ⟨"InterestingFor", "InterestingFor", ""⟩]) = true ∧
    Gen.Copies.robust_Message_from_outputstream_Message.all (fun e => sameTable e.2 [⟨"Data", "Data", ""⟩, ⟨"Id", "Id", ""⟩, ⟨"InterestingFor", "InterestingFor", ""⟩]) = true := by
  decide

/-- non-vacuity: a concrete two-message batch satisfies the hypotheses of `C18_batch_roundtrip` -/
example : unmarshal (marshal ⟨[⟨5, 1, [104, 105], [(3, true), (9, true)]⟩, ⟨5, 2, [], []⟩], noNext⟩) =
    some ⟨[⟨5, 1, [104, 105], [(3, true), (9, true)]⟩, ⟨5, 2, [], []⟩], noNext⟩ := by decide

/-! ## non-vacuity -/

namespace Ex

/-- a batch of three messages (several recipients, empty and non-empty payloads) pointing to a successor -/
def b1 : Batch := ⟨[⟨5, 1, [104, 105], [(3, true), (9, true)]⟩, ⟨5, 2, [], []⟩,
  ⟨5, 3, [80, 73, 78, 71], [(18446744073709551615, true)]⟩], 12⟩

theorem wf_b1 : WfBatch b1 := by unfold WfBatch WfMsg b1; decide

/-- `C18_batch_roundtrip` instantiated: both hypotheses hold for `b1` -/
example : unmarshal (marshal b1) = some b1 := C18_batch_roundtrip b1 wf_b1 (by unfold b1; decide)

/-- the tail batch (`next = noNext`) is well-formed as well -/
example : unmarshal (marshal { b1 with next := noNext }) = some { b1 with next := noNext } :=
  C18_batch_roundtrip _ (by unfold WfBatch WfMsg b1; decide) (by unfold b1; decide)

/-- a batch with a `false` recipient flag: well-formed, but the flag hypothesis of
`C18_batch_roundtrip` fails and the flag really comes back as `true` -/
def b2 : Batch := ⟨[⟨7, 1, [120], [(3, false), (4, true)]⟩, ⟨7, 2, [], [(3, true)]⟩], noNext⟩

theorem wf_b2 : WfBatch b2 := by unfold WfBatch WfMsg b2; decide

example : unmarshal (marshal b2) =
    some ⟨[⟨7, 1, [120], [(3, true), (4, true)]⟩, ⟨7, 2, [], [(3, true)]⟩], noNext⟩ :=
  C18_batch_roundtrip_keys b2 wf_b2

example : unmarshal (marshal b2) ≠ some b2 := by decide

/-- `WfBatch` is not vacuous the other way either: an id that does not fit 64 bits is not well-formed
and does not round-trip -/
example : ¬ WfBatch ⟨[⟨18446744073709551616, 1, [], []⟩], noNext⟩ := by unfold WfBatch WfMsg; decide

/-- a fully populated record: every field path holds a distinct atom (the timestamp is a `ts`) -/
def rec : Rec := fun f => some (.atom f)

example : applyCopies decFromBytes (applyCopies encProtoMessage rec) "Session.Id" = some (.atom "Session.Id") :=
  C18_msg_pb_roundtrip rec "Session.Id" (by decide)

example : applyCopies decFromBytes (applyCopies encProtoMessage rec) "UnixNano" = some (.atom "UnixNano") :=
  C18_msg_pb_roundtrip rec "UnixNano" (by decide)

example : applyCopies decFromBytes (applyCopies encCopyToProto rec) "Servers" = some (.atom "Servers") :=
  C18_msg_pb_roundtrip_copy rec "Servers" (by decide)

/-- the tables the two theorems speak about are the populated regenerated ones, not the `[]`
default of `lookup` (for which `applyCopies` would be constantly `none`) -/
example : encProtoMessage.length = 12 ∧ encCopyToProto.length = 12 ∧ decFromBytes.length = 12 := by decide

/-- the field that is *not* part of the replicated format does not come back -/
example : applyCopies decFromBytes (applyCopies encProtoMessage rec) "InterestingFor" = none := by decide

def wStore : String × List CopyFact :=
  ("internal/raftstore:LevelDBStore.StoreLogs", lookup "internal/raftstore:LevelDBStore.StoreLogs" Gen.Copies.pb_RaftLog_from_raft_Log)
def wApply : String × List CopyFact :=
  ("main:FSM.Apply", lookup "main:FSM.Apply" Gen.Copies.pb_RaftLog_from_raft_Log)
def rGetLog : String × List CopyFact :=
  ("internal/raftstore:LevelDBStore.GetLog", lookup "internal/raftstore:LevelDBStore.GetLog" Gen.Copies.raft_Log_from_pb_RaftLog)
def rSnapshot : String × List CopyFact :=
  ("main:FSM.Snapshot", lookup "main:FSM.Snapshot" Gen.Copies.raft_Log_from_pb_RaftLog)

/-- `C18_raftlog_roundtrip` instantiated with named writer/reader pairs of the regenerated tables;
`AppendedAt` goes through `timestamppb.New` / `AsTime` -/
example : applyCopies rGetLog.2 (applyCopies wStore.2 rec) "AppendedAt" = some (.atom "AppendedAt") :=
  C18_raftlog_roundtrip wStore rGetLog (by decide) (by decide) rec "AppendedAt" (by decide)

example : applyCopies rSnapshot.2 (applyCopies wApply.2 rec) "Type" = some (.atom "Type") :=
  C18_raftlog_roundtrip wApply rSnapshot (by decide) (by decide) rec "Type" (by decide)

/-- `C18_id_default`, both branches on a populated message -/
example : fromBytes ⟨0, 0, 7, 2, 6, [80], 1700000000000000000, [[104]], [104], 99, 3, [49]⟩ 41 =
    ⟨41, 0, 7, 2, 6, [80], 1700000000000000000, [[104]], [104], 99, 3, [49]⟩ :=
  (C18_id_default _ 41).2 rfl

example : fromBytes ⟨40, 0, 7, 2, 6, [80], 1700000000000000000, [[104]], [104], 99, 3, [49]⟩ 41 =
    ⟨40, 0, 7, 2, 6, [80], 1700000000000000000, [[104]], [104], 99, 3, [49]⟩ :=
  (C18_id_default _ 41).1 (by decide)

end Ex

end Robust.Props.C18
