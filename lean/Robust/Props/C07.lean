import Robust.Fsm.Death
import Robust.Irc.Apply
import Robust.Gen.Exprs
/-!
# C07 — a message of death is contained: marked durably, skipped on every replay

`Fsm.Death` is generic in the state machine (`apply s m = none` = panic).  The IRC instance is
`applyEntry`; the Go wiring (mark, store, exit — in that order; marked entries are skipped by the
recover handler; the marker update is the first thing both the death case and the client case
do) is pinned by facts regenerated from statemachine.go.
-/
namespace Robust.Props.C07
open Robust Robust.Irc Robust.Fsm.Death

variable {S M : Type}

/-- If applying an entry panics, the node marks **exactly that entry** (same message, nothing
else in the durable log changes), every entry before it had been applied normally, and the
process terminates. -/
theorem C07_marks_exactly_that_entry (apply : S → M → Option S) (death : S → M → S) (s : S) (log : List (E M))
    (h : (life apply death s log).2 = none) :
    ∃ pre e post sk, log = pre ++ e :: post ∧ e.dead = false ∧
      (life apply death s log).1 = pre ++ { e with dead := true } :: post ∧
      replay apply death s pre = some sk ∧ apply sk e.msg = none :=
  life_dies apply death s log h

/-- A process life that does not crash leaves the durable log untouched and ends in the state
obtained by replaying it (marked entries having only their marker effect). -/
theorem C07_survivor (apply : S → M → Option S) (death : S → M → S) (s : S) (log : List (E M)) (s' : S)
    (h : (life apply death s log).2 = some s') :
    (life apply death s log).1 = log ∧ replay apply death s log = some s' :=
  life_survives apply death s log s' h

/-- After at most one restart per not-yet-marked entry the node is up again: the durable log
differs from the original only in message-of-death marks, replaying it no longer panics, and the
node's state is exactly that replay — so every other entry keeps its effect, and a log that
already contains marked entries is replayed without panicking on them. -/
theorem C07_restart_converges (apply : S → M → Option S) (death : S → M → S) (init : S) (log : List (E M)) (fuel : Nat)
    (hf : alive log < fuel) :
    ∃ s, (lives apply death init fuel log).2 = some s ∧
      replay apply death init (lives apply death init fuel log).1 = some s ∧
      (lives apply death init fuel log).1.map (·.msg) = log.map (·.msg) :=
  lives_converge apply death init log fuel hf

/-! ## the IRC instance of the marker effect -/

/-- Replaying an entry that is marked as message of death never panics and produces no output. -/
theorem C07_death_no_output (st : St) (e : Entry) (h : e.type = 5) :
    applyEntry st e = .ok ((updateLastClientMessageID st e).getD st, []) := by
  unfold applyEntry; simp [h]

/-- …its only effect is on the session it names: the duplicate-detection marker advances (and
the activity timestamps), nothing else in the state changes. -/
theorem C07_death_marker (st : St) (e : Entry) (s : Session) (hs : AMap.get st.sessions e.session = some s) :
    ∃ s', updateLastClientMessageID st e = some { st with sessions := AMap.set st.sessions e.session s' } ∧
      s'.lastClientMessageId = e.cmid ∧ s'.lastActivity = e.timestamp ∧
      s'.id = s.id ∧ s'.nick = s.nick ∧ s'.channels = s.channels ∧ s'.loggedIn = s.loggedIn ∧ s'.operator = s.operator ∧
      s'.server = s.server ∧ s'.deleted = s.deleted ∧ s'.auth = s.auth ∧ s'.modes = s.modes ∧ s'.invitedTo = s.invitedTo := by
  unfold updateLastClientMessageID
  simp only [hs]
  exact ⟨_, rfl, rfl, rfl, rfl, rfl, rfl, rfl, rfl, rfl, rfl, rfl, rfl, rfl⟩

/-- a marked entry of a session that no longer exists changes nothing at all -/
theorem C07_death_unknown_session (st : St) (e : Entry) (h : e.type = 5) (hs : AMap.get st.sessions e.session = none) :
    applyEntry st e = .ok (st, []) := by
  unfold applyEntry updateLastClientMessageID; simp [h, hs]

/-- wiring regenerated from statemachine.go: the recover handler skips entries that are already
marked, marks the message (`msg.Type = MessageOfDeath`), rewrites the log entry's data, stores it
in raft's log store and only then exits; and the death case updates the marker first. -/
theorem C07_wiring :
    Gen.Exprs.fact "death.skipguard" = "param2.Type == robust.MessageOfDeath => return" ∧
    Gen.Exprs.fact "death.assign" = "param2.Type = robust.MessageOfDeath" ∧
    Gen.Exprs.fact "death.rewrite" = "param1.Data = local:[]byte" ∧
    Gen.Exprs.fact "death.store" = "recv.store.StoreLogProto(param1)" ∧
    Gen.Exprs.fact "death.order.mark-store-exit" = "true" ∧
    Gen.Exprs.fact "death.case.first" = "param2.UpdateLastClientMessageID(param1)" := by decide

/-- non-vacuity: a three-entry log whose middle entry panics needs exactly one restart -/
example :
    let apply : Nat → Nat → Option Nat := fun s m => if m = 13 then none else some (s + m)
    let death : Nat → Nat → Nat := fun s _ => s
    (lives apply death 0 2 [⟨1, false⟩, ⟨13, false⟩, ⟨5, false⟩]).2 = some 6 ∧
    (lives apply death 0 2 [⟨1, false⟩, ⟨13, false⟩, ⟨5, false⟩]).1.map (·.dead) = [false, true, false] := by decide

/-! ## non-vacuity -/

namespace Ex
/-- a toy state machine: the state is the sum of the applied messages, `13` and `17` panic; the
marker effect of a skipped message adds `100` -/
def apply : Nat → Nat → Option Nat := fun s m => if m = 13 ∨ m = 17 then none else some (s + m)
def death : Nat → Nat → Nat := fun s _ => s + 100
/-- six durable entries: one already marked (`7`), two that panic and are not marked yet -/
def log : List (E Nat) := [⟨1, false⟩, ⟨7, true⟩, ⟨13, false⟩, ⟨5, false⟩, ⟨17, false⟩, ⟨2, false⟩]
/-- the same log after both restarts: all three bad entries marked -/
def logMarked : List (E Nat) := [⟨1, false⟩, ⟨7, true⟩, ⟨13, true⟩, ⟨5, false⟩, ⟨17, true⟩, ⟨2, false⟩]
def view (l : List (E Nat)) : List (Nat × Bool) := l.map fun e => (e.msg, e.dead)

/-- `C07_marks_exactly_that_entry`: the first life dies (hypothesis), at entry `13` -/
example : ∃ pre e post sk, log = pre ++ e :: post ∧ e.dead = false ∧
    (life apply death 0 log).1 = pre ++ { e with dead := true } :: post ∧
    replay apply death 0 pre = some sk ∧ apply sk e.msg = none :=
  C07_marks_exactly_that_entry apply death 0 log (by decide)
/-- … concretely: only the third entry is rewritten; the prefix `[1, 7†]` had been replayed to `101` -/
example : (life apply death 0 log).2 = none ∧
    view (life apply death 0 log).1 = [(1, false), (7, true), (13, true), (5, false), (17, false), (2, false)] ∧
    replay apply death 0 (log.take 2) = some 101 ∧ apply 101 13 = none := by decide

/-- `C07_survivor`: a life over the fully marked log survives (hypothesis), the log is untouched -/
example : (life apply death 0 logMarked).1 = logMarked ∧ replay apply death 0 logMarked = some 308 :=
  C07_survivor apply death 0 logMarked 308 (by decide)
example : view (life apply death 0 logMarked).1 = view logMarked := by decide

/-- `C07_restart_converges`: five unmarked entries, six lives allowed (hypothesis `alive log < fuel`) -/
example : ∃ s, (lives apply death 0 6 log).2 = some s ∧
    replay apply death 0 (lives apply death 0 6 log).1 = some s ∧
    (lives apply death 0 6 log).1.map (·.msg) = log.map (·.msg) :=
  C07_restart_converges apply death 0 log 6 (by decide)
/-- … concretely: three lives suffice here, the node ends in state `308` with the log `logMarked` -/
example : alive log = 5 ∧ (lives apply death 0 3 log).2 = some 308 ∧
    view (lives apply death 0 3 log).1 = view logMarked ∧ (lives apply death 0 2 log).2 = none := by decide

/-! the IRC instance, on a state with three sessions and a channel -/
def alice : Session := { id := ⟨1, 0⟩, nick := "alice", username := "a", loggedIn := true, channels := ["#c"], operator := true, lastClientMessageId := 41, lastActivity := 4, lastNonPing := 4, ircPrefix := ⟨"alice", "a", "robust/0x1"⟩ }
def bob : Session := { id := ⟨2, 0⟩, nick := "bob", username := "b", loggedIn := true, channels := ["#c"], modes := ['i'], invitedTo := ["#d"], auth := "secret", lastClientMessageId := 77, lastActivity := 8, lastNonPing := 8, ircPrefix := ⟨"bob", "b", "robust/0x2"⟩ }
def carol : Session := { id := ⟨3, 0⟩, nick := "carol", username := "c", loggedIn := true, lastClientMessageId := 5, ircPrefix := ⟨"carol", "c", "robust/0x3"⟩ }
def chanC : Channel := { name := "#c", nicks := [("alice", { chanop := true }), ("bob", {})], modes := ['n', 't'] }
def st0 : St := { sessions := [(⟨1, 0⟩, alice), (⟨2, 0⟩, bob), (⟨3, 0⟩, carol)], nicks := [("alice", ⟨1, 0⟩), ("bob", ⟨2, 0⟩), ("carol", ⟨3, 0⟩)], channels := [("#c", chanC)], lastProcessed := ⟨9, 0⟩ }
/-- a line of bob that was marked as message of death (entry 12, client message id 78) -/
def eDead : Entry := { type := 5, id := 12, session := ⟨2, 0⟩, data := "PRIVMSG #c :boom", unixNano := 0, cmid := 78, rev := 0, remoteAddr := "10.0.0.2", cfg := none }
/-- a marked line of a session that has been deleted in the meantime -/
def eGone : Entry := { eDead with id := 13, session := ⟨7, 0⟩ }
def bob' : Session := { bob with lastClientMessageId := 78, lastActivity := 12, lastNonPing := 12 }
def st1 : St := { st0 with sessions := [(⟨1, 0⟩, alice), (⟨2, 0⟩, bob'), (⟨3, 0⟩, carol)] }
def okSt (r : Res (St × List Out)) : Option (St × Nat) :=
  match r with
  | .ok (st, out) => some (st, out.length)
  | _ => none

/-- `C07_death_no_output` on `st0` / `eDead`, and the concrete result: only bob's marker and activity
timestamps move (77 ↦ 78, 8 ↦ 12); no output; the line itself (`PRIVMSG`) has no effect -/
example : applyEntry st0 eDead = .ok ((updateLastClientMessageID st0 eDead).getD st0, []) :=
  C07_death_no_output st0 eDead rfl
example : okSt (applyEntry st0 eDead) = some (st1, 0) := by decide
/-- `C07_death_marker` on `st0` / `eDead` / `bob` -/
example : ∃ s', updateLastClientMessageID st0 eDead = some { st0 with sessions := AMap.set st0.sessions eDead.session s' } ∧
    s'.lastClientMessageId = 78 ∧ s'.lastActivity = 12 ∧ s'.id = bob.id ∧ s'.nick = "bob" ∧ s'.channels = ["#c"] ∧
    s'.loggedIn = true ∧ s'.operator = false ∧ s'.server = false ∧ s'.deleted = false ∧ s'.auth = "secret" ∧
    s'.modes = ['i'] ∧ s'.invitedTo = ["#d"] :=
  C07_death_marker st0 eDead bob (by decide)
example : updateLastClientMessageID st0 eDead = some st1 := by decide
/-- `C07_death_unknown_session` on `st0` / `eGone` (session 7 is not stored) -/
example : applyEntry st0 eGone = .ok (st0, []) := C07_death_unknown_session st0 eGone rfl (by decide)
/-- so `getD` in `C07_death_no_output` covers exactly these two cases: stored (marker effect) and
not stored (no effect); it does not hide a third one -/
example : (updateLastClientMessageID st0 eGone).getD st0 = st0 ∧ (updateLastClientMessageID st0 eDead).getD st0 = st1 := by decide
end Ex

end Robust.Props.C07
