import Robust.Fsm.Death
import Robust.Irc.Apply
import Robust.Gen.Exprs
/-!
# C07 — a message of death is contained: marked durably, skipped on every replay

`Fsm.Death` is generic in the state machine (`apply s m = none` = panic).  The IRC instance is
`applyEntry`; the Go wiring (mark, store, exit — in that order; marked entries are skipped by the
recover handler; the marker update is the first thing both the death case and the client case
do) is pinned by facts regenerated from statemachine.go.
-/
namespace Robust.Props.C07
open Robust Robust.Irc Robust.Fsm.Death

variable {S M : Type}

/-- If applying an entry panics, the node marks **exactly that entry** (same message, nothing
else in the durable log changes), every entry before it had been applied normally, and the
process terminates. -/
theorem C07_marks_exactly_that_entry (apply : S → M → Option S) (death : S → M → S) (s : S) (log : List (E M))
    (h : (life apply death s log).2 = none) :
    ∃ pre e post sk, log = pre ++ e :: post ∧ e.dead = false ∧
      (life apply death s log).1 = pre ++ { e with dead := true } :: post ∧
      replay apply death s pre = some sk ∧ apply sk e.msg = none :=
  life_dies apply death s log h

/-- A process life that does not crash leaves the durable log untouched and ends in the state
obtained by replaying it (marked entries having only their marker effect). -/
theorem C07_survivor (apply : S → M → Option S) (death : S → M → S) (s : S) (log : List (E M)) (s' : S)
    (h : (life apply death s log).2 = some s') :
    (life apply death s log).1 = log ∧ replay apply death s log = some s' :=
  life_survives apply death s log s' h

/-- After at most one restart per not-yet-marked entry the node is up again: the durable log
differs from the original only in message-of-death marks, replaying it no longer panics, and the
node's state is exactly that replay — so every other entry keeps its effect, and a log that
already contains marked entries is replayed without panicking on them. -/
theorem C07_restart_converges (apply : S → M → Option S) (death : S → M → S) (init : S) (log : List (E M)) (fuel : Nat)
    (hf : alive log < fuel) :
    ∃ s, (lives apply death init fuel log).2 = some s ∧
      replay apply death init (lives apply death init fuel log).1 = some s ∧
      (lives apply death init fuel log).1.map (·.msg) = log.map (·.msg) :=
  lives_converge apply death init log fuel hf

/-! ## the IRC instance of the marker effect -/

/-- Replaying an entry that is marked as message of death never panics and produces no output. -/
theorem C07_death_no_output (st : St) (e : Entry) (h : e.type = 5) :
    applyEntry st e = .ok ((updateLastClientMessageID st e).getD st, []) := by
  unfold applyEntry; simp [h]

/-- …its only effect is on the session it names: the duplicate-detection marker advances (and
the activity timestamps), nothing else in the state changes. -/
theorem C07_death_marker (st : St) (e : Entry) (s : Session) (hs : AMap.get st.sessions e.session = some s) :
    ∃ s', updateLastClientMessageID st e = some { st with sessions := AMap.set st.sessions e.session s' } ∧
      s'.lastClientMessageId = e.cmid ∧ s'.lastActivity = e.timestamp ∧
      s'.id = s.id ∧ s'.nick = s.nick ∧ s'.channels = s.channels ∧ s'.loggedIn = s.loggedIn ∧ s'.operator = s.operator ∧
      s'.server = s.server ∧ s'.deleted = s.deleted ∧ s'.auth = s.auth ∧ s'.modes = s.modes ∧ s'.invitedTo = s.invitedTo := by
  unfold updateLastClientMessageID
  simp only [hs]
  exact ⟨_, rfl, rfl, rfl, rfl, rfl, rfl, rfl, rfl, rfl, rfl, rfl, rfl, rfl⟩

/-- a marked entry of a session that no longer exists changes nothing at all -/
theorem C07_death_unknown_session (st : St) (e : Entry) (h : e.type = 5) (hs : AMap.get st.sessions e.session = none) :
    applyEntry st e = .ok (st, []) := by
  unfold applyEntry updateLastClientMessageID; simp [h, hs]

/-- wiring regenerated from statemachine.go: the recover handler skips entries that are already
marked, marks the message (`msg.Type = MessageOfDeath`), rewrites the log entry's data, stores it
in raft's log store and only then exits; and the death case updates the marker first. -/
theorem C07_wiring :
    Gen.Exprs.fact "death.skipguard" = "msg.Type == robust.MessageOfDeath => return" ∧
    Gen.Exprs.fact "death.assign" = "msg.Type = robust.MessageOfDeath" ∧
    Gen.Exprs.fact "death.rewrite" = "l.Data = data" ∧
    Gen.Exprs.fact "death.store" = "fsm.store.StoreLogProto(l)" ∧
    Gen.Exprs.fact "death.order.mark-store-exit" = "true" ∧
    Gen.Exprs.fact "death.case.first" = "i.UpdateLastClientMessageID(msg)" := by decide

/-- non-vacuity: a three-entry log whose middle entry panics needs exactly one restart -/
example :
    let apply : Nat → Nat → Option Nat := fun s m => if m = 13 then none else some (s + m)
    let death : Nat → Nat → Nat := fun s _ => s
    (lives apply death 0 2 [⟨1, false⟩, ⟨13, false⟩, ⟨5, false⟩]).2 = some 6 ∧
    (lives apply death 0 2 [⟨1, false⟩, ⟨13, false⟩, ⟨5, false⟩]).1.map (·.dead) = [false, true, false] := by decide

end Robust.Props.C07
