import Robust.Api.Model
import Robust.Gen.Routes
/-!
# C11 — session routes need the session secret; admin routes the network password
-/
namespace Robust.Props.C11
open Robust Robust.Irc Robust.Api

/-- A request is authenticated as session σ only if it carries a non-empty secret equal to the
one stored for exactly that session, and σ is a client session (`Reply = 0`). -/
theorem C11_session_sound (st : St) (hdr : Option String) (idStr : String) (σ : Id)
    (h : session st hdr idStr = .ok σ) :
    ∃ s secret, AMap.get st.sessions σ = some s ∧ hdr = some secret ∧ secret ≠ "" ∧ secret = s.auth ∧ σ.reply = 0 := by
  unfold session at h
  cases hp : parseSessionId idStr with
  | none => simp [hp] at h
  | some id =>
    simp only [hp] at h
    split at h
    · cases h
    · rename_i hne
      cases hgs : getSession st ⟨id, 0⟩ with
      | error e => simp only [hgs] at h; cases h
      | ok s =>
        have hg : AMap.get st.sessions ⟨id, 0⟩ = some s := by
          unfold getSession at hgs
          cases hq : AMap.get st.sessions ⟨id, 0⟩ with
          | none => simp only [hq] at hgs; split at hgs <;> cases hgs
          | some s' => simp only [hq] at hgs; cases hgs; rfl
        simp only [hgs] at h
        split at h
        · rename_i heq
          cases h
          cases hdr with
          | none => simp at hne
          | some secret =>
            simp only [Option.getD_some] at hne heq
            exact ⟨s, secret, hg, rfl, hne, heq, rfl⟩
        · cases h

/-- a missing or empty header is always refused -/
theorem C11_no_secret_refused (st : St) (idStr : String) :
    (∀ σ, session st none idStr ≠ .ok σ) ∧ (∀ σ, session st (some "") idStr ≠ .ok σ) := by
  constructor <;> intro σ h <;> obtain ⟨s, secret, _, h2, h3, _, _⟩ := C11_session_sound _ _ _ _ h
  · cases h2
  · cases h2; exact h3 rfl

/-- another session's secret does not open this session (unless both secrets are equal, which
CreateSession's 128 random bytes exclude) -/
theorem C11_other_secret_refused (st : St) (idStr : String) (σ : Id) (s : Session) (secret : String)
    (hs : AMap.get st.sessions σ = some s) (hne : secret ≠ s.auth) : session st (some secret) idStr ≠ .ok σ := by
  intro h
  obtain ⟨s', sec, h1, h2, _, h4, _⟩ := C11_session_sound _ _ _ _ h
  cases h2
  rw [hs] at h1; cases h1
  exact hne h4

/-- services pseudo-clients (`Reply ≠ 0`, empty secret) cannot be named through the API at all -/
theorem C11_pseudo_clients_unreachable (st : St) (hdr : Option String) (idStr : String) (σ : Id) (hr : σ.reply ≠ 0) :
    session st hdr idStr ≠ .ok σ := by
  intro h
  obtain ⟨_, _, _, _, _, _, h5⟩ := C11_session_sound _ _ _ _ h
  exact hr h5

/-- a refused POST or DELETE proposes nothing: no effect on the replicated state -/
theorem C11_refusal_no_effect (st : St) (hdr : Option String) (idStr : String) (e : SessErr)
    (h : session st hdr idStr = .error e) (cmid : Nat) (data addr q : String) :
    handlePost st hdr idStr cmid data addr = ⟨404, none⟩ ∧ handleDelete st hdr idStr q = ⟨404, none⟩ ∧
    getStatus st hdr idStr ≠ 200 := by
  unfold handlePost handleDelete getStatus
  simp only [h, refuse, true_and]
  cases e <;> simp

/-- regenerated from DispatchPublic: every public route except session creation is dominated by
the session check -/
theorem C11_public_guarded :
    Gen.Routes.publicRoutes.all (fun r => r.1 == "handleCreateSession" || r.2.1 == "sessionOrProxy" || r.2.1 == "session(first statement)") = true ∧
    (Gen.Routes.publicRoutes.map (·.1)) = ["handleCreateSession", "handleDeleteSession", "handleGetMessages", "handlePostMessage"] := by
  decide

/-- regenerated from DispatchPrivate: the basic-auth test refuses (401, return) before anything
else runs, the route table is only reachable after it, and nobody else calls that table -/
theorem C11_private_guarded :
    Gen.Routes.privateAuthCond = "!param2.BasicAuth()[2] || \"robustirc\" != param2.BasicAuth()[0] || param2.BasicAuth()[1] != recv.networkPassword" ∧
    Gen.Routes.privateAuthRefusal = "return" ∧
    Gen.Routes.privateDispatchPlacement = ["after-auth"] ∧
    Gen.Routes.withoutAuthCallers = ["internal/api:HTTP.DispatchPrivate"] := by
  decide

/-! ## which handler the listening server reaches

`net/http.ServeMux` picks, among the registered patterns that match the request path (a pattern
ending in `/` matches every path it is a prefix of, any other pattern only itself), the longest
one.  `Gen.Routes.servedRoutes` is regenerated on every run: the registrations on the mux that
the `http.Server` literal of package main serves — when that literal has no `Handler` this is
`http.DefaultServeMux`, and then every package in the import closure of the binary that
registers handlers in its `init` (net/http/pprof, expvar) contributes routes. -/

/-- `strings.HasPrefix` on the characters -/
def isPfx (p s : String) : Bool := p.toList.isPrefixOf s.toList
def endsSlash (p : String) : Bool := p.toList.getLast? == some '/'

/-- `ServeMux` matching: patterns of `routes` that match `path` -/
def muxMatches (routes : List (String × String × String)) (path : String) : List (String × String × String) :=
  routes.filter fun r => (endsSlash r.1 && isPfx r.1 path) || r.1 == path

/-- `ServeMux` dispatch: the handler of the longest matching pattern -/
def muxPick (routes : List (String × String × String)) (path : String) : Option String :=
  ((muxMatches routes path).foldl (fun best r => match best with
    | none => some r
    | some b => if b.1.length < r.1.length then some r else some b) none).map (·.2.1)

/-- the server reaches exactly the two dispatchers: the public one below `/robustirc/v1/`, the
password-checking one for everything else (this failed on the pinned tree: the server served
`http.DefaultServeMux`, on which net/http/pprof and expvar had registered `/debug/pprof/…` and
`/debug/vars` — answered 200 without the network password; fixed in /repo) -/
theorem C11_served_routes :
    Gen.Routes.servedRoutes.map (fun r => (r.1, r.2.1)) =
      [("/", "api.DispatchPrivate"), ("/robustirc/v1/", "api.DispatchPublic")] := by decide

/-- every request path is dispatched to `DispatchPrivate` — whose first action is the basic-auth
test (`C11_private_guarded`) — unless it lies below `/robustirc/v1/` -/
theorem C11_mux_dispatch (path : String) (h : isPfx "/" path = true) :
    muxPick [("/", "api.DispatchPrivate", "main"), ("/robustirc/v1/", "api.DispatchPublic", "main")] path =
      some (if isPfx "/robustirc/v1/" path then "api.DispatchPublic" else "api.DispatchPrivate") := by
  have e1 : endsSlash "/" = true := by decide
  have e2 : endsSlash "/robustirc/v1/" = true := by decide
  have l1 : ("/" : String).length = 1 := by decide
  have l2 : ("/robustirc/v1/" : String).length = 14 := by decide
  by_cases hv : isPfx "/robustirc/v1/" path = true
  · simp [muxPick, muxMatches, List.filter, e1, e2, h, hv, l1, l2]
  · have hne : ("/robustirc/v1/" == path) = false := by
      cases hq : ("/robustirc/v1/" == path)
      · rfl
      · exfalso; apply hv
        have : "/robustirc/v1/" = path := by simpa using hq
        rw [← this]; decide
    have hv' : isPfx "/robustirc/v1/" path = false := by simpa using hv
    simp [muxPick, muxMatches, List.filter, e1, e2, h, hv', hne]

/-- the served routes are what `C11_mux_dispatch` is about -/
theorem C11_served_dispatch (path : String) (h : isPfx "/" path = true) :
    muxPick (Gen.Routes.servedRoutes.map fun r => (r.1, r.2.1, "main")) path =
      some (if isPfx "/robustirc/v1/" path then "api.DispatchPublic" else "api.DispatchPrivate") := by
  have : (Gen.Routes.servedRoutes.map fun r => (r.1, r.2.1, "main")) =
      [("/", "api.DispatchPrivate", "main"), ("/robustirc/v1/", "api.DispatchPublic", "main")] := by decide
  rw [this]; exact C11_mux_dispatch path h

/-- what a request meets first, as far as credentials are concerned -/
inductive Gate where
  | sessionSecret     -- `DispatchPublic`: the session check of `C11_public_guarded` (creation excepted)
  | unauthorized      -- `DispatchPrivate` without the network password: 401, nothing else runs
  | privateTable      -- `DispatchPrivate` with the network password: the table of private routes
  deriving DecidableEq, Repr

/-- the listening server on a request: the mux over the regenerated routes, then `DispatchPrivate`'s
basic-auth test (`C11_private_guarded`: the test comes first and refuses with 401) -/
def gate (path : String) (passwordOk : Bool) : Option Gate :=
  match muxPick (Gen.Routes.servedRoutes.map fun r => (r.1, r.2.1, "main")) path with
  | some "api.DispatchPublic" => some .sessionSecret
  | some "api.DispatchPrivate" => some (if passwordOk then .privateTable else .unauthorized)
  | _ => none

/-- every path that is not below `/robustirc/v1/` answers 401 unless basic auth carries the network
password — whatever the path is (status, irclog, config, join/part/quit/kill, snapshot, raft transport,
`/debug/…`, anything else) -/
theorem C11_outside_v1_needs_password (path : String) (h : isPfx "/" path = true)
    (hv : isPfx "/robustirc/v1/" path = false) (passwordOk : Bool) :
    gate path passwordOk = some (if passwordOk then .privateTable else .unauthorized) := by
  unfold gate
  rw [C11_served_dispatch path h, hv]
  simp

/-- and every path below it is subject to the session check -/
theorem C11_v1_needs_session (path : String) (h : isPfx "/" path = true)
    (hv : isPfx "/robustirc/v1/" path = true) (passwordOk : Bool) :
    gate path passwordOk = some .sessionSecret := by
  unfold gate
  rw [C11_served_dispatch path h, hv]
  simp

example : gate "/debug/pprof/cmdline" false = some .unauthorized := by decide
example : gate "/status" true = some .privateTable := by decide
example : gate "/robustirc/v1/0x5/message" false = some .sessionSecret := by decide

/-- the mux model on concrete paths, with the routes of the pinned tree's `DefaultServeMux`:
the debug handlers won over the catch-all dispatcher -/
example : muxPick [("/", "api.DispatchPrivate", ""), ("/debug/pprof/", "Index", "net/http/pprof"),
    ("/robustirc/v1/", "api.DispatchPublic", "")] "/debug/pprof/goroutine" = some "Index" := by decide
example : muxPick [("/", "api.DispatchPrivate", ""), ("/robustirc/v1/", "api.DispatchPublic", "")]
    "/debug/pprof/goroutine" = some "api.DispatchPrivate" := by decide
example : muxPick [("/", "api.DispatchPrivate", ""), ("/robustirc/v1/", "api.DispatchPublic", "")]
    "/robustirc/v1/session" = some "api.DispatchPublic" := by decide

/-- non-vacuity: the correct secret is accepted -/
example : (match session { sessions := [(⟨5, 0⟩, { id := ⟨5, 0⟩, auth := "s3cret" })] } (some "s3cret") "0x5" with
    | .ok σ => σ == ⟨5, 0⟩ | .error _ => false) = true := by decide

end Robust.Props.C11
