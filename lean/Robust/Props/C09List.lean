import Robust.Props.C09
import Robust.Store.ListView
/-!
C09 (list view): under `WF`, the log half of the LevelDB store is a strictly increasing list of
indexes `logIndexes s` (computed from the keys of `s.kv`), and `StoreLogs`/`StoreLogProto`,
`DeleteRange`, `FirstIndex`/`LastIndex`, `GetBulkIterator` and `GetLog` act on it as sorted insert,
filter, head/last, filter and membership — the behaviour `Robust/Fsm/Model.lean` assumes of the node's
log copy (`irc`, manipulated with `insertSorted`, list filters, head/last).  Together with
`logView` (index ↦ entry, C09) this determines the list of entries.
-/
namespace Robust.Props.C09List
open Robust Robust.Bytes Robust.Codec Robust.Store Robust.Props.C09

-- the theorem statements carry `WF` / bound hypotheses uniformly, also where a proof does not need them
set_option linter.unusedVariables false

/-! ### 1. the list: order, bounds, membership -/

theorem C09_list_sorted (s : Store) (h : WF s) : (logIndexes s).Pairwise (· < ·) :=
  kvIndexes_sorted s.kv h.1 h.2

theorem C09_list_bound (s : Store) (h : WF s) (i : Nat) (hm : i ∈ logIndexes s) : i < 2^64 :=
  kvIndexes_lt s.kv h.2 i hm

theorem isSome_iff_mem_kv (s : Store) (h : WF s) (i : Nat) (hi : i < 2^64) :
    (logView s i).isSome ↔ ∃ v, (be64 i, v) ∈ s.kv := by
  constructor
  · intro hs
    obtain ⟨f, e, hm⟩ := logView_isSome_mem s i hs
    exact ⟨_, hm⟩
  · rintro ⟨v, hm⟩
    obtain ⟨f, e, hv, _⟩ := typed_log_key _ h.2 i hi v hm
    subst hv
    rw [logView_of_mem s h.1 i f e hm]; rfl

theorem C09_list_mem (s : Store) (h : WF s) (i : Nat) (hi : i < 2^64) :
    i ∈ logIndexes s ↔ (logView s i).isSome := by
  rw [isSome_iff_mem_kv s h i hi]
  exact mem_kvIndexes s.kv h.2 i hi

/-- the log keys of the database, in key order, are the encodings of `logIndexes` -/
theorem C09_list_keys (s : Store) (h : WF s) :
    (s.kv.map (·.1)).filter (fun k => !isStable k) = (logIndexes s).map be64 := by
  rw [List.filter_map]
  exact logKeys_eq s.kv h.2

/-! ### 2. `StoreLogProto` / `StoreLogs`: sorted insert -/

theorem C09_list_insertNat_mem (i x : Nat) (l : List Nat) : x ∈ insertNat i l ↔ x = i ∨ x ∈ l :=
  mem_insertNat i x l

theorem C09_list_insertNat_sorted (i : Nat) (l : List Nat) (h : l.Pairwise (· < ·)) :
    (insertNat i l).Pairwise (· < ·) := insertNat_sorted i l h

theorem C09_list_storeLogProto (s : Store) (e : LogEntry) (h : WF s) (hi : e.index < 2^64) :
    logIndexes (s.storeLogProto e) = insertNat e.index (logIndexes s) :=
  kvIndexes_kvPut_log s.kv e.index _ h.1 h.2 hi

/-- a batch inserts its indexes one after the other -/
theorem C09_list_storeLogs (s : Store) (es : List LogEntry) (h : WF s)
    (hi : ∀ e ∈ es, e.index < 2^64) :
    logIndexes (s.storeLogs es) = es.foldl (fun l e => insertNat e.index l) (logIndexes s) :=
  kvIndexes_foldl_put _ es s.kv h.1 h.2 hi

/-! ### 3. `DeleteRange` : filter -/

theorem delKeep_be64 (a b i : Nat) (ha : a < 2^64) (hb : b < 2^64) (hi : i < 2^64) :
    delKeep a b (be64 i) = !(decide (a ≤ i) && decide (i ≤ b)) := by
  simp only [delKeep, isStable_be64, inRange, be64_lt_dec i a hi ha, Bool.not_false, Bool.and_true]
  by_cases hb' : b = 18446744073709551615
  · subst hb'
    have h1 : decide (i ≤ 18446744073709551615) = true := by simp; omega
    simp only [if_true, h1, Bool.and_true]
    by_cases h2 : i < a
    · simp [h2, Nat.not_le.2 h2]
    · simp [h2, Nat.not_lt.1 h2]
  · simp only [if_neg hb', be64_lt_dec i (b + 1) hi (by omega)]
    have h1 : decide (i < b + 1) = decide (i ≤ b) := by
      rw [Bool.eq_iff_iff]; simp; omega
    rw [h1]
    by_cases h2 : i < a
    · simp [h2, Nat.not_le.2 h2]
    · simp [h2, Nat.not_lt.1 h2]

/-- exactly the indexes in `[a, b]` go, including `b = 2^64-1` -/
theorem C09_list_deleteRange (s : Store) (a b : Nat) (h : WF s) (ha : a < 2^64) (hb : b < 2^64) :
    logIndexes (s.deleteRange a b) = (logIndexes s).filter (fun i => !(a ≤ i && i ≤ b)) := by
  show kvIndexes (s.deleteRange a b).kv = _
  rw [deleteRange_kv]
  exact kvIndexes_filter s.kv h.2 (delKeep a b) _ (fun i hi => delKeep_be64 a b i ha hb hi)

/-! ### 4. `FirstIndex` / `LastIndex` : head / last (0 when there is no log entry) -/

theorem C09_list_firstIndex (s : Store) (h : WF s) :
    s.firstIndex = .ok ((logIndexes s).head?.getD 0) := scan_head s.kv h.2

theorem C09_list_lastIndex (s : Store) (h : WF s) :
    s.lastIndex = .ok ((logIndexes s).getLast?.getD 0) := by
  have := scan_head s.kv.reverse (typed_reverse _ h.2)
  rw [kvIndexes_reverse, List.head?_reverse] at this
  exact this

/-! ### 5. `GetBulkIterator(a, b)` : the indexes in `[a, b)`, in order -/

theorem inRange_be64 (a b i : Nat) (ha : a < 2^64) (hb : b < 2^64) (hi : i < 2^64) :
    inRange a (some b) (be64 i) = (decide (a ≤ i) && decide (i < b)) := by
  simp only [inRange, be64_lt_dec i a hi ha, be64_lt_dec i b hi hb]
  by_cases h2 : i < a
  · simp [h2, Nat.not_le.2 h2]
  · simp [h2, Nat.not_lt.1 h2]

theorem C09_list_bulk (s : Store) (a b : Nat) (h : WF s) (ha : a < 2^64) (hb : b < 2^64) :
    (s.bulkKeys a b).filter (fun k => !isStable k)
      = ((logIndexes s).filter (fun i => a ≤ i && i < b)).map be64 := by
  unfold Store.bulkKeys
  rw [List.filter_map]
  have h1 := logKeys_eq (s.kv.filter (fun e => inRange a (some b) e.1))
    (typed_filter_key s.kv h.2 (inRange a (some b)))
  rw [kvIndexes_filter s.kv h.2 (inRange a (some b)) _
    (fun i hi => inRange_be64 a b i ha hb hi)] at h1
  exact h1

/-- `limit ≤ start` visits no log entry (it is not "no upper bound") -/
theorem C09_list_bulk_empty (s : Store) (a b : Nat) (h : WF s) (ha : a < 2^64) (hb : b < 2^64)
    (hba : b ≤ a) : (s.bulkKeys a b).filter (fun k => !isStable k) = [] := by
  rw [C09_list_bulk s a b h ha hb, List.map_eq_nil_iff, List.filter_eq_nil_iff]
  intro i _
  simp only [Bool.and_eq_true, decide_eq_true_eq]; omega

/-- a stable key is visited iff the range straddles `stableCut = 0x737461626c657374` ("stablest"):
`start ≤ stableCut < limit` — and then *every* stable key is visited -/
theorem C09_list_bulk_stable_mem (s : Store) (a b : Nat) (k : Bytes) (ha : a < 2^64) (hb : b < 2^64) :
    stablePrefix ++ k ∈ s.bulkKeys a b
      ↔ (∃ v, (stablePrefix ++ k, v) ∈ s.kv) ∧ a ≤ stableCut ∧ stableCut < b := by
  unfold Store.bulkKeys
  simp only [List.mem_map, List.mem_filter]
  constructor
  · rintro ⟨⟨k', v⟩, ⟨hm, hr⟩, he⟩
    simp only at he hr
    subst he
    rw [inRange_stable a b k ha hb] at hr
    simp only [Bool.and_eq_true, decide_eq_true_eq] at hr
    exact ⟨⟨v, hm⟩, hr⟩
  · rintro ⟨⟨v, hm⟩, h1, h2⟩
    refine ⟨(stablePrefix ++ k, v), ⟨hm, ?_⟩, rfl⟩
    show inRange a (some b) (stablePrefix ++ k) = true
    rw [inRange_stable a b k ha hb]
    simp only [Bool.and_eq_true, decide_eq_true_eq]
    exact ⟨h1, h2⟩

/-- outside that case the iterator yields log keys only: exactly the indexes in `[a, b)` -/
theorem C09_list_bulk_no_stable (s : Store) (a b : Nat) (h : WF s) (ha : a < 2^64) (hb : b < 2^64)
    (hr : b ≤ stableCut ∨ stableCut < a) :
    s.bulkKeys a b = ((logIndexes s).filter (fun i => a ≤ i && i < b)).map be64 := by
  rw [← C09_list_bulk s a b h ha hb]
  refine (List.filter_eq_self.2 ?_).symm
  intro k hk
  cases hst : isStable k with
  | false => rfl
  | true =>
    obtain ⟨r, hr'⟩ := isPrefixOf_eq_append _ _ hst
    subst hr'
    have := ((C09_list_bulk_stable_mem s a b r ha hb).1 hk).2
    omega

/-- in particular for every limit up to `0x7374000000000000` (`"st"` followed by zero bytes) -/
theorem C09_list_bulk_below_prefix (s : Store) (a b : Nat) (h : WF s) (ha : a < 2^64)
    (hb : b ≤ 0x7374000000000000) :
    s.bulkKeys a b = ((logIndexes s).filter (fun i => a ≤ i && i < b)).map be64 :=
  C09_list_bulk_no_stable s a b h ha (by omega)
    (Or.inl (Nat.le_trans hb (by decide)))

/-! ### 6. `GetLog` : membership -/

theorem C09_list_getLog (s : Store) (i : Nat) (h : WF s) (hi : i < 2^64) :
    (∃ e, s.getLog i = .ok e) ↔ i ∈ logIndexes s := by
  rw [C09_list_mem s h i hi, C09_getLog s i h hi]
  cases logView s i with
  | none => simp
  | some e => simp

theorem C09_list_getLog_notFound (s : Store) (i : Nat) (h : WF s) (hi : i < 2^64)
    (hn : i ∉ logIndexes s) : s.getLog i = .error .notFound := by
  rw [C09_list_mem s h i hi] at hn
  rw [C09_getLog s i h hi]
  cases hv : logView s i with
  | none => rfl
  | some e => rw [hv] at hn; exact absurd rfl hn

/-! ### 7. the entries themselves: `logEntries s` (the decoded log values in key order) is what
`Fsm.Model` keeps in `irc`; `insertEntry` is `Fsm.insertSorted` on store entries -/

theorem C09_list_entries_index (s : Store) (h : WF s) :
    (logEntries s).map (·.index) = logIndexes s := kvEntries_index s.kv h.2

theorem C09_list_entries_mem (s : Store) (h : WF s) (e : LogEntry) :
    e ∈ logEntries s ↔ logView s e.index = some e := by
  show e ∈ kvEntries s.kv ↔ _
  rw [mem_kvEntries]
  constructor
  · rintro ⟨k, f, hm⟩
    rcases h.2 _ _ hm with ⟨i, f', e', hi, hk, hv, he⟩ | ⟨_, _, _, hv⟩
    · cases hv; subst he hk
      exact logView_of_mem s h.1 _ f e hm
    · cases hv
  · intro hv
    obtain ⟨f, hm⟩ := logView_eq_some s _ e hv
    exact ⟨_, f, hm⟩

theorem C09_list_entries_storeLogProto (s : Store) (e : LogEntry) (h : WF s) (hi : e.index < 2^64) :
    logEntries (s.storeLogProto e) = insertEntry e (logEntries s) :=
  kvEntries_kvPut_log s.kv _ e h.1 h.2 hi

theorem C09_list_entries_storeLogs (s : Store) (es : List LogEntry) (h : WF s)
    (hi : ∀ e ∈ es, e.index < 2^64) :
    logEntries (s.storeLogs es) = es.foldl (fun l e => insertEntry e l) (logEntries s) :=
  kvEntries_foldl_put _ es s.kv h.1 h.2 hi

theorem C09_list_entries_deleteRange (s : Store) (a b : Nat) (h : WF s) (ha : a < 2^64)
    (hb : b < 2^64) :
    logEntries (s.deleteRange a b)
      = (logEntries s).filter (fun e => !(a ≤ e.index && e.index ≤ b)) := by
  show kvEntries (s.deleteRange a b).kv = _
  rw [deleteRange_kv]
  exact kvEntries_filter s.kv h.2 (delKeep a b) (fun i => !(decide (a ≤ i) && decide (i ≤ b)))
    (fun i hi => delKeep_be64 a b i ha hb hi)

/-! ## non-vacuity: the store `Ex.s0` of C09 (log entries 5, 6, 7 — written out of order, 7 twice —
and the stable keys "CurrentTerm", "LastVoteCand") -/

namespace Ex
open Robust.Props.C09.Ex

example : s0.kv.length = 5 := by decide
example : logIndexes s0 = [5, 6, 7] := by decide
example : (logIndexes s0).Pairwise (· < ·) := C09_list_sorted s0 wf0
example : 7 < 2^64 := C09_list_bound s0 wf0 7 (by decide)
example : (logView s0 6).isSome := (C09_list_mem s0 wf0 6 (by decide)).1 (by decide)
example : 8 ∉ logIndexes s0 := fun hm => absurd ((C09_list_mem s0 wf0 8 (by decide)).1 hm) (by decide)
example : (s0.kv.map (·.1)).filter (fun k => !isStable k) = [be64 5, be64 6, be64 7] :=
  (C09_list_keys s0 wf0).trans (by decide)

/-! insert: at the end, at the front, in the middle, replacing -/

def e3 : LogEntry := ⟨3, 1, 0, .raw [], [], 1699999999, 0⟩

example : logIndexes (s0.storeLogProto e9) = [5, 6, 7, 9] :=
  (C09_list_storeLogProto s0 e9 wf0 (by decide)).trans (by decide)
example : logIndexes (s0.storeLogProto e3) = [3, 5, 6, 7] :=
  (C09_list_storeLogProto s0 e3 wf0 (by decide)).trans (by decide)
example : logIndexes (s0.storeLogProto e6) = [5, 6, 7] :=
  (C09_list_storeLogProto s0 e6 wf0 (by decide)).trans (by decide)
example : logIndexes ((s0.deleteRange 6 6).storeLogProto e6) = [5, 6, 7] :=
  (C09_list_storeLogProto _ e6 (C09_wf_deleteRange s0 6 6 wf0) (by decide)).trans (by decide)
/-- the model's list agrees with the database actually computed -/
example : (s0.storeLogProto e3).kv.map (·.1)
    = [be64 3, be64 5, be64 6, be64 7, stablePrefix ++ kTerm, stablePrefix ++ kCand] := by decide
example : logIndexes (s0.storeLogs [e9, e7, e3, e9]) = [3, 5, 6, 7, 9] :=
  (C09_list_storeLogs s0 _ wf0 (by decide)).trans (by decide)

/-! `DeleteRange` -/

example : logIndexes (s0.deleteRange 6 7) = [5] :=
  (C09_list_deleteRange s0 6 7 wf0 (by decide) (by decide)).trans (by decide)
example : logIndexes (s0.deleteRange 6 6) = [5, 7] :=
  (C09_list_deleteRange s0 6 6 wf0 (by decide) (by decide)).trans (by decide)
example : logIndexes (s0.deleteRange 6 18446744073709551615) = [5] :=
  (C09_list_deleteRange s0 6 18446744073709551615 wf0 (by decide) (by decide)).trans (by decide)
example : logIndexes (s0.deleteRange 0 18446744073709551615) = [] :=
  (C09_list_deleteRange s0 0 18446744073709551615 wf0 (by decide) (by decide)).trans (by decide)
/-- the stable keys stay -/
example : (s0.deleteRange 0 18446744073709551615).kv.length = 2 := by decide

/-! first / last -/

example : s0.firstIndex = .ok 5 :=
  (C09_list_firstIndex s0 wf0).trans (congrArg Except.ok (by decide : (logIndexes s0).head?.getD 0 = 5))
example : s0.lastIndex = .ok 7 :=
  (C09_list_lastIndex s0 wf0).trans (congrArg Except.ok (by decide : (logIndexes s0).getLast?.getD 0 = 7))
example : sStable.firstIndex = .ok 0 ∧ logIndexes sStable = [] :=
  ⟨(C09_list_firstIndex sStable wfStable).trans
    (congrArg Except.ok (by decide : (logIndexes sStable).head?.getD 0 = 0)), by decide⟩
example : sStable.lastIndex = .ok 0 :=
  (C09_list_lastIndex sStable wfStable).trans
    (congrArg Except.ok (by decide : (logIndexes sStable).getLast?.getD 0 = 0))
example : (s0.deleteRange 5 5).firstIndex = .ok 6 :=
  (C09_list_firstIndex _ (C09_wf_deleteRange s0 5 5 wf0)).trans
    (congrArg Except.ok (by decide : (logIndexes (s0.deleteRange 5 5)).head?.getD 0 = 6))

/-! bulk iterator -/

example : (s0.bulkKeys 6 8).filter (fun k => !isStable k) = [be64 6, be64 7] :=
  (C09_list_bulk s0 6 8 wf0 (by decide) (by decide)).trans (by decide)
example : s0.bulkKeys 6 8 = [be64 6, be64 7] :=
  (C09_list_bulk_below_prefix s0 6 8 wf0 (by decide) (by decide)).trans (by decide)
example : s0.bulkKeys 0 6 = [be64 5] :=
  (C09_list_bulk_no_stable s0 0 6 wf0 (by decide) (by decide) (Or.inl (by decide))).trans (by decide)
example : (s0.bulkKeys 8 6).filter (fun k => !isStable k) = [] :=
  C09_list_bulk_empty s0 8 6 wf0 (by decide) (by decide) (by decide)
example : (s0.bulkKeys 7 7).filter (fun k => !isStable k) = [] :=
  C09_list_bulk_empty s0 7 7 wf0 (by decide) (by decide) (by decide)
/-- a range reaching past "stablest" visits the stable keys too … -/
example : stablePrefix ++ kTerm ∈ s0.bulkKeys 6 18446744073709551615 :=
  (C09_list_bulk_stable_mem s0 6 18446744073709551615 kTerm (by decide) (by decide)).2
    ⟨⟨.raw (be64 3), by decide⟩, by decide, by decide⟩
example : s0.bulkKeys 6 18446744073709551615
    = [be64 6, be64 7, stablePrefix ++ kTerm, stablePrefix ++ kCand] := by decide
/-- … one ending at the cut does not -/
example : stablePrefix ++ kTerm ∉ s0.bulkKeys 6 stableCut := fun hm =>
  absurd ((C09_list_bulk_stable_mem s0 6 stableCut kTerm (by decide) (by decide)).1 hm).2.2 (by decide)
example : lexLt (be64 stableCut) (stablePrefix ++ kTerm) = true ∧
    lexLt (stablePrefix ++ kTerm) (be64 (stableCut + 1)) = true := by decide

/-! `GetLog` -/

example : ∃ e, s0.getLog 6 = .ok e := (C09_list_getLog s0 6 wf0 (by decide)).2 (by decide)
example : 7 ∈ logIndexes s0 := (C09_list_getLog s0 7 wf0 (by decide)).1 ⟨e7b, rfl⟩
example : s0.getLog 8 = .error .notFound := C09_list_getLog_notFound s0 8 wf0 (by decide) (by decide)

/-! entries -/

example : logEntries s0 = [e5, e6, e7b] := by decide
example : (logEntries s0).map (·.index) = [5, 6, 7] := (C09_list_entries_index s0 wf0).trans (by decide)
example : e7b ∈ logEntries s0 := (C09_list_entries_mem s0 wf0 e7b).2 (by decide)
example : e7 ∉ logEntries s0 := fun hm => absurd ((C09_list_entries_mem s0 wf0 e7).1 hm) (by decide)
example : logEntries (s0.storeLogProto e7) = [e5, e6, e7] :=
  (C09_list_entries_storeLogProto s0 e7 wf0 (by decide)).trans (by decide)
example : logEntries (s0.storeLogs [e9, e7, e3]) = [e3, e5, e6, e7, e9] :=
  (C09_list_entries_storeLogs s0 _ wf0 (by decide)).trans (by decide)
example : logEntries (s0.deleteRange 6 6) = [e5, e7b] :=
  (C09_list_entries_deleteRange s0 6 6 wf0 (by decide) (by decide)).trans (by decide)

end Ex

end Robust.Props.C09List
