import Robust.Irc.Apply
/-! The consistency conditions of C14 as an executable predicate on the model state
(the twin of `ircserver.VerifWalk` on the real data structures). -/
namespace Robust.Irc
open Robust

def keysNodup {κ ν : Type} [DecidableEq κ] (m : AMap κ ν) : Bool := (AMap.keys m).Nodup

def sessionOk (st : St) (id : Id) (s : Session) : Bool :=
  s.id == id && !s.deleted &&
  (s.nick == "" ||
    (let lc := nickToLower s.nick
     (st.sessions.all fun e => e.1 == id || e.2.nick == "" || nickToLower e.2.nick != lc) &&
     AMap.get st.nicks lc == some id &&
     (id.reply != 0 || isValidNickname s.nick) &&
     (s.channels.all fun ch => match AMap.get st.channels ch with
        | some c => AMap.contains c.nicks lc
        | none => false)))

def nickIndexOk (st : St) (lc : String) (id : Id) : Bool :=
  match AMap.get st.sessions id with
  | some s => nickToLower s.nick == lc
  | none => false

def channelOk (st : St) (lc : String) (c : Channel) : Bool :=
  chanToLower c.name == lc && isValidChannel c.name && c.nicks.length > 0 && keysNodup c.nicks &&
  (c.nicks.all fun e => match AMap.get st.nicks e.1 with
    | some id => (match AMap.get st.sessions id with
      | some s => s.channels.contains lc
      | none => false)
    | none => false)

/-- `Inv` as a Boolean -/
def invB (st : St) : Bool :=
  keysNodup st.sessions && keysNodup st.nicks && keysNodup st.channels &&
  (st.sessions.all fun e => sessionOk st e.1 e.2 && e.2.channels.Nodup) &&
  (st.nicks.all fun e => nickIndexOk st e.1 e.2) &&
  (st.channels.all fun e => channelOk st e.1 e.2)

end Robust.Irc
