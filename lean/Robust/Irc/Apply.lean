import Robust.Irc.SCmds
import Robust.Gen.Commands
/-!
`IRCServer.ProcessMessage` (the gate in front of the handlers) and `FSM.applyRobustMessage`
(what one committed entry does to the IRC state and which output batch it produces).
-/
namespace Robust.Irc
open Robust

abbrev Handler := Ctx → Id → IrcMsg → Res Ctx

/-- handler functions by their Go name; the command *table* (keys, MinParams) is regenerated
from the source (`Gen.Commands.commands`) -/
def handlerByName : String → Option Handler
  | "cmdAway" => some cmdAway | "cmdServiceAlias" => some cmdServiceAlias | "cmdGline" => some cmdGline
  | "cmdInvite" => some cmdInvite | "cmdIson" => some cmdIson | "cmdJoin" => some cmdJoin | "cmdKick" => some cmdKick
  | "cmdKill" => some cmdKill | "cmdKnock" => some cmdKnock | "cmdList" => some cmdList | "cmdMode" => some cmdMode
  | "cmdMotd" => some cmdMotd | "cmdNames" => some cmdNames | "cmdNick" => some cmdNick | "cmdOper" => some cmdOper
  | "cmdPart" => some cmdPart | "cmdPass" => some cmdPass | "cmdPing" => some cmdPing | "cmdPrivmsg" => some cmdPrivmsg
  | "cmdQuit" => some cmdQuit | "cmdServer" => some cmdServer | "cmdTopic" => some cmdTopic | "cmdUser" => some cmdUser
  | "cmdUserhost" => some cmdUserhost | "cmdWho" => some cmdWho | "cmdWhois" => some cmdWhois
  | "cmdServerInvite" => some cmdServerInvite | "cmdServerJoin" => some cmdServerJoin | "cmdServerKick" => some cmdServerKick
  | "cmdServerKill" => some cmdServerKill | "cmdServerMode" => some cmdServerMode | "cmdServerNick" => some cmdServerNick
  | "cmdServerPrivmsg" => some cmdServerPrivmsg | "cmdServerPart" => some cmdServerPart | "cmdServerQuit" => some cmdServerQuit
  | "cmdServerSvshold" => some cmdServerSvshold | "cmdServerSvsjoin" => some cmdServerSvsjoin | "cmdServerSvsmode" => some cmdServerSvsmode
  | "cmdServerSvsnick" => some cmdServerSvsnick | "cmdServerSvspart" => some cmdServerSvspart | "cmdServerTopic" => some cmdServerTopic
  | _ => none

/-- `Commands[key]` (entries registered only under the test-only environment guard are absent) -/
def lookupCommand (key : String) : Option (String × Nat) :=
  match Gen.Commands.commands.find? (fun e => e.1 == key && !e.2.2.2) with
  | some e => some (e.2.1, e.2.2.1)
  | none => none

structure Entry where
  type : Nat            -- robust.Type
  id : Nat
  session : Id
  data : String
  unixNano : Int
  cmid : Nat
  rev : Nat
  remoteAddr : String
  cfg : Option Config   -- decoded TOML for Config entries (`none` = does not parse)
  deriving Repr, Inhabited

/-- `Message.Timestamp` -/
def Entry.timestamp (e : Entry) : Int := if e.unixNano = 0 then (e.id : Int) else e.unixNano

/-- `ProcessMessage` -/
def processMessage (c : Ctx) (e : Entry) (ircmsg : Option IrcMsg) : Res Ctx := do
  let s ← getS c e.session
  match ircmsg with
  | none => pure (sendUser c s.id (srv c "421" [s.nick, "Unknown command"]))
  | some m =>
    let command := toUpper m.command
    -- remote address bookkeeping and GLINE bans
    let (c, bannedOut) ← (if e.remoteAddr != "" && e.remoteAddr != s.remoteAddr then do
        let c ← modS c s.id fun s => { s with remoteAddr := e.remoteAddr }
        match AMap.get c.st.config.banned e.remoteAddr with
        | some reason =>
          if reason != "" then
            let c := sendUser c s.id ⟨none, "ERROR", ["Closing Link: You are banned (" ++ reason ++ ")"]⟩
            let c ← deleteSession c s.id
            pure (c, true)
          else pure (c, false)
        | none => pure (c, false)
      else pure (c, false))
    if bannedOut then return c
    let s ← getS c e.session
    if !s.loggedIn && !s.server && command != "NICK" && command != "USER" && command != "PASS" && command != "QUIT" && command != "SERVER" then
      let c := sendUser c s.id (srv c "451" [command, "You have not registered"])
      if Robust.I64.tsub s.lastActivity s.created > 600000000000 then
        let c := sendUser c s.id ⟨none, "ERROR", ["Closing Link: You have not registered within 10 minutes"]⟩
        return ← deleteSession c s.id
      return c
    match lookupCommand ((if s.server then "server_" else "") ++ command) with
    | none => pure (sendUser c s.id (srv c "421" [s.nick, command, "Unknown command"]))
    | some (fname, minParams) =>
      if m.params.length < minParams then
        pure (sendUser c s.id (srv c "461" [s.nick, command, "Not enough parameters"]))
      else match handlerByName fname with
        | none => .declined ("handler not modelled: " ++ fname)
        | some h => h c s.id m

/-- `UpdateLastClientMessageID`; `none` = error (session unknown) -/
def updateLastClientMessageID (st : St) (e : Entry) : Option St :=
  match AMap.get st.sessions e.session with
  | none => none
  | some s =>
    let ts := e.timestamp
    let s := { s with lastActivity := ts, lastClientMessageId := e.cmid,
                      lastNonPing := if !hasPrefix (toLower e.data) "ping" then ts else s.lastNonPing }
    some { st with sessions := AMap.set st.sessions e.session s }

/-- `MaybeDeleteSession` -/
def maybeDeleteSession (st : St) (sid : Id) : St :=
  match AMap.get st.sessions sid with
  | none => st
  | some s =>
    let st := if s.server || s.operator then { st with sessions := st.sessions.filter (fun e => !e.2.deleted) } else st
    if s.deleted then { st with sessions := AMap.erase st.sessions sid } else st

/-- `applyRobustMessage` followed by `sendMessages`: new state and the output batch -/
def applyEntry (st : St) (e : Entry) : Res (St × List Out) :=
  if e.type = 5 then          -- MessageOfDeath
    .ok ((updateLastClientMessageID st e).getD st, [])
  else if e.type = 0 then     -- CreateSession
    .ok ((createSession st ⟨e.id, 0⟩ e.data e.timestamp).getD st, [])
  else if e.type = 1 then     -- DeleteSession
    match AMap.get st.sessions e.session with
    | none => .ok (st, [])
    | some _ => do
      let c ← processMessage { st := st, msgid := e.id } e (parseMessage ("QUIT :" ++ e.data))
      let st := { c.st with lastProcessed := ⟨e.id, 0⟩ }
      pure (maybeDeleteSession st e.session, c.out)
  else if e.type = 2 then     -- IRCFromClient
    match updateLastClientMessageID st e with
    | none => .ok (st, [])
    | some st => do
      let c ← processMessage { st := st, msgid := e.id } e (parseMessage e.data)
      let st := { c.st with lastProcessed := ⟨e.session.id, 0⟩ }
      pure (maybeDeleteSession st e.session, c.out)
  else if e.type = 6 then     -- Config
    match e.cfg with
    | none => .ok (st, [])
    | some cfg => .ok ({ st with config := { cfg with revision := e.rev } }, [])
  else .ok (st, [])

end Robust.Irc
