import Robust.Irc.Msg
/-!
State of `ircserver.IRCServer`.  Go maps are association lists (`AMap`): the list order plays
the role of Go's unspecified iteration order.  Pointers between indexes (`nicks[lc] → *Session`)
are session ids looked up in `sessions`.
-/
namespace Robust.Irc
open Robust

abbrev AMap (κ ν : Type) := List (κ × ν)

namespace AMap
variable {κ ν : Type} [DecidableEq κ]

def get (m : AMap κ ν) (k : κ) : Option ν :=
  match m with
  | [] => none
  | (k', v) :: t => if k' = k then some v else get t k

def contains (m : AMap κ ν) (k : κ) : Bool := (get m k).isSome

/-- `m[k] = v`: replace in place, or add -/
def set (m : AMap κ ν) (k : κ) (v : ν) : AMap κ ν :=
  match m with
  | [] => [(k, v)]
  | (k', v') :: t => if k' = k then (k, v) :: t else (k', v') :: set t k v

/-- `delete(m, k)` -/
def erase (m : AMap κ ν) (k : κ) : AMap κ ν := m.filter (fun e => e.1 ≠ k)

def keys (m : AMap κ ν) : List κ := m.map (·.1)

end AMap

structure Id where
  id : Nat
  reply : Nat
  deriving Repr, DecidableEq, Inhabited, Hashable

/-- `time.Time{}` (zero) in ns relative to the Unix epoch -/
def zeroTime : Int := -62135596800000000000

structure Session where
  id : Id
  auth : String := ""
  loggedIn : Bool := false
  nick : String := ""
  username : String := ""
  realname : String := ""
  channels : List String := []          -- lcChan set
  lastActivity : Int := zeroTime
  lastNonPing : Int := zeroTime
  lastSolvedCaptcha : Int := zeroTime
  operator : Bool := false
  awayMsg : String := ""
  created : Int := 0
  throttlingExponent : Int := 0
  invitedTo : List String := []
  modes : List Char := []               -- set of mode letters
  svid : String := ""
  pass : String := ""
  server : Bool := false
  lastClientMessageId : Nat := 0
  ircPrefix : Prefix := ⟨"", "", ""⟩
  deleted : Bool := false
  remoteAddr : String := ""
  deriving Repr, DecidableEq, Inhabited

structure Member where
  chanop : Bool := false
  voice : Bool := false
  deriving Repr, DecidableEq, Inhabited

structure Ban where
  mask : String          -- banPattern.pattern: the mask as given
  re : String            -- source of the compiled regexp
  deriving Repr, DecidableEq, Inhabited

structure Channel where
  name : String
  topicNick : String := ""
  topicTime : Int := zeroTime
  topic : String := ""
  nicks : AMap String Member := []      -- keyed by lcNick
  modes : List Char := []
  key : String := ""
  bans : List Ban := []
  deriving Repr, DecidableEq, Inhabited

structure SvsHold where
  added : Int
  duration : Int
  reason : String
  deriving Repr, DecidableEq, Inhabited

structure Config where
  revision : Nat := 0
  operators : List (String × String) := []
  services : List String := []
  sessionExpiration : Int := 600000000000
  postMessageCooloff : Int := 500000000
  trustedBridges : AMap String String := []
  captchaURL : String := ""
  captchaSecret : String := ""          -- hex
  captchaRequiredForLogin : Bool := false
  maxSessions : Nat := 0
  maxChannels : Nat := 0
  banned : AMap String String := []
  whitelistedOrigins : AMap String Bool := []
  deriving Repr, DecidableEq, Inhabited

structure St where
  sessions : AMap Id Session := []
  nicks : AMap String Id := []          -- lcNick → session
  channels : AMap String Channel := []  -- lcChan → channel
  svsholds : AMap String SvsHold := []
  serverSessions : List Nat := []
  lastProcessed : Id := ⟨0, 0⟩
  serverName : String := "robustirc.net"
  config : Config := {}
  deriving Repr, DecidableEq, Inhabited

/-- result of running code that may panic (`Res.panic`) or that the model declines to follow -/
inductive Res (α : Type) where
  | ok (a : α)
  | panic (site : String)
  | declined (why : String)
  deriving Repr

def Res.bind {α β : Type} (x : Res α) (f : α → Res β) : Res β :=
  match x with
  | .ok a => f a
  | .panic s => .panic s
  | .declined w => .declined w

instance : Monad Res where
  pure := .ok
  bind := Res.bind

def modeSet (ms : List Char) (c : Char) (v : Bool) : List Char :=
  if v then (if ms.contains c then ms else ms ++ [c]) else ms.filter (· ≠ c)

def charRange (lo hi : Nat) : List Char := (List.range (hi - lo)).map (fun i => Char.ofNat (lo + i))

/-- `"+"` followed by the set modes in the order `'A' .. 'y'` -/
def modeStr (ms : List Char) : String :=
  "+" ++ String.ofList ((charRange 65 122).filter (fun c => ms.contains c))

def setInsert (l : List String) (x : String) : List String := if l.contains x then l else l ++ [x]

/-- `validNickRe` -/
def isValidNickname (nick : String) : Bool :=
  let letter (c : Char) := ('A' ≤ c ∧ c ≤ 'Z') || ('a' ≤ c ∧ c ≤ 'z')
  let special (c : Char) := (0x5B ≤ c.toNat ∧ c.toNat ≤ 0x60) || (0x7B ≤ c.toNat ∧ c.toNat ≤ 0x7D)
  let digit (c : Char) := '0' ≤ c ∧ c ≤ '9'
  match nick.toList with
  | [] => false
  | c :: rest => (letter c || special c) && rest.length ≤ 30 &&
      rest.all (fun c => letter c || digit c || special c || c == '-')

/-- `validChannelRe` (character classes are over runes: nothing above U+00FF) -/
def isValidChannel (ch : String) : Bool :=
  let ok (c : Char) :=
    let n := c.toNat
    (1 ≤ n ∧ n ≤ 6) || (8 ≤ n ∧ n ≤ 9) || (0xB ≤ n ∧ n ≤ 0xC) || (0xE ≤ n ∧ n ≤ 0x1F) ||
    (0x21 ≤ n ∧ n ≤ 0x2B) || (0x2D ≤ n ∧ n ≤ 0x39) || (0x3B ≤ n ∧ n ≤ 0xFF)
  match ch.toList with
  | '#' :: rest => rest.length ≤ 32 && rest.all ok
  | _ => false

def isServicesNickname (nick : String) : Bool := hasSuffix (toLower nick) "serv"

/-- `NickToLower` -/
def nickToLower (nick : String) : String :=
  String.ofList ((toLower nick).toList.map fun c => if c == '[' then '{' else if c == ']' then '}' else if c == '\\' then '|' else c)

/-- `ChanToLower` -/
def chanToLower (ch : String) : String := toLower ch

end Robust.Irc
