import Robust.Irc.Apply
/-! Canonical, order-independent rendering of the IRC state (compared with the in-package
walk of the real `IRCServer` in the correspondence runs). -/
namespace Robust.Irc
open Robust

def hexStr (s : String) : String :=
  let bs := utf8 s
  if bs.isEmpty then "-" else String.ofList (bs.flatMap fun b => [hexDigitLower (b.toNat / 16), hexDigitLower (b.toNat % 16)])

def sortStrs (l : List String) : List String := l.mergeSort (fun a b => a ≤ b)
def b01 (b : Bool) : String := if b then "1" else "0"
def timeStr (t : Int) : String := if t == zeroTime then "Z" else toString t
def idStr (i : Id) : String := s!"{i.id}.{i.reply}"
def commaHex (l : List String) : String := joinStr "," (sortStrs (l.map hexStr))
def modesStr (ms : List Char) : String := String.ofList ((charRange 0 256).filter (fun c => ms.contains c))

def idLe (a b : Id) : Bool := a.id < b.id || (a.id == b.id && a.reply ≤ b.reply)

def dumpSession (s : Session) : String :=
  s!"S {idStr s.id} a={hexStr s.auth} li={b01 s.loggedIn} n={hexStr s.nick} u={hexStr s.username} r={hexStr s.realname} ch={commaHex s.channels} la={timeStr s.lastActivity} lnp={timeStr s.lastNonPing} lsc={timeStr s.lastSolvedCaptcha} op={b01 s.operator} aw={hexStr s.awayMsg} cr={s.created} te={s.throttlingExponent} inv={commaHex s.invitedTo} m={modesStr s.modes} sv={hexStr s.svid} pw={hexStr s.pass} srv={b01 s.server} cm={s.lastClientMessageId} px={hexStr s.ircPrefix.name}!{hexStr s.ircPrefix.user}@{hexStr s.ircPrefix.host} ad={hexStr s.remoteAddr} del={b01 s.deleted}"

def dumpChannel (lc : String) (c : Channel) : String :=
  let bans := joinStr ";" (c.bans.map fun b => hexStr b.mask ++ "~" ++ hexStr b.re)
  let nicks := joinStr "," (sortStrs (c.nicks.map fun e => hexStr e.1 ++ ":" ++ (if e.2.chanop then "o" else "-") ++ (if e.2.voice then "v" else "-")))
  s!"C {hexStr lc} n={hexStr c.name} tn={hexStr c.topicNick} tt={timeStr c.topicTime} t={hexStr c.topic} m={modesStr c.modes} k={hexStr c.key} b={bans} N={nicks}"

def dumpConfig (c : Config) : String :=
  let ops := joinStr ";" (c.operators.map fun o => hexStr o.1 ++ ":" ++ hexStr o.2)
  let svc := joinStr ";" (c.services.map hexStr)
  let kv (m : AMap String String) := joinStr "," (sortStrs (m.map fun e => hexStr e.1 ++ ":" ++ hexStr e.2))
  s!"CF rev={c.revision} ops={ops} svc={svc} se={c.sessionExpiration} pc={c.postMessageCooloff} tb={kv c.trustedBridges} cu={hexStr c.captchaURL} cs={hexStr c.captchaSecret} cl={b01 c.captchaRequiredForLogin} ms={c.maxSessions} mc={c.maxChannels} bn={kv c.banned} wo={joinStr "," (sortStrs (c.whitelistedOrigins.map fun e => hexStr e.1 ++ ":" ++ b01 e.2))}"

def dumpState (st : St) : String :=
  let sess := (st.sessions.map (·.2)).mergeSort (fun a b => idLe a.id b.id)
  let chans := st.channels.mergeSort (fun a b => a.1 ≤ b.1)
  let holds := st.svsholds.mergeSort (fun a b => a.1 ≤ b.1)
  let ni := joinStr "," (sortStrs (st.nicks.map fun e => hexStr e.1 ++ ":" ++ idStr e.2))
  let parts := [s!"LP={idStr st.lastProcessed}", "SS=" ++ joinStr "," (sortStrs (st.serverSessions.map toString)), "NI=" ++ ni]
    ++ sess.map dumpSession ++ chans.map (fun e => dumpChannel e.1 e.2)
    ++ holds.map (fun e => s!"H {hexStr e.1} ad={timeStr e.2.added} du={e.2.duration} re={hexStr e.2.reason}")
    ++ [dumpConfig st.config]
  joinStr " | " parts

end Robust.Irc
