import Robust.Irc.Cmds
/-!
Services (server-to-server) command handlers of `scmd_*.go` and `server_commands.go`.
`msg.Prefix.Name` dereferences a nil prefix when the line has none: `pfxName` makes that a
`Res.panic` (the property's "protocol-conforming" side condition).
-/
namespace Robust.Irc
open Robust

/-- `msg.Prefix.Name` -/
def pfxName (m : IrcMsg) : Res String :=
  match m.pfx with
  | some p => .ok p.name
  | none => .panic "msg.Prefix is nil"

def servicesPrefix (m : IrcMsg) : Res Prefix := do
  let n ← pfxName m
  pure ⟨n, "services", "services"⟩

def sendSvc (c : Ctx) (m : IrcMsg) : Ctx := emit c m (rcServices c.st)

def cmdServer (c : Ctx) (sid : Id) (m : IrcMsg) : Res Ctx := do
  let s ← getS c sid
  if !(c.st.config.services.any fun pw => s.pass == "services=" ++ pw) then
    return sendUser c sid ⟨none, "ERROR", ["Invalid password"]⟩
  let p0 ← param m 0
  let c ← modS c sid fun s => { s with server := true, ircPrefix := ⟨p0, "", ""⟩ }
  let c := { c with st := { c.st with serverSessions := c.st.serverSessions ++ [sid.id] } }
  let c := sendSvc c ⟨none, "SERVER", [c.st.serverName, "1", "23"]⟩
  let nicks := (AMap.keys c.st.nicks).mergeSort (fun a b => a ≤ b)
  nicks.foldlM (fun c nick =>
    match AMap.get c.st.nicks nick with
    | none => Res.panic "session is nil (cmdServer)"
    | some tid => (getS c tid).bind fun t =>
      if !t.loggedIn || t.server || t.id.reply != 0 then Res.ok c
      else
        let c := sendSvc c ⟨none, "NICK", [t.nick, "1", "1", t.username, t.ircPrefix.host, c.st.serverName, t.svid, modeStr t.modes, t.realname]⟩
        (t.channels.mergeSort (fun a b => a ≤ b)).foldlM (fun c lc =>
          match getChan c lc with
          | none => Res.panic "channel is nil (cmdServer)"
          | some ch =>
            match AMap.get ch.nicks (nickToLower t.nick) with
            | none => Res.panic "c.nicks[nick] is nil (cmdServer)"
            | some mem => Res.ok (sendSvc c (srv c "SJOIN" ["1", ch.name, (if mem.chanop then "@" else "") ++ t.nick]))) c) c

/-- `createSessionLocked` -/
def createSession (st : St) (id : Id) (auth : String) (ts : Int) : Option St :=
  if st.sessions.length ≥ st.config.maxSessions && st.config.maxSessions > 0 then none
  else
    let ns : Session := { id := id, auth := auth, created := ts, lastActivity := ts, lastNonPing := ts, svid := "0" }
    some { st with sessions := AMap.set st.sessions id ns }

def cmdServerNick (c : Ctx) (sid : Id) (m : IrcMsg) : Res Ctx := do
  let s ← getS c sid
  if m.params.length == 1 then return c
  let p0 ← param m 0
  if !isValidNickname p0 then
    return sendSvc c (srv c "432" ["*", p0, "Erroneous nickname"])
  if AMap.contains c.st.nicks (nickToLower p0) then
    return sendSvc c (srv c "433" ["*", p0, "Nickname is already in use"])
  let id : Id := ⟨s.id.id, fnv64 p0⟩
  if AMap.contains c.st.sessions id then
    return sendSvc c (srv c "433" ["*", p0, "Nickname is already in use"])
  match createSession c.st id "" s.lastActivity with
  | none => pure (sendSvc c (srv c "NOTICE" [s.ircPrefix.name, "Could not create session for " ++ p0 ++ ": MaxSessions limit reached"]))
  | some st =>
    let c := { c with st := st }
    let p3 ← param m 3
    let c ← modS c id fun ss => updateIrcPrefix { ss with nick := p0, username := truncateUsername p3, realname := m.trailing }
    pure { c with st := { c.st with nicks := AMap.set c.st.nicks (nickToLower p0) id } }

def cmdServerQuit (c : Ctx) (sid : Id) (m : IrcMsg) : Res Ctx := do
  let s ← getS c sid
  match m.pfx with
  | none =>
    let c ← deleteSession c sid
    let subs := ((c.st.sessions.filter fun e => e.1.id == s.id.id && e.1.reply != 0).map (·.1)).mergeSort (fun a b => a.reply ≤ b.reply)
    subs.foldlM (fun c tid => do
      let t ← getS c tid
      let rc ← rcCommonChannels c.st t
      let c := emit c ⟨some t.ircPrefix, "QUIT", [m.trailing]⟩ rc
      deleteSession c tid) c
  | some p =>
    -- at most one pseudo-client of this link can own the nickname (nick uniqueness)
    match c.st.sessions.find? (fun e => e.1.id == s.id.id && e.1.reply != 0 && nickToLower e.2.nick == nickToLower p.name) with
    | none => pure c
    | some e =>
      let rc ← rcCommonChannels c.st e.2
      let c := emit c ⟨some e.2.ircPrefix, "QUIT", [m.trailing]⟩ rc
      deleteSession c e.1

def cmdServerKill (c : Ctx) (sid : Id) (m : IrcMsg) : Res Ctx := do
  let s ← getS c sid
  if m.params.length < 2 then
    return sendSvc c (srv c "461" ["*", m.command, "Not enough parameters"])
  -- the loop dereferences msg.Prefix when there is at least one pseudo-client of this link
  let subs := c.st.sessions.filter fun e => e.1.id == s.id.id && e.1.reply != 0
  let killPrefix : Res (Option Prefix) :=
    if subs.isEmpty then .ok m.pfx
    else match m.pfx with
      | none => .panic "msg.Prefix is nil (cmdServerKill)"
      | some p => match subs.find? (fun e => nickToLower e.2.nick == nickToLower p.name) with
        | some e => .ok (some e.2.ircPrefix)
        | none => .ok (some p)
  let killPrefix ← killPrefix
  let p0 ← param m 0
  match AMap.get c.st.nicks (nickToLower p0) with
  | none => pure (sendSvc c (srv c "401" ["*", p0, "No such nick/channel"]))
  | some tid =>
    let t ← getS c tid
    let some kp := killPrefix | .panic "killPrefix is nil (cmdServerKill)"
    let killPath := replaceAll ("ircd!" ++ kp.host ++ "!" ++ kp.name) "!!" "!"
    let c := sendUser c tid ⟨some kp, "KILL", [t.nick, killPath ++ " (" ++ m.trailing ++ ")"]⟩
    let rc ← rcCommonChannels c.st t
    let c := emit c ⟨some t.ircPrefix, "QUIT", ["Killed: " ++ m.trailing]⟩ (rc ++ rcServices c.st)
    deleteSession c tid

def serverJoinOne (c : Ctx) (m : IrcMsg) (channelname : String) : Res Ctx := do
  let pn ← pfxName m
  if !isValidChannel channelname then
    return sendSvc c (srv c "403" [pn, channelname, "No such channel"])
  let nick := nickToLower pn
  match AMap.get c.st.nicks nick with
  | none => pure (sendSvc c (srv c "401" [pn, channelname, "No such nick/channel"]))
  | some tid =>
    let lc := chanToLower channelname
    let existed := (getChan c lc).isSome
    if !existed && c.st.channels.length ≥ c.st.config.maxChannels && c.st.config.maxChannels > 0 then
      return sendSvc c (srv c "403" [pn, channelname, "No such channel"])
    let ch : Channel := (getChan c lc).getD { name := channelname }
    let ch := { ch with nicks := AMap.set ch.nicks nick { chanop := !existed } }
    let c := putChan c lc ch
    let c ← modS c tid fun t => { t with channels := setInsert t.channels lc }
    let sp ← servicesPrefix m
    let rc ← rcChannel c.st ch
    pure (emit c ⟨some sp, "JOIN", [channelname]⟩ rc)

def cmdServerJoin (c : Ctx) (_sid : Id) (m : IrcMsg) : Res Ctx := do
  let p0 ← param m 0
  (splitChar p0 ',').foldlM (fun c ch => serverJoinOne c m ch) c

def serverPartOne (c : Ctx) (m : IrcMsg) (channelname : String) : Res Ctx := do
  let lc := chanToLower channelname
  match getChan c lc with
  | none => do
    let pn ← pfxName m
    pure (sendSvc c (srv c "403" [pn, channelname, "No such channel"]))
  | some ch =>
    let pn ← pfxName m
    if !AMap.contains ch.nicks (nickToLower pn) then
      return sendSvc c (srv c "442" [pn, channelname, "You're not on that channel"])
    let some tid := AMap.get c.st.nicks (nickToLower pn) | .panic "session is nil (cmdServerPart)"
    let sp ← servicesPrefix m
    let rc ← rcChannel c.st ch
    let c := emit c ⟨some sp, "PART", [channelname]⟩ rc
    leaveChannel c lc (nickToLower pn) tid

def cmdServerPart (c : Ctx) (_sid : Id) (m : IrcMsg) : Res Ctx := do
  let p0 ← param m 0
  (splitChar p0 ',').foldlM (fun c ch => serverPartOne c m ch) c

def cmdServerKick (c : Ctx) (_sid : Id) (m : IrcMsg) : Res Ctx := do
  let channelname ← param m 0
  let target ← param m 1
  let lc := chanToLower channelname
  match getChan c lc with
  | none => do
    let pn ← pfxName m
    pure (sendSvc c (srv c "403" [pn, channelname, "No such nick/channel"]))
  | some ch =>
    if !AMap.contains ch.nicks (nickToLower target) then
      let pn ← pfxName m
      return sendSvc c (srv c "441" [pn, target, channelname, "They aren't on that channel"])
    let some tid := AMap.get c.st.nicks (nickToLower target) | .panic "session is nil (cmdServerKick)"
    let sp ← servicesPrefix m
    let rc ← rcChannel c.st ch
    let c := emit c ⟨some sp, "KICK", [channelname, target, m.trailing]⟩ (rc ++ rcServices c.st)
    leaveChannel c lc (nickToLower target) tid

def cmdServerMode (c : Ctx) (_sid : Id) (m : IrcMsg) : Res Ctx := do
  let channelname ← param m 0
  let lc := chanToLower channelname
  match getChan c lc with
  | none => do
    let pn ← pfxName m
    pure (sendSvc c (srv c "403" [pn, channelname, "No such nick/channel"]))
  | some _ =>
    let modes := normalizeModes m
    let c ← modes.foldlM (fun (c : Ctx) mc => do
      let some ch := getChan c lc | Res.panic "channel is nil (cmdServerMode)"
      let b := modeByteChar mc
      let newvalue := hasPrefix mc.mode "+"
      if b == 't' || b == 's' || b == 'r' || b == 'i' then
        pure (putChan c lc { ch with modes := modeSet ch.modes b newvalue })
      else if b == 'o' then
        match AMap.get ch.nicks (nickToLower mc.param) with
        | none => do
          let pn ← pfxName m
          pure (sendSvc c (srv c "441" [pn, mc.param, channelname, "They aren't on that channel"]))
        | some perms =>
          if perms.chanop != newvalue then
            pure (putChan c lc { ch with nicks := AMap.set ch.nicks (nickToLower mc.param) { perms with chanop := newvalue } })
          else pure c
      else do
        let pn ← pfxName m
        pure (sendSvc c (srv c "472" [pn, String.singleton b, "is unknown mode char to me"]))) c
    if c.replyid > 0 then return c
    let some ch := getChan c lc | .panic "channel is nil (cmdServerMode)"
    let sp ← servicesPrefix m
    let rc ← rcChannel c.st ch
    pure (emit c ⟨some sp, "MODE", channelname :: ircParams modes⟩ rc)

def cmdServerPrivmsg (c : Ctx) (_sid : Id) (m : IrcMsg) : Res Ctx := do
  if m.params.length < 1 then
    let pn ← pfxName m
    return sendSvc c (srv c "411" [pn, "No recipient given (" ++ m.command ++ ")"])
  if m.trailing == "" then
    let pn ← pfxName m
    return sendSvc c (srv c "412" [pn, "No text to send"])
  let p0 ← param m 0
  if hasPrefix p0 "#" then
    match getChan c (chanToLower p0) with
    | none => do
      let pn ← pfxName m
      pure (sendSvc c (srv c "403" [pn, p0, "No such channel"]))
    | some ch =>
      let sp ← servicesPrefix m
      let rc ← rcChannel c.st ch
      pure (emit c ⟨some sp, m.command, [p0, m.trailing]⟩ rc)
  else
    match AMap.get c.st.nicks (nickToLower p0) with
    | none => do
      let pn ← pfxName m
      pure (sendSvc c (srv c "401" [pn, p0, "No such nick/channel"]))
    | some tid =>
      let sp ← servicesPrefix m
      pure (sendUser c tid ⟨some sp, m.command, [p0, m.trailing]⟩)

def cmdServerInvite (c : Ctx) (_sid : Id) (m : IrcMsg) : Res Ctx := do
  let nickname ← param m 0
  let channelname ← param m 1
  match AMap.get c.st.nicks (nickToLower nickname) with
  | none => do
    let pn ← pfxName m
    pure (sendSvc c (srv c "401" [pn, nickname, "No such nick/channel"]))
  | some tid =>
    let t ← getS c tid
    let lc := chanToLower channelname
    match getChan c lc with
    | none => do
      let pn ← pfxName m
      pure (sendSvc c (srv c "403" [pn, channelname, "No such channel"]))
    | some ch =>
      if AMap.contains ch.nicks (nickToLower nickname) then
        let pn ← pfxName m
        return sendSvc c (srv c "443" [pn, t.nick, ch.name, "is already on channel"])
      let c ← modS c tid fun t => { t with invitedTo := setInsert t.invitedTo lc }
      let pn ← pfxName m
      let c := sendSvc c (srv c "341" [pn, nickname, ch.name])
      let sp ← servicesPrefix m
      let c := sendUser c tid ⟨some sp, "INVITE", [t.nick, ch.name]⟩
      let rc ← rcChannel c.st ch
      pure (emit c (srv c "NOTICE" [ch.name, pn ++ " invited " ++ nickname ++ " into the channel."]) rc)

/-- `strconv.ParseInt(s, 0, 64)` restricted to plain decimal (optionally signed); anything
else that might be accepted in base 0 (prefixes, underscores) is declined -/
def parseIntBase0 (s : String) : Res (Option Int) :=
  let (neg, digits) := match s.toList with
    | '-' :: r => (true, String.ofList r)
    | '+' :: r => (false, String.ofList r)
    | _ => (false, s)
  match parseDigits digits with
  | none =>
    if digits.toList.any (fun ch => ch == 'x' || ch == 'X' || ch == 'o' || ch == 'O' || ch == 'b' || ch == 'B' || ch == '_') then
      .declined "ParseInt base 0 with prefix"
    else .ok none
  | some n =>
    if digits.length > 1 && digits.toList.head? == some '0' then .declined "ParseInt base 0 octal"
    else
      let v : Int := if neg then -(n : Int) else n
      if v > 9223372036854775807 || v < -9223372036854775808 then .ok none else .ok (some v)

def cmdServerTopic (c : Ctx) (_sid : Id) (m : IrcMsg) : Res Ctx := do
  let channel ← param m 0
  let lc := chanToLower channel
  match getChan c lc with
  | none => do
    let pn ← pfxName m
    pure (sendSvc c (srv c "403" [pn, channel, "No such channel"]))
  | some ch =>
    -- (the "unset" branch needs exactly two parameters and is unreachable with MinParams 3)
    let p2 ← param m 2
    match ← parseIntBase0 p2 with
    | none => .declined "text of a strconv error"
    | some ts =>
      let p1 ← param m 1
      if ts.natAbs > 9000000000 then .declined "topic time out of the nanosecond range"
      else
        let ch := { ch with topicNick := p1, topicTime := ts * 1000000000, topic := m.trailing }
        let c := putChan c lc ch
        let sp ← servicesPrefix m
        let rc ← rcChannel c.st ch
        pure (emit c ⟨some sp, "TOPIC", [channel, m.trailing]⟩ rc)

def cmdServerSvshold (c : Ctx) (sid : Id) (m : IrcMsg) : Res Ctx := do
  let s ← getS c sid
  let p0 ← param m 0
  let nick := nickToLower p0
  if m.params.length > 1 then
    let p1 ← param m 1
    match parseDigits p1 with
    | none => .declined "time.ParseDuration on a non-decimal input"
    | some n =>
      if n > 9000000000 then .declined "time.ParseDuration overflow"
      else pure { c with st := { c.st with svsholds := AMap.set c.st.svsholds nick ⟨s.lastActivity, n * 1000000000, m.trailing⟩ } }
  else pure { c with st := { c.st with svsholds := AMap.erase c.st.svsholds nick } }

def cmdServerSvsjoin (c : Ctx) (_sid : Id) (m : IrcMsg) : Res Ctx := do
  let p0 ← param m 0
  let channelname ← param m 1
  let nick := nickToLower p0
  match AMap.get c.st.nicks nick with
  | none => do
    let pn ← pfxName m
    pure (sendSvc c (srv c "401" [pn, p0, "No such nick/channel"]))
  | some tid =>
    if !isValidChannel channelname then
      let pn ← pfxName m
      return sendSvc c (srv c "403" [pn, channelname, "No such channel"])
    let lc := chanToLower channelname
    let existed := (getChan c lc).isSome
    if !existed && c.st.channels.length ≥ c.st.config.maxChannels && c.st.config.maxChannels > 0 then
      let pn ← pfxName m
      return sendSvc c (srv c "403" [pn, channelname, "No such channel"])
    let ch : Channel := (getChan c lc).getD { name := channelname }
    let c := putChan c lc ch
    if AMap.contains ch.nicks nick then return c
    let ch := { ch with nicks := AMap.set ch.nicks nick { chanop := !existed } }
    let c := putChan c lc ch
    let c ← modS c tid fun t => { t with channels := setInsert t.channels lc }
    let t ← getS c tid
    let rc ← rcChannel c.st ch
    let c := emit c ⟨some t.ircPrefix, "JOIN", [channelname]⟩ rc
    let c := sendSvc c (srv c "SJOIN" ["1", channelname, (if !existed then "@" else "") ++ t.nick])
    let c ← cmdTopic c tid ⟨none, "TOPIC", [channelname]⟩
    cmdNames c tid ⟨none, "NAMES", [channelname]⟩

def cmdServerSvsmode (c : Ctx) (sid : Id) (m : IrcMsg) : Res Ctx := do
  let s ← getS c sid
  let p0 ← param m 0
  match AMap.get c.st.nicks (nickToLower p0) with
  | none => pure (sendSvc c (srv c "401" ["*", p0, "No such nick/channel"]))
  | some tid =>
    let modestr ← param m 1
    if !hasPrefix modestr "+" && !hasPrefix modestr "-" then
      return sendSvc c (srv c "501" ["*", "Unknown MODE flag"])
    let modes := normalizeModes m
    let c ← modes.foldlM (fun (c : Ctx) mc =>
      let b := modeByteChar mc
      if b == 'd' then modS c tid fun t => { t with svid := mc.param }
      else if b == 'r' then modS c tid fun t => { t with modes := modeSet t.modes 'r' (hasPrefix mc.mode "+") }
      else Res.ok (sendSvc c (srv c "501" ["*", "Unknown MODE flag"]))) c
    let t ← getS c tid
    pure (sendUser c tid ⟨some s.ircPrefix, "MODE", [t.nick, modeStr t.modes]⟩)

def cmdServerSvsnick (c : Ctx) (_sid : Id) (m : IrcMsg) : Res Ctx := do
  let p0 ← param m 0
  let p1 ← param m 1
  if !isValidNickname p1 then
    return sendSvc c (srv c "432" ["*", p1, "Erroneous nickname"])
  match AMap.get c.st.nicks (nickToLower p0) with
  | none => pure (sendSvc c (srv c "401" ["*", p0, "No such nick/channel"]))
  | some tid =>
    match AMap.get c.st.nicks (nickToLower p1) with
    | some other =>
      if other != tid then
        return sendSvc c (srv c "433" ["*", p1, "Nickname is already in use"])
    | none => pure ()
    let t ← getS c tid
    let oldPrefix := t.ircPrefix
    let oldNick := nickToLower p0
    let lcnew := nickToLower p1
    let c ← modS c tid fun t => { t with nick := p1 }
    let c := { c with st := { c.st with nicks := AMap.set c.st.nicks lcnew tid } }
    let c := if lcnew != oldNick then
        let st := c.st
        { c with st := { st with
            nicks := AMap.erase st.nicks oldNick,
            channels := st.channels.map fun e =>
              let ch := e.2
              let nicks := match AMap.get ch.nicks oldNick with
                | some modes => AMap.set ch.nicks lcnew modes
                | none => ch.nicks
              (e.1, { ch with nicks := AMap.erase nicks oldNick }) } }
      else c
    let c ← modS c tid updateIrcPrefix
    let t ← getS c tid
    let rc ← rcCommonChannels c.st t
    pure (emit c ⟨some oldPrefix, "NICK", [t.nick]⟩ (rcUser tid ++ rc ++ rcServices c.st))

def cmdServerSvspart (c : Ctx) (_sid : Id) (m : IrcMsg) : Res Ctx := do
  let p0 ← param m 0
  let channelname ← param m 1
  let nick := nickToLower p0
  match AMap.get c.st.nicks nick with
  | none => do
    let pn ← pfxName m
    pure (sendSvc c (srv c "401" [pn, p0, "No such nick/channel"]))
  | some tid =>
    let lc := chanToLower channelname
    match getChan c lc with
    | none => do
      let pn ← pfxName m
      pure (sendSvc c (srv c "403" [pn, channelname, "No such channel"]))
    | some ch =>
      if !AMap.contains ch.nicks nick then
        let pn ← pfxName m
        return sendSvc c (srv c "442" [pn, channelname, "You're not on that channel"])
      let t ← getS c tid
      let rc ← rcChannel c.st ch
      let c := emit c ⟨some t.ircPrefix, "PART", [channelname]⟩ (rc ++ rcServices c.st)
      leaveChannel c lc nick tid

end Robust.Irc
