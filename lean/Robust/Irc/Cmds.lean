import Robust.Irc.Send
import Robust.Base.I64
/-!
Client command handlers of `internal/ircserver/cmd_*.go`, one definition per Go function,
in the order the Go code performs its checks.  `Res.panic` marks every place where the Go
code would dereference nil or index out of range.
-/
namespace Robust.Irc
open Robust

/-- `msg.Params[i]` -/
def param (m : IrcMsg) (i : Nat) : Res String :=
  match m.params[i]? with
  | some p => .ok p
  | none => .panic "index out of range (msg.Params)"

def getChan (c : Ctx) (lc : String) : Option Channel := AMap.get c.st.channels lc

/-- `maybeDeleteChannelLocked` -/
def maybeDeleteChannel (c : Ctx) (lc : String) : Ctx :=
  match getChan c lc with
  | none => c
  | some ch =>
    if ch.nicks.length > 0 then c
    else
      let lcn := chanToLower ch.name
      { c with st := { c.st with
          channels := AMap.erase c.st.channels lcn,
          sessions := c.st.sessions.map fun e => (e.1, { e.2 with invitedTo := e.2.invitedTo.filter (· ≠ lcn) }) } }

/-- `deleteSessionLocked` -/
def deleteSession (c : Ctx) (sid : Id) : Res Ctx := do
  let s ← getS c sid
  let lcn := nickToLower s.nick
  -- for every channel: delete the member, maybe delete the channel
  let c := c.st.channels.foldl (fun (c : Ctx) (e : String × Channel) =>
    match getChan c e.1 with
    | none => c
    | some ch =>
      let c := putChan c e.1 { ch with nicks := AMap.erase ch.nicks lcn }
      maybeDeleteChannel c e.1) c
  let c := { c with st := { c.st with nicks := AMap.erase c.st.nicks lcn } }
  modS c sid fun s => { s with deleted := true }

/-- `extractPassword` -/
def extractPassword (password pfx : String) : String :=
  (splitChar password ':').foldl (fun (extracted : String) part =>
    let extracted := if hasPrefix (toLower part) (pfx ++ "=") then dropChars part (pfx.length + 1) else extracted
    if !hasPrefix part "nickserv=" && !hasPrefix part "services=" && !hasPrefix part "network=" &&
        !hasPrefix part "session=" && !hasPrefix part "oper=" && !hasPrefix part "captcha=" && extracted != "" then
      extracted ++ ":" ++ part
    else extracted) ""

def cmdMotd (c : Ctx) (sid : Id) (_m : IrcMsg) : Res Ctx := do
  let s ← getS c sid
  let c := sendUser c sid (srv c "375" [s.nick, "- " ++ c.st.serverName ++ " Message of the day -"])
  let c := sendUser c sid (srv c "372" [s.nick, "- No MOTD configured yet."])
  pure (sendUser c sid (srv c "376" [s.nick, "End of MOTD command"]))

def cmdOper (c : Ctx) (sid : Id) (m : IrcMsg) : Res Ctx := do
  let s ← getS c sid
  let name ← param m 0
  let password ← param m 1
  if !(c.st.config.operators.any fun op => op.1 == name && op.2 == password) then
    pure (sendUser c sid (srv c "464" [s.nick, "Password incorrect"]))
  else
    let c ← modS c sid fun s => { s with operator := true, modes := modeSet s.modes 'o' true }
    let s ← getS c sid
    let c := sendUser c sid (srv c "381" [s.nick, "You are now an IRC operator"])
    pure (emit c (srv c "MODE" [s.nick, modeStr s.modes]) (rcUser sid ++ rcServices c.st))

/-- `maybeLogin` -/
def maybeLogin (c : Ctx) (sid : Id) (m : IrcMsg) : Res Ctx := do
  let s ← getS c sid
  if s.loggedIn then return c
  if s.nick == "" || s.username == "" then return c
  if c.st.config.captchaRequiredForLogin then
    .declined "captcha login"
  else
    let c ← modS c sid fun s => { s with loggedIn := true }
    let sn := c.st.serverName
    let c := sendUser c sid (srv c "001" [s.nick, "Welcome to RobustIRC!"])
    let c := sendUser c sid (srv c "002" [s.nick, "Your host is " ++ sn])
    let c := sendUser c sid (srv c "003" [s.nick, "This server was created <ServerCreation>"])
    let c := sendUser c sid (srv c "004" [s.nick, sn ++ " v1 i nstix"])
    let c := sendUser c sid (srv c "005" ["CHANTYPES=#", "CHANNELLEN=32", "NICKLEN=30", "MODES=1", "PREFIX=(o)@", "KNOCK", "are supported by this server"])
    let c := emit c ⟨none, "NICK", [s.nick, "1", "1", s.username, s.ircPrefix.host, sn, s.svid, "+", s.realname]⟩ (rcServices c.st)
    let pass := extractPassword s.pass "nickserv"
    let c := if pass != "" then
        emit c ⟨some s.ircPrefix, "PRIVMSG", ["NickServ", "IDENTIFY " ++ pass]⟩ (rcServices c.st)
      else c
    let opass := extractPassword s.pass "oper"
    let c ← (if opass != "" then
        match parseMessage ("OPER " ++ opass) with
        | none => Res.panic "parsed is nil"
        | some parsed => if parsed.params.length > 1 then cmdOper c sid parsed else pure c
      else pure c)
    let c ← modS c sid fun s => { s with pass := "" }
    cmdMotd c sid m

def updateIrcPrefix (s : Session) : Session :=
  { s with ircPrefix := ⟨s.nick, s.username, "robust/0x" ++ hexNat s.id.id⟩ }

def cmdNick (c : Ctx) (sid : Id) (m : IrcMsg) : Res Ctx := do
  let s ← getS c sid
  let oldPrefix := s.ircPrefix
  let nick := m.params.head?.getD ""
  if nick == "" then
    return sendUser c sid (srv c "431" ["No nickname given"])
  let dest := if s.loggedIn then s.nick else "*"
  let onlyCapsChanged := s.loggedIn && nickToLower nick == nickToLower dest
  if !isValidNickname nick then
    return sendUser c sid (srv c "432" [dest, nick, "Erroneous nickname"])
  if (AMap.contains c.st.nicks (nickToLower nick) && !onlyCapsChanged) || isServicesNickname nick then
    return sendUser c sid (srv c "433" [dest, nick, "Nickname is already in use"])
  let lcnew := nickToLower nick
  -- SVSHOLD
  let held : Option SvsHold := AMap.get c.st.svsholds lcnew
  match held with
  | some hold =>
    if !(s.lastActivity > hold.added + hold.duration) then
      return sendUser c sid (srv c "432" [dest, nick, "Erroneous Nickname: " ++ hold.reason])
  | none => pure ()
  let c := match held with
    | some _ => { c with st := { c.st with svsholds := AMap.erase c.st.svsholds lcnew } }
    | none => c
  if s.nick == nick then return c
  let oldNick := nickToLower s.nick
  let c ← modS c sid fun s => { s with nick := nick }
  let c := { c with st := { c.st with nicks := AMap.set c.st.nicks lcnew sid } }
  let c := if oldNick != "" && !onlyCapsChanged then
      let st := c.st
      { c with st := { st with
          nicks := AMap.erase st.nicks oldNick,
          channels := st.channels.map fun e =>
            let ch := e.2
            let nicks := match AMap.get ch.nicks oldNick with
              | some modes => AMap.set ch.nicks lcnew modes
              | none => ch.nicks
            (e.1, { ch with nicks := AMap.erase nicks oldNick }) } }
    else c
  let c ← modS c sid updateIrcPrefix
  if oldNick != "" then
    let s ← getS c sid
    let rc ← rcCommonChannels c.st s
    return emit c ⟨some oldPrefix, "NICK", [nick]⟩ (rcUser sid ++ rc ++ rcServices c.st)
  maybeLogin c sid m

/-- `maxUserLen` -/
def maxUserLen : Nat := 30

/-- `truncateUsername`: the first word (a user name is part of the prefix of every line the session sends, so it
cannot contain a space; only a services link can hand one over, as the trailing parameter of a short NICK), at most
`maxUserLen` characters of it -/
def truncateUsername (u : String) : String := takeChars (firstWord u) maxUserLen

def cmdUser (c : Ctx) (sid : Id) (m : IrcMsg) : Res Ctx := do
  let u ← param m 0
  let c ← modS c sid fun s => updateIrcPrefix { s with username := truncateUsername u, realname := m.trailing }
  maybeLogin c sid m

def cmdPass (c : Ctx) (sid : Id) (m : IrcMsg) : Res Ctx := do
  let c ← modS c sid fun s =>
    let pass := if m.params.length > 0 then joinStr " " m.params else s.pass
    let pass := if !hasPrefix pass "nickserv=" && !hasPrefix pass "services=" && !hasPrefix pass "network=" &&
        !hasPrefix pass "oper=" && !hasPrefix pass "session=" && !hasPrefix pass "captcha=" then "nickserv=" ++ pass else pass
    { s with pass := pass }
  maybeLogin c sid m

def cmdNames (c : Ctx) (sid : Id) (m : IrcMsg) : Res Ctx := do
  let s ← getS c sid
  let fallback := sendUser c sid (srv c "366" [s.nick, "*", "End of /NAMES list."])
  match m.params.head? with
  | none => pure fallback
  | some channelname =>
    let lc := chanToLower channelname
    match getChan c lc with
    | none => pure fallback
    | some ch =>
      let entries ← mapRes (fun (e : String × Member) =>
        match AMap.get c.st.nicks e.1 with
        | none => Res.panic "i.nicks[nick] is nil (cmdNames)"
        | some mid =>
          match AMap.get c.st.sessions mid with
          | none => Res.panic "nil session (cmdNames)"
          | some ms =>
            if ms.modes.contains 'i' && !s.channels.contains lc then Res.ok none
            else Res.ok (some ((if e.2.chanop then "@" else "") ++ ms.nick))) ch.nicks
      let nicks := (entries.filterMap id).mergeSort (fun a b => a ≤ b)
      let c := sendUser c sid (srv c "353" [s.nick, "=", channelname, joinStr " " nicks])
      pure (sendUser c sid (srv c "366" [s.nick, channelname, "End of /NAMES list."]))

/-- seconds since the epoch of a time given in ns (`time.Time.Unix`) -/
def unixSeconds (ns : Int) : Int := ns / 1000000000

def cmdTopic (c : Ctx) (sid : Id) (m : IrcMsg) : Res Ctx := do
  let s ← getS c sid
  let channel ← param m 0
  let lc := chanToLower channel
  match getChan c lc with
  | none => pure (sendUser c sid (srv c "403" [s.nick, channel, "No such channel"]))
  | some ch =>
    if !s.channels.contains lc then
      return sendUser c sid (srv c "442" [s.nick, channel, "You're not on that channel"])
    let isOp : Res Bool := match AMap.get ch.nicks (nickToLower s.nick) with
      | some mem => .ok mem.chanop
      | none => .panic "c.nicks[nick] is nil (cmdTopic)"
    if m.trailing == "" && m.params.length == 2 then
      if ch.modes.contains 't' then
        let op ← isOp
        if !op then
          return sendUser c sid (srv c "482" [s.nick, channel, "You're not channel operator"])
      let ch := { ch with topicNick := "", topicTime := zeroTime, topic := "" }
      let c := putChan c lc ch
      let rc ← rcChannel c.st ch
      let c := emit c ⟨some s.ircPrefix, "TOPIC", [channel, m.trailing]⟩ rc
      return emit c ⟨some ⟨s.nick, "", ""⟩, "TOPIC", [channel, s.nick, "0", m.trailing]⟩ (rcServices c.st)
    if m.params.length == 1 then
      if ch.topicTime == zeroTime then
        return sendUser c sid (srv c "331" [s.nick, channel, "No topic is set"])
      let c := sendUser c sid (srv c "332" [s.nick, channel, ch.topic])
      return sendUser c sid (srv c "333" [s.nick, channel, ch.topicNick, toString (unixSeconds ch.topicTime)])
    if ch.modes.contains 't' then
      let op ← isOp
      if !op then
        return sendUser c sid (srv c "482" [s.nick, channel, "You're not channel operator"])
    let ch := { ch with topicNick := s.nick, topicTime := s.lastActivity, topic := m.trailing }
    let c := putChan c lc ch
    let rc ← rcChannel c.st ch
    let c := emit c ⟨some s.ircPrefix, "TOPIC", [channel, m.trailing]⟩ rc
    pure (emit c ⟨some ⟨s.nick, "", ""⟩, "TOPIC", [channel, ch.topicNick, toString (unixSeconds ch.topicTime), m.trailing]⟩ (rcServices c.st))

/-! ### MODE -/

structure ModeCmd where
  mode : String   -- "+x" / "-x"
  param : String
  deriving Repr, DecidableEq

/-- `normalizeModes` -/
def normalizeModes (m : IrcMsg) : List ModeCmd :=
  if m.params.length ≤ 1 then []
  else
    let modestr := (m.params[1]?).getD ""
    let step (acc : Bool × Nat × List ModeCmd) (ch : Char) : Bool × Nat × List ModeCmd :=
      let (adding, modearg, results) := acc
      if ch == '+' || ch == '-' then (ch == '+', modearg, results)
      else
        let needsParam := ch == 'o' || ch == 'd' || ch == 'b' || ch == 'k'
        let p := if needsParam then (m.params[modearg]?).getD "" else ""
        let modearg := if needsParam then modearg + 1 else modearg
        (adding, modearg, results ++ [⟨(if adding then "+" else "-") ++ String.singleton ch, p⟩])
    (modestr.toList.foldl step (true, 2, [])).2.2

/-- second character of "+x" as the *byte* `mode.Mode[1]` converted with `string(char)` -/
def modeChar (mc : ModeCmd) : Char := (mc.mode.toList[1]?).getD ' '

/-- `mode.Mode[1]` is a byte: for a non-ASCII mode character it is the first byte of its UTF-8
encoding, and `string(char)` renders that byte value as a code point -/
def modeByteChar (mc : ModeCmd) : Char :=
  match (utf8 (String.ofList (mc.mode.toList.drop 1))).head? with
  | some b => Char.ofNat b.toNat
  | none => ' '

/-- `modeCmds.IRCParams` -/
def ircParams (modes : List ModeCmd) : List String :=
  let add := modes.filter (fun mc => hasPrefix mc.mode "+")
  let remove := modes.filter (fun mc => !hasPrefix mc.mode "+")
  let ms (l : List ModeCmd) := String.ofList (l.map modeByteChar)
  let modeStr := (if add.length > 0 then "+" ++ ms add else "") ++ (if remove.length > 0 then "-" ++ ms remove else "")
  let params := (add.filter (·.param != "")).map (·.param) ++ (remove.filter (·.param != "")).map (·.param)
  modeStr :: params

/-- `resolveSessionToRemoteAddrLocked` -/
def resolveSessionToRemoteAddr (st : St) (pattern : String) : Res String :=
  match indexOf pattern.toList "robust/0x".toList with
  | none => .ok pattern
  | some idx =>
    let rest := dropChars pattern (idx + 7)      -- "0x…"
    let digits := dropChars rest 2
    if digits.toList.contains '_' then .declined "ParseInt with underscores"
    else match parseHex digits with
      | none => .ok pattern
      | some id =>
        if id > 9223372036854775807 then .ok pattern
        else match AMap.get st.sessions ⟨id, 0⟩ with
          | none => .ok pattern
          | some s => if s.remoteAddr == "" then .ok pattern else .ok (takeChars pattern idx ++ s.remoteAddr)

/-- `ban` -/
def banOne (ch : Channel) (add : Bool) (banmask pattern : String) : Res Channel :=
  match parseRe pattern.toList with
  | none => .declined "ban regexp outside the modelled fragment"
  | some _ =>
    if add then .ok { ch with bans := ch.bans ++ [⟨banmask, pattern⟩] }
    else .ok { ch with bans := ch.bans.filter (·.mask != banmask) }

def banBoth (ch : Channel) (add : Bool) (banmask pattern patternAddr : String) : Res Channel := do
  let ch ← banOne ch add banmask pattern
  if patternAddr != pattern then banOne ch add banmask patternAddr else pure ch

def dedupSorted (l : List String) : List String :=
  (l.foldl (fun acc x => if acc.contains x then acc else acc ++ [x]) []).mergeSort (fun a b => a ≤ b)

/-- one mode change on a channel; returns the new context and `queryOnly'` / early return flag -/
def applyChanMode (c : Ctx) (sid : Id) (s : Session) (lc channelname : String) (isChanOp : Bool) (mc : ModeCmd) (queryOnly : Bool) :
    Res (Ctx × Bool × Bool) := do   -- (ctx, queryOnly, returnNow)
  let some ch := getChan c lc | .panic "channel is nil (cmdMode)"
  let b := modeByteChar mc
  if mc.mode != "+b" || mc.param != "" then
    if !isChanOp then
      return (sendUser c sid (srv c "482" [s.nick, channelname, "You're not channel operator"]), false, true)
    let newvalue := hasPrefix mc.mode "+"
    if b == 't' || b == 's' || b == 'i' || b == 'n' then
      pure (putChan c lc { ch with modes := modeSet ch.modes b newvalue }, false, false)
    else if b == 'k' then
      if newvalue then
        if mc.param == "" then pure (c, false, false)
        else
          let ch := { ch with key := mc.param }
          let c := putChan c lc ch
          let c := sendUser c sid (srv c "MODE" [channelname, "+k", ch.key])
          let some ch := getChan c lc | .panic "channel is nil"
          pure (putChan c lc { ch with modes := modeSet ch.modes 'k' true }, false, false)
      else
        let c := sendUser c sid (srv c "MODE" [channelname, "-k", ch.key])
        pure (putChan c lc { ch with key := "", modes := modeSet ch.modes 'k' false }, false, false)
    else if b == 'x' then
      if c.st.config.captchaURL != "" && c.st.config.captchaSecret != "" then
        pure (putChan c lc { ch with modes := modeSet ch.modes 'x' newvalue }, false, false)
      else
        pure (sendUser c sid (srv c "NOTICE" [s.nick, "Cannot set mode +x, no CaptchaURL/CaptchaHMACSecret configured"]), false, false)
    else if b == 'o' then
      let nick := mc.param
      match AMap.get ch.nicks (nickToLower nick) with
      | none => pure (sendUser c sid (srv c "441" [s.nick, nick, channelname, "They aren't on that channel"]), false, false)
      | some perms =>
        if perms.chanop != newvalue then
          pure (putChan c lc { ch with nicks := AMap.set ch.nicks (nickToLower nick) { perms with chanop := newvalue } }, false, false)
        else pure (c, false, false)
    else if b == 'b' then
      let pattern := replaceAll (quoteMeta mc.param) "\\*" ".*"
      let patternAddr ← resolveSessionToRemoteAddr c.st pattern
      let ch ← banBoth ch newvalue mc.param pattern patternAddr
      pure (putChan c lc ch, false, false)
    else
      pure (sendUser c sid (srv c "472" [s.nick, String.singleton b, "is unknown mode char to me"]), false, false)
  else
    -- query: "+b" without parameter
    let patterns := dedupSorted (ch.bans.map (·.mask))
    let c := patterns.foldl (fun c p => sendUser c sid (srv c "367" [s.nick, channelname, p])) c
    pure (sendUser c sid (srv c "368" [s.nick, channelname, "End of Channel Ban List"]), queryOnly, false)

def applyChanModes (c : Ctx) (sid : Id) (s : Session) (lc channelname : String) (isChanOp : Bool) :
    List ModeCmd → Bool → Res (Ctx × Bool × Bool)
  | [], q => .ok (c, q, false)
  | mc :: rest, q => do
    let (c', q', ret) ← applyChanMode c sid s lc channelname isChanOp mc q
    if ret then pure (c', q', true) else applyChanModes c' sid s lc channelname isChanOp rest q'

def cmdMode (c : Ctx) (sid : Id) (m : IrcMsg) : Res Ctx := do
  let s ← getS c sid
  let channelname ← param m 0
  let lc := chanToLower channelname
  if s.channels.contains lc then
    let some ch := getChan c lc | .panic "channel is nil (cmdMode)"
    let modes := normalizeModes m
    if modes.length == 0 then
      return sendUser c sid (srv c "324" [s.nick, channelname, modeStr ch.modes])
    let some mem := AMap.get ch.nicks (nickToLower s.nick) | .panic "c.nicks[nick] is nil (cmdMode)"
    let isChanOp := mem.chanop || s.operator
    let (c, queryOnly, ret) ← applyChanModes c sid s lc channelname isChanOp modes true
    if ret then return c
    if queryOnly then return c
    if c.replyid > 0 then return c
    let some ch := getChan c lc | .panic "channel is nil (cmdMode)"
    let rc ← rcChannel c.st ch
    return emit c ⟨some s.ircPrefix, "MODE", channelname :: ircParams modes⟩ (rc ++ rcServices c.st)
  let nick := nickToLower channelname
  match AMap.get c.st.nicks nick with
  | some tid =>
    let t ← getS c tid
    if nick != nickToLower s.nick && !s.operator then
      return sendUser c sid (srv c "502" [s.nick, "Can't change mode for other users"])
    let modes := normalizeModes m
    if modes.length == 0 then
      return emit c ⟨some s.ircPrefix, "MODE", [t.nick, modeStr t.modes]⟩ (rcUser sid ++ rcServices c.st)
    let c ← modS c tid fun t => { t with modes := modes.foldl (fun ms mc =>
      let b := modeByteChar mc
      if b == 'i' || b == 'G' then modeSet ms b (hasPrefix mc.mode "+") else ms) t.modes }
    pure (emit c ⟨some s.ircPrefix, "MODE", [t.nick, (ircParams modes).head?.getD ""]⟩ (rcUser tid ++ rcServices c.st))
  | none =>
    pure (sendUser c sid (srv c "442" [s.nick, channelname, "You're not on that channel"]))

/-! ### JOIN / PART / KICK / QUIT / KILL -/

def joinOne (c : Ctx) (sid : Id) (channelname key : String) : Res Ctx := do
  let s ← getS c sid
  if !isValidChannel channelname then
    return sendUser c sid (srv c "403" [s.nick, channelname, "No such channel"])
  let lc := chanToLower channelname
  let existed := (getChan c lc).isSome
  -- creation / admission checks
  let (c, modesmsg) ← (match getChan c lc with
    | none =>
      if c.st.channels.length ≥ c.st.config.maxChannels && c.st.config.maxChannels > 0 then
        Res.ok (sendUser c sid (srv c "403" [s.nick, channelname, "No such channel"]), none, true)
      else
        let ch : Channel := { name := channelname, modes := ['n', 't'] }
        Res.ok (putChan c lc ch, some (srv c "MODE" [channelname, "+nt"]), false)
    | some ch =>
      if ch.modes.contains 'i' && !s.invitedTo.contains lc then
        Res.ok (sendUser c sid (srv c "473" [s.nick, ch.name, "Cannot join channel (+i)"]), none, true)
      else if ch.modes.contains 'x' && !s.invitedTo.contains lc then
        Res.declined "captcha join"
      else do
        let isB ← isBanned ch.bans s.ircPrefix.str (s.nick ++ "!" ++ s.username ++ "@" ++ s.remoteAddr)
        if isB then
          Res.ok (sendUser c sid (srv c "474" [s.nick, ch.name, "Cannot join channel (+b)"]), none, true)
        else if ch.modes.contains 'k' && ch.key != key then
          Res.ok (sendUser c sid (srv c "475" [s.nick, channelname, "Cannot join channel (+k) - Incorrect key"]), none, true)
        else Res.ok (c, none, false)) >>= fun (r : Ctx × Option IrcMsg × Bool) =>
      if r.2.2 then Res.ok (r.1, none) else Res.ok (r.1, some r.2.1)
  match modesmsg with
  | none => pure c            -- `continue`
  | some modesmsg =>
    let some ch := getChan c lc | .panic "channel is nil (cmdJoin)"
    -- invites are only valid once
    let c ← (if ch.modes.contains 'i' || ch.modes.contains 'x' then
        modS c sid fun s => { s with invitedTo := s.invitedTo.filter (· ≠ lc) } else pure c)
    let lcn := nickToLower s.nick
    if AMap.contains ch.nicks lcn then return c
    let ch := { ch with nicks := AMap.set ch.nicks lcn { chanop := !existed } }
    let c := putChan c lc ch
    let c ← modS c sid fun s => { s with channels := setInsert s.channels lc }
    let s ← getS c sid
    let rc ← rcChannel c.st ch
    let c := emit c ⟨some s.ircPrefix, "JOIN", [channelname]⟩ rc
    let c ← (match modesmsg with
      | some mm => do
        let rc ← rcChannel c.st ch
        pure (emit c mm rc)
      | none => pure c)
    let c := emit c (srv c "SJOIN" ["1", channelname, (if !existed then "@" else "") ++ s.nick]) (rcServices c.st)
    let c ← cmdMode c sid ⟨none, "MODE", [channelname]⟩
    let c ← cmdTopic c sid ⟨none, "TOPIC", [channelname]⟩
    cmdNames c sid ⟨none, "NAMES", [channelname]⟩

def joinLoop (c : Ctx) (sid : Id) (keys : List String) : List String → Nat → Res Ctx
  | [], _ => .ok c
  | ch :: rest, idx => do
    let c ← joinOne c sid ch ((keys[idx]?).getD "")
    joinLoop c sid keys rest (idx + 1)

def cmdJoin (c : Ctx) (sid : Id) (m : IrcMsg) : Res Ctx := do
  let p0 ← param m 0
  let keys := if m.params.length > 1 then splitChar ((m.params[1]?).getD "") ',' else []
  joinLoop c sid keys (splitChar p0 ',') 0

/-- remove `lcn` from channel `lc`, delete the channel if empty, drop `lc` from the session `tid` -/
def leaveChannel (c : Ctx) (lc lcn : String) (tid : Id) : Res Ctx := do
  let some ch := getChan c lc | .panic "channel is nil"
  let c := putChan c lc { ch with nicks := AMap.erase ch.nicks lcn }
  let c := maybeDeleteChannel c lc
  modS c tid fun t => { t with channels := t.channels.filter (· ≠ lc) }

def partOne (c : Ctx) (sid : Id) (channelname : String) : Res Ctx := do
  let s ← getS c sid
  let lc := chanToLower channelname
  match getChan c lc with
  | none => pure (sendUser c sid (srv c "403" [s.nick, channelname, "No such channel"]))
  | some ch =>
    if !AMap.contains ch.nicks (nickToLower s.nick) then
      return sendUser c sid (srv c "442" [s.nick, channelname, "You're not on that channel"])
    let rc ← rcChannel c.st ch
    let c := emit c ⟨some s.ircPrefix, "PART", [channelname]⟩ (rc ++ rcServices c.st)
    leaveChannel c lc (nickToLower s.nick) sid

def cmdPart (c : Ctx) (sid : Id) (m : IrcMsg) : Res Ctx := do
  let p0 ← param m 0
  (splitChar p0 ',').foldlM (fun c ch => partOne c sid ch) c

def cmdQuit (c : Ctx) (sid : Id) (m : IrcMsg) : Res Ctx := do
  let c ← deleteSession c sid
  let s ← getS c sid
  if s.loggedIn then
    let rc ← rcCommonChannels c.st s
    let c := emit c ⟨some s.ircPrefix, "QUIT", [m.trailing]⟩ (rc ++ rcServices c.st)
    pure (sendUser c sid ⟨none, "ERROR", ["Closing Link: " ++ s.nick ++ "[" ++ s.ircPrefix.host ++ "] (" ++ m.trailing ++ ")"]⟩)
  else pure c

def cmdKick (c : Ctx) (sid : Id) (m : IrcMsg) : Res Ctx := do
  let s ← getS c sid
  let channelname ← param m 0
  let target ← param m 1
  let lc := chanToLower channelname
  match getChan c lc with
  | none => pure (sendUser c sid (srv c "403" [s.nick, channelname, "No such nick/channel"]))
  | some ch =>
    match AMap.get ch.nicks (nickToLower s.nick) with
    | none => pure (sendUser c sid (srv c "442" [s.nick, channelname, "You're not on that channel"]))
    | some perms =>
      if !perms.chanop then
        return sendUser c sid (srv c "482" [s.nick, channelname, "You're not channel operator"])
      if !AMap.contains ch.nicks (nickToLower target) then
        return sendUser c sid (srv c "441" [s.nick, target, channelname, "They aren't on that channel"])
      let some tid := AMap.get c.st.nicks (nickToLower target) | .panic "session is nil (cmdKick)"
      let rc ← rcChannel c.st ch
      let c := emit c ⟨some s.ircPrefix, "KICK", [channelname, target, m.trailing]⟩ (rc ++ rcServices c.st)
      leaveChannel c lc (nickToLower target) tid

def cmdKill (c : Ctx) (sid : Id) (m : IrcMsg) : Res Ctx := do
  let s ← getS c sid
  if !s.operator then
    return sendUser c sid (srv c "481" [s.nick, "Permission Denied - You're not an IRC operator"])
  let p0 ← param m 0
  match AMap.get c.st.nicks (nickToLower p0) with
  | none => pure (sendUser c sid (srv c "401" [s.nick, p0, "No such nick/channel"]))
  | some tid =>
    let c ← deleteSession c tid
    let t ← getS c tid
    let s ← getS c sid
    let rc ← rcCommonChannels c.st t
    let c := emit c ⟨some t.ircPrefix, "QUIT", ["Killed by " ++ s.nick ++ ": " ++ m.trailing]⟩ (rc ++ rcServices c.st)
    let c := sendUser c tid ⟨some s.ircPrefix, "KILL", [t.nick, "ircd!" ++ s.ircPrefix.host ++ "!" ++ s.nick ++ " (" ++ m.trailing ++ ")"]⟩
    pure (sendUser c tid ⟨none, "ERROR", ["Closing Link: " ++ t.nick ++ "[" ++ t.ircPrefix.host ++ "] (Killed (" ++ s.nick ++ " (" ++ m.trailing ++ ")))"]⟩)

def cmdGline (c : Ctx) (sid : Id) (m : IrcMsg) : Res Ctx := do
  let s ← getS c sid
  if !s.operator then
    return sendUser c sid (srv c "481" [s.nick, "Permission Denied - You're not an IRC operator"])
  let p0 ← param m 0
  match AMap.get c.st.nicks (nickToLower p0) with
  | none => pure (sendUser c sid (srv c "401" [s.nick, p0, "No such nick/channel"]))
  | some tid =>
    let t ← getS c tid
    if t.remoteAddr == "" then
      return sendUser c sid (srv c "NOTICE" [s.nick, "Cannot kill " ++ t.nick ++ ": no IP address known yet"])
    let c := { c with st := { c.st with config := { c.st.config with banned := AMap.set c.st.config.banned t.remoteAddr m.trailing } } }
    cmdKill c sid m

/-! ### PRIVMSG / NOTICE and the rest -/

def cmdPrivmsg (c : Ctx) (sid : Id) (m : IrcMsg) : Res Ctx := do
  let s ← getS c sid
  if m.params.length < 1 then
    return sendUser c sid (srv c "411" [s.nick, "No recipient given (" ++ m.command ++ ")"])
  if m.params.length < 2 then
    return sendUser c sid (srv c "412" [s.nick, "No text to send"])
  let p0 ← param m 0
  if hasPrefix p0 "#" then
    match getChan c (chanToLower p0) with
    | none => pure (sendUser c sid (srv c "403" [s.nick, p0, "No such channel"]))
    | some ch =>
      if !AMap.contains ch.nicks (nickToLower s.nick) && ch.modes.contains 'n' then
        return sendUser c sid (srv c "404" [s.nick, ch.name, "Cannot send to channel"])
      let rc ← rcChannelButOne c.st ch sid
      pure (emit c ⟨some s.ircPrefix, m.command, [p0, m.trailing]⟩ rc)
  else if hasPrefix p0 "$" then
    if s.operator then
      pure (emit c ⟨some s.ircPrefix, m.command, [p0, m.trailing]⟩ (rcAllUsers c.st))
    else
      pure (sendUser c sid (srv c "481" [s.nick, "Permission Denied - You're not an IRC operator"]))
  else
    match AMap.get c.st.nicks (nickToLower p0) with
    | none => pure (sendUser c sid (srv c "401" [s.nick, p0, "No such nick/channel"]))
    | some tid =>
      let t ← getS c tid
      if t.modes.contains 'G' && !(t.channels.any fun ch => s.channels.contains ch) then
        return c
      let c := sendUser c tid ⟨some s.ircPrefix, m.command, [p0, m.trailing]⟩
      if t.awayMsg != "" && m.command == "PRIVMSG" then
        pure (sendUser c sid (srv c "301" [s.nick, p0, t.awayMsg]))
      else pure c

def serviceAliases : List (String × String) := [
  ("NICKSERV", "PRIVMSG NickServ :"), ("NS", "PRIVMSG NickServ :"), ("CHANSERV", "PRIVMSG ChanServ :"), ("CS", "PRIVMSG ChanServ :"),
  ("OPERSERV", "PRIVMSG OperServ :"), ("OS", "PRIVMSG OperServ :"), ("MEMOSERV", "PRIVMSG MemoServ :"), ("MS", "PRIVMSG MemoServ :"),
  ("HOSTSERV", "PRIVMSG HostServ :"), ("HS", "PRIVMSG HostServ :"), ("BOTSERV", "PRIVMSG BotServ :"), ("BS", "PRIVMSG BotServ :")]

def cmdServiceAlias (c : Ctx) (sid : Id) (m : IrcMsg) : Res Ctx :=
  match serviceAliases.find? (fun a => toUpper m.command == a.1) with
  | none => .ok c
  | some a =>
    match parseMessage (a.2 ++ joinStr " " m.params) with
    | none => .panic "nil message (cmdServiceAlias)"
    | some pm => cmdPrivmsg c sid pm

def cmdAway (c : Ctx) (sid : Id) (m : IrcMsg) : Res Ctx := do
  let c ← modS c sid fun s => { s with awayMsg := trimSpace m.trailing }
  let s ← getS c sid
  if s.awayMsg != "" then pure (sendUser c sid (srv c "306" [s.nick, "You have been marked as being away"]))
  else pure (sendUser c sid (srv c "305" [s.nick, "You are no longer marked as being away"]))

def cmdIson (c : Ctx) (sid : Id) (m : IrcMsg) : Res Ctx := do
  let s ← getS c sid
  let online ← mapRes (fun n => match AMap.get c.st.nicks (nickToLower n) with
    | some tid => (getS c tid).bind fun t => Res.ok (some t.nick)
    | none => Res.ok none) m.params
  pure (sendUser c sid (srv c "303" [s.nick, joinStr " " (online.filterMap id)]))

def cmdKnock (c : Ctx) (sid : Id) (m : IrcMsg) : Res Ctx := do
  let s ← getS c sid
  let channelname ← param m 0
  match getChan c (chanToLower channelname) with
  | none => pure (sendUser c sid (srv c "480" [s.nick, "Cannot knock on " ++ channelname ++ " (Channel does not exist)"]))
  | some ch =>
    if !ch.modes.contains 'i' then
      return sendUser c sid (srv c "480" [s.nick, "Cannot knock on " ++ channelname ++ " (Channel is not invite only)"])
    let reason := if m.params.length > 1 then joinStr " " (m.params.drop 1) else "no reason specified"
    let rc ← rcChannel c.st ch
    let c := emit c (srv c "NOTICE" [ch.name, "[Knock] by " ++ s.ircPrefix.str ++ " (" ++ reason ++ ")"]) rc
    pure (sendUser c sid (srv c "NOTICE" [s.nick, "Knocked on " ++ ch.name]))

def cmdList (c : Ctx) (sid : Id) (m : IrcMsg) : Res Ctx := do
  let s ← getS c sid
  let filter := match m.params.head? with
    | some p0 => let stripped := trimSpace p0; if stripped != "" then splitChar stripped ',' else []
    | none => []
  let channels := if filter.length > 0 then
      (filter.map fun ch => chanToLower (trimSpace ch)).filter (fun lc => (getChan c lc).isSome)
    else (AMap.keys c.st.channels).mergeSort (fun a b => a ≤ b)
  let c := channels.foldl (fun c lc =>
    match getChan c lc with
    | none => c
    | some ch =>
      if ch.modes.contains 's' && !s.operator && !s.channels.contains lc then c
      else sendUser c sid (srv c "322" [s.nick, ch.name, toString ch.nicks.length, ch.topic])) c
  pure (sendUser c sid (srv c "323" [s.nick, "End of LIST"]))

def cmdPing (c : Ctx) (sid : Id) (m : IrcMsg) : Res Ctx := do
  let s ← getS c sid
  match m.params.head? with
  | none => pure (sendUser c sid (srv c "409" [s.nick, "No origin specified"]))
  | some p0 => pure (sendUser c sid (srv c "PONG" [p0]))

def cmdUserhost (c : Ctx) (sid : Id) (m : IrcMsg) : Res Ctx := do
  let s ← getS c sid
  let uh ← mapRes (fun n => match AMap.get c.st.nicks (nickToLower n) with
    | some tid => (getS c tid).bind fun t =>
        Res.ok (some ((if t.operator then t.nick ++ "*" else t.nick) ++ "=" ++ (if t.awayMsg != "" then "-" else "+") ++ t.ircPrefix.str))
    | none => Res.ok none) m.params
  pure (sendUser c sid (srv c "302" [s.nick, joinStr " " (uh.filterMap id)]))

def cmdWho (c : Ctx) (sid : Id) (m : IrcMsg) : Res Ctx := do
  let s ← getS c sid
  match m.params.head? with
  | none => pure (sendUser c sid (srv c "315" [s.nick, "End of /WHO list"]))
  | some channelname =>
    let lastmsg := srv c "315" [s.nick, channelname, "End of /WHO list"]
    let lc := chanToLower channelname
    match getChan c lc with
    | none => pure (sendUser c sid lastmsg)
    | some ch =>
      if ch.modes.contains 's' && !AMap.contains ch.nicks (nickToLower s.nick) then
        return sendUser c sid lastmsg
      let members ← mapRes (fun (e : String × Member) =>
        match AMap.get c.st.nicks e.1 with
        | none => Res.panic "i.nicks[nick] is nil (cmdWho)"
        | some mid => (getS c mid).bind fun ms =>
          if ms.modes.contains 'i' && !s.channels.contains lc then Res.ok none else Res.ok (some ms.nick)) ch.nicks
      let nicks := (members.filterMap id).mergeSort (fun a b => a ≤ b)
      let c ← nicks.foldlM (fun c nick =>
        match AMap.get c.st.nicks (nickToLower nick) with
        | none => Res.panic "session is nil (cmdWho)"
        | some mid => (getS c mid).bind fun ms =>
          Res.ok (sendUser c sid (srv c "352" [s.nick, channelname, ms.ircPrefix.user, ms.ircPrefix.host, c.st.serverName, ms.ircPrefix.name,
            (if ms.awayMsg != "" then "G" else "H"), "0 " ++ ms.realname]))) c
      pure (sendUser c sid lastmsg)

def cmdWhois (c : Ctx) (sid : Id) (m : IrcMsg) : Res Ctx := do
  let s ← getS c sid
  let p0 ← param m 0
  match AMap.get c.st.nicks (nickToLower p0) with
  | none => pure (sendUser c sid (srv c "401" [s.nick, p0, "No such nick/channel"]))
  | some tid =>
    let t ← getS c tid
    let c := sendUser c sid (srv c "311" [s.nick, t.nick, t.ircPrefix.user, t.ircPrefix.host, "*", t.realname])
    let chans ← mapRes (fun lc =>
      match getChan c lc with
      | none => Res.panic "channel is nil (cmdWhois)"
      | some ch =>
        if ch.modes.contains 's' && !s.operator && !s.channels.contains lc then Res.ok none
        else match AMap.get ch.nicks (nickToLower t.nick) with
          | none => Res.panic "c.nicks[nick] is nil (cmdWhois)"
          | some mem => Res.ok (some ((if mem.chanop then "@" else "") ++ ch.name))) t.channels
    let channels := (chans.filterMap id).mergeSort (fun a b => a ≤ b)
    let c := if channels.length > 0 then sendUser c sid (srv c "319" [s.nick, t.nick, joinStr " " channels]) else c
    let c := sendUser c sid (srv c "312" [s.nick, t.nick, c.st.serverName, "RobustIRC"])
    let c := if t.operator then sendUser c sid (srv c "313" [s.nick, t.nick, "is an IRC operator"]) else c
    let c := if t.awayMsg != "" then sendUser c sid (srv c "301" [s.nick, t.nick, t.awayMsg]) else c
    let d := Robust.I64.tsub s.lastActivity t.lastNonPing
    if d.natAbs > 4000000000000000 then .declined "float rounding of Duration.Seconds"
    else
      let idle := Int.tdiv d 1000000000
      let signon := unixSeconds t.created
      let c := sendUser c sid (srv c "317" [s.nick, t.nick, toString idle, toString signon, "seconds idle, signon time"])
      let c := if t.modes.contains 'r' then sendUser c sid (srv c "307" [s.nick, t.nick, "user has identified to services"]) else c
      pure (sendUser c sid (srv c "318" [s.nick, t.nick, "End of /WHOIS list"]))

def cmdInvite (c : Ctx) (sid : Id) (m : IrcMsg) : Res Ctx := do
  let s ← getS c sid
  let nickname ← param m 0
  let channelname ← param m 1
  let lc := chanToLower channelname
  match getChan c lc with
  | none => pure (sendUser c sid (srv c "442" [s.nick, channelname, "You're not on that channel"]))
  | some ch =>
    match AMap.get ch.nicks (nickToLower s.nick) with
    | none => pure (sendUser c sid (srv c "442" [s.nick, channelname, "You're not on that channel"]))
    | some mem =>
      match AMap.get c.st.nicks (nickToLower nickname) with
      | none => pure (sendUser c sid (srv c "401" [s.nick, nickname, "No such nick/channel"]))
      | some tid =>
        let t ← getS c tid
        if AMap.contains ch.nicks (nickToLower nickname) then
          return sendUser c sid (srv c "443" [s.nick, t.nick, ch.name, "is already on channel"])
        if ch.modes.contains 'i' && !mem.chanop then
          return sendUser c sid (srv c "482" [s.nick, ch.name, "You're not channel operator"])
        let c ← modS c tid fun t => { t with invitedTo := setInsert t.invitedTo lc }
        let c := sendUser c sid (srv c "341" [s.nick, t.nick, ch.name])
        let c := emit c ⟨some s.ircPrefix, "INVITE", [t.nick, ch.name]⟩ (rcUser tid ++ rcServices c.st)
        let rc ← rcChannel c.st ch
        let c := emit c (srv c "NOTICE" [ch.name, s.nick ++ " invited " ++ nickname ++ " into the channel."]) rc
        if t.awayMsg != "" then pure (sendUser c sid (srv c "301" [s.nick, nickname, t.awayMsg])) else pure c

end Robust.Irc
