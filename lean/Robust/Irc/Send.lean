import Robust.Irc.State
/-! Reply context and the `send*` helpers of ircserver.go; ban patterns. -/
namespace Robust.Irc
open Robust

structure Out where
  id : Nat
  reply : Nat
  data : Bytes
  rcpt : List Nat
  deriving Repr, DecidableEq, Inhabited

structure Ctx where
  st : St
  msgid : Nat
  replyid : Nat := 0
  out : List Out := []
  deriving Repr, Inhabited

def serverPrefix (st : St) : Prefix := ⟨st.serverName, "", ""⟩

/-- message with `Prefix: i.ServerPrefix` -/
def srv (c : Ctx) (cmd : String) (params : List String) : IrcMsg := ⟨some (serverPrefix c.st), cmd, params⟩

/-- `send` + recipients: one new output message -/
def emit (c : Ctx) (m : IrcMsg) (rcpt : List Nat) : Ctx :=
  { c with replyid := c.replyid + 1, out := c.out ++ [⟨c.msgid, c.replyid + 1, m.render, rcpt⟩] }

def getS (c : Ctx) (sid : Id) : Res Session :=
  match AMap.get c.st.sessions sid with
  | some s => .ok s
  | none => .panic "nil session"

def putS (c : Ctx) (s : Session) : Ctx := { c with st := { c.st with sessions := AMap.set c.st.sessions s.id s } }

def modS (c : Ctx) (sid : Id) (f : Session → Session) : Res Ctx := do
  let s ← getS c sid
  pure (putS c (f s))

def putChan (c : Ctx) (lc : String) (ch : Channel) : Ctx :=
  { c with st := { c.st with channels := AMap.set c.st.channels lc ch } }

/-- `i.nicks[nick].Id.Id` (nil dereference if the nick is not indexed) -/
def nickId (st : St) (lcnick : String) : Res Nat :=
  match AMap.get st.nicks lcnick with
  | some id => .ok id.id
  | none => .panic "i.nicks[nick] is nil"

def mapRes {α β : Type} (f : α → Res β) : List α → Res (List β)
  | [] => .ok []
  | a :: as => do
    let b ← f a
    let bs ← mapRes f as
    pure (b :: bs)

def rcUser (sid : Id) : List Nat := [sid.id]
def rcAllUsers (st : St) : List Nat := st.nicks.map (·.2.id)
def rcServices (st : St) : List Nat := st.serverSessions

def rcChannel (st : St) (ch : Channel) : Res (List Nat) := mapRes (nickId st) (AMap.keys ch.nicks)

def rcChannelButOne (st : St) (ch : Channel) (user : Id) : Res (List Nat) := do
  let ids ← mapRes (fun n => match AMap.get st.nicks n with
    | some id => Res.ok id
    | none => Res.panic "i.nicks[nick] is nil") (AMap.keys ch.nicks)
  pure ((ids.filter (· ≠ user)).map (·.id))

def rcCommonChannels (st : St) (user : Session) : Res (List Nat) := do
  let ls ← mapRes (fun chn => match AMap.get st.channels chn with
    | some ch => rcChannel st ch
    | none => Res.ok []) user.channels
  pure ls.flatten

def sendUser (c : Ctx) (sid : Id) (m : IrcMsg) : Ctx := emit c m (rcUser sid)

/-! ### ban patterns: `regexp.QuoteMeta(mask)` with `\*` ↦ `.*`, matched unanchored -/

def isRegexMeta (c : Char) : Bool := "\\.+*?()|[]{}^$".toList.contains c

/-- `regexp.QuoteMeta` -/
def quoteMeta (s : String) : String :=
  String.ofList (s.toList.flatMap fun c => if isRegexMeta c then ['\\', c] else [c])

inductive Tok where
  | lit (c : Char)
  | any          -- `.`
  | star         -- `.*`
  deriving Repr, DecidableEq

/-- parse the regexp sources that ircserver can produce; `none` = outside the modelled fragment -/
def parseRe : List Char → Option (List Tok)
  | [] => some []
  | '\\' :: c :: rest => (parseRe rest).map (Tok.lit c :: ·)
  | '.' :: '*' :: rest => (parseRe rest).map (Tok.star :: ·)
  | '.' :: rest => (parseRe rest).map (Tok.any :: ·)
  | c :: rest => if isRegexMeta c then none else (parseRe rest).map (Tok.lit c :: ·)

/-- anchored match of `toks` at the start of `cs` (`.` and `.*` do not match a newline) -/
def matchHere : List Tok → List Char → Nat → Bool
  | [], _, _ => true
  | _, _, 0 => false
  | Tok.lit c :: ts, x :: xs, f + 1 => x == c && matchHere ts xs f
  | Tok.lit _ :: _, [], _ => false
  | Tok.any :: ts, x :: xs, f + 1 => x != '\n' && matchHere ts xs f
  | Tok.any :: _, [], _ => false
  | Tok.star :: ts, xs, f + 1 =>
    matchHere ts xs f || (match xs with
      | x :: xs' => x != '\n' && matchHere (Tok.star :: ts) xs' f
      | [] => false)

/-- `re.MatchString(text)` -/
def reMatch (toks : List Tok) (text : String) : Bool :=
  let cs := text.toList
  let fuel := (cs.length + 2) * (toks.length + 2) + 2
  (List.range (cs.length + 1)).any fun i => matchHere toks (cs.drop i) fuel

/-- `banned(bans, userhost, userhostAddr)` -/
def isBanned (bans : List Ban) (userhost userhostAddr : String) : Res Bool :=
  match bans with
  | [] => .ok false
  | b :: rest =>
    match parseRe b.re.toList with
    | none => .declined "ban regexp outside the modelled fragment"
    | some toks =>
      if reMatch toks userhost || reMatch toks userhostAddr then .ok true else isBanned rest userhost userhostAddr

end Robust.Irc
