import Robust.Irc.Str
/-! Model of the two functions of `gopkg.in/sorcix/irc.v2` that robustirc uses on the
replicated path: `ParseMessage` and `Message.Bytes` (plus `Prefix.String`). -/
namespace Robust.Irc
open Robust

structure Prefix where
  name : String
  user : String
  host : String
  deriving Repr, DecidableEq, Inhabited

structure IrcMsg where
  pfx : Option Prefix
  command : String
  params : List String
  deriving Repr, DecidableEq, Inhabited

/-- `Message.Trailing` -/
def IrcMsg.trailing (m : IrcMsg) : String := m.params.getLast?.getD ""

/-- `Prefix.String` / `writeTo` -/
def Prefix.str (p : Prefix) : String :=
  p.name ++ (if p.user.isEmpty then "" else "!" ++ p.user) ++ (if p.host.isEmpty then "" else "@" ++ p.host)

def indexOfChar (cs : List Char) (c : Char) : Option Nat := cs.findIdx? (· == c)

/-- `ParsePrefix` -/
def parsePrefix (raw : List Char) : Prefix :=
  let user := indexOfChar raw '!'
  let host := indexOfChar raw '@'
  let mk (cs : List Char) := String.ofList cs
  match user, host with
  | some u, some h =>
    if u > 0 ∧ h > u then ⟨mk (raw.take u), mk ((raw.take h).drop (u + 1)), mk (raw.drop (h + 1))⟩
    else if u > 0 then ⟨mk (raw.take u), mk (raw.drop (u + 1)), ""⟩
    else if h > 0 then ⟨mk (raw.take h), "", mk (raw.drop (h + 1))⟩
    else ⟨mk raw, "", ""⟩
  | some u, none => if u > 0 then ⟨mk (raw.take u), mk (raw.drop (u + 1)), ""⟩ else ⟨mk raw, "", ""⟩
  | none, some h => if h > 0 then ⟨mk (raw.take h), "", mk (raw.drop (h + 1))⟩ else ⟨mk raw, "", ""⟩
  | none, none => ⟨mk raw, "", ""⟩

def isCutset (c : Char) : Bool := c == '\r' || c == '\n'

/-- everything after the optional prefix: `raw[i:]` -/
def parseRest (pfx : Option Prefix) (r : List Char) : IrcMsg :=
  match indexOfChar r ' ' with
  | none => ⟨pfx, toUpper (String.ofList r), []⟩
  | some 0 => ⟨pfx, toUpper (String.ofList r), []⟩
  | some j =>
    let cmd := toUpper (String.ofList (r.take j))
    let rest := r.drop j                     -- starts with the space after the command
    match indexOf rest [' ', ':'] with
    | none => ⟨pfx, cmd, splitChar (String.ofList (rest.drop 1)) ' '⟩
    | some k =>
      let middle := if k ≥ 2 then splitChar (String.ofList ((rest.take k).drop 1)) ' ' else []
      ⟨pfx, cmd, middle ++ [String.ofList (rest.drop (k + 2))]⟩

/-- `irc.ParseMessage`; `none` = nil -/
def parseMessage (raw : String) : Option IrcMsg :=
  let cs := ((raw.toList.dropWhile isCutset).reverse.dropWhile isCutset).reverse
  if (String.ofList cs).utf8ByteSize < 2 then none
  else match cs with
    | ':' :: _ =>
      match indexOfChar cs ' ' with
      | none => none
      | some i =>
        if i < 2 then none
        else some (parseRest (some (parsePrefix ((cs.take i).drop 1))) (cs.drop (i + 1)))
    | _ => some (parseRest none cs)

/-- `Message.Bytes`: at most 510 bytes -/
def IrcMsg.render (m : IrcMsg) : Bytes :=
  let p := match m.pfx with
    | some p => ":" ++ p.str ++ " "
    | none => ""
  let mid := if m.params.length > 1 then " " ++ joinStr " " m.params.dropLast else ""
  let tr := match m.params.getLast? with
    | none => ""
    | some t =>
      let colon := t.isEmpty || t.toList.contains ' ' || t.toList.head? == some ':'
      " " ++ (if colon then ":" else "") ++ t
  (utf8 (p ++ m.command ++ mid ++ tr)).take 510

end Robust.Irc
