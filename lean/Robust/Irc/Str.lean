import Robust.Gen.Unicode
import Robust.Base.Bytes
/-!
String functions of the Go standard library as used by `internal/ircserver`
(`strings.ToLower/ToUpper/TrimSpace/Split/HasPrefix/…`, `fmt` verbs `%d %x`, `hash/fnv`),
over Lean `String`s (valid UTF-8, as guaranteed for entry text by JSON decoding / proto3).
-/
namespace Robust.Irc
open Robust

/-- binary search in a table sorted by first component -/
def lookupTable (t : Array (Nat × Nat)) (c : Nat) : Option Nat :=
  let rec go (lo hi fuel : Nat) : Option Nat :=
    match fuel with
    | 0 => none
    | fuel + 1 =>
      if lo ≥ hi then none
      else
        let mid := (lo + hi) / 2
        match t[mid]? with
        | none => none
        | some (k, v) => if k = c then some v else if k < c then go (mid + 1) hi fuel else go lo mid fuel
  go 0 t.size 32

def lowerChar (c : Char) : Char :=
  if c.toNat < 128 then (if 'A' ≤ c ∧ c ≤ 'Z' then Char.ofNat (c.toNat + 32) else c)
  else match lookupTable Gen.Unicode.toLowerTable c.toNat with
    | some v => Char.ofNat v
    | none => c

def upperChar (c : Char) : Char :=
  if c.toNat < 128 then (if 'a' ≤ c ∧ c ≤ 'z' then Char.ofNat (c.toNat - 32) else c)
  else match lookupTable Gen.Unicode.toUpperTable c.toNat with
    | some v => Char.ofNat v
    | none => c

/-- `strings.ToLower` -/
def toLower (s : String) : String := String.ofList (s.toList.map lowerChar)
/-- `strings.ToUpper` -/
def toUpper (s : String) : String := String.ofList (s.toList.map upperChar)

def isSpaceChar (c : Char) : Bool := Gen.Unicode.spaceTable.contains c.toNat

/-- `strings.TrimSpace` -/
def trimSpace (s : String) : String :=
  String.ofList ((s.toList.dropWhile isSpaceChar).reverse.dropWhile isSpaceChar).reverse

def hasPrefix (s p : String) : Bool := p.toList.isPrefixOf s.toList
def hasSuffix (s p : String) : Bool := p.toList.reverse.isPrefixOf s.toList.reverse

def dropChars (s : String) (n : Nat) : String := String.ofList (s.toList.drop n)
def takeChars (s : String) (n : Nat) : String := String.ofList (s.toList.take n)

/-- everything before the first space (`strings.IndexByte(s, ' ')`) -/
@[irreducible] def firstWord (s : String) : String := String.ofList (s.toList.takeWhile (· != ' '))

/-- `strings.Split(s, sep)` for a single-character separator -/
def splitChar (s : String) (sep : Char) : List String :=
  let rec go (cs : List Char) (cur : List Char) (acc : List String) : List String :=
    match cs with
    | [] => (String.ofList cur.reverse :: acc).reverse
    | c :: rest => if c = sep then go rest [] (String.ofList cur.reverse :: acc) else go rest (c :: cur) acc
  go s.toList [] []

def joinStr (sep : String) (xs : List String) : String := sep.intercalate xs

/-- index of the first occurrence of `pat` in `cs` (`strings.Index`), in characters -/
def indexOf (cs pat : List Char) : Option Nat :=
  let rec go (cs : List Char) (i : Nat) : Option Nat :=
    if pat.isPrefixOf cs then some i
    else match cs with
      | [] => none
      | _ :: rest => go rest (i + 1)
  go cs 0

def containsStr (s pat : String) : Bool := (indexOf s.toList pat.toList).isSome

/-- `strings.Replace(s, old, new, -1)` for non-empty `old` -/
def replaceAll (s old new : String) : String :=
  let o := old.toList
  let rec go (cs : List Char) (acc : List Char) (fuel : Nat) : List Char :=
    match fuel with
    | 0 => acc.reverse ++ cs
    | fuel + 1 =>
      if o.isPrefixOf cs ∧ o ≠ [] then go (cs.drop o.length) (new.toList.reverse ++ acc) fuel
      else match cs with
        | [] => acc.reverse
        | c :: rest => go rest (c :: acc) fuel
  String.ofList (go s.toList [] (s.length + 1))

def hexDigitLower (n : Nat) : Char := if n < 10 then Char.ofNat (48 + n) else Char.ofNat (87 + n)

/-- `fmt.Sprintf("%x", n)` -/
def hexNat (n : Nat) : String :=
  let rec go (n : Nat) (acc : List Char) (fuel : Nat) : List Char :=
    match fuel with
    | 0 => acc
    | fuel + 1 => if n < 16 then hexDigitLower n :: acc else go (n / 16) (hexDigitLower (n % 16) :: acc) fuel
  String.ofList (go n [] 64)

/-- FNV-1 64 bit (`hash/fnv.New64`) of the UTF-8 bytes -/
def fnv64 (s : String) : Nat :=
  s.toUTF8.toList.foldl (fun h b => ((h * 1099511628211) % 18446744073709551616) ^^^ b.toNat) 14695981039346656037

/-- decimal digits only → value (`none` otherwise) -/
def parseDigits (s : String) : Option Nat :=
  if s.isEmpty then none
  else if s.toList.all (fun c => '0' ≤ c ∧ c ≤ '9') then s.toNat? else none

def hexVal? (c : Char) : Option Nat :=
  if '0' ≤ c ∧ c ≤ '9' then some (c.toNat - 48)
  else if 'a' ≤ c ∧ c ≤ 'f' then some (c.toNat - 87)
  else if 'A' ≤ c ∧ c ≤ 'F' then some (c.toNat - 55)
  else none

def parseHex (s : String) : Option Nat :=
  if s.isEmpty then none
  else s.toList.foldl (fun acc c => match acc, hexVal? c with
    | some a, some v => some (a * 16 + v)
    | _, _ => none) (some 0)

def utf8 (s : String) : Bytes := s.toUTF8.toList

end Robust.Irc
