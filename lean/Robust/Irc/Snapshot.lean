import Robust.Irc.Apply
/-!
`IRCServer.Marshal` followed by `IRCServer.Unmarshal` into a fresh instance
(internal/ircserver/serialize.go), on the decoded snapshot (the protobuf wire codec is assumed,
see C18): what a node holds after a snapshot/restore round trip.
-/
namespace Robust.Irc
open Robust

/-- one session through `pb.Snapshot.Session` and back -/
def loadSession (s : Session) : Session :=
  let la := s.lastActivity
  { s with
    channels := s.channels.map chanToLower,
    invitedTo := s.invitedTo.map chanToLower,
    created := if s.created > 0 then s.created else (s.id.id : Int),
    lastNonPing := if s.lastNonPing == zeroTime then la else s.lastNonPing,
    deleted := false }

def loadChannel (c : Channel) : Channel :=
  { c with nicks := c.nicks.foldl (fun m e => AMap.set m (nickToLower e.1) e.2) [] }

/-- `Unmarshal (Marshal st)` into `NewIRCServer(serverName, …)` -/
def saveLoad (st : St) : St :=
  let sessions := st.sessions.foldl (fun m e => AMap.set m e.2.id (loadSession e.2)) ([] : AMap Id Session)
  { sessions := sessions,
    nicks := st.sessions.foldl (fun m e => if e.2.nick != "" then AMap.set m (nickToLower e.2.nick) e.2.id else m) [],
    channels := st.channels.foldl (fun m e => AMap.set m (chanToLower e.2.name) (loadChannel e.2)) [],
    svsholds := st.svsholds.foldl (fun m e => AMap.set m (nickToLower e.1) e.2) [],
    serverSessions := (st.sessions.filter (·.2.server)).map (·.2.id.id),
    lastProcessed := st.lastProcessed,
    serverName := st.serverName,
    config := st.config }

/-- what `loadSession` needs of a stored session: the channel list of a nickless session and
the invitations are lower-cased, `created`/`lastNonPing` do not trigger the fallbacks for
snapshots written by old versions (or the fallback yields the same value) -/
def sessCanonB (s : Session) : Bool :=
  (s.nick != "" || s.channels.all fun ch => chanToLower ch == ch) &&
  (s.invitedTo.all fun ch => chanToLower ch == ch) &&
  (decide (0 < s.created) || s.created == (s.id.id : Int)) &&
  (s.lastNonPing != zeroTime || s.lastActivity == zeroTime)

/-- `Canon` as a Boolean -/
def canonB (st : St) : Bool :=
  (st.sessions.all fun e => sessCanonB e.2) &&
  !AMap.contains st.nicks "" &&
  decide (AMap.keys st.svsholds).Nodup &&
  (st.svsholds.all fun e => nickToLower e.1 == e.1)

end Robust.Irc
