import Robust.Irc.Proofs.PermPrim
import Robust.Irc.Proofs.FrameDelete
/-!
Order-independence, part 5: `deleteSession`.

The loop over `i.channels` in `deleteSessionLocked` visits the channels in map order.  Its effect
is described extensionally (`DelSem`): after visiting the keys `P`,

* channel `k ∈ P` has lost the member `lcn` and is gone if it became empty (`delChan`),
* every session has lost the invitations to the visited channels that are gone (`keepInv`),

which depends on `P` only through membership.  Hence two runs over permuted channel maps end in
equivalent states.
-/
set_option linter.unusedSectionVars false
set_option linter.unusedVariables false

namespace Robust.Irc
open Robust

/-- what the loop body does to one channel: drop the member; `none` = the channel is deleted -/
def delChan (lcn : String) (ch : Channel) : Option Channel :=
  if (AMap.erase ch.nicks lcn).length > 0 then some { ch with nicks := AMap.erase ch.nicks lcn } else none

/-- the channel stored under `k` becomes empty -/
def deadKey (lcn : String) (chs : AMap String Channel) (k : String) : Bool :=
  match AMap.get chs k with
  | some ch => (delChan lcn ch).isNone
  | none => false

/-- the invitations that survive after the keys `P` have been visited -/
def keepInv (lcn : String) (chs : AMap String Channel) (P : List String) (x : String) : Bool :=
  !(decide (x ∈ P) && deadKey lcn chs x)

structure DelSem (lcn : String) (c0 c : Ctx) (P : List String) : Prop where
  nicks : c.st.nicks = c0.st.nicks
  svsholds : c.st.svsholds = c0.st.svsholds
  serverSessions : c.st.serverSessions = c0.st.serverSessions
  lastProcessed : c.st.lastProcessed = c0.st.lastProcessed
  serverName : c.st.serverName = c0.st.serverName
  config : c.st.config = c0.st.config
  msgid : c.msgid = c0.msgid
  replyid : c.replyid = c0.replyid
  out : c.out = c0.out
  chanNodup : (AMap.keys c.st.channels).Nodup
  chan : ∀ k, AMap.get c.st.channels k =
    if k ∈ P then (AMap.get c0.st.channels k).bind (delChan lcn) else AMap.get c0.st.channels k
  sessKeys : AMap.keys c.st.sessions = AMap.keys c0.st.sessions
  sess : ∀ id, AMap.get c.st.sessions id = (AMap.get c0.st.sessions id).map
    fun s => { s with invitedTo := s.invitedTo.filter (keepInv lcn c0.st.channels P) }

theorem DelSem.init (lcn : String) (c : Ctx) (hn : (AMap.keys c.st.channels).Nodup) : DelSem lcn c c [] := by
  refine ⟨rfl, rfl, rfl, rfl, rfl, rfl, rfl, rfl, rfl, hn, fun k => by simp, rfl, fun id => ?_⟩
  have : keepInv lcn c.st.channels [] = fun _ => true := by
    funext x; simp [keepInv]
  rw [this]
  cases AMap.get c.st.sessions id with
  | none => rfl
  | some s =>
    have hf : List.filter (fun _ => true) s.invitedTo = s.invitedTo := by simp
    simp only [Option.map_some, hf]

theorem DelSem.step {lcn : String} {c0 c : Ctx} {P : List String} (h : DelSem lcn c0 c P)
    (hk0 : ∀ lc ch, AMap.get c0.st.channels lc = some ch → chanToLower ch.name = lc)
    (e : String × Channel) (he : e.1 ∉ P) : DelSem lcn c0 (delStep lcn c e) (e.1 :: P) := by
  obtain ⟨k, chIgnored⟩ := e
  simp only at he ⊢
  have hgk : AMap.get c.st.channels k = AMap.get c0.st.channels k := by rw [h.chan k, if_neg he]
  -- the invitation filter after the step, in the two cases
  have keep_same : deadKey lcn c0.st.channels k = false →
      keepInv lcn c0.st.channels (k :: P) = keepInv lcn c0.st.channels P := by
    intro hd
    funext x
    unfold keepInv
    by_cases hx : x = k
    · subst hx; simp [hd, he]
    · simp [hx]
  have keep_dead : deadKey lcn c0.st.channels k = true → ∀ x,
      (keepInv lcn c0.st.channels P x && decide (x ≠ k)) = keepInv lcn c0.st.channels (k :: P) x := by
    intro hd x
    unfold keepInv
    by_cases hx : x = k
    · subst hx; simp [hd]
    · simp [hx]
  unfold delStep
  simp only [getChan_eq]
  cases hg : AMap.get c0.st.channels k with
  | none =>
    rw [hg] at hgk
    simp only [hgk]
    have hd : deadKey lcn c0.st.channels k = false := by simp [deadKey, hg]
    refine ⟨h.nicks, h.svsholds, h.serverSessions, h.lastProcessed, h.serverName, h.config, h.msgid, h.replyid, h.out,
      h.chanNodup, fun k' => ?_, h.sessKeys, fun id => by rw [keep_same hd]; exact h.sess id⟩
    rw [h.chan k']
    by_cases hkk : k' = k
    · subst hkk; simp [he, hg]
    · simp [hkk]
  | some ch =>
    rw [hg] at hgk
    simp only [hgk]
    have hname : chanToLower ch.name = k := hk0 k ch hg
    unfold dropMember
    have hget1 : AMap.get (putChan c k { ch with nicks := AMap.erase ch.nicks lcn }).st.channels k =
        some { ch with nicks := AMap.erase ch.nicks lcn } := by simp
    by_cases hnil : AMap.erase ch.nicks lcn = []
    · -- the channel is deleted
      have hd : deadKey lcn c0.st.channels k = true := by simp [deadKey, hg, delChan, hnil]
      rw [maybeDeleteChannel_empty hget1 hnil]
      simp only [hname]
      refine ⟨h.nicks, h.svsholds, h.serverSessions, h.lastProcessed, h.serverName, h.config, h.msgid, h.replyid, h.out,
        ?_, fun k' => ?_, ?_, fun id => ?_⟩
      · exact AMap.nodup_keys_erase _ (AMap.nodup_keys_set _ _ h.chanNodup)
      · show AMap.get (AMap.erase (AMap.set c.st.channels k _) k) k' = _
        rw [AMap.get_erase]
        by_cases hkk : k' = k
        · subst hkk
          simp [hg, delChan, hnil]
        · rw [if_neg hkk, AMap.get_set_other _ hkk, h.chan k']
          simp [hkk]
      · show AMap.keys ((c.st.sessions).map fun e => (e.1, _)) = _
        rw [AMap.keys_map_val c.st.sessions
          (fun e => ({ e.2 with invitedTo := e.2.invitedTo.filter (· ≠ k) } : Session))]
        exact h.sessKeys
      · show AMap.get ((c.st.sessions).map fun e => (e.1, _)) id = _
        rw [AMap.get_map_val c.st.sessions
          (fun s => ({ s with invitedTo := s.invitedTo.filter (· ≠ k) } : Session)), h.sess id]
        cases AMap.get c0.st.sessions id with
        | none => rfl
        | some s =>
          simp only [Option.map_some, List.filter_filter]
          congr 2
          apply List.filter_congr
          intro x _
          rw [Bool.and_comm]
          have := keep_dead hd x
          simpa using this
    · -- the channel stays
      have hd : deadKey lcn c0.st.channels k = false := by
        have : (AMap.erase ch.nicks lcn).length > 0 := List.length_pos_iff.2 hnil
        simp [deadKey, hg, delChan, this]
      rw [maybeDeleteChannel_nonempty hget1 hnil]
      refine ⟨h.nicks, h.svsholds, h.serverSessions, h.lastProcessed, h.serverName, h.config, h.msgid, h.replyid, h.out,
        AMap.nodup_keys_set _ _ h.chanNodup, fun k' => ?_, h.sessKeys, fun id => by rw [keep_same hd]; exact h.sess id⟩
      show AMap.get (AMap.set c.st.channels k _) k' = _
      rw [AMap.get_set]
      by_cases hkk : k' = k
      · subst hkk
        have : (AMap.erase ch.nicks lcn).length > 0 := List.length_pos_iff.2 hnil
        simp [hg, delChan, this]
      · rw [if_neg hkk, h.chan k']
        simp [hkk]

theorem DelSem.foldl {lcn : String} {c0 : Ctx}
    (hk0 : ∀ lc ch, AMap.get c0.st.channels lc = some ch → chanToLower ch.name = lc) :
    ∀ (l : List (String × Channel)) (c : Ctx) (P : List String), DelSem lcn c0 c P →
      (l.map (·.1)).Nodup → (∀ k ∈ l.map (·.1), k ∉ P) →
      DelSem lcn c0 (l.foldl (delStep lcn) c) ((l.map (·.1)).reverse ++ P)
  | [], c, P, h, _, _ => by simpa using h
  | e :: t, c, P, h, hn, hd => by
    simp only [List.map_cons, List.nodup_cons] at hn
    have h1 := h.step hk0 e (hd e.1 (by simp))
    have := DelSem.foldl hk0 t _ (e.1 :: P) h1 hn.2 (fun k hk => by
      intro hm
      rcases List.mem_cons.1 hm with rfl | hm
      · exact hn.1 hk
      · exact hd k (by simp only [List.map_cons]; exact List.mem_cons_of_mem _ hk) hm)
    simpa using this

/-- the state after the loop -/
structure DelFinal (lcn : String) (c0 c : Ctx) : Prop where
  nicks : c.st.nicks = c0.st.nicks
  svsholds : c.st.svsholds = c0.st.svsholds
  serverSessions : c.st.serverSessions = c0.st.serverSessions
  lastProcessed : c.st.lastProcessed = c0.st.lastProcessed
  serverName : c.st.serverName = c0.st.serverName
  config : c.st.config = c0.st.config
  msgid : c.msgid = c0.msgid
  replyid : c.replyid = c0.replyid
  out : c.out = c0.out
  chanNodup : (AMap.keys c.st.channels).Nodup
  chan : ∀ k, AMap.get c.st.channels k = (AMap.get c0.st.channels k).bind (delChan lcn)
  sessKeys : AMap.keys c.st.sessions = AMap.keys c0.st.sessions
  sess : ∀ id, AMap.get c.st.sessions id = (AMap.get c0.st.sessions id).map
    fun s => { s with invitedTo := s.invitedTo.filter (fun x => !deadKey lcn c0.st.channels x) }

theorem delLoop_final (lcn : String) (c : Ctx) (hn : (AMap.keys c.st.channels).Nodup)
    (hk0 : ∀ lc ch, AMap.get c.st.channels lc = some ch → chanToLower ch.name = lc) :
    DelFinal lcn c (c.st.channels.foldl (delStep lcn) c) := by
  have h := DelSem.foldl (lcn := lcn) hk0 c.st.channels c [] (DelSem.init lcn c hn) hn (fun _ _ => by simp)
  rw [List.append_nil] at h
  have hmem : ∀ k, k ∈ (c.st.channels.map (·.1)).reverse ↔ k ∈ AMap.keys c.st.channels := by
    intro k; rw [List.mem_reverse]; rfl
  have hkeep : keepInv lcn c.st.channels (c.st.channels.map (·.1)).reverse =
      fun x => !deadKey lcn c.st.channels x := by
    funext x
    unfold keepInv
    by_cases hx : x ∈ AMap.keys c.st.channels
    · simp [(hmem x).2 hx]
    · have : deadKey lcn c.st.channels x = false := by
        unfold deadKey; rw [AMap.get_eq_none_iff.2 hx]
      simp [this]
  refine ⟨h.nicks, h.svsholds, h.serverSessions, h.lastProcessed, h.serverName, h.config, h.msgid, h.replyid, h.out,
    h.chanNodup, fun k => ?_, h.sessKeys, fun id => by rw [h.sess id, hkeep]⟩
  rw [h.chan k]
  split
  · rfl
  · rename_i hk
    have : k ∉ AMap.keys c.st.channels := fun hm => hk ((hmem k).2 hm)
    rw [AMap.get_eq_none_iff.2 this]; rfl

/-! ### congruence -/

theorem delChan_congr (lcn : String) {ch ch' : Channel} (h : ChanEq ch ch') :
    ORel ChanEq (delChan lcn ch) (delChan lcn ch') := by
  unfold delChan
  have he := h.nicks.erase lcn
  rw [he.length_eq]
  split
  · exact .ss (h.withNicks he)
  · exact .nn

theorem deadKey_congr (lcn : String) {m m' : AMap String Channel} (h : MEq ChanEq m m') (k : String) :
    deadKey lcn m' k = deadKey lcn m k := by
  unfold deadKey
  have hk := h.rel k
  generalize AMap.get m k = o at hk
  generalize AMap.get m' k = o' at hk
  cases hk with
  | nn => rfl
  | ss hr =>
    rename_i a b
    have := delChan_congr lcn hr
    show (delChan lcn b).isNone = (delChan lcn a).isNone
    generalize delChan lcn a = x at this
    generalize delChan lcn b = y at this
    cases this <;> rfl

theorem delChan_name {lcn : String} {ch x : Channel} (h : delChan lcn ch = some x) : x.name = ch.name := by
  unfold delChan at h
  split at h
  · cases h; rfl
  · cases h

theorem delLoop_congr {c c' : Ctx} (h : CEq c c') (lcn : String) :
    CEq (c.st.channels.foldl (delStep lcn) c) (c'.st.channels.foldl (delStep lcn) c') := by
  have f := delLoop_final lcn c h.st.channels.nd h.st.ckey
  have f' := delLoop_final lcn c' h.st.channels.nd' h.st.ckey'
  refine ⟨⟨?_, ?_, ?_, ?_, ?_, ?_, ?_, ?_, ?_⟩, ?_, ?_, ?_⟩
  · -- sessions
    refine ⟨by rw [f.sessKeys]; exact h.st.sessions.nd, by rw [f'.sessKeys]; exact h.st.sessions.nd', fun id => ?_⟩
    rw [f.sess id, f'.sess id]
    refine (h.st.sessions.rel id).map (fun s s' hs => ?_)
    have : (fun x => !deadKey lcn c'.st.channels x) = fun x => !deadKey lcn c.st.channels x := by
      funext x; rw [deadKey_congr lcn h.st.channels x]
    rw [this]
    exact hs.withInvitedTo (hs.invitedTo.filter _)
  · rw [f.nicks, f'.nicks]; exact h.st.nicks
  · refine ⟨f.chanNodup, f'.chanNodup, fun k => ?_⟩
    rw [f.chan k, f'.chan k]
    exact (h.st.channels.rel k).bind (fun ch ch' hch => delChan_congr lcn hch)
  · rw [f.svsholds, f'.svsholds]; exact h.st.svsholds
  · rw [f.serverSessions, f'.serverSessions]; exact h.st.serverSessions
  · rw [f.lastProcessed, f'.lastProcessed]; exact h.st.lastProcessed
  · rw [f.serverName, f'.serverName]; exact h.st.serverName
  · rw [f.config, f'.config]; exact h.st.config
  · intro lc x hg
    rw [f.chan lc] at hg
    cases hg0 : AMap.get c.st.channels lc with
    | none => rw [hg0] at hg; cases hg
    | some ch =>
      rw [hg0] at hg
      rw [delChan_name hg]
      exact h.st.ckey lc ch hg0
  · rw [f.msgid, f'.msgid]; exact h.msgid
  · rw [f.replyid, f'.replyid]; exact h.replyid
  · rw [f.out, f'.out]; exact h.out

theorem deleteSession_congr {c c' : Ctx} (h : CEq c c') (sid : Id) :
    RRel CEq (deleteSession c sid) (deleteSession c' sid) := by
  rcases (getSess_congr h sid).cases' with ⟨h1, h2⟩ | ⟨s, s', h1, h2, hs⟩
  · rw [deleteSession_none h1, deleteSession_none h2]; exact .panic
  · rw [deleteSession_eq h1, deleteSession_eq h2, hs.nick]
    have hl := delLoop_congr h (nickToLower s.nick)
    refine modS_congr_upd (hl.withSt (hl.st.withNicks (hl.st.nicks.erase _))) sid _
      (fun _ => rfl) (fun _ => rfl) (fun _ => rfl)

end Robust.Irc
