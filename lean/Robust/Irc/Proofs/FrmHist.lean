import Robust.Irc.Proofs.FrmEnd
/-!
Per-entry and per-history consequences of the frame relation:

* `applyEntry_marker`: the marker of every session stored after an entry, in terms of the state
  before and the entry (C10);
* `expectedMarker` / `run_marker`: the marker along a history (C10);
* `applyEntry_config_cases`: what an entry other than a Config entry may do to the configuration (C16);
* `Gone`, `applyEntry_delete_ends` / `_quit_ends` / `_kill_ends` / `_banned_ends`: after the entry the
  session is not stored, its nickname is free and it is on no channel (C17);
* `applyEntry_lastProcessed`, `LPBound`: what an entry does to `lastProcessed`, and the bound
  `lastProcessed.id ≤ id of the last applied entry` along histories with increasing ids (C17).
-/
namespace Robust.Irc
open Robust AMap

/-! ## the marker after one entry -/

/-- `MarkRel` for a session that was stored before: same marker -/
theorem MarkRel.old {st : St} {σ : Id} {s s' : Session} (h : MarkRel st σ s')
    (hs : AMap.get st.sessions σ = some s) : s'.lastClientMessageId = s.lastClientMessageId := by
  rcases h with ⟨s0, h0, e⟩ | ⟨hn, _⟩
  · rw [hs] at h0; cases h0; exact e
  · rw [hs] at hn; cases hn

/-- `MarkRel` for a session that was not stored before: marker `0`, a pseudo-client id -/
theorem MarkRel.new {st : St} {σ : Id} {s' : Session} (h : MarkRel st σ s')
    (hs : AMap.get st.sessions σ = none) : s'.lastClientMessageId = 0 ∧ σ.reply ≠ 0 := by
  rcases h with ⟨s0, h0, _⟩ | ⟨_, e, hr, _⟩
  · rw [hs] at h0; cases h0
  · exact ⟨e, hr⟩

/-- the marker of a session `σ` stored (as `s'`) after the entry `e`, in terms of the state `st`
before: the entry's client message id if the entry is a client entry / message of death of that
session; otherwise the old marker if the session was stored before; otherwise `0` — and a new session
with `reply = 0` can only be the one created by a CreateSession entry -/
def MarkerAfter (st : St) (e : Entry) (σ : Id) (s' : Session) : Prop :=
  ((e.type = 2 ∨ e.type = 5) → σ = e.session → s'.lastClientMessageId = e.cmid) ∧
  (¬((e.type = 2 ∨ e.type = 5) ∧ σ = e.session) → ∀ s, AMap.get st.sessions σ = some s →
    s'.lastClientMessageId = s.lastClientMessageId) ∧
  (AMap.get st.sessions σ = none →
    s'.lastClientMessageId = 0 ∧ (σ.reply = 0 → e.type = 0 ∧ σ = ⟨e.id, 0⟩))

theorem MarkerAfter.same {st : St} {e : Entry} {σ : Id} {s' : Session}
    (hs' : AMap.get st.sessions σ = some s')
    (hx : (e.type = 2 ∨ e.type = 5) → σ = e.session → AMap.get st.sessions σ = none) :
    MarkerAfter st e σ s' := by
  refine ⟨fun ht hσ => ?_, fun _ s hs => ?_, fun hn => ?_⟩
  · rw [hx ht hσ] at hs'; cases hs'
  · rw [hs] at hs'; cases hs'; rfl
  · rw [hn] at hs'; cases hs'

theorem MarkerAfter.client {st st1 : St} {e : Entry} {σ : Id} {s' : Session}
    (ht : e.type = 2 ∨ e.type = 5) (hu : updateLastClientMessageID st e = some st1)
    (mr : MarkRel st1 σ s') : MarkerAfter st e σ s' := by
  obtain ⟨⟨s, s1, hs, hs1, hm1, _⟩, hoth, _⟩ := updateLast_spec hu
  refine ⟨fun _ hσ => ?_, fun hne t ht' => ?_, fun hn => ?_⟩
  · subst hσ
    exact (mr.old hs1).trans hm1
  · have hσ : σ ≠ e.session := fun h => hne ⟨ht, h⟩
    exact mr.old (by rw [hoth σ hσ]; exact ht')
  · by_cases hσ : σ = e.session
    · subst hσ; rw [hs] at hn; cases hn
    · obtain ⟨h0, hrep⟩ := mr.new (by rw [hoth σ hσ]; exact hn)
      exact ⟨h0, fun hz => absurd hz hrep⟩

theorem MarkerAfter.plain {st : St} {e : Entry} {σ : Id} {s' : Session}
    (ht : ¬(e.type = 2 ∨ e.type = 5)) (mr : MarkRel st σ s') : MarkerAfter st e σ s' := by
  refine ⟨fun h => absurd h ht, fun _ s hs => mr.old hs, fun hn => ?_⟩
  obtain ⟨h0, hrep⟩ := mr.new hn
  exact ⟨h0, fun hz => absurd hz hrep⟩

theorem applyEntry_marker {st st' : St} {e : Entry} {out : List Out} (hw : SessWf st) (he : EntryOk st e)
    (hr : applyEntry st e = .ok (st', out)) {σ : Id} {s' : Session}
    (hs' : AMap.get st'.sessions σ = some s') : MarkerAfter st e σ s' := by
  by_cases h5 : e.type = 5
  · obtain ⟨rfl, _⟩ := applyEntry_death h5 hr
    cases hu : updateLastClientMessageID st e with
    | none =>
      rw [hu] at hs'
      exact MarkerAfter.same hs' (fun _ hσ => by rw [hσ]; exact updateLast_none hu)
    | some st1 =>
      rw [hu] at hs'
      exact MarkerAfter.client (Or.inr h5) hu (Or.inl ⟨s', hs', rfl⟩)
  by_cases h0 : e.type = 0
  · obtain ⟨rfl, _⟩ := applyEntry_create h0 hr
    have hfresh : AMap.get st.sessions ⟨e.id, 0⟩ = none := by
      cases hg : AMap.get st.sessions ⟨e.id, 0⟩ with
      | none => rfl
      | some s => exact absurd rfl (he.2 h0 ⟨e.id, 0⟩ s hg)
    have ht : ¬(e.type = 2 ∨ e.type = 5) := by rw [h0]; decide
    cases hcs : createSession st ⟨e.id, 0⟩ e.data e.timestamp with
    | none =>
      rw [hcs] at hs'
      exact MarkerAfter.same hs' (fun h => absurd h ht)
    | some st1 =>
      rw [hcs] at hs'
      simp only [Option.getD_some] at hs'
      rw [createSession_eq hcs] at hs'
      simp only at hs'
      rw [AMap.get_set] at hs'
      split at hs'
      · rename_i hσ
        cases hs'
        refine ⟨fun h => absurd h ht, fun _ s hs => ?_, fun _ => ⟨rfl, fun _ => ⟨h0, hσ⟩⟩⟩
        rw [hσ, hfresh] at hs; cases hs
      · exact MarkerAfter.same hs' (fun h => absurd h ht)
  by_cases h1 : e.type = 1
  · have ht : ¬(e.type = 2 ∨ e.type = 5) := by rw [h1]; decide
    rcases applyEntry_delete h1 hr with ⟨_, rfl, _⟩ | ⟨s, c, hs, hpm, rfl, _⟩
    · exact MarkerAfter.same hs' (fun h => absurd h ht)
    · have f := (processMessage_frm (he.1 (Or.inl h1)) hw hpm).1
      have hsub := maybeDeleteSession_sub (st := { c.st with lastProcessed := ⟨e.id, 0⟩ }) e.session f.wf.nodup hs'
      exact MarkerAfter.plain ht (f.mark σ s' hsub)
  by_cases h2 : e.type = 2
  · rcases applyEntry_client h2 hr with ⟨hn, rfl, _⟩ | ⟨st1, c, hu, hpm, rfl, _⟩
    · exact MarkerAfter.same hs' (fun _ hσ => by rw [hσ]; exact hn)
    · have f := (processMessage_frm (c := { st := st1, msgid := e.id }) (he.1 (Or.inr h2)) (hw.updateLast hu) hpm).1
      have hsub := maybeDeleteSession_sub (st := { c.st with lastProcessed := ⟨e.session.id, 0⟩ }) e.session
        f.wf.nodup hs'
      exact MarkerAfter.client (Or.inl h2) hu (f.mark σ s' hsub)
  have ht : ¬(e.type = 2 ∨ e.type = 5) := fun h => h.elim h2 h5
  by_cases h6 : e.type = 6
  · obtain ⟨rfl, _⟩ := applyEntry_config h6 hr
    refine MarkerAfter.same ?_ (fun h => absurd h ht)
    cases hc : e.cfg with
    | none => rw [hc] at hs'; exact hs'
    | some cfg => rw [hc] at hs'; exact hs'
  · obtain ⟨rfl, _⟩ := applyEntry_other ⟨h0, h1, h2, h5, h6⟩ hr
    exact MarkerAfter.same hs' (fun h => absurd h ht)

/-! ## the marker along a history -/

/-- what one entry does to the expected marker of session `σ` -/
def markerStep (σ : Id) (m : Nat) (e : Entry) : Nat :=
  if (e.type = 2 ∨ e.type = 5) ∧ e.session = σ then e.cmid
  else if e.type = 0 ∧ (⟨e.id, 0⟩ : Id) = σ then 0
  else m

/-- the marker session `σ` is expected to carry after the entries `es`, when it carried `m0` before:
the `cmid` of the last client entry / message of death of `σ` (since the last CreateSession entry
that creates `σ`, which resets it to `0`) -/
def expectedMarker (σ : Id) (m0 : Nat) (es : List Entry) : Nat := es.foldl (markerStep σ) m0

theorem applyEntry_marker_step {st st' : St} {e : Entry} {out : List Out} {σ : Id} {m : Nat}
    (hw : SessWf st) (he : EntryOk st e) (hσ : σ.reply = 0)
    (hP : ∀ s, AMap.get st.sessions σ = some s → s.lastClientMessageId = m)
    (hr : applyEntry st e = .ok (st', out)) :
    ∀ s', AMap.get st'.sessions σ = some s' → s'.lastClientMessageId = markerStep σ m e := by
  intro s' hs'
  obtain ⟨h1, h2, h3⟩ := applyEntry_marker hw he hr hs'
  unfold markerStep
  by_cases hc : (e.type = 2 ∨ e.type = 5) ∧ e.session = σ
  · rw [if_pos hc]; exact h1 hc.1 hc.2.symm
  · rw [if_neg hc]
    have hc' : ¬((e.type = 2 ∨ e.type = 5) ∧ σ = e.session) := fun h => hc ⟨h.1, h.2.symm⟩
    cases hg : AMap.get st.sessions σ with
    | some s =>
      have hn0 : ¬(e.type = 0 ∧ (⟨e.id, 0⟩ : Id) = σ) := by
        rintro ⟨h0, hid⟩
        exact he.2 h0 σ s hg (by rw [← hid])
      rw [if_neg hn0, h2 hc' s hg, hP s hg]
    | none =>
      obtain ⟨hz, hcr⟩ := h3 hg
      obtain ⟨h0, hid⟩ := hcr hσ
      rw [if_pos ⟨h0, hid.symm⟩, hz]

theorem run_sessWf {st st' : St} {es : List Entry} (hw : SessWf st) (hwf : WfHistory st es)
    (hr : runEntries st es = .ok st') : SessWf st' := by
  induction es generalizing st with
  | nil => cases hr; exact hw
  | cons e es ih =>
    unfold runEntries at hr
    obtain ⟨he, _, hnext⟩ := hwf
    split at hr
    · rename_i st1 out hap
      exact ih (hw.applyEntry he.1 hap) (hnext st1 out hap) hr
    · cases hr
    · cases hr

theorem run_marker {st st' : St} {es : List Entry} {σ : Id} {m0 : Nat} (hw : SessWf st)
    (hwf : WfHistory st es) (hσ : σ.reply = 0)
    (hP : ∀ s, AMap.get st.sessions σ = some s → s.lastClientMessageId = m0)
    (hr : runEntries st es = .ok st') :
    ∀ s', AMap.get st'.sessions σ = some s' → s'.lastClientMessageId = expectedMarker σ m0 es := by
  induction es generalizing st m0 with
  | nil => cases hr; exact hP
  | cons e es ih =>
    unfold runEntries at hr
    obtain ⟨he, _, hnext⟩ := hwf
    split at hr
    · rename_i st1 out hap
      exact ih (hw.applyEntry he.1 hap) (hnext st1 out hap) (applyEntry_marker_step hw he hσ hP hap) hr
    · cases hr
    · cases hr

/-! ## the configuration after one entry -/

/-- an entry other than a Config entry keeps the configuration, unless it is the GLINE of an IRC
operator, which adds one ban -/
theorem applyEntry_config_cases {st st' : St} {e : Entry} {out : List Out} (hw : SessWf st)
    (he : (e.type = 1 ∨ e.type = 2) → e.session.reply = 0) (h6 : e.type ≠ 6)
    (hr : applyEntry st e = .ok (st', out)) :
    st'.config = st.config ∨
    ∃ m s addr reason, e.type = 2 ∧ parseMessage e.data = some m ∧ toUpper m.command = "GLINE" ∧
      AMap.get st.sessions e.session = some s ∧ s.operator = true ∧
      st'.config = { st.config with banned := AMap.set st.config.banned addr reason } := by
  by_cases h5 : e.type = 5
  · obtain ⟨rfl, _⟩ := applyEntry_death h5 hr
    cases hu : updateLastClientMessageID st e with
    | none => exact Or.inl rfl
    | some st1 => exact Or.inl (updateLast_spec hu).2.2.2.1
  by_cases h0 : e.type = 0
  · obtain ⟨rfl, _⟩ := applyEntry_create h0 hr
    cases hcs : createSession st ⟨e.id, 0⟩ e.data e.timestamp with
    | none => exact Or.inl rfl
    | some st1 =>
      simp only [Option.getD_some]
      rw [createSession_eq hcs]
      exact Or.inl rfl
  by_cases h1 : e.type = 1
  · rcases applyEntry_delete h1 hr with ⟨_, rfl, _⟩ | ⟨s, c, hs, hpm, rfl, _⟩
    · exact Or.inl rfl
    · rw [(maybeDeleteSession_other _ _).1]
      obtain ⟨_, hc⟩ := processMessage_frm (he (Or.inl h1)) hw hpm
      rcases hc with hc | ⟨m, s1, addr, reason, him, hcmd, _⟩
      · exact Or.inl hc
      · have := (parseMessage_quit _ him).2
        rw [hcmd] at this
        exact absurd this (by decide)
  by_cases h2 : e.type = 2
  · rcases applyEntry_client h2 hr with ⟨_, rfl, _⟩ | ⟨st1, c, hu, hpm, rfl, _⟩
    · exact Or.inl rfl
    · rw [(maybeDeleteSession_other _ _).1]
      obtain ⟨⟨s, s1, hs, hs1, _, _, _, _, hop, _⟩, _, _, hcfg, _⟩ := updateLast_spec hu
      obtain ⟨_, hc⟩ := processMessage_frm (c := { st := st1, msgid := e.id }) (he (Or.inr h2)) (hw.updateLast hu) hpm
      rcases hc with hc | ⟨m, s1', addr, reason, him, hcmd, hs1', hop', hc⟩
      · exact Or.inl (hc.trans hcfg)
      · have e1 : s1' = s1 := by
          have : AMap.get st1.sessions e.session = some s1' := hs1'
          rw [hs1] at this; cases this; rfl
        subst e1
        refine Or.inr ⟨m, s, addr, reason, h2, him, hcmd, hs, by rw [← hop]; exact hop', ?_⟩
        have hc' : c.st.config = { st1.config with banned := AMap.set st1.config.banned addr reason } := hc
        rw [hc', hcfg]
  · obtain ⟨rfl, _⟩ := applyEntry_other ⟨h0, h1, h2, h5, h6⟩ hr
    exact Or.inl rfl

/-! ## `lastProcessed` -/

/-- what one entry does to `lastProcessed`: a DeleteSession entry of a stored session sets it to the
entry's id, a client entry of a stored session to the numeric id *of the session*, everything else
leaves it alone -/
theorem applyEntry_lastProcessed {st st' : St} {e : Entry} {out : List Out}
    (hr : applyEntry st e = .ok (st', out)) :
    st'.lastProcessed =
      if e.type = 1 ∧ (AMap.get st.sessions e.session).isSome then ⟨e.id, 0⟩
      else if e.type = 2 ∧ (AMap.get st.sessions e.session).isSome then ⟨e.session.id, 0⟩
      else st.lastProcessed := by
  by_cases h5 : e.type = 5
  · obtain ⟨rfl, _⟩ := applyEntry_death h5 hr
    rw [if_neg (by rw [h5]; simp), if_neg (by rw [h5]; simp)]
    cases hu : updateLastClientMessageID st e with
    | none => rfl
    | some st1 => exact (updateLast_spec hu).2.2.2.2.1
  by_cases h0 : e.type = 0
  · obtain ⟨rfl, _⟩ := applyEntry_create h0 hr
    rw [if_neg (by rw [h0]; simp), if_neg (by rw [h0]; simp)]
    cases hcs : createSession st ⟨e.id, 0⟩ e.data e.timestamp with
    | none => rfl
    | some st1 =>
      simp only [Option.getD_some]
      rw [createSession_eq hcs]
  by_cases h1 : e.type = 1
  · rcases applyEntry_delete h1 hr with ⟨hn, rfl, _⟩ | ⟨s, c, hs, hpm, rfl, _⟩
    · rw [if_neg (by rw [hn]; simp), if_neg (by rw [hn]; simp)]
    · rw [if_pos ⟨h1, by rw [hs]; rfl⟩, (maybeDeleteSession_other _ _).2.1]
  by_cases h2 : e.type = 2
  · rcases applyEntry_client h2 hr with ⟨hn, rfl, _⟩ | ⟨st1, c, hu, hpm, rfl, _⟩
    · rw [if_neg (by rw [hn]; simp), if_neg (by rw [hn]; simp)]
    · obtain ⟨⟨s, s1, hs, _⟩, _⟩ := updateLast_spec hu
      rw [if_neg (fun h => h1 h.1), if_pos ⟨h2, by rw [hs]; rfl⟩, (maybeDeleteSession_other _ _).2.1]
  rw [if_neg (fun h => h1 h.1), if_neg (fun h => h2 h.1)]
  by_cases h6 : e.type = 6
  · obtain ⟨rfl, _⟩ := applyEntry_config h6 hr
    cases e.cfg <;> rfl
  · obtain ⟨rfl, _⟩ := applyEntry_other ⟨h0, h1, h2, h5, h6⟩ hr
    rfl

/-- `lastProcessed` and every stored session id are bounded by `n` (think: the id of the entry
applied last) -/
def LPBound (st : St) (n : Nat) : Prop :=
  st.lastProcessed.id ≤ n ∧ ∀ id s, AMap.get st.sessions id = some s → id.id ≤ n

theorem LPBound.mono {st : St} {n n' : Nat} (h : LPBound st n) (hn : n ≤ n') : LPBound st n' :=
  ⟨Nat.le_trans h.1 hn, fun id s hg => Nat.le_trans (h.2 id s hg) hn⟩

theorem applyEntry_lpBound {st st' : St} {e : Entry} {out : List Out} {n : Nat} (hw : SessWf st)
    (he : (e.type = 1 ∨ e.type = 2) → e.session.reply = 0) (hb : LPBound st n) (hn : n ≤ e.id)
    (hr : applyEntry st e = .ok (st', out)) : LPBound st' e.id := by
  refine ⟨?_, ?_⟩
  · rw [applyEntry_lastProcessed hr]
    split
    · exact Nat.le_refl _
    · split
      · rename_i h
        cases hg : AMap.get st.sessions e.session with
        | none => rw [hg] at h; simp at h
        | some s => exact Nat.le_trans (hb.2 e.session s hg) hn
      · exact Nat.le_trans hb.1 hn
  · intro id s hg
    have base : ∀ st0 : St, (∀ k t, AMap.get st0.sessions k = some t → k.id ≤ n) →
        ∀ stx, FrmM st0 stx → AMap.get stx.sessions id = some s → id.id ≤ e.id := by
      intro st0 h0 stx fm hx
      obtain ⟨k0, t0, hk0, hk0id⟩ := fm.idBase hx
      rw [← hk0id]; exact Nat.le_trans (h0 k0 t0 hk0) hn
    by_cases h5 : e.type = 5
    · obtain ⟨rfl, _⟩ := applyEntry_death h5 hr
      cases hu : updateLastClientMessageID st e with
      | none => rw [hu] at hg; exact Nat.le_trans (hb.2 id s hg) hn
      | some st1 =>
        rw [hu] at hg
        have hk := (updateLast_spec hu).2.2.1
        have : id ∈ AMap.keys st.sessions := by rw [← hk]; exact AMap.mem_keys_of_get hg
        obtain ⟨t, ht⟩ := AMap.mem_keys_iff_get.1 this
        exact Nat.le_trans (hb.2 id t ht) hn
    by_cases h0 : e.type = 0
    · obtain ⟨rfl, _⟩ := applyEntry_create h0 hr
      cases hcs : createSession st ⟨e.id, 0⟩ e.data e.timestamp with
      | none => rw [hcs] at hg; exact Nat.le_trans (hb.2 id s hg) hn
      | some st1 =>
        rw [hcs] at hg
        simp only [Option.getD_some] at hg
        rw [createSession_eq hcs] at hg
        simp only at hg
        rw [AMap.get_set] at hg
        split at hg
        · rename_i hid; rw [hid]; exact Nat.le_refl _
        · exact Nat.le_trans (hb.2 id s hg) hn
    by_cases h1 : e.type = 1
    · rcases applyEntry_delete h1 hr with ⟨_, rfl, _⟩ | ⟨s0, c, hs0, hpm, rfl, _⟩
      · exact Nat.le_trans (hb.2 id s hg) hn
      · have f := (processMessage_frm (he (Or.inl h1)) hw hpm).1
        have hsub := maybeDeleteSession_sub (st := { c.st with lastProcessed := ⟨e.id, 0⟩ }) e.session f.wf.nodup hg
        exact base st hb.2 c.st f hsub
    by_cases h2 : e.type = 2
    · rcases applyEntry_client h2 hr with ⟨_, rfl, _⟩ | ⟨st1, c, hu, hpm, rfl, _⟩
      · exact Nat.le_trans (hb.2 id s hg) hn
      · have f := (processMessage_frm (c := { st := st1, msgid := e.id }) (he (Or.inr h2)) (hw.updateLast hu) hpm).1
        have hsub := maybeDeleteSession_sub (st := { c.st with lastProcessed := ⟨e.session.id, 0⟩ }) e.session
          f.wf.nodup hg
        have hk := (updateLast_spec hu).2.2.1
        refine base st1 ?_ c.st f hsub
        intro k t hkt
        have : k ∈ AMap.keys st.sessions := by rw [← hk]; exact AMap.mem_keys_of_get hkt
        obtain ⟨t', ht'⟩ := AMap.mem_keys_iff_get.1 this
        exact hb.2 k t' ht'
    by_cases h6 : e.type = 6
    · obtain ⟨rfl, _⟩ := applyEntry_config h6 hr
      have : AMap.get st.sessions id = some s := by
        cases hc : e.cfg with
        | none => rw [hc] at hg; exact hg
        | some cfg => rw [hc] at hg; exact hg
      exact Nat.le_trans (hb.2 id s this) hn
    · obtain ⟨rfl, _⟩ := applyEntry_other ⟨h0, h1, h2, h5, h6⟩ hr
      exact Nat.le_trans (hb.2 id s hg) hn

/-- entry ids increase strictly along the history, starting above `n` -/
def IdsIncreasing : Nat → List Entry → Prop
  | _, [] => True
  | n, e :: es => n < e.id ∧ IdsIncreasing e.id es

/-- id of the last entry of the history (`n` for the empty history) -/
def lastId : Nat → List Entry → Nat
  | n, [] => n
  | _, e :: es => lastId e.id es

theorem run_lpBound {st st' : St} {es : List Entry} {n : Nat} (hw : SessWf st) (hwf : WfHistory st es)
    (hinc : IdsIncreasing n es) (hb : LPBound st n) (hr : runEntries st es = .ok st') :
    LPBound st' (lastId n es) := by
  induction es generalizing st n with
  | nil => cases hr; exact hb
  | cons e es ih =>
    unfold runEntries at hr
    obtain ⟨he, _, hnext⟩ := hwf
    obtain ⟨hlt, hinc'⟩ := hinc
    split at hr
    · rename_i st1 out hap
      exact ih (hw.applyEntry he.1 hap) (hnext st1 out hap) hinc'
        (applyEntry_lpBound hw he.1 hb (Nat.le_of_lt hlt) hap) hr
    · cases hr
    · cases hr

/-! ## end of a session, per entry -/

/-- the session is gone: not stored, its index key free, listed by no channel -/
structure Gone (st : St) (σ : Id) (lcn : String) : Prop where
  notStored : AMap.get st.sessions σ = none
  nickFree : AMap.get st.nicks lcn = none
  offChans : ∀ lc ch, AMap.get st.channels lc = some ch → lcn ∉ AMap.keys ch.nicks

theorem Ended.finish_self {st : St} {σ x : Id} {lcn : String} (h : Ended st σ lcn) :
    Gone (maybeDeleteSession { st with lastProcessed := x } σ) σ lcn := by
  obtain ⟨s', hs', hd⟩ := h.flagged
  obtain ⟨_, _, hn, hc⟩ := maybeDeleteSession_other { st with lastProcessed := x } σ
  refine ⟨maybeDeleteSession_removes (st := { st with lastProcessed := x }) hs' hd, ?_, ?_⟩
  · rw [hn]; exact h.nickFree
  · rw [hc]; exact h.offChans

theorem Ended.finish_priv {st : St} {sid tid x : Id} {lcn : String} {a : Session}
    (hnd : (AMap.keys st.sessions).Nodup) (ha : AMap.get st.sessions sid = some a)
    (hp : a.operator = true ∨ sid = tid) (h : Ended st tid lcn) :
    Gone (maybeDeleteSession { st with lastProcessed := x } sid) tid lcn := by
  rcases hp with hp | hp
  · obtain ⟨t', ht', hd⟩ := h.flagged
    obtain ⟨_, _, hn, hc⟩ := maybeDeleteSession_other { st with lastProcessed := x } sid
    refine ⟨maybeDeleteSession_purges (st := { st with lastProcessed := x }) hnd ha (by rw [hp]; simp) ht' hd, ?_, ?_⟩
    · rw [hn]; exact h.nickFree
    · rw [hc]; exact h.offChans
  · subst hp; exact h.finish_self

/-- DeleteSession entry (expiry, DELETE request) of a stored client session -/
theorem applyEntry_delete_ends {st st' : St} {e : Entry} {out : List Out} {s : Session} (h : GInv st)
    (he : EntryOk st e) (ht : e.type = 1) (hs : AMap.get st.sessions e.session = some s)
    (hsv : s.server = false) (hr : applyEntry st e = .ok (st', out)) :
    Gone st' e.session (nickToLower s.nick) := by
  rcases applyEntry_delete ht hr with ⟨hn, _, _⟩ | ⟨s0, c, hs0, hpm, rfl, _⟩
  · rw [hs] at hn; cases hn
  · obtain ⟨m, hm⟩ := parseMessage_quit_some e.data
    rw [hm] at hpm
    have hp : Pre { st := st, msgid := e.id } e.session := ⟨h.inv, h.linv, ⟨_, hs⟩, he.1 (Or.inl ht)⟩
    exact (processMessage_quit_ended hp h.ni hs hsv (parseMessage_quit _ hm).2 hpm).finish_self

/-- the context in which a client entry's line is processed -/
theorem client_pre {st st1 : St} {e : Entry} {s : Session} (h : GInv st) (he : EntryOk st e) (ht : e.type = 2)
    (hs : AMap.get st.sessions e.session = some s) (hu : updateLastClientMessageID st e = some st1) :
    Pre { st := st1, msgid := e.id } e.session ∧ NI st1 ∧ SessWf st1 ∧
    ∃ s1, AMap.get st1.sessions e.session = some s1 ∧ s1.nick = s.nick ∧ s1.server = s.server ∧
      s1.operator = s.operator ∧ s1.loggedIn = s.loggedIn ∧
      st1.nicks = st.nicks ∧ st1.config = st.config := by
  have h1 := GInv_updateLastClientMessageID h hu
  obtain ⟨⟨s0, s1, hs0, hs1, _, _, hnick, hsv, hop, hli, _⟩, _, _, hcfg, _, hnk, _⟩ := updateLast_spec hu
  rw [hs] at hs0; cases hs0
  exact ⟨⟨h1.inv, h1.linv, ⟨_, hs1⟩, he.1 (Or.inr ht)⟩, h1.ni, SessWf.of_core h1.inv.toWInvCore,
    s1, hs1, hnick, hsv, hop, hli, hnk, hcfg⟩

/-- QUIT typed by a client -/
theorem applyEntry_quit_ends {st st' : St} {e : Entry} {out : List Out} {s : Session} {m : IrcMsg} (h : GInv st)
    (he : EntryOk st e) (ht : e.type = 2) (hs : AMap.get st.sessions e.session = some s)
    (hsv : s.server = false) (hm : parseMessage e.data = some m) (hq : toUpper m.command = "QUIT")
    (hr : applyEntry st e = .ok (st', out)) : Gone st' e.session (nickToLower s.nick) := by
  rcases applyEntry_client ht hr with ⟨hn, _, _⟩ | ⟨st1, c, hu, hpm, rfl, _⟩
  · rw [hs] at hn; cases hn
  · obtain ⟨hp, hni, _, s1, hs1, hnick, hsv1, _⟩ := client_pre h he ht hs hu
    rw [hm] at hpm
    have := processMessage_quit_ended hp hni hs1 (by rw [hsv1]; exact hsv) hq hpm
    rw [hnick] at this
    exact this.finish_self

/-- KILL by a registered IRC operator (whose address is not banned) of the session indexed under
the first parameter -/
theorem applyEntry_kill_ends {st st' : St} {e : Entry} {out : List Out} {s : Session} {m : IrcMsg}
    {p0 : String} {tid : Id} (h : GInv st) (he : EntryOk st e) (ht : e.type = 2)
    (hs : AMap.get st.sessions e.session = some s) (hsv : s.server = false) (hli : s.loggedIn = true)
    (hop : s.operator = true) (hnb : AMap.get st.config.banned e.remoteAddr = none)
    (hm : parseMessage e.data = some m) (hq : toUpper m.command = "KILL") (hlen : 2 ≤ m.params.length)
    (hp0 : param m 0 = .ok p0) (htid : AMap.get st.nicks (nickToLower p0) = some tid)
    (hr : applyEntry st e = .ok (st', out)) : Gone st' tid (nickToLower p0) := by
  rcases applyEntry_client ht hr with ⟨hn, _, _⟩ | ⟨st1, c, hu, hpm, rfl, _⟩
  · rw [hs] at hn; cases hn
  · obtain ⟨hp, hni, hw1, s1, hs1, _, hsv1, hop1, hli1, hnk, hcfg⟩ := client_pre h he ht hs hu
    rw [hm] at hpm
    have hnd := (processMessage_frm (c := { st := st1, msgid := e.id }) (he.1 (Or.inr ht)) hw1 hpm).1.wf.nodup
    obtain ⟨hend, a, ha, hpa⟩ := processMessage_kill_ended (c := { st := st1, msgid := e.id }) hp hni hs1
      (by rw [hsv1]; exact hsv) (by rw [hli1]; exact hli) (by rw [hop1]; exact hop)
      (by show AMap.get st1.config.banned e.remoteAddr = none; rw [hcfg]; exact hnb) hq hlen hp0
      (by show AMap.get st1.nicks (nickToLower p0) = some tid; rw [hnk]; exact htid) hpm
    exact hend.finish_priv hnd ha hpa

/-- a banned address: the address stage ends the sender -/
theorem addrStage_banned {c c1 : Ctx} {e : Entry} {s : Session} {b : Bool} {reason : String}
    (hne : (e.remoteAddr != "" && e.remoteAddr != s.remoteAddr) = true)
    (hb : AMap.get c.st.config.banned e.remoteAddr = some reason) (hre : reason ≠ "")
    (hr : addrStage c e s = .ok (c1, b)) : b = true := by
  unfold addrStage at hr
  rw [if_pos hne] at hr
  obtain ⟨c0, hm, hr⟩ := Res.bind_eq_ok.1 hr
  obtain ⟨t, _, e0⟩ := modS_eq_ok.1 hm
  have hc0 : c0.st.config = c.st.config := by rw [e0]; rfl
  rw [hc0, hb] at hr
  simp only [bne_iff_ne, ne_eq, hre, not_false_eq_true, if_true] at hr
  obtain ⟨c2, _, hr⟩ := Res.bind_eq_ok.1 hr
  cases hr; rfl

/-- a client entry that arrives from a new, GLINE-banned address ends the session -/
theorem applyEntry_banned_ends {st st' : St} {e : Entry} {out : List Out} {s : Session} {m : IrcMsg}
    {reason : String} (h : GInv st) (he : EntryOk st e) (ht : e.type = 2)
    (hs : AMap.get st.sessions e.session = some s) (hm : parseMessage e.data = some m)
    (hne : (e.remoteAddr != "" && e.remoteAddr != s.remoteAddr) = true)
    (hb : AMap.get st.config.banned e.remoteAddr = some reason) (hre : reason ≠ "")
    (hr : applyEntry st e = .ok (st', out)) : Gone st' e.session (nickToLower s.nick) := by
  rcases applyEntry_client ht hr with ⟨hn, _, _⟩ | ⟨st1, c, hu, hpm, rfl, _⟩
  · rw [hs] at hn; cases hn
  · obtain ⟨hp, hni, _, s1, hs1, hnick, _, _, _, _, hcfg⟩ := client_pre h he ht hs hu
    have hra : s1.remoteAddr = s.remoteAddr := by
      unfold updateLastClientMessageID at hu
      rw [hs] at hu
      simp only [Option.some.injEq] at hu
      subst hu
      have : AMap.get (AMap.set st.sessions e.session _) e.session = some s1 := hs1
      rw [AMap.get_set_same] at this
      cases this; rfl
    rw [hm, processMessage_eq, getS_of_get hs1] at hpm
    simp only [Res.ok_bind] at hpm
    obtain ⟨⟨c1, b⟩, h1, hpm⟩ := Res.bind_eq_ok.1 hpm
    have hbt := addrStage_banned (by rw [hra]; exact hne)
      (by show AMap.get st1.config.banned e.remoteAddr = some reason; rw [hcfg]; exact hb) hre h1
    subst hbt
    cases hpm
    have := addrStage_ended hp hs1 h1
    rw [hnick] at this
    exact this.finish_self

end Robust.Irc
