import Robust.Irc.Proofs.FrmEntry
/-!
End of a session (C17): what holds for a session `σ` after `deleteSession` has run for it —
it is flagged `deleted`, its nickname is free and it is on no channel (`Ended`) — and that
`MaybeDeleteSession` then removes it from the session map.  Lifted through `processMessage`
for the two commands that end a session by name (QUIT of the acting client, KILL by an operator)
and for the GLINE-ban path of the address stage.
-/
namespace Robust.Irc
open Robust AMap

/-- `σ` is flagged deleted, the index key `lcn` is free, and no channel lists `lcn` -/
structure Ended (st : St) (σ : Id) (lcn : String) : Prop where
  flagged : ∃ s', AMap.get st.sessions σ = some s' ∧ s'.deleted = true
  nickFree : AMap.get st.nicks lcn = none
  offChans : ∀ lc ch, AMap.get st.channels lc = some ch → lcn ∉ AMap.keys ch.nicks

theorem deleteSession_ended {c c' : Ctx} {σ : Id} {s : Session} (h : WInv c.st)
    (hs : AMap.get c.st.sessions σ = some s) (hl : s.deleted = false)
    (hr : deleteSession c σ = .ok c') : Ended c'.st σ (nickToLower s.nick) := by
  have sp := deleteSession_spec h hs (DelPre.of_live hl) hr
  obtain ⟨inv, hinv⟩ := sp.self
  refine ⟨⟨_, hinv, rfl⟩, ?_, sp.gone⟩
  rw [sp.nicks]; exact AMap.get_erase_same _ _

theorem cmdQuit_ended {c c' : Ctx} {sid : Id} {m : IrcMsg} {s : Session} (hp : Pre c sid)
    (hs : AMap.get c.st.sessions sid = some s) (hr : cmdQuit c sid m = .ok c') :
    Ended c'.st sid (nickToLower s.nick) := by
  unfold cmdQuit at hr
  obtain ⟨c1, h1, hr⟩ := Res.bind_eq_ok.1 hr
  have e1 := deleteSession_ended hp.inv.toWInv hs (hp.live hs) h1
  obtain ⟨s1, hs1, hr⟩ := Res.bind_eq_ok.1 hr
  split at hr
  · obtain ⟨rc, hrc, hr⟩ := Res.bind_eq_ok.1 hr
    cases hr; exact e1
  · cases hr; exact e1

/-- KILL by an IRC operator of the session indexed under the first parameter -/
theorem cmdKill_ended {c c' : Ctx} {sid tid : Id} {m : IrcMsg} {s : Session} {p0 : String} (hp : Pre c sid)
    (hs : AMap.get c.st.sessions sid = some s) (hop : s.operator = true) (hp0 : param m 0 = .ok p0)
    (ht : AMap.get c.st.nicks (nickToLower p0) = some tid) (hr : cmdKill c sid m = .ok c') :
    Ended c'.st tid (nickToLower p0) ∧
    ∃ a, AMap.get c'.st.sessions sid = some a ∧ (a.operator = true ∨ sid = tid) := by
  unfold cmdKill at hr
  rw [getS_of_get hs] at hr
  simp only [Res.ok_bind, hop, Bool.not_true, Bool.false_eq_true, if_false, hp0, ht] at hr
  obtain ⟨t, ht1, htl, htn⟩ := hp.inv.index _ _ ht
  obtain ⟨c1, h1, hr⟩ := Res.bind_eq_ok.1 hr
  have sp := deleteSession_spec hp.inv.toWInv ht1 (DelPre.of_live htl) h1
  have e1 := deleteSession_ended hp.inv.toWInv ht1 htl h1
  rw [htn] at e1
  obtain ⟨t1, _, hr⟩ := Res.bind_eq_ok.1 hr
  obtain ⟨s2, _, hr⟩ := Res.bind_eq_ok.1 hr
  obtain ⟨rc, _, hr⟩ := Res.bind_eq_ok.1 hr
  cases hr
  refine ⟨e1, ?_⟩
  by_cases hst : sid = tid
  · subst hst
    obtain ⟨s', hs', _⟩ := e1.flagged
    exact ⟨s', hs', Or.inr rfl⟩
  · obtain ⟨inv, hinv⟩ := sp.others sid s hst hs
    exact ⟨_, hinv, Or.inl hop⟩

/-! ### `MaybeDeleteSession` removes what was flagged -/

theorem maybeDeleteSession_removes {st : St} {sid : Id} {s : Session}
    (hs : AMap.get st.sessions sid = some s) (hd : s.deleted = true) :
    AMap.get (maybeDeleteSession st sid).sessions sid = none := by
  unfold maybeDeleteSession
  simp only [hs, hd, if_true]
  exact AMap.get_erase_same _ _

/-- when the acting session is privileged (services link or IRC operator), every flagged session
is purged -/
theorem maybeDeleteSession_purges {st : St} {sid tid : Id} {a t : Session}
    (hnd : (AMap.keys st.sessions).Nodup) (ha : AMap.get st.sessions sid = some a)
    (hpriv : (a.server || a.operator) = true)
    (ht : AMap.get st.sessions tid = some t) (hd : t.deleted = true) :
    AMap.get (maybeDeleteSession st sid).sessions tid = none := by
  have hf : AMap.get (st.sessions.filter (fun e => !e.2.deleted)) tid = none := by
    cases hg : AMap.get (st.sessions.filter (fun e => !e.2.deleted)) tid with
    | none => rfl
    | some v =>
      obtain ⟨h1, h2⟩ := (AMap.get_filter _ hnd).1 hg
      rw [ht] at h1; cases h1
      simp [hd] at h2
  unfold maybeDeleteSession
  simp only [ha, hpriv, if_true]
  split
  · rw [AMap.get_erase]
    split
    · rfl
    · exact hf
  · exact hf

/-! ### reaching the handler -/

theorem not_gate_of_ok {s : Session} {command : String} (h : GateOK s command) :
    ¬ (!s.loggedIn && !s.server && command != "NICK" && command != "USER" && command != "PASS" &&
      command != "QUIT" && command != "SERVER") = true := by
  unfold GateOK at h
  rcases h with h | h | h | h | h | h | h <;> simp [h]

theorem gateStage_reaches {c c' : Ctx} {e : Entry} {m : IrcMsg} {command fname : String} {mp : Nat}
    {h : Handler} {s : Session}
    (hs : AMap.get c.st.sessions e.session = some s) (hid : s.id = e.session) (hgate : GateOK s command)
    (hkey : lookupCommand ((if s.server then "server_" else "") ++ command) = some (fname, mp))
    (hlen : mp ≤ m.params.length) (hh : handlerByName fname = some h)
    (hr : gateStage c e m command = .ok c') : h c e.session m = .ok c' := by
  unfold gateStage at hr
  rw [getS_of_get hs] at hr
  simp only [Res.ok_bind] at hr
  split at hr
  · rename_i hg; exact absurd hg (not_gate_of_ok hgate)
  · unfold dispatchStage at hr
    rw [hkey] at hr
    simp only at hr
    rw [if_neg (by omega), hh, hid] at hr
    exact hr

theorem addrStage_ended {c c1 : Ctx} {e : Entry} {s : Session} (hp : Pre c e.session)
    (hs : AMap.get c.st.sessions e.session = some s) (hr : addrStage c e s = .ok (c1, true)) :
    Ended c1.st e.session (nickToLower s.nick) := by
  have hid : s.id = e.session := (hp.inv.sessId _ s hs).1
  unfold addrStage at hr
  rw [hid] at hr
  split at hr
  · obtain ⟨c0, hm, hr⟩ := Res.bind_eq_ok.1 hr
    have hp0 : Pre c0 e.session := hp.modS_inert hm (fun _ => ⟨rfl, rfl, rfl, rfl⟩) (fun _ => rfl)
    have hs0 := modS_get_self (f := fun s => { s with remoteAddr := e.remoteAddr }) hs hid hm
    split at hr
    · split at hr
      · obtain ⟨c2, hd, hr⟩ := Res.bind_eq_ok.1 hr
        cases hr
        exact deleteSession_ended (c := sendUser c0 _ _) (s := { s with remoteAddr := e.remoteAddr }) hp0.inv.toWInv hs0 (hp.live (s := s) hs) hd
      · cases hr
    · cases hr
  · cases hr

/-- an address that is not banned passes the address stage -/
theorem addrStage_pass {c c1 : Ctx} {e : Entry} {s : Session} {b : Bool}
    (hnb : AMap.get c.st.config.banned e.remoteAddr = none) (hr : addrStage c e s = .ok (c1, b)) :
    b = false := by
  unfold addrStage at hr
  split at hr
  · obtain ⟨c0, hm, hr⟩ := Res.bind_eq_ok.1 hr
    obtain ⟨t, _, e0⟩ := modS_eq_ok.1 hm
    have hc0 : c0.st.config = c.st.config := by rw [e0]; rfl
    rw [hc0, hnb] at hr
    cases hr; rfl
  · cases hr; rfl

/-- `ProcessMessage` on a line whose command is in the table, passes the gate and has enough
parameters: either the sender's address was banned (and the sender deleted), or the handler ran on
a context that differs from the original one by the sender's `remoteAddr` only -/
theorem processMessage_reaches {c c' : Ctx} {e : Entry} {m : IrcMsg} {fname : String} {mp : Nat}
    {h : Handler} {s : Session} (hp : Pre c e.session) (hn : NI c.st)
    (hs : AMap.get c.st.sessions e.session = some s) (hgate : GateOK s (toUpper m.command))
    (hkey : lookupCommand ((if s.server then "server_" else "") ++ toUpper m.command) = some (fname, mp))
    (hlen : mp ≤ m.params.length) (hh : handlerByName fname = some h)
    (hr : processMessage c e (some m) = .ok c') :
    addrStage c e s = .ok (c', true) ∨
    ∃ c1 a, addrStage c e s = .ok (c1, false) ∧ Pre c1 e.session ∧
      AMap.get c1.st.sessions e.session = some { s with remoteAddr := a } ∧
      c1.st.nicks = c.st.nicks ∧ c1.st.channels = c.st.channels ∧ h c1 e.session m = .ok c' := by
  have hid : s.id = e.session := (hp.inv.sessId _ s hs).1
  rw [processMessage_eq, getS_of_get hs] at hr
  simp only [Res.ok_bind] at hr
  obtain ⟨⟨c1, b⟩, h1, hr⟩ := Res.bind_eq_ok.1 hr
  cases b with
  | true => cases hr; exact Or.inl h1
  | false =>
    simp only [Bool.false_eq_true, ↓reduceIte] at hr
    obtain ⟨_, hf⟩ := addrStage_spec hp hn hs h1
    obtain ⟨hp1, _, _, _⟩ := hf rfl
    obtain ⟨a, ha, hn1, hc1⟩ := addrStage_actor hs hid h1
    exact Or.inr ⟨c1, a, h1, hp1, ha, hn1, hc1,
      gateStage_reaches (s := { s with remoteAddr := a }) ha hid hgate hkey hlen hh hr⟩

/-- the line generated for a DeleteSession entry always parses -/
theorem parseMessage_quit_some (x : String) : ∃ m, parseMessage ("QUIT :" ++ x) = some m := by
  unfold parseMessage
  have e : ("QUIT :" ++ x).toList = 'Q' :: 'U' :: 'I' :: 'T' :: ' ' :: ':' :: x.toList := by
    rw [String.toList_append]; rfl
  rw [e]
  have d : List.dropWhile isCutset ('Q' :: 'U' :: 'I' :: 'T' :: ' ' :: ':' :: x.toList) =
      'Q' :: 'U' :: 'I' :: 'T' :: ' ' :: ':' :: x.toList := by
    rw [List.dropWhile_cons_of_neg (by decide)]
  rw [d]
  rw [trimRight_cons _ (by decide), trimRight_cons _ (by decide)]
  generalize ((('I' :: 'T' :: ' ' :: ':' :: x.toList).reverse.dropWhile isCutset).reverse) = rest
  dsimp only
  have hsz : ¬ (String.ofList ('Q' :: 'U' :: rest)).utf8ByteSize < 2 := by
    have : String.ofList ('Q' :: 'U' :: rest) = String.ofList ['Q', 'U'] ++ String.ofList rest := by
      rw [← String.ofList_append]; rfl
    rw [this, String.utf8ByteSize_append]
    have : (String.ofList ['Q', 'U']).utf8ByteSize = 2 := by decide
    omega
  rw [if_neg hsz]
  exact ⟨_, rfl⟩

/-- QUIT of a client session (typed by the client or generated for a DeleteSession entry):
the acting session is ended -/
theorem processMessage_quit_ended {c c' : Ctx} {e : Entry} {m : IrcMsg} {s : Session}
    (hp : Pre c e.session) (hn : NI c.st) (hs : AMap.get c.st.sessions e.session = some s)
    (hsv : s.server = false) (hq : toUpper m.command = "QUIT")
    (hr : processMessage c e (some m) = .ok c') : Ended c'.st e.session (nickToLower s.nick) := by
  have hkey : lookupCommand ((if s.server then "server_" else "") ++ toUpper m.command) = some ("cmdQuit", 0) := by
    rw [hsv, hq]; decide
  have hgate : GateOK s (toUpper m.command) := by
    rw [hq]; exact Or.inr (Or.inr (Or.inr (Or.inr (Or.inr (Or.inl rfl)))))
  rcases processMessage_reaches hp hn hs hgate hkey (Nat.zero_le _) rfl hr with h1 | ⟨c1, a, _, hp1, ha, _, _, hq1⟩
  · exact addrStage_ended hp hs h1
  · exact cmdQuit_ended (s := { s with remoteAddr := a }) hp1 ha hq1

/-- KILL by a registered IRC operator whose address is not banned: the named session is ended, and
the operator's session is still privileged when `MaybeDeleteSession` runs -/
theorem processMessage_kill_ended {c c' : Ctx} {e : Entry} {m : IrcMsg} {s : Session} {p0 : String} {tid : Id}
    (hp : Pre c e.session) (hn : NI c.st) (hs : AMap.get c.st.sessions e.session = some s)
    (hsv : s.server = false) (hli : s.loggedIn = true) (hop : s.operator = true)
    (hnb : AMap.get c.st.config.banned e.remoteAddr = none)
    (hq : toUpper m.command = "KILL") (hlen : 2 ≤ m.params.length) (hp0 : param m 0 = .ok p0)
    (ht : AMap.get c.st.nicks (nickToLower p0) = some tid)
    (hr : processMessage c e (some m) = .ok c') :
    Ended c'.st tid (nickToLower p0) ∧
    ∃ a, AMap.get c'.st.sessions e.session = some a ∧ (a.operator = true ∨ e.session = tid) := by
  have hkey : lookupCommand ((if s.server then "server_" else "") ++ toUpper m.command) = some ("cmdKill", 2) := by
    rw [hsv, hq]; decide
  have hgate : GateOK s (toUpper m.command) := Or.inr (Or.inl hli)
  rcases processMessage_reaches hp hn hs hgate hkey hlen rfl hr with h1 | ⟨c1, a, _, hp1, ha, hn1, _, hk1⟩
  · exact absurd (addrStage_pass hnb h1) (by decide)
  · exact cmdKill_ended (s := { s with remoteAddr := a }) hp1 ha hop hp0 (by rw [hn1]; exact ht) hk1

end Robust.Irc
