import Robust.Irc.Proofs.H3b
/-!
Services-link handlers with loops: MODE, SVSMODE, JOIN, PART.
-/
namespace Robust.Irc
open Srv
open Robust AMap

/-! ### MODE -/

/-- fold invariant of `cmdServerMode`: the channel stays stored -/
def ModeInv (c0 : Ctx) (sid : Id) (lc : String) (c : Ctx) : Prop :=
  Mid c0 c sid ∧ ∃ ch, AMap.get c.st.channels lc = some ch

theorem ModeInv.putChan {c0 c : Ctx} {sid : Id} {lc : String} {ch ch' : Channel} (h : ModeInv c0 sid lc c)
    (hg : AMap.get c.st.channels lc = some ch) (hname : ch'.name = ch.name)
    (hkeys : AMap.keys ch'.nicks = AMap.keys ch.nicks) : ModeInv c0 sid lc (putChan c lc ch') :=
  ⟨h.1.putChan_inert hg hname hkeys, ch', by rw [putChan_channels]; exact AMap.get_set_same _ _ _⟩

theorem ModeInv.sendSvc {c0 c : Ctx} {sid : Id} {lc : String} (h : ModeInv c0 sid lc c) (m : IrcMsg) :
    ModeInv c0 sid lc (sendSvc c m) :=
  ⟨h.1.sendSvc m, h.2⟩

def serverModeStep (m : IrcMsg) (channelname lc : String) (c : Ctx) (mc : ModeCmd) : Res Ctx := do
      let some ch := getChan c lc | Res.panic "channel is nil (cmdServerMode)"
      let b := modeByteChar mc
      let newvalue := hasPrefix mc.mode "+"
      if b == 't' || b == 's' || b == 'r' || b == 'i' then
        pure (putChan c lc { ch with modes := modeSet ch.modes b newvalue })
      else if b == 'o' then
        match AMap.get ch.nicks (nickToLower mc.param) with
        | none => do
          let pn ← pfxName m
          pure (sendSvc c (srv c "441" [pn, mc.param, channelname, "They aren't on that channel"]))
        | some perms =>
          if perms.chanop != newvalue then
            pure (putChan c lc { ch with nicks := AMap.set ch.nicks (nickToLower mc.param) { perms with chanop := newvalue } })
          else pure c
      else do
        let pn ← pfxName m
        pure (sendSvc c (srv c "472" [pn, String.singleton b, "is unknown mode char to me"]))

theorem cmdServerMode_eq (c : Ctx) (sid : Id) (m : IrcMsg) :
    cmdServerMode c sid m = (do
      let channelname ← param m 0
      let lc := chanToLower channelname
      match getChan c lc with
      | none => do
        let pn ← pfxName m
        pure (sendSvc c (srv c "403" [pn, channelname, "No such nick/channel"]))
      | some _ =>
        let modes := normalizeModes m
        let c ← modes.foldlM (serverModeStep m channelname lc) c
        if c.replyid > 0 then return c
        let some ch := getChan c lc | .panic "channel is nil (cmdServerMode)"
        let sp ← servicesPrefix m
        let rc ← rcChannel c.st ch
        pure (emit c ⟨some sp, "MODE", channelname :: ircParams modes⟩ rc)) := rfl

theorem serverModeStep_inv {c0 c c' : Ctx} {sid : Id} {m : IrcMsg} {chn lc : String} {mc : ModeCmd}
    (hP : ModeInv c0 sid lc c) (hstep : serverModeStep m chn lc c mc = Res.ok c') : ModeInv c0 sid lc c' := by
  unfold serverModeStep at hstep
  simp only [getChan_eq] at hstep
  split at hstep
  · rename_i ch hch
    split at hstep
    · cases hstep
      exact hP.putChan hch rfl rfl
    · split at hstep
      · split at hstep
        · obtain ⟨pn, _, hstep⟩ := Res.bind_eq_ok.1 hstep
          cases hstep; exact hP.sendSvc _
        · rename_i perms hperms
          split at hstep
          · cases hstep
            exact hP.putChan hch rfl (keys_setMember _ hperms)
          · cases hstep; exact hP
      · obtain ⟨pn, _, hstep⟩ := Res.bind_eq_ok.1 hstep
        cases hstep; exact hP.sendSvc _
  · cases hstep

theorem serverModeStep_safe {c0 c : Ctx} {sid : Id} {m : IrcMsg} {chn lc : String} {mc : ModeCmd}
    (hP : ModeInv c0 sid lc c) (hpfx : m.pfx.isSome = true) : NoPanic (serverModeStep m chn lc c mc) := by
  obtain ⟨pn, hpn⟩ := pfxName_ok hpfx
  obtain ⟨ch, hch⟩ := hP.2
  unfold serverModeStep
  simp only [getChan_eq, hch, hpn, Res.ok_bind]
  split
  · exact NoPanic.pure _
  · split
    · split
      · exact NoPanic.pure _
      · split <;> exact NoPanic.pure _
    · exact NoPanic.pure _

theorem cmdServerMode_mid {c0 c c' : Ctx} {sid : Id} {m : IrcMsg} (h : Mid c0 c sid)
    (hr : cmdServerMode c sid m = Res.ok c') : Mid c0 c' sid := by
  rw [cmdServerMode_eq] at hr
  obtain ⟨channelname, _, hr⟩ := Res.bind_eq_ok.1 hr
  simp only [getChan_eq] at hr
  split at hr
  · obtain ⟨pn, _, hr⟩ := Res.bind_eq_ok.1 hr
    cases hr; exact h.sendSvc _
  · rename_i ch0 hch0
    obtain ⟨c1, hfold, hr⟩ := Res.bind_eq_ok.1 hr
    have h1 : ModeInv c0 sid (chanToLower channelname) c1 :=
      foldlM_inv (ModeInv c0 sid (chanToLower channelname)) _ _
        (fun _ _ _ _ hP hstep => serverModeStep_inv hP hstep) c c1 ⟨h, ch0, hch0⟩ hfold
    split at hr
    · cases hr; exact h1.1
    · split at hr
      · obtain ⟨sp, _, hr⟩ := Res.bind_eq_ok.1 hr
        obtain ⟨rc, _, hr⟩ := Res.bind_eq_ok.1 hr
        cases hr
        exact h1.1.emit _ _
      · cases hr

theorem cmdServerMode_preserves : PreservesSrv cmdServerMode :=
  PreservesSrv.of_mid fun _ _ _ _ _ h hr => cmdServerMode_mid h hr

theorem cmdServerMode_safe : ServicesSafe cmdServerMode 1 := by
  intro c sid m s hpre hs hsrv hpfx hlen
  show NoPanic (cmdServerMode c sid m)
  obtain ⟨pn, hpn⟩ := pfxName_ok hpfx
  obtain ⟨sp, hsp⟩ := servicesPrefix_ok hpfx
  obtain ⟨p0, hp0⟩ := param_ok (m := m) (i := 0) (by omega)
  have h := Mid.of_pre hpre hs hsrv
  rw [cmdServerMode_eq]
  simp only [hpn, hsp, hp0, Res.ok_bind, getChan_eq]
  split
  · exact NoPanic.pure _
  · rename_i ch0 hch0
    refine NoPanic.bind ?_ (fun c1 hfold => ?_)
    · exact foldlM_noPanic (ModeInv c sid (chanToLower p0)) _ _
        (fun _ _ _ _ hP hstep => serverModeStep_inv hP hstep)
        (fun _ _ _ hP => serverModeStep_safe hP hpfx) c ⟨h, ch0, hch0⟩
    · have h1 := foldlM_inv (ModeInv c sid (chanToLower p0)) _ _
        (fun _ _ _ _ hP hstep => serverModeStep_inv hP hstep) c c1 ⟨h, ch0, hch0⟩ hfold
      split
      · exact NoPanic.pure _
      · obtain ⟨ch, hch⟩ := h1.2
        rw [hch]
        dsimp only
        obtain ⟨rc, hrc⟩ := rcChannel_ok h1.1.hinv.toWInvCore hch
        rw [hrc]
        exact NoPanic.pure _

/-! ### SVSMODE -/

def svsmodeStep (tid : Id) (c : Ctx) (mc : ModeCmd) : Res Ctx :=
  let b := modeByteChar mc
  if b == 'd' then modS c tid fun t => { t with svid := mc.param }
  else if b == 'r' then modS c tid fun t => { t with modes := modeSet t.modes 'r' (hasPrefix mc.mode "+") }
  else Res.ok (sendSvc c (srv c "501" ["*", "Unknown MODE flag"]))

theorem cmdServerSvsmode_eq (c : Ctx) (sid : Id) (m : IrcMsg) :
    cmdServerSvsmode c sid m = (do
      let s ← getS c sid
      let p0 ← param m 0
      match AMap.get c.st.nicks (nickToLower p0) with
      | none => pure (sendSvc c (srv c "401" ["*", p0, "No such nick/channel"]))
      | some tid =>
        let modestr ← param m 1
        if !hasPrefix modestr "+" && !hasPrefix modestr "-" then
          return sendSvc c (srv c "501" ["*", "Unknown MODE flag"])
        let modes := normalizeModes m
        let c ← modes.foldlM (svsmodeStep tid) c
        let t ← getS c tid
        pure (sendUser c tid ⟨some s.ircPrefix, "MODE", [t.nick, modeStr t.modes]⟩)) := rfl

def SvsInv (c0 : Ctx) (sid tid : Id) (c : Ctx) : Prop :=
  Mid c0 c sid ∧ ∃ t, AMap.get c.st.sessions tid = some t

theorem SvsInv.modS {c0 c c' : Ctx} {sid tid : Id} {f : Session → Session} (hP : SvsInv c0 sid tid c)
    (hf : InertFn f) (hr : modS c tid f = Res.ok c') : SvsInv c0 sid tid c' := by
  obtain ⟨t, ht⟩ := hP.2
  exact ⟨hP.1.modS_inert hf hr, modS_keeps_stored hr ht⟩

theorem svsmodeStep_inv {c0 c c' : Ctx} {sid tid : Id} {mc : ModeCmd}
    (hP : SvsInv c0 sid tid c) (hstep : svsmodeStep tid c mc = Res.ok c') : SvsInv c0 sid tid c' := by
  unfold svsmodeStep at hstep
  dsimp only at hstep
  split at hstep
  · exact SvsInv.modS hP (by intro _; exact ⟨rfl, rfl, rfl, rfl, rfl, rfl⟩) hstep
  · split at hstep
    · exact SvsInv.modS hP (by intro _; exact ⟨rfl, rfl, rfl, rfl, rfl, rfl⟩) hstep
    · cases hstep
      exact ⟨hP.1.sendSvc _, hP.2⟩

theorem svsmodeStep_safe {c0 c : Ctx} {sid tid : Id} {mc : ModeCmd}
    (hP : SvsInv c0 sid tid c) : NoPanic (svsmodeStep tid c mc) := by
  obtain ⟨t, ht⟩ := hP.2
  unfold svsmodeStep
  dsimp only
  split
  · exact NoPanic.of_ok ⟨_, modS_of_get _ ht⟩
  · split
    · exact NoPanic.of_ok ⟨_, modS_of_get _ ht⟩
    · exact NoPanic.ok _

theorem cmdServerSvsmode_mid {c0 c c' : Ctx} {sid : Id} {m : IrcMsg} (h : Mid c0 c sid)
    (hr : cmdServerSvsmode c sid m = Res.ok c') : Mid c0 c' sid := by
  rw [cmdServerSvsmode_eq] at hr
  obtain ⟨s, _, hr⟩ := Res.bind_eq_ok.1 hr
  obtain ⟨p0, _, hr⟩ := Res.bind_eq_ok.1 hr
  split at hr
  · cases hr; exact h.sendSvc _
  · rename_i tid hidx
    obtain ⟨modestr, _, hr⟩ := Res.bind_eq_ok.1 hr
    split at hr
    · cases hr; exact h.sendSvc _
    · obtain ⟨c1, hfold, hr⟩ := Res.bind_eq_ok.1 hr
      obtain ⟨t, _, hr⟩ := Res.bind_eq_ok.1 hr
      cases hr
      have h1 : SvsInv c0 sid tid c1 :=
        foldlM_inv (SvsInv c0 sid tid) _ _ (fun _ _ _ _ hP hstep => svsmodeStep_inv hP hstep) c c1
          ⟨h, h.hinv.toWInvCore.indexed_stored hidx⟩ hfold
      exact h1.1.sendUser _ _

theorem cmdServerSvsmode_preserves : PreservesSrv cmdServerSvsmode :=
  PreservesSrv.of_mid fun _ _ _ _ _ h hr => cmdServerSvsmode_mid h hr

theorem cmdServerSvsmode_safe : ServicesSafe cmdServerSvsmode 2 := by
  intro c sid m s hpre hs hsrv hpfx hlen
  show NoPanic (cmdServerSvsmode c sid m)
  obtain ⟨p0, hp0⟩ := param_ok (m := m) (i := 0) (by omega)
  obtain ⟨p1, hp1⟩ := param_ok (m := m) (i := 1) (by omega)
  have h := Mid.of_pre hpre hs hsrv
  rw [cmdServerSvsmode_eq]
  simp only [getS_of_get hs, hp0, hp1, Res.ok_bind]
  split
  · exact NoPanic.pure _
  · rename_i tid hidx
    split
    · exact NoPanic.pure _
    · have h0 : SvsInv c sid tid c := ⟨h, h.hinv.toWInvCore.indexed_stored hidx⟩
      refine NoPanic.bind ?_ (fun c1 hfold => ?_)
      · exact foldlM_noPanic (SvsInv c sid tid) _ _ (fun _ _ _ _ hP hstep => svsmodeStep_inv hP hstep)
          (fun _ _ _ hP => svsmodeStep_safe hP) c h0
      · have h1 := foldlM_inv (SvsInv c sid tid) _ _ (fun _ _ _ _ hP hstep => svsmodeStep_inv hP hstep) c c1 h0 hfold
        obtain ⟨t, ht⟩ := h1.2
        rw [getS_of_get ht]
        exact NoPanic.pure _

/-! ### JOIN -/

theorem serverJoinOne_mid {c0 c c' : Ctx} {sid : Id} {m : IrcMsg} {chn : String} (h : Mid c0 c sid)
    (hr : serverJoinOne c m chn = Res.ok c') : Mid c0 c' sid := by
  unfold serverJoinOne at hr
  obtain ⟨pn, _, hr⟩ := Res.bind_eq_ok.1 hr
  split at hr
  · cases hr; exact h.sendSvc _
  · rename_i hvc
    dsimp only at hr
    split at hr
    · cases hr; exact h.sendSvc _
    · rename_i tid hidx
      split at hr
      · cases hr; exact h.sendSvc _
      obtain ⟨c1, h1, hr⟩ := Res.bind_eq_ok.1 hr
      obtain ⟨sp, _, hr⟩ := Res.bind_eq_ok.1 hr
      obtain ⟨rc, _, hr⟩ := Res.bind_eq_ok.1 hr
      cases hr
      simp only [getChan_eq] at h1
      refine Mid.emit (h.addMember hidx ?_ (getD_chan_valid hvc) h1) _ _
      cases hg : AMap.get c.st.channels (chanToLower chn) with
      | none => exact Or.inr ⟨rfl, rfl, rfl⟩
      | some ch => exact Or.inl rfl

theorem serverJoinOne_safe {c0 c : Ctx} {sid : Id} {m : IrcMsg} {chn : String} (h : Mid c0 c sid)
    (hpfx : m.pfx.isSome = true) : NoPanic (serverJoinOne c m chn) := by
  obtain ⟨pn, hpn⟩ := pfxName_ok hpfx
  obtain ⟨sp, hsp⟩ := servicesPrefix_ok hpfx
  unfold serverJoinOne
  simp only [hpn, hsp, Res.ok_bind, getChan_eq]
  split
  · exact NoPanic.pure _
  · rename_i hvc
    split
    · exact NoPanic.pure _
    · rename_i tid hidx
      split
      · exact NoPanic.pure _
      obtain ⟨t, ht⟩ := h.hinv.toWInvCore.indexed_stored hidx
      refine NoPanic.bind (NoPanic.of_ok ⟨_, modS_of_get (c := putChan _ _ _) _ ht⟩) (fun c1 h1 => ?_)
      have hch : AMap.get c.st.channels (chanToLower chn) = some ((AMap.get c.st.channels (chanToLower chn)).getD { name := chn }) ∨
          (AMap.get c.st.channels (chanToLower chn) = none ∧
            ((AMap.get c.st.channels (chanToLower chn)).getD { name := chn }).nicks = [] ∧
            chanToLower ((AMap.get c.st.channels (chanToLower chn)).getD { name := chn }).name = chanToLower chn) := by
        cases hg : AMap.get c.st.channels (chanToLower chn) with
        | none => exact Or.inr ⟨rfl, rfl, rfl⟩
        | some ch => exact Or.inl rfl
      have hm1 := h.addMember hidx hch (getD_chan_valid hvc) h1
      obtain ⟨hl, _, _⟩ := addMember_lookups h1
      obtain ⟨rc, hrc⟩ := rcChannel_ok hm1.hinv.toWInvCore hl
      rw [hrc]
      exact NoPanic.pure _

theorem cmdServerJoin_mid {c0 c c' : Ctx} {sid : Id} {m : IrcMsg} (h : Mid c0 c sid)
    (hr : cmdServerJoin c sid m = Res.ok c') : Mid c0 c' sid := by
  unfold cmdServerJoin at hr
  obtain ⟨p0, _, hr⟩ := Res.bind_eq_ok.1 hr
  exact foldlM_inv (fun c => Mid c0 c sid) _ _ (fun _ _ _ _ hP hstep => serverJoinOne_mid hP hstep) c c' h hr

theorem cmdServerJoin_preserves : PreservesSrv cmdServerJoin :=
  PreservesSrv.of_mid fun _ _ _ _ _ h hr => cmdServerJoin_mid h hr

theorem cmdServerJoin_safe : ServicesSafe cmdServerJoin 1 := by
  intro c sid m s hpre hs hsrv hpfx hlen
  show NoPanic (cmdServerJoin c sid m)
  obtain ⟨p0, hp0⟩ := param_ok (m := m) (i := 0) (by omega)
  unfold cmdServerJoin
  simp only [hp0, Res.ok_bind]
  exact foldlM_noPanic (fun c1 => Mid c c1 sid) _ _ (fun _ _ _ _ hP hstep => serverJoinOne_mid hP hstep)
    (fun _ _ _ hP => serverJoinOne_safe hP hpfx) c (Mid.of_pre hpre hs hsrv)

/-! ### PART -/

theorem serverPartOne_mid {c0 c c' : Ctx} {sid : Id} {m : IrcMsg} {chn : String} (h : Mid c0 c sid)
    (hr : serverPartOne c m chn = Res.ok c') : Mid c0 c' sid := by
  unfold serverPartOne at hr
  simp only [getChan_eq] at hr
  split at hr
  · obtain ⟨pn, _, hr⟩ := Res.bind_eq_ok.1 hr
    cases hr; exact h.sendSvc _
  · obtain ⟨pn, _, hr⟩ := Res.bind_eq_ok.1 hr
    split at hr
    · cases hr; exact h.sendSvc _
    · split at hr
      · rename_i tid hidx
        obtain ⟨sp, _, hr⟩ := Res.bind_eq_ok.1 hr
        obtain ⟨rc, _, hr⟩ := Res.bind_eq_ok.1 hr
        exact (h.emit _ _).leaveChannel hidx hr
      · cases hr

theorem serverPartOne_safe {c0 c : Ctx} {sid : Id} {m : IrcMsg} {chn : String} (h : Mid c0 c sid)
    (hpfx : m.pfx.isSome = true) : NoPanic (serverPartOne c m chn) := by
  obtain ⟨pn, hpn⟩ := pfxName_ok hpfx
  obtain ⟨sp, hsp⟩ := servicesPrefix_ok hpfx
  unfold serverPartOne
  simp only [hpn, hsp, Res.ok_bind, getChan_eq]
  split
  · exact NoPanic.pure _
  · rename_i ch hch
    split
    · exact NoPanic.pure _
    · rename_i hcont
      have hcont' : AMap.contains ch.nicks (nickToLower pn) = true := by simpa using hcont
      obtain ⟨tid, t, hidx, ht⟩ := h.hinv.toWInvCore.member_indexed hch hcont'
      obtain ⟨rc, hrc⟩ := rcChannel_ok h.hinv.toWInvCore hch
      rw [hidx, hrc]
      simp only [Res.ok_bind]
      exact NoPanic.of_ok (leaveChannel_ok (c := emit _ _ _) h.hinv.toWInvCore hch ht)

theorem cmdServerPart_mid {c0 c c' : Ctx} {sid : Id} {m : IrcMsg} (h : Mid c0 c sid)
    (hr : cmdServerPart c sid m = Res.ok c') : Mid c0 c' sid := by
  unfold cmdServerPart at hr
  obtain ⟨p0, _, hr⟩ := Res.bind_eq_ok.1 hr
  exact foldlM_inv (fun c => Mid c0 c sid) _ _ (fun _ _ _ _ hP hstep => serverPartOne_mid hP hstep) c c' h hr

theorem cmdServerPart_preserves : PreservesSrv cmdServerPart :=
  PreservesSrv.of_mid fun _ _ _ _ _ h hr => cmdServerPart_mid h hr

theorem cmdServerPart_safe : ServicesSafe cmdServerPart 1 := by
  intro c sid m s hpre hs hsrv hpfx hlen
  show NoPanic (cmdServerPart c sid m)
  obtain ⟨p0, hp0⟩ := param_ok (m := m) (i := 0) (by omega)
  unfold cmdServerPart
  simp only [hp0, Res.ok_bind]
  exact foldlM_noPanic (fun c1 => Mid c c1 sid) _ _ (fun _ _ _ _ hP hstep => serverPartOne_mid hP hstep)
    (fun _ _ _ hP => serverPartOne_safe hP hpfx) c (Mid.of_pre hpre hs hsrv)

end Robust.Irc
