import Robust.Irc.Proofs.FrameBasic
/-!
Order-independence, part 1: generic relations.

* `ORel R`  – relation on `Option` lifted from `R`;
* `RRel R`  – relation on `Res`: same kind of result (`ok`/`panic`/`declined`), `R` on the values;
* `All2 R`  – pointwise relation on lists (core has no `Forall₂`);
* `PermR R` – permutation up to `R` (`∃ mid, l ~ mid ∧ All2 R mid l'`);
* `MEq R`   – the *working* relation on association lists: both have duplicate-free keys and
              `get` agrees up to `R` (with duplicate-free keys this is `PermR` on the entries).

and the congruence lemmas of the list primitives (`mapRes`, `foldlM`, folds with commuting
steps, `mergeSort`, `find?`, `any`, `all`).
-/
set_option linter.unusedSectionVars false
set_option linter.unusedVariables false

namespace Robust.Irc
open Robust

/-! ## `Option` -/

inductive ORel {α β : Type} (R : α → β → Prop) : Option α → Option β → Prop
  | nn : ORel R Option.none Option.none
  | ss {a : α} {b : β} : R a b → ORel R (Option.some a) (Option.some b)

namespace ORel
variable {α β : Type} {R : α → β → Prop}

theorem cases' {o : Option α} {o' : Option β} (h : ORel R o o') :
    (o = Option.none ∧ o' = Option.none) ∨ ∃ a b, o = Option.some a ∧ o' = Option.some b ∧ R a b := by
  cases h with
  | nn => exact Or.inl ⟨rfl, rfl⟩
  | ss h => exact Or.inr ⟨_, _, rfl, rfl, h⟩

theorem isSome_eq {o : Option α} {o' : Option β} (h : ORel R o o') : o.isSome = o'.isSome := by
  cases h <;> rfl

theorem none_iff {o : Option α} {o' : Option β} (h : ORel R o o') : o = Option.none ↔ o' = Option.none := by
  cases h <;> simp

theorem of_some {a : α} {o' : Option β} (h : ORel R (Option.some a) o') : ∃ b, o' = Option.some b ∧ R a b := by
  cases h with
  | ss h => exact ⟨_, rfl, h⟩

theorem of_some' {o : Option α} {b : β} (h : ORel R o (Option.some b)) : ∃ a, o = Option.some a ∧ R a b := by
  cases h with
  | ss h => exact ⟨_, rfl, h⟩

theorem some_some {a : α} {b : β} (h : ORel R (Option.some a) (Option.some b)) : R a b := by
  cases h with
  | ss h => exact h

theorem mono {S : α → β → Prop} {o : Option α} {o' : Option β} (h : ORel R o o')
    (hRS : ∀ a b, R a b → S a b) : ORel S o o' := by
  cases h with
  | nn => exact .nn
  | ss h => exact .ss (hRS _ _ h)

theorem eq {o o' : Option α} (h : ORel (fun a b => a = b) o o') : o = o' := by
  cases h with
  | nn => rfl
  | ss h => rw [h]

theorem of_eq {o o' : Option α} (h : o = o') : ORel (fun a b => a = b) o o' := by
  subst h
  cases o with
  | none => exact .nn
  | some a => exact .ss rfl

theorem refl {R : α → α → Prop} (hR : ∀ a, R a a) (o : Option α) : ORel R o o := by
  cases o with
  | none => exact .nn
  | some a => exact .ss (hR a)

theorem symm {R : α → α → Prop} (hR : ∀ a b, R a b → R b a) {o o' : Option α} (h : ORel R o o') : ORel R o' o := by
  cases h with
  | nn => exact .nn
  | ss h => exact .ss (hR _ _ h)

theorem flip {o : Option α} {o' : Option β} (h : ORel R o o') : ORel (fun b a => R a b) o' o := by
  cases h with
  | nn => exact .nn
  | ss h => exact .ss h

theorem trans {R : α → α → Prop} (hR : ∀ a b c, R a b → R b c → R a c) {o o' o'' : Option α}
    (h : ORel R o o') (h' : ORel R o' o'') : ORel R o o'' := by
  cases h with
  | nn => exact h'
  | ss h => cases h' with
    | ss h' => exact .ss (hR _ _ _ h h')

theorem map {γ δ : Type} {S : γ → δ → Prop} {f : α → γ} {g : β → δ} {o : Option α} {o' : Option β}
    (h : ORel R o o') (hf : ∀ a b, R a b → S (f a) (g b)) : ORel S (o.map f) (o'.map g) := by
  cases h with
  | nn => exact .nn
  | ss h => exact .ss (hf _ _ h)

theorem bind {γ δ : Type} {S : γ → δ → Prop} {f : α → Option γ} {g : β → Option δ} {o : Option α} {o' : Option β}
    (h : ORel R o o') (hf : ∀ a b, R a b → ORel S (f a) (g b)) : ORel S (o.bind f) (o'.bind g) := by
  cases h with
  | nn => exact .nn
  | ss h => exact hf _ _ h

end ORel

/-! ## `Res` -/

inductive RRel {α β : Type} (R : α → β → Prop) : Res α → Res β → Prop
  | ok {a : α} {b : β} : R a b → RRel R (.ok a) (.ok b)
  | panic {s s' : String} : RRel R (.panic s) (.panic s')
  | declined {s s' : String} : RRel R (.declined s) (.declined s')

namespace RRel
variable {α β γ δ : Type} {R : α → β → Prop} {S : γ → δ → Prop}

theorem pure {a : α} {b : β} (h : R a b) : RRel R (Pure.pure a : Res α) (Pure.pure b : Res β) := .ok h

theorem bind {x : Res α} {y : Res β} {f : α → Res γ} {g : β → Res δ}
    (h : RRel R x y) (hf : ∀ a b, R a b → RRel S (f a) (g b)) : RRel S (x >>= f) (y >>= g) := by
  cases h with
  | ok h => exact hf _ _ h
  | panic => exact .panic
  | declined => exact .declined

theorem bind' {x : Res α} {y : Res β} {f : α → Res γ} {g : β → Res δ}
    (h : RRel R x y) (hf : ∀ a b, R a b → RRel S (f a) (g b)) : RRel S (x.bind f) (y.bind g) :=
  bind h hf

/-- the same computation on both sides -/
theorem bind_same {x : Res α} {f : α → Res γ} {g : α → Res δ}
    (hf : ∀ a, RRel S (f a) (g a)) : RRel S (x >>= f) (x >>= g) := by
  cases x with
  | ok a => exact hf a
  | panic => exact .panic
  | declined => exact .declined

theorem refl_eq (x : Res α) : RRel (fun a b => a = b) x x := by
  cases x with
  | ok a => exact .ok rfl
  | panic => exact .panic
  | declined => exact .declined

theorem refl {R : α → α → Prop} (hR : ∀ a, R a a) (x : Res α) : RRel R x x := by
  cases x with
  | ok a => exact .ok (hR a)
  | panic => exact .panic
  | declined => exact .declined

theorem mono {R' : α → β → Prop} {x : Res α} {y : Res β} (h : RRel R x y) (hRS : ∀ a b, R a b → R' a b) :
    RRel R' x y := by
  cases h with
  | ok h => exact .ok (hRS _ _ h)
  | panic => exact .panic
  | declined => exact .declined

theorem symm {R : α → α → Prop} (hR : ∀ a b, R a b → R b a) {x y : Res α} (h : RRel R x y) : RRel R y x := by
  cases h with
  | ok h => exact .ok (hR _ _ h)
  | panic => exact .panic
  | declined => exact .declined

theorem trans {R : α → α → Prop} (hR : ∀ a b c, R a b → R b c → R a c) {x y z : Res α}
    (h : RRel R x y) (h' : RRel R y z) : RRel R x z := by
  cases h with
  | ok h => cases h' with
    | ok h' => exact .ok (hR _ _ _ h h')
  | panic => cases h' with
    | panic => exact .panic
  | declined => cases h' with
    | declined => exact .declined

theorem comp {S' : β → γ → Prop} {x : Res α} {y : Res β} {z : Res γ} (h : RRel R x y) (h' : RRel S' y z) :
    RRel (fun a c => ∃ b, R a b ∧ S' b c) x z := by
  cases h with
  | ok h => cases h' with
    | ok h' => exact .ok ⟨_, h, h'⟩
  | panic => cases h' with
    | panic => exact .panic
  | declined => cases h' with
    | declined => exact .declined

theorem ok_ok {a : α} {b : β} (h : RRel R (.ok a) (.ok b)) : R a b := by
  cases h with
  | ok h => exact h

theorem of_ok {a : α} {y : Res β} (h : RRel R (.ok a) y) : ∃ b, y = .ok b ∧ R a b := by
  cases h with
  | ok h => exact ⟨_, rfl, h⟩

theorem of_ok' {x : Res α} {b : β} (h : RRel R x (.ok b)) : ∃ a, x = .ok a ∧ R a b := by
  cases h with
  | ok h => exact ⟨_, rfl, h⟩

theorem panic_iff {x : Res α} {y : Res β} (h : RRel R x y) : (∃ s, x = .panic s) ↔ ∃ s, y = .panic s := by
  cases h <;> simp

/-- `if` with equal conditions -/
theorem ite {p q : Prop} [Decidable p] [Decidable q] {t e : Res α} {t' e' : Res β} (hpq : p ↔ q)
    (ht : p → q → RRel R t t') (he : ¬ p → ¬ q → RRel R e e') :
    RRel R (if p then t else e) (if q then t' else e') := by
  by_cases hp : p
  · rw [if_pos hp, if_pos (hpq.1 hp)]; exact ht hp (hpq.1 hp)
  · rw [if_neg hp, if_neg (fun hq => hp (hpq.2 hq))]; exact he hp (fun hq => hp (hpq.2 hq))

/-- `if` on Booleans -/
theorem bite {b b' : Bool} {t e : Res α} {t' e' : Res β} (hb : b = b')
    (ht : b = true → b' = true → RRel R t t') (he : b = false → b' = false → RRel R e e') :
    RRel R (if b = true then t else e) (if b' = true then t' else e') := by
  subst hb
  cases b with
  | true => exact ht rfl rfl
  | false => exact he rfl rfl

end RRel

/-- the optional value of a `Res Option` computation -/
theorem Res.bind_def {α β : Type} (x : Res α) (f : α → Res β) : x.bind f = (x >>= f) := rfl

/-! ## pointwise related lists -/

inductive All2 {α β : Type} (R : α → β → Prop) : List α → List β → Prop
  | nil : All2 R [] []
  | cons {a : α} {b : β} {l : List α} {l' : List β} : R a b → All2 R l l' → All2 R (a :: l) (b :: l')

namespace All2
variable {α β γ δ : Type} {R : α → β → Prop}

theorem length_eq {l : List α} {l' : List β} (h : All2 R l l') : l.length = l'.length := by
  induction h with
  | nil => rfl
  | cons _ _ ih => simp [ih]

theorem refl {R : α → α → Prop} (hR : ∀ a, R a a) (l : List α) : All2 R l l := by
  induction l with
  | nil => exact .nil
  | cons a t ih => exact .cons (hR a) ih

theorem refl_on {R : α → α → Prop} {l : List α} (hR : ∀ a ∈ l, R a a) : All2 R l l := by
  induction l with
  | nil => exact .nil
  | cons a t ih => exact .cons (hR a (List.mem_cons_self ..)) (ih fun x hx => hR x (List.mem_cons_of_mem _ hx))

theorem flip {l : List α} {l' : List β} (h : All2 R l l') : All2 (fun b a => R a b) l' l := by
  induction h with
  | nil => exact .nil
  | cons h _ ih => exact .cons h ih

theorem symm {R : α → α → Prop} (hR : ∀ a b, R a b → R b a) {l l' : List α} (h : All2 R l l') : All2 R l' l := by
  induction h with
  | nil => exact .nil
  | cons h _ ih => exact .cons (hR _ _ h) ih

theorem mono {S : α → β → Prop} {l : List α} {l' : List β} (h : All2 R l l') (hRS : ∀ a b, R a b → S a b) :
    All2 S l l' := by
  induction h with
  | nil => exact .nil
  | cons h _ ih => exact .cons (hRS _ _ h) ih

theorem trans {S : β → γ → Prop} {T : α → γ → Prop} (hT : ∀ a b c, R a b → S b c → T a c)
    {l : List α} {l' : List β} {l'' : List γ} (h : All2 R l l') (h' : All2 S l' l'') : All2 T l l'' := by
  induction h generalizing l'' with
  | nil => cases h'; exact .nil
  | cons h _ ih =>
    cases h' with
    | cons h' t' => exact .cons (hT _ _ _ h h') (ih t')

theorem eq {l l' : List α} (h : All2 (fun a b => a = b) l l') : l = l' := by
  induction h with
  | nil => rfl
  | cons h _ ih => rw [h, ih]

theorem map {S : γ → δ → Prop} {f : α → γ} {g : β → δ} {l : List α} {l' : List β} (h : All2 R l l')
    (hf : ∀ a b, R a b → S (f a) (g b)) : All2 S (l.map f) (l'.map g) := by
  induction h with
  | nil => exact .nil
  | cons h _ ih => exact .cons (hf _ _ h) ih

theorem append {l₁ l₂ : List α} {l₁' l₂' : List β} (h₁ : All2 R l₁ l₁') (h₂ : All2 R l₂ l₂') :
    All2 R (l₁ ++ l₂) (l₁' ++ l₂') := by
  induction h₁ with
  | nil => exact h₂
  | cons h _ ih => exact .cons h ih

theorem mem_left {l : List α} {l' : List β} (h : All2 R l l') {a : α} (ha : a ∈ l) : ∃ b ∈ l', R a b := by
  induction h with
  | nil => cases ha
  | cons h _ ih =>
    rcases List.mem_cons.1 ha with rfl | ha
    · exact ⟨_, List.mem_cons_self .., h⟩
    · obtain ⟨b, hb, hr⟩ := ih ha
      exact ⟨b, List.mem_cons_of_mem _ hb, hr⟩

theorem mem_right {l : List α} {l' : List β} (h : All2 R l l') {b : β} (hb : b ∈ l') : ∃ a ∈ l, R a b := by
  obtain ⟨a, ha, hr⟩ := h.flip.mem_left hb
  exact ⟨a, ha, hr⟩

theorem filter {p : α → Bool} {q : β → Bool} {l : List α} {l' : List β} (h : All2 R l l')
    (hpq : ∀ a b, R a b → p a = q b) : All2 R (l.filter p) (l'.filter q) := by
  induction h with
  | nil => exact .nil
  | cons h _ ih =>
    simp only [List.filter_cons, hpq _ _ h]
    split
    · exact .cons h ih
    · exact ih

/-- a permutation of the right list can be mirrored on the left -/
theorem perm_right {l : List α} {m m' : List β} (h : All2 R l m) (hp : m.Perm m') :
    ∃ l', l.Perm l' ∧ All2 R l' m' := by
  induction hp generalizing l with
  | nil => exact ⟨l, List.Perm.refl _, h⟩
  | cons x _ ih =>
    cases h with
    | cons h t =>
      obtain ⟨l', hp', ha⟩ := ih t
      exact ⟨_ :: l', hp'.cons _, .cons h ha⟩
  | swap x y t =>
    cases h with
    | cons h1 t1 =>
      cases t1 with
      | cons h2 t2 => exact ⟨_, List.Perm.swap _ _ _, .cons h2 (.cons h1 t2)⟩
  | trans _ _ ih1 ih2 =>
    obtain ⟨l1, hp1, ha1⟩ := ih1 h
    obtain ⟨l2, hp2, ha2⟩ := ih2 ha1
    exact ⟨l2, hp1.trans hp2, ha2⟩

theorem perm_left {l l' : List α} {m : List β} (h : All2 R l m) (hp : l.Perm l') :
    ∃ m', m.Perm m' ∧ All2 R l' m' := by
  obtain ⟨m', hp', ha⟩ := h.flip.perm_right hp
  exact ⟨m', hp', ha.flip⟩

theorem flatten_perm {l l' : List (List α)} (h : All2 List.Perm l l') : l.flatten.Perm l'.flatten := by
  induction h with
  | nil => exact List.Perm.refl _
  | cons h _ ih => simp only [List.flatten_cons]; exact h.append ih

end All2

/-! ## permutations up to a relation -/

def PermR {α : Type} (R : α → α → Prop) (l l' : List α) : Prop := ∃ mid, l.Perm mid ∧ All2 R mid l'

namespace PermR
variable {α β : Type} {R : α → α → Prop}

theorem of_perm (hR : ∀ a, R a a) {l l' : List α} (h : l.Perm l') : PermR R l l' := ⟨l', h, All2.refl hR l'⟩

theorem of_all2 {l l' : List α} (h : All2 R l l') : PermR R l l' := ⟨l, List.Perm.refl _, h⟩

theorem refl (hR : ∀ a, R a a) (l : List α) : PermR R l l := of_perm hR (List.Perm.refl _)

theorem symm (hR : ∀ a b, R a b → R b a) {l l' : List α} (h : PermR R l l') : PermR R l' l := by
  obtain ⟨mid, hp, ha⟩ := h
  obtain ⟨m', hp', ha'⟩ := (ha.symm hR).perm_right hp.symm
  exact ⟨m', hp', ha'⟩

theorem trans (hR : ∀ a b c, R a b → R b c → R a c) {l l' l'' : List α} (h : PermR R l l') (h' : PermR R l' l'') :
    PermR R l l'' := by
  obtain ⟨m1, hp1, ha1⟩ := h
  obtain ⟨m2, hp2, ha2⟩ := h'
  obtain ⟨m3, hp3, ha3⟩ := ha1.perm_right hp2
  exact ⟨m3, hp1.trans hp3, ha3.trans hR ha2⟩

theorem length_eq {l l' : List α} (h : PermR R l l') : l.length = l'.length := by
  obtain ⟨mid, hp, ha⟩ := h
  rw [hp.length_eq, ha.length_eq]

theorem perm {l l' : List α} (h : PermR (fun a b => a = b) l l') : l.Perm l' := by
  obtain ⟨mid, hp, ha⟩ := h
  rw [← ha.eq]; exact hp

theorem mono {S : α → α → Prop} {l l' : List α} (h : PermR R l l') (hRS : ∀ a b, R a b → S a b) : PermR S l l' := by
  obtain ⟨mid, hp, ha⟩ := h
  exact ⟨mid, hp, ha.mono hRS⟩

theorem map {S : β → β → Prop} {f g : α → β} {l l' : List α} (h : PermR R l l')
    (hf : ∀ a b, R a b → S (f a) (g b)) : PermR S (l.map f) (l'.map g) := by
  obtain ⟨mid, hp, ha⟩ := h
  exact ⟨mid.map f, hp.map f, ha.map hf⟩

theorem map_perm {f g : α → β} {l l' : List α} (h : PermR R l l')
    (hf : ∀ a b, R a b → f a = g b) : (l.map f).Perm (l'.map g) :=
  (h.map (S := fun a b => a = b) hf).perm

theorem filter {p q : α → Bool} {l l' : List α} (h : PermR R l l') (hpq : ∀ a b, R a b → p a = q b) :
    PermR R (l.filter p) (l'.filter q) := by
  obtain ⟨mid, hp, ha⟩ := h
  exact ⟨mid.filter p, hp.filter p, ha.filter hpq⟩

theorem flatten {l l' : List (List α)} (h : PermR List.Perm l l') : l.flatten.Perm l'.flatten := by
  obtain ⟨mid, hp, ha⟩ := h
  exact hp.flatten.trans ha.flatten_perm

theorem mem_left {l l' : List α} (h : PermR R l l') {a : α} (ha : a ∈ l) : ∃ b ∈ l', R a b := by
  obtain ⟨mid, hp, h2⟩ := h
  exact h2.mem_left (hp.mem_iff.1 ha)

theorem mem_right {l l' : List α} (h : PermR R l l') {b : α} (hb : b ∈ l') : ∃ a ∈ l, R a b := by
  obtain ⟨mid, hp, h2⟩ := h
  obtain ⟨a, ha, hr⟩ := h2.mem_right hb
  exact ⟨a, hp.mem_iff.2 ha, hr⟩

theorem nil_iff {l' : List α} : PermR R [] l' ↔ l' = [] := by
  constructor
  · intro h
    have := h.length_eq
    cases l' with
    | nil => rfl
    | cons _ _ => simp at this
  · rintro rfl; exact ⟨[], List.Perm.refl _, .nil⟩

end PermR

end Robust.Irc
